(* C07: WebSocket frame decoder model + FrameParser oracle *)
open Model
open Common

let rec zpat (start : int) (n : int) : z list =
  if n <= 0 then [] else z_of_int (start land 255) :: zpat (start + 1) (n - 1)

let fmt_res (r : dresult) : string =
  match r with
  | DFrame f -> "f=" ^ bytes_repr f
  | DNeedMore -> "needmore"
  | DTooBig -> "toobig"
  | DPanic -> "PANIC"

let lens (c : codec) : string =
  Printf.sprintf " rl=%d wl=%d sl=%d cap_ok=1" (List.length c.c_src.t_read) (List.length c.c_src.t_pend)
    (List.length c.c_src.t_saved)

let run (cases : case list) =
  List.iteri (fun ci c ->
    incr n_cases;
    let max = z_of_string (kv_def c.params "max" "1024") in
    let st = ref (codec_init max) in
    let agree = ref (not !oracle_only) in
    let unread = ref [] in   (* oracle: bytes fed and not yet delivered as a frame *)
    let dead = ref false in
    let oracle_live = ref true in
    List.iteri (fun i (op, impl) ->
      incr n_steps;
      let toks = split_ws op in
      bump (List.hd toks);
      let t = split_ws impl in
      let frame_of_roundtrip () =
        (match toks with
         | [_; fin; rsv; opc; masked; key; plen; pstart] ->
           build_frame (fin = "1") (z_of_string rsv) (z_of_string opc) (masked = "1") (zlist_of_hex key)
             (zpat (int_of_string pstart) (int_of_string plen))
         | _ -> failwith "bad roundtrip") in
      (* ---- model *)
      if !agree then begin
        let line = (match List.hd toks with
          | "feed" -> st := feed !st (zlist_of_hex (List.nth toks 1)); "u" ^ lens !st
          | "decode" -> let (c', r) = decode !st in st := c'; fmt_res r ^ lens !st
          | "roundtrip" ->
            let f = frame_of_roundtrip () in
            st := feed !st f;
            let (c', r) = decode !st in st := c';
            let same = (match r with DFrame g -> g = f | _ -> false) in
            Printf.sprintf "%s same=%d" (fmt_res r) (if same then 1 else 0) ^ lens !st
          | _ -> failwith ("wscodec: bad op " ^ op)) in
        visit (!st.c_src.t_read, !st.c_src.t_pend, !st.c_reset) (!st.c_reset && !st.c_src.t_pend <> []);
        if line <> impl then begin report_mismatch ci i op line impl; agree := false end
      end;
      (* ---- oracle: the pure parser on the bytes fed so far *)
      if !oracle_live then begin
        if impl = "PANIC" then begin report_oracle ci i "panic" op ""; oracle_live := false end
        else begin
          if kv_def t "cap_ok" "1" <> "1" then begin report_oracle ci i "5" op ("obs=[" ^ impl ^ "]"); oracle_live := false end;
          let check_decode () =
            let got = List.hd t in
            if !dead then (if got <> "toobig" then begin report_oracle ci i "4" op ("obs=[" ^ impl ^ "]"); oracle_live := false end)
            else match parse1 max !unread with
              | PNeedMore -> if got <> "needmore" then begin report_oracle ci i "1" op ("want=needmore obs=[" ^ impl ^ "]"); oracle_live := false end
              | PTooBig -> dead := true;
                if got <> "toobig" then begin report_oracle ci i "2" op ("want=toobig obs=[" ^ impl ^ "]"); oracle_live := false end
              | PFrame (raw, rest) ->
                unread := rest;
                if got <> "f=" ^ bytes_repr raw then begin
                  report_oracle ci i "3" op ("want=[f=" ^ bytes_repr raw ^ "] obs=[" ^ impl ^ "]"); oracle_live := false end in
          (match List.hd toks with
           | "feed" -> unread := !unread @ zlist_of_hex (List.nth toks 1)
           | "decode" -> check_decode ()
           | "roundtrip" ->
             let f = frame_of_roundtrip () in
             let fits = Z.leb (z_of_int (int_of_string (List.nth toks 6))) max in
             unread := !unread @ f;
             check_decode ();
             if !oracle_live && fits && not !dead && kv_def t "same" "0" <> "1" then begin
               report_oracle ci i "6" op ("obs=[" ^ impl ^ "]"); oracle_live := false end
           | _ -> ())
        end
      end) c.steps) cases

let () = Hashtbl.replace drivers "wscodec" run
