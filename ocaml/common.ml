(* Glue shared by all model drivers: Z conversion, trace file reading, reporting. *)
open Model

let rec pos_of_int n = if n = 1 then XH else if n land 1 = 0 then XO (pos_of_int (n lsr 1)) else XI (pos_of_int (n lsr 1))
let z_of_int n = if n = 0 then Z0 else if n > 0 then Zpos (pos_of_int n) else Zneg (pos_of_int (-n))
let rec pos_bits = function XH -> 1 | XO p | XI p -> 1 + pos_bits p
let rec int_of_pos = function XH -> 1 | XO p -> 2 * int_of_pos p | XI p -> 2 * int_of_pos p + 1
let fits = function Z0 -> true | Zpos p | Zneg p -> pos_bits p <= 61
let int_of_z = function Z0 -> 0 | Zpos p -> int_of_pos p | Zneg p -> - (int_of_pos p)

let z10 = z_of_int 10
let z_of_string (s : string) : z =
  let neg = String.length s > 0 && s.[0] = '-' in
  let acc = ref Z0 in
  String.iteri (fun i c ->
    if i = 0 && (c = '-' || c = '+') then () else begin
      if c < '0' || c > '9' then failwith ("bad integer: " ^ s);
      acc := Z.add (Z.mul !acc z10) (z_of_int (Char.code c - 48)) end) s;
  if neg then Z.opp !acc else !acc

let rec string_of_z (v : z) : string =
  if fits v then string_of_int (int_of_z v)
  else match v with
    | Zneg p -> "-" ^ string_of_z (Zpos p)
    | _ ->
      let (q, r) = Z.div_eucl v z10 in
      string_of_z q ^ string_of_int (int_of_z r)

let rec nat_of_int n = if n <= 0 then O else S (nat_of_int (n - 1))
let rec int_of_nat = function O -> 0 | S k -> 1 + int_of_nat k

let hex_of_zlist (l : z list) : string =
  if l = [] then "-" else String.concat "" (List.map (fun b -> Printf.sprintf "%02x" ((int_of_z b) land 255)) l)
let zlist_of_hex (s : string) : z list =
  if s = "-" || s = "" then [] else
  List.init (String.length s / 2) (fun i -> z_of_int (int_of_string ("0x" ^ String.sub s (2 * i) 2)))

let checksum (l : z list) : int =
  List.fold_left (fun h x -> ((h lxor ((int_of_z x) land 255)) * 16777619) mod 1000000007) 2166136261 l

(* short byte strings in hex, long ones as length:checksum *)
let bytes_repr (l : z list) : string =
  if List.length l <= 256 then hex_of_zlist l else Printf.sprintf "h%d:%d" (List.length l) (checksum l)

let split_ws s = List.filter (fun x -> x <> "") (String.split_on_char ' ' s)

(* key=value lookup in a token list *)
let kv (toks : string list) (key : string) : string option =
  let p = key ^ "=" in
  let n = String.length p in
  List.fold_left (fun acc t ->
    match acc with Some _ -> acc | None ->
      if String.length t >= n && String.sub t 0 n = p then Some (String.sub t n (String.length t - n)) else None)
    None toks
let kv_def toks key def = match kv toks key with Some v -> v | None -> def

type case = { header : string; params : string list; steps : (string * string) list (* op, observed *) }

(* split "op args => obs" *)
let split_arrow (line : string) : string * string =
  let n = String.length line in
  let rec find i = if i + 4 > n then -1 else if String.sub line i 4 = " => " then i else find (i + 1) in
  let i = find 0 in
  if i < 0 then (line, "") else (String.sub line 0 i, String.sub line (i + 4) (n - i - 4))

let read_cases (ic : in_channel) : case list =
  let cases = ref [] in
  let cur = ref None in
  (try while true do
    let line = String.trim (input_line ic) in
    if line = "" || line.[0] = '#' then ()
    else if String.length line >= 4 && String.sub line 0 4 = "case" then
      cur := Some (line, ref [])
    else if line = "end" then begin
      (match !cur with
       | Some (h, steps) -> cases := { header = h; params = split_ws h; steps = List.rev !steps } :: !cases
       | None -> ());
      cur := None end
    else match !cur with
      | Some (_, steps) -> steps := split_arrow line :: !steps
      | None -> ()
  done with End_of_file -> ());
  List.rev !cases

(* statistics *)
let n_cases = ref 0
let n_steps = ref 0
let n_mismatch = ref 0
let n_oracle = ref 0
let distinct : (string, unit) Hashtbl.t = Hashtbl.create 100003
let nontrivial : (string, unit) Hashtbl.t = Hashtbl.create 100003
let hist : (string, int) Hashtbl.t = Hashtbl.create 97
let bump k = Hashtbl.replace hist k (1 + (try Hashtbl.find hist k with Not_found -> 0))
let visit (state : 'a) (is_nontrivial : bool) =
  let key = Digest.string (Marshal.to_string state []) in
  Hashtbl.replace distinct key ();
  if is_nontrivial then Hashtbl.replace nontrivial key ()

let report_mismatch ci step op model impl =
  incr n_mismatch;
  Printf.printf "MISMATCH case=%d step=%d op=[%s] model=[%s] impl=[%s]\n" ci step op model impl
let report_oracle ci step clause op detail =
  incr n_oracle;
  Printf.printf "ORACLE-FAIL case=%d step=%d clause=%s op=[%s] %s\n" ci step clause op detail

let dump_digests () =
  match Sys.getenv_opt "MODELRUN_DIGESTS" with
  | None -> ()
  | Some path ->
    let oc = open_out path in
    Hashtbl.iter (fun k () -> Printf.fprintf oc "%s %d\n" (Digest.to_hex k) (if Hashtbl.mem nontrivial k then 1 else 0)) distinct;
    close_out oc

let print_stats () =
  dump_digests ();
  Printf.printf "STATS cases=%d steps=%d mismatches=%d oracle_fails=%d distinct_states=%d nontrivial_states=%d\n"
    !n_cases !n_steps !n_mismatch !n_oracle (Hashtbl.length distinct) (Hashtbl.length nontrivial);
  let items = Hashtbl.fold (fun k v acc -> (k, v) :: acc) hist [] in
  let items = List.sort compare items in
  Printf.printf "HIST %s\n" (String.concat " " (List.map (fun (k, v) -> Printf.sprintf "%s=%d" k v) items))

let oracle_only = ref false

let drivers : (string, case list -> unit) Hashtbl.t = Hashtbl.create 17
