(* C19: CodecConn + length-prefixed codec model, LenParser oracle *)
open Model
open Common

let rec zpat (start : int) (n : int) : z list =
  if n <= 0 then [] else z_of_int (start land 255) :: zpat (start + 1) (n - 1)

let parse_op (op : string) : lcop =
  match split_ws op with
  | ["in"; h] -> LIn (InData (zlist_of_hex h))
  | ["ineof"] -> LIn InEof
  | ["inerr"] -> LIn InErr
  | ["readnext"] -> LReadNext
  | ["areadnext"] -> LAsyncReadNext
  | ["writenext"; h] -> LWriteNext (zlist_of_hex h)
  | ["writepat"; n; s] -> LWriteNext (zpat (int_of_string s) (int_of_string n))
  | ["awritenext"; h] -> LAsyncWriteNext (zlist_of_hex h)
  | ["awritepat"; n; s] -> LAsyncWriteNext (zpat (int_of_string s) (int_of_string n))
  | ["wfail"; n] -> LWFail (z_of_string n)
  | ["wblock"] -> LWBlock
  | ["wunblock"] -> LWUnblock
  | _ -> failwith ("codecconn: bad op " ^ op)

(* the implementation-side syntax of a result, given which operation produced it *)
let fmt_ret (op : string) (r : lcret) : string =
  let kind = List.hd (split_ws op) in
  let cb_read = function
    | CItem p -> " rcb=item:" ^ bytes_repr p
    | CErr e -> " rcb=err:" ^ string_of_z e
    | _ -> "" in
  let cb_write = function
    | CWrote (n, e) -> Printf.sprintf " wcb=%s:%s" (string_of_z n) (string_of_z e)
    | _ -> "" in
  match kind with
  | "readnext" -> (match r with CItem p -> "item:" ^ bytes_repr p | CErr e -> "err:" ^ string_of_z e | _ -> "?")
  | "areadnext" -> (match r with CPending -> "pending" | _ -> "done" ^ cb_read r)
  | "in" | "ineof" | "inerr" -> "u" ^ cb_read r
  | "writenext" | "writepat" -> (match r with CWrote (n, e) -> Printf.sprintf "w=%s:%s" (string_of_z n) (string_of_z e) | _ -> "?")
  | "awritenext" | "awritepat" -> (match r with CPending -> "pending" | _ -> "done" ^ cb_write r)
  | "wunblock" -> "u" ^ cb_write r
  | _ -> "u"

let run (cases : case list) =
  List.iteri (fun ci c ->
    incr n_cases;
    let st = ref lconn_init in
    let agree = ref (not !oracle_only) in
    (* oracle state *)
    let inq = ref [] in          (* inbound bytes not yet parsed into items, and whether EOF/err was queued *)
    let wire_expect = ref [] in  (* bytes of an in-flight (parked) write *)
    let fed = ref 0 in
    let legit = ref 0 in
    let expected = ref [] in      (* concatenation of the encodings of every item handed to a write, in order *)
    let wire_total = ref [] in
    let async_failed = ref false in
    let oracle_live = ref true in
    let fail ci i cl op impl = report_oracle ci i cl op ("obs=[" ^ impl ^ "]"); oracle_live := false in
    List.iteri (fun i (op, impl) ->
      incr n_steps;
      let toks = split_ws op in
      bump (List.hd toks);
      let t = split_ws impl in
      let mop = parse_op op in
      if !agree then begin
        let before_wire = List.length !st.lc_tr.tr_wire in
        let (s', r) = lcstep !st mop in
        st := s';
        let wire = List.filteri (fun j _ -> j >= before_wire) s'.lc_tr.tr_wire in
        let line = Printf.sprintf "%s wire=%s dst=%d:%d" (fmt_ret op r) (bytes_repr wire)
            (List.length s'.lc_dst.t_read) (List.length s'.lc_dst.t_pend) in
        visit (s'.lc_codec.l_src.t_read, s'.lc_codec.l_src.t_pend, s'.lc_codec.l_reset, s'.lc_rpend, s'.lc_wpend <> None)
          (s'.lc_codec.l_reset && (s'.lc_codec.l_src.t_pend <> [] || List.length s'.lc_codec.l_src.t_read > int_of_z s'.lc_codec.l_bytes));
        let impl_core = String.concat " " (List.filter (fun x -> not (String.length x > 4 && String.sub x 0 4 = "cap=")) t) in
        if line <> impl_core then begin report_mismatch ci i op line impl_core; agree := false end
      end;
      (* ---- oracle: items delivered are the parser's items of the inbound bytes, in order, once; successful writes put
         exactly lencode(payload) on the wire and leave nothing behind *)
      if !oracle_live then begin
        if impl = "PANIC" then fail ci i "panic" op impl
        else begin
          (match mop with LIn (InData w) -> inq := !inq @ w; fed := !fed + List.length w | _ -> ());
          (* buffering bound: capacity may grow only for declared lengths within the limit *)
          (match lparse1 !inq with
           | LNeedMore when List.length !inq >= 4 ->
             let n = int_of_z (be32 (List.filteri (fun j _ -> j < 4) !inq)) in legit := max !legit (n + 4)
           | LItem (p, _) -> legit := max !legit (List.length p + 4)
           | _ -> ());
          if int_of_string (kv_def t "cap" "0") > 2 * (!legit + !fed + 4096) then fail ci i "5" op impl;
          (* every delivered item (sync result or callback) must be the next item of the inbound byte stream *)
          let delivered = List.filter_map (fun tok ->
            let pfx k = String.length tok > String.length k && String.sub tok 0 (String.length k) = k in
            if pfx "item:" then Some (String.sub tok 5 (String.length tok - 5))
            else if pfx "rcb=item:" then Some (String.sub tok 9 (String.length tok - 9)) else None) t in
          List.iter (fun d ->
            if !oracle_live then
              match lparse1 !inq with
              | LItem (p, rest) -> inq := rest; if bytes_repr p <> d then fail ci i "1" op impl
              | _ -> fail ci i "2" op impl) delivered;
          (* a read that reports would-block/pending although a complete item is buffered or queued is a lost item *)
          (* writes *)
          let wire = kv_def t "wire" "-" in
          let payload_of = function LWriteNext p | LAsyncWriteNext p -> Some p | _ -> None in
          (* the byte stream the peer sees must always be a prefix of the items in submission order: a failed or
             would-block write may leave a remainder to be sent first by the next write, never a repetition *)
          (match payload_of mop with
           | Some p when Z.leb (z_of_int (List.length p)) frame_MaxPayloadLength -> expected := !expected @ lencode p
           | _ -> ());
          (if String.length wire > 0 && wire.[0] <> 'h' then wire_total := !wire_total @ zlist_of_hex wire
           else if wire <> "-" then async_failed := true);
          (match kv t "wcb" with
           | Some v -> (match String.split_on_char ':' v with [_; "0"] -> () | _ -> async_failed := true)
           | None -> ());
          (if not !async_failed then begin
             let n = List.length !wire_total in
             let pre = List.filteri (fun j _ -> j < n) !expected in
             if n > List.length !expected || pre <> !wire_total then fail ci i "3" op impl
           end);
          (match payload_of mop with
           | Some p when Z.leb (z_of_int (List.length p)) frame_MaxPayloadLength ->
             let enc = lencode p in
             let res = (match kv t "w", kv t "wcb" with Some v, _ -> Some v | _, Some v -> Some v | _ -> None) in
             (match res with
              | Some v ->
                let ok = (match String.split_on_char ':' v with [_; "0"] -> true | _ -> false) in
                if ok then begin
                  (* success: exactly the encoded item (after whatever an earlier failed write left) on the wire, nothing left *)
                  let w = wire in
                  let want = bytes_repr enc in
                  let suffix_ok = (w = want) || (String.length w >= String.length want &&
                                    String.sub w (String.length w - String.length want) (String.length want) = want)
                                  || (String.length w > 0 && w.[0] = 'h') in
                  if not suffix_ok then fail ci i "3" op impl;
                  if kv_def t "dst" "0:0" <> "0:0" then fail ci i "4" op impl
                end
              | None -> wire_expect := enc)
           | _ -> ());
          (match mop with
           | LWUnblock ->
             (match kv t "wcb" with
              | Some v ->
                let ok = (match String.split_on_char ':' v with [_; "0"] -> true | _ -> false) in
                if ok && !wire_expect <> [] then begin
                  if wire <> bytes_repr !wire_expect && not (String.length wire > 0 && wire.[0] = 'h') then fail ci i "3" op impl;
                  if kv_def t "dst" "0:0" <> "0:0" then fail ci i "4" op impl
                end;
                wire_expect := []
              | None -> ())
           | _ -> ())
        end
      end) c.steps) cases

let () = Hashtbl.replace drivers "codecconn" run
