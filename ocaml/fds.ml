(* C13: descriptor table model (Model/Ctors.v) against the /proc/self/fd census of the implementation. *)
open Model
open Common

let fails = ["refused"; "inuse"; "badaddr"; "missing"; "bad"; "badstatus"; "closeearly"; "garbage"]

let run (cases : case list) =
  List.iteri (fun ci c ->
    incr n_cases;
    let st = ref { fs_table = []; fs_objs = []; fs_guarded = true } in
    let agree = ref (not !oracle_only) in
    let oracle_live = ref true in
    let fail i cl op impl = report_oracle ci i cl op ("obs=[" ^ impl ^ "]"); oracle_live := false in
    let prev_open = ref 0 in
    let o_live : (string, int) Hashtbl.t = Hashtbl.create 7 in
    List.iteri (fun i (op, impl) ->
      incr n_steps;
      let toks = split_ws op in
      bump (List.hd toks);
      let t = split_ws impl in
      let strip l = String.concat " " (List.filter (fun x -> not (String.length x > 4 && String.sub x 0 4 = "err=")) l) in
      let nfds kind = if kind = "io" then 2 else 1 in
      if !agree then begin
        let openn () = List.length !st.fs_table in
        let line = (match toks with
          | ["census"] -> Printf.sprintf "open=%d" (openn ())
          | ["close"; id] ->
            let k = z_of_string id in
            st := fstep !st (FClose k); st := fstep !st (FClose (Z.add k (z_of_int 1000)));
            Printf.sprintf "open=%d intact=1 rooted=1" (openn ())
          | ["aread"; _] | ["pread"; _] | ["pwrites"; _; _] | ["areadall"; _] | ["feed"; _; _] | ["poll"] | ["aaccept"; _] | ["connect"; _] -> Printf.sprintf "open=%d intact=1 rooted=1" (openn ())
          | ["gcprobe"; m] -> Printf.sprintf "read=1 write=%d wantwrite=%d early=0" (if m = "both" then 1 else 0) (if m = "both" then 1 else 0)
          | kind :: id :: how :: _ ->
            if List.mem how fails then Printf.sprintf "ok=0 open=%d" (openn ())
            else begin
              let k = z_of_string id in
              st := fstep !st (FNew k);
              if nfds kind = 2 then st := fstep !st (FNew (Z.add k (z_of_int 1000)));
              Printf.sprintf "ok=1 open=%d" (openn ())
            end
          | _ -> failwith ("fds: bad op " ^ op)) in
        visit (List.length !st.fs_table, List.length !st.fs_objs) (List.length !st.fs_table > 1);
        if line <> strip t then begin report_mismatch ci i op line (strip t); agree := false end
      end;
      if !oracle_live then begin
        if impl = "PANIC" then fail i "panic" op impl
        else begin
          let openv = (match kv t "open" with Some v -> int_of_string v | None -> !prev_open) in
          (match toks with
           | ["census"] -> if Hashtbl.length o_live = 0 && openv <> 0 then fail i "3" op impl
           | ["close"; id] ->
             if kv_def t "intact" "1" <> "1" then fail i "2" op impl
             else if kv_def t "rooted" "1" <> "1" then fail i "4" op impl
             else begin
               (match Hashtbl.find_opt o_live id with
                | Some n -> Hashtbl.remove o_live id; if openv <> !prev_open - n then fail i "3" op impl
                | None -> if openv <> !prev_open then fail i "2" op impl)      (* a repeated Close released something *)
             end
           | ["aread"; _] | ["pread"; _] | ["pwrites"; _; _] | ["areadall"; _] | ["feed"; _; _] | ["poll"] | ["aaccept"; _] | ["connect"; _] ->
             if kv_def t "intact" "1" <> "1" then fail i "2" op impl else if kv_def t "rooted" "1" <> "1" then fail i "4" op impl
           | ["gcprobe"; _] ->
             if kv_def t "early" "" <> "0" || kv_def t "read" "" <> "1" || kv_def t "write" "" <> kv_def t "wantwrite" "" then fail i "4" op impl
           | kind :: id :: _ ->
             if kv_def t "ok" "" = "0" then (if openv <> !prev_open then fail i "1" op impl)
             else begin
               Hashtbl.replace o_live id (nfds kind);
               if openv <> !prev_open + nfds kind then fail i "1" op impl
             end
           | _ -> ());
          prev_open := openv
        end
      end) c.steps) cases

let () = Hashtbl.replace drivers "fds" run
