let () =
  if Array.length Sys.argv < 2 then (prerr_endline "usage: modelrun <driver> < traces"; exit 2);
  let name = Sys.argv.(1) in
  if Array.length Sys.argv > 2 && Sys.argv.(2) = "--oracle-only" then Common.oracle_only := true;
  match Hashtbl.find_opt Common.drivers name with
  | None -> prerr_endline ("unknown driver " ^ name); exit 2
  | Some f ->
    let cases = Common.read_cases stdin in
    f cases;
    Common.print_stats ()
