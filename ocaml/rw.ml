(* C02: read/write reactor model (Model/RW.v) against the implementation; independent stream oracle on the
   implementation's trace. *)
open Model
open Common

(* position-dependent byte generators shared with the Go driver *)
let in_byte (k : int) : int = (k * 7 + k / 251 + 3) land 255
let out_byte (start : int) (k : int) : int = (start + k * 5 + k / 127) land 255
let rec gen f a n = if n <= 0 then [] else z_of_int (f a) :: gen f (a + 1) (n - 1)
let gen_list f a n = List.init n (fun i -> z_of_int (f (a + i)))

let parse_script (s : string) : (z * z) list =
  if s = "-" then [] else
  List.map (fun p -> match String.split_on_char ':' p with
    | [n; e] -> (z_of_string n, z_of_string e) | _ -> failwith ("rw: bad script " ^ s)) (String.split_on_char ',' s)

let fmt_ev = function
  | EvR (cb, e, n, d, _, _) -> Printf.sprintf "R%s:%s:%s:%s" (string_of_z cb) (string_of_z e) (string_of_z n) (bytes_repr d)
  | EvW (cb, e, n, _, _) -> Printf.sprintf "W%s:%s:%s" (string_of_z cb) (string_of_z e) (string_of_z n)

let rec take n l = if n <= 0 then [] else match l with [] -> [] | x :: r -> x :: take (n - 1) r
let rec drop n l = if n <= 0 then l else match l with [] -> [] | _ :: r -> drop (n - 1) r

let run (cases : case list) =
  List.iteri (fun ci c ->
    incr n_cases;
    let fl = if kv_def c.params "flav" "file" = "adapter" then FAdapter else FFile in
    let st = ref (rw_init fl) in
    let agree = ref (not !oracle_only) in
    let sent_pos = ref 0 in
    (* oracle state: bytes sent by the peer and not yet delivered; reads/writes in flight; expected wire *)
    let o_in = ref [] in
    let o_rd : (string, bool * int) Hashtbl.t = Hashtbl.create 7 in
    let o_wr : (string, bool * int * int) Hashtbl.t = Hashtbl.create 7 in
    let o_wire = ref [] in            (* concatenation of b[0:n] of the completed writes, in callback order *)
    let o_wr_inflight = ref None in
    let oracle_live = ref true in
    let fail i cl op impl = report_oracle ci i cl op ("obs=[" ^ impl ^ "]"); oracle_live := false in
    List.iteri (fun i (op, impl) ->
      incr n_steps;
      let toks = split_ws op in
      bump (List.hd toks);
      let mop = (match toks with
        | ["rstart"; all; len; cb] -> Some (ORStart (all = "1", z_of_string len, z_of_string cb))
        | ["wstart"; all; len; cb; start] ->
          Some (OWStart (all = "1", gen_list (out_byte (int_of_string start)) 0 (int_of_string len), z_of_string cb))
        | ["poll"] -> Some OPoll
        | ["peerdata"; n] ->
          let n = int_of_string n in
          let d = gen_list in_byte !sent_pos n in
          sent_pos := !sent_pos + n; Some (OPeerData d)
        | ["peereof"] -> Some OPeerEof
        | ["rscript"; s] -> Some (ORScript (parse_script s))
        | ["wscript"; s] -> Some (OWScript (parse_script s))
        | ["wire"] -> None
        | ["smallbuf"] | ["peeroob"] -> None
        | _ -> failwith ("rw: bad op " ^ op)) in
      if !agree then begin
        let before = List.length !st.rws_log in
        (match mop with Some o -> st := rwstep !st o | None -> ());
        let s' = !st in
        let nnew = List.length s'.rws_log - before in
        let evs = List.rev (take nnew s'.rws_log) in
        let line = String.concat " " (List.map fmt_ev evs
          @ [Printf.sprintf "inflight=r%dw%d" (if s'.rws_rd = None then 0 else 1) (if s'.rws_wr = None then 0 else 1)]
          @ (if toks = ["wire"] then [Printf.sprintf "wire=%d:%d" (List.length s'.rws_wire) (checksum s'.rws_wire)] else [])) in
        visit (List.length s'.rws_in, s'.rws_eof, s'.rws_rscript, s'.rws_wscript,
               (match s'.rws_rd with Some p -> Some (p.rd_all, p.rd_len, p.rd_sofar) | None -> None),
               (match s'.rws_wr with Some p -> Some (p.wr_all, List.length p.wr_buf, p.wr_sofar) | None -> None))
          ((match s'.rws_rd with Some p -> int_of_z p.rd_sofar > 0 | None -> false) || (match s'.rws_wr with Some p -> int_of_z p.wr_sofar > 0 | None -> false));
        if s'.rws_fuel_out then begin report_mismatch ci i op "MODEL-OUT-OF-FUEL" impl; agree := false end
        else if line <> impl then begin report_mismatch ci i op line impl; agree := false end
      end;
      (* ---- oracle on the implementation's observation *)
      if !oracle_live then begin
        if impl = "PANIC" then fail i "panic" op impl
        else begin
          (match mop with
           | Some (OPeerData d) -> o_in := !o_in @ d
           | Some (ORStart (all, len, cb)) -> Hashtbl.replace o_rd (string_of_z cb) (all, int_of_z len)
           | Some (OWStart (all, buf, cb)) ->
             (match toks with [_; _; len; _; start] -> Hashtbl.replace o_wr (string_of_z cb) (all, int_of_string len, int_of_string start) | _ -> ())
           | _ -> ());
          List.iter (fun tok ->
            if !oracle_live && String.length tok > 1 && (tok.[0] = 'R' || tok.[0] = 'W') && tok <> "PANIC" then
              match String.split_on_char ':' (String.sub tok 1 (String.length tok - 1)) with
              | cb :: e :: n :: rest when tok.[0] = 'R' ->
                let n = int_of_string n in
                let data = String.concat ":" rest in
                (match Hashtbl.find_opt o_rd cb with
                 | None -> fail i "5" op impl      (* callback of an operation that is not in flight *)
                 | Some (all, len) ->
                   Hashtbl.remove o_rd cb;
                   (* 1: the bytes delivered are the next n bytes the peer sent *)
                   let expect = take n !o_in in
                   if List.length expect < n || bytes_repr expect <> data then fail i "1" op impl
                   else begin
                     o_in := drop n !o_in;
                     if n < 0 || n > len then fail i "2" op impl
                     else if e = "0" && all && n <> len then fail i "3" op impl
                   end)
              | [cb; e; n] when tok.[0] = 'W' ->
                let n = int_of_string n in
                (match Hashtbl.find_opt o_wr cb with
                 | None -> fail i "5" op impl
                 | Some (all, len, start) ->
                   Hashtbl.remove o_wr cb;
                   if n < 0 || n > len then fail i "2" op impl
                   else if e = "0" && all && n <> len then fail i "3" op impl
                   else o_wire := !o_wire @ gen_list (out_byte start) 0 n)
              | _ -> ()) (split_ws impl);
          if List.mem "tail=bad" (split_ws impl) then fail i "6" op impl;
          (* 4: with no write in flight the transport received exactly the accepted prefixes, in order *)
          (match kv (split_ws impl) "wire" with
           | Some w when Hashtbl.length o_wr = 0 ->
             if w <> Printf.sprintf "%d:%d" (List.length !o_wire) (checksum !o_wire) then fail i "4" op impl
           | _ -> ());
          ignore o_wr_inflight
        end
      end) c.steps) cases

let () = Hashtbl.replace drivers "rw" run
