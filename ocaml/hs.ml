(* C18: handshake model (Model/Handshake.v) against the implementation; the messages read after the handshake are
   judged with the frame parser on the model's remaining byte stream. *)
open Model
open Common

let replace_all (s : z list) (pat : z list) (rep : z list) : z list =
  let n = List.length pat in
  let rec go l =
    if List.length l < n then l
    else if List.filteri (fun j _ -> j < n) l = pat then rep @ go (List.filteri (fun j _ -> j >= n) l)
    else (List.hd l) :: go (List.tl l) in
  go s

let zl_of_string (s : string) : z list = List.init (String.length s) (fun i -> z_of_int (Char.code s.[i]))
let rec take n l = if n <= 0 then [] else match l with [] -> [] | x :: r -> x :: take (n - 1) r
let rec drop n l = if n <= 0 then l else match l with [] -> [] | _ :: r -> drop (n - 1) r

let rec flat (tr : tev list) : z list =
  match tr with [] -> [] | TChunk d :: r -> d @ flat r | _ :: r -> flat r

(* the next (server, unmasked) frame of a byte stream: opcode, payload, rest *)
let next_frame (bs : z list) : (int * z list * z list) option =
  match parse1 (z_of_int 1000000) bs with
  | PFrame (raw, r) ->
    let l7 = (int_of_z (List.nth raw 1)) land 127 in
    let ext = if l7 = 126 then 2 else if l7 = 127 then 8 else 0 in
    Some ((int_of_z (List.hd raw)) land 15, drop (2 + ext) raw, r)
  | _ -> None

let run (cases : case list) =
  List.iteri (fun ci c ->
    incr n_cases;
    let st = ref hs_init in
    let rest = ref [] in     (* bytes the frame decoder will still receive from the transport *)
    let agree = ref (not !oracle_only) in
    let oracle_live = ref true in
    let fail i cl op impl = report_oracle ci i cl op ("obs=[" ^ impl ^ "]"); oracle_live := false in
    (* oracle state: the bytes the server sent after the blank line, for the current connection *)
    let o_after = ref None in
    let closed = ref false in
    let o_active = ref false in
    List.iteri (fun i (op, impl) ->
      incr n_steps;
      let toks = split_ws op in
      bump (List.hd toks);
      let t = split_ws impl in
      (match toks with
       | ["hs"; mode; tmpl; cuts; close_at; frames; extra] ->
         let acc = zl_of_string (kv_def t "acc" "") in
         (* @S@: the right accept value with the case of every letter swapped (base64 is case sensitive: a wrong value) *)
         let swap z = let c = int_of_z z in
           if c >= 65 && c <= 90 then z_of_int (c + 32) else if c >= 97 && c <= 122 then z_of_int (c - 32) else z in
         let out = replace_all (replace_all (zlist_of_hex tmpl) (zl_of_string "@A@") acc) (zl_of_string "@S@") (List.map swap acc)
                   @ zlist_of_hex frames in
         let close_at = int_of_string close_at in
         closed := close_at >= 0 && close_at < List.length out;
         let out = if close_at >= 0 && close_at < List.length out then take close_at out else out in
         let cuts = if cuts = "-" then [] else List.map int_of_string (String.split_on_char ',' cuts) in
         let rec chunks prev cs =
           match cs with
           | [] -> if prev < List.length out then [TChunk (drop prev out)] else []
           | k :: r -> if k > prev && k < List.length out then TChunk (take (k - prev) (drop prev out)) :: chunks k r else chunks prev r in
         let tr = chunks 0 cuts in
         if !agree then begin
           let ((s', cls), tr1) = handshake !st tr acc in
           st := s'; rest := flat tr1;
           visit (s'.h_state, List.length s'.h_src, cls, List.length tr) (List.length tr > 1 && List.length s'.h_src > 0);
           let line = Printf.sprintf "req=ok fresh=1 err=%s state=%s src=%s" (string_of_z cls) (string_of_z s'.h_state) (hex_of_zlist s'.h_src) in
           let impl_core = String.concat " " (List.filter (fun x -> not (String.length x > 4 && String.sub x 0 4 = "acc=")) t) in
           if line <> impl_core then begin report_mismatch ci i op line impl_core; agree := false end
         end;
         if !oracle_live then begin
           if impl = "PANIC" then fail i "panic" op impl
           else if impl = "HANDSHAKE-TIMEOUT" then begin
             (* 7: only a violation if the server delivered a complete head or closed (otherwise the client is right to wait) *)
             let crlf2 = zl_of_string "\r\n\r\n" in
             let rec has l = List.length l >= 4 && (take 4 l = crlf2 || has (List.tl l)) in
             if has out || !closed then fail i "7" op impl else oracle_live := false
           end
           else begin
             (* 1: the request is well-formed, the key fresh *)
             if kv_def t "req" "" <> "ok" || kv_def t "fresh" "" <> "1" then fail i "1" op impl
             else begin
               (* independent judgement: the head is everything up to the first CR LF CR LF of what the server sent *)
               let crlf2 = zl_of_string "\r\n\r\n" in
               let rec find l k = if List.length l < 4 then None else if take 4 l = crlf2 then Some (k + 4) else find (List.tl l) (k + 1) in
               let err = kv_def t "err" "" and state = kv_def t "state" "" in
               o_active := (state = "1");
               (* 2: active iff nil; otherwise terminated *)
               if (err = "0") <> (state = "1") || (err <> "0" && state <> "5") then fail i "2" op impl
               else begin
                 match find out 0 with
                 | None -> o_after := None; if err = "0" then fail i "3" op impl      (* accepted an incomplete head *)
                 | Some e when e > 65536 -> o_after := None     (* heads above the size limit are out of scope *)
                 | Some e ->
                   let head = take e out in
                   let want = hs_verdict head acc in
                   o_after := Some (drop e out);
                   (* 3: accepted iff 101 + Upgrade: websocket + the right accept value *)
                   if (err = "0") <> (int_of_z want = 0) then fail i "3" op impl
                   else if err = "0" then begin
                     (* 4: what the decoder holds is a prefix of the bytes after the blank line *)
                     let src = zlist_of_hex (kv_def t "src" "-") in
                     let after = drop e out in
                     if List.length src > List.length after || take (List.length src) after <> src then fail i "4" op impl
                   end
               end
             end
           end
         end
       | ["read"] ->
         if !agree then begin
           let stream = !st.h_src @ !rest in
           let line = (match next_frame stream with
             | Some (opc, payload, r) ->
               (* everything consumed so far comes out of h_src first *)
               let consumed = List.length stream - List.length r in
               let nsrc = List.length !st.h_src in
               if consumed <= nsrc then st := { !st with h_src = drop consumed !st.h_src }
               else begin st := { !st with h_src = [] }; rest := drop (consumed - nsrc) !rest end;
               Printf.sprintf "msg=%d:%s" opc (hex_of_zlist payload)
             | None -> if !closed then "msg=err:2" else "msg=timeout") in
           let line = if int_of_z !st.h_state <> 1 then "msg=err:2" else line in
           if line <> impl then begin report_mismatch ci i op line impl; agree := false end
         end;
         if !oracle_live then begin
           if impl = "PANIC" then fail i "panic" op impl
           else if not !o_active then (if impl <> "msg=err:2" then fail i "6" op impl)
           else match !o_after with
             | None -> ()
             | Some after ->
               (match next_frame after with
                | Some (opc, payload, r) ->
                  o_after := Some r;
                  (* 5: every byte after the blank line is frame data: the next message is the next frame sent *)
                  if impl <> Printf.sprintf "msg=%d:%s" opc (hex_of_zlist payload) then fail i "5" op impl
                | None -> if impl <> (if !closed then "msg=err:2" else "msg=timeout") then fail i "6" op impl)
         end
       | _ -> failwith ("hs: bad op " ^ op))) c.steps) cases

let () = Hashtbl.replace drivers "hs" run
