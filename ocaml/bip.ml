(* C10: BipBuffer model + ByteQueue oracle against observed traces *)
open Model
open Common

let parse_op (op : string) : bop * qop =
  match split_ws op with
  | ["claim"; n] -> let n = z_of_string n in (BClaim n, QClaim n)
  | ["fill"; s] -> let s = z_of_string s in (BFill s, QFill s)
  | ["write"; h] -> let w = zlist_of_hex h in (BWrite w, QWrite w)
  | ["commit"; n] -> let n = z_of_string n in (BCommit n, QCommit n)
  | ["consume"; n] -> let n = z_of_string n in (BConsume n, QConsume n)
  | ["head"] -> (BHead, QHead)
  | ["reset"] -> (BReset, QReset)
  | _ -> failwith ("bip: bad op " ^ op)

let fmt_slice (s : slice option) (content : z list) =
  match s with
  | Some r when int_of_z r.slen > 0 ->
    Printf.sprintf "r=%s:%s c=%s" (string_of_z r.soff) (string_of_z r.slen) (hex_of_zlist content)
  | _ -> "r=0 c=-"

let fmt_obs (o : bobs) : string =
  let head = match o.o_ret with
    | RSlice (s, c) -> fmt_slice s c
    | RUnit -> "u"
    | RWrote n -> "w=" ^ string_of_z n in
  Printf.sprintf "%s committed=%s claimed=%s empty=%d" head (string_of_z o.o_committed) (string_of_z o.o_claimed)
    (if o.o_empty then 1 else 0)

let parse_obs (obs : string) : qobs =
  let t = split_ws obs in
  let sl = match kv t "r" with
    | Some v when v <> "0" ->
      (match String.split_on_char ':' v with
       | [a; b] -> Some { soff = z_of_string a; slen = z_of_string b }
       | _ -> None)
    | _ -> None in
  { q_slice = sl; q_content = zlist_of_hex (kv_def t "c" "-");
    q_wrote = z_of_string (kv_def t "w" "0"); q_committed = z_of_string (kv_def t "committed" "0") }

let run (cases : case list) =
  List.iteri (fun ci c ->
    incr n_cases;
    let size = z_of_string (kv_def c.params "size" "8") in
    (* model vs implementation *)
    let st = ref (Some (binit size)) in
    let agree = ref (not !oracle_only) in
    let os = ref (qinit size) in
    let oracle_live = ref true in
    List.iteri (fun i (op, impl) ->
      incr n_steps;
      bump (List.hd (split_ws op));
      let (mop, qo) = parse_op op in
      (match !st with
       | Some s when !agree ->
         let model_line, s' = (match bstep s mop with
           | Ok (s', r) -> (fmt_obs (bobserve s' r), Some s')
           | Panic -> ("PANIC", None)) in
         if model_line <> impl then begin report_mismatch ci i op model_line impl; agree := false end;
         (match s' with
          | Some s' ->
            let c = s'.cur in
            visit (c, s'.live) (int_of_z c.bipBuffer_wrappedTail > 0 || (s'.live <> None && int_of_z (bipBuffer_Committed c) > 0))
          | None -> ());
         st := s'
       | _ -> ());
      (* oracle on the implementation's observations, independent of the model *)
      if !oracle_live then begin
        if impl = "PANIC" then begin report_oracle ci i "panic" op ""; oracle_live := false end
        else begin
          let (s', v) = qstep !os qo (parse_obs impl) in
          os := s';
          (match v with
           | Accept -> ()
           | Reject cl -> report_oracle ci i (string_of_int (int_of_nat cl)) op ("obs=[" ^ impl ^ "]"); oracle_live := false)
        end
      end) c.steps) cases

let () = Hashtbl.replace drivers "bip" run
