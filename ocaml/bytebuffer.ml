(* C09: ByteBuffer model + ThreeFifo oracle *)
open Model
open Common

let rec zpattern (start : int) (n : int) : z list =
  if n <= 0 then [] else z_of_int (start land 255) :: zpattern (start + 1) (n - 1)

let parse_res (s : string) : (z * bool) list =
  if s = "-" then [] else
  List.map (fun r -> match String.split_on_char ':' r with
    | [n; f] -> (z_of_string n, f = "1")
    | _ -> failwith "bad writeto result") (String.split_on_char ',' s)

(* room: capacity left according to whoever interprets the op (model state or oracle state) *)
let parse_op (op : string) (newcap : z) (room : int) : bbop =
  match split_ws op with
  | ["reserve"; n] -> OReserve (z_of_string n, newcap)
  | ["commit"; n] -> OCommit (z_of_string n)
  | ["consume"; n] -> OConsume (z_of_string n)
  | ["save"; n] -> OSave (z_of_string n)
  | ["savedslot"; i; l] -> OSavedSlot (z_of_string i, z_of_string l)
  | ["discard"; i; l] -> ODiscard (z_of_string i, z_of_string l)
  | ["discardall"] -> ODiscardAll
  | ["reset"] -> OReset
  | ["read"; m] -> ORead (z_of_string m)
  | ["readbyte"] -> OReadByte
  | [("readfrom" | "asyncreadfrom"); w; n; e] -> OReadFrom (zlist_of_hex w, z_of_string n, e = "1")
  | ["unreadbyte"] -> OUnreadByte
  | [("write" | "writestring" | "writebyte"); w] -> OWrite (zlist_of_hex w, newcap)
  | ["writeto"; r] -> OWriteTo (parse_res r)
  | ["asyncwriteto"; n; e] -> OAsyncWriteTo (z_of_string n, e = "1")
  | ["prepareread"; n] -> OPrepareRead (z_of_string n)
  | ["claim"; start; n] ->
    let nz = z_of_string n in
    let k = if fits nz then max 0 (min (int_of_z nz) room) else 0 in
    OClaim (zpattern (int_of_string start) k, nz)
  | ["claimfixed"; n; start] ->
    let nz = z_of_string n in
    let k = if fits nz then max 0 (min (int_of_z nz) room) else 0 in
    OClaimFixed (nz, zpattern (int_of_string start) k)
  | ["shrinkby"; n] -> OShrinkBy (z_of_string n)
  | ["shrinkto"; n] -> OShrinkTo (z_of_string n)
  | ["observe"] -> OObserve
  | _ -> failwith ("bb: bad op " ^ op)

let fmt_ret (r : bbret) (op : string) : string =
  match r with
  | RNone -> "-"
  | RInt n -> "i:" ^ string_of_z n
  | RSlot (i, l) -> Printf.sprintf "slot:%s:%s" (string_of_z i) (string_of_z l)
  | RBytes l -> "b:" ^ hex_of_zlist l
  | RIntErr (n, e) -> Printf.sprintf "ie:%s:%s" (string_of_z n) (string_of_z e)
  | RByteErr (b, e) -> Printf.sprintf "be:%02x:%s" ((int_of_z b) land 255) (string_of_z e)

let fmt_obs (o : bbobs) (op : string) : string =
  Printf.sprintf "ret=%s saved=%s read=%s pend=%s room=%s len=%s" (fmt_ret o.ob_ret op) (hex_of_zlist o.ob_saved)
    (hex_of_zlist o.ob_read) (hex_of_zlist o.ob_pend) (string_of_z o.ob_room) (string_of_z o.ob_len)

let parse_ret (s : string) : bbret =
  match String.split_on_char ':' s with
  | ["-"] -> RNone
  | ["i"; n] -> RInt (z_of_string n)
  | ["slot"; i; l] -> RSlot (z_of_string i, z_of_string l)
  | ["b"; h] -> RBytes (zlist_of_hex h)
  | ["ie"; n; e] -> RIntErr (z_of_string n, z_of_string e)
  | ["be"; b; e] -> RByteErr (z_of_int (int_of_string ("0x" ^ b)), z_of_string e)
  | _ -> RNone

let parse_obs (t : string list) : bbobs =
  { ob_ret = parse_ret (kv_def t "ret" "-"); ob_saved = zlist_of_hex (kv_def t "saved" "-");
    ob_read = zlist_of_hex (kv_def t "read" "-"); ob_pend = zlist_of_hex (kv_def t "pend" "-");
    ob_room = z_of_string (kv_def t "room" "0"); ob_len = z_of_string (kv_def t "len" "0") }

(* the implementation line without the harness-only extras (sl= rl= wl= got=) *)
let core (t : string list) : string =
  String.concat " " (List.filter (fun x ->
    let p k = String.length x > String.length k && String.sub x 0 (String.length k) = k in
    p "ret=" || p "saved=" || p "read=" || p "pend=" || p "room=" || p "len=") t)

let run (cases : case list) =
  List.iteri (fun ci c ->
    incr n_cases;
    let st = ref (Some bb_init) in
    let agree = ref (not !oracle_only) in
    let os = ref tf_init in
    let oracle_live = ref true in
    List.iteri (fun i (op, impl) ->
      incr n_steps;
      bump (List.hd (split_ws op));
      let t = split_ws impl in
      let panicked = (impl = "PANIC") in
      let ob = if panicked then None else Some (parse_obs t) in
      let newcap = match ob with Some o -> Z.add o.ob_room o.ob_len | None -> Z0 in
      (match !st with
       | Some s when !agree ->
         let room = int_of_z (Z.sub s.bcap s.wi) in
         let mop = parse_op op newcap room in
         let line, s' = (match bbstep s mop with
           | Ok (s', r) -> (fmt_obs (observe s' r) op, Some s')
           | Panic -> ("PANIC", None)) in
         let impl_core = if panicked then "PANIC" else core t in
         if line <> impl_core then begin report_mismatch ci i op line impl_core; agree := false end;
         (match s' with
          | Some s' -> visit (s'.si, s'.ri, s'.wi, s'.bmem)
                         (int_of_z s'.si > 0 && int_of_z s'.ri > int_of_z s'.si && int_of_z s'.wi > int_of_z s'.ri)
          | None -> ());
         st := s'
       | _ -> ());
      if !oracle_live then begin
        match ob with
        | None -> report_oracle ci i "panic" op ""; oracle_live := false
        | Some ob ->
          (* consistency of the implementation's own length getters with the regions it exposes *)
          let sl = kv_def t "sl" "" and rl = kv_def t "rl" "" and wl = kv_def t "wl" "" in
          let lens_ok = sl = "" ||
            (int_of_string sl = List.length ob.ob_saved && int_of_string rl = List.length ob.ob_read
             && int_of_string wl = List.length ob.ob_pend) in
          let room = int_of_z !os.t_room in
          let old_read = !os.t_read in
          let (s', cl) = tfcheck !os (parse_op op newcap room) ob in
          os := s';
          let cl = int_of_nat cl in
          (* WriteTo: the bytes handed to the writer must be the readable bytes in order *)
          let got_ok = (match kv t "got" with
            | None -> true
            | Some g ->
              let got = zlist_of_hex g in
              let n = List.length got in
              n <= List.length old_read && got = List.filteri (fun j _ -> j < n) old_read) in
          if not lens_ok then begin report_oracle ci i "5" op ("obs=[" ^ impl ^ "]"); oracle_live := false end
          else if cl <> 0 then begin report_oracle ci i (string_of_int cl) op ("obs=[" ^ impl ^ "]"); oracle_live := false end
          else if not got_ok then begin report_oracle ci i "7" op ("obs=[" ^ impl ^ "]"); oracle_live := false end
      end) c.steps) cases

let () = Hashtbl.replace drivers "bb" run
