(* C01 C03 C04 C14: event-loop model + ledger oracle *)
open Model
open Common

let zi = z_of_int
let iz = int_of_z

let parse_action (a : string list) : action =
  match a with
  | ["start"; kind; o; len; cb] ->
    let write = (kind = "write" || kind = "writeall") and all = (kind = "readall" || kind = "writeall") in
    AStart (write, all, z_of_string o, z_of_string len, z_of_string cb)
  | ["cancel"; o] -> ACancel (z_of_string o)
  | ["close"; o] -> AClose (z_of_string o)
  | ["sched"; t; k; ms; cb] -> ASched (z_of_string t, k = "rep", z_of_string ms, z_of_string cb)
  (* a delay in microseconds: the model's clock counts milliseconds, the delay is rounded up (the scripts only look at the timer
     after at least that long) *)
  | ["schedus"; t; k; us; cb] -> ASched (z_of_string t, k = "rep", z_of_int ((int_of_string us + 999) / 1000), z_of_string cb)
  | ["tcancel"; t] -> ATCancel (z_of_string t)
  | ["tclose"; t] -> ATClose (z_of_string t)
  | ["post"; cb] -> APost (z_of_string cb)
  | _ -> failwith ("loop: bad action " ^ String.concat " " a)

let split_on (sep : string) (l : string list) : string list list =
  let rec go cur acc = function
    | [] -> List.rev (List.rev cur :: acc)
    | x :: r when x = sep -> go [] (List.rev cur :: acc) r
    | x :: r -> go (x :: cur) acc r in
  List.filter (fun x -> x <> []) (go [] [] l)

let kind_of = function "sock" -> KSock | "piper" -> KPipeR | "pipew" -> KPipeW | "reg" -> KReg | "lsn" -> KLsn | "pkt" -> KPkt | k -> failwith ("kind " ^ k)

(* batch=o1:16,t0:1,w:1 *)
let parse_batch (b : string) : ((z * z) * z) list =
  if b = "" then [] else
  List.filter_map (fun e ->
    match String.split_on_char ':' e with
    | [name; mask] when String.length name > 0 ->
      let m = z_of_string mask in
      (match name.[0] with
       | 'w' -> Some ((zi 2, Z0), m)
       | 'o' -> Some ((Z0, z_of_string (String.sub name 1 (String.length name - 1))), m)
       | 't' -> Some ((zi 1, z_of_string (String.sub name 1 (String.length name - 1))), m)
       | _ -> None)
    | _ -> None) (String.split_on_char ',' b)

let parse_op (toks : string list) (impl_toks : string list) : lop =
  match toks with
  | ["obj"; i; k] -> LObj (z_of_string i, kind_of k)
  | ["timer"; i] -> LTimer (z_of_string i)
  | "prog" :: cb :: rest -> LProg (z_of_string cb, List.map parse_action (split_on ";" rest))
  | ["depth"; n] -> LDepth (z_of_string n)
  | ["peer"; i; "data"; n] -> LPeer (z_of_string i, PData (z_of_string n))
  | ["peer"; i; "kill"] -> LPeer (z_of_string i, PKill)
  | ["peer"; i; "close"] -> LPeer (z_of_string i, PClose)
  | ["peer"; i; "rst"] -> LPeer (z_of_string i, PRst)
  | ["peer"; i; "drain"; n] -> LPeer (z_of_string i, PDrain (z_of_string n))
  | ["peer"; i; "fill"] -> LPeer (z_of_string i, PFill)
  | ["sleep"; ms] -> LSleep (z_of_string ms)
  | ["pollone"] -> LPoll (parse_batch (kv_def impl_toks "batch" ""))
  | a -> LAct (parse_action a)

let fmt_ev (e : lev) : string =
  let b x = if x then 1 else 0 in
  match e with
  | LCb (cb, err, n, d) -> Printf.sprintf "cb%d:%d:%d:d%d" (iz cb) (iz err) (iz n) (iz d)
  | LStart (cb, o, w, all, len) -> Printf.sprintf "S%d:%d:%s%s:%d" (iz cb) (iz o) (if w then "write" else "read") (if all then "all" else "") (iz len)
  | LCancel (o, fin) -> (if fin then "x" else "X") ^ string_of_int (iz o)
  | LClose (o, err) -> Printf.sprintf "C%d:%d" (iz o) (iz err)
  | LSched (t, rep, ms, cb, err) -> Printf.sprintf "T%d:%s:%d:%d:%d" (iz t) (if rep then "rep" else "once") (iz ms) (iz cb) (iz err)
  | LTCancel (t, err) -> Printf.sprintf "tc%d:%d" (iz t) (iz err)
  | LTClose (t, err) -> Printf.sprintf "tx%d:%d" (iz t) (iz err)
  | LPost cb -> "P" ^ string_of_int (iz cb)

let parse_ev (tok : string) : lev option =
  let n = String.length tok in
  let sub i = String.sub tok i (n - i) in
  let ints s = List.map (fun x -> z_of_string x) (String.split_on_char ':' s) in
  try
    if n >= 2 && String.sub tok 0 2 = "cb" then
      (match String.split_on_char ':' (sub 2) with
       | [cb; err; cnt; d] -> Some (LCb (z_of_string cb, z_of_string err, z_of_string cnt, z_of_string (String.sub d 1 (String.length d - 1))))
       | _ -> None)
    else if n >= 2 && String.sub tok 0 2 = "tc" then (match ints (sub 2) with [t; e] -> Some (LTCancel (t, e)) | _ -> None)
    else if n >= 2 && String.sub tok 0 2 = "tx" then (match ints (sub 2) with [t; e] -> Some (LTClose (t, e)) | _ -> None)
    else match tok.[0] with
      | 'S' -> (match String.split_on_char ':' (sub 1) with
          | [cb; o; kind; len] ->
            Some (LStart (z_of_string cb, z_of_string o, (kind = "write" || kind = "writeall"), (kind = "readall" || kind = "writeall"), z_of_string len))
          | _ -> None)
      | 'X' -> Some (LCancel (z_of_string (sub 1), false))
      | 'x' -> Some (LCancel (z_of_string (sub 1), true))
      | 'C' -> (match ints (sub 1) with [o; e] -> Some (LClose (o, e)) | _ -> None)
      | 'T' -> (match String.split_on_char ':' (sub 1) with
          | [t; k; ms; cb; e] -> Some (LSched (z_of_string t, k = "rep", z_of_string ms, z_of_string cb, z_of_string e))
          | _ -> None)
      | 'P' -> Some (LPost (z_of_string (sub 1)))
      | _ -> None
  with _ -> None

let state_line (s : loop) : string =
  let objs = List.sort compare (List.map (fun (i, o) -> (iz i, o)) s.l_objs) in
  let ev = String.concat "," (List.map (fun (i, o) ->
      Printf.sprintf "o%d:%d:%d" i (iz (obj_bits o)) (if o.o_reg then 1 else 0)) objs) in
  Printf.sprintf "pending=%d disp=%d ev=%s tm=%d" (iz s.l_pending) (iz s.l_disp) ev (iz (timers_alive s))

let run (cases : case list) =
  List.iteri (fun ci c ->
    incr n_cases;
    let st = ref loop_init in
    let agree = ref (not !oracle_only) in
    let os = ref ledger_init in
    let oracle_live = ref true in
    let o_posts : string list ref = ref [] in      (* posted handlers that have not run yet, from the observed events *)
    let rec rm1 x = function [] -> [] | y :: r -> if x = y then r else y :: rm1 x r in
    List.iteri (fun i (op, impl) ->
      incr n_steps;
      let toks = split_ws op in
      bump (List.hd toks);
      let t = split_ws impl in
      (* a scenario the driver runs as a whole: nothing of it is in the model; its verdict line is judged directly *)
      if (match toks with "scenario" :: _ -> true | _ -> false) then begin
        if !oracle_live && impl <> Printf.sprintf "scn=%s ok=1" (List.nth toks 1) then begin
          report_oracle ci i (if List.nth toks 1 = "eintr" then "24" else "5") op ("obs=[" ^ impl ^ "]"); oracle_live := false end
      end else
      let lop = parse_op toks t in
      if !agree then begin
        let before = List.length !st.l_log in
        let s' = lstep !st lop in
        st := s';
        let newev = List.rev (List.filteri (fun j _ -> j < List.length s'.l_log - before) s'.l_log) in
        let evs = String.concat " " (List.map fmt_ev newev) in
        let extra = (match lop with
          | LPoll batch -> Printf.sprintf "ret=%d:%d batch=%s " (List.length batch) (if batch = [] then 8 else 0) (kv_def t "batch" "")
          | _ -> "") in
        let line = (if evs = "" then "" else evs ^ " ") ^ extra ^ state_line s' in
        visit (s'.l_pending, s'.l_posts, List.map (fun (i, o) -> (i, o.o_evR, o.o_evW, o.o_closed, o.e_rq, o.e_reof)) s'.l_objs,
               List.map (fun (i, t) -> (i, t.t_state, t.t_evR)) s'.l_tmrs)
          (iz s'.l_pending > 1 || (match lop with LPoll b -> List.length b > 1 | _ -> false));
        if s'.l_fuel_out then begin report_mismatch ci i op "MODEL-OUT-OF-FUEL" impl; agree := false end
        else if line <> impl then begin report_mismatch ci i op line impl; agree := false end
      end;
      if !oracle_live then begin
        if impl = "PANIC" then begin report_oracle ci i "panic" op ""; oracle_live := false end
        else if (match toks with "pollone" :: _ -> true | _ -> false) && !o_posts <> [] && kv_def t "ret" "" = "0:8" then begin
          (* 25: a handler posted before this poll (from this goroutine: its wake-up was written synchronously) was not run *)
          report_oracle ci i "25" op ("obs=[" ^ impl ^ "]"); oracle_live := false end
        else begin
          List.iter (fun x ->
            let n = String.length x in
            if not (String.contains x '=') then begin
              if n > 1 && x.[0] = 'P' then o_posts := String.sub x 1 (n - 1) :: !o_posts
              else if n > 2 && String.sub x 0 2 = "cb" then o_posts := rm1 (List.hd (String.split_on_char ':' (String.sub x 2 (n - 2)))) !o_posts
            end) t;
          let evs = List.filter_map (fun x -> if String.contains x '=' then None else parse_ev x) t in
          let (rn, re) = (match String.split_on_char ':' (kv_def t "ret" "0:0") with
              | [a; b] -> (z_of_string a, z_of_string b) | _ -> (Z0, Z0)) in
          let (s', cl) = ledger_step !os lop evs (z_of_string (kv_def t "pending" "0")) (z_of_string (kv_def t "disp" "0")) rn re in
          os := s';
          let cl = int_of_nat cl in
          if cl = 99 then oracle_live := false
          else if cl = 17 || cl = 21 then report_oracle ci i (string_of_int cl) op ("obs=[" ^ impl ^ "]")    (* soft clauses: the ledger keeps judging *)
          else if cl <> 0 then begin report_oracle ci i (string_of_int cl) op ("obs=[" ^ impl ^ "]"); oracle_live := false end
        end
      end) c.steps) cases

let () = Hashtbl.replace drivers "loop" run
