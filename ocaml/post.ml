(* C05: the Post transition system (Model/PostConc.v) run under the schedule the script dictates, against the
   implementation; oracle on the implementation's observations (exactly once, on the loop goroutine, order, no deadlock,
   exact counters). *)
open Model
open Common

let parse_ids (s : string) : int list =
  if s = "-" || s = "" then [] else List.map int_of_string (String.split_on_char ',' s)

let nposters = 8

(* run goroutine t until it cannot move or [stop] holds; None = it blocked with work left *)
let rec run_thread (s : cstate) (t : tid) (stop : cstate -> bool) (fuel : int) : cstate * bool =
  if fuel = 0 then (s, false)
  else if stop s then (s, true)
  else match tstep s t with
    | None -> (s, false)
    | Some s' -> run_thread s' t stop (fuel - 1)

let run (cases : case list) =
  List.iteri (fun ci c ->
    incr n_cases;
    let st = ref (cinit (List.init nposters (fun _ -> [])) [] false) in
    let agree = ref (not !oracle_only) in
    let dead = ref false in
    (* oracle state *)
    let posted : (int, int) Hashtbl.t = Hashtbl.create 17 in    (* id -> poster *)
    let ranset : (int, unit) Hashtbl.t = Hashtbl.create 17 in
    let queue : (int, int list) Hashtbl.t = Hashtbl.create 7 in  (* poster -> ids posted and not yet run, in order *)
    let nest : (int, int list) Hashtbl.t = Hashtbl.create 7 in
    let oracle_live = ref true in
    let fail i cl op impl = report_oracle ci i cl op ("obs=[" ^ impl ^ "]"); oracle_live := false in
    let note_post who ids =
      List.iter (fun h -> Hashtbl.replace posted h who;
                  Hashtbl.replace queue who ((try Hashtbl.find queue who with Not_found -> []) @ [h])) ids in
    List.iteri (fun i (op, impl) ->
      incr n_steps;
      let toks = split_ws op in
      bump (List.hd toks);
      let iz = int_of_z in
      if !agree then begin
        let before = List.length !st.c_exec in
        let set_todo g ids =
          st := { !st with c_posters = List.mapi (fun j p -> if j = g then { p_todo = List.map z_of_int ids; p_pc = PIdle } else p) !st.c_posters } in
        let post_all g ids =
          set_todo g ids;
          let t = TPoster (nat_of_int g) in
          let (s', ok) = run_thread !st t (fun s -> match List.nth s.c_posters g with { p_todo = []; p_pc = PIdle } -> true | _ -> false) 100000 in
          st := s'; if not ok then dead := true in
        let line =
          if !dead then "DEADLOCK" else begin
          (match toks with
           | ["def"; h; ids] -> st := { !st with c_nest = (z_of_string h, List.map z_of_int (parse_ids ids)) :: !st.c_nest }
           | ["post"; ids] -> post_all 0 (parse_ids ids)
           | ["gpost"; g; ids] -> post_all (int_of_string g) (parse_ids ids)
           | ["pollone"] ->
             (match tstep !st TLoop with
              | None -> ()
              | Some s1 ->
                let (s', ok) = run_thread s1 TLoop (fun s -> s.c_loop = LWait) 1000000 in
                st := s'; if not ok then dead := true)
           | "stress" :: _ | "race" :: _ | "regrace" :: _ | ["expectidle"] -> ()
           | _ -> failwith ("post: bad op " ^ op));
          if !dead then "DEADLOCK" else
          match toks with
          | ["race"; rounds; _; _] -> Printf.sprintf "race rounds=%s lost=0 pending=0 posted=0" rounds
          | ["regrace"; ng; m] -> Printf.sprintf "regrace ran=%d pending=0 posted=0" (int_of_string ng * int_of_string m)
          | ["stress"; ng; m; nn; _] ->
            Printf.sprintf "stress ran=%d once=1 ordered=1 nested=1 offloop=0 pending=0 posted=0"
              (int_of_string ng * int_of_string m * (1 + int_of_string nn))
          | _ ->
            let s' = !st in
            let newr = List.filteri (fun j _ -> j >= before) s'.c_exec in
            Printf.sprintf "ran=%s pending=%d posted=%d"
              (if newr = [] then "-" else String.concat "," (List.map (fun (_, h) -> string_of_z h ^ ":1") newr))
              (iz s'.c_pend) (List.length s'.c_posts)
          end in
        visit (List.length !st.c_posts, List.length !st.c_batch, !st.c_evc, !st.c_pend, List.length !st.c_exec) (List.length !st.c_posts > 1);
        if line <> impl then begin report_mismatch ci i op line impl; agree := false end
      end;
      if !oracle_live then begin
        let t = split_ws impl in
        if impl = "PANIC" then fail i "panic" op impl
        else if impl = "DEADLOCK" then fail i "3" op impl
        else if String.length impl >= 11 && String.sub impl 0 11 = "LOST-WAKEUP" then fail i "7" op impl
        else begin
          (match toks with
           | ["def"; h; ids] -> Hashtbl.replace nest (int_of_string h) (parse_ids ids)
           | ["post"; ids] -> note_post 0 (parse_ids ids)
           | ["gpost"; g; ids] -> note_post (int_of_string g) (parse_ids ids)
           | _ -> ());
          (match toks with
           | "race" :: _ ->
             if kv_def t "lost" "" <> "0" then fail i "7" op impl
             else if kv_def t "pending" "" <> "0" || kv_def t "posted" "" <> "0" then fail i "6" op impl
           | ["regrace"; ng; m] ->
             if kv_def t "ran" "" <> string_of_int (int_of_string ng * int_of_string m) then fail i "5" op impl
             else if kv_def t "pending" "" <> "0" || kv_def t "posted" "" <> "0" then fail i "6" op impl
           | "stress" :: ng :: m :: nn :: _ ->
             let total = int_of_string ng * int_of_string m * (1 + int_of_string nn) in
             if kv_def t "once" "0" <> "1" then fail i "1" op impl
             else if kv_def t "offloop" "1" <> "0" then fail i "2" op impl
             else if kv_def t "ordered" "0" <> "1" || kv_def t "nested" "0" <> "1" then fail i "4" op impl
             else if kv_def t "ran" "" <> string_of_int total then fail i "5" op impl
             else if kv_def t "pending" "" <> "0" || kv_def t "posted" "" <> "0" then fail i "6" op impl
           | _ ->
             let ran = kv_def t "ran" "-" in
             if ran <> "-" then
               List.iter (fun tok ->
                 if !oracle_live then
                   match String.split_on_char ':' tok with
                   | [h; on] ->
                     let h = int_of_string h in
                     if not (Hashtbl.mem posted h) || Hashtbl.mem ranset h then fail i "1" op impl
                     else begin
                       Hashtbl.replace ranset h ();
                       if on <> "1" then fail i "2" op impl
                       else begin
                         let who = Hashtbl.find posted h in
                         (match (try Hashtbl.find queue who with Not_found -> []) with
                          | x :: r when x = h -> Hashtbl.replace queue who r
                          | _ -> fail i "4" op impl);
                         (* what the handler posts is posted by the loop goroutine (poster -1) *)
                         if !oracle_live then note_post (-1) (try Hashtbl.find nest h with Not_found -> [])
                       end
                     end
                   | _ -> ()) (String.split_on_char ',' ran);
             if !oracle_live && toks = ["expectidle"] then begin
               if Hashtbl.length ranset <> Hashtbl.length posted then fail i "5" op impl
               else if kv_def t "pending" "" <> "0" || kv_def t "posted" "" <> "0" then fail i "6" op impl
             end)
        end
      end) c.steps) cases

let () = Hashtbl.replace drivers "post" run
