(* C12: datagram / settings / membership model (Model/Mcast.v) against a real multicast peer. *)
open Model
open Common

let pat seed n = List.init n (fun i -> z_of_int ((seed + i * 3 + i / 200) land 255))
let b2i b = if b then 1 else 0
let rec take n l = if n <= 0 then [] else match l with [] -> [] | x :: r -> x :: take (n - 1) r

let fmt_dev = function
  | DRead (cb, err, n, src, data) ->
    Printf.sprintf "R%s:%s:%s:%s:%s:latest=1" (string_of_z cb) (string_of_z err) (string_of_z n) (string_of_z src) (bytes_repr data)
  | DSent (_, _) -> ""

let run (cases : case list) =
  List.iteri (fun ci c ->
    incr n_cases;
    let ds = ref ds_init in
    let set = ref (peer_new k_default) in
    let mem = ref [] in
    let agree = ref (not !oracle_only) in
    let oracle_live = ref true in
    let fail i cl op impl = report_oracle ci i cl op ("obs=[" ^ impl ^ "]"); oracle_live := false in
    (* oracle state: datagrams sent to the peer and not yet delivered *)
    let o_q = ref [] in
    let o_buf = ref 0 in
    List.iteri (fun i (op, impl) ->
      incr n_steps;
      let toks = split_ws op in
      bump (List.hd toks);
      let t = split_ws impl in
      let settings_line () =
        let (k, cch) = !set in
        Printf.sprintf "loop=%d/%d ttl=%s/%s all=%d/%d" (b2i cch.pc_loop) (b2i k.k_loop) (string_of_z cch.pc_ttl) (string_of_z k.k_ttl) (b2i cch.pc_all) (b2i k.k_all) in
      if !agree then begin
        let dstepl o =
          let before = List.length !ds.dlog in
          ds := dstep !ds o;
          let newev = List.rev (take (List.length !ds.dlog - before) !ds.dlog) in
          List.filter (fun x -> x <> "") (List.map fmt_dev newev) in
        let evline evs = if evs = [] then "-" else String.concat " " evs in
        let line = (match toks with
          | ["arrive"; k; n; seed] -> evline (dstepl (DArrive { d_src = z_of_string k; d_data = pat (int_of_string seed) (int_of_string n) }))
          | ["aread"; n; cb] -> evline (dstepl (DAsyncRead (z_of_string n, z_of_string cb)))
          | ["setbuf"; n] -> evline (dstepl (DSetBuf (z_of_string n)))
          | ["chain"; n; bl] ->
            evline (List.concat (List.init (int_of_string n) (fun k -> dstepl (DAsyncRead (z_of_string bl, z_of_int (100 + k))))))
          | ["poll"] -> evline (dstepl DPoll)
          | ["write"; k; n; seed] ->
            let data = pat (int_of_string seed) (int_of_string n) in
            ignore (dstepl (DWrite (z_of_string k, data)));
            Printf.sprintf "W:0:%s S%s:%s:from=1" n k (bytes_repr data)
          | ["settings"] -> settings_line ()
          | ["setloop"; v] -> set := sstep !set (SSetLoop (v = "1", true)); "rc=0 " ^ settings_line ()
          | ["setttl"; v] -> set := sstep !set (SSetTTL (z_of_string v, true)); "rc=0 " ^ settings_line ()
          | ["setall"; v] -> set := sstep !set (SSetAll (v = "1", true)); "rc=0 " ^ settings_line ()
          | ["msend"; g] -> if delivers !mem (z_of_string g) (z_of_int 1) then Printf.sprintf "got=1:%s" g else "got=0"
          | [o; g] | [o; g; _] ->
            let gz = z_of_string g in
            let sz = (match toks with [_; _; s] -> z_of_string s | _ -> Z0) in
            let gop = (match o with
              | "join" -> GJoin gz | "leave" -> GLeave gz | "joinsrc" -> GJoinSource (gz, sz) | "leavesrc" -> GLeaveSource (gz, sz)
              | "block" -> GBlock (gz, sz) | "unblock" -> GUnblock (gz, sz) | _ -> failwith ("mcast: bad op " ^ op)) in
            let (m', code) = gstep !mem gop in
            mem := m'; Printf.sprintf "rc=%s" (string_of_z code)
          | _ -> failwith ("mcast: bad op " ^ op)) in
        visit (List.length !ds.q, !ds.rpend, !ds.rbuf, !set, !mem) (List.length !ds.q > 1 || List.length !mem > 1);
        if line <> impl then begin report_mismatch ci i op line impl; agree := false end
      end;
      if !oracle_live then begin
        if impl = "PANIC" then fail i "panic" op impl
        else begin
          (match toks with
           | ["arrive"; k; n; seed] -> o_q := !o_q @ [(k, pat (int_of_string seed) (int_of_string n))]
           | ["aread"; n; _] | ["setbuf"; n] | ["chain"; _; n] -> o_buf := int_of_string n
           | _ -> ());
          List.iter (fun tok ->
            (* 1 (sender): an address reported by an earlier read no longer names that datagram's sender *)
            if !oracle_live && String.length tok > 1 && tok.[0] = 'A' then fail i "1" op impl
            else if !oracle_live && String.length tok > 1 && tok.[0] = 'R' then
              match (match String.split_on_char ':' tok with
                     | [a; b; c; d; e; f] -> [a; b; c; d; e; f]
                     | [a; b; c; d; e1; e2; f] -> [a; b; c; d; e1 ^ ":" ^ e2; f]     (* long payloads print as h<len>:<checksum> *)
                     | l -> l) with
              | [_; err; n; src; data; latest] ->
                (match !o_q with
                 | (k, d) :: r ->
                   o_q := r;
                   let want = min !o_buf (List.length d) in
                   (* 1: exactly one datagram per read: its bytes (truncated to the buffer), its length, its sender *)
                   if err <> "0" || int_of_string n <> want || src <> k || data <> bytes_repr (take want d) then fail i "1" op impl
                   (* 2: into the buffer designated last *)
                   else if latest <> "latest=1" then fail i "2" op impl
                 | [] -> fail i "1" op impl)
              | _ -> fail i "1" op impl) t;
          (match toks with
           | ["write"; k; n; seed] ->
             (* 3: exactly one datagram with exactly the caller's bytes, from the peer's address *)
             let want = Printf.sprintf "S%s:%s:from=1" k (bytes_repr (pat (int_of_string seed) (int_of_string n))) in
             let got = List.filter (fun x -> String.length x > 1 && x.[0] = 'S') t in
             if got <> [want] then fail i "3" op impl
           | _ -> ());
          (* 4: every getter equals the kernel's value *)
          List.iter (fun key ->
            match kv t key with
            | Some v -> (match String.split_on_char '/' v with [a; b] when a <> b -> if !oracle_live then fail i ("4" ^ key) op impl | _ -> ())
            | None -> ()) ["loop"; "ttl"; "all"]
        end
      end) c.steps) cases

let () = Hashtbl.replace drivers "mcast" run
