(* C06 C08 C15 C16: WebSocket stream model + session oracle *)
open Model
open Common

let rec zpat (start : int) (n : int) : z list =
  if n <= 0 then [] else z_of_int (start land 255) :: zpat (start + 1) (n - 1)

let payload_arg (a : string) : z list =
  if String.length a > 4 && String.sub a 0 4 = "pat:" then
    (match String.split_on_char ':' a with
     | [_; n; st] -> zpat (int_of_string st) (int_of_string n)
     | _ -> failwith "bad pat")
  else zlist_of_hex a

let parse_op (op : string) : wsop =
  match split_ws op with
  | ["in"; h] -> WIn (InData (zlist_of_hex h))
  | ["ineof"] -> WIn InEof
  | ["inerr"] -> WIn InErr
  | ["wfail"; n] -> WWFail (z_of_string n)
  | ["setmax"; n] -> WSetMax (z_of_string n)
  | ["nextframe"] -> WNextFrame
  | ["anextframe"] -> WAsyncNextFrame
  | ["nextmessage"; n] -> WNextMessage (z_of_string n)
  | ["anextmessage"; n] -> WAsyncNextMessage (z_of_string n)
  | ["write"; mt; p] -> WWrite (false, z_of_string mt, payload_arg p)
  | ["awrite"; mt; p] -> WWrite (true, z_of_string mt, payload_arg p)
  | ["writeframe"; fin; o; p] -> WWriteFrame (false, fin = "1", z_of_string o, (if p = "none" then None else Some (payload_arg p)))
  | ["awriteframe"; fin; o; p] -> WWriteFrame (true, fin = "1", z_of_string o, (if p = "none" then None else Some (payload_arg p)))
  | ["writeframe2"; fin; o; _; p] -> WWriteFrame (false, fin = "1", z_of_string o, Some (payload_arg p))
  | ["awriteframe2"; fin; o; _; p] -> WWriteFrame (true, fin = "1", z_of_string o, Some (payload_arg p))
  | ["flush"] -> WFlush false
  | ["aflush"] -> WFlush true
  | ["close"; c; r] -> WClose (false, z_of_string c, zlist_of_hex r)
  | ["aclose"; c; r] -> WClose (true, z_of_string c, zlist_of_hex r)
  | _ -> failwith ("ws: bad op " ^ op)

let fmt_ev (e : wev) : string =
  match e with
  | EFrame (f, err) -> Printf.sprintf "f=%s:%s" (bytes_repr f) (string_of_z err)
  | EMsg (mt, n, p, err) -> Printf.sprintf "m=%s:%s:%s:%s" (string_of_z mt) (string_of_z n) (bytes_repr p) (string_of_z err)
  | ECtl (mt, p) -> Printf.sprintf "ctl=%s:%s" (string_of_z mt) (bytes_repr p)
  | EWrite e -> "w=" ^ string_of_z e
  | EPending -> "pending"

(* parse the implementation's event tokens back (only short byte strings carry content; long ones keep length) *)
let bytes_of_repr (s : string) : z list =
  if String.length s > 0 && s.[0] = 'h' then
    (match String.split_on_char ':' (String.sub s 1 (String.length s - 1)) with
     | [n; _] -> List.init (int_of_string n) (fun _ -> Z0)
     | _ -> [])
  else zlist_of_hex s

let parse_ev (tok : string) : wev option =
  let pfx k = String.length tok >= String.length k && String.sub tok 0 (String.length k) = k in
  let rest k = String.sub tok (String.length k) (String.length tok - String.length k) in
  if tok = "pending" then Some EPending
  else if pfx "f=" then (match String.split_on_char ':' (rest "f=") with
      | [b; e] -> Some (EFrame (bytes_of_repr b, z_of_string e))
      | [h; c; e] -> Some (EFrame (bytes_of_repr (h ^ ":" ^ c), z_of_string e))
      | _ -> None)
  else if pfx "m=" then (match String.split_on_char ':' (rest "m=") with
      | [mt; n; b; e] -> Some (EMsg (z_of_string mt, z_of_string n, bytes_of_repr b, z_of_string e))
      | [mt; n; h; c; e] -> Some (EMsg (z_of_string mt, z_of_string n, bytes_of_repr (h ^ ":" ^ c), z_of_string e))
      | _ -> None)
  else if pfx "ctl=" then (match String.split_on_char ':' (rest "ctl=") with
      | [mt; b] -> Some (ECtl (z_of_string mt, bytes_of_repr b))
      | _ -> None)
  else if pfx "w=" then Some (EWrite (z_of_string (rest "w=")))
  else None

(* masking keys in wire order, from the implementation's own output (the key is an environment input) *)
let keys_of_wire (wire : z list) : z list list =
  let big = z_of_string "18446744073709551616" in
  let rec go bs acc n =
    if n = 0 then List.rev acc else
    match parse1 big bs with
    | PFrame (raw, rest) -> go rest (r_key raw :: acc) (n - 1)
    | _ ->
      (* a trailing partial frame (the transport failed): take what is there of its key *)
      if List.length bs >= 2 then List.rev (r_key (bs @ List.init 16 (fun _ -> Z0)) :: acc) else List.rev acc in
  go wire [] 100000

let long_tok (t : string list) : bool =
  List.exists (fun tok -> not (String.length tok > 5 && String.sub tok 0 5 = "wire=") && try ignore (Str.search_forward (Str.regexp "[=:]h[0-9]+:[0-9]+") tok 0); true with Not_found -> false) t

let run (cases : case list) =
  List.iteri (fun ci c ->
    incr n_cases;
    let max = z_of_string (kv_def c.params "max" "1024") in
    (* pre-pass: all wire bytes of the case *)
    let all_wire = List.concat (List.map (fun (_, impl) ->
        let w = kv_def (split_ws impl) "wire" "-" in
        if String.length w > 0 && w.[0] = 'h' then [] else zlist_of_hex w) c.steps) in
    let has_long_wire = false in
    let st = ref (ws_init max (keys_of_wire all_wire)) in
    let agree = ref (not !oracle_only && not has_long_wire) in
    let os = ref (sess_init max) in
    let oracle_live = ref true in
    let nsteps = List.length c.steps in
    List.iteri (fun i (op, impl) ->
      incr n_steps;
      bump (List.hd (split_ws op));
      let t = split_ws impl in
      let mop = parse_op op in
      if !agree then begin
        let before_wire = List.length !st.w_tr.tr_wire in
        let (s', evs) = wsstep !st mop in
        st := s';
        let wire = List.filteri (fun j _ -> j >= before_wire) s'.w_tr.tr_wire in
        let ev_s = String.concat " " (List.map fmt_ev evs) in
        let line = Printf.sprintf "%s%sstate=%s pend=%d wire=%s" ev_s (if ev_s = "" then "" else " ")
            (string_of_z s'.w_state) (List.length s'.w_pending) (hex_of_zlist wire) in
        visit (s'.w_state, s'.w_pending, s'.w_codec.c_src.t_read, s'.w_codec.c_src.t_pend, s'.w_rpend)
          (s'.w_pending <> [] || s'.w_rpend <> None || int_of_z s'.w_state <> 1);
        if line <> impl then begin report_mismatch ci i op line impl; agree := false end
      end;
      if !oracle_live then begin
        if impl = "PANIC" then begin report_oracle ci i "panic" op ""; oracle_live := false end
        else if long_tok t then oracle_live := false   (* long byte strings are only compared through the model *)
        else begin
          let evs = List.filter_map parse_ev t in
          let wire = zlist_of_hex (kv_def t "wire" "-") in
          let observed = z_of_string (kv_def t "state" "1") in
          let (s', cl) = sess_step !os mop evs observed wire in
          os := s';
          let cl = int_of_nat cl in
          if cl <> 0 then begin report_oracle ci i (string_of_int cl) op ("obs=[" ^ impl ^ "]"); oracle_live := false end
          else if i = nsteps - 1 && List.hd (split_ws op) = "flush" then begin
            let f = int_of_nat (sess_final s') in
            if f <> 0 then begin report_oracle ci i (string_of_int f) op ("obs=[" ^ impl ^ "]"); oracle_live := false end
          end
        end
      end) c.steps) cases

let () = Hashtbl.replace drivers "ws" run
