(* C11: MirroredBuffer model + Ring oracle *)
open Model
open Common

let page = 4096

let bytes_obs (l : z list) = "q=" ^ bytes_repr l

let tail (o : mobs) =
  Printf.sprintf " used=%s free=%s full=%d size=%s" (string_of_z o.mo_used) (string_of_z o.mo_free)
    (if o.mo_full then 1 else 0) (string_of_z o.mo_size)

let fmt_obs (o : mobs) (mirror_len : int) : string =
  (match o.mo_ret with
   | MRSlice (Some r) when int_of_z r.slen > 0 -> Printf.sprintf "r=%s:%s" (string_of_z r.soff) (string_of_z r.slen)
   | MRSlice _ -> "r=0"
   | MRInt n -> if mirror_len >= 0 then Printf.sprintf "w=%s mirror=1" (string_of_z n) else "k=" ^ string_of_z n
   | MRUnit -> "u"
   | MRBytes l -> bytes_obs l) ^ tail o

let parse_obs (obs : string) : robs =
  let t = split_ws obs in
  let sl = match kv t "r" with
    | Some v when v <> "0" ->
      (match String.split_on_char ':' v with
       | [a; b] -> Some { soff = z_of_string a; slen = z_of_string b }
       | _ -> None)
    | _ -> None in
  let q = kv_def t "q" "-" in
  { r_slice = sl; r_int = z_of_string (kv_def t "k" (kv_def t "w" "0"));
    r_bytes = (if String.length q > 0 && q.[0] = 'h' then [] else zlist_of_hex q);
    r_used = z_of_string (kv_def t "used" "0"); r_free = z_of_string (kv_def t "free" "0");
    r_size = z_of_string (kv_def t "size" "0") }

let run (cases : case list) =
  List.iteri (fun ci c ->
    incr n_cases;
    let req = z_of_string (kv_def c.params "req" "4096") in
    let st = ref None in
    let agree = ref (not !oracle_only) in
    let os = ref None in
    let oracle_live = ref true in
    List.iteri (fun i (op, impl) ->
      incr n_steps;
      let toks = split_ws op in
      bump (List.hd toks);
      let arg () = z_of_string (List.nth toks 1) in
      (* ---- model *)
      if !agree then begin
        let line = (match List.hd toks with
          | "new" ->
            (match mirroredBuffer_new (z_of_int page) req with
             | None -> st := None; "err"
             | Some b -> let s = minit b in st := Some s;
               Printf.sprintf "ok cap=%s" (string_of_z b.mirroredBuffer_slice_len) ^ tail (mobserve s MRUnit))
          | "destroy" -> "err=0 maps=0 file=0"
          | name ->
            (match !st with
             | None -> "PANIC"
             | Some s ->
               let mop = (match name with
                 | "claim" -> MClaim (arg ()) | "fill" -> MFill (arg ()) | "commit" -> MCommit (arg ())
                 | "consume" -> MConsume (arg ()) | "reset" -> MReset | "dump" -> MDump
                 | _ -> failwith ("mirrored: bad op " ^ op)) in
               (match mstep s mop with
                | Ok (s', r) ->
                  st := Some s';
                  let c = s'.mcur in
                  visit (c.mirroredBuffer_size, c.mirroredBuffer_head, c.mirroredBuffer_tail, c.mirroredBuffer_used, s'.mlive)
                    (int_of_z c.mirroredBuffer_used > 0 &&
                     int_of_z c.mirroredBuffer_head + int_of_z c.mirroredBuffer_used > int_of_z c.mirroredBuffer_size);
                  fmt_obs (mobserve s' r) (if name = "fill" then 0 else -1)
                | Panic -> st := None; "PANIC"))) in
        if line <> impl then begin report_mismatch ci i op line impl; agree := false end
      end;
      (* ---- oracle on the implementation's observations *)
      if !oracle_live then begin
        if impl = "PANIC" then begin report_oracle ci i "panic" op ""; oracle_live := false end
        else match List.hd toks with
          | "new" ->
            if impl = "err" then begin
              (* the constructor may reject only non-positive sizes *)
              if int_of_z req > 0 then begin report_oracle ci i "8" op "constructor rejected a positive size"; oracle_live := false end
              else oracle_live := false
            end else begin
              let ob = parse_obs impl in
              if size_ok (z_of_int page) req ob.r_size then os := Some (rinit ob.r_size)
              else begin report_oracle ci i "8" op ("obs=[" ^ impl ^ "]"); oracle_live := false end
            end
          | "destroy" ->
            if impl <> "err=0 maps=0 file=0" then begin report_oracle ci i "9" op ("obs=[" ^ impl ^ "]"); oracle_live := false end
          | name ->
            (match !os with
             | None -> ()
             | Some s ->
               let ro = (match name with
                 | "claim" -> RClaim (arg ()) | "fill" -> RFill (arg ()) | "commit" -> RCommit (arg ())
                 | "consume" -> RConsume (arg ()) | "reset" -> RReset | _ -> RDump) in
               let ob = parse_obs impl in
               let long_dump = (name = "dump" && (let q = kv_def (split_ws impl) "q" "-" in String.length q > 0 && q.[0] = 'h')) in
               if name = "fill" && kv_def (split_ws impl) "mirror" "1" <> "1" then begin
                 report_oracle ci i "10" op ("obs=[" ^ impl ^ "]"); oracle_live := false end
               else if long_dump then ()
               else begin
                 let (s', v) = rstep s ro ob in
                 os := Some s';
                 (match v with
                  | RAccept -> ()
                  | RReject cl -> report_oracle ci i (string_of_int (int_of_nat cl)) op ("obs=[" ^ impl ^ "]"); oracle_live := false)
               end)
      end) c.steps) cases

let () = Hashtbl.replace drivers "mirrored" run
