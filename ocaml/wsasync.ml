(* C17: the flush/adapter model (Model/WsAsync.v) against a real stream on a real socket; oracle on callback counts and
   on the frames the peer received. *)
open Model
open Common

let out_byte (start : int) (k : int) : int = (start + k * 5 + k / 127) land 255
let gen_list f n = List.init n (fun i -> z_of_int (f i))
let rec take n l = if n <= 0 then [] else match l with [] -> [] | x :: r -> x :: take (n - 1) r
let rec drop n l = if n <= 0 then l else match l with [] -> [] | _ :: r -> drop (n - 1) r

(* frames of the model's wire (unmasked model encoding) *)
let rec wire_frames (w : z list) : string list * int =
  match w with
  | b0 :: b1 :: r ->
    let l = int_of_z b1 in
    let (l, r) = if l = 126 then (match r with h :: lo :: r' -> (int_of_z h * 256 + int_of_z lo, r') | _ -> (-1, r)) else (l, r) in
    if l < 0 || List.length r < l then ([], List.length w)
    else let (fs, rest) = wire_frames (drop l r) in
      (Printf.sprintf "%d:%s" ((int_of_z b0) land 15) (bytes_repr (take l r)) :: fs, rest)
  | [] -> ([], 0)
  | _ -> ([], List.length w)

let run (cases : case list) =
  List.iteri (fun ci c ->
    incr n_cases;
    let st = ref (wa_init true) in
    let agree = ref (not !oracle_only) in
    let oracle_live = ref true in
    let fail i cl op impl = report_oracle ci i cl op ("obs=[" ^ impl ^ "]"); oracle_live := false in
    (* oracle state *)
    let started : (string, string) Hashtbl.t = Hashtbl.create 7 in   (* id -> kind *)
    let finished : (string, unit) Hashtbl.t = Hashtbl.create 7 in
    let exp_writes = ref [] in      (* application frames, in the order they were submitted *)
    let exp_pongs = ref [] in       (* pongs owed: pings consumed by a read *)
    let exp_msgs = ref [] in        (* (read id, message) owed to reads *)
    let inq = ref [] in             (* peer frames not yet consumed by a read *)
    let active = ref None in        (* the read in flight: id and buffer length *)
    let chains : (string, string * int) Hashtbl.t = Hashtbl.create 7 in
    let closed_by_us = ref false in
    let src_sim = ref [] in          (* frames the client has read from the socket and not decoded yet *)
    let drain () =
      let go = ref true in
      while !go do
        match !active, !src_sim with
        | Some (rid, blen), (opc, p) :: r ->
          src_sim := r;
          if opc = "9" then (if not !closed_by_us then exp_pongs := !exp_pongs @ [Printf.sprintf "10:%s" p])
          else if String.length p / 2 > blen then begin
            (* the message does not fit the caller's buffer: the read fails (and, when its callback runs, the stream has
               started the closing handshake: see the callback below) *)
            exp_msgs := !exp_msgs @ [(rid, "err9")]; active := None
          end
          else begin exp_msgs := !exp_msgs @ [(rid, Printf.sprintf "%s:%s" opc p)]; active := None end
        | _ -> go := false
      done in
    List.iteri (fun i (op, impl) ->
      incr n_steps;
      let toks = split_ws op in
      bump (List.hd toks);
      let t = split_ws impl in
      let mop = (match toks with
        | ["read"; id] -> Some (WaRead (z_of_string id, z_of_int 70000))
        | ["readb"; id; n] -> Some (WaRead (z_of_string id, z_of_string n))
        | ["write"; id; n] -> Some (WaWrite (z_of_string id, gen_list (out_byte (int_of_string id)) (int_of_string n)))
        | ["peer"; opc; h] -> Some (WaPeer (z_of_string opc, zlist_of_hex h))
        | ["chain"; w; w2; n] -> Some (WaChain (z_of_string w, z_of_string w2, gen_list (out_byte (int_of_string w2)) (int_of_string n)))
        | ["poll"] -> Some (WaPoll (z_of_int 100000000))
        | ["close"; id] -> Some (WaClose (z_of_string id))
        | ["frames"] -> None
        | _ -> failwith ("wsasync: bad op " ^ op)) in
      if !agree then begin
        let before = List.length !st.a_log in
        (match mop with Some o -> st := wastep !st o | None -> ());
        let s' = !st in
        let newev = List.rev (take (List.length s'.a_log - before) s'.a_log) in
        let evs = List.map (fun ((id, opc), p) ->
            if int_of_z opc < 0 then Printf.sprintf "cb=%s:err%d" (string_of_z id) (- (int_of_z opc))
            else if int_of_z opc = 0 then Printf.sprintf "cb=%s:0:-" (string_of_z id)
            else Printf.sprintf "cb=%s:%s:%s" (string_of_z id) (string_of_z opc) (bytes_repr p)) newev in
        let base = if evs = [] then "-" else String.concat " " evs in
        let line = (match mop with
          | None -> let (fs, rest) = wire_frames s'.a_wire in Printf.sprintf "%s frames=%s rest=%d" base (String.concat "," fs) rest
          | Some _ -> base) in
        visit (List.length s'.a_pending, s'.a_wr <> None, s'.a_flushing, List.length s'.a_waiters, s'.a_rd, s'.a_rwait, List.length s'.a_src)
          (s'.a_wr <> None && s'.a_rd <> None);
        if s'.a_fuel_out then begin report_mismatch ci i op "MODEL-OUT-OF-FUEL" impl; agree := false end
        else if line <> impl then begin report_mismatch ci i op line impl; agree := false end
      end;
      if !oracle_live then begin
        if impl = "PANIC" then fail i "panic" op impl
        else begin
          (match toks with
           | ["read"; id] -> Hashtbl.replace started id "read"; active := Some (id, 70000)
           | ["readb"; id; n] -> Hashtbl.replace started id "read"; active := Some (id, int_of_string n)
           | ["write"; id; n] ->
             if !closed_by_us then Hashtbl.replace started id "refused"
             else begin
               Hashtbl.replace started id "write";
               exp_writes := !exp_writes @ [Printf.sprintf "2:%s" (bytes_repr (gen_list (out_byte (int_of_string id)) (int_of_string n)))]
             end
           | ["close"; id] ->
             if !closed_by_us then Hashtbl.replace started id "refused"
             else begin Hashtbl.replace started id "write"; closed_by_us := true; exp_writes := !exp_writes @ ["8:03e8"] end
           | ["peer"; opc; h] -> inq := !inq @ [(opc, bytes_repr (zlist_of_hex h))]
           | ["chain"; w; w2; n] -> Hashtbl.replace chains w (w2, int_of_string n)
           | ["poll"] -> if !active <> None then begin src_sim := !src_sim @ !inq; inq := [] end
           | _ -> ());
          (match toks with ["poll"] | ["read"; _] | ["readb"; _; _] -> drain () | _ -> ());
          List.iter (fun tok ->
            if !oracle_live && String.length tok > 3 && String.sub tok 0 3 = "cb=" then
              match String.split_on_char ':' (String.sub tok 3 (String.length tok - 3)) with
              | id :: rest ->
                (* 1: every callback at most once, and only of an operation that was started *)
                if not (Hashtbl.mem started id) || Hashtbl.mem finished id then fail i "1" op impl
                else begin
                  Hashtbl.replace finished id ();
                  if Hashtbl.find started id = "read" then begin
                    (* 3: a read completes with the message the peer sent for it *)
                    match List.assoc_opt id !exp_msgs with
                    | Some m ->
                      if String.concat ":" rest <> m then fail i "3" op impl
                      else if m = "err9" && not !closed_by_us then begin
                        (* the stream told the peer once, behind everything accepted before; from here on writes are refused *)
                        closed_by_us := true; exp_writes := !exp_writes @ ["8:03e97061796c6f616420746f6f20626967"]
                      end
                    | None -> fail i "3" op impl
                  end else if Hashtbl.find started id = "refused" then (if rest <> ["err2"] then fail i "6" op impl)
                  else if rest <> ["0"; "-"] then fail i "4" op impl
                  else begin
                    (* the callback of this write starts the next one of its chain *)
                    match Hashtbl.find_opt chains id with
                    | Some (id2, n) ->
                      if !closed_by_us then Hashtbl.replace started id2 "refused"
                      else begin
                        Hashtbl.replace started id2 "write";
                        exp_writes := !exp_writes @ [Printf.sprintf "2:%s" (bytes_repr (gen_list (out_byte (int_of_string id2)) n))]
                      end
                    | None -> ()
                  end
                end
              | [] -> ()) t;
          (* 2: the peer received whole frames; application frames in submission order, pongs in ping order, nothing repeated *)
          (match kv t "frames" with
           | Some fs ->
             let got = if fs = "" then [] else String.split_on_char ',' fs in
             let pre k l = String.length l >= String.length k && String.sub l 0 (String.length k) = k in
             let gw = List.filter (fun x -> pre "2:" x || pre "8:" x) got and gp = List.filter (pre "10:") got in
             (* 6: nothing but Pongs may follow our Close frame on the wire *)
             let rec after_close l = match l with [] -> [] | x :: r -> if pre "8:" x then r else after_close r in
             if List.exists (fun x -> not (pre "10:" x)) (after_close got) then fail i "6" op impl else
             let prefix a b = List.length a <= List.length b && take (List.length a) b = a in
             (* settled: the script ran the loop at least six times right before looking at the wire *)
             let ops_before = List.rev (take i (List.map fst c.steps)) in
             let rec polls l = match l with "poll" :: r -> 1 + polls r | _ -> 0 in
             let settled = List.mem "settled" c.params && polls ops_before >= 6 in
             if List.length gw + List.length gp <> List.length got then fail i "2" op impl
             else if not (prefix gw !exp_writes) || not (prefix gp !exp_pongs) then fail i "2" op impl
             else if settled && (gw <> !exp_writes || gp <> !exp_pongs || kv_def t "rest" "0" <> "0") then fail i "2" op impl
             else if settled then begin
               (* 5: nothing dropped: every write and every read that was owed a message has completed *)
               Hashtbl.iter (fun id kind ->
                 if !oracle_live && not (Hashtbl.mem finished id) && (kind = "write" || List.mem_assoc id !exp_msgs) then fail i "5" op impl) started
             end
           | None -> ())
        end
      end) c.steps) cases

let () = Hashtbl.replace drivers "wsasync" run
