(* C20: slot sequencer model + ParkedMap oracle; Fenwick tree model *)
open Model
open Common

let fmt_obs (o : sqobs) : string =
  let head = match o.so_ret with
    | SRPush (ok, err) -> Printf.sprintf "push=%d:%d" (if ok then 1 else 0) (if err then 1 else 0)
    | SRPop (true, l) -> "pop=1:" ^ hex_of_zlist l
    | SRPop (false, _) -> "pop=0:-"
    | SRNone -> "u" in
  Printf.sprintf "%s size=%s bytes=%s saved=%s" head (string_of_z o.so_size) (string_of_z o.so_bytes) (hex_of_zlist o.so_saved)

let core (t : string list) : string =
  String.concat " " (List.filter (fun x ->
    not (String.length x > 5 && String.sub x 0 5 = "room=") && not (String.length x > 4 && String.sub x 0 4 = "len=")) t)

let parse_ret (t : string list) : sqret =
  match kv t "push", kv t "pop" with
  | Some v, _ -> (match String.split_on_char ':' v with
      | [a; b] -> SRPush (a = "1", b = "1") | _ -> SRNone)
  | _, Some v -> (match String.split_on_char ':' v with
      | [a; b] -> SRPop (a = "1", zlist_of_hex b) | _ -> SRNone)
  | _ -> SRNone

let run (cases : case list) =
  List.iteri (fun ci c ->
    incr n_cases;
    let maxslots = z_of_string (kv_def c.params "maxslots" "8") in
    let maxbytes = z_of_string (kv_def c.params "maxbytes" "64") in
    let st = ref (Some (sq_init maxslots maxbytes)) in
    let agree = ref (not !oracle_only) in
    let os = ref (pm_init maxslots maxbytes) in
    let oracle_live = ref true in
    List.iteri (fun i (op, impl) ->
      incr n_steps;
      let toks = split_ws op in
      bump (List.hd toks);
      let t = split_ws impl in
      let panicked = (impl = "PANIC") in
      let newcap = if panicked then Z0 else Z.add (z_of_string (kv_def t "room" "0")) (z_of_string (kv_def t "len" "0")) in
      (* after a failed push the harness discards: capacity as observed is still the one after the write *)
      let mop = (match toks with
        | ["park"; seq; h] -> SPark (z_of_string seq, zlist_of_hex h, newcap)
        | ["pop"; seq] -> SPop (z_of_string seq)
        | ["reset"] -> SReset
        | ["observe"] -> SObserve
        | _ -> failwith ("slots: bad op " ^ op)) in
      (match !st with
       | Some s when !agree ->
         let line, s' = (match sqstep s mop with
           | Ok (s', r) -> (fmt_obs (sq_observe s' r), Some s')
           | Panic -> ("PANIC", None)) in
         let impl_core = if panicked then "PANIC" else core t in
         if line <> impl_core then begin report_mismatch ci i op line impl_core; agree := false end;
         (match s' with
          | Some s' -> visit (s'.q_slots, s'.q_tree, s'.q_bytes)
                         (List.length s'.q_slots >= 2 && List.exists (fun x -> x <> Z0) s'.q_tree)
          | None -> ());
         st := s'
       | _ -> ());
      if !oracle_live then begin
        if panicked then begin report_oracle ci i "panic" op ""; oracle_live := false end
        else begin
          let ob = { so_ret = parse_ret t; so_size = z_of_string (kv_def t "size" "0");
                     so_bytes = z_of_string (kv_def t "bytes" "0"); so_saved = zlist_of_hex (kv_def t "saved" "-") } in
          let (s', cl) = pmcheck !os mop ob in
          os := s';
          let cl = int_of_nat cl in
          if cl <> 0 then begin report_oracle ci i (string_of_int cl) op ("obs=[" ^ impl ^ "]"); oracle_live := false end
        end
      end) c.steps) cases

(* Fenwick tree: model vs implementation; the oracle is the naive prefix sum *)
let run_fenwick (cases : case list) =
  List.iteri (fun ci c ->
    incr n_cases;
    let n = int_of_string (kv_def c.params "n" "8") in
    let tree = ref (fw_new (z_of_int n)) in
    let naive = Array.make (max n 1) 0 in
    let ok = ref true in
    List.iteri (fun i (op, impl) ->
      incr n_steps;
      let toks = split_ws op in
      bump (List.hd toks);
      if !ok then begin
        let model_line, oracle_line = (match toks with
          | ["add"; ix; d] ->
            let ixi = int_of_string ix and di = int_of_string d in
            (match fw_add !tree (z_of_int ixi) (z_of_int di) with
             | Ok t' -> tree := t'; if ixi >= 0 && ixi < n then naive.(ixi) <- naive.(ixi) + di; ("u", "u")
             | Panic -> ("PANIC", "u"))
          | ["sum"; q] ->
            let qi = int_of_string q in
            let exp = ref 0 in
            for j = 0 to min qi (n - 1) do exp := !exp + naive.(j) done;
            ((match fw_sum_until !tree (z_of_int qi) with Ok v -> "v=" ^ string_of_z v | Panic -> "PANIC"),
             "v=" ^ string_of_int !exp)
          | ["total"] ->
            let exp = Array.fold_left (+) 0 (if n = 0 then [||] else naive) in
            ((match fw_sum_until !tree (z_of_int (n - 1)) with Ok v -> "v=" ^ string_of_z v | Panic -> "PANIC"),
             "v=" ^ string_of_int exp)
          | ["reset"] -> tree := List.map (fun _ -> Z0) !tree; Array.fill naive 0 (Array.length naive) 0; ("u", "u")
          | _ -> failwith "fenwick: bad op") in
        visit !tree (List.exists (fun x -> x <> Z0) !tree);
        if not !oracle_only && model_line <> impl then begin report_mismatch ci i op model_line impl; ok := false end;
        if oracle_line <> impl then begin report_oracle ci i "8" op ("want=[" ^ oracle_line ^ "] obs=[" ^ impl ^ "]"); ok := false end
      end) c.steps) cases

let () = Hashtbl.replace drivers "slots" run; Hashtbl.replace drivers "fenwick" run_fenwick
