#!/bin/sh
# Build the framework from files on disk only (offline).  Run once in /verif after a fresh restore.
set -e
cd "$(dirname "$0")"
mkdir -p bin work evidence replays
python3 - <<'PY'
import sys, os
sys.path.insert(0, "tools")
import vlib
bs = vlib.build_all()
print("translator_ok=%s coq_ok=%s modelrun_fresh=%s harness_ok=%s" % (bs.translator_ok, bs.coq_ok, bs.modelrun_fresh, bs.harness_ok))
if not (bs.translator_ok and bs.coq_ok and bs.modelrun_fresh and bs.harness_ok):
    print(bs.translator_msg); print(bs.coq_log[-4000:]); print(bs.harness_log[-2000:])
    sys.exit(1)
PY
cp bin/modelrun bin/modelrun.good
echo setup done
