(* C18: hand-written model of the client side of the opening handshake, /repo/codec/websocket/stream.go upgrade():
   the read loop that collects the response head (any segmentation of the byte stream, buffer growth, size limit, end of
   stream or error at any point), the fragment of net/http's response parser the hs_verdict depends on (status line,
   header lines, case-insensitive names, optional whitespace), the acceptance test, the hand-over of the bytes that
   follow the head to the frame decoder, and the state changes of Handshake/AsyncHandshake/reset.
   The expected Sec-WebSocket-Accept value (base64 of SHA-1 of key ++ GUID) is an input: crypto is not modelled. *)
From Sonic Require Import Base.Prelude Gen.Consts.
Local Open Scope Z_scope.

Definition cCR := 13.  Definition cLF := 10.  Definition cSP := 32.  Definition cHT := 9.  Definition cCOLON := 58.

(* index just after the first CR LF CR LF *)
Fixpoint find_end (l : list Z) (i : Z) : option Z :=
  match l with
  | [] => None
  | a :: r =>
      match r with
      | b :: c :: d :: _ =>
          if (a =? cCR) && (b =? cLF) && (c =? cCR) && (d =? cLF) then Some (i + 4) else find_end r (i + 1)
      | _ => None
      end
  end.

(* ---- the transport: what successive Read calls will deliver *)
Inductive tev : Type := TChunk (d : list Z) | TEof | TErr.

(* one Read into a buffer with [room] free bytes: (bytes, error class, rest); error classes 0 nil 1 eof 2 other *)
Definition tread (room : Z) (tr : list tev) : list Z * Z * list tev :=
  match tr with
  | [] => ([], 1, [])                               (* nothing more is scripted: the peer has closed *)
  | TChunk d :: r =>
      if zlen d <=? room then (d, 0, r) else (ztake room d, 0, TChunk (zdrop room d) :: r)
  | TEof :: r => ([], 1, TEof :: r)
  | TErr :: r => ([], 2, r)
  end.

Definition hs_buffer_size : Z := 1024.
Definition hs_limit : Z := 65536.

(* result classes of the handshake: 0 ok, 1 cannot upgrade, 2 unexpected EOF, 3 malformed response / other error *)
Inductive hres : Type :=
| HDone (buf : list Z) (e : Z) (tr : list tev)
| HFail (cls : Z) (tr : list tev)
| HFuel.

Fixpoint read_head (fuel : nat) (buf : list Z) (cap : Z) (tr : list tev) : hres :=
  match fuel with
  | O => HFuel
  | S f =>
      if (zlen buf =? cap) && (hs_limit <=? cap) then HFail 1 tr
      else
        let cap1 := if zlen buf =? cap then 2 * cap else cap in
        let '(d, err, tr1) := tread (cap1 - zlen buf) tr in
        let buf1 := buf ++ d in
        match find_end buf1 0 with
        | Some e => HDone buf1 e tr1
        | None =>
            if err =? 0 then read_head f buf1 cap1 tr1
            else HFail (if err =? 1 then 2 else 3) tr1
        end
  end.

(* the capacity the handshake buffer ends up with (it is kept for the next handshake on the same stream) *)
Fixpoint read_cap (fuel : nat) (buf : list Z) (cap : Z) (tr : list tev) : Z :=
  match fuel with
  | O => cap
  | S f =>
      if (zlen buf =? cap) && (hs_limit <=? cap) then cap
      else
        let cap1 := if zlen buf =? cap then 2 * cap else cap in
        let '(d, err, tr1) := tread (cap1 - zlen buf) tr in
        let buf1 := buf ++ d in
        match find_end buf1 0 with
        | Some _ => cap1
        | None => if err =? 0 then read_cap f buf1 cap1 tr1 else cap1
        end
  end.

(* ---- the response head *)
Fixpoint split_lines (l : list Z) (cur : list Z) : list (list Z) :=     (* lines end with CR LF (a bare LF also ends one) *)
  match l with
  | [] => match cur with [] => [] | _ => [cur] end
  | a :: r =>
      if a =? cLF then
        (match rev cur with c :: rc => if c =? cCR then rev rc else cur | [] => cur end) :: split_lines r []
      else split_lines r (cur ++ [a])
  end.

Definition is_ows (b : Z) : bool := (b =? cSP) || (b =? cHT).
Fixpoint ltrim (l : list Z) : list Z := match l with a :: r => if is_ows a then ltrim r else l | [] => [] end.
Definition trim (l : list Z) : list Z := rev (ltrim (rev (ltrim l))).
Definition lower (b : Z) : Z := if (65 <=? b) && (b <=? 90) then b + 32 else b.
Definition is_digit (b : Z) : bool := (48 <=? b) && (b <=? 57).
(* token characters of a header name (RFC 7230 tchar) *)
Definition is_tchar (b : Z) : bool :=
  is_digit b || ((65 <=? b) && (b <=? 90)) || ((97 <=? b) && (b <=? 122)) ||
  existsb (Z.eqb b) [33; 35; 36; 37; 38; 39; 42; 43; 45; 46; 94; 95; 96; 124; 126].

Fixpoint split_at (c : Z) (l : list Z) (acc : list Z) : option (list Z * list Z) :=
  match l with
  | [] => None
  | a :: r => if a =? c then Some (acc, r) else split_at c r (acc ++ [a])
  end.

(* "HTTP/x.y SP ddd [SP reason]" -> status code *)
Definition parse_status (line : list Z) : option Z :=
  match split_at cSP line [] with
  | None => None
  | Some (proto, rest) =>
      let okproto := match proto with
                     | 72 :: 84 :: 84 :: 80 :: 47 :: a :: 46 :: b :: [] => is_digit a && is_digit b     (* HTTP/d.d *)
                     | _ => false end in
      let code := match split_at cSP rest [] with Some (c, _) => c | None => rest end in
      match code with
      | a :: b :: c :: [] =>
          if okproto && is_digit a && is_digit b && is_digit c then Some ((a - 48) * 100 + (b - 48) * 10 + (c - 48)) else None
      | _ => None
      end
  end.

(* "name: value" -> (lower-cased name, trimmed value) *)
Definition parse_header (line : list Z) : option (list Z * list Z) :=
  match split_at cCOLON line [] with
  | None => None
  | Some (name, value) =>
      match name with
      | [] => None
      | _ => if forallb is_tchar name then Some (map lower name, trim value) else None
      end
  end.

Fixpoint parse_headers (lines : list (list Z)) : option (list (list Z * list Z)) :=
  match lines with
  | [] => Some []
  | l :: r =>
      match l with
      | [] => Some []                                  (* the blank line *)
      | _ =>
          match parse_header l, parse_headers r with
          | Some h, Some hs => Some (h :: hs)
          | _, _ => None
          end
      end
  end.

Fixpoint list_eqb (a b : list Z) : bool :=
  match a, b with
  | [], [] => true
  | x :: a', y :: b' => (x =? y) && list_eqb a' b'
  | _, _ => false
  end.

Fixpoint hget (name : list Z) (hs : list (list Z * list Z)) : list Z :=
  match hs with [] => [] | (n, v) :: r => if list_eqb n name then v else hget name r end.

Definition s_upgrade := [117; 112; 103; 114; 97; 100; 101].                                          (* "upgrade" *)
Definition s_websocket := [119; 101; 98; 115; 111; 99; 107; 101; 116].                             (* "websocket" *)
Definition s_accept := [115; 101; 99; 45; 119; 101; 98; 115; 111; 99; 107; 101; 116; 45; 97; 99; 99; 101; 112; 116].  (* "sec-websocket-accept" *)

(* hs_verdict on a response head: 0 accept, 1 cannot upgrade, 3 malformed *)
Definition hs_verdict (head : list Z) (expected : list Z) : Z :=
  match split_lines head [] with
  | [] => 3
  | st :: rest =>
      match parse_status st, parse_headers rest with
      | Some code, Some hs =>
          if (code =? 101) && list_eqb (map lower (hget s_upgrade hs)) s_websocket && list_eqb (hget s_accept hs) expected
          then 0 else 1
      | _, _ => 3
      end
  end.

(* ---- upgrade and the stream state *)
Record hstream : Type := mkhs {
  h_state : Z;                 (* 0 handshake, 1 active, 5 terminated (the numbering of StreamState) *)
  h_src : list Z;              (* unread bytes handed to the frame decoder *)
  h_cap : Z                    (* capacity of the handshake buffer: it only grows, and the next handshake starts with it *)
}.

Definition hs_fuel : nat := 200.

(* Handshake / AsyncHandshake after the request has been written: reset, read, parse, decide *)
Definition handshake (s : hstream) (tr : list tev) (expected : list Z) : hstream * Z * list tev :=
  let cap0 := Z.max hs_buffer_size (h_cap s) in
  let cap1 := read_cap hs_fuel [] cap0 tr in
  match read_head hs_fuel [] cap0 tr with
  | HDone buf e tr1 =>
      let v := hs_verdict (ztake e buf) expected in
      (* the bytes after the head were already given to the decoder when the hs_verdict is computed *)
      if v =? 0 then (mkhs 1 (zdrop e buf) cap1, 0, tr1)
      else if v =? 3 then (mkhs 5 [] cap1, v, tr1)          (* the parser failed: upgrade returns before the hand-over *)
      else (mkhs 5 (zdrop e buf) cap1, v, tr1)
  | HFail c tr1 => (mkhs 5 [] cap1, c, tr1)
  | HFuel => (mkhs 5 [] cap1, 9, tr)
  end.

Definition hs_init : hstream := mkhs 0 [] hs_buffer_size.
