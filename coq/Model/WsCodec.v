(* C07/C06/C15: /repo/codec/websocket/frame_codec.go (Decode, resetDecode, Encode) over the three-FIFO view of the
   ByteBuffer (Spec/ThreeFifo.v, which the ByteBuffer model provably refines - C09). *)
From Sonic Require Import Base.Prelude Gen.Consts Model.ByteBuffer Spec.ThreeFifo Model.WsFrame.
Local Open Scope Z_scope.

Record codec : Type := mkcodec {
  c_src : tf;
  c_reset : bool;          (* decodeReset *)
  c_flen : Z;              (* len(decodeFrame) while decodeReset is set *)
  c_max : Z                (* maxMessageSize *)
}.

Definition codec_init (max : Z) : codec := mkcodec (mktf [] [] [] 4096) false 0 max.

Inductive dresult : Type :=
| DFrame (f : list Z)
| DNeedMore
| DTooBig
| DPanic.

(* ByteBuffer.PrepareRead / Consume / Reserve through the specification *)
Definition tprep (s : tf) (n : Z) : tf * bool :=
  match tfstep s (OPrepareRead n) (t_room s) with
  | (s', TInt 2) => (s', false)
  | (s', _) => (s', true)
  end.
Definition tconsume (s : tf) (n : Z) : tf := fst (tfstep s (OConsume n) (t_room s)).
Definition treserve (s : tf) (n : Z) : tf := fst (tfstep s (OReserve n 0) (Z.max n (t_room s))).
Definition tdata (s : tf) (n : Z) : option (list Z) :=   (* src.Data()[:n] *)
  if (0 <=? n) && (n <=? zlen (t_read s)) then Some (ztake n (t_read s)) else None.

Definition reset_decode (c : codec) : codec :=
  if c_reset c then mkcodec (tconsume (c_src c) (c_flen c)) false 0 (c_max c) else c.

Definition with_src (c : codec) (s : tf) : codec := mkcodec s (c_reset c) (c_flen c) (c_max c).

Definition decode (c0 : codec) : codec * dresult :=
  let c := reset_decode c0 in
  let s := c_src c in
  let n := ws_frameHeaderLength in
  let '(s, ok) := tprep s n in
  if negb ok then (with_src c s, DNeedMore) else
  match tdata s n with None => (with_src c s, DPanic) | Some f =>
  let n := n + ext_len_bytes f in
  let '(s, ok) := tprep s n in
  if negb ok then (with_src c s, DNeedMore) else
  match tdata s n with None => (with_src c s, DPanic) | Some f =>
  let plen := payload_length f in
  if (plen <? 0) || (plen >? c_max c) then (with_src c s, DTooBig) else
  let n := if is_masked f then n + ws_frameMaskLength else n in
  let '(s, ok) := tprep s n in
  if negb ok then (with_src c s, DNeedMore) else
  let n := n + plen in
  let '(s, ok) := tprep s n in
  if negb ok then (with_src c (treserve s plen), DNeedMore) else
  match tdata s n with None => (with_src c s, DPanic) | Some f =>
  (mkcodec s true (zlen f) (c_max c), DFrame f)
  end end end.

(* bytes not yet handed out as a frame *)
Definition unread (c : codec) : list Z :=
  zdrop (if c_reset c then c_flen c else 0) (t_read (c_src c) ++ t_pend (c_src c)).

(* src.Write(bytes) / what ReadFrom appends *)
Definition feed (c : codec) (w : list Z) : codec :=
  with_src c (mktf (t_saved (c_src c)) (t_read (c_src c)) (t_pend (c_src c) ++ w) (t_room (c_src c))).
