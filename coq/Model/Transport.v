(* A scripted transport (the environment of CodecConn and of the WebSocket stream): a queue of inbound events and a
   wire that accepts bytes with scripted partial-write / failure / not-writable behaviour.  The harness implements the
   same object in Go (harness/drv/memstream.go). *)
From Sonic Require Import Base.Prelude.
Local Open Scope Z_scope.

Inductive inev : Type := InData (l : list Z) | InEof | InErr.

Record tr : Type := mktr {
  tr_in : list inev;
  tr_wire : list Z;         (* every byte accepted so far *)
  tr_wfail : Z;             (* fail once that many more bytes were accepted; -1: never *)
  tr_wblock : bool          (* asynchronous writes are parked until unblocked *)
}.

Definition tr_init : tr := mktr [] [] (-1) false.

Inductive rres : Type := RGot (l : list Z) | REof | RErr | RWouldBlock.

(* one read with a large enough buffer: the whole head chunk *)
Fixpoint tr_read_ev (q : list inev) : list inev * rres :=
  match q with
  | [] => ([], RWouldBlock)
  | InData [] :: r => tr_read_ev r
  | InData l :: r => (r, RGot l)
  | InEof :: r => (InEof :: r, REof)          (* EOF is sticky *)
  | InErr :: r => (r, RErr)
  end.

Definition tr_read (t : tr) : tr * rres :=
  let '(q, r) := tr_read_ev (tr_in t) in (mktr q (tr_wire t) (tr_wfail t) (tr_wblock t), r).

Definition tr_push (t : tr) (e : inev) : tr := mktr (tr_in t ++ [e]) (tr_wire t) (tr_wfail t) (tr_wblock t).

(* write all of p (looping over short writes): (accepted count, failed?) *)
Definition tr_write_all (t : tr) (p : list Z) : tr * Z * bool :=
  if tr_wfail t <? 0 then (mktr (tr_in t) (tr_wire t ++ p) (tr_wfail t) (tr_wblock t), zlen p, false)
  else if zlen p <=? tr_wfail t then
    (mktr (tr_in t) (tr_wire t ++ p) (if zlen p =? 0 then tr_wfail t else tr_wfail t - zlen p) (tr_wblock t), zlen p, false)
  else
    (mktr (tr_in t) (tr_wire t ++ ztake (tr_wfail t) p) 0 (tr_wblock t), tr_wfail t, true).

Definition tr_set_wfail (t : tr) (n : Z) : tr := mktr (tr_in t) (tr_wire t) n (tr_wblock t).
Definition tr_set_wblock (t : tr) (b : bool) : tr := mktr (tr_in t) (tr_wire t) (tr_wfail t) b.
