(* C02: hand-written model of the read/write reactors of a stream object:
     FFile    - /repo/file.go: Read/Write (result mapping), asyncRead/asyncReadNow/scheduleRead/onRead and the write
                twins (sonic.Dial / accepted TCP conns are files);
     FAdapter - /repo/async_adapter.go: asyncReadNow/scheduleRead/onRead and the write twins over an arbitrary
                io.ReadWriter.
   The transport is part of the state: bytes the peer has sent and the object has not read yet (rws_in), end of stream,
   the bytes the transport accepted (rws_wire) and, for the adapter, a script of (count, error) results the wrapped
   io.ReadWriter will return - so every segmentation of the stream into partial reads and writes, with errors, would-block
   and end-of-stream at any cut, is a value of the state the theorems quantify over.
   Which descriptor is ready when, exactly-once dispatch, cancel and close are C01's model (Model/Loop.v); here a poll
   attempts the deferred read, then the deferred write, when the transport is ready for them. *)
From Sonic Require Import Base.Prelude Gen.Consts.
Local Open Scope Z_scope.

Inductive flav : Type := FFile | FAdapter.

(* error classes shared with the harness: 0 nil, 1 io.EOF, 3 ErrWouldBlock, others: failures *)
Definition eNil := 0.  Definition eEOF := 1.  Definition eWouldBlock := 3.

Record rdop : Type := mkrd {
  rd_all : bool; rd_len : Z; rd_sofar : Z; rd_cb : Z;
  rd_filled : list Z                     (* ghost: the bytes moved into the caller's buffer so far, b[0:readSoFar] *)
}.
Record wrop : Type := mkwr { wr_all : bool; wr_buf : list Z; wr_sofar : Z; wr_cb : Z }.

Inductive rwev : Type :=
| EvR (cb err n : Z) (data : list Z) (all : bool) (len : Z)     (* read callback; data = what the operation put into b *)
| EvW (cb err n : Z) (buf : list Z) (all : bool).               (* write callback; buf = the caller's buffer *)

Record rwst : Type := mkrw {
  rws_fl : flav;
  rws_in : list Z; rws_eof : bool;
  rws_rscript : list (Z * Z); rws_wscript : list (Z * Z);
  rws_wire : list Z;
  rws_rd : option rdop; rws_wr : option wrop;
  rws_log : list rwev;                     (* ghost, newest first *)
  rws_sent : list Z;                       (* ghost: every byte the peer ever sent *)
  rws_fuel_out : bool
}.

Definition rw_init (fl : flav) : rwst := mkrw fl [] false [] [] [] None None [] [] false.

(* ---- the transport: one read(2) / rw.Read call asking for [want] bytes: (count, error class, bytes, state) *)
Definition sys_read (s : rwst) (want : Z) : Z * Z * list Z * rwst :=
  match rws_fl s with
  | FFile =>
      (* file.Read: n > 0 -> (n, nil); EAGAIN -> ErrWouldBlock; 0 -> io.EOF *)
      if 0 <? zlen (rws_in s) then
        let n := Z.min want (zlen (rws_in s)) in
        (n, eNil, ztake n (rws_in s),
         mkrw (rws_fl s) (zdrop n (rws_in s)) (rws_eof s) (rws_rscript s) (rws_wscript s) (rws_wire s) (rws_rd s) (rws_wr s) (rws_log s) (rws_sent s) (rws_fuel_out s))
      else if rws_eof s then (0, eEOF, [], s) else (0, eWouldBlock, [], s)
  | FAdapter =>
      let '(n0, e, rest) := match rws_rscript s with [] => (want, eNil, []) | (n0, e) :: r => (n0, e, r) end in
      let n := Z.max 0 (Z.min n0 (Z.min want (zlen (rws_in s)))) in
      (n, e, ztake n (rws_in s),
       mkrw (rws_fl s) (zdrop n (rws_in s)) (rws_eof s) rest (rws_wscript s) (rws_wire s) (rws_rd s) (rws_wr s) (rws_log s) (rws_sent s) (rws_fuel_out s))
  end.

(* one write(2) / rw.Write call offering [chunk]: (count, error class, state) *)
Definition sys_write (s : rwst) (chunk : list Z) : Z * Z * rwst :=
  match rws_fl s with
  | FFile =>
      (* a TCP socket whose peer keeps draining accepts everything (how the kernel splits a large transfer is not
         observable from the callbacks: see C02_writeall_outcome_independent_of_split) *)
      (zlen chunk, eNil,
       mkrw (rws_fl s) (rws_in s) (rws_eof s) (rws_rscript s) (rws_wscript s) (rws_wire s ++ chunk) (rws_rd s) (rws_wr s) (rws_log s) (rws_sent s) (rws_fuel_out s))
  | FAdapter =>
      let '(n0, e, rest) := match rws_wscript s with [] => (zlen chunk, eNil, []) | (n0, e) :: r => (n0, e, r) end in
      let n := Z.max 0 (Z.min n0 (zlen chunk)) in
      (n, e,
       mkrw (rws_fl s) (rws_in s) (rws_eof s) (rws_rscript s) rest (rws_wire s ++ ztake n chunk) (rws_rd s) (rws_wr s) (rws_log s) (rws_sent s) (rws_fuel_out s))
  end.

Inductive now_res : Type := Done (err n : Z) | Resched | Fuel.

(* asyncReadNow: file.go loops on short reads until would-block; async_adapter.go re-schedules after each short read *)
Fixpoint read_now (fuel : nat) (s : rwst) (p : rdop) : rwst * rdop * now_res :=
  match fuel with
  | O => (s, p, Fuel)
  | S f =>
      let '(n, e, bytes, s1) := sys_read s (rd_len p - rd_sofar p) in
      let p1 := mkrd (rd_all p) (rd_len p) (rd_sofar p + n) (rd_cb p) (rd_filled p ++ bytes) in
      if (e =? eNil) && negb (rd_all p && negb (rd_sofar p1 =? rd_len p)) then (s1, p1, Done eNil (rd_sofar p1))
      else
        match rws_fl s with
        | FFile =>
            if e =? eNil then read_now f s1 p1
            else if e =? eWouldBlock then (s1, p1, Resched)
            else (s1, p1, Done e (rd_sofar p1))
        | FAdapter =>
            if e =? eNil then (s1, p1, Resched) else (s1, p1, Done e (rd_sofar p1))
        end
  end.

Fixpoint write_now (fuel : nat) (s : rwst) (p : wrop) : rwst * wrop * now_res :=
  match fuel with
  | O => (s, p, Fuel)
  | S f =>
      let '(n, e, s1) := sys_write s (zdrop (wr_sofar p) (wr_buf p)) in
      let p1 := mkwr (wr_all p) (wr_buf p) (wr_sofar p + n) (wr_cb p) in
      if (e =? eNil) && negb (wr_all p && negb (wr_sofar p1 =? zlen (wr_buf p))) then (s1, p1, Done eNil (wr_sofar p1))
      else
        match rws_fl s with
        | FFile =>
            if e =? eNil then write_now f s1 p1
            else if e =? eWouldBlock then (s1, p1, Resched)
            else (s1, p1, Done e (wr_sofar p1))
        | FAdapter =>
            if e =? eNil then (s1, p1, Resched) else (s1, p1, Done e (wr_sofar p1))
        end
  end.

Definition now_fuel : nat := 16.

Definition set_rd (s : rwst) (r : option rdop) : rwst :=
  mkrw (rws_fl s) (rws_in s) (rws_eof s) (rws_rscript s) (rws_wscript s) (rws_wire s) r (rws_wr s) (rws_log s) (rws_sent s) (rws_fuel_out s).
Definition set_wr (s : rwst) (w : option wrop) : rwst :=
  mkrw (rws_fl s) (rws_in s) (rws_eof s) (rws_rscript s) (rws_wscript s) (rws_wire s) (rws_rd s) w (rws_log s) (rws_sent s) (rws_fuel_out s).
Definition add_ev (s : rwst) (e : rwev) : rwst :=
  mkrw (rws_fl s) (rws_in s) (rws_eof s) (rws_rscript s) (rws_wscript s) (rws_wire s) (rws_rd s) (rws_wr s) (e :: rws_log s) (rws_sent s) (rws_fuel_out s).
Definition fuel_out (s : rwst) : rwst :=
  mkrw (rws_fl s) (rws_in s) (rws_eof s) (rws_rscript s) (rws_wscript s) (rws_wire s) (rws_rd s) (rws_wr s) (rws_log s) (rws_sent s) true.

(* one attempt of the read in flight: complete (callback, reactor idle) or stay deferred *)
Definition attempt_read (s : rwst) (p : rdop) : rwst :=
  let '(s1, p1, r) := read_now now_fuel s p in
  match r with
  | Done e n => add_ev (set_rd s1 None) (EvR (rd_cb p1) e n (rd_filled p1) (rd_all p1) (rd_len p1))
  | Resched => set_rd s1 (Some p1)
  | Fuel => fuel_out (set_rd s1 (Some p1))
  end.

Definition attempt_write (s : rwst) (p : wrop) : rwst :=
  let '(s1, p1, r) := write_now now_fuel s p in
  match r with
  | Done e n => add_ev (set_wr s1 None) (EvW (wr_cb p1) e n (wr_buf p1) (wr_all p1))
  | Resched => set_wr s1 (Some p1)
  | Fuel => fuel_out (set_wr s1 (Some p1))
  end.

Inductive rwop : Type :=
| ORStart (all : bool) (len cb : Z)
| OWStart (all : bool) (buf : list Z) (cb : Z)
| OPoll
| OPeerData (d : list Z)
| OPeerEof
| ORScript (l : list (Z * Z))
| OWScript (l : list (Z * Z)).

Definition read_ready (s : rwst) : bool :=
  match rws_fl s with FAdapter => true | FFile => (0 <? zlen (rws_in s)) || rws_eof s end.

Definition rwstep (s : rwst) (o : rwop) : rwst :=
  match o with
  | ORStart all len cb =>
      let p := mkrd all len 0 cb [] in
      match rws_fl s with
      | FFile => attempt_read s p                     (* inline attempt (Dispatched below the limit) *)
      | FAdapter => set_rd s (Some p)                 (* the adapter always defers to the poller first *)
      end
  | OWStart all buf cb =>
      let p := mkwr all buf 0 cb in
      match rws_fl s with
      | FFile => attempt_write s p
      | FAdapter => set_wr s (Some p)
      end
  | OPoll =>
      let s1 := match rws_rd s with Some p => if read_ready s then attempt_read s p else s | None => s end in
      match rws_wr s1 with Some p => attempt_write s1 p | None => s1 end
  | OPeerData d =>
      mkrw (rws_fl s) (rws_in s ++ d) (rws_eof s) (rws_rscript s) (rws_wscript s) (rws_wire s) (rws_rd s) (rws_wr s) (rws_log s) (rws_sent s ++ d) (rws_fuel_out s)
  | OPeerEof =>
      mkrw (rws_fl s) (rws_in s) true (rws_rscript s) (rws_wscript s) (rws_wire s) (rws_rd s) (rws_wr s) (rws_log s) (rws_sent s) (rws_fuel_out s)
  | ORScript l =>
      mkrw (rws_fl s) (rws_in s) (rws_eof s) (rws_rscript s ++ l) (rws_wscript s) (rws_wire s) (rws_rd s) (rws_wr s) (rws_log s) (rws_sent s) (rws_fuel_out s)
  | OWScript l =>
      mkrw (rws_fl s) (rws_in s) (rws_eof s) (rws_rscript s) (rws_wscript s ++ l) (rws_wire s) (rws_rd s) (rws_wr s) (rws_log s) (rws_sent s) (rws_fuel_out s)
  end.

Fixpoint rwrun (s : rwst) (ops : list rwop) : rwst :=
  match ops with [] => s | o :: r => rwrun (rwstep s o) r end.
