(* C11: the MirroredBuffer cursor code (regenerated from bytes/mirrored_buffer.go into Gen/Mirrored.v) composed with
   the memory it indexes.  The double mmap is modelled as the environment assumption it is: virtual offset a of the
   2*size mapping denotes byte (a mod size) of a ring of size bytes. *)
From Sonic Require Import Base.Prelude Gen.Mirrored.
Local Open Scope Z_scope.

Inductive mop : Type :=
| MClaim (n : Z)
| MFill (start : Z)     (* caller writes start, start+1, ... through the whole live claim *)
| MCommit (n : Z)
| MConsume (n : Z)
| MReset
| MDump.                (* read back, through the addresses remembered at commit time, every queued byte *)

Inductive mret : Type :=
| MRSlice (s : option slice)
| MRInt (n : Z)
| MRUnit
| MRBytes (l : list Z).

Record mst : Type := mkmst {
  mcur : MirroredBuffer;
  ring : list Z;            (* physical memory: size bytes *)
  mlive : option slice;     (* slice returned by the last Claim *)
  mq : list (Z * Z);        (* ghost: (virtual offset, length) of the committed chunks as the caller remembers them *)
  mlog : list Z;            (* ghost: every byte committed since the last Reset *)
  mcons : Z                 (* ghost: bytes consumed since the last Reset *)
}.

(* virtual reads and writes: offset a of the double mapping is byte (a mod size) of the ring; n <= size *)
Definition vsub (size : Z) (rg : list Z) (a n : Z) : list Z :=
  let p := a mod size in
  if p + n <=? size then zsub p (p + n) rg else zsub p size rg ++ zsub 0 (p + n - size) rg.

Definition vwrite_list (size : Z) (rg : list Z) (a : Z) (w : list Z) : list Z :=
  let p := a mod size in
  if p + zlen w <=? size then zwrite p w rg
  else zwrite 0 (zdrop (size - p) w) (zwrite p (ztake (size - p) w) rg).

(* drop k bytes from the front of a list of (virtual offset, length) ranges *)
Fixpoint rdrop (k : Z) (q : list (Z * Z)) : list (Z * Z) :=
  match q with
  | [] => []
  | (a, n) :: r => if k <=? 0 then q else if n <=? k then rdrop (k - n) r else (a + k, n - k) :: r
  end.

Fixpoint pattern (start : Z) (n : nat) : list Z :=
  match n with O => [] | S k => (start mod 256) :: pattern (start + 1) k end.

Definition minit (b : MirroredBuffer) : mst :=
  mkmst b (repeat 0 (Z.to_nat (MirroredBuffer_size b))) None [] [] 0.

Definition mstep (s : mst) (o : mop) : outcome (mst * mret) :=
  let size := MirroredBuffer_size (mcur s) in
  match o with
  | MClaim n =>
      obind (MirroredBuffer_Claim (mcur s) n) (fun '(c, r) =>
        Ok (mkmst c (ring s) r (mq s) (mlog s) (mcons s), MRSlice r))
  | MFill start =>
      match mlive s with
      | None => Ok (s, MRInt 0)
      | Some r =>
          let w := pattern start (Z.to_nat (slen r)) in
          Ok (mkmst (mcur s) (vwrite_list size (ring s) (soff r) w) (mlive s) (mq s) (mlog s) (mcons s), MRInt (slen r))
      end
  | MCommit n =>
      let tail := MirroredBuffer_tail (mcur s) in
      obind (MirroredBuffer_Commit (mcur s) n) (fun '(c, k) =>
        let a := match mlive s with Some r => soff r | None => tail end in
        Ok (mkmst c (ring s) None (if 0 <? k then mq s ++ [(a, k)] else mq s) (mlog s ++ vsub size (ring s) a k) (mcons s), MRInt k))
  | MConsume n =>
      obind (MirroredBuffer_Consume (mcur s) n) (fun '(c, k) =>
        Ok (mkmst c (ring s) (mlive s) (rdrop k (mq s)) (mlog s) (mcons s + k), MRInt k))
  | MReset =>
      obind (MirroredBuffer_Reset (mcur s)) (fun '(c, _) =>
        Ok (mkmst c (ring s) None [] [] 0, MRUnit))
  | MDump => Ok (s, MRBytes (concat (map (fun '(a, n) => vsub size (ring s) a n) (mq s))))
  end.

(* the queued bytes according to the cursors, oldest first *)
Definition mabs (s : mst) : list Z :=
  vsub (MirroredBuffer_size (mcur s)) (ring s) (MirroredBuffer_head (mcur s)) (MirroredBuffer_used (mcur s)).

Fixpoint mrun (s : mst) (ops : list mop) : outcome mst :=
  match ops with
  | [] => Ok s
  | o :: rest => obind (mstep s o) (fun '(s', _) => mrun s' rest)
  end.

Record mobs : Type := mkmobs { mo_ret : mret; mo_used : Z; mo_free : Z; mo_full : bool; mo_size : Z }.

Definition mobserve (s : mst) (r : mret) : mobs :=
  mkmobs r (MirroredBuffer_UsedSpace (mcur s)) (MirroredBuffer_FreeSpace (mcur s)) (MirroredBuffer_Full (mcur s))
    (MirroredBuffer_Size (mcur s)).

Definition mnonneg (o : mop) : Prop :=
  match o with MClaim n | MCommit n | MConsume n => 0 <= n | _ => True end.
