(* C17: a focused model of what can be in flight together on one WebSocket stream over the real AsyncAdapter:
     - /repo/async_adapter.go: ONE write reactor (AsyncWriteAll (re)initialises it; every write is first deferred to the
       poller) and one read reactor;
     - /repo/codec.go AsyncWriteNext + /repo/byte_buffer.go AsyncWriteTo: encode into dst, write all of dst, consume;
     - /repo/codec/websocket/stream.go AsyncFlush / asyncFlushPending (the chain that sends pendingFrames one by one),
       the waiters of a flush in flight, AsyncWrite, and the read path AsyncNextMessage -> AsyncNextFrame -> AsyncFlush
       -> asyncNextFrame, with the automatic Pong queued by a Ping.
   Frames are opaque byte strings (their format is C16's subject).  [a_serial] selects the repaired structure; with
   false the model is the code before the repair (a second AsyncFlush re-initialises the adapter's reactor), kept so
   that the defect is expressible and refuted. *)
From Sonic Require Import Base.Prelude.
Local Open Scope Z_scope.

Inductive contk : Type := KRead | KApp (id : Z).       (* what a flush completion continues: the read, or a user callback *)

Record wa : Type := mkwa {
  a_state : Z;                           (* 1 active, 2 closed by us (the numbering of StreamState) *)
  a_next : list (Z * (Z * list Z));     (* user handler table: when the callback of write id runs it starts write (id', payload) *)
  a_serial : bool;
  a_pending : list (list Z);             (* pendingFrames, as wire bytes *)
  a_dst : list Z;                        (* CodecConn.dst: encoded bytes not yet consumed *)
  a_wr : option Z;                       (* adapter write reactor in flight: bytes of dst written so far *)
  a_chain : option contk;                (* the completion the write in flight will (eventually) run *)
  a_flushing : bool;
  a_waiters : list contk;
  a_rd : option (Z * Z);                 (* AsyncNextMessage in flight: its callback id and the length of the caller's buffer *)
  a_rwait : bool;                        (* adapter read reactor registered with the poller *)
  a_inq : list (Z * list Z);             (* frames the peer has sent and the client has not read: (opcode, payload) *)
  a_src : list (Z * list Z);             (* frames read into src and not yet decoded *)
  a_wire : list Z;                       (* bytes the transport accepted *)
  a_log : list (Z * Z * list Z);         (* user callbacks run, newest first: (id, opcode or 0, payload) *)
  (* ghost *)
  a_done : list Z;                       (* bytes consumed from dst by completed writes *)
  a_all : list Z;                        (* every byte ever queued, in queue order *)
  a_fstart : list contk;                 (* every flush completion ever registered (chain or waiter), in order *)
  a_fdone : list contk;                  (* every flush completion run, in order *)
  a_fuel_out : bool
}.

Definition wa_init (serial : bool) : wa :=
  mkwa 1 [] serial [] [] None None false [] None false [] [] [] [] [] [] [] [] false.

(* client frames: masking is C16's subject; here a frame is opcode, length, payload *)
Definition enc_frame (opcode : Z) (payload : list Z) : list Z :=
  if zlen payload <? 126 then (128 + opcode) :: zlen payload :: payload
  else (128 + opcode) :: 126 :: (zlen payload / 256) :: (zlen payload mod 256) :: payload.

Definition upd_log (s : wa) (e : Z * Z * list Z) : wa :=
  mkwa (a_state s) (a_next s) (a_serial s) (a_pending s) (a_dst s) (a_wr s) (a_chain s) (a_flushing s) (a_waiters s) (a_rd s) (a_rwait s) (a_inq s)
    (a_src s) (a_wire s) (e :: a_log s) (a_done s) (a_all s) (a_fstart s) (a_fdone s) (a_fuel_out s).

(* AsyncWriteNext of the head of pendingFrames: encode into dst, (re)initialise the adapter's write reactor *)
Definition send_head (s : wa) (k : option contk) : wa :=
  match a_pending s with
  | [] => s
  | f :: rest =>
      mkwa (a_state s) (a_next s) (a_serial s) rest (a_dst s ++ f) (Some 0) (match k with Some c => Some c | None => a_chain s end) (a_flushing s) (a_waiters s)
        (a_rd s) (a_rwait s) (a_inq s) (a_src s) (a_wire s) (a_log s) (a_done s) (a_all s) (a_fstart s) (a_fdone s) (a_fuel_out s)
  end.

Definition queue_frame (s : wa) (f : list Z) : wa :=
  mkwa (a_state s) (a_next s) (a_serial s) (a_pending s ++ [f]) (a_dst s) (a_wr s) (a_chain s) (a_flushing s) (a_waiters s) (a_rd s) (a_rwait s) (a_inq s)
    (a_src s) (a_wire s) (a_log s) (a_done s) (a_all s ++ f) (a_fstart s) (a_fdone s) (a_fuel_out s).

Definition set_fuel_out (s : wa) : wa :=
  mkwa (a_state s) (a_next s) (a_serial s) (a_pending s) (a_dst s) (a_wr s) (a_chain s) (a_flushing s) (a_waiters s) (a_rd s) (a_rwait s) (a_inq s)
    (a_src s) (a_wire s) (a_log s) (a_done s) (a_all s) (a_fstart s) (a_fdone s) true.
Definition set_src (s : wa) (l : list (Z * list Z)) : wa :=
  mkwa (a_state s) (a_next s) (a_serial s) (a_pending s) (a_dst s) (a_wr s) (a_chain s) (a_flushing s) (a_waiters s) (a_rd s) (a_rwait s) (a_inq s)
    l (a_wire s) (a_log s) (a_done s) (a_all s) (a_fstart s) (a_fdone s) (a_fuel_out s).
Definition set_rwait (s : wa) (b : bool) : wa :=
  mkwa (a_state s) (a_next s) (a_serial s) (a_pending s) (a_dst s) (a_wr s) (a_chain s) (a_flushing s) (a_waiters s) (a_rd s) b (a_inq s)
    (a_src s) (a_wire s) (a_log s) (a_done s) (a_all s) (a_fstart s) (a_fdone s) (a_fuel_out s).
Definition set_rd (s : wa) (r : option (Z * Z)) : wa :=
  mkwa (a_state s) (a_next s) (a_serial s) (a_pending s) (a_dst s) (a_wr s) (a_chain s) (a_flushing s) (a_waiters s) r (a_rwait s) (a_inq s)
    (a_src s) (a_wire s) (a_log s) (a_done s) (a_all s) (a_fstart s) (a_fdone s) (a_fuel_out s).
Definition set_closed (s : wa) : wa :=                       (* state := closed by us *)
  mkwa 2 (a_next s) (a_serial s) (a_pending s) (a_dst s) (a_wr s) (a_chain s) (a_flushing s) (a_waiters s) (a_rd s) (a_rwait s) (a_inq s)
    (a_src s) (a_wire s) (a_log s) (a_done s) (a_all s) (a_fstart s) (a_fdone s) (a_fuel_out s).
(* the Close frame asyncNextMessage sends for a message that does not fit: 1001 "payload too big" *)
Definition too_big_close : list Z := [3; 233; 112; 97; 121; 108; 111; 97; 100; 32; 116; 111; 111; 32; 98; 105; 103].
Definition add_fstart (s : wa) (k : contk) : wa :=
  mkwa (a_state s) (a_next s) (a_serial s) (a_pending s) (a_dst s) (a_wr s) (a_chain s) (a_flushing s) (a_waiters s) (a_rd s) (a_rwait s) (a_inq s)
    (a_src s) (a_wire s) (a_log s) (a_done s) (a_all s) (a_fstart s ++ [k]) (a_fdone s) (a_fuel_out s).
Definition add_fdone (s : wa) (k : contk) : wa :=
  mkwa (a_state s) (a_next s) (a_serial s) (a_pending s) (a_dst s) (a_wr s) (a_chain s) (a_flushing s) (a_waiters s) (a_rd s) (a_rwait s) (a_inq s)
    (a_src s) (a_wire s) (a_log s) (a_done s) (a_all s) (a_fstart s) (a_fdone s ++ [k]) (a_fuel_out s).
Definition add_waiter (s : wa) (k : contk) : wa :=
  mkwa (a_state s) (a_next s) (a_serial s) (a_pending s) (a_dst s) (a_wr s) (a_chain s) (a_flushing s) (a_waiters s ++ [k]) (a_rd s) (a_rwait s) (a_inq s)
    (a_src s) (a_wire s) (a_log s) (a_done s) (a_all s) (a_fstart s) (a_fdone s) (a_fuel_out s).
Definition set_flushing (s : wa) (b : bool) : wa :=
  mkwa (a_state s) (a_next s) (a_serial s) (a_pending s) (a_dst s) (a_wr s) (a_chain s) b (a_waiters s) (a_rd s) (a_rwait s) (a_inq s)
    (a_src s) (a_wire s) (a_log s) (a_done s) (a_all s) (a_fstart s) (a_fdone s) (a_fuel_out s).

Fixpoint nlookup (k : Z) (l : list (Z * (Z * list Z))) : option (Z * list Z) :=
  match l with [] => None | (k', v) :: r => if k =? k' then Some v else nlookup k r end.

(* the mutually recursive part - a flush completion continues the read, which may decode a buffered Ping, queue a Pong and
   flush again - on explicit fuel *)
Fixpoint handle_read (fuel : nat) (s : wa) : wa :=          (* asyncNextFrame: decode from src, or arm the read reactor *)
  match fuel with
  | O => set_fuel_out s
  | S f =>
      match a_src s with
      | [] => set_rwait s true
      | (opc, payload) :: rest =>
          let s1 := set_src s rest in
          if opc =? 9 then
            (* Ping: queue the Pong (only while the stream is active), read on *)
            flush f (if a_state s1 =? 1 then queue_frame s1 (enc_frame 10 payload) else s1) KRead
          else match a_rd s1 with
               | Some (rid, blen) =>
                   if zlen payload >? blen then
                     (* the message does not fit the caller's buffer: AsyncClose(going away, "payload too big") with a
                        callback that does nothing (id -1: not logged), then the read completes with ErrMessageTooBig *)
                     let s2 := set_rd s1 None in
                     let s3 := if a_state s2 =? 1 then flush f (queue_frame (set_closed s2) (enc_frame 8 too_big_close)) (KApp (-1))
                               else s2 in
                     upd_log s3 (rid, -9, [])
                   else upd_log (set_rd s1 None) (rid, opc, payload)
               | None => s1
               end
      end
  end
with run_cont (fuel : nat) (s : wa) (k : contk) : wa :=
  match fuel with
  | O => set_fuel_out (add_fdone s k)
  | S f =>
      let s := add_fdone s k in
      match k with
      | KApp id =>
          let s1 := if id <? 0 then s else upd_log s (id, 0, []) in      (* negative ids: the library's own empty callbacks *)
          match nlookup id (a_next s1) with
          | Some (id2, payload) =>
              (* the callback writes again; AsyncWrite on a stream that is no longer active is refused on the spot *)
              if a_state s1 =? 1 then flush f (queue_frame s1 (enc_frame 2 payload)) (KApp id2)
              else upd_log s1 (id2, -2, [])
          | None => s1
          end
      | KRead => handle_read f s
      end
  end
(* AsyncFlush(callback k) *)
with flush (fuel : nat) (s : wa) (k : contk) : wa :=
  match fuel with
  | O => set_fuel_out s
  | S f =>
      if a_serial s && a_flushing s then add_waiter (add_fstart s k) k
      else
        match a_pending s with
        | [] => run_cont f (add_fstart s k) k
        | _ :: _ => send_head (set_flushing (add_fstart s k) true) (Some k)
        end
  end.

Definition wa_fuel : nat := 400.

Fixpoint run_conts (fuel : nat) (s : wa) (ks : list contk) : wa :=
  match ks with [] => s | k :: r => run_conts fuel (run_cont fuel s k) r end.

(* the adapter's write handler ran and everything in dst is written: consume, continue the chain or complete it *)
Definition write_complete (s : wa) : wa :=
  let s1 := mkwa (a_state s) (a_next s) (a_serial s) (a_pending s) [] None (a_chain s) (a_flushing s) (a_waiters s) (a_rd s) (a_rwait s) (a_inq s)
              (a_src s) (a_wire s) (a_log s) (a_done s ++ a_dst s) (a_all s) (a_fstart s) (a_fdone s) (a_fuel_out s) in
  match a_pending s1 with
  | _ :: _ => send_head s1 None                       (* asyncFlushPending: the next frame *)
  | [] =>
      let ks := (match a_chain s1 with Some k => [k] | None => [] end) ++ a_waiters s1 in
      let s2 := mkwa (a_state s1) (a_next s1) (a_serial s1) (a_pending s1) (a_dst s1) (a_wr s1) None false [] (a_rd s1) (a_rwait s1) (a_inq s1)
                  (a_src s1) (a_wire s1) (a_log s1) (a_done s1) (a_all s1) (a_fstart s1) (a_fdone s1) (a_fuel_out s1) in
      run_conts wa_fuel s2 ks
  end.

Inductive waop : Type :=
| WaRead (rid : Z) (blen : Z)
| WaWrite (wid : Z) (payload : list Z)
| WaPeer (opcode : Z) (payload : list Z)
| WaClose (cid : Z)
| WaChain (wid wid2 : Z) (payload2 : list Z)      (* handler program: the callback of write wid starts write wid2 *)
| WaPoll (accept : Z).                    (* how many bytes the transport takes per write call in this poll *)

Definition wastep (s : wa) (o : waop) : wa :=
  match o with
  | WaRead rid blen =>
      flush wa_fuel (set_rd s (Some (rid, blen))) KRead
  | WaWrite wid payload =>
      if a_state s =? 1 then flush wa_fuel (queue_frame s (enc_frame 2 payload)) (KApp wid)
      else upd_log s (wid, -2, [])                                  (* ErrCancelled *)
  | WaClose cid =>
      (* AsyncClose: the state changes BEFORE the Close frame is queued and flushed *)
      if a_state s =? 1 then
        flush wa_fuel (queue_frame (set_closed s) (enc_frame 8 [3; 232])) (KApp cid)
      else upd_log s (cid, -2, [])
  | WaPeer opc payload =>
      mkwa (a_state s) (a_next s) (a_serial s) (a_pending s) (a_dst s) (a_wr s) (a_chain s) (a_flushing s) (a_waiters s) (a_rd s) (a_rwait s) (a_inq s ++ [(opc, payload)])
        (a_src s) (a_wire s) (a_log s) (a_done s) (a_all s) (a_fstart s) (a_fdone s) (a_fuel_out s)
  | WaChain wid wid2 payload2 =>
      mkwa (a_state s) ((wid, (wid2, payload2)) :: a_next s) (a_serial s) (a_pending s) (a_dst s) (a_wr s) (a_chain s) (a_flushing s) (a_waiters s) (a_rd s) (a_rwait s)
        (a_inq s) (a_src s) (a_wire s) (a_log s) (a_done s) (a_all s) (a_fstart s) (a_fdone s) (a_fuel_out s)
  | WaPoll accept =>
      let had_write := match a_wr s with Some _ => true | None => false end in
      (* read side first: everything the peer sent is read into src, AsyncReadNext completes with the first frame *)
      let s1 :=
        if a_rwait s && negb (match a_inq s with [] => true | _ => false end) then
          handle_read wa_fuel
            (mkwa (a_state s) (a_next s) (a_serial s) (a_pending s) (a_dst s) (a_wr s) (a_chain s) (a_flushing s) (a_waiters s) (a_rd s) false []
               (a_src s ++ a_inq s) (a_wire s) (a_log s) (a_done s) (a_all s) (a_fstart s) (a_fdone s) (a_fuel_out s))
        else s in
      (* write side: only if the write interest existed when the poll began *)
      match had_write, a_wr s1 with
      | true, Some sofar =>
          let n := Z.max 0 (Z.min accept (zlen (a_dst s1) - sofar)) in
          let s2 := mkwa (a_state s1) (a_next s1) (a_serial s1) (a_pending s1) (a_dst s1) (Some (sofar + n)) (a_chain s1) (a_flushing s1) (a_waiters s1) (a_rd s1) (a_rwait s1)
                      (a_inq s1) (a_src s1) (a_wire s1 ++ zsub sofar (sofar + n) (a_dst s1)) (a_log s1) (a_done s1) (a_all s1) (a_fstart s1)
                      (a_fdone s1) (a_fuel_out s1) in
          if sofar + n =? zlen (a_dst s1) then write_complete s2 else s2
      | _, _ => s1
      end
  end.

Fixpoint warun (s : wa) (ops : list waop) : wa :=
  match ops with [] => s | o :: r => warun (wastep s o) r end.
