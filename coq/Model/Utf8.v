(* unicode/utf8.Valid: well-formed UTF-8 per RFC 3629 (no overlong forms, no surrogates, <= U+10FFFF). *)
From Sonic Require Import Base.Prelude.
Local Open Scope Z_scope.

Definition cont (b : Z) : bool := (128 <=? b) && (b <=? 191).

Fixpoint utf8_valid_fuel (fuel : nat) (l : list Z) : bool :=
  match fuel with
  | O => true
  | S f =>
      match l with
      | [] => true
      | b0 :: r =>
          if b0 <? 128 then utf8_valid_fuel f r
          else if (194 <=? b0) && (b0 <=? 223) then
            match r with b1 :: r' => cont b1 && utf8_valid_fuel f r' | _ => false end
          else if (224 <=? b0) && (b0 <=? 239) then
            match r with
            | b1 :: b2 :: r' =>
                let lo := if b0 =? 224 then 160 else 128 in
                let hi := if b0 =? 237 then 159 else 191 in
                (lo <=? b1) && (b1 <=? hi) && cont b2 && utf8_valid_fuel f r'
            | _ => false
            end
          else if (240 <=? b0) && (b0 <=? 244) then
            match r with
            | b1 :: b2 :: b3 :: r' =>
                let lo := if b0 =? 240 then 144 else 128 in
                let hi := if b0 =? 244 then 143 else 191 in
                (lo <=? b1) && (b1 <=? hi) && cont b2 && cont b3 && utf8_valid_fuel f r'
            | _ => false
            end
          else false
      end
  end.

Definition utf8_valid (l : list Z) : bool := utf8_valid_fuel (S (length l)) l.
