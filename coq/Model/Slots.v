(* C20: util/fenwick_tree.go, slot_offsetter.go, sequenced_slots.go, slot_sequencer.go (hand-written model) composed
   with the save area of the ByteBuffer model and OffsetSlot (regenerated, Gen/Slot.v). *)
From Sonic Require Import Base.Prelude Gen.Slot Model.ByteBuffer.
Local Open Scope Z_scope.

Definition znth (i : Z) (l : list Z) : Z := nth (Z.to_nat i) l 0.
Fixpoint upd_nat (i : nat) (x : Z) (l : list Z) : list Z :=
  match l, i with
  | [], _ => []
  | _ :: r, O => x :: r
  | y :: r, S k => y :: upd_nat k x r
  end.
Definition zupd (i : Z) (x : Z) (l : list Z) : list Z := upd_nat (Z.to_nat i) x l.

(* ---- FenwickTree: Add / SumUntil / Sum / Reset.  The loops run on explicit fuel; length+1 steps always suffice
   because the index strictly increases (Add) resp. decreases (SumUntil). *)
Fixpoint fw_add_loop (fuel : nat) (d : list Z) (index delta : Z) : outcome (list Z) :=
  match fuel with
  | O => Ok d
  | S f =>
      if index <? zlen d then
        if index <? 0 then Panic
        else fw_add_loop f (zupd index (znth index d + delta) d) (Z.lor index (index + 1)) delta
      else Ok d
  end.
Definition fw_add (d : list Z) (index delta : Z) : outcome (list Z) := fw_add_loop (S (length d)) d index delta.

Fixpoint fw_sum_loop (fuel : nat) (d : list Z) (index acc : Z) : outcome Z :=
  match fuel with
  | O => Ok acc
  | S f =>
      if index >=? 0 then
        if index <? zlen d then fw_sum_loop f d (Z.land index (index + 1) - 1) (acc + znth index d) else Panic
      else Ok acc
  end.
Definition fw_sum_until (d : list Z) (index : Z) : outcome Z := fw_sum_loop (S (length d)) d index 0.
Definition fw_sum (d : list Z) : outcome Z := fw_sum_until d (zlen d - 1).
Definition fw_reset (d : list Z) : list Z := map (fun _ => 0) d.
Definition fw_new (n : Z) : list Z := repeat 0 (Z.to_nat n).

(* ---- sequencedSlots: a slice sorted by sequence number.  sort.Search(len, i => slots[i].seq >= seq) is the first
   index whose element is >= seq (the predicate is monotone on a sorted slice). *)
Definition sslot : Type := (Z * Slot)%type.   (* (seq, slot) *)

Fixpoint search (l : list sslot) (seq : Z) : nat :=
  match l with
  | [] => O
  | (q, _) :: r => if q >=? seq then O else S (search r seq)
  end.

Fixpoint insert_at {A} (i : nat) (x : A) (l : list A) : list A :=
  match i, l with
  | O, _ => x :: l
  | S k, [] => [x]
  | S k, y :: r => y :: insert_at k x r
  end.

Fixpoint remove_at {A} (i : nat) (l : list A) : list A :=
  match i, l with
  | _, [] => []
  | O, _ :: r => r
  | S k, y :: r => y :: remove_at k r
  end.

(* result: (new slots, ok, err) *)
Definition ss_push (maxSlots : Z) (l : list sslot) (seq : Z) (slot : Slot) : list sslot * bool * bool :=
  let ix := search l seq in
  match nth_error l ix with
  | None => if zlen l >=? maxSlots then (l, false, true) else (l ++ [(seq, slot)], true, false)
  | Some (q, _) =>
      if negb (q =? seq) then
        if zlen l >=? maxSlots then (l, false, true) else (insert_at ix (seq, slot) l, true, false)
      else (l, false, false)
  end.

Definition ss_pop (l : list sslot) (seq : Z) : list sslot * option Slot :=
  let ix := search l seq in
  match nth_error l ix with
  | Some (q, sl) => if q =? seq then (remove_at ix l, Some sl) else (l, None)
  | None => (l, None)
  end.

(* ---- SlotSequencer + the ByteBuffer it indexes *)
Record sq : Type := mksq {
  q_bb : bb; q_slots : list sslot; q_tree : list Z; q_bytes : Z; q_maxSlots : Z; q_maxBytes : Z
}.

Definition sq_init (maxSlots maxBytes : Z) : sq := mksq bb_init [] (fw_new maxBytes) 0 maxSlots maxBytes.

Inductive sqop : Type :=
| SPark (seq : Z) (payload : list Z) (newcap : Z)   (* Write; Commit; Save; Push; on a failed push Discard the slot *)
| SPop (seq : Z)                                    (* Pop; SavedSlot; Discard *)
| SReset                                            (* sequencer.Reset; DiscardAll *)
| SObserve.

Inductive sqret : Type :=
| SRPush (ok err : bool)
| SRPop (ok : bool) (bytes : list Z)
| SRNone.

Definition bb_do (s : bb) (o : bbop) : outcome (bb * bbret) := bbstep s o.

(* SlotSequencer.Push *)
Definition sq_push (s : sq) (seq : Z) (slot : Slot) : outcome (sq * bool * bool) :=
  if q_bytes s + Slot_Length slot >? q_maxBytes s then Ok (s, false, true)
  else
    obind (fw_sum (q_tree s)) (fun total =>
      let slot' := mkSlot (Slot_Index slot + total) (Slot_Length slot) in
      if Slot_Index slot' >=? zlen (q_tree s) then Ok (s, false, true)
      else
        let '(l', ok, err) := ss_push (q_maxSlots s) (q_slots s) seq slot' in
        let bytes' := if ok && negb err then q_bytes s + Slot_Length slot' else q_bytes s in
        Ok (mksq (q_bb s) l' (q_tree s) bytes' (q_maxSlots s) (q_maxBytes s), ok, err)).

(* SlotSequencer.Pop *)
Definition sq_pop (s : sq) (seq : Z) : outcome (sq * option Slot) :=
  match ss_pop (q_slots s) seq with
  | (_, None) => Ok (s, None)
  | (l', Some slot) =>
      obind (fw_sum_until (q_tree s) (Slot_Index slot)) (fun offset =>
      obind (fw_add (q_tree s) (Slot_Index slot) (Slot_Length slot)) (fun tree' =>
        let slot' := OffsetSlot offset slot in
        let tree'' := if zlen l' =? 0 then fw_reset tree' else tree' in
        Ok (mksq (q_bb s) l' tree'' (q_bytes s - Slot_Length slot') (q_maxSlots s) (q_maxBytes s), Some slot')))
  end.

Definition with_bb (s : sq) (b : bb) : sq := mksq b (q_slots s) (q_tree s) (q_bytes s) (q_maxSlots s) (q_maxBytes s).

Definition sqstep (s : sq) (o : sqop) : outcome (sq * sqret) :=
  match o with
  | SPark seq payload newcap =>
      let n := zlen payload in
      obind (bb_do (q_bb s) (OWrite payload newcap)) (fun '(b1, _) =>
      obind (bb_do b1 (OCommit n)) (fun '(b2, _) =>
      obind (bb_do b2 (OSave n)) (fun '(b3, r) =>
        let slot := match r with RSlot i l => mkSlot i l | _ => mkSlot 0 0 end in
        obind (sq_push (with_bb s b3) seq slot) (fun '(s', ok, err) =>
          if ok && negb err then Ok (s', SRPush ok err)
          else obind (bb_do (q_bb s') (ODiscard (Slot_Index slot) (Slot_Length slot))) (fun '(b4, _) =>
                 Ok (with_bb s' b4, SRPush ok err))))))
  | SPop seq =>
      obind (sq_pop s seq) (fun '(s', r) =>
        match r with
        | None => Ok (s', SRPop false [])
        | Some slot =>
            obind (bb_do (q_bb s') (OSavedSlot (Slot_Index slot) (Slot_Length slot))) (fun '(_, br) =>
            obind (bb_do (q_bb s') (ODiscard (Slot_Index slot) (Slot_Length slot))) (fun '(b2, _) =>
              Ok (with_bb s' b2, SRPop true (match br with RBytes l => l | _ => [] end))))
        end)
  | SReset =>
      obind (bb_do (q_bb s) ODiscardAll) (fun '(b1, _) =>
        Ok (mksq b1 [] (fw_reset (q_tree s)) 0 (q_maxSlots s) (q_maxBytes s), SRNone))
  | SObserve => Ok (s, SRNone)
  end.

Record sqobs : Type := mksqobs { so_ret : sqret; so_size : Z; so_bytes : Z; so_saved : list Z }.
Definition sq_observe (s : sq) (r : sqret) : sqobs :=
  mksqobs r (zlen (q_slots s)) (q_bytes s) (saved_of (q_bb s)).
