(* C01 C03 C04 C14: hand-written model of the event loop: /repo/io.go, internal/poll_linux.go (setRW, DelRead, DelWrite,
   Del, Poll, dispatch, Post), file.go (asyncRead/asyncReadNow/scheduleRead/onRead and the write twins, Cancel, Close),
   timer.go and internal/timer_linux.go - together with a model of the kernel objects they drive (TCP socket, FIFO ends,
   regular file, timerfd, eventfd).  The kernel model is an environment assumption, validated by the correspondence run.
   User handlers are a finite table prog : callback id -> list of actions.  Execution is a work-list machine on explicit
   fuel; the batch returned by epoll_wait is an input (taken from the implementation by the harness). *)
From Sonic Require Import Base.Prelude Gen.Consts.
Local Open Scope Z_scope.

(* error classes shared with the harness *)
Definition xNil := 0.  Definition xEOF := 1.  Definition xCancelled := 2.  Definition xWouldBlock := 3.
Definition xEPERM := 4.  Definition xEBADF := 5.  Definition xReset := 6.  Definition xEPIPE := 7.  Definition xTimeout := 8.

Inductive okind : Type := KSock | KPipeR | KPipeW | KReg | KLsn | KDead | KPkt.
  (* KLsn: listener, e_rq counts queued connections; KDead: the descriptor was closed underneath the object and its number now
     names something that can be neither polled nor read (a directory): every system call on it fails;
     KPkt: packet conn (/repo/packet.go) on a UDP socket; the scripts keep datagram size = read size, so e_rq counts bytes *)

Record opst : Type := mkop { op_cb : Z; op_all : bool; op_len : Z; op_sofar : Z;
  op_wrapped : bool   (* the callback stored with the deferred operation is the Dispatched-counting wrapper (packet.go keeps
                         whatever callback it was handed; file.go's reactors always hold the user's callback) *) }.

Record obj : Type := mkobj {
  o_kind : okind;
  o_closed : bool;
  o_evR : bool; o_evW : bool;          (* Slot.Events bits *)
  o_rd : option opst; o_wr : option opst;   (* contents of the read / write reactor (kept after completion, as in the code) *)
  o_reg : bool;                        (* in the IO registry (pending.static/dynamic) *)
  (* kernel side *)
  e_rq : Z;                            (* bytes readable *)
  e_reof : bool;                       (* peer closed its sending side / FIFO writer gone *)
  e_rst : bool;                        (* connection reset *)
  e_wdead : bool;                      (* FIFO reader gone *)
  e_wroom : Z                          (* bytes the kernel still accepts from a writer; negative: no limit (the harness filled the
                                          socket's send buffer: 0, until the peer has drained it) *)
}.

Record tmr : Type := mktmr {
  t_state : Z;                         (* 0 ready, 1 scheduled, 2 closed *)
  t_cancelled : bool;
  t_evR : bool;
  t_cb : Z;                            (* user callback of the current schedule *)
  t_rep : Z;                           (* repeat interval, 0 = once *)
  t_due : option Z;                    (* kernel: absolute time at which the timerfd becomes readable *)
  t_member : bool                      (* in ioc.pendingTimers *)
}.

Inductive action : Type :=
| AStart (write all : bool) (o : Z) (len cb : Z)
| ACancel (o : Z)
| AClose (o : Z)
| ASched (t : Z) (rep : bool) (ms cb : Z)
| ATCancel (t : Z)
| ATClose (t : Z)
| APost (cb : Z).

Inductive lev : Type :=
| LCb (cb err n depth : Z)
| LStart (cb o : Z) (write all : bool) (len : Z)
| LCancel (o : Z) (fin : bool)         (* begin / end of Cancel *)
| LClose (o err : Z)
| LSched (t : Z) (rep : bool) (ms cb err : Z)
| LTCancel (t err : Z)
| LTClose (t err : Z)
| LPost (cb : Z).

Record loop : Type := mkloop {
  l_pending : Z;
  l_disp : Z;
  l_posts : list Z;
  l_objs : list (Z * obj);
  l_tmrs : list (Z * tmr);
  l_progs : list (Z * list action);
  l_now : Z;
  l_depth : Z;                         (* ghost: callbacks currently on the stack *)
  l_log : list lev;                    (* ghost: newest first *)
  l_fuel_out : bool;
  l_budget : Z;                        (* callbacks whose program may still run during the current script line *)
  l_overlap : bool                     (* ghost: an operation was started on a direction that already had one deferred in flight
                                          (outside the library's contract: one read and one write per object at a time) *)
}.

Definition loop_init : loop := mkloop 0 0 [] [] [] [] 0 0 [] false 300 false.

(* ---- association lists *)
Fixpoint lookup {A} (k : Z) (l : list (Z * A)) : option A :=
  match l with [] => None | (k', v) :: r => if k =? k' then Some v else lookup k r end.
Fixpoint update {A} (k : Z) (v : A) (l : list (Z * A)) : list (Z * A) :=
  match l with [] => [(k, v)] | (k', v') :: r => if k =? k' then (k, v) :: r else (k', v') :: update k v r end.

Definition set_obj (s : loop) (i : Z) (o : obj) : loop :=
  mkloop (l_pending s) (l_disp s) (l_posts s) (update i o (l_objs s)) (l_tmrs s) (l_progs s) (l_now s) (l_depth s) (l_log s) (l_fuel_out s) (l_budget s) (l_overlap s).
Definition set_tmr (s : loop) (i : Z) (t : tmr) : loop :=
  mkloop (l_pending s) (l_disp s) (l_posts s) (l_objs s) (update i t (l_tmrs s)) (l_progs s) (l_now s) (l_depth s) (l_log s) (l_fuel_out s) (l_budget s) (l_overlap s).
Definition set_pending (s : loop) (p : Z) : loop :=
  mkloop p (l_disp s) (l_posts s) (l_objs s) (l_tmrs s) (l_progs s) (l_now s) (l_depth s) (l_log s) (l_fuel_out s) (l_budget s) (l_overlap s).
Definition set_disp (s : loop) (d : Z) : loop :=
  mkloop (l_pending s) d (l_posts s) (l_objs s) (l_tmrs s) (l_progs s) (l_now s) (l_depth s) (l_log s) (l_fuel_out s) (l_budget s) (l_overlap s).
Definition set_depth (s : loop) (d : Z) : loop :=
  mkloop (l_pending s) (l_disp s) (l_posts s) (l_objs s) (l_tmrs s) (l_progs s) (l_now s) d (l_log s) (l_fuel_out s) (l_budget s) (l_overlap s).
Definition set_posts (s : loop) (p : list Z) : loop :=
  mkloop (l_pending s) (l_disp s) p (l_objs s) (l_tmrs s) (l_progs s) (l_now s) (l_depth s) (l_log s) (l_fuel_out s) (l_budget s) (l_overlap s).
Definition add_log (s : loop) (e : lev) : loop :=
  mkloop (l_pending s) (l_disp s) (l_posts s) (l_objs s) (l_tmrs s) (l_progs s) (l_now s) (l_depth s) (e :: l_log s) (l_fuel_out s) (l_budget s) (l_overlap s).
Definition note_overlap (s : loop) (b : bool) : loop :=
  mkloop (l_pending s) (l_disp s) (l_posts s) (l_objs s) (l_tmrs s) (l_progs s) (l_now s) (l_depth s) (l_log s) (l_fuel_out s) (l_budget s)
    (l_overlap s || b).
Definition out_of_fuel (s : loop) : loop :=
  mkloop (l_pending s) (l_disp s) (l_posts s) (l_objs s) (l_tmrs s) (l_progs s) (l_now s) (l_depth s) (l_log s) true (l_budget s) (l_overlap s).

Definition new_obj (k : okind) : obj :=
  mkobj k false false false None None false (match k with KReg => 64 | _ => 0 end) false false false (-1).
Definition new_tmr : tmr := mktmr 0 false false 0 0 None false.

(* ---- the kernel: read(2) / write(2) results *)
Inductive sysres : Type := SGot (n : Z) | SEof | SWouldBlock | SFail (e : Z).

Definition sys_read (o : obj) (want : Z) : obj * sysres :=
  if o_closed o || (match o_kind o with KPipeW => true | _ => false end) then (o, SFail xEBADF)
  else if (match o_kind o with KDead => true | _ => false end) then (o, SFail 9)        (* EISDIR *)
  else if (match o_kind o with KLsn => true | _ => false end) then
    (* accept(2): one queued connection per call *)
    if 0 <? e_rq o then
      (mkobj (o_kind o) (o_closed o) (o_evR o) (o_evW o) (o_rd o) (o_wr o) (o_reg o) (e_rq o - 1) (e_reof o) (e_rst o) (e_wdead o) (e_wroom o), SGot 1)
    else (o, SWouldBlock)
  else if 0 <? e_rq o then
    (* buffered data is delivered first, also after the peer closed or reset the connection *)
    let n := Z.min want (e_rq o) in
    (mkobj (o_kind o) (o_closed o) (o_evR o) (o_evW o) (o_rd o) (o_wr o) (o_reg o) (e_rq o - n) (e_reof o) (e_rst o) (e_wdead o) (e_wroom o), SGot n)
  else if e_rst o then
    (* the pending socket error is reported once; afterwards the socket reads as end-of-stream *)
    (mkobj (o_kind o) (o_closed o) (o_evR o) (o_evW o) (o_rd o) (o_wr o) (o_reg o) (e_rq o) true false true (e_wroom o), SFail xReset)
  else match o_kind o with
       | KReg => (o, SEof)
       | _ => if e_reof o then (o, SEof) else (o, SWouldBlock)
       end.

Definition sys_write (o : obj) (want : Z) : obj * sysres :=
  if o_closed o || (match o_kind o with KPipeR | KDead => true | _ => false end) then (o, SFail xEBADF)
  else if e_rst o then
    (* the pending socket error is reported once, to whichever call meets it first; afterwards reads see end-of-stream and
       writes a broken pipe *)
    (mkobj (o_kind o) (o_closed o) (o_evR o) (o_evW o) (o_rd o) (o_wr o) (o_reg o) (e_rq o) true false true (e_wroom o), SFail xReset)
  else if e_wdead o then (o, SFail xEPIPE)
  else if e_wroom o <? 0 then (o, SGot want)
  else if e_wroom o =? 0 then (o, SWouldBlock)      (* the send buffer is full *)
  else
    let n := Z.min want (e_wroom o) in
    (mkobj (o_kind o) (o_closed o) (o_evR o) (o_evW o) (o_rd o) (o_wr o) (o_reg o) (e_rq o) (e_reof o) (e_rst o) (e_wdead o) (e_wroom o - n), SGot n).

(* epoll_ctl(ADD) is refused for regular files *)
Definition ctl_ok (o : obj) : bool := match o_kind o with KReg | KDead => false | _ => true end.

(* ---- work list *)
Inductive item : Type :=
| IAct (a : action)
| IInvoke (cb err n : Z) (wrapped : bool)
| IEnd (wrapped : bool)
| ITimerFired (t : Z)                   (* the closure installed by ScheduleOnce *)
| ITimerAfter (t : Z)                   (* the tail of the repeating wrapper *)
| ICancelWrites (i : Z)                 (* second half of Cancel *)
| ICancelEnd (i : Z)
| ILog (e : lev)
| IPollWrite (i : Z)                    (* write side of a batch entry, evaluated after the read handler returned *)
| IPollEntry (e : Z * Z * Z).           (* one entry of the epoll batch: (kind, id, mask); kind 0 object, 1 timer, 2 waker *)

Definition prog_of (s : loop) (cb : Z) : list action := match lookup cb (l_progs s) with Some p => p | None => [] end.

Definition with_rd (o : obj) (r : option opst) (evR reg : bool) : obj :=
  mkobj (o_kind o) (o_closed o) evR (o_evW o) r (o_wr o) reg (e_rq o) (e_reof o) (e_rst o) (e_wdead o) (e_wroom o).
Definition with_wr (o : obj) (w : option opst) (evW reg : bool) : obj :=
  mkobj (o_kind o) (o_closed o) (o_evR o) evW (o_rd o) w reg (e_rq o) (e_reof o) (e_rst o) (e_wdead o) (e_wroom o).
Definition set_sofar (p : opst) (n : Z) : opst := mkop (op_cb p) (op_all p) (op_len p) n (op_wrapped p).
Definition set_wrapped (p : opst) (w : bool) : opst := mkop (op_cb p) (op_all p) (op_len p) (op_sofar p) w.
Definition is_pkt (o : obj) : bool := match o_kind o with KPkt => true | _ => false end.

(* scheduleRead / scheduleWrite: [wrapped] tells whether the callback handed to it is the Dispatched-counting wrapper *)
Definition schedule (s : loop) (i : Z) (o : obj) (write : bool) (p0 : opst) (wrapped : bool) : loop * list item :=
  let p := set_wrapped p0 wrapped in
  if o_closed o then (set_obj s i o, [IInvoke (op_cb p) xEOF 0 wrapped])
  else if (if write then o_evW o else o_evR o) then
    (* interest already registered: setRW is a no-op, the reactor now holds this operation *)
    (set_obj s i (if write then with_wr o (Some p) true true else with_rd o (Some p) true true), [])
  else if ctl_ok o then
    (set_pending (set_obj s i (if write then with_wr o (Some p) true true else with_rd o (Some p) true true)) (l_pending s + 1), [])
  else
    (* epoll_ctl failed: interest and accounting are rolled back, the operation completes with the error *)
    (set_obj s i (if write then with_wr o (Some p) (o_evW o) (o_reg o) else with_rd o (Some p) (o_evR o) (o_reg o)),
     [IInvoke (op_cb p) xEPERM (op_sofar p) wrapped]).

(* asyncReadNow / asyncWriteNow: perform the system call and complete, re-arm or fail *)
Fixpoint io_now (fuel : nat) (s : loop) (i : Z) (write : bool) (p : opst) (wrapped : bool) {struct fuel} : loop * list item :=
  match fuel with
  | O => (out_of_fuel s, [])
  | S f =>
      match lookup i (l_objs s) with
      | None => (s, [])
      | Some o =>
          let '(o1, r) := if write then sys_write o (op_len p - op_sofar p) else sys_read o (op_len p - op_sofar p) in
          match r with
          | SGot n =>
              let sofar := op_sofar p + n in
              (* packet.go makes one system call per attempt, also for the *All flavour *)
              if op_all p && negb (sofar =? op_len p) && negb (is_pkt o) then io_now f (set_obj s i o1) i write (set_sofar p sofar) wrapped
              else (set_obj s i o1, [IInvoke (op_cb p) xNil sofar wrapped])
          | SEof => (set_obj s i o1, [IInvoke (op_cb p) xEOF (op_sofar p) wrapped])
          | SWouldBlock => schedule s i o1 write p wrapped
          | SFail e => (set_obj s i o1, [IInvoke (op_cb p) e (op_sofar p) wrapped])
          end
      end
  end.

Definition del_interest (s : loop) (i : Z) (o : obj) (write : bool) : loop * obj :=
  if (if write then o_evW o else o_evR o) then
    (set_pending s (l_pending s - 1),
     if write then with_wr o (o_wr o) false (o_reg o) else with_rd o (o_rd o) false (o_reg o))
  else (s, o).

(* onRead / onWrite: the handler the poller (err = nil) or Cancel (err = cancelled) invokes *)
Definition on_event (s : loop) (i : Z) (o : obj) (write : bool) (err : Z) : loop * list item :=
  (* Deregister, unless the other direction is still registered with the poller *)
  let reg := if o_evR o || o_evW o then o_reg o else false in
  let o1 := if write then with_wr o (o_wr o) (o_evW o) reg else with_rd o (o_rd o) (o_evR o) reg in
  match (if write then o_wr o else o_rd o) with
  | None => (set_obj s i o1, [])
  | Some p =>
      (* the packet conn's handler completes through the callback it was scheduled with: the wrapper when the operation was
         started below the dispatch limit and would have blocked *)
      let wr := is_pkt o && op_wrapped p in
      if negb (err =? xNil) then (set_obj s i o1, [IInvoke (op_cb p) err (op_sofar p) wr])
      else
        match o_kind o with
        | KLsn =>
            (* listen_conn.go handleAsyncAccept: one accept, its result goes to the callback (no re-arm on would-block) *)
            let '(o2, r) := sys_read o1 0 in
            (set_obj s i o2, [IInvoke (op_cb p) (match r with SGot _ => xNil | SEof => xEOF | SWouldBlock => xWouldBlock | SFail e => e end)
                                (match r with SGot n => n | _ => 0 end) false])
        | _ => io_now 64 (set_obj s i o1) i write p wr
        end
  end.

Definition timer_unset (s : loop) (i : Z) (t : tmr) : loop * tmr :=
  if t_evR t then (set_pending s (l_pending s - 1), mktmr (t_state t) (t_cancelled t) false (t_cb t) (t_rep t) None (t_member t))
  else (s, t).

Definition sched_once (s : loop) (i : Z) (t : tmr) (ms cb : Z) (rep : Z) : loop * list item :=
  if t_state t =? 0 then
    let t0 := mktmr (t_state t) false (t_evR t) (t_cb t) (t_rep t) (t_due t) (t_member t) in
    if ms <=? 0 then (set_tmr s i t0, [IInvoke cb xNil 0 false])
    else
      let '(s1, t1) := timer_unset s i t0 in
      let t2 := mktmr 1 false true cb rep (Some (l_now s1 + ms)) true in
      (set_pending (set_tmr s1 i t2) (l_pending s1 + 1), [])
  else (s, []).

Definition do_action (s : loop) (a : action) : loop * list item :=
  match a with
  | AStart write all i len cb =>
      match lookup i (l_objs s) with
      | None => (s, [])
      | Some o =>
          let p := mkop cb all len 0 false in
          let o0 := if write then with_wr o (Some p) (o_evW o) (o_reg o) else with_rd o (Some p) (o_evR o) (o_reg o) in
          let s := note_overlap (add_log s (LStart cb i write all len)) (if write then o_evW o else o_evR o) in
          if l_disp s <? sonic_MaxCallbackDispatch then io_now 64 (set_obj s i o0) i write p true
          else schedule s i o0 write p false
      end
  | ACancel i =>
      match lookup i (l_objs s) with
      | None => (s, [])
      | Some o =>
          (* cancelReads, then cancelWrites once the read handler has returned *)
          let s := add_log s (LCancel i false) in
          let r := if o_evR o then
                     (* cancelReads passes DelRead's error on when the poller's call fails (descriptor unknown to epoll) *)
                     let '(s1, o1) := del_interest s i o false in on_event s1 i o1 false (if ctl_ok o then xCancelled else xEPERM)
                   else (s, []) in
          (fst r, snd r ++ [ICancelWrites i])
      end
  | AClose i =>
      match lookup i (l_objs s) with
      | None => (s, [])
      | Some o =>
          if o_closed o then (add_log s (LClose i xEOF), [])
          else
            let '(s1, o1) := del_interest s i o false in
            let '(s2, o2) := del_interest s1 i o1 true in
            let o3 := mkobj (o_kind o2) true false false (o_rd o2) (o_wr o2) false (e_rq o2) (e_reof o2) (e_rst o2) (e_wdead o2) (e_wroom o2) in
            (* the poller's call fails when an interest has to be removed from a descriptor epoll does not know: Close goes on
               and reports that error *)
            let err := if (o_evR o || o_evW o) && negb (ctl_ok o) then xEPERM else xNil in
            (add_log (set_obj s2 i o3) (LClose i err), [])
      end
  | ASched i rep ms cb =>
      match lookup i (l_tmrs s) with
      | None => (s, [])
      | Some t =>
          if rep && (ms <=? 0) then (add_log s (LSched i rep ms cb xCancelled), [])
          else if t_state t =? 0 then
            let '(s1, items) := sched_once s i t ms cb (if rep then ms else 0) in (s1, items ++ [ILog (LSched i rep ms cb xNil)])
          else (add_log s (LSched i rep ms cb xCancelled), [])
      end
  | ATCancel i =>
      match lookup i (l_tmrs s) with
      | None => (s, [])
      | Some t =>
          let '(s1, t1) := timer_unset s i t in
          (* a closed timer stays closed *)
          let t2 := mktmr (if t_state t1 =? 2 then 2 else 0) true (t_evR t1) (t_cb t1) (t_rep t1) (t_due t1) (t_member t1) in
          (add_log (set_tmr s1 i t2) (LTCancel i xNil), [])
      end
  | ATClose i =>
      match lookup i (l_tmrs s) with
      | None => (s, [])
      | Some t =>
          if t_state t =? 2 then (add_log s (LTClose i xNil), [])
          else
            let '(s1, t1) := timer_unset s i t in
            (add_log (set_tmr s1 i (mktmr 2 (t_cancelled t1) false (t_cb t1) (t_rep t1) None false)) (LTClose i xNil), [])
      end
  | APost cb => (add_log (set_pending (set_posts s (l_posts s ++ [cb])) (l_pending s + 1)) (LPost cb), [])
  end.

Definition mIN := 1.  Definition mOUT := 4.  Definition mERR := 8.  Definition mHUP := 16.
Definition has (mask bit : Z) : bool := negb (Z.land mask bit =? 0).

Definition write_event (s : loop) (i : Z) (err : Z) : loop * list item :=
  match lookup i (l_objs s) with
  | None => (s, [])
  | Some o =>
      if o_evW o then
        let '(s1, o1) := del_interest s i o true in
        on_event s1 i o1 true (if (err =? xCancelled) && negb (ctl_ok o) then xEPERM else err)
      else (s, [])
  end.

(* Poll, one batch entry, against the CURRENT state (earlier handlers of the same batch may have changed it) *)
Definition poll_entry (s : loop) (e : Z * Z * Z) : loop * list item :=
  let '(kind, i, mask) := e in
  if kind =? 2 then
    (* dispatch: run every posted handler, then clear the queue *)
    (set_pending (set_posts s []) (l_pending s - zlen (l_posts s)), map (fun cb => IInvoke cb xNil 0 false) (l_posts s))
  else if kind =? 1 then
    match lookup i (l_tmrs s) with
    | None => (s, [])
    | Some t =>
        if (has mask mIN || has mask mHUP || has mask mERR) && t_evR t then
          (* DelRead; the handler reads the timerfd: if it has not expired (a stale entry for a timer re-armed by an
             earlier handler) the interest is registered again and nothing fires *)
          let expired := match t_due t with Some due => due <=? l_now s | None => false end in
          if expired then
            (set_pending (set_tmr s i (mktmr (t_state t) (t_cancelled t) false (t_cb t) (t_rep t) None (t_member t))) (l_pending s - 1),
             [ITimerFired i])
          else (s, [])
        else (s, [])
    end
  else
    match lookup i (l_objs s) with
    | None => (s, [])
    | Some o =>
        (* a hang-up or error condition makes both directions ready *)
        let ready := has mask mHUP || has mask mERR in
        let r := if (has mask mIN || ready) && o_evR o then
                   let '(s1, o1) := del_interest s i o false in on_event s1 i o1 false xNil
                 else (s, []) in
        (fst r, snd r ++ (if has mask mOUT || ready then [IPollWrite i] else []))
    end.

Fixpoint exec (fuel : nat) (s : loop) (stack : list item) : loop :=
  match fuel with
  | O => match stack with [] => s | _ => out_of_fuel s end
  | S f =>
      match stack with
      | [] => s
      | IAct a :: rest => let '(s1, items) := do_action s a in exec f s1 (items ++ rest)
      | ICancelWrites i :: rest => let '(s1, items) := write_event s i xCancelled in exec f s1 (items ++ ICancelEnd i :: rest)
      | ICancelEnd i :: rest => exec f (add_log s (LCancel i true)) rest
      | ILog e :: rest => exec f (add_log s e) rest
      | IPollWrite i :: rest => let '(s1, items) := write_event s i xNil in exec f s1 (items ++ rest)
      | IPollEntry e :: rest => let '(s1, items) := poll_entry s e in exec f s1 (items ++ rest)
      | IInvoke cb err n wrapped :: rest =>
          let d := l_depth s + 1 in
          let s1 := add_log (set_depth s d) (LCb cb err n d) in
          let s2 := if wrapped then set_disp s1 (l_disp s1 + 1) else s1 in
          let s3 := mkloop (l_pending s2) (l_disp s2) (l_posts s2) (l_objs s2) (l_tmrs s2) (l_progs s2) (l_now s2) (l_depth s2)
                      (l_log s2) (l_fuel_out s2) (l_budget s2 - 1) (l_overlap s2) in
          exec f s3 ((if 0 <? l_budget s2 then map IAct (prog_of s2 cb) else []) ++ IEnd wrapped :: rest)
      | IEnd wrapped :: rest =>
          let s1 := set_depth s (l_depth s - 1) in
          exec f (if wrapped then set_disp s1 (l_disp s1 - 1) else s1) rest
      | ITimerFired i :: rest =>
          match lookup i (l_tmrs s) with
          | None => exec f s rest
          | Some t =>
              let t1 := mktmr 0 (t_cancelled t) (t_evR t) (t_cb t) (t_rep t) (t_due t) false in
              exec f (set_tmr s i t1) (IInvoke (t_cb t) xNil 0 false :: (if 0 <? t_rep t then [ITimerAfter i] else []) ++ rest)
          end
      | ITimerAfter i :: rest =>
          match lookup i (l_tmrs s) with
          | None => exec f s rest
          | Some t =>
              if t_cancelled t then
                exec f (set_tmr s i (mktmr (t_state t) false (t_evR t) (t_cb t) (t_rep t) (t_due t) (t_member t))) rest
              else
                let '(s1, items) := sched_once s i t (t_rep t) (t_cb t) (t_rep t) in exec f s1 (items ++ rest)
          end
      end
  end.

(* ---- script operations *)
Inductive peerop : Type := PData (n : Z) | PClose | PRst | PDrain (n : Z) | PKill | PFill.     (* PKill: descriptor closed underneath *)

Inductive lop : Type :=
| LObj (i : Z) (k : okind)
| LTimer (i : Z)
| LProg (cb : Z) (acts : list action)
| LDepth (n : Z)
| LPeer (i : Z) (p : peerop)
| LSleep (ms : Z)
| LPoll (batch : list (Z * Z * Z))
| LAct (a : action).

Definition exec_fuel : nat := 20000.

Definition lstep (s0 : loop) (o : lop) : loop :=
  let s := mkloop (l_pending s0) (l_disp s0) (l_posts s0) (l_objs s0) (l_tmrs s0) (l_progs s0) (l_now s0) (l_depth s0)
             (l_log s0) (l_fuel_out s0) 300 (l_overlap s0) in
  match o with
  | LObj i k => set_obj s i (new_obj k)
  | LTimer i => set_tmr s i new_tmr
  | LProg cb acts => mkloop (l_pending s) (l_disp s) (l_posts s) (l_objs s) (l_tmrs s) (update cb acts (l_progs s)) (l_now s)
                       (l_depth s) (l_log s) (l_fuel_out s) (l_budget s) (l_overlap s)
  | LDepth n => set_disp s n
  | LPeer i p =>
      match lookup i (l_objs s) with
      | None => s
      | Some o =>
          let o' := match p with
                    | PData n => mkobj (o_kind o) (o_closed o) (o_evR o) (o_evW o) (o_rd o) (o_wr o) (o_reg o) (e_rq o + n) (e_reof o) (e_rst o) (e_wdead o) (e_wroom o)
                    | PClose => match o_kind o with
                                | KPipeW => mkobj (o_kind o) (o_closed o) (o_evR o) (o_evW o) (o_rd o) (o_wr o) (o_reg o) (e_rq o) (e_reof o) (e_rst o) true (e_wroom o)
                                | _ => mkobj (o_kind o) (o_closed o) (o_evR o) (o_evW o) (o_rd o) (o_wr o) (o_reg o) (e_rq o) true (e_rst o) (e_wdead o) (e_wroom o)
                                end
                    | PRst => mkobj (o_kind o) (o_closed o) (o_evR o) (o_evW o) (o_rd o) (o_wr o) (o_reg o) (e_rq o) (e_reof o) true (e_wdead o) (e_wroom o)
                    | PDrain _ =>      (* the peer has read everything: the send buffer is empty again *)
                        mkobj (o_kind o) (o_closed o) (o_evR o) (o_evW o) (o_rd o) (o_wr o) (o_reg o) (e_rq o) (e_reof o) (e_rst o) (e_wdead o) (-1)
                    | PFill =>         (* the harness fills the socket's send buffer behind the object's back *)
                        mkobj (o_kind o) (o_closed o) (o_evR o) (o_evW o) (o_rd o) (o_wr o) (o_reg o) (e_rq o) (e_reof o) (e_rst o) (e_wdead o) 0
                    | PKill => mkobj KDead (o_closed o) (o_evR o) (o_evW o) (o_rd o) (o_wr o) (o_reg o) 0 (e_reof o) (e_rst o) (e_wdead o) (e_wroom o)
                    end in
          set_obj s i o'
      end
  | LSleep ms => mkloop (l_pending s) (l_disp s) (l_posts s) (l_objs s) (l_tmrs s) (l_progs s) (l_now s + ms) (l_depth s) (l_log s) (l_fuel_out s) (l_budget s) (l_overlap s)
  | LPoll batch => exec exec_fuel s (map IPollEntry batch)
  | LAct a => exec exec_fuel s [IAct a]
  end.

(* ---- what the harness observes after every script line *)
Definition obj_bits (o : obj) : Z := (if o_evR o then 1 else 0) + (if o_evW o then 4 else 0).
Definition timers_alive (s : loop) : Z := zlen (filter (fun p => t_member (snd p)) (l_tmrs s)).
