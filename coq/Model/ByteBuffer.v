(* C09 (and the substrate of C06 C07 C15 C16 C19 C20): hand-written model of /repo/byte_buffer.go.
   State: the three indices, the capacity and the bytes of data[0:wi].  Bytes beyond wi (the slack up to the capacity)
   are never read by the code before being overwritten by the caller (Claim, ClaimFixed, ReadFrom), so they are not
   part of the state; the bytes a caller writes into a claimed slice are part of the operation.
   Go ints are int64: additions that involve a caller-supplied argument go through wrap64. *)
From Sonic Require Import Base.Prelude.
Local Open Scope Z_scope.

Definition two63 : Z := 9223372036854775808.
Definition wrap64 (z : Z) : Z := (z + two63) mod (2 * two63) - two63.
Definition is_int64 (z : Z) : Prop := - two63 <= z < two63.

Record bb : Type := mkbb { si : Z; ri : Z; wi : Z; bcap : Z; bmem : list Z; oneb : Z (* the oneByte scratch array *) }.

Definition bb_init : bb := mkbb 0 0 0 512 [] 0.

Inductive bbop : Type :=
| OReserve (n : Z) (newcap : Z)          (* newcap: capacity after a possible reallocation (environment input) *)
| OCommit (n : Z)
| OConsume (n : Z)
| OSave (n : Z)
| OSavedSlot (i l : Z)
| ODiscard (i l : Z)
| ODiscardAll
| OReset
| ORead (m : Z)                          (* Read into a destination of length m *)
| OReadByte
| OReadFrom (w : list Z) (n : Z) (err : bool)   (* the reader stores w in the slack and returns (n, err) *)
| OUnreadByte
| OWrite (w : list Z) (newcap : Z)       (* Write / WriteByte / WriteString *)
| OWriteTo (res : list (Z * bool))       (* the writer's successive results (n, failed) *)
| OAsyncWriteTo (n : Z) (err : bool)     (* AsyncWriteAll's completion *)
| OPrepareRead (n : Z)
| OClaim (w : list Z) (n : Z)            (* fn stores w in the slack and returns n *)
| OClaimFixed (n : Z) (w : list Z)       (* the caller then stores w in the returned slice *)
| OShrinkBy (n : Z)
| OShrinkTo (n : Z)
| OObserve.

Inductive bbret : Type :=
| RNone
| RInt (n : Z)
| RSlot (i l : Z)
| RBytes (l : list Z)                    (* a returned slice, by content *)
| RIntErr (n : Z) (err : Z)              (* err: 0 nil, 1 EOF, 2 NeedMore, 3 the reader's/writer's error *)
| RByteErr (b : Z) (err : Z).

(* data[a:b] with len(data) = wi, cap(data) = cap: Go allows b up to cap for a slice expression, but every slice
   expression of byte_buffer.go that can exceed len is modelled separately (slack) *)
Definition chk (cond : bool) {A} (k : outcome A) : outcome A := if cond then k else Panic.

Definition setmem (s : bb) (si' ri' wi' : Z) (m : list Z) : bb := mkbb si' ri' wi' (bcap s) m (oneb s).

(* copy(data[a:], data[a+n:wi]); then drop the last n bytes *)
Definition remove_range (m : list Z) (a n : Z) : list Z := ztake a m ++ zdrop (a + n) m.

Definition readLen (s : bb) : Z := ri s - si s.
Definition writeLen (s : bb) : Z := wi s - ri s.

Definition consume (s : bb) (n : Z) : bb :=
  if n <=? 0 then s
  else
    let n := if n >? readLen s then readLen s else n in
    if n >? 0 then setmem s (si s) (ri s - n) (wi s - n) (remove_range (bmem s) (si s) n) else s.

Definition commit (s : bb) (n : Z) : bb :=
  if n <=? 0 then s
  else
    let n := if n >? wi s - ri s then wi s - ri s else n in
    setmem s (si s) (ri s + n) (wi s) (bmem s).

Definition shrinkBy (s : bb) (n : Z) : bb * Z :=
  if n <=? 0 then (s, 0)
  else
    let n := if n >? writeLen s then writeLen s else n in
    (setmem s (si s) (ri s) (wi s - n) (ztake (wi s - n) (bmem s)), n).

Definition valid_slot (s : bb) (i l : Z) : bool :=
  (0 <=? i) && (0 <=? l) && (l <=? si s) && (i <=? si s - l).

Fixpoint write_loop (s : bb) (res : list (Z * bool)) (written : Z) (fuel : nat) {struct fuel} : Z * Z :=
  (* returns (writtenBytes, err) *)
  match fuel with
  | O => (written, 3)
  | S f =>
      if si s + written <? ri s then
        match res with
        | [] => (written, 3)                       (* script exhausted: treated as a writer error *)
        | (n, failed) :: rest => if failed then (written, 3) else write_loop s rest (written + n) f
        end
      else (written, 0)
  end.

Definition bbstep (s : bb) (o : bbop) : outcome (bb * bbret) :=
  match o with
  | OReserve n newcap =>
      let existing := bcap s - wi s in
      let need := wrap64 (n - existing) in
      if need >? 0 then Ok (mkbb (si s) (ri s) (wi s) newcap (bmem s) (oneb s), RNone) else Ok (s, RNone)
  | OCommit n => Ok (commit s n, RNone)
  | OConsume n => Ok (consume s n, RNone)
  | OSave n =>
      let n := if n >? readLen s then readLen s else n in
      if n <=? 0 then Ok (s, RSlot 0 0)
      else Ok (setmem s (si s + n) (ri s) (wi s) (bmem s), RSlot (si s) n)
  | OSavedSlot i l =>
      if valid_slot s i l then Ok (s, RBytes (zsub i (i + l) (bmem s))) else Ok (s, RBytes [])
  | ODiscard i l =>
      if (l <=? 0) || negb (valid_slot s i l) then Ok (s, RInt 0)
      else Ok (setmem s (si s - l) (ri s - l) (wi s - l) (remove_range (bmem s) i l), RInt l)
  | ODiscardAll =>
      let l := si s in
      if (l <=? 0) then Ok (s, RNone)
      else Ok (setmem s 0 (ri s - l) (wi s - l) (remove_range (bmem s) 0 l), RNone)
  | OReset => Ok (setmem s 0 0 0 [], RNone)
  | ORead m =>
      if m <=? 0 then Ok (s, RIntErr 0 0)
      else if readLen s =? 0 then Ok (s, RIntErr 0 1)
      else
        let n := Z.min m (readLen s) in
        Ok (consume s n, RBytes (zsub (si s) (si s + n) (bmem s)))
  | OReadByte =>
      if readLen s =? 0 then Ok (s, RByteErr (oneb s) 1)
      else
        let b := nth 0 (zsub (si s) (si s + 1) (bmem s)) 0 in
        let s' := consume s 1 in
        Ok (mkbb (si s') (ri s') (wi s') (bcap s') (bmem s') b, RByteErr b 0)
  | OReadFrom w n err =>
      (* the reader is given data[wi:cap], stores as much of w as fits and returns (min(n, stored), err) *)
      let n := Z.max 0 (Z.min n (Z.min (zlen w) (bcap s - wi s))) in
      if err then Ok (s, RIntErr n 3)
      else chk ((0 <=? wi s + n) && (wi s + n <=? bcap s))
             (Ok (setmem s (si s) (ri s) (wi s + n) (bmem s ++ ztake n w), RIntErr n 0))
  | OUnreadByte =>
      if writeLen s >? 0 then Ok (setmem s (si s) (ri s) (wi s - 1) (ztake (wi s - 1) (bmem s)), RInt 0)
      else Ok (s, RInt 1)
  | OWrite w newcap =>
      let n := zlen w in
      Ok (mkbb (si s) (ri s) (wi s + n) (if wi s + n <=? bcap s then bcap s else newcap) (bmem s ++ w) (oneb s), RIntErr n 0)
  | OWriteTo res =>
      let '(written, err) := write_loop s res 0 (S (length res)) in
      Ok (consume s written, RIntErr written err)
  | OAsyncWriteTo n err =>
      if err then Ok (s, RIntErr n 3) else Ok (consume s n, RIntErr n 0)
  | OPrepareRead n =>
      let need := wrap64 (n - readLen s) in
      if need >? 0 then
        if writeLen s >=? need then Ok (commit s need, RInt 0) else Ok (s, RInt 2)
      else Ok (s, RInt 0)
  | OClaim w n =>
      if (0 <=? n) && (n <=? bcap s - wi s) then
        Ok (setmem s (si s) (ri s) (wi s + n) (bmem s ++ ztake n w), RNone)
      else Ok (s, RNone)
  | OClaimFixed n w =>
      if (0 <=? n) && (n <=? bcap s - wi s) then
        Ok (setmem s (si s) (ri s) (wi s + n) (bmem s ++ ztake n (w ++ repeat 0 (Z.to_nat n))), RInt n)
      else Ok (s, RInt 0)
  | OShrinkBy n => let '(s', k) := shrinkBy s n in Ok (s', RInt k)
  | OShrinkTo n => let '(s', k) := shrinkBy s (wrap64 (writeLen s - n)) in Ok (s', RInt k)
  | OObserve => Ok (s, RNone)
  end.

Fixpoint bbrun (s : bb) (ops : list bbop) : outcome bb :=
  match ops with
  | [] => Ok s
  | o :: rest => obind (bbstep s o) (fun '(s', _) => bbrun s' rest)
  end.

(* the three regions *)
Definition saved_of (s : bb) : list Z := zsub 0 (si s) (bmem s).
Definition readable_of (s : bb) : list Z := zsub (si s) (ri s) (bmem s).
Definition pending_of (s : bb) : list Z := zsub (ri s) (wi s) (bmem s).
