(* C05: a labelled transition system for Post (/repo/internal/poll_linux.go Post, dispatch; internal/eventfd.go) with any
   number of posting goroutines and the loop goroutine, interleaved at the granularity of the statements that touch
   shared state:
     Post(h):    lock ; posts = append(posts, h) ; unlock ; atomic pending++ ; eventfd += 1
     loop:       epoll_wait (returns iff the eventfd counter > 0: other descriptors are C01's subject) ; drain eventfd ;
                 lock ; batch, posts = posts, empty ; unlock ; for h in batch { h() ; atomic pending-- }
   A handler may itself call Post (nest h lists what handler h posts, in order): the loop goroutine then runs the Post
   routine.  [locked_run] selects the structure the code had before the repair (handlers run while the lock is held); it
   is kept so that the deadlock is expressible and refuted rather than ruled out by construction.
   One scheduler step = one statement of one goroutine: [tstep s t] is None when goroutine t cannot move (blocked on the
   mutex, blocked in epoll_wait, or finished). *)
From Sonic Require Import Base.Prelude.
Local Open Scope Z_scope.

Inductive tid : Type := TLoop | TPoster (i : nat).

Definition tid_eqb (a b : tid) : bool :=
  match a, b with TLoop, TLoop => true | TPoster i, TPoster j => Nat.eqb i j | _, _ => false end.

(* program counter inside Post(h) *)
Inductive ppc : Type := PIdle | PLocked (h : Z) | PAppended (h : Z) | PUnlocked (h : Z) | PCounted (h : Z).

Record poster : Type := mkposter { p_todo : list Z; p_pc : ppc }.

Inductive lpc : Type :=
| LWait                                            (* in epoll_wait *)
| LDrained | LLocked | LSwapped
| LRunning (cur : option (Z * list Z * ppc)).      (* handler being run, what it still has to post, pc in that Post *)

Record cstate : Type := mkc {
  c_posts : list (tid * Z);                        (* the queue; the owner is ghost *)
  c_batch : list (tid * Z);                        (* the slice dispatch took; its head is the handler being run *)
  c_evc : Z;                                       (* eventfd counter *)
  c_lock : option tid;
  c_pend : Z;
  c_posters : list poster;
  c_loop : lpc;
  c_enq : list (tid * Z);                          (* ghost: every append, in order *)
  c_exec : list (tid * Z);                         (* ghost: handlers run, in order *)
  c_nest : list (Z * list Z);
  c_locked_run : bool
}.

Fixpoint zassoc (k : Z) (l : list (Z * list Z)) : list Z :=
  match l with [] => [] | (k', v) :: r => if k =? k' then v else zassoc k r end.

Fixpoint upd_nth {A} (i : nat) (v : A) (l : list A) : list A :=
  match l, i with
  | [], _ => []
  | _ :: r, O => v :: r
  | x :: r, S j => x :: upd_nth j v r
  end.

(* the shared-state effect of one statement of Post(h) executed by goroutine [who] at pc [pc] *)
Definition post_stmt (s : cstate) (who : tid) (pc : ppc) (next : option Z) : option (cstate * ppc) :=
  match pc with
  | PIdle =>
      match next with
      | None => None
      | Some h =>
          match c_lock s with
          | Some _ => None                            (* mutex held: blocked *)
          | None => Some (mkc (c_posts s) (c_batch s) (c_evc s) (Some who) (c_pend s) (c_posters s) (c_loop s) (c_enq s) (c_exec s) (c_nest s) (c_locked_run s), PLocked h)
          end
      end
  | PLocked h =>
      Some (mkc (c_posts s ++ [(who, h)]) (c_batch s) (c_evc s) (c_lock s) (c_pend s) (c_posters s) (c_loop s) (c_enq s ++ [(who, h)]) (c_exec s) (c_nest s) (c_locked_run s), PAppended h)
  | PAppended h =>
      Some (mkc (c_posts s) (c_batch s) (c_evc s) None (c_pend s) (c_posters s) (c_loop s) (c_enq s) (c_exec s) (c_nest s) (c_locked_run s), PUnlocked h)
  | PUnlocked h =>
      Some (mkc (c_posts s) (c_batch s) (c_evc s) (c_lock s) (c_pend s + 1) (c_posters s) (c_loop s) (c_enq s) (c_exec s) (c_nest s) (c_locked_run s), PCounted h)
  | PCounted h =>
      Some (mkc (c_posts s) (c_batch s) (c_evc s + 1) (c_lock s) (c_pend s) (c_posters s) (c_loop s) (c_enq s) (c_exec s) (c_nest s) (c_locked_run s), PIdle)
  end.

Definition set_posters (s : cstate) (ps : list poster) : cstate :=
  mkc (c_posts s) (c_batch s) (c_evc s) (c_lock s) (c_pend s) ps (c_loop s) (c_enq s) (c_exec s) (c_nest s) (c_locked_run s).
Definition set_loop (s : cstate) (l : lpc) : cstate :=
  mkc (c_posts s) (c_batch s) (c_evc s) (c_lock s) (c_pend s) (c_posters s) l (c_enq s) (c_exec s) (c_nest s) (c_locked_run s).

Definition tstep (s : cstate) (t : tid) : option cstate :=
  match t with
  | TPoster i =>
      match nth_error (c_posters s) i with
      | None => None
      | Some p =>
          let '(next, rest) := match p_pc p, p_todo p with PIdle, h :: r => (Some h, r) | _, td => (None, td) end in
          match post_stmt s t (p_pc p) next with
          | None => None
          | Some (s1, pc1) => Some (set_posters s1 (upd_nth i (mkposter rest pc1) (c_posters s1)))
          end
      end
  | TLoop =>
      match c_loop s with
      | LWait =>
          if 0 <? c_evc s then
            Some (mkc (c_posts s) (c_batch s) 0 (c_lock s) (c_pend s) (c_posters s) LDrained (c_enq s) (c_exec s) (c_nest s) (c_locked_run s))
          else None
      | LDrained =>
          match c_lock s with
          | Some _ => None
          | None => Some (mkc (c_posts s) (c_batch s) (c_evc s) (Some TLoop) (c_pend s) (c_posters s) LLocked (c_enq s) (c_exec s) (c_nest s) (c_locked_run s))
          end
      | LLocked =>
          Some (mkc [] (c_posts s) (c_evc s) (c_lock s) (c_pend s) (c_posters s) LSwapped (c_enq s) (c_exec s) (c_nest s) (c_locked_run s))
      | LSwapped =>
          Some (mkc (c_posts s) (c_batch s) (c_evc s) (if c_locked_run s then c_lock s else None) (c_pend s) (c_posters s) (LRunning None) (c_enq s) (c_exec s) (c_nest s) (c_locked_run s))
      | LRunning None =>
          match c_batch s with
          | (o, h) :: _ => Some (set_loop s (LRunning (Some (h, zassoc h (c_nest s), PIdle))))
          | [] =>
              Some (mkc (c_posts s) (c_batch s) (c_evc s) (if c_locked_run s then None else c_lock s) (c_pend s) (c_posters s) LWait (c_enq s) (c_exec s) (c_nest s) (c_locked_run s))
          end
      | LRunning (Some (h, todo, pc)) =>
          match pc, todo with
          | PIdle, [] =>
              (* the handler returns: pending-- *)
              Some (mkc (c_posts s) (tl (c_batch s)) (c_evc s) (c_lock s) (c_pend s - 1) (c_posters s) (LRunning None) (c_enq s)
                      (c_exec s ++ firstn 1 (c_batch s)) (c_nest s) (c_locked_run s))
          | _, _ =>
              let '(next, rest) := match pc, todo with PIdle, n :: r => (Some n, r) | _, td => (None, td) end in
              match post_stmt s TLoop pc next with
              | None => None
              | Some (s1, pc1) => Some (set_loop s1 (LRunning (Some (h, rest, pc1))))
              end
          end
      end
  end.

Definition cinit (todos : list (list Z)) (nest : list (Z * list Z)) (locked_run : bool) : cstate :=
  mkc [] [] 0 None 0 (map (fun td => mkposter td PIdle) todos) LWait [] [] nest locked_run.

(* a schedule is a list of goroutine choices; choosing a goroutine that cannot move leaves the state as it is *)
Fixpoint crun (s : cstate) (sched : list tid) : cstate :=
  match sched with
  | [] => s
  | t :: r => crun (match tstep s t with Some s' => s' | None => s end) r
  end.
