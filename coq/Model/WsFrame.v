(* RFC 6455 frame accessors of /repo/codec/websocket/frame.go on a frame held as a list of bytes (hand-written; masks and
   constants come from the regenerated Gen/Consts.v). *)
From Sonic Require Import Base.Prelude Gen.Consts.
Local Open Scope Z_scope.

Definition byte_at (f : list Z) (i : nat) : Z := nth i f 0.

Definition is_fin (f : list Z) : bool := negb (Z.land (byte_at f 0) ws_bitFIN =? 0).
Definition is_rsv1 (f : list Z) : bool := negb (Z.land (byte_at f 0) ws_bitRSV1 =? 0).
Definition is_rsv2 (f : list Z) : bool := negb (Z.land (byte_at f 0) ws_bitRSV2 =? 0).
Definition is_rsv3 (f : list Z) : bool := negb (Z.land (byte_at f 0) ws_bitRSV3 =? 0).
Definition opcode_of (f : list Z) : Z := Z.land (byte_at f 0) ws_bitmaskOpcode.
Definition is_masked (f : list Z) : bool := negb (Z.land (byte_at f 1) ws_bitIsMasked =? 0).
Definition len7 (f : list Z) : Z := Z.land (byte_at f 1) ws_bitmaskPayloadLength.

Definition ext_len_bytes (f : list Z) : Z :=
  if len7 f =? 127 then 8 else if len7 f =? 126 then 2 else 0.

Definition mask_bytes (f : list Z) : Z := if is_masked f then ws_frameMaskLength else 0.

(* big-endian unsigned value of a byte list *)
Definition be_value (l : list Z) : Z := fold_left (fun acc b => acc * 256 + b) l 0.

Definition two63 : Z := 9223372036854775808.
(* int(uint64) on a 64-bit platform *)
Definition int_of_u64 (u : Z) : Z := if u >=? two63 then u - 2 * two63 else u.

(* Frame.PayloadLength: needs the extended length bytes to be present *)
Definition payload_length (f : list Z) : Z :=
  if len7 f =? 127 then int_of_u64 (be_value (zsub 2 10 f))
  else if len7 f =? 126 then be_value (zsub 2 4 f)
  else len7 f.

Definition payload_offset (f : list Z) : Z := ws_frameHeaderLength + ext_len_bytes f + mask_bytes f.
Definition mask_offset (f : list Z) : Z := ws_frameHeaderLength + ext_len_bytes f.
Definition mask_of (f : list Z) : list Z := if is_masked f then zsub (mask_offset f) (mask_offset f + 4) f else [].
Definition payload_of (f : list Z) : list Z := zdrop (payload_offset f) f.

(* Mask(mask, b): b[i] ^= mask[i & 3], for a 4-byte key (the key is cycled) *)
Fixpoint xor_mask_aux (k key : list Z) (b : list Z) : list Z :=
  match b with
  | [] => []
  | x :: r =>
      match k with
      | k0 :: k' => Z.lxor x k0 :: xor_mask_aux k' key r
      | [] => match key with
              | k0 :: k' => Z.lxor x k0 :: xor_mask_aux k' key r
              | [] => x :: r
              end
      end
  end.
Definition xor_mask (key : list Z) (b : list Z) : list Z := xor_mask_aux key key b.

(* big-endian encoding of n on k bytes *)
Fixpoint be_bytes (k : nat) (n : Z) : list Z :=
  match k with
  | O => []
  | S k' => be_bytes k' (n / 256) ++ [n mod 256]
  end.

(* setPayloadLength keeps the mask bit of byte 1 and chooses the shortest encoding; SetPayload then stores the payload
   after header + mask.  The frame built by AcquireFrame().SetFIN().SetOpcode(op).SetPayload(p) + MaskPayload(key): *)
Definition length_field (n : Z) : Z * list Z :=
  if n >? 65535 then (127, be_bytes 8 n) else if n >? 125 then (126, be_bytes 2 n) else (n, []).

Definition build_frame (fin : bool) (rsv : Z) (op : Z) (masked : bool) (key : list Z) (payload : list Z) : list Z :=
  let '(l7, ext) := length_field (zlen payload) in
  let b0 := (if fin then 128 else 0) + rsv * 16 + Z.land op 15 in
  let b1 := (if masked then 128 else 0) + l7 in
  b0 :: b1 :: ext ++ (if masked then key ++ xor_mask key payload else payload).
