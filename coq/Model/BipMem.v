(* C10: the BipBuffer cursor code (regenerated from bip_buffer.go into Gen/BipBuffer.v) composed with the byte array
   it indexes, the "write through the claimed slice" action of the caller, and a ghost history. *)
From Sonic Require Import Base.Prelude Gen.BipBuffer.
Local Open Scope Z_scope.

Inductive bop : Type :=
| BClaim (n : Z)
| BFill (start : Z)        (* caller writes start, start+1, ... (mod 256) through the whole live claim *)
| BWrite (w : list Z)      (* caller writes w through the live claim (truncated to its length) *)
| BCommit (n : Z)
| BConsume (n : Z)
| BHead
| BReset.

Inductive bret : Type :=
| RSlice (s : option slice) (content : list Z)
| RUnit
| RWrote (n : Z).

Record bst : Type := mkbst {
  cur : BipBuffer;
  mem : list Z;
  live : option slice;     (* the slice returned by the last Claim, until the next Commit / Reset *)
  glog : list Z;           (* ghost: every byte committed since the last Reset, in commit order *)
  gcons : Z                (* ghost: number of bytes consumed since the last Reset *)
}.

Definition binit (size : Z) : bst :=
  mkbst (mkBipBuffer size 0 0 0 0 0 0) (repeat 0 (Z.to_nat size)) None [] 0.

Fixpoint pattern (start : Z) (n : nat) : list Z :=
  match n with O => [] | S k => (start mod 256) :: pattern (start + 1) k end.

Definition content_of (m : list Z) (s : option slice) : list Z :=
  match s with None => [] | Some r => zsub (soff r) (soff r + slen r) m end.

Definition write_live (s : bst) (w : list Z) : bst * Z :=
  match live s with
  | None => (s, 0)
  | Some r =>
      let w' := ztake (slen r) w in
      (mkbst (cur s) (zwrite (soff r) w' (mem s)) (live s) (glog s) (gcons s), zlen w')
  end.

Definition bstep (s : bst) (o : bop) : outcome (bst * bret) :=
  match o with
  | BClaim n =>
      obind (BipBuffer_Claim (cur s) n) (fun '(c, r) =>
        Ok (mkbst c (mem s) r (glog s) (gcons s), RSlice r (content_of (mem s) r)))
  | BFill start =>
      match live s with
      | None => Ok (s, RWrote 0)
      | Some r => let '(s', n) := write_live s (pattern start (Z.to_nat (slen r))) in Ok (s', RWrote n)
      end
  | BWrite w => let '(s', n) := write_live s w in Ok (s', RWrote n)
  | BCommit n =>
      obind (BipBuffer_Commit (cur s) n) (fun '(c, r) =>
        let bytes := content_of (mem s) r in
        Ok (mkbst c (mem s) None (glog s ++ bytes) (gcons s), RSlice r bytes))
  | BConsume n =>
      let before := BipBuffer_Committed (cur s) in
      obind (BipBuffer_Consume (cur s) n) (fun '(c, _) =>
        Ok (mkbst c (mem s) (live s) (glog s) (gcons s + (before - BipBuffer_Committed c)), RUnit))
  | BHead =>
      obind (BipBuffer_Head (cur s)) (fun '(c, r) =>
        Ok (mkbst c (mem s) (live s) (glog s) (gcons s), RSlice r (content_of (mem s) r)))
  | BReset =>
      obind (BipBuffer_Reset (cur s)) (fun '(c, _) =>
        Ok (mkbst c (mem s) None [] 0, RUnit))
  end.

(* the queue of committed, unconsumed bytes *)
Definition babs (s : bst) : list Z :=
  zsub (BipBuffer_head (cur s)) (BipBuffer_tail (cur s)) (mem s)
  ++ zsub (BipBuffer_wrappedHead (cur s)) (BipBuffer_wrappedTail (cur s)) (mem s).

Fixpoint brun (s : bst) (ops : list bop) : outcome bst :=
  match ops with
  | [] => Ok s
  | o :: rest => obind (bstep s o) (fun '(s', _) => brun s' rest)
  end.

(* observables after every operation, used by the correspondence check *)
Record bobs : Type := mkbobs { o_ret : bret; o_committed : Z; o_claimed : Z; o_empty : bool }.

Definition bobserve (s : bst) (r : bret) : bobs :=
  mkbobs r (BipBuffer_Committed (cur s)) (BipBuffer_Claimed (cur s)) (BipBuffer_Empty (cur s)).

Fixpoint btrace (s : bst) (ops : list bop) : list (option bobs) :=
  match ops with
  | [] => []
  | o :: rest =>
      match bstep s o with
      | Ok (s', r) => Some (bobserve s' r) :: btrace s' rest
      | Panic => [None]
      end
  end.

Definition nonneg_op (o : bop) : Prop :=
  match o with
  | BClaim n | BCommit n | BConsume n => 0 <= n
  | _ => True
  end.
