(* C12: hand-written model of the datagram paths and of the multicast peer's bookkeeping:
     - /repo/socket.go RecvFrom / SendTo result mapping and /repo/multicast/peer.go AsyncRead / asyncReadNow /
       scheduleRead / SetAsyncReadBuffer / AsyncWrite, over a kernel receive queue of whole datagrams;
     - the peer's cached settings (loop, ttl, all) against the socket options, with setters that may fail, including the
       constructor's reads (/repo/net/ipv4/multicast.go GetMulticastLoop, modelled as the code computes it);
     - the kernel's per-socket multicast membership (any-source joins, source-specific joins, blocked sources) with
       IP_MULTICAST_ALL off: an ENVIRONMENT model, validated by the correspondence run on real sockets. *)
From Sonic Require Import Base.Prelude.
Local Open Scope Z_scope.

(* ---- settings *)
Record kopts : Type := mkk { k_loop : bool; k_ttl : Z; k_all : bool }.
Record pcache : Type := mkpc { pc_loop : bool; pc_ttl : Z; pc_all : bool }.
Definition k_default : kopts := mkk true 1 true.            (* Linux defaults: IP_MULTICAST_LOOP 1, TTL 1, ALL 1 *)

(* GetMulticastLoop as written: "v == 0 -> true" *)
Definition get_loop_as_coded (k : kopts) : bool := negb (k_loop k).

(* NewUDPPeer: ttl is the literal 1, loop is read back, IP_MULTICAST_ALL is switched off *)
Definition peer_new (k : kopts) : kopts * pcache :=
  (mkk (k_loop k) (k_ttl k) false, mkpc (get_loop_as_coded k) 1 false).

Inductive sop : Type := SSetLoop (v ok : bool) | SSetTTL (v : Z) (ok : bool) | SSetAll (v ok : bool).

Definition sstep (st : kopts * pcache) (o : sop) : kopts * pcache :=
  let '(k, c) := st in
  match o with
  | SSetLoop v ok => if ok then (mkk v (k_ttl k) (k_all k), mkpc v (pc_ttl c) (pc_all c)) else st
  | SSetTTL v ok => if ok then (mkk (k_loop k) v (k_all k), mkpc (pc_loop c) v (pc_all c)) else st
  | SSetAll v ok => if ok then (mkk (k_loop k) (k_ttl k) v, mkpc (pc_loop c) (pc_ttl c) v) else st
  end.

(* ---- datagrams *)
Record dgram : Type := mkdg { d_src : Z; d_data : list Z }.

Inductive dev : Type :=
| DRead (cb err n src : Z) (data : list Z)        (* read callback: error class, count, sender, bytes placed in the buffer *)
| DSent (dst : Z) (data : list Z).                (* a datagram handed to the kernel *)

Record dstate : Type := mkds {
  q : list dgram;                      (* kernel receive queue *)
  rbuf : Z;                            (* length of the buffer designated for the pending read (read reactor's b) *)
  rpend : option Z;                    (* callback of the read deferred to the poller *)
  dlog : list dev;                     (* newest first *)
  arrived : list dgram                 (* ghost: every datagram delivered to the socket, in order *)
}.
Definition ds_init : dstate := mkds [] 0 None [] [].

Inductive dop : Type :=
| DArrive (d : dgram)
| DAsyncRead (buflen cb : Z)
| DSetBuf (buflen : Z)
| DPoll
| DWrite (dst : Z) (data : list Z).

(* recvfrom with a buffer of [buflen] bytes: a whole datagram is consumed; what does not fit is discarded; a datagram of
   length 0 reads as end of stream (socket.go maps n == 0 to io.EOF) *)
Definition complete_read (s : dstate) (buflen cb : Z) (d : dgram) (rest : list dgram) : dstate :=
  let n := Z.min buflen (zlen (d_data d)) in
  let ev := if n =? 0 then DRead cb 1 0 0 [] else DRead cb 0 n (d_src d) (ztake n (d_data d)) in
  mkds rest (rbuf s) None (ev :: dlog s) (arrived s).

Definition dstep (s : dstate) (o : dop) : dstate :=
  match o with
  | DArrive d => mkds (q s ++ [d]) (rbuf s) (rpend s) (dlog s) (arrived s ++ [d])
  | DAsyncRead buflen cb =>
      match q s with
      | d :: rest => complete_read (mkds (q s) buflen (rpend s) (dlog s) (arrived s)) buflen cb d rest
      | [] => mkds (q s) buflen (Some cb) (dlog s) (arrived s)            (* would block: deferred *)
      end
  | DSetBuf buflen => mkds (q s) buflen (rpend s) (dlog s) (arrived s)
  | DPoll =>
      match rpend s, q s with
      | Some cb, d :: rest => complete_read s (rbuf s) cb d rest          (* the buffer most recently designated *)
      | _, _ => s
      end
  | DWrite dst data => mkds (q s) (rbuf s) (rpend s) (DSent dst data :: dlog s) (arrived s)
  end.

Fixpoint drun (s : dstate) (ops : list dop) : dstate :=
  match ops with [] => s | o :: r => drun (dstep s o) r end.

(* ---- membership (environment) *)
Record member : Type := mkm { m_group : Z; m_any : bool; m_srcs : list Z; m_alloc : bool }.
   (* m_alloc: the kernel has allocated a source list for this membership (a source was added at some point) *)
   (* any-source join with m_srcs = blocked sources, or source-specific join with m_srcs = allowed sources *)

Inductive gop : Type :=
| GJoin (g : Z) | GLeave (g : Z)
| GJoinSource (g s : Z) | GLeaveSource (g s : Z)
| GBlock (g s : Z) | GUnblock (g s : Z).

Fixpoint mfind (g : Z) (l : list member) : option member :=
  match l with [] => None | m :: r => if m_group m =? g then Some m else mfind g r end.
Fixpoint mremove (g : Z) (l : list member) : list member :=
  match l with [] => [] | m :: r => if m_group m =? g then r else m :: mremove g r end.
Definition zmem (x : Z) (l : list Z) : bool := existsb (Z.eqb x) l.
Definition zdel (x : Z) (l : list Z) : list Z := filter (fun y => negb (y =? x)) l.

(* The source calls of Linux (net/ipv4/igmp.c ip_mc_source): JoinSource/LeaveSource work on INCLUDE-mode memberships,
   BlockSource/UnblockSource on EXCLUDE-mode (any-source) ones.  A membership for which no source list was ever allocated is
   switched to the mode of the call first - also when the call then fails; removing the last source of an INCLUDE membership leaves the
   group.  [any] is the mode of the call, [add] whether it adds or removes the source. *)
Definition src_op (l : list member) (g : Z) (any add : bool) (s : Z) : list member * Z :=
  match mfind g l with
  | None => if negb any && add then (mkm g false [s] true :: l, 0) else (l, 1)
  | Some m =>
      if m_alloc m && negb (Bool.eqb (m_any m) any) then (l, 1)       (* a filter was set: the mode cannot change *)
      else
        let srcs := m_srcs m in
        if add then
          if zmem s srcs then (mkm g any srcs (m_alloc m) :: mremove g l, 1)
          else (mkm g any (s :: srcs) true :: mremove g l, 0)
        else if zmem s srcs then
          match zdel s srcs, any with
          | [], false => (mremove g l, 0)
          | r, _ => (mkm g any r (m_alloc m) :: mremove g l, 0)
          end
        else (mkm g any srcs (m_alloc m) :: mremove g l, 1)
  end.

(* result: new memberships and whether the call succeeds (0) or fails (1) *)
Definition gstep (l : list member) (o : gop) : list member * Z :=
  match o with
  | GJoin g => match mfind g l with Some _ => (l, 1) | None => (mkm g true [] false :: l, 0) end
  | GLeave g => match mfind g l with Some _ => (mremove g l, 0) | None => (l, 1) end
  | GJoinSource g s => src_op l g false true s
  | GLeaveSource g s => src_op l g false false s
  | GBlock g s => src_op l g true true s
  | GUnblock g s => src_op l g true false s
  end.

(* with IP_MULTICAST_ALL off: delivered iff this socket is a member of the group and the source passes its filter *)
Definition delivers (l : list member) (g src : Z) : bool :=
  match mfind g l with
  | None => false
  | Some m => if m_any m then negb (zmem src (m_srcs m)) else zmem src (m_srcs m)
  end.
