(* C13 (descriptor part): the descriptor table, objects that own one descriptor with a close-once guard, and the
   constructors of /repo as straight-line programs over { allocate, operation that may fail, close } with the clean-up
   each error path performs.  The kernel allocates the lowest free number, which is what makes a second close of a
   stale number hit a descriptor somebody else owns. *)
From Sonic Require Import Base.Prelude.
Local Open Scope Z_scope.

(* ---- descriptor table: the set of open numbers *)
Fixpoint lowest_free (fuel : nat) (t : list Z) (k : Z) : Z :=
  match fuel with O => k | S f => if existsb (Z.eqb k) t then lowest_free f t (k + 1) else k end.
Definition fd_alloc (t : list Z) : Z * list Z := let k := lowest_free (S (length t)) t 0 in (k, k :: t).
Definition fd_close (fd : Z) (t : list Z) : list Z := filter (fun x => negb (x =? fd)) t.

(* ---- objects: owner of one descriptor, Close guarded by a flag (compare-and-swap in the code) *)
Record fobj : Type := mkfobj { f_fd : Z; f_closed : bool }.
Record fstate : Type := mkfs { fs_table : list Z; fs_objs : list (Z * fobj); fs_guarded : bool }.

Inductive fop : Type := FNew (id : Z) | FClose (id : Z).

Fixpoint flookup (k : Z) (l : list (Z * fobj)) : option fobj :=
  match l with [] => None | (k', v) :: r => if k =? k' then Some v else flookup k r end.
Fixpoint fupdate (k : Z) (v : fobj) (l : list (Z * fobj)) : list (Z * fobj) :=
  match l with [] => [(k, v)] | (k', v') :: r => if k =? k' then (k, v) :: r else (k', v') :: fupdate k v r end.

Definition fstep (s : fstate) (o : fop) : fstate :=
  match o with
  | FNew id =>
      let '(fd, t) := fd_alloc (fs_table s) in mkfs t (fupdate id (mkfobj fd false) (fs_objs s)) (fs_guarded s)
  | FClose id =>
      match flookup id (fs_objs s) with
      | None => s
      | Some ob =>
          if f_closed ob && fs_guarded s then s            (* second Close: io.EOF, nothing is touched *)
          else mkfs (fd_close (f_fd ob) (fs_table s)) (fupdate id (mkfobj (f_fd ob) true) (fs_objs s)) (fs_guarded s)
      end
  end.

Fixpoint frun (s : fstate) (ops : list fop) : fstate :=
  match ops with [] => s | o :: r => frun (fstep s o) r end.

(* ---- constructors: per error path, how many descriptors were allocated before the failure and how many of them the
   path closes (transcribed from /repo; the correspondence run counts /proc/self/fd around each injected failure) *)
Inductive ctor : Type :=
| CDialTCP | CDialUDP | CListen | CListenPacket | CNewPacketConn | CNewUDPPeer | COpen | CNewTimer | CNewIO | CWsHandshake.

(* (description of the failure point, allocated before it, closed by the error path) *)
Definition ctor_paths (c : ctor) : list (Z * Z) :=
  match c with
  | CDialTCP => [(0, 0) (* socket() fails *); (1, 1) (* options / bind-before-connect / connect fail *); (1, 1) (* getsockname fails *)]
  | CDialUDP => [(0, 0); (1, 1); (1, 1)]
  | CListen => [(0, 0); (1, 1) (* options *); (1, 1) (* bind *); (1, 1) (* listen *)]
  | CListenPacket => [(0, 0); (1, 1) (* bind *)]
  | CNewPacketConn => [(0, 0); (1, 1)]
  | CNewUDPPeer => [(0, 0); (1, 1) (* nonblocking *); (1, 1) (* reuse port *); (1, 1) (* reuse addr *); (1, 1) (* bind *);
                    (1, 1) (* getsockname *); (1, 1) (* multicast interface *); (1, 1) (* multicast loop *); (1, 1) (* multicast all *)]
  | COpen => [(0, 0)]
  | CNewTimer => [(0, 0)]
  | CNewIO => [(0, 0) (* epoll_create *); (1, 1) (* eventfd *); (2, 2) (* registering the waker *)]
  | CWsHandshake => [(0, 0) (* dial fails *); (1, 1) (* request write fails *); (1, 1) (* response read fails / EOF *);
                     (1, 1) (* malformed response *); (1, 1) (* refused *)]
  end.

Definition all_ctors : list ctor :=
  [CDialTCP; CDialUDP; CListen; CListenPacket; CNewPacketConn; CNewUDPPeer; COpen; CNewTimer; CNewIO; CWsHandshake].

(* run error path k of a constructor against a table: allocate, then close what the path closes (most recent first) *)
Fixpoint alloc_n (n : nat) (t : list Z) (got : list Z) : list Z * list Z :=
  match n with O => (t, got) | S m => let '(fd, t1) := fd_alloc t in alloc_n m t1 (fd :: got) end.
Definition run_path (t : list Z) (p : Z * Z) : list Z :=
  let '(t1, got) := alloc_n (Z.to_nat (fst p)) t [] in
  fold_left (fun acc fd => fd_close fd acc) (firstn (Z.to_nat (snd p)) got) t1.
