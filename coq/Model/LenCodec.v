(* C19: /repo/codec/frame/frame.go (Encode, Decode, resetDecode) over the three-FIFO view of the ByteBuffer, and
   /repo/codec.go (CodecConn.ReadNext/AsyncReadNext/WriteNext/AsyncWriteNext) over the scripted transport. *)
From Sonic Require Import Base.Prelude Gen.Consts Model.ByteBuffer Spec.ThreeFifo Spec.LenParser Model.WsCodec Model.Transport.
Local Open Scope Z_scope.

Record lcodec : Type := mklcodec { l_src : tf; l_reset : bool; l_bytes : Z (* decodeBytes *) }.

Definition lcodec_init : lcodec := mklcodec (mktf [] [] [] 512) false 0.

Inductive ldres : Type := LDItem (p : list Z) | LDNeedMore | LDOverflow | LDPanic.

Definition l_with (c : lcodec) (s : tf) : lcodec := mklcodec s (l_reset c) (l_bytes c).

Definition l_reset_decode (c : lcodec) : lcodec :=
  if l_reset c then mklcodec (tconsume (l_src c) (l_bytes c)) false 0 else c.

Definition ldecode (c0 : lcodec) : lcodec * ldres :=
  let c := l_reset_decode c0 in
  let s := l_src c in
  let '(s, ok) := tprep s frame_HeaderLen in
  if negb ok then (l_with c s, LDNeedMore) else
  match tdata s frame_HeaderLen with None => (l_with c s, LDPanic) | Some h =>
  let n := be32 h in
  if n >? frame_MaxPayloadLength then (l_with c s, LDOverflow) else
  let '(s, ok) := tprep s (frame_HeaderLen + n) in
  if negb ok then (l_with c (treserve s (frame_HeaderLen + n)), LDNeedMore) else
  let s := tconsume s frame_HeaderLen in
  match tdata s n with None => (l_with c s, LDPanic) | Some p =>
  (mklcodec s true n, LDItem p)
  end end.

Definition l_unread (c : lcodec) : list Z :=
  zdrop (if l_reset c then l_bytes c else 0) (t_read (l_src c) ++ t_pend (l_src c)).

Definition l_feed (c : lcodec) (w : list Z) : lcodec :=
  l_with c (mktf (t_saved (l_src c)) (t_read (l_src c)) (t_pend (l_src c) ++ w) (t_room (l_src c))).

(* ---- the connection: codec + destination buffer + transport *)
Record lconn : Type := mklconn {
  lc_codec : lcodec;
  lc_dst : tf;
  lc_tr : tr;
  lc_rpend : bool;          (* an AsyncReadNext is parked on the transport *)
  lc_wpend : option (list Z) (* an AsyncWriteAll is parked: the bytes it was given *)
}.

Definition lconn_init : lconn := mklconn lcodec_init (mktf [] [] [] 512) tr_init false None.

Inductive lcret : Type :=
| CItem (p : list Z) | CErr (e : Z)    (* 1 EOF, 3 transport error, 4 would block, 5 overflow *)
| CPending | CWrote (n : Z) (e : Z) | CNone.

(* ReadNext / the continuation of AsyncReadNext: decode, read more while the decoder needs more *)
Fixpoint read_loop (fuel : nat) (c : lcodec) (t : tr) (async : bool) : lcodec * tr * lcret :=
  match fuel with
  | O => (c, t, CErr 4)
  | S f =>
      let '(c1, r) := ldecode c in
      match r with
      | LDItem p => (c1, t, CItem p)
      | LDOverflow => (c1, t, CErr 5)
      | LDPanic => (c1, t, CErr 9)
      | LDNeedMore =>
          let '(t1, rr) := tr_read t in
          match rr with
          | RGot w => read_loop f (l_feed c1 w) t1 async
          | REof => (c1, t1, CErr 1)
          | RErr => (c1, t1, CErr 3)
          | RWouldBlock => (c1, t1, if async then CPending else CErr 4)
          end
      end
  end.

Definition fuel_of (t : tr) : nat := S (S (length (tr_in t))).

(* Codec.Encode: Reserve; Claim(header + payload) - the bytes stay in the write area; CodecConn then commits them *)
Definition lencode_into (dst : tf) (payload : list Z) : tf * bool :=
  if zlen payload >? frame_MaxPayloadLength then (dst, false)
  else (mktf (t_saved dst) (t_read dst) (t_pend dst ++ lencode payload) (t_room dst), true).

Definition commit_all (dst : tf) : tf := mktf (t_saved dst) (t_read dst ++ t_pend dst) [] (t_room dst).

Inductive lcop : Type :=
| LIn (e : inev) | LReadNext | LAsyncReadNext | LWriteNext (p : list Z) | LAsyncWriteNext (p : list Z)
| LWFail (n : Z) | LWBlock | LWUnblock.

Definition write_sync (s : lconn) (payload : list Z) : lconn * lcret :=
  let '(dst, ok) := lencode_into (lc_dst s) payload in
  if negb ok then (s, CWrote 0 5) else
  let dst := commit_all dst in
  let '(t, n, failed) := tr_write_all (lc_tr s) (t_read dst) in
  (mklconn (lc_codec s) (tconsume dst n) t (lc_rpend s) (lc_wpend s), CWrote n (if failed then 3 else 0)).

Definition finish_async_write (s : lconn) (dst : tf) (p : list Z) : lconn * lcret :=
  let '(t, n, failed) := tr_write_all (lc_tr s) p in
  (mklconn (lc_codec s) (if failed then dst else tconsume dst n) t (lc_rpend s) None, CWrote n (if failed then 3 else 0)).

Definition lcstep (s : lconn) (o : lcop) : lconn * lcret :=
  match o with
  | LIn e =>
      let t := tr_push (lc_tr s) e in
      if lc_rpend s then
        let '(c, t', r) := read_loop (fuel_of t) (lc_codec s) t true in
        (mklconn c (lc_dst s) t' (match r with CPending => true | _ => false end) (lc_wpend s), r)
      else (mklconn (lc_codec s) (lc_dst s) t false (lc_wpend s), CNone)
  | LReadNext =>
      let '(c, t, r) := read_loop (fuel_of (lc_tr s)) (lc_codec s) (lc_tr s) false in
      (mklconn c (lc_dst s) t (lc_rpend s) (lc_wpend s), r)
  | LAsyncReadNext =>
      let '(c, t, r) := read_loop (fuel_of (lc_tr s)) (lc_codec s) (lc_tr s) true in
      (mklconn c (lc_dst s) t (match r with CPending => true | _ => false end) (lc_wpend s), r)
  | LWriteNext p => write_sync s p
  | LAsyncWriteNext p =>
      let '(dst, ok) := lencode_into (lc_dst s) p in
      if negb ok then (s, CWrote 0 5) else
      let dst := commit_all dst in
      if tr_wblock (lc_tr s) then
        (mklconn (lc_codec s) dst (lc_tr s) (lc_rpend s) (Some (t_read dst)), CPending)
      else finish_async_write (mklconn (lc_codec s) dst (lc_tr s) (lc_rpend s) None) dst (t_read dst)
  | LWFail n => (mklconn (lc_codec s) (lc_dst s) (tr_set_wfail (lc_tr s) n) (lc_rpend s) (lc_wpend s), CNone)
  | LWBlock => (mklconn (lc_codec s) (lc_dst s) (tr_set_wblock (lc_tr s) true) (lc_rpend s) (lc_wpend s), CNone)
  | LWUnblock =>
      let s1 := mklconn (lc_codec s) (lc_dst s) (tr_set_wblock (lc_tr s) false) (lc_rpend s) (lc_wpend s) in
      match lc_wpend s with
      | Some p => finish_async_write s1 (lc_dst s) p
      | None => (s1, CNone)
      end
  end.
