(* C06 C08 C15 C16: hand-written model of /repo/codec/websocket/stream.go in the client role, after a successful
   handshake, over the frame codec model (Model/WsCodec.v), the three-FIFO view of the write buffer and the scripted
   transport (Model/Transport.v).  Masking keys are an environment input (w_keys).  The blocking and the asynchronous
   read paths are modelled separately where the code differs (flush error handling, state on end-of-stream). *)
From Sonic Require Import Base.Prelude Gen.Consts Gen.Preds Model.ByteBuffer Spec.ThreeFifo Model.WsFrame Model.WsCodec
  Model.Transport Model.Utf8.
Local Open Scope Z_scope.

(* error classes shared with the harness *)
Definition eNone := 0.  Definition eEOF := 1.  Definition eTransport := 3.  Definition eWouldBlock := 4.
Definition eMessageTooBig := 10.  Definition ePayloadOverMax := 11.  Definition eReservedBits := 12.
Definition eMaskedFromServer := 13.  Definition eInvalidControl := 14.  Definition eControlTooBig := 15.
Definition eReservedOpcode := 16.  Definition eUnexpectedContinuation := 17.  Definition eExpectedContinuation := 18.
Definition eCancelled := 20.

(* a parked asynchronous read: what to do with the next frame *)
Inductive rcont : Type :=
| KFrame
| KMsg (buflen : Z) (acc : list Z) (cont : bool) (mtype : Z).

Record ws : Type := mkws {
  w_state : Z;
  w_codec : codec;
  w_dst : tf;
  w_tr : tr;
  w_pending : list (list Z);     (* pendingFrames, as the bytes each will put on the wire *)
  w_max : Z;
  w_keys : list (list Z);
  w_rpend : option rcont;
  w_log : list (bool * Z * list Z * list Z)   (* ghost: (fin, opcode, payload, key) of every frame queued, in order *)
}.

Definition ws_init (max : Z) (keys : list (list Z)) : ws :=
  mkws ws_StateActive (codec_init max) (mktf [] [] [] 4096) tr_init [] max keys None [].

Inductive wev : Type :=
| EFrame (f : list Z) (err : Z)
| EMsg (mt : Z) (n : Z) (payload : list Z) (err : Z)
| ECtl (mt : Z) (payload : list Z)
| EWrite (err : Z)
| EPending.

Definition set_state (s : ws) (st : Z) : ws :=
  mkws st (w_codec s) (w_dst s) (w_tr s) (w_pending s) (w_max s) (w_keys s) (w_rpend s) (w_log s).
Definition set_pending (s : ws) (p : list (list Z)) : ws :=
  mkws (w_state s) (w_codec s) (w_dst s) (w_tr s) p (w_max s) (w_keys s) (w_rpend s) (w_log s).
Definition set_io (s : ws) (c : codec) (t : tr) : ws :=
  mkws (w_state s) c (w_dst s) t (w_pending s) (w_max s) (w_keys s) (w_rpend s) (w_log s).
Definition set_out (s : ws) (d : tf) (t : tr) : ws :=
  mkws (w_state s) (w_codec s) d t (w_pending s) (w_max s) (w_keys s) (w_rpend s) (w_log s).
Definition set_rpend (s : ws) (k : option rcont) : ws :=
  mkws (w_state s) (w_codec s) (w_dst s) (w_tr s) (w_pending s) (w_max s) (w_keys s) k (w_log s).

Definition can_read (s : ws) : bool := (w_state s =? ws_StateActive) || (w_state s =? ws_StateClosedByUs).

(* ---- building and queueing frames (AcquireFrame ... SetPayload; prepareWrite = MaskPayload + append) *)
Definition take_key (s : ws) : list Z * ws :=
  match w_keys s with
  | k :: r => (k, mkws (w_state s) (w_codec s) (w_dst s) (w_tr s) (w_pending s) (w_max s) r (w_rpend s) (w_log s))
  | [] => ([0; 0; 0; 0], s)
  end.

Definition queue_frame (s : ws) (fin : bool) (op : Z) (payload : list Z) : ws :=
  let '(key, s1) := take_key s in
  mkws (w_state s1) (w_codec s1) (w_dst s1) (w_tr s1) (w_pending s1 ++ [build_frame fin 0 op true key payload]) (w_max s1)
    (w_keys s1) (w_rpend s1) (w_log s1 ++ [(fin, op, payload, key)]).

Definition close_payload (code : Z) (reason : list Z) : list Z := be_bytes 2 code ++ reason.
Definition prepare_close (s : ws) (payload : list Z) : ws := queue_frame s true ws_OpcodeClose payload.

(* Frame.WriteTo: header + declared payload, nothing beyond *)
Definition wire_bytes (f : list Z) : list Z :=
  let n := payload_offset f + payload_length f in
  if (0 <=? n) && (n <? zlen f) then ztake n f else f.

(* FrameCodec.Encode + CodecConn.WriteNext for one frame: (new dst, new transport, failed) *)
Definition write_frame_out (d : tf) (t : tr) (f : list Z) : tf * tr * bool :=
  let d1 := mktf (t_saved d) (t_read d ++ t_pend d ++ wire_bytes f) [] (t_room d) in
  let '(t1, n, failed) := tr_write_all t (t_read d1) in
  (tconsume d1 n, t1, failed).

(* Flush: stop at the first error; the failing frame stays queued *)
Fixpoint flush_loop (d : tf) (t : tr) (fs : list (list Z)) : tf * tr * list (list Z) * Z :=
  match fs with
  | [] => (d, t, [], eNone)
  | f :: rest =>
      let '(d1, t1, failed) := write_frame_out d t f in
      if failed then (d1, t1, f :: rest, eTransport) else flush_loop d1 t1 rest
  end.

Definition flush_sync (s : ws) : ws * Z :=
  let '(d, t, rest, err) := flush_loop (w_dst s) (w_tr s) (w_pending s) in
  (set_pending (set_out s d t) rest, err).

(* AsyncFlush (completing inline): the frame being written is already popped; on error it is dropped and, as the
   write failed, nothing is consumed from the write buffer *)
Fixpoint aflush_loop (d : tf) (t : tr) (fs : list (list Z)) : tf * tr * list (list Z) * Z :=
  match fs with
  | [] => (d, t, [], eNone)
  | f :: rest =>
      let d1 := mktf (t_saved d) (t_read d ++ t_pend d ++ wire_bytes f) [] (t_room d) in
      let '(t1, n, failed) := tr_write_all t (t_read d1) in
      if failed then (d1, t1, rest, eTransport) else aflush_loop (tconsume d1 n) t1 rest
  end.

Definition flush_async (s : ws) : ws * Z :=
  let '(d, t, rest, err) := aflush_loop (w_dst s) (w_tr s) (w_pending s) in
  (set_pending (set_out s d t) rest, err).

Definition flush_gen (async : bool) (s : ws) : ws * Z := if async then flush_async s else flush_sync s.

(* ---- incoming frames *)
Definition verify_frame (f : list Z) : Z :=
  if is_rsv1 f || is_rsv2 f || is_rsv3 f then eReservedBits
  else if is_masked f then eMaskedFromServer else eNone.

Definition handle_control (s : ws) (f : list Z) : ws * Z :=
  if negb (is_fin f) then (s, eInvalidControl)
  else if payload_length f >? ws_MaxControlFramePayloadLength then (s, eControlTooBig)
  else
    let op := opcode_of f in
    if op =? ws_OpcodePing then
      ((if w_state s =? ws_StateActive then queue_frame s true ws_OpcodePong (payload_of f) else s), eNone)
    else if op =? ws_OpcodePong then (s, eNone)
    else if op =? ws_OpcodeClose then
      if w_state s =? ws_StateActive then
        let s1 := set_state s ws_StateClosedByPeer in
        let p := payload_of f in
        if zlen p >=? 2 then
          if negb (utf8_valid (zdrop 2 p)) then (prepare_close s1 (be_bytes 2 ws_CloseProtocolError), eNone)
          else if negb (ValidCloseCode (be_value (ztake 2 p))) then (prepare_close s1 (be_bytes 2 ws_CloseProtocolError), eNone)
          else (prepare_close s1 p, eNone)
        else if zlen p >? 0 then (prepare_close s1 (be_bytes 2 ws_CloseProtocolError), eNone)
        else (prepare_close s1 (be_bytes 2 ws_CloseNormal), eNone)
      else if w_state s =? ws_StateClosedByUs then (set_state s ws_StateCloseAcked, eNone)
      else (s, eNone)
    else (s, eInvalidControl).

Definition handle_data (f : list Z) : Z := if Opcode_IsReserved (opcode_of f) then eReservedOpcode else eNone.

Definition handle_frame (s : ws) (f : list Z) : ws * Z :=
  let e0 := verify_frame f in
  let '(s1, e) :=
    if negb (e0 =? eNone) then (s, e0)
    else if Opcode_IsControl (opcode_of f) then handle_control s f else (s, handle_data f) in
  if negb (e =? eNone) then
    (* a framing violation: start (at most once) the closing handshake with 1002 *)
    (if w_state s1 =? ws_StateActive
     then prepare_close (set_state s1 ws_StateClosedByUs) (close_payload ws_CloseProtocolError [])
     else s1, e)
  else (s1, e).

(* the frame handed to the caller after an unexpected end of the transport *)
Definition abnormal_frame : list Z := build_frame true 0 ws_OpcodeClose false [] (be_bytes 2 ws_CloseAbnormal).

(* CodecConn.ReadNext / AsyncReadNext with the frame codec *)
Inductive rdres : Type := RdFrame (f : list Z) | RdErr (e : Z) | RdPending.

Fixpoint ws_read_loop (fuel : nat) (c : codec) (t : tr) (async : bool) : codec * tr * rdres :=
  match fuel with
  | O => (c, t, RdErr eWouldBlock)
  | S f =>
      let '(c1, r) := decode c in
      match r with
      | DFrame fr => (c1, t, RdFrame fr)
      | DTooBig => (c1, t, RdErr ePayloadOverMax)
      | DPanic => (c1, t, RdErr 99)
      | DNeedMore =>
          let '(t1, rr) := tr_read t in
          match rr with
          | RGot w => ws_read_loop f (feed c1 w) t1 async
          | REof => (c1, t1, RdErr eEOF)
          | RErr => (c1, t1, RdErr eTransport)
          | RWouldBlock => (c1, t1, if async then RdPending else RdErr eWouldBlock)
          end
      end
  end.

Definition rfuel (t : tr) : nat := S (S (length (tr_in t))).

Inductive fres : Type := FGot (f : list Z) (err : Z) | FPending.

(* what nextFrame / the AsyncReadNext callback do with the result of the read *)
Definition after_read (s : ws) (r : rdres) : ws * fres :=
  match r with
  | RdFrame f => let '(s1, e) := handle_frame s f in (s1, FGot f e)
  | RdErr e =>
      if (e =? eEOF) && negb (w_state s =? ws_StateTerminated)
      then (set_state s ws_StateTerminated, FGot abnormal_frame eEOF)
      else (s, FGot [] e)
  | RdPending => (s, FPending)
  end.

Definition read_and_handle (async : bool) (s : ws) : ws * fres :=
  let '(c, t, r) := ws_read_loop (rfuel (w_tr s)) (w_codec s) (w_tr s) async in
  after_read (set_io s c t) r.

(* NextFrame (async = false) / AsyncNextFrame (async = true) *)
Definition next_frame_gen (async : bool) (s : ws) : ws * fres :=
  let '(s1, ferr) := flush_gen async s in
  if negb (ferr =? eNone) then ((if async then set_state s1 ws_StateTerminated else s1), FGot [] ferr)
  else if negb (can_read s1) then ((if async then set_state s1 ws_StateTerminated else s1), FGot [] eEOF)
  else
    let '(s2, r) := read_and_handle async s1 in
    match r with
    | FGot f e => ((if (negb async) && (e =? eEOF) then set_state s2 ws_StateTerminated else s2), FGot f e)
    | FPending => (s2, FPending)
    end.

(* Close / AsyncClose *)
Definition do_close (async : bool) (s : ws) (code : Z) (reason : list Z) : ws * Z :=
  if w_state s =? ws_StateActive then
    flush_gen async (prepare_close (set_state s ws_StateClosedByUs) (close_payload code reason))
  else if (w_state s =? ws_StateClosedByUs) || (w_state s =? ws_StateHandshake) then (s, eCancelled)
  else (s, eEOF).

(* ---- message reassembly: one frame of NextMessage / asyncNextMessage *)
Inductive mres : Type :=
| MDone (evs : list wev)
| MMore (acc : list Z) (cont : bool) (mtype : Z) (evs : list wev).

Definition copy_into (buflen : Z) (acc payload : list Z) : list Z := acc ++ ztake (buflen - zlen acc) payload.

Definition msg_frame (async : bool) (s : ws) (buflen : Z) (acc : list Z) (cont : bool) (mtype : Z) (f : list Z) (err : Z)
  : ws * mres :=
  if negb (err =? eNone) then (s, MDone [EMsg mtype (zlen acc) acc err])
  else if Opcode_IsControl (opcode_of f) then (s, MMore acc cont mtype [ECtl (opcode_of f) (payload_of f)])
  else
    let mtype := if mtype =? ws_TypeNone then opcode_of f else mtype in
    let acc' := copy_into buflen acc (payload_of f) in
    let n := zlen acc' - zlen acc in
    if (zlen acc' >? w_max s) || negb (n =? payload_length f) then
      let '(s1, _) := do_close async s ws_CloseGoingAway [112;97;121;108;111;97;100;32;116;111;111;32;98;105;103] in
      (s1, MDone [EMsg mtype (zlen acc') acc' eMessageTooBig])
    else
      let e := if negb cont then (if Opcode_IsContinuation (opcode_of f) then eUnexpectedContinuation else eNone)
               else (if negb (Opcode_IsContinuation (opcode_of f)) then eExpectedContinuation else eNone) in
      let cont' := negb (is_fin f) in
      if negb (e =? eNone) || negb cont' then (s, MDone [EMsg mtype (zlen acc') acc' e])
      else (s, MMore acc' cont' mtype []).

Fixpoint msg_loop (fuel : nat) (async : bool) (s : ws) (buflen : Z) (acc : list Z) (cont : bool) (mtype : Z)
  : ws * list wev :=
  match fuel with
  | O => (s, [EMsg mtype (zlen acc) acc 98])
  | S fu =>
      let '(s1, r) := next_frame_gen async s in
      match r with
      | FPending => (set_rpend s1 (Some (KMsg buflen acc cont mtype)), [EPending])
      | FGot f err =>
          let '(s2, m) := msg_frame async s1 buflen acc cont mtype f err in
          match m with
          | MDone evs => (s2, evs)
          | MMore acc' cont' mtype' evs =>
              let '(s3, evs') := msg_loop fu async s2 buflen acc' cont' mtype' in (s3, evs ++ evs')
          end
      end
  end.

Definition ev_bytes (e : inev) : nat := match e with InData l => S (length l) | _ => 1%nat end.

Definition mfuel (s : ws) : nat :=
  S (S (fold_left (fun acc e => (acc + ev_bytes e)%nat) (tr_in (w_tr s)) 0%nat
        + length (t_read (c_src (w_codec s))) + length (t_pend (c_src (w_codec s))))).

(* ---- the operations of a script *)
Inductive wsop : Type :=
| WIn (e : inev)
| WNextFrame | WAsyncNextFrame
| WNextMessage (buflen : Z) | WAsyncNextMessage (buflen : Z)
| WWrite (async : bool) (mt : Z) (payload : list Z)
| WWriteFrame (async : bool) (fin : bool) (op : Z) (payload : option (list Z))   (* None: no SetPayload *)
| WFlush (async : bool)
| WClose (async : bool) (code : Z) (reason : list Z)
| WSetMax (n : Z)
| WWFail (n : Z).

Definition frame_events (s : ws) (r : fres) : ws * list wev :=
  match r with
  | FGot f e => (s, [EFrame f e])
  | FPending => (set_rpend s (Some KFrame), [EPending])
  end.

Definition resume (s : ws) (k : rcont) : ws * list wev :=
  let s0 := set_rpend s None in
  let '(s1, r) := read_and_handle true s0 in
  match r with
  | FPending => (set_rpend s1 (Some k), [])
  | FGot f err =>
      match k with
      | KFrame => (s1, [EFrame f err])
      | KMsg buflen acc cont mtype =>
          let '(s2, m) := msg_frame true s1 buflen acc cont mtype f err in
          match m with
          | MDone evs => (s2, evs)
          | MMore acc' cont' mtype' evs =>
              let '(s3, evs') := msg_loop (mfuel s2) true s2 buflen acc' cont' mtype' in
              (s3, evs ++ filter (fun e => match e with EPending => false | _ => true end) evs')
          end
      end
  end.

Definition set_max (s : ws) (n : Z) : ws :=
  mkws (w_state s) (mkcodec (c_src (w_codec s)) (c_reset (w_codec s)) (c_flen (w_codec s)) n) (w_dst s) (w_tr s)
    (w_pending s) n (w_keys s) (w_rpend s) (w_log s).

Definition wsstep (s : ws) (o : wsop) : ws * list wev :=
  match o with
  | WIn e =>
      let s1 := set_io s (w_codec s) (tr_push (w_tr s) e) in
      match w_rpend s1 with
      | Some k => resume s1 k
      | None => (s1, [])
      end
  | WNextFrame => let '(s1, r) := next_frame_gen false s in frame_events s1 r
  | WAsyncNextFrame => let '(s1, r) := next_frame_gen true s in frame_events s1 r
  | WNextMessage buflen => msg_loop (mfuel s) false s buflen [] false ws_TypeNone
  | WAsyncNextMessage buflen => msg_loop (mfuel s) true s buflen [] false ws_TypeNone
  | WWrite async mt payload =>
      if zlen payload >? w_max s then (s, [EWrite eMessageTooBig])
      else if w_state s =? ws_StateActive then
        let '(s1, e) := flush_gen async (queue_frame s true (Z.land mt 15) payload) in (s1, [EWrite e])
      else (s, [EWrite eCancelled])
  | WWriteFrame async fin op payload =>
      if w_state s =? ws_StateActive then
        let '(s1, e) := flush_gen async (queue_frame s fin (Z.land op 15) (match payload with Some p => p | None => [] end)) in
        (s1, [EWrite e])
      else (s, [EWrite eCancelled])
  | WFlush async => let '(s1, e) := flush_gen async s in (s1, [EWrite e])
  | WClose async code reason => let '(s1, e) := do_close async s code reason in (s1, [EWrite e])
  | WSetMax n => (set_max s n, [])
  | WWFail n => (set_out s (w_dst s) (tr_set_wfail (w_tr s) n), [])
  end.
