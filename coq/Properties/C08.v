(* C08 -- ping/pong and the closing handshake follow the RFC 6455 state machine.
   Model/WsStream.v mirrors /repo/codec/websocket/stream.go (client role, after the handshake): handleFrame,
   handleControlFrame, Write*, Close/AsyncClose, Flush/AsyncFlush, NextFrame/AsyncNextFrame, NextMessage/asyncNextMessage,
   over the frame codec model and a scripted transport; w_log is a ghost log of every frame queued for the wire.
   Spec/WsSession.v is the independent RFC view that, extracted, judges the implementation's traces. *)
From Sonic Require Import Base.Prelude Gen.Consts Model.WsFrame Model.WsStream Model.Utf8 Gen.Preds Model.Transport
  Proofs.WsStreamProofs.
Local Open Scope Z_scope.

(* For EVERY sequence (any length) of peer events and local calls from any state satisfying the invariant (the fresh
   stream does): at most one Close frame is ever queued for the wire, nothing is queued after it, and none while the
   session is still Active. *)
Theorem C08_one_close_ever : forall ops s, Forall wf_op ops -> log_inv s -> log_inv (wsrun s ops).
Proof. exact one_close_ever. Qed.
Print Assumptions C08_one_close_ever.

(* On a healthy transport the wire is, in order and frame by frame, a prefix of what was queued; the rest is still
   queued in the same order (so a Pong is sent ahead of any application frame submitted later, and with
   C08_one_close_ever: no second Close and no data frame after the Close reaches the wire). *)
Theorem C08_wire_is_queue_order : forall ops s, Forall healthy_op ops -> wire_inv s -> wire_inv (wsrun s ops).
Proof. exact wire_is_log_prefix. Qed.
Print Assumptions C08_wire_is_queue_order.

Theorem C08_fresh_stream_satisfies_invariants : forall max keys, log_inv (ws_init max keys) /\ wire_inv (ws_init max keys).
Proof. intros. split; [apply init_inv|apply init_wire]. Qed.
Print Assumptions C08_fresh_stream_satisfies_invariants.

Theorem C08_ping_answered_by_one_pong_same_payload : forall s f,
  w_state s = ws_StateActive -> is_fin f = true -> payload_length f <= ws_MaxControlFramePayloadLength ->
  opcode_of f = ws_OpcodePing ->
  exists s', handle_control s f = (s', eNone) /\ w_state s' = ws_StateActive /\
             exists key, w_log s' = w_log s ++ [(true, ws_OpcodePong, payload_of f, key)].
Proof. exact ping_queues_pong. Qed.
Print Assumptions C08_ping_answered_by_one_pong_same_payload.

Theorem C08_pong_not_answered : forall s f,
  is_fin f = true -> payload_length f <= ws_MaxControlFramePayloadLength -> opcode_of f = ws_OpcodePong ->
  handle_control s f = (s, eNone).
Proof. exact pong_queues_nothing. Qed.
Print Assumptions C08_pong_not_answered.

Theorem C08_peer_close_answered_once : forall s f,
  w_state s = ws_StateActive -> is_fin f = true -> payload_length f <= ws_MaxControlFramePayloadLength ->
  opcode_of f = ws_OpcodeClose ->
  exists s', handle_control s f = (s', eNone) /\ w_state s' = ws_StateClosedByPeer /\
             exists key, w_log s' = w_log s ++ [(true, ws_OpcodeClose, close_reply_payload (payload_of f), key)].
Proof. exact peer_close_is_answered_once. Qed.
Print Assumptions C08_peer_close_answered_once.

Theorem C08_after_close_reads_report_eof : forall s,
  wire_inv s -> can_read s = false ->
  exists s', next_frame_gen false s = (s', FGot [] eEOF) /\ w_state s' = w_state s.
Proof. exact read_after_close_is_eof. Qed.
Print Assumptions C08_after_close_reads_report_eof.

Theorem C08_writes_refused_when_not_active : forall s async mt payload,
  w_state s <> ws_StateActive -> zlen payload <= w_max s ->
  wsstep s (WWrite async mt payload) = (s, [EWrite eCancelled]).
Proof. exact write_refused_when_not_active. Qed.
Print Assumptions C08_writes_refused_when_not_active.

Theorem C08_local_close : forall s async code reason s' e,
  w_state s = ws_StateActive -> do_close async s code reason = (s', e) ->
  w_state s' = ws_StateClosedByUs /\ exists key, w_log s' = w_log s ++ [(true, ws_OpcodeClose, close_payload code reason, key)].
Proof. exact local_close. Qed.
Print Assumptions C08_local_close.

Theorem C08_close_acknowledged : forall s f,
  w_state s = ws_StateClosedByUs -> is_fin f = true -> payload_length f <= ws_MaxControlFramePayloadLength ->
  opcode_of f = ws_OpcodeClose -> handle_control s f = (set_state s ws_StateCloseAcked, eNone).
Proof. exact close_ack. Qed.
Print Assumptions C08_close_acknowledged.

Theorem C08_abnormal_closure_1006 : forall s,
  w_state s <> ws_StateTerminated ->
  after_read s (RdErr eEOF) = (set_state s ws_StateTerminated, FGot abnormal_frame eEOF) /\
  payload_of abnormal_frame = be_bytes 2 ws_CloseAbnormal /\ opcode_of abnormal_frame = ws_OpcodeClose.
Proof. exact abnormal_closure. Qed.
Print Assumptions C08_abnormal_closure_1006.

(* Non-vacuity: ping, application write, peer close, reads, a violation after our own close. *)
Example C08_demo :
  let s0 := ws_init 1024 [[1;2;3;4]; [5;6;7;8]; [9;10;11;12]] in
  let ops := [WIn (InData [137; 1; 7]); WNextFrame; WWrite false 2 [65]; WIn (InData [136; 2; 3; 232]); WNextFrame; WNextFrame;
              WWrite false 1 [66]] in
  Forall wf_op ops /\ Forall healthy_op ops /\
  let s := wsrun s0 ops in
  w_state s = ws_StateClosedByPeer /\ map (fun e => e_op e) (w_log s) = [10; 2; 8] /\ w_pending s = [].
Proof. vm_compute. repeat split; repeat constructor; discriminate. Qed.
