From Sonic Require Import Base.Prelude Model.WsStream.
Theorem C08_placeholder : True. Proof. exact I. Qed.
Print Assumptions C08_placeholder.
