(* C02 -- byte-stream fidelity and the ReadAll/WriteAll contract.
   Model/RW.v mirrors the read and write reactors of /repo/file.go (TCP conns from sonic.Dial / accept are files) and
   /repo/async_adapter.go, with the transport in the state: the bytes the peer sent and the object has not read yet, end
   of stream, the bytes the transport accepted, and - for the adapter - an arbitrary script of (count, error) results of
   the wrapped io.ReadWriter.  "All payloads, all buffer sizes, all segmentations, both directions interleaved" is
   therefore "all states and all scripts", which the theorems quantify over.  Ghost state: rws_sent (every byte the peer
   ever sent), the log of callbacks with the bytes each operation moved. *)
From Sonic Require Import Base.Prelude Gen.Consts Model.RW Proofs.RWProofs.
Local Open Scope Z_scope.

(* One run of asyncReadNow (any fuel, any transport state, either flavour): the bytes taken from the stream are exactly
   the bytes appended to the caller's buffer, in order; the count kept - and passed to the callback on completion - is
   their number; a nil error on a ReadAll means the buffer is full; on error the count is what was transferred. *)
Theorem C02_read_attempt : forall fuel s p s1 p1 r,
  read_now fuel s p = (s1, p1, r) -> rd_ok p ->
  exists moved,
    rd_filled p1 = rd_filled p ++ moved /\ rws_in s = moved ++ rws_in s1 /\ rd_ok p1 /\
    rd_all p1 = rd_all p /\ rd_len p1 = rd_len p /\ rd_cb p1 = rd_cb p /\
    rws_wire s1 = rws_wire s /\ same_rest s s1 /\
    match r with Done e n => n = rd_sofar p1 /\ (e = eNil -> rd_all p = true -> n = rd_len p) | _ => True end.
Proof. exact read_now_spec. Qed.
Print Assumptions C02_read_attempt.

Theorem C02_write_attempt : forall fuel s p s1 p1 r,
  write_now fuel s p = (s1, p1, r) -> wr_ok p ->
  exists acc,
    rws_wire s1 = rws_wire s ++ acc /\ ztake (wr_sofar p1) (wr_buf p1) = ztake (wr_sofar p) (wr_buf p) ++ acc /\ wr_ok p1 /\
    wr_all p1 = wr_all p /\ wr_buf p1 = wr_buf p /\ wr_cb p1 = wr_cb p /\
    rws_in s1 = rws_in s /\ same_rest s s1 /\
    match r with Done e n => n = wr_sofar p1 /\ (e = eNil -> wr_all p = true -> n = zlen (wr_buf p)) | _ => True end.
Proof. exact write_now_spec. Qed.
Print Assumptions C02_write_attempt.

(* Every history (starts of reads and writes of both kinds, polls, peer data, end of stream, any result scripts), under
   the reactors' contract (one read and one write in flight, non-empty buffers):
     - every byte the peer sent is, in order and exactly once, in the buffers of completed reads, in the buffer of the
       read in flight, or still unread: none lost, duplicated or invented;
     - the bytes the transport accepted are exactly the prefixes [0, n) of the completed writes' buffers, in order, then
       the written prefix of the write in flight;
     - for every callback: n is the number of bytes the operation moved, and nil on an *All operation means n = len. *)
Theorem C02_stream_fidelity_all_histories : forall ops fl,
  contracts (rw_init fl) ops ->
  let s := rwrun (rw_init fl) ops in
  rws_sent s = got (rws_log s) ++ rd_part (rws_rd s) ++ rws_in s /\
  rws_wire s = put (rws_log s) ++ wr_part (rws_wr s) /\
  Forall ev_ok (rws_log s).
Proof. exact stream_fidelity. Qed.
Print Assumptions C02_stream_fidelity_all_histories.

Theorem C02_step_preserves_invariant : forall s o, inv s -> contract s o -> inv (rwstep s o).
Proof. exact rwstep_inv. Qed.
Print Assumptions C02_step_preserves_invariant.

(* However the transfer is split: a WriteAll that completes without error reports len and the transport received exactly
   the buffer (this is what licenses comparing only the final outcome of large TCP transfers, whose split the kernel
   chooses). *)
Theorem C02_writeall_outcome_independent_of_split : forall fuel s p s1 p1 e n,
  write_now fuel s p = (s1, p1, Done e n) -> wr_sofar p = 0 -> wr_all p = true -> e = eNil ->
  n = zlen (wr_buf p) /\ rws_wire s1 = rws_wire s ++ wr_buf p.
Proof. exact writeall_outcome_independent_of_split. Qed.
Print Assumptions C02_writeall_outcome_independent_of_split.

(* Non-vacuity: an adapter whose reader returns 2 bytes, then 1, then 3 with an error; a ReadAll of 4 and a Read of 8;
   a WriteAll of 5 split 2 + 0 + 3; and a TCP conn whose ReadAll of 6 sees 4 bytes, would-block, then 5 more. *)
Example C02_demo :
  let a := rwrun (rw_init FAdapter)
    [OPeerData [1;2;3;4;5;6;7;8;9]; ORScript [(2,0); (1,0); (3,9)]; OWScript [(2,0); (0,0); (3,0)];
     ORStart true 4 10; OWStart true [11;12;13;14;15] 20; OPoll; OPoll; OPoll; ORStart false 8 11; OPoll] in
  rev (rws_log a) = [EvR 10 9 4 [1;2;3;4] true 4; EvW 20 0 5 [11;12;13;14;15] true; EvR 11 0 5 [5;6;7;8;9] false 8] /\
  rws_wire a = [11;12;13;14;15] /\
  let f := rwrun (rw_init FFile)
    [OPeerData [1;2;3;4]; ORStart true 6 10; OPoll; OPeerData [5;6;7;8;9]; OPoll; ORStart false 8 11] in
  rev (rws_log f) = [EvR 10 0 6 [1;2;3;4;5;6] true 6; EvR 11 0 3 [7;8;9] false 8] /\ rws_in f = [].
Proof. vm_compute. auto. Qed.
