(* C19 -- codec connection framing is independent of transport segmentation.
   Model/LenCodec.v mirrors /repo/codec/frame/frame.go (Decode/resetDecode/Encode) and /repo/codec.go (CodecConn
   ReadNext/AsyncReadNext/WriteNext/AsyncWriteNext) over the three-FIFO view of ByteBuffer (C09) and a scripted transport
   (Model/Transport.v = harness/drv/memstream.go).  Spec/LenParser.v is the pure parser / encoder and, extracted, the
   oracle. *)
From Sonic Require Import Base.Prelude Gen.Consts Spec.ThreeFifo Spec.LenParser Model.Transport Model.LenCodec
  Proofs.WsCodecProofs Proofs.LenCodecProofs.
Local Open Scope Z_scope.

(* For every unread byte string (hostile ones included) Decode returns exactly the pure parser's verdict: the next
   payload, need-more, or overflow - a declared length above the limit is rejected before anything is buffered for it;
   no panic; exactly the item is consumed. *)
Theorem C19_decode_is_lparse1 : forall c c' r,
  linv c -> bytes (l_unread c) -> ldecode c = (c', r) ->
  linv c' /\
  match lparse1 (l_unread c) with
  | LNeedMore => r = LDNeedMore /\ l_unread c' = l_unread c
  | LOverflow => r = LDOverflow /\ l_unread c' = l_unread c
  | LItem p rest => r = LDItem p /\ l_unread c' = rest
  end.
Proof. exact ldecode_spec. Qed.
Print Assumptions C19_decode_is_lparse1.

(* ReadNext / AsyncReadNext over a transport that delivers the bytes in ANY segmentation (chunks of any size, would-block
   in the middle of an item, EOF, errors): an item is delivered iff it is the next item of the byte stream (what the
   codec holds ++ what the transport has queued); otherwise not a byte of the stream is lost. *)
Theorem C19_read_next_segmentation_independent : forall fuel c t async c' t' r,
  linv c -> bytes (l_unread c) -> evs_ok (tr_in t) -> (length (tr_in t) < fuel)%nat ->
  read_loop fuel c t async = (c', t', r) ->
  linv c' /\ bytes (l_unread c') /\ evs_ok (tr_in t') /\
  match r with
  | CItem p => lparse1 (lstream c t) = LItem p (lstream c' t')
  | _ => lstream c' t' = lstream c t
  end.
Proof. exact read_loop_spec. Qed.
Print Assumptions C19_read_next_segmentation_independent.

(* What the encoder writes decodes to the same payload; a whole sequence of payloads (empty ones included) written
   back to back decodes to the same sequence. *)
Theorem C19_roundtrip : forall p rest,
  zlen p <= frame_MaxPayloadLength -> lparse1 (lencode p ++ rest) = LItem p rest.
Proof. exact lroundtrip. Qed.
Print Assumptions C19_roundtrip.

Theorem C19_roundtrip_sequence : forall ps,
  Forall (fun p => zlen p <= frame_MaxPayloadLength) ps ->
  lparse_all (S (length ps)) (concat (map lencode ps)) = ps.
Proof. exact lroundtrip_seq. Qed.
Print Assumptions C19_roundtrip_sequence.

(* WriteNext on a healthy transport puts exactly (what an earlier failed write left) ++ encode(payload) on the wire and
   leaves nothing of the item behind. *)
Theorem C19_write_leaves_nothing_behind : forall s p s' r,
  tr_wfail (lc_tr s) < 0 -> zlen p <= frame_MaxPayloadLength -> write_sync s p = (s', r) ->
  let pending := t_read (lc_dst s) ++ t_pend (lc_dst s) in
  tr_wire (lc_tr s') = tr_wire (lc_tr s) ++ pending ++ lencode p /\
  t_read (lc_dst s') = [] /\ t_pend (lc_dst s') = [] /\ r = CWrote (zlen (pending ++ lencode p)) 0.
Proof. exact write_sync_clean. Qed.
Print Assumptions C19_write_leaves_nothing_behind.

(* Non-vacuity: three payloads written on one connection, the wire cut at awkward offsets, read on another. *)
Example C19_demo :
  let w := fold_left (fun s p => fst (lcstep s (LWriteNext p))) [[1;2;3]; []; [9]] lconn_init in
  let wire := tr_wire (lc_tr w) in
  wire = [0;0;0;3;1;2;3; 0;0;0;0; 0;0;0;1;9] /\
  let r := fold_left (fun '(s, out) o => let '(s', x) := lcstep s o in (s', out ++ [x]))
             [LIn (InData (ztake 2 wire)); LReadNext; LIn (InData (zsub 2 9 wire)); LReadNext; LReadNext;
              LIn (InData (zdrop 9 wire)); LReadNext; LReadNext; LReadNext]
             (lconn_init, []) in
  snd r = [CNone; CErr 4; CNone; CItem [1;2;3]; CErr 4; CNone; CItem []; CItem [9]; CErr 4].
Proof. vm_compute. split; reflexivity. Qed.
