(* C18 -- the opening handshake (client).
   Model/Handshake.v mirrors /repo/codec/websocket/stream.go upgrade() after the request was written: the read loop that
   collects the response head over any segmentation of the byte stream (buffer growth, size limit, end of stream or
   error at any point), the part of net/http's response parser the hs_verdict depends on, the acceptance test
   (/repo/codec/websocket/rfc6455.go IsUpgradeRes + accept key comparison), the hand-over of the bytes after the head to
   the frame decoder and the resulting stream state.  The expected accept value is an input (crypto is not modelled);
   the request the client sends is checked by the harness with an independent parser.
   PARTIAL: net/http itself is trusted - the model of its parser is validated by the correspondence run on generated
   responses only; completeness of the read loop (a head that is present is always found) is not proved. *)
From Coq Require Import Permutation.
From Sonic Require Import Base.Prelude Gen.Consts Model.Handshake Proofs.HandshakeProofs.
Local Open Scope Z_scope.

(* The read loop conserves the byte stream and reports the head that ends at the FIRST blank line - for every
   segmentation, buffer size and fuel. *)
Theorem C18_read_loop_conserves_stream : forall fuel buf cap tr buf1 e tr1,
  read_head fuel buf cap tr = HDone buf1 e tr1 -> zlen buf <= cap ->
  buf1 ++ flat tr1 = buf ++ flat tr /\ find_end buf1 0 = Some e /\ find_end (buf ++ flat tr) 0 = Some e.
Proof. exact read_head_conserves. Qed.
Print Assumptions C18_read_loop_conserves_stream.

(* The outcome does not depend on how the response bytes are segmented. *)
Theorem C18_segmentation_independent : forall f1 f2 cap1 cap2 tr1 tr2 b1 e1 r1 b2 e2 r2,
  read_head f1 [] cap1 tr1 = HDone b1 e1 r1 -> read_head f2 [] cap2 tr2 = HDone b2 e2 r2 ->
  0 <= cap1 -> 0 <= cap2 -> flat tr1 = flat tr2 ->
  e1 = e2 /\ ztake e1 b1 = ztake e2 b2 /\ zdrop e1 b1 ++ flat r1 = zdrop e2 b2 ++ flat r2.
Proof. exact read_head_segmentation_independent. Qed.
Print Assumptions C18_segmentation_independent.

(* Active if and only if the result is nil; otherwise terminated, never half-open; active only if the head up to the
   first blank line is accepted, and then every byte after that blank line is frame data - none lost, none duplicated. *)
Theorem C18_handshake_outcome : forall s tr expected s1 cls tr1,
  handshake s tr expected = (s1, cls, tr1) ->
  (h_state s1 = 1 <-> cls = 0) /\ (h_state s1 = 1 \/ h_state s1 = 5) /\
  (cls = 0 ->
     exists e, find_end (flat tr) 0 = Some e /\ hs_verdict (ztake e (flat tr)) expected = 0 /\
               h_src s1 ++ flat tr1 = zdrop e (flat tr)).
Proof. exact handshake_spec. Qed.
Print Assumptions C18_handshake_outcome.

(* Letter case of the name and optional whitespace around the value do not matter ... *)
Theorem C18_header_line_case_and_whitespace : forall name ws1 v ws2,
  name <> [] -> forallb is_tchar name = true ->
  forallb is_ows ws1 = true -> forallb is_ows ws2 = true ->
  match v with a :: _ => is_ows a = false | [] => True end ->
  match rev v with a :: _ => is_ows a = false | [] => True end ->
  parse_header (name ++ cCOLON :: ws1 ++ v ++ ws2) = Some (map lower name, v).
Proof. exact parse_header_canonical. Qed.
Print Assumptions C18_header_line_case_and_whitespace.

(* ... nor does header order. *)
Theorem C18_header_order : forall hs hs' n,
  Permutation hs hs' -> NoDup (map fst hs) -> hget n hs = hget n hs'.
Proof. exact hget_permutation. Qed.
Print Assumptions C18_header_order.

(* Non-vacuity: "HTTP/1.1 101 X / upgrade:   WebSocket / SEC-WEBSOCKET-ACCEPT:abc" + a piggy-backed frame, delivered
   in three segments cut inside the blank line; and the same response with a wrong accept value. *)
Example C18_demo :
  let resp := [72;84;84;80;47;49;46;49;32;49;48;49;32;88;13;10] ++
              [117;112;103;114;97;100;101;58;32;32;32;87;101;98;83;111;99;107;101;116;13;10] ++
              [83;69;67;45;87;69;66;83;79;67;75;69;84;45;65;67;67;69;80;84;58;97;98;99;13;10;13;10] in
  let frame := [129; 2; 104; 105] in
  let all := resp ++ frame in
  let tr := [TChunk (ztake 10 all); TChunk (zsub 10 (zlen resp - 2) all); TChunk (zdrop (zlen resp - 2) all)] in
  handshake hs_init tr [97;98;99] = (mkhs 1 frame 1024, 0, []) /\
  handshake hs_init tr [97;98;100] = (mkhs 5 frame 1024, 1, []) /\
  handshake hs_init [TChunk (ztake 30 all)] [97;98;99] = (mkhs 5 [] 1024, 2, []).
Proof. vm_compute. auto. Qed.

(* Completeness of the read loop: a head that ends within the size limit is found, whatever the segmentation of the data the
   transport delivers, the buffer it starts with and its growth (n doublings reach the limit). *)
Theorem C18_read_loop_finds_the_head : forall fuel n buf cap tr e,
  zlen buf <= cap -> 0 < cap -> forallb is_chunk tr = true ->
  find_end buf 0 = None -> find_end (buf ++ flat tr) 0 = Some e -> e <= hs_limit -> hs_limit <= cap * 2 ^ Z.of_nat n ->
  2 * zlen tr + 2 * Z.of_nat n + (if zlen buf =? cap then 0 else 1) < Z.of_nat fuel ->
  exists buf1 tr1, read_head fuel buf cap tr = HDone buf1 e tr1.
Proof. exact read_head_complete. Qed.
Print Assumptions C18_read_loop_finds_the_head.

(* A conforming response is never refused: every segmentation (up to 90 data segments - the bound comes from the model's
   loop fuel) of a response whose head ends within 64 KiB and is acceptable ends with the stream active and exactly the
   bytes behind the blank line in the decoder's buffer or still in the transport - on a fresh stream and on one that was
   handshaken before (whatever capacity its handshake buffer has grown to). *)
Theorem C18_conforming_response_is_accepted : forall s tr expected e,
  forallb is_chunk tr = true -> (length tr <= 90)%nat ->
  find_end (flat tr) 0 = Some e -> e <= hs_limit -> hs_verdict (ztake e (flat tr)) expected = 0 ->
  exists s1 tr1, handshake s tr expected = (s1, 0, tr1) /\ h_state s1 = 1 /\ h_src s1 ++ flat tr1 = zdrop e (flat tr).
Proof. exact handshake_accepts. Qed.
Print Assumptions C18_conforming_response_is_accepted.

(* Non-vacuity: the demo response in three segments meets the premises. *)
Example C18_accept_premises :
  let resp := [72;84;84;80;47;49;46;49;32;49;48;49;32;88;13;10] ++
              [117;112;103;114;97;100;101;58;32;32;32;87;101;98;83;111;99;107;101;116;13;10] ++
              [83;69;67;45;87;69;66;83;79;67;75;69;84;45;65;67;67;69;80;84;58;97;98;99;13;10;13;10] in
  let all := resp ++ [129; 2; 104; 105] in
  let tr := [TChunk (ztake 10 all); TChunk (zsub 10 (zlen resp - 2) all); TChunk (zdrop (zlen resp - 2) all)] in
  forallb is_chunk tr = true /\ (length tr <= 90)%nat /\ find_end (flat tr) 0 = Some (zlen resp) /\ zlen resp <= hs_limit /\
  hs_verdict (ztake (zlen resp) (flat tr)) [97;98;99] = 0.
Proof. cbv zeta. split; [reflexivity|]. split; [cbn; lia|]. vm_compute. repeat split; try reflexivity. discriminate. Qed.
