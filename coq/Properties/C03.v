From Sonic Require Import Base.Prelude Model.Loop.
Theorem C03_placeholder : True. Proof. exact I. Qed.
Print Assumptions C03_placeholder.
