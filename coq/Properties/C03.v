(* C03 -- event-loop accounting.
   Model/Loop.v: l_pending is poller.pending; every place of /repo that changes it (setRW, DelRead, DelWrite, Del, Post,
   dispatch, the timerfd handler, Timer.Cancel/Close, File.Close) is a transition of the model.  The statement is about
   every reachable history: the induction is over script lines and, inside a line, over the work-list machine.
   The return values of RunPending/PollOne/RunOneFor (they involve the real epoll_wait and its EINTR handling) are not
   in the model: they are checked by the ledger oracle (Spec/OpLedger.v) on the implementation's trace. *)
From Sonic Require Import Base.Prelude Gen.Consts Model.Loop Proofs.LoopProofs.
Local Open Scope Z_scope.

(* Whatever handlers do - re-issue, cancel, close, schedule, post; whatever the batch; registrations that fail
   (regular files) included - the work-list machine never changes  Pending() - (registered read and write interests
   + armed timers + posted handlers not yet run). *)
Theorem C03_handlers_preserve_the_balance : forall fuel s stack, gap (exec fuel s stack) = gap s.
Proof. exact exec_gap. Qed.
Print Assumptions C03_handlers_preserve_the_balance.

Theorem C03_script_line_preserves_the_balance : forall s o, fresh_op s o -> gap (lstep s o) = gap s.
Proof. exact lstep_gap. Qed.
Print Assumptions C03_script_line_preserves_the_balance.

(* Whenever no handler is executing (after every script line of every script) Pending() equals the number of operations
   in flight: deferred reads and writes, armed timers, posted handlers - nothing that completed inline, was cancelled,
   was closed or failed to register is counted. *)
Theorem C03_pending_counts_operations_in_flight : forall ops s, acct s -> fresh_ops s ops -> acct (lrun s ops).
Proof. exact accounting_invariant. Qed.
Print Assumptions C03_pending_counts_operations_in_flight.

Theorem C03_initially_balanced : acct loop_init.
Proof. exact acct_init. Qed.
Print Assumptions C03_initially_balanced.

(* Non-vacuity: a deferred read, a failed registration on a regular file at the dispatch limit, a timer and a post. *)
Example C03_demo :
  let s := lrun loop_init
    [LObj 1 KSock; LObj 2 KReg; LTimer 3; LProg 10 []; LAct (AStart false false 1 4 10);
     LDepth 32; LAct (AStart false false 2 4 10); LDepth 0;
     LAct (ASched 3 false 5 10); LAct (APost 10)] in
  l_pending s = 3 /\ interest s = 3 /\
  let s' := lrun s [LAct (ACancel 1); LAct (ATCancel 3); LPoll [(2, 0, 1)]] in l_pending s' = 0 /\ interest s' = 0.
Proof. vm_compute. auto. Qed.
