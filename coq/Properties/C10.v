(* C10 -- BipBuffer is a FIFO of contiguous chunks whose claims never overlap queued data.
   The cursor code (the BipBuffer_ functions) is REGENERATED from /repo/bip_buffer.go on every run (Gen/BipBuffer.v); Model/BipMem.v
   adds the byte array, the caller's writes through the claimed slice and a ghost history (glog, gcons).
   All statements are for every buffer size and every history of operations with non-negative arguments. *)
From Sonic Require Import Base.Prelude Gen.BipBuffer Model.BipMem Proofs.BipProofs.
Local Open Scope Z_scope.

(* Every history is executed without a panic and reaches a state satisfying the invariant. *)
Theorem C10_inv_reachable : forall size ops,
  0 <= size -> Forall nonneg_op ops -> exists s, brun (binit size) ops = Ok s /\ binv s.
Proof. exact reachable_inv. Qed.
Print Assumptions C10_inv_reachable.

Theorem C10_never_panics : forall size ops,
  0 <= size -> Forall nonneg_op ops -> brun (binit size) ops <> Panic.
Proof. exact never_panics. Qed.
Print Assumptions C10_never_panics.

(* FIFO over whole histories: the queued bytes are exactly the bytes committed (in commit order) minus the consumed
   prefix, and Committed() = bytes committed - bytes consumed. *)
Theorem C10_fifo_history : forall size ops s,
  0 <= size -> Forall nonneg_op ops -> brun (binit size) ops = Ok s ->
  babs s = zdrop (gcons s) (glog s) /\
  BipBuffer_Committed (cur s) = zlen (glog s) - gcons s /\
  0 <= gcons s <= zlen (glog s).
Proof. exact fifo_history. Qed.
Print Assumptions C10_fifo_history.

(* Commit appends the first min(n, claimed) claimed bytes at the end of the queue; the returned chunk is one contiguous
   slice at the claim's position lying wholly inside one region (so it is never split across the wrap). *)
Theorem C10_commit_chunk_contiguous : forall s n s' r bytes,
  binv s -> 0 <= n -> bstep s (BCommit n) = Ok (s', RSlice r bytes) ->
  let ch := BipBuffer_claimHead (cur s) in
  let k := Z.min n (BipBuffer_claimTail (cur s) - ch) in
  bytes = ztake k (zsub ch (BipBuffer_claimTail (cur s)) (mem s)) /\
  babs s' = babs s ++ bytes /\ mem s' = mem s /\
  BipBuffer_Committed (cur s') = BipBuffer_Committed (cur s) + zlen bytes /\
  match r with
  | None => bytes = []
  | Some x =>
      0 < slen x /\ bytes = zsub (soff x) (soff x + slen x) (mem s') /\ soff x = ch /\
      ((BipBuffer_head (cur s') <= soff x /\ soff x + slen x <= BipBuffer_tail (cur s')) \/
       (BipBuffer_wrappedHead (cur s') <= soff x /\ soff x + slen x <= BipBuffer_wrappedTail (cur s')))
  end.
Proof. exact commit_chunk. Qed.
Print Assumptions C10_commit_chunk_contiguous.

(* Head is a non-empty prefix of the queue whenever the queue is non-empty, and changes nothing. *)
Theorem C10_head_is_oldest : forall s s' r bytes,
  binv s -> bstep s BHead = Ok (s', RSlice r bytes) ->
  s' = s /\ bytes = ztake (zlen bytes) (babs s) /\ (bytes = [] <-> babs s = []) /\
  match r with None => bytes = [] | Some x => bytes = zsub (soff x) (soff x + slen x) (mem s) /\ 0 < slen x end.
Proof. exact head_prefix. Qed.
Print Assumptions C10_head_is_oldest.

(* Consume drops exactly min(n, |Head()|) bytes from the front and nothing else. *)
Theorem C10_consume_drops_front : forall s n s' r,
  binv s -> 0 <= n -> bstep s (BConsume n) = Ok (s', r) ->
  let k := Z.min n (BipBuffer_tail (cur s) - BipBuffer_head (cur s)) in
  babs s' = zdrop k (babs s) /\ mem s' = mem s /\
  BipBuffer_Committed (cur s') = BipBuffer_Committed (cur s) - k /\ 0 <= k <= n.
Proof. exact consume_front. Qed.
Print Assumptions C10_consume_drops_front.

(* A claim never overlaps queued data: whatever the caller writes through the slice handed out by Claim -- and through
   the live claim of ANY reachable state, e.g. after consumes in between -- leaves the queue unchanged. *)
Theorem C10_claim_disjoint : forall s n s1 r c w s2 r2,
  binv s -> 0 <= n -> bstep s (BClaim n) = Ok (s1, RSlice r c) -> bstep s1 (BWrite w) = Ok (s2, r2) ->
  babs s2 = babs s /\ babs s1 = babs s /\
  match r with
  | None => mem s2 = mem s
  | Some x => 0 <= soff x /\ soff x + slen x <= BipBuffer_Size (cur s) /\ 0 <= slen x <= n
  end.
Proof. exact claim_then_write. Qed.
Print Assumptions C10_claim_disjoint.

Theorem C10_write_through_live_claim_keeps_queue : forall s w s' k,
  binv s -> write_live s w = (s', k) -> babs s' = babs s /\ binv s'.
Proof. exact write_live_abs. Qed.
Print Assumptions C10_write_through_live_claim_keeps_queue.

(* An empty buffer grants a claim of min(n, size), starting at the beginning of the array. *)
Theorem C10_empty_grants_full : forall c n c' r,
  cinv c -> 0 <= n -> BipBuffer_Committed c = 0 -> BipBuffer_Claim c n = Ok (c', r) ->
  match r with
  | Some x => soff x = 0 /\ slen x = Z.min n (BipBuffer_Size c)
  | None => Z.min n (BipBuffer_Size c) = 0
  end.
Proof. exact claim_empty_full. Qed.
Print Assumptions C10_empty_grants_full.

(* Non-vacuity: a history that wraps, claims, consumes and commits (claim-consume-commit order, commit smaller than the
   claim) satisfies the hypotheses, reaches a state with a non-empty wrapped region, and the former defect witness now
   leaves the buffer able to grant its full size. *)
Definition demo : list bop :=
  [BClaim 6; BFill 1; BCommit 6; BConsume 4; BClaim 3; BFill 9; BCommit 3; BClaim 9; BFill 20; BConsume 1; BCommit 2].
Example C10_demo_nonvacuous :
  Forall nonneg_op demo /\
  match brun (binit 10) demo with
  | Ok s => BipBuffer_wrappedTail (cur s) = 2 /\ babs s = [6; 9; 10; 11; 20; 21] /\ gcons s = 5
  | Panic => False
  end.
Proof. split; [repeat constructor; cbn; lia|vm_compute; auto]. Qed.

Example C10_former_witness_now_full :
  match brun (binit 10) [BClaim 4; BCommit 4; BClaim 0; BConsume 4; BCommit 1; BClaim 10] with
  | Ok s => live s = Some (mkslice 0 10)
  | Panic => False
  end.
Proof. vm_compute. reflexivity. Qed.
