(* C04 -- timer guarantees.
   Model/Loop.v: tmr is sonic.Timer + internal.Timer (state, cancelled flag, read interest on the timerfd, callback,
   repeat interval, membership in IO.pendingTimers) + the kernel's timerfd (t_due: absolute expiry, None = disarmed);
   l_now is the monotonic clock, advanced only by the script.  Batches are inputs: the theorems hold for every batch,
   in particular for stale entries of timers that an earlier handler of the same batch cancelled and re-armed. *)
From Sonic Require Import Base.Prelude Gen.Consts Model.Loop Proofs.LoopProofs.
Local Open Scope Z_scope.

(* Never early: whatever the kernel reported, a batch entry fires the timer's closure only if the timer still has its
   read interest and the delay of its CURRENT schedule has elapsed. *)
Theorem C04_timer_never_fires_early : forall s i mask t,
  lookup i (l_tmrs s) = Some t -> In (ITimerFired i) (snd (poll_entry s (1, i, mask))) ->
  exists due, t_due t = Some due /\ due <= l_now s /\ t_evR t = true.
Proof. exact timer_never_early. Qed.
Print Assumptions C04_timer_never_fires_early.

(* ... and that schedule's expiry is the clock at the scheduling call plus the requested delay. *)
Theorem C04_schedule_arms_now_plus_delay : forall s i t ms cb rep,
  t_state t = 0 -> 0 < ms ->
  exists t', lookup i (l_tmrs (fst (sched_once s i t ms cb rep))) = Some t' /\
             t_due t' = Some (l_now s + ms) /\ t_state t' = 1 /\ t_cb t' = cb /\ t_evR t' = true /\ t_member t' = true.
Proof. exact sched_sets_due. Qed.
Print Assumptions C04_schedule_arms_now_plus_delay.

(* At most once: firing disarms the timerfd and removes the interest ... *)
Theorem C04_fired_timer_is_disarmed : forall s i mask t,
  lookup i (l_tmrs s) = Some t -> In (ITimerFired i) (snd (poll_entry s (1, i, mask))) ->
  exists t', lookup i (l_tmrs (fst (poll_entry s (1, i, mask)))) = Some t' /\ t_evR t' = false /\ t_due t' = None /\
             l_pending (fst (poll_entry s (1, i, mask))) = l_pending s - 1.
Proof. exact fired_timer_is_disarmed. Qed.
Print Assumptions C04_fired_timer_is_disarmed.

(* ... and an entry for a timer without interest does nothing at all. *)
Theorem C04_entry_without_interest_is_silent : forall s i mask t,
  lookup i (l_tmrs s) = Some t -> t_evR t = false -> poll_entry s (1, i, mask) = (s, []).
Proof. exact timer_entry_needs_interest. Qed.
Print Assumptions C04_entry_without_interest_is_silent.

(* Never after Cancel or Close: both remove the interest (so the theorem above applies to every later batch entry,
   including one already in the batch being processed). *)
Theorem C04_cancel_removes_interest : forall s i t,
  lookup i (l_tmrs s) = Some t ->
  exists t', lookup i (l_tmrs (fst (do_action s (ATCancel i)))) = Some t' /\ t_evR t' = false /\ t_cancelled t' = true.
Proof. exact tcancel_clears_interest. Qed.
Print Assumptions C04_cancel_removes_interest.

Theorem C04_close_removes_interest : forall s i t,
  lookup i (l_tmrs s) = Some t -> t_state t <> 2 ->
  exists t', lookup i (l_tmrs (fst (do_action s (ATClose i)))) = Some t' /\ t_evR t' = false /\ t_state t' = 2 /\ t_member t' = false.
Proof. exact tclose_clears_interest. Qed.
Print Assumptions C04_close_removes_interest.

(* A timer holds at most one schedule: scheduling while scheduled (or closed) fails and disturbs nothing. *)
Theorem C04_schedule_while_scheduled_fails : forall s i t rep ms cb,
  lookup i (l_tmrs s) = Some t -> t_state t <> 0 -> negb (rep && (ms <=? 0)) = true ->
  do_action s (ASched i rep ms cb) = (add_log s (LSched i rep ms cb xCancelled), []).
Proof. exact sched_while_scheduled_fails. Qed.
Print Assumptions C04_schedule_while_scheduled_fails.

(* A closed timer cannot be revived: Cancel keeps it closed. *)
Theorem C04_closed_timer_stays_closed : forall s i t,
  lookup i (l_tmrs s) = Some t -> t_state t = 2 ->
  exists t', lookup i (l_tmrs (fst (do_action s (ATCancel i)))) = Some t' /\ t_state t' = 2.
Proof. exact closed_timer_stays_closed. Qed.
Print Assumptions C04_closed_timer_stays_closed.

(* Non-vacuity: timer 1 (5 ms) and timer 2 (5 ms) expire together; timer 1's callback cancels timer 2 and re-arms it for
   50 ms.  The stale batch entry of timer 2 fires nothing; 50 ms later it fires once. *)
Example C04_demo :
  let s := lrun loop_init
    [LTimer 1; LTimer 2; LProg 10 [ATCancel 2; ASched 2 false 50 20]; LProg 20 [];
     LAct (ASched 1 false 5 10); LAct (ASched 2 false 5 20); LSleep 6; LPoll [(1, 1, 1); (1, 2, 1)]] in
  filter (fun e => match e with LCb _ _ _ _ => true | _ => false end) (rev (l_log s)) = [LCb 10 0 0 1] /\ l_pending s = 1 /\
  let s' := lrun s [LSleep 50; LPoll [(1, 2, 1)]; LPoll [(1, 2, 1)]] in
  filter (fun e => match e with LCb _ _ _ _ => true | _ => false end) (rev (l_log s')) = [LCb 10 0 0 1; LCb 20 0 0 1] /\ l_pending s' = 0.
Proof. vm_compute. auto. Qed.
