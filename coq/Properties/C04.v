From Sonic Require Import Base.Prelude Model.Loop.
Theorem C04_placeholder : True. Proof. exact I. Qed.
Print Assumptions C04_placeholder.
