From Sonic Require Import Base.Prelude Model.Loop.
Theorem C14_placeholder : True. Proof. exact I. Qed.
Print Assumptions C14_placeholder.
