(* C14 -- inline completions never nest deeper than the dispatch limit.
   Model/Loop.v: l_disp is IO.Dispatched, l_depth the (ghost) number of completion callbacks on the stack, LCb log
   entries record the depth at which each callback ran.  A chain script is any script whose handler programs consist of
   starts of reads/writes (of any kind, on any object, in any order and number) on open pollable objects; poll batches,
   peer behaviour, timers, posts and top-level cancels are unrestricted.
   PARTIAL: regular files are excluded by chain_lop - deferral at the limit fails for them in /repo (epoll refuses the
   descriptor), which is the recorded known finding of this property; listener, packet and multicast copies of the
   logic are not modelled. *)
From Sonic Require Import Base.Prelude Gen.Consts Model.Loop Proofs.LoopProofs Proofs.LoopDepth.
Local Open Scope Z_scope.

(* The work-list machine: from any state in which A holds the callbacks on the stack (at most one of them not counted in
   IO.Dispatched - the one the poller dispatched), every callback runs at depth <= max 0 (limit - d0) + 1, and when the
   machine stops (not out of fuel) no callback is on the stack and IO.Dispatched is back at d0. *)
Theorem C14_machine_depth_bound : forall d0 bound,
  Z.max 0 (sonic_MaxCallbackDispatch - d0) + 1 <= bound ->
  forall fuel s H A B, sinv d0 bound s H A B -> settled d0 bound (exec fuel s (H ++ A ++ B)).
Proof. exact exec_depth. Qed.
Print Assumptions C14_machine_depth_bound.

(* Every line of every chain script. *)
Theorem C14_script_line : forall s o,
  idle s -> chain_lop o -> l_fuel_out (lstep s o) = false -> idle (lstep s o).
Proof. exact lstep_idle. Qed.
Print Assumptions C14_script_line.

(* Every chain script, of any length: all callbacks ran at depth <= MaxCallbackDispatch + 1, and after every line the
   depth is 0 and IO.Dispatched is what the line found. *)
Theorem C14_chain_scripts_depth_bounded : forall ops s,
  idle s -> Forall chain_lop ops -> no_fuel_out s ops -> idle (lrun s ops).
Proof. exact chain_script_depth. Qed.
Print Assumptions C14_chain_scripts_depth_bounded.

Theorem C14_initial_state_idle : idle loop_init.
Proof. exact idle_init. Qed.
Print Assumptions C14_initial_state_idle.

(* Non-vacuity: one socket with 100 readable bytes, a handler that re-issues a 1-byte read: 32 nested inline completions,
   then a deferred one dispatched by the poller with 32 more nested under it: the deepest callback ran at depth 33. *)
Example C14_demo :
  let ops := [LObj 1 KSock; LProg 10 [AStart false false 1 1 10]; LPeer 1 (PData 100);
              LAct (AStart false false 1 1 10); LPoll [(0, 1, 1)]] in
  let s := lrun loop_init ops in
  Forall chain_lop ops /\ no_fuel_out loop_init ops /\
  fold_left Z.max (map (fun e => match e with LCb _ _ _ d => d | _ => 0 end) (l_log s)) 0 = 33 /\
  l_depth s = 0 /\ l_disp s = 0 /\ l_pending s = 1.
Proof. vm_compute. repeat split; repeat constructor; discriminate. Qed.
