From Sonic Require Import Base.Prelude Model.Loop.
Theorem C01_placeholder : True. Proof. exact I. Qed.
Print Assumptions C01_placeholder.
