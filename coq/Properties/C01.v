(* C01 -- exactly-once completion of every asynchronous operation.
   Model/Loop.v mirrors /repo/file.go (asyncRead/asyncReadNow/scheduleRead/onRead and the write twins, Cancel, Close),
   /repo/internal/poll_linux.go (setRW, DelRead, DelWrite, Poll with its batch loop) and /repo/io.go, together with a model
   of the kernel objects (socket, FIFO ends, regular file).  The batch epoll_wait returned is an input of the model, so
   every theorem below quantifies over all batches, masks and handler programs.  The whole-history statement (each
   started operation's callback appears exactly once in the trace, Cancel completes each in-flight operation once with
   the cancellation error, nothing of an object runs after its Close) is the extracted ledger oracle Spec/OpLedger.v,
   run on the model's trace and on the implementation's trace of every script; the theorems are the per-step facts that
   make it hold.  "Never twice" is proved over whole histories (C01_never_twice_over_all_histories, Proofs/LoopOnce.v).
   PARTIAL: "never zero times" over whole histories (every operation of a polled, open object eventually completes) is
   proved per poll (C01_ready_read_is_dispatched) and judged by the ledger, not proved as one liveness statement. *)
From Sonic Require Import Base.Prelude Gen.Consts Model.Loop Proofs.LoopProofs Proofs.LoopClosed Proofs.LoopOnce.
Local Open Scope Z_scope.

(* Never twice: the poller removes the interest before it dispatches, and a batch entry whose object has no interest
   left (completed, cancelled or closed by an earlier handler of the same batch) dispatches nothing and changes nothing,
   whatever mask the kernel reported. *)
Theorem C01_stale_batch_entry_dispatches_nothing : forall s i o mask,
  lookup i (l_objs s) = Some o -> o_evR o = false -> o_evW o = false ->
  fst (poll_entry s (0, i, mask)) = s /\
  (forall it, In it (snd (poll_entry s (0, i, mask))) -> it = IPollWrite i) /\
  write_event s i xNil = (s, []).
Proof. exact stale_entry_safe. Qed.
Print Assumptions C01_stale_batch_entry_dispatches_nothing.

(* After Close returns the object has no interest registered (so, by the theorem above, no batch entry can invoke a
   callback of it) and Close itself invokes nothing. *)
Theorem C01_close_leaves_no_interest : forall s i o,
  lookup i (l_objs s) = Some o -> o_closed o = false ->
  exists o', lookup i (l_objs (fst (do_action s (AClose i)))) = Some o' /\
             o_closed o' = true /\ o_evR o' = false /\ o_evW o' = false /\ snd (do_action s (AClose i)) = [].
Proof. exact close_clears_interest. Qed.
Print Assumptions C01_close_leaves_no_interest.

(* ... and this holds in every reachable state: for every script, every handler program and every batch, a closed object has
   no interest registered, so no batch entry - stale or not - invokes a callback of it or changes anything. *)
Theorem C01_no_poller_callback_after_close_all_histories : forall ops s i o mask,
  cl_inv s -> lookup i (l_objs (lrun s ops)) = Some o -> o_closed o = true ->
  fst (poll_entry (lrun s ops) (0, i, mask)) = lrun s ops /\
  (forall it, In it (snd (poll_entry (lrun s ops) (0, i, mask))) -> it = IPollWrite i) /\
  write_event (lrun s ops) i xNil = (lrun s ops, []).
Proof. exact no_poller_callback_after_close. Qed.
Print Assumptions C01_no_poller_callback_after_close_all_histories.

Theorem C01_initial_state_has_no_closed_interest : cl_inv loop_init.
Proof. exact cl_init. Qed.
Print Assumptions C01_initial_state_has_no_closed_interest.

(* The system-call loop of asyncReadNow/asyncWriteNow ends in exactly one of: one completion (one callback item), the
   interest registered again (deferred to the poller), or - excluded by the correspondence run - fuel exhaustion. *)
Theorem C01_io_attempt_completes_once_or_rearms : forall fuel s i w p wrapped,
  (exists e n, snd (io_now fuel s i w p wrapped) = [IInvoke (op_cb p) e n wrapped]) \/
  (snd (io_now fuel s i w p wrapped) = [] /\
   (armed (fst (io_now fuel s i w p wrapped)) i w \/ l_fuel_out (fst (io_now fuel s i w p wrapped)) = true \/
    lookup i (l_objs s) = None)).
Proof. exact io_now_outcome. Qed.
Print Assumptions C01_io_attempt_completes_once_or_rearms.

(* Never zero times: a deferred read whose descriptor the batch reports with IN, HUP or ERR (peer data, close, reset,
   hang-up of a FIFO that only has a read interest) is dispatched by that poll: one callback, or re-armed. *)
Theorem C01_ready_read_is_dispatched : forall s i o p mask,
  lookup i (l_objs s) = Some o -> o_evR o = true -> o_rd o = Some p ->
  has mask mIN || has mask mHUP || has mask mERR = true ->
  exists items, snd (poll_entry s (0, i, mask)) = items ++ (if has mask mOUT || (has mask mHUP || has mask mERR) then [IPollWrite i] else []) /\
    ((exists e n wr, items = [IInvoke (op_cb p) e n wr]) \/
     (items = [] /\ (armed (fst (poll_entry s (0, i, mask))) i false \/ l_fuel_out (fst (poll_entry s (0, i, mask))) = true))).
Proof. exact ready_read_is_dispatched. Qed.
Print Assumptions C01_ready_read_is_dispatched.

(* Cancel completes the in-flight read exactly once, with the cancellation error and the progress made so far, and
   removes its interest (then handles the write side).  ctl_ok: the descriptor is one epoll knows; if it was closed
   underneath the object the callback still runs exactly once, but with the poller's error instead. *)
Theorem C01_cancel_completes_read_once : forall s i o p,
  lookup i (l_objs s) = Some o -> o_evR o = true -> o_rd o = Some p -> ctl_ok o = true ->
  snd (do_action s (ACancel i)) = [IInvoke (op_cb p) xCancelled (op_sofar p) (is_pkt o && op_wrapped p); ICancelWrites i] /\
  exists o', lookup i (l_objs (fst (do_action s (ACancel i)))) = Some o' /\ o_evR o' = false.
Proof. exact cancel_completes_read. Qed.
Print Assumptions C01_cancel_completes_read_once.

(* Non-vacuity: two sockets with deferred reads, both ready in one batch; the first handler cancels the second object:
   both callbacks run exactly once (the second with the cancellation error) and its batch entry is then stale. *)
Example C01_demo :
  let s := lrun loop_init
    [LObj 1 KSock; LObj 2 KSock; LProg 10 [ACancel 2]; LProg 20 [];
     LDepth 0; LAct (AStart false false 1 4 10); LAct (AStart false false 2 4 20);
     LPeer 1 (PData 4); LPeer 2 (PData 4); LPoll [(0, 1, 1); (0, 2, 1)]] in
  filter (fun e => match e with LCb _ _ _ _ => true | _ => false end) (rev (l_log s)) = [LCb 10 0 4 1; LCb 20 2 0 2]
  /\ l_pending s = 0 /\ l_fuel_out s = false.
Proof. vm_compute. auto. Qed.

(* NEVER TWICE, over whole histories.  c is a callback identifier the script uses for read/write/accept/datagram operations
   only ([lop_ok c]: no timer and no posted handler carries it).  [starts c s] / [cbs c s]: how many operations were started
   with c / how many times a callback c ran, in the whole trace; [pendc c s]: operations holding c that are registered with
   the poller right now.  For EVERY script - any objects (sockets, FIFO ends, regular files, listeners, packet conns,
   descriptors closed underneath), any handler programs (re-issue, cancel, close, re-arm itself or another object), any
   batches and masks, any peer behaviour, inline and deferred paths - unless the script itself starts an operation on a
   direction that still has one deferred in flight (outside the library's contract; [l_overlap] records it):
   completions + operations still in flight never exceed the operations started.  With one identifier per operation this
   is "no completion callback ever runs twice". *)
Theorem C01_never_twice_over_all_histories : forall c, c <> 0 -> forall ops,
  Forall (lop_ok c) ops ->
  let s := lrun loop_init ops in
  l_overlap s = false -> cbs c s + pendc c s <= starts c s /\ cbs c s <= starts c s.
Proof. exact completions_never_exceed_starts. Qed.
Print Assumptions C01_never_twice_over_all_histories.

(* Non-vacuity: the demo script above keeps the contract and each of its two operations completed exactly once; and the
   contract matters: a second read started while the first is deferred makes the later callback run twice - the flag is set. *)
Example C01_never_twice_demo :
  let ops := [LObj 1 KSock; LObj 2 KSock; LProg 10 [ACancel 2]; LProg 20 [];
              LDepth 0; LAct (AStart false false 1 4 10); LAct (AStart false false 2 4 20);
              LPeer 1 (PData 4); LPeer 2 (PData 4); LPoll [(0, 1, 1); (0, 2, 1)]] in
  let s := lrun loop_init ops in
  Forall (lop_ok 10) ops /\ Forall (lop_ok 20) ops /\ l_overlap s = false /\
  starts 10 s = 1 /\ cbs 10 s = 1 /\ starts 20 s = 1 /\ cbs 20 s = 1 /\ pendc 10 s = 0 /\ pendc 20 s = 0.
Proof. cbv zeta. split; [repeat constructor|]. split; [repeat constructor|]. vm_compute. repeat split; reflexivity. Qed.

Example C01_overlapping_starts_break_it :
  let s := lrun loop_init [LObj 1 KSock; LAct (AStart false false 1 4 10); LPeer 1 (PData 8);
                           LAct (AStart false false 1 4 11); LPoll [(0, 1, 1)]] in
  l_overlap s = true /\ starts 11 s = 1 /\ cbs 11 s = 2.
Proof. vm_compute. repeat split; reflexivity. Qed.
