(* C13 -- no descriptor leaks, no foreign close, owners stay alive.
   Three models: (a) the registry part of the event-loop model (Model/Loop.v: o_reg is membership in
   ioc.pending.static/dynamic, o_evR/o_evW the interests registered with the poller); (b) a descriptor table with
   lowest-free allocation and objects whose Close is guarded by a flag (Model/Ctors.v: listener, packet conn, file,
   adapter, peer, timer); (c) the error paths of every constructor as (allocated, closed) pairs transcribed from /repo.
   PARTIAL: (c) is a transcription - its tie to the code is the /proc/self/fd census of the correspondence run under
   every failure that can be injected without privileges; descriptor-table exhaustion is not injected; the garbage
   collector is not modelled (the GC probes of the run are tests). *)
From Sonic Require Import Base.Prelude Gen.Consts Model.Loop Proofs.LoopProofs Proofs.LoopReg Model.Ctors Proofs.CtorsProofs.
Local Open Scope Z_scope.

(* Owners stay alive: in every reachable state of the event loop - any scripts, batches, handler programs - an object with
   a read or write deferred to the poller is in the IO's registry (also after the other direction completed or was
   cancelled). *)
Theorem C13_inflight_implies_registered : forall ops s, reg_inv s -> reg_inv (lrun s ops).
Proof. exact inflight_registered. Qed.
Print Assumptions C13_inflight_implies_registered.

Theorem C13_initially_registered_ok : reg_inv loop_init.
Proof. exact reg_init. Qed.
Print Assumptions C13_initially_registered_ok.

(* No foreign close: with the close-once guard, for every history of creations and (repeated) Closes, live objects own
   distinct open descriptors - a repeated Close never touches the table. *)
Theorem C13_guarded_close_never_foreign : forall s o,
  fs_guarded s = true -> live_ok s -> (forall id, o = FNew id -> flookup id (fs_objs s) = None) -> live_ok (fstep s o).
Proof. exact guarded_close_never_foreign. Qed.
Print Assumptions C13_guarded_close_never_foreign.

(* ... and without the guard (listener / packet conn before the repair) it is refuted. *)
Theorem C13_unguarded_close_refuted :
  let s := frun (mkfs [] [] false) [FNew 1; FClose 1; FNew 2; FClose 1] in
  exists ob, flookup 2 (fs_objs s) = Some ob /\ f_closed ob = false /\ ~ In (f_fd ob) (fs_table s).
Proof. exact unguarded_close_is_foreign. Qed.
Print Assumptions C13_unguarded_close_refuted.

(* No leaks: every error path of every constructor closes what it allocated (finite sweep over the transcribed table),
   hence leaves the descriptor table exactly as it found it. *)
Theorem C13_ctor_error_paths_balanced : forall c p, In p (ctor_paths c) -> fst p = snd p.
Proof. exact ctor_paths_balanced. Qed.
Print Assumptions C13_ctor_error_paths_balanced.

Theorem C13_ctor_error_paths_restore_table : forall t c p, In p (ctor_paths c) -> forall x, In x (run_path t p) <-> In x t.
Proof. exact run_path_restores. Qed.
Print Assumptions C13_ctor_error_paths_restore_table.

(* Non-vacuity: a read and a write deferred on one socket; the read completes: the object is still registered. *)
Example C13_demo :
  let s := lrun loop_init [LObj 1 KSock; LProg 10 []; LDepth 32; LAct (AStart false false 1 4 10); LAct (AStart true true 1 4 20);
                           LDepth 0; LPeer 1 (PData 4); LPoll [(0, 1, 1)]] in
  match lookup 1 (l_objs s) with Some o => o_evR o = false /\ o_evW o = true /\ o_reg o = true | None => False end.
Proof. vm_compute. auto. Qed.
