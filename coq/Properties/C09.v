(* C09 -- ByteBuffer behaves as three adjacent FIFO regions.
   Model/ByteBuffer.v mirrors /repo/byte_buffer.go (hand-written, tied to the code by the correspondence run on every
   check); Spec/ThreeFifo.v is the abstract specification (three lists + room) and, extracted, the oracle that judges the
   implementation's traces.  env_ok/wf_hist state the only side conditions: arguments are int64 values, Reserve's
   request fits in memory, the capacity the allocator reports is at least what append guarantees, and a caller who
   claims n bytes has written n bytes. *)
From Sonic Require Import Base.Prelude Model.ByteBuffer Spec.ThreeFifo Proofs.ByteBufferProofs.
Local Open Scope Z_scope.

(* Every operation, on every state satisfying the invariant and for every integer argument, behaves exactly like the
   three-FIFO specification (regions and result), and re-establishes the invariant. *)
Theorem C09_step_refines_spec : forall s o, binv s -> env_ok s o -> refines_at s o.
Proof. exact step_refines. Qed.
Print Assumptions C09_step_refines_spec.

(* No call panics: negative, zero and oversized arguments are clamped or ignored. *)
Theorem C09_no_panic : forall s o, binv s -> bbstep s o <> Panic.
Proof. exact step_no_panic. Qed.
Print Assumptions C09_no_panic.

(* Whole histories over the public API, from any state satisfying the invariant (in particular a fresh buffer):
   the model never panics, every result is the specification's, and the regions are the specification's. *)
Theorem C09_history_refines_spec : forall ops s,
  binv s -> wf_hist s ops -> exists s', corun s (abs s) ops = Some (s', abs s') /\ binv s'.
Proof. exact history_refines. Qed.
Print Assumptions C09_history_refines_spec.

Theorem C09_fresh_buffer : binv bb_init /\ abs bb_init = tf_init.
Proof. split; [exact binit_inv|exact abs_init]. Qed.
Print Assumptions C09_fresh_buffer.

(* The three regions are adjacent and their lengths add up to the buffer length. *)
Theorem C09_lengths_add_up : forall s, binv s ->
  zlen (saved_of s) + zlen (readable_of s) + zlen (pending_of s) = zlen (bmem s) /\
  bmem s = saved_of s ++ readable_of s ++ pending_of s.
Proof. exact lengths_add_up. Qed.
Print Assumptions C09_lengths_add_up.

(* Non-vacuity: a history through reallocation, with all three regions non-empty at the end, satisfies wf_hist. *)
Definition demo : list bbop :=
  [OWrite [1;2;3;4;5;6;7;8] 512; OCommit 6; OSave 2; OSave 1; OClaimFixed 2 [9;10]; ODiscard 0 2;
   OReserve 600 1200; OConsume 1; OPrepareRead 5; OCommit 9223372036854775807; OShrinkTo (-9223372036854775808)].
Example C09_demo_nonvacuous :
  wf_hist bb_init demo /\
  match corun bb_init tf_init demo with
  | Some (s, t) => t = mktf [3] [5;6;7;8;9;10] [] 1193 /\ bcap s = 1200
  | None => False
  end.
Proof. vm_compute. repeat split; try discriminate; auto. Qed.
