(* C11 -- MirroredBuffer is a contiguous-claim ring for every accepted size.
   The cursor code (MirroredBuffer_ functions) and the size rounding / field initialisers of the constructor are
   REGENERATED from /repo/bytes/mirrored_buffer.go on every run (Gen/Mirrored.v).  The double mmap is an environment
   assumption: virtual offset a of the 2*size mapping denotes ring byte (a mod size); the harness observes it. *)
From Sonic Require Import Base.Prelude Gen.Mirrored Model.MirrorMem Proofs.MirrorProofs.
Local Open Scope Z_scope.

(* The constructor accepts exactly the positive sizes and rounds up to the next page multiple (any page size). *)
Theorem C11_constructor_size : forall page req b,
  0 < page -> MirroredBuffer_new page req = Some b ->
  minv b /\ MirroredBuffer_used b = 0 /\ 0 < req /\
  MirroredBuffer_size b mod page = 0 /\ req <= MirroredBuffer_size b < req + page.
Proof. exact new_spec. Qed.
Print Assumptions C11_constructor_size.

Theorem C11_constructor_rejects_nonpositive : forall page req,
  0 < page -> MirroredBuffer_new page req = None <-> req <= 0.
Proof. exact new_rejects. Qed.
Print Assumptions C11_constructor_rejects_nonpositive.

(* For every accepted size (power of two or not) and every history with non-negative amounts: no panic, the
   invariant (cursors inside the ring, tail = head + used modulo size) holds, Size() never changes. *)
Theorem C11_inv_reachable : forall page req b ops,
  0 < page -> MirroredBuffer_new page req = Some b -> Forall mnonneg ops ->
  exists s, mrun (minit b) ops = Ok s /\ minv (mcur s) /\ MirroredBuffer_size (mcur s) = MirroredBuffer_size b.
Proof. exact reachable. Qed.
Print Assumptions C11_inv_reachable.

Theorem C11_used_plus_free : forall c,
  MirroredBuffer_UsedSpace c + MirroredBuffer_FreeSpace c = MirroredBuffer_Size c.
Proof. exact used_plus_free. Qed.
Print Assumptions C11_used_plus_free.

(* A claim is one contiguous slice of min(n, free) bytes starting at the tail, inside the 2*size mapping. *)
Theorem C11_claim_contiguous : forall c n c' r,
  minv c -> 0 <= n -> MirroredBuffer_Claim c n = Ok (c', r) ->
  c' = c /\
  match r with
  | None => Z.min n (MirroredBuffer_FreeSpace c) = 0
  | Some x => soff x = MirroredBuffer_tail c /\ slen x = Z.min n (MirroredBuffer_FreeSpace c) /\ 0 < slen x /\
              0 <= soff x /\ soff x + slen x <= 2 * MirroredBuffer_Size c
  end.
Proof. exact claim_spec. Qed.
Print Assumptions C11_claim_contiguous.

(* Successive commits occupy consecutive ring positions modulo Size(). *)
Theorem C11_commit_consecutive : forall c n c' k,
  minv c -> 0 <= n -> MirroredBuffer_Commit c n = Ok (c', k) ->
  k = Z.min n (MirroredBuffer_FreeSpace c) /\ minv c' /\
  MirroredBuffer_size c' = MirroredBuffer_size c /\
  MirroredBuffer_head c' = MirroredBuffer_head c /\
  MirroredBuffer_used c' = MirroredBuffer_used c + k /\
  MirroredBuffer_tail c' = (MirroredBuffer_tail c + k) mod MirroredBuffer_size c.
Proof. exact commit_spec. Qed.
Print Assumptions C11_commit_consecutive.

(* Consuming frees exactly the oldest min(n, used) bytes. *)
Theorem C11_consume_oldest : forall c n c' k,
  minv c -> 0 <= n -> MirroredBuffer_Consume c n = Ok (c', k) ->
  k = Z.min n (MirroredBuffer_UsedSpace c) /\ minv c' /\
  MirroredBuffer_size c' = MirroredBuffer_size c /\
  MirroredBuffer_tail c' = MirroredBuffer_tail c /\
  MirroredBuffer_used c' = MirroredBuffer_used c - k /\
  MirroredBuffer_head c' = (MirroredBuffer_head c + k) mod MirroredBuffer_size c.
Proof. exact consume_spec. Qed.
Print Assumptions C11_consume_oldest.

(* No byte a claim can cover (ring positions tail .. tail+free-1) is the position of a queued byte
   (head .. head+used-1), in every reachable state of every accepted size. *)
Theorem C11_no_alias : forall c i j,
  minv c -> 0 <= i < MirroredBuffer_FreeSpace c -> 0 <= j < MirroredBuffer_UsedSpace c ->
  (MirroredBuffer_tail c + i) mod MirroredBuffer_size c <> (MirroredBuffer_head c + j) mod MirroredBuffer_size c.
Proof. exact no_alias. Qed.
Print Assumptions C11_no_alias.

(* Non-vacuity: a 3-page (non-power-of-two) buffer; the former defect witness now claims the second page. *)
Example C11_three_pages :
  match MirroredBuffer_new 4096 12288 with
  | Some b =>
      match mrun (minit b) [MClaim 4096; MCommit 4096; MClaim 4096; MCommit 4096; MConsume 4096; MClaim 8192; MCommit 8192] with
      | Ok s => MirroredBuffer_tail (mcur s) = 4096 /\ MirroredBuffer_head (mcur s) = 4096 /\
                MirroredBuffer_used (mcur s) = 12288 /\ mlive s = None
      | Panic => False
      end
  | None => False
  end.
Proof. vm_compute. auto. Qed.
