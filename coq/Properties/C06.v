From Sonic Require Import Base.Prelude Model.WsStream.
Theorem C06_placeholder : True. Proof. exact I. Qed.
Print Assumptions C06_placeholder.
