(* C06 -- message delivery fidelity under fragmentation / segmentation. *)
From Sonic Require Import Base.Prelude Base.ListLemmas Gen.Consts Gen.Preds Model.WsFrame Spec.FrameParser Model.WsCodec Model.Transport
  Model.WsStream Proofs.WsCodecProofs Proofs.WsStreamProofs Proofs.WsMessageProofs.
Local Open Scope Z_scope.

(* ReadNext / AsyncReadNext with the frame codec, over ANY segmentation of the inbound bytes by the transport (chunks of
   any size, cuts inside headers, would-block between them, EOF, errors - and bytes already sitting in the read buffer,
   e.g. left over from the handshake response): a frame is delivered iff it is, byte for byte, the next frame of the
   stream; otherwise no byte of the stream is lost.  By induction over the transport's event queue. *)
Theorem C06_frames_are_the_stream : forall fuel c t async c' t' r,
  cinv c -> bytes (unread c) -> wevs_ok (tr_in t) -> (length (tr_in t) < fuel)%nat ->
  ws_read_loop fuel c t async = (c', t', r) ->
  cinv c' /\ bytes (unread c') /\ wevs_ok (tr_in t') /\ c_max c' = c_max c /\
  match r with
  | RdFrame f => parse1 (c_max c) (wstream c t) = PFrame f (wstream c' t')
  | _ => wstream c' t' = wstream c t
  end.
Proof. exact ws_read_loop_spec. Qed.
Print Assumptions C06_frames_are_the_stream.

(* The blocking and the asynchronous read path deliver the same frame from the same bytes. *)
Theorem C06_blocking_and_async_agree : forall fuel c t c' t' f,
  ws_read_loop fuel c t false = (c', t', RdFrame f) -> ws_read_loop fuel c t true = (c', t', RdFrame f).
Proof. exact read_loop_api_agree. Qed.
Print Assumptions C06_blocking_and_async_agree.

(* Message reassembly, one frame at a time (NextMessage and asyncNextMessage share msg_frame): control frames go to the
   control callback and leave the message untouched; a data frame's payload is appended in order (the reported length is
   the accumulated payload length), the type is the first frame's opcode, FIN ends the message. *)
Theorem C06_control_between_fragments : forall async s buflen acc cont mtype f,
  Opcode_IsControl (opcode_of f) = true ->
  msg_frame async s buflen acc cont mtype f eNone = (s, MMore acc cont mtype [ECtl (opcode_of f) (payload_of f)]).
Proof.
  intros. unfold msg_frame. change (negb (eNone =? eNone)) with false. cbv iota. rewrite H. reflexivity.
Qed.
Print Assumptions C06_control_between_fragments.

Theorem C06_fragment_appended_in_order : forall async s buflen acc cont mtype f,
  Opcode_IsControl (opcode_of f) = false ->
  zlen acc + zlen (payload_of f) <= buflen -> zlen acc + zlen (payload_of f) <= w_max s ->
  payload_length f = zlen (payload_of f) ->
  (cont = false -> Opcode_IsContinuation (opcode_of f) = false) ->
  (cont = true -> Opcode_IsContinuation (opcode_of f) = true) ->
  let mt := if mtype =? ws_TypeNone then opcode_of f else mtype in
  let acc' := acc ++ payload_of f in
  msg_frame async s buflen acc cont mtype f eNone =
    (s, if is_fin f then MDone [EMsg mt (zlen acc') acc' eNone] else MMore acc' true mt []).
Proof.
  intros async s buflen acc cont mtype f Hc Hfit Hmax Hpl Hc0 Hc1 mt acc'.
  pose proof (zlen_nonneg acc). pose proof (zlen_nonneg (payload_of f)).
  unfold msg_frame. change (negb (eNone =? eNone)) with false. cbv iota. rewrite Hc. fold mt.
  assert (Hcp : copy_into buflen acc (payload_of f) = acc') by (unfold copy_into, acc'; rewrite ztake_all by lia; reflexivity).
  rewrite Hcp.
  assert (Hl : zlen acc' = zlen acc + zlen (payload_of f)) by (unfold acc'; apply zlen_app).
  replace ((zlen acc' >? w_max s) || negb (zlen acc' - zlen acc =? payload_length f)) with false by lia.
  destruct cont.
  - rewrite (Hc1 eq_refl). cbn [negb]. change (negb (eNone =? eNone)) with false. cbn [orb].
    destruct (is_fin f); reflexivity.
  - rewrite (Hc0 eq_refl). cbn [negb]. change (negb (eNone =? eNone)) with false. cbn [orb].
    destruct (is_fin f); reflexivity.
Qed.
Print Assumptions C06_fragment_appended_in_order.

(* Non-vacuity: a text message in three fragments with a ping between them, delivered in awkward pieces, read with the
   blocking and the asynchronous message API; both deliver (text, "hello!") once, and the ping is answered. *)
Definition bytes_in : list Z := [1; 2; 104; 101] ++ [137; 1; 9] ++ [0; 3; 108; 108; 111] ++ [128; 1; 33].
Example C06_demo :
  let run api := snd (fold_left (fun '(s, out) o => let '(s', evs) := wsstep s o in (s', out ++ evs))
                        [WIn (InData (ztake 3 bytes_in)); api; WIn (InData (zsub 3 8 bytes_in)); WIn (InData (zdrop 8 bytes_in)); api]
                        (ws_init 1024 [[1;2;3;4]], [])) in
  run (WNextMessage 64) = [EMsg 255 0 [] eWouldBlock; ECtl 9 [9]; EMsg 1 6 [104;101;108;108;111;33] eNone] /\
  run (WAsyncNextMessage 64) = [EPending; ECtl 9 [9]; EMsg 1 6 [104;101;108;108;111;33] eNone; EPending].
Proof. vm_compute. split; reflexivity. Qed.

(* ---- whole messages.  [pseq max fs T R]: parsing the frames fs one after the other from the byte string T leaves R
   (Spec/FrameParser.v).  [frag_seq false fs]: fs is one conforming message - a non-continuation data frame, then
   continuation frames, FIN exactly on the last one, valid Ping/Pong frames anywhere between.  [St s]: a stream that can
   read, on a healthy transport whose inbound queue holds data only. *)

(* NextMessage / AsyncNextMessage when the message's bytes have arrived, in pieces of any size: the control callbacks in
   order, then exactly one message - the concatenation of the fragments' payloads, the first fragment's type, no error;
   the stream is positioned right behind the final fragment. *)
Theorem C06_whole_message : forall (async : bool) s buflen fs R s' evs,
  St s -> pseq (c_max (w_codec s)) fs (sstream s) R -> frag_seq false fs = true ->
  zlen (msg_payload fs) <= buflen -> zlen (msg_payload fs) <= w_max s ->
  wsstep s (if async then WAsyncNextMessage buflen else WNextMessage buflen) = (s', evs) ->
  evs = msg_ctl fs ++ [EMsg (msg_type ws_TypeNone fs) (zlen (msg_payload fs)) (msg_payload fs) eNone] /\
  St s' /\ sstream s' = R /\ w_state s' = w_state s.
Proof. exact message_any_segmentation. Qed.
Print Assumptions C06_whole_message.

(* AsyncNextMessage issued first, then the bytes arrive in ANY pieces with the read parked in between (cuts inside
   headers, between fragments, several frames per piece, pieces that complete nothing): the same single message. *)
Theorem C06_async_message_any_segmentation : forall chunks s buflen fs R s' evs,
  St s -> w_rpend s = None -> Forall bytes chunks ->
  pseq (c_max (w_codec s)) fs (sstream s ++ concat chunks) R -> frag_seq false fs = true ->
  zlen (msg_payload fs) <= buflen -> zlen (msg_payload fs) <= w_max s ->
  wsrun_ev s (WAsyncNextMessage buflen :: arrivals chunks) = (s', evs) ->
  npend evs = msg_ctl fs ++ [EMsg (msg_type ws_TypeNone fs) (zlen (msg_payload fs)) (msg_payload fs) eNone] /\
  St s' /\ sstream s' = R /\ w_rpend s' = None /\ w_state s' = w_state s.
Proof. exact async_message_any_segmentation. Qed.
Print Assumptions C06_async_message_any_segmentation.

(* Non-vacuity: the premises hold for the fragmented "hello!" with a Ping inside, delivered to a fresh stream in three
   awkward pieces, and the conclusion is the concrete message. *)
Definition demo_frames : list (list Z) := [[1; 2; 104; 101]; [137; 1; 9]; [0; 3; 108; 108; 111]; [128; 1; 33]].
Example C06_whole_message_premises :
  let s := ws_init 1024 [[1;2;3;4]] in
  let chunks := [ztake 3 bytes_in; zsub 3 8 bytes_in; zdrop 8 bytes_in] in
  St s /\ w_rpend s = None /\ Forall bytes chunks /\
  pseq (c_max (w_codec s)) demo_frames (sstream s ++ concat chunks) [] /\ frag_seq false demo_frames = true /\
  msg_ctl demo_frames = [ECtl 9 [9]] /\ msg_payload demo_frames = [104;101;108;108;111;33] /\
  msg_type ws_TypeNone demo_frames = 1.
Proof.
  cbv zeta. destruct (St_init 1024 [[1;2;3;4]] ltac:(unfold WsFrame.two63; lia)) as (A & B & C).
  split; [exact A|]. split; [exact B|]. split.
  - repeat constructor; unfold is_byte; lia.
  - split; [|vm_compute; repeat split; reflexivity].
    rewrite C. repeat (econstructor; [vm_compute; reflexivity|]). constructor.
Qed.
