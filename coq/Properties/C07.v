(* C07 -- the WebSocket frame decoder is total, bounded and stays in sync.
   Model/WsCodec.v mirrors FrameCodec.Decode/resetDecode of /repo/codec/websocket/frame_codec.go over the three-FIFO view
   of the ByteBuffer (which the ByteBuffer model provably refines, C09); frame accessors (Model/WsFrame.v) mirror frame.go
   with the masks of the regenerated Gen/Consts.v.  Spec/FrameParser.v is the pure arithmetic RFC 6455 parser and,
   extracted, the oracle that judges the implementation. *)
From Sonic Require Import Base.Prelude Spec.ThreeFifo Model.WsFrame Spec.FrameParser Model.WsCodec Proofs.WsCodecProofs.
Local Open Scope Z_scope.

(* For EVERY byte string held unread by the decoder (adversarial ones included): Decode returns exactly what the pure
   parser says - the next frame's exact bytes, "need more", or "too big" - never panics, consumes exactly the frame. *)
Theorem C07_decode_is_parse1 : forall c c' r,
  cinv c -> bytes (unread c) -> decode c = (c', r) ->
  cinv c' /\ c_max c' = c_max c /\
  match parse1 (c_max c) (unread c) with
  | PNeedMore => r = DNeedMore /\ unread c' = unread c
  | PTooBig => r = DTooBig /\ unread c' = unread c
  | PFrame raw rest => r = DFrame raw /\ unread c' = rest
  end.
Proof. exact decode_spec. Qed.
Print Assumptions C07_decode_is_parse1.

Theorem C07_total_never_panics : forall c c' r,
  cinv c -> bytes (unread c) -> decode c = (c', r) -> r <> DPanic.
Proof. exact decode_never_panics. Qed.
Print Assumptions C07_total_never_panics.

(* A yielded frame never exceeds the configured maximum (64-bit lengths with the top bit set included: sp_plen is the
   unsigned value), and is exactly the prefix of the stream. *)
Theorem C07_bounded : forall max V raw rest,
  bytes V -> 0 <= max -> parse1 max V = PFrame raw rest ->
  sp_plen V <= max /\ zlen raw = sp_total V /\ zlen raw <= max + 14 /\ raw ++ rest = V.
Proof. exact parse1_bounded. Qed.
Print Assumptions C07_bounded.

(* Any interleaving of feeds (with arbitrary split points) and decodes delivers exactly the frames the pure parser finds
   one after the other in the concatenation of all fed bytes: independent of the splitting, never out of sync. *)
Theorem C07_split_independent_in_sync : forall ops c,
  cinv c -> bytes (unread c) -> feeds_ok ops ->
  let '(c', fs) := crun c ops in
  cinv c' /\ bytes (unread c') /\ c_max c' = c_max c /\ pseq (c_max c) fs (unread c ++ fed ops) (unread c').
Proof. exact session_sync. Qed.
Print Assumptions C07_split_independent_in_sync.

(* Decoding what the encoder writes (header + shortest length form + key + masked payload) returns the identical
   frame, for every FIN/RSV/opcode/mask combination and every payload length up to the maximum. *)
Theorem C07_roundtrip : forall max fin rsv op masked key payload rest,
  0 <= rsv < 8 -> zlen payload <= max -> max < WsFrame.two63 -> (masked = true -> zlen key = 4) ->
  let F := build_frame fin rsv op masked key payload in
  parse1 max (F ++ rest) = PFrame F rest.
Proof. exact roundtrip. Qed.
Print Assumptions C07_roundtrip.

(* Non-vacuity: a two-frame stream fed in three pieces with decodes in between; and the former defect witness. *)
Example C07_demo :
  let ops := [CFeed [130; 126; 0]; CDecode; CFeed [126]; CDecode; CFeed (repeat 7 126 ++ [129; 1]); CDecode; CDecode; CFeed [65]; CDecode] in
  feeds_ok ops /\ cinv (codec_init 1024) /\
  snd (crun (codec_init 1024) ops) = [[130; 126; 0; 126] ++ repeat 7 126; [129; 1; 65]].
Proof.
  split; [|split].
  - repeat constructor; unfold is_byte; try lia. all: apply Forall_forall; intros x Hx; apply repeat_spec in Hx; subst; unfold is_byte; lia.
  - unfold cinv; cbn. split; [discriminate|unfold WsFrame.two63; lia].
  - vm_compute. reflexivity.
Qed.

Example C07_top_bit_rejected :
  snd (decode (feed (codec_init 1024) [130; 127; 255; 255; 255; 255; 255; 255; 255; 255; 1; 2])) = DTooBig.
Proof. vm_compute. reflexivity. Qed.
