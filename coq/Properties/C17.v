From Sonic Require Import Base.Prelude Model.WsAsync.
Theorem C17_placeholder : True. Proof. exact I. Qed.
Print Assumptions C17_placeholder.
