(* C17 -- a WebSocket read and write in flight together.
   Model/WsAsync.v is a focused model of the layers whose interplay decides the property: the AsyncAdapter's single write
   reactor (every write is first deferred to the poller; AsyncWriteAll (re)initialises the reactor), CodecConn/ByteBuffer
   asynchronous write (encode into dst, write all of dst, consume), the Stream's asynchronous flush chain with the callers
   waiting for a flush in flight, AsyncWrite, and the read path AsyncNextMessage -> AsyncNextFrame -> AsyncFlush ->
   asyncNextFrame with the Pong a Ping queues.  Peer events, application calls and polls come in any order; a poll
   accepts any number of bytes per write call (partial writes).  Frames are opaque byte strings here (C16), message
   reassembly and the close handshake are C06/C08.
   PARTIAL: frames are opaque and only the Active / ClosedByUs part of the stream state is in this model; fuel exhaustion
   of the model is reported by the run. *)
From Sonic Require Import Base.Prelude Model.WsAsync Proofs.WsAsyncProofs Proofs.WsAsyncRead.
Local Open Scope Z_scope.

Theorem C17_invariant_every_step : forall s o, cinv [] s -> cinv [] (wastep s o).
Proof. exact wastep_inv. Qed.
Print Assumptions C17_invariant_every_step.

(* Every history: the bytes on the wire are a prefix of the frames in the order they were queued (never interleaved,
   never repeated, whatever the partial writes); every completion registered with a flush - the continuation of a read,
   or the callback of AsyncWrite / AsyncWriteFrame / AsyncFlush / AsyncClose - has run exactly once or is still held by
   the flush in flight: none dropped, none twice. *)
Theorem C17_wire_in_order_and_callbacks_exactly_once : forall ops,
  let s := warun (wa_init true) ops in
  (exists rest, a_all s = a_wire s ++ rest) /\
  (forall k, cnt k (a_fstart s) = cnt k (a_fdone s) + cnt k (outstanding s)).
Proof. exact wire_prefix_and_callbacks_exact. Qed.
Print Assumptions C17_wire_in_order_and_callbacks_exactly_once.

(* A read in flight is never lost: for every history, while an AsyncNextMessage is in flight either the adapter's read reactor
   is registered with the poller, or the read's continuation is held by the flush in flight (as its completion or as a waiter)
   - and by the theorem above that continuation runs exactly once when the flush completes.  Neither direction starves the
   other. *)
Theorem C17_read_in_flight_is_never_lost : forall ops,
  let s := warun (wa_init true) ops in
  a_fuel_out s = false -> a_rd s <> None -> a_rwait s = true \/ 0 < cnt KRead (outstanding s).
Proof. exact read_in_flight_is_never_lost. Qed.
Print Assumptions C17_read_in_flight_is_never_lost.

(* The structure before the repair is refuted: the application write replaces the Pong flush in the adapter and the
   continuation of the read is lost for good. *)
Theorem C17_unserialised_flush_refuted :
  let s := warun (wa_init false)
             [WaRead 1 70000; WaPeer 9 [7]; WaPoll 1000; WaWrite 100 [1; 2; 3]; WaPoll 1000; WaPoll 1000; WaPoll 1000;
              WaPeer 1 [65]; WaPoll 1000; WaPoll 1000; WaPoll 1000] in
  a_rd s = Some (1, 70000) /\ a_rwait s = false /\ outstanding s = [] /\ a_wr s = None /\ a_inq s = [(1, [65])] /\
  map (fun e => fst (fst e)) (a_log s) = [100].
Proof. exact unserialised_flush_drops_the_read. Qed.
Print Assumptions C17_unserialised_flush_refuted.

(* Non-vacuity: the same script on the repaired structure, with the transport taking 2 bytes per write call: both callbacks
   run, the message is delivered, the wire carries the Pong then the application frame. *)
Example C17_demo :
  let s := warun (wa_init true)
             [WaRead 1 70000; WaPeer 9 [7]; WaPoll 2; WaWrite 100 [1; 2; 3]; WaPoll 2; WaPoll 2; WaPoll 2; WaPoll 2; WaPoll 2; WaPoll 2;
              WaPeer 1 [65]; WaPoll 2; WaPoll 2] in
  rev (a_log s) = [(100, 0, []); (1, 1, [65])] /\ a_wire s = [138; 1; 7; 130; 3; 1; 2; 3] /\ a_rd s = None /\ a_fuel_out s = false.
Proof. vm_compute. repeat split; reflexivity. Qed.

(* Non-vacuity of the never-lost theorem: while the Pong a Ping triggered is still being written (2 of its 3 bytes taken), the
   read is in flight, the read reactor is not armed, and the read's continuation is the completion of the flush in flight. *)
Example C17_read_waits_for_the_pong_flush :
  let s := warun (wa_init true) [WaRead 1 70000; WaPeer 9 [7]; WaPoll 2] in
  a_rd s = Some (1, 70000) /\ a_rwait s = false /\ outstanding s = [KRead] /\ a_fuel_out s = false /\ cnt KRead (outstanding s) = 1.
Proof. vm_compute. repeat split; reflexivity. Qed.
