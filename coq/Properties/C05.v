(* C05 -- Post is thread-safe, exactly-once, ordered, wakes the loop and never deadlocks.
   Model/PostConc.v is a transition system for /repo/internal/poll_linux.go Post and dispatch with any number of posting
   goroutines, handlers that themselves post, the mutex, the eventfd counter and the atomic pending counter, one
   transition per statement that touches shared state.  A schedule is an arbitrary list of goroutine choices, so
   "for all schedules" is "for all interleavings".  The Go memory model is abstracted: each statement is atomic (the
   mutex and the atomics justify that for the repaired code; the race detector run of the harness checks it). *)
From Sonic Require Import Base.Prelude Model.PostConc Proofs.PostConcProofs.
Local Open Scope Z_scope.

(* The invariant holds in every state of every interleaving: the handlers appended so far are, in append order, the ones
   already run, then the batch being run, then the queue (FIFO, nothing lost, nothing twice); Pending() accounts exactly
   for the queued and the running handlers; the mutex has one holder; whenever something is queued either the eventfd
   counter is positive, or a poster is between its append and its eventfd write, or the loop has drained and not yet
   swapped (no lost wake-up). *)
Theorem C05_invariant_all_interleavings : forall todos nest sched, cinv (crun (cinit todos nest false) sched).
Proof. intros. apply crun_inv. apply cinv_init. Qed.
Print Assumptions C05_invariant_all_interleavings.

Theorem C05_step_preserves_invariant : forall s t s', cinv s -> tstep s t = Some s' -> cinv s'.
Proof. exact tstep_inv. Qed.
Print Assumptions C05_step_preserves_invariant.

(* Handlers posted by one goroutine are appended in the order it posted them (with the FIFO part of the invariant: they
   run in that order). *)
Theorem C05_per_goroutine_order : forall todos nest sched, ord_inv todos (crun (cinit todos nest false) sched).
Proof. intros. apply crun_ord. apply ord_init. Qed.
Print Assumptions C05_per_goroutine_order.

(* Deadlock freedom and wake-up: in every reachable state with work left some goroutine can take a step - Post never
   blocks for ever on the mutex (also from inside a handler), and the loop never sleeps in epoll_wait while a handler is
   queued and nobody is about to signal. *)
Theorem C05_no_deadlock_no_lost_wakeup : forall todos nest sched,
  let s := crun (cinit todos nest false) sched in ~ finished s -> exists t, tstep s t <> None.
Proof. intros. apply progress; [apply crun_inv; apply cinv_init|assumption]. Qed.
Print Assumptions C05_no_deadlock_no_lost_wakeup.

(* Exactly once: when nothing is left to do, every handler appended has run exactly once in append order, Pending() is
   zero, and goroutine i's handlers ran in its posting order. *)
Theorem C05_finished_exactly_once : forall todos nest sched,
  let s := crun (cinit todos nest false) sched in
  finished s ->
  c_exec s = c_enq s /\ c_pend s = 0 /\
  forall i p, nth_error (c_posters s) i = Some p -> nth_error todos i = Some (owned i (c_exec s)).
Proof.
  intros. apply finished_exactly_once; [apply crun_inv; apply cinv_init|apply crun_ord; apply ord_init|assumption].
Qed.
Print Assumptions C05_finished_exactly_once.

(* The structure the code had before the repair (handlers run under the mutex) is refuted: a reachable deadlock. *)
Theorem C05_locked_dispatch_refuted :
  exists sched, let s := crun (cinit [[1]] [(1, [2])] true) sched in
    c_batch s <> [] /\ tstep s TLoop = None /\ forall i, tstep s (TPoster i) = None.
Proof. exact locked_dispatch_deadlocks. Qed.
Print Assumptions C05_locked_dispatch_refuted.

(* Non-vacuity: two posters and a handler that posts, under an adversarial interleaving, run to completion. *)
Example C05_demo :
  let sched := [TPoster 0; TPoster 1; TPoster 0; TPoster 0; TPoster 1; TPoster 0; TLoop; TPoster 0; TLoop; TPoster 1; TLoop; TLoop;
                TPoster 1; TPoster 1; TLoop; TLoop; TLoop; TLoop; TLoop; TLoop; TLoop; TLoop; TLoop; TLoop; TLoop; TLoop; TLoop; TLoop;
                TLoop; TLoop; TLoop; TLoop; TLoop; TLoop; TLoop; TLoop; TLoop; TLoop; TLoop; TLoop; TPoster 1; TPoster 1;
                TLoop; TLoop; TLoop; TLoop; TLoop; TLoop; TLoop; TLoop; TLoop; TLoop; TLoop; TLoop; TLoop; TLoop; TLoop; TLoop]%nat in
  let s := crun (cinit [[1]; [2]] [(1, [3])] false) sched in
  map snd (c_exec s) = [1; 2; 3] /\ c_pend s = 0 /\ finished s.
Proof. vm_compute. repeat split; reflexivity. Qed.
