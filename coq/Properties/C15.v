From Sonic Require Import Base.Prelude Model.WsStream.
Theorem C15_placeholder : True. Proof. exact I. Qed.
Print Assumptions C15_placeholder.
