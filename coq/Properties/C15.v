(* C15 -- protocol violations are reported, never delivered as data. *)
From Sonic Require Import Base.Prelude Gen.Consts Gen.Preds Model.WsFrame Spec.FrameParser Model.Transport Model.WsStream Spec.WsSession
  Proofs.WsCodecProofs Proofs.WsStreamProofs.
Local Open Scope Z_scope.

(* A frame is reported as an error by handleFrame (used by every read API) iff it violates the framing rules; after a
   violation while Active the session is ClosedByUs with exactly one Close(1002) queued; in any other state nothing
   changes. *)
Theorem C15_framing_violation_reported : forall s f s' e,
  handle_frame s f = (s', e) ->
  (e <> eNone <-> mviolates f = true) /\
  (e <> eNone -> w_state s = ws_StateActive ->
     w_state s' = ws_StateClosedByUs /\
     exists key, w_log s' = w_log s ++ [(true, ws_OpcodeClose, close_payload ws_CloseProtocolError [], key)]) /\
  (e <> eNone -> w_state s <> ws_StateActive -> w_state s' = w_state s /\ w_log s' = w_log s).
Proof. exact violation_reported. Qed.
Print Assumptions C15_framing_violation_reported.

(* The model's bit tests are exactly the RFC 6455 rules stated arithmetically (reserved bits, masked frame from a server,
   reserved opcode, fragmented control frame, control frame above 125 bytes), for every byte string. *)
Theorem C15_violation_is_rfc_rule : forall f,
  bytes f -> 2 + sp_ext f <= zlen f -> sp_plen f < WsFrame.two63 -> mviolates f = violates f.
Proof. exact mviolates_is_rfc. Qed.
Print Assumptions C15_violation_is_rfc_rule.

(* After the violation application writes are refused. *)
Theorem C15_writes_refused_after_violation : forall s async mt payload,
  w_state s <> ws_StateActive -> zlen payload <= w_max s ->
  wsstep s (WWrite async mt payload) = (s, [EWrite eCancelled]).
Proof. exact write_refused_when_not_active. Qed.
Print Assumptions C15_writes_refused_after_violation.

(* The message-level API delivers nothing of a frame reported as an error. *)
Theorem C15_message_api_reports : forall async s buflen acc cont mtype f err,
  err <> eNone -> msg_frame async s buflen acc cont mtype f err = (s, MDone [EMsg mtype (zlen acc) acc err]).
Proof. exact message_api_reports_errors. Qed.
Print Assumptions C15_message_api_reports.

(* Fragmentation rules at the message level. *)
Theorem C15_fragmentation_rules : forall async s buflen acc cont mtype f,
  Opcode_IsControl (opcode_of f) = false ->
  zlen (copy_into buflen acc (payload_of f)) <= w_max s ->
  zlen (copy_into buflen acc (payload_of f)) - zlen acc = payload_length f ->
  let mt := if mtype =? ws_TypeNone then opcode_of f else mtype in
  let acc' := copy_into buflen acc (payload_of f) in
  (cont = false -> Opcode_IsContinuation (opcode_of f) = true ->
     msg_frame async s buflen acc cont mtype f eNone = (s, MDone [EMsg mt (zlen acc') acc' eUnexpectedContinuation])) /\
  (cont = true -> Opcode_IsContinuation (opcode_of f) = false ->
     msg_frame async s buflen acc cont mtype f eNone = (s, MDone [EMsg mt (zlen acc') acc' eExpectedContinuation])).
Proof. exact fragmentation_rules. Qed.
Print Assumptions C15_fragmentation_rules.

(* Frames above the configured maximum never reach handleFrame: the decoder rejects them (C07). *)
Theorem C15_oversized_rejected_by_decoder : forall max V raw rest,
  bytes V -> 0 <= max -> parse1 max V = PFrame raw rest -> sp_plen V <= max.
Proof. intros max V raw rest Hb Hm H. destruct (parse1_bounded max V raw rest Hb Hm H) as [A _]. exact A. Qed.
Print Assumptions C15_oversized_rejected_by_decoder.

Example C15_demo :
  let s0 := ws_init 1024 [[1;2;3;4]] in
  let '(s1, evs) := wsstep s0 (WIn (InData [193; 1; 65])) in      (* RSV1 set *)
  let '(s2, evs2) := wsstep s1 WNextFrame in
  evs2 = [EFrame [193; 1; 65] eReservedBits] /\ w_state s2 = ws_StateClosedByUs /\
  snd (wsstep s2 (WWrite false 1 [66])) = [EWrite eCancelled].
Proof. vm_compute. repeat split. Qed.
