(* C12 -- UDP datagram boundaries, addressing, multicast membership and the peer's reported settings.
   Model/Mcast.v: (a) the read/write paths of the multicast peer (socket.go RecvFrom/SendTo result mapping,
   multicast/peer.go AsyncRead/asyncReadNow/scheduleRead/SetAsyncReadBuffer/AsyncWrite) over a kernel receive queue of
   whole datagrams; (b) the peer's cached settings against the socket options, setters that may fail, the constructor as
   coded; (c) the kernel's membership store with IP_MULTICAST_ALL off - an environment model.
   PARTIAL: (c) and the queue semantics of (a) are models of the KERNEL, validated by the correspondence run on real
   sockets, not proved about it; packetConn (packet.go) has the same structure and is exercised by the loop tests only;
   IPv6 is not supported by the peer. *)
From Sonic Require Import Base.Prelude Model.Mcast Proofs.McastProofs.
Local Open Scope Z_scope.

(* Every history of arrivals, reads (inline or deferred), buffer re-designations, polls and writes: the datagrams that
   arrived are, in order, those consumed by the completed reads - one whole datagram per read callback - followed by the
   kernel queue. *)
Theorem C12_one_datagram_per_read_all_histories : forall ops, dinv (drun ds_init ops).
Proof. intros. apply drun_inv. apply dinv_init. Qed.
Print Assumptions C12_one_datagram_per_read_all_histories.

(* A read that completes delivers exactly the oldest queued datagram: its bytes truncated to the buffer - the one
   designated last for a deferred read -, its length and its sender. *)
Theorem C12_read_delivers_oldest_datagram_exactly : forall s o e,
  dlog (dstep s o) = e :: dlog s -> (exists cb err n src data, e = DRead cb err n src data) ->
  exists d rest buflen, q s = d :: rest /\ q (dstep s o) = rest /\ read_ok e d buflen /\
    (match o with DAsyncRead b _ => buflen = b | _ => buflen = rbuf s end).
Proof. exact read_completion_exact. Qed.
Print Assumptions C12_read_delivers_oldest_datagram_exactly.

Theorem C12_write_emits_one_datagram : forall s dst data,
  dlog (dstep s (DWrite dst data)) = DSent dst data :: dlog s /\ q (dstep s (DWrite dst data)) = q s.
Proof. exact write_one_datagram. Qed.
Print Assumptions C12_write_emits_one_datagram.

(* Settings: TTL() and All() equal the socket's after every history of setters, failed ones included; Loop() equals it
   from the first successful SetLoop on ... *)
Theorem C12_ttl_all_equal_kernel : forall ops k, k_ttl k = 1 -> ttl_all_ok (fold_left sstep ops (peer_new k)).
Proof. exact settings_ttl_all_exact. Qed.
Print Assumptions C12_ttl_all_equal_kernel.

Theorem C12_loop_equal_kernel_after_set : forall st v ops, loop_ok (fold_left sstep ops (sstep st (SSetLoop v true))).
Proof. exact settings_loop_exact_after_set. Qed.
Print Assumptions C12_loop_equal_kernel_after_set.

(* ... but NOT at construction: GetMulticastLoop reports the opposite of IP_MULTICAST_LOOP (known finding; the existing
   test TestUDPPeerIPv4_SetLoop1 asserts the wrong default, so it cannot be repaired without editing the suite). *)
Theorem C12_loop_at_construction_refuted : ~ loop_ok (peer_new k_default).
Proof. exact settings_loop_refuted_at_construction. Qed.
Print Assumptions C12_loop_at_construction_refuted.

(* Membership (environment model): a successful Join delivers the group's traffic from every source; blocking a source
   stops exactly that source; a source-specific join delivers exactly that source; calls on one group never affect another. *)
Theorem C12_join_delivers : forall l g src l', gstep l (GJoin g) = (l', 0) -> delivers l' g src = true.
Proof. exact join_then_delivers. Qed.
Print Assumptions C12_join_delivers.
Theorem C12_block_stops_source : forall l g s l', gstep l (GBlock g s) = (l', 0) -> delivers l' g s = false.
Proof. exact block_then_not_delivered. Qed.
Print Assumptions C12_block_stops_source.
Theorem C12_source_join_exact : forall l g s l',
  mfind g l = None -> gstep l (GJoinSource g s) = (l', 0) -> forall src, delivers l' g src = (src =? s).
Proof. exact joinsource_then_only_that_source. Qed.
Print Assumptions C12_source_join_exact.
(* the kernel's quirk (environment): a FAILED LeaveSource on an any-source membership switches it to a source-specific one
   without sources - delivery stops although the call reported an error (Linux ip_mc_source); observed on the real kernel
   by the correspondence run *)
Theorem C12_env_failed_leavesource_can_stop_delivery :
  let l := fst (gstep [] (GJoin 1)) in
  let r := gstep l (GLeaveSource 1 7) in
  snd r = 1 /\ delivers l 1 7 = true /\ delivers (fst r) 1 7 = false.
Proof. exact failed_leavesource_can_stop_delivery. Qed.
Print Assumptions C12_env_failed_leavesource_can_stop_delivery.
Theorem C12_other_groups_unaffected : forall l o l' c h src,
  gstep l o = (l', c) ->
  (match o with GJoin g | GLeave g | GJoinSource g _ | GLeaveSource g _ | GBlock g _ | GUnblock g _ => h <> g end) ->
  delivers l' h src = delivers l h src.
Proof. exact other_groups_unaffected. Qed.
Print Assumptions C12_other_groups_unaffected.

(* Non-vacuity: two datagrams queued, a 3-byte buffer truncates the first, the second is read by a deferred read into a
   buffer re-designated while pending. *)
Example C12_demo :
  let s := drun ds_init [DArrive (mkdg 1 [1;2;3;4;5]); DArrive (mkdg 2 [9]); DAsyncRead 3 10; DAsyncRead 8 11; DAsyncRead 8 12;
                         DSetBuf 2; DArrive (mkdg 1 [6;7;8]); DPoll] in
  rev (dlog s) = [DRead 10 0 3 1 [1;2;3]; DRead 11 0 1 2 [9]; DRead 12 0 2 1 [6;7]] /\ q s = [].
Proof. vm_compute. auto. Qed.
