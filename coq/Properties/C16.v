From Sonic Require Import Base.Prelude Model.WsStream.
Theorem C16_placeholder : True. Proof. exact I. Qed.
Print Assumptions C16_placeholder.
