(* C16 -- every frame the WebSocket client writes is well-formed and correctly masked. *)
From Sonic Require Import Base.Prelude Gen.Consts Model.WsFrame Spec.FrameParser Model.WsStream Model.Transport
  Proofs.WsCodecProofs Proofs.WsStreamProofs.
Local Open Scope Z_scope.

(* Every frame queued by the client (application messages of every size, caller-built frames with or without payload,
   automatic Pong and Close - all go through queue_frame), followed by any bytes, parses as exactly one frame: mask bit
   set, 4-byte key present, un-masking with it gives the submitted bytes, shortest length encoding, FIN/opcode as
   submitted, and it occupies exactly header + declared payload bytes (nothing trailing). *)
Theorem C16_queued_frame_wellformed : forall fin op p key rest,
  entry_ok (fin, op, p, key) ->
  let F := enc (fin, op, p, key) in
  parse1 (zlen p) (F ++ rest) = PFrame F rest /\
  sp_masked F = true /\ sp_plen F = zlen p /\ zlen F = sp_total F /\
  xor_mask (zsub (2 + sp_ext F) (2 + sp_ext F + 4) F) (zdrop (2 + sp_ext F + 4) F) = p /\
  nth 0 F 0 = (if fin then 128 else 0) + op mod 16 /\
  (if sp_l7 F =? 127 then 65535 <? sp_plen F else if sp_l7 F =? 126 then 125 <? sp_plen F else true) = true.
Proof. exact queued_frame_wellformed. Qed.
Print Assumptions C16_queued_frame_wellformed.

(* Frames reach the wire in submission order, each written completely before the next begins, for every history of
   writes/reads/closes and every partial-write behaviour of a healthy transport (partial accepts are looped over). *)
Theorem C16_wire_in_submission_order : forall ops s, Forall healthy_op ops -> wire_inv s -> wire_inv (wsrun s ops).
Proof. exact wire_is_log_prefix. Qed.
Print Assumptions C16_wire_in_submission_order.

(* After any flush on a healthy transport everything queued is on the wire and nothing is left in the buffer. *)
Theorem C16_flush_writes_everything : forall async s s' e,
  flush_gen async s = (s', e) -> wire_inv s ->
  wire_inv s' /\ e = eNone /\ w_pending s' = [] /\ w_state s' = w_state s /\ w_log s' = w_log s /\
  tr_wire (w_tr s') = concat (map wire_bytes (map enc (w_log s))) /\ w_codec s' = w_codec s /\ tr_in (w_tr s') = tr_in (w_tr s) /\
  w_rpend s' = w_rpend s /\ w_max s' = w_max s.
Proof. exact flush_gen_wire. Qed.
Print Assumptions C16_flush_writes_everything.

(* A message above the configured maximum is refused without writing or queueing anything. *)
Theorem C16_too_big_writes_nothing : forall s async mt payload,
  zlen payload > w_max s -> wsstep s (WWrite async mt payload) = (s, [EWrite eMessageTooBig]).
Proof. exact write_too_big_refused. Qed.
Print Assumptions C16_too_big_writes_nothing.

Theorem C16_unmask_is_involution : forall key b, xor_mask key (xor_mask key b) = b.
Proof. exact xor_mask_invol. Qed.
Print Assumptions C16_unmask_is_involution.

(* Non-vacuity: frames of several length classes, a payload-less caller-built ping, reuse after longer and shorter. *)
Definition demo_ops : list wsop :=
  [WWrite false 2 (repeat 7 126); WWriteFrame false true 9 None; WWrite true 1 [1;2]; WWriteFrame true true 10 (Some [3])].
Definition demo_final : ws := wsrun (ws_init 70000 [[1;2;3;4]; [5;6;7;8]; [9;10;11;12]; [13;14;15;16]]) demo_ops.
Example C16_demo :
  length (tr_wire (w_tr demo_final)) = ((2 + 2 + 4 + 126) + (2 + 4) + (2 + 4 + 2) + (2 + 4 + 1))%nat /\
  w_pending demo_final = [] /\
  map (fun e : entry => let '(_, _, p, key) := e in (length p, length key)) (w_log demo_final) = [(126, 4); (0, 4); (2, 4); (1, 4)]%nat.
Proof. vm_compute. repeat split. Qed.
