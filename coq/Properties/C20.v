(* C20 -- out-of-order slot retrieval addresses exactly the bytes saved.
   Model/Slots.v mirrors util/fenwick_tree.go, slot_offsetter.go, sequenced_slots.go and slot_sequencer.go and is composed
   with the ByteBuffer model (whose save-area behaviour is C09's refinement theorem) and the regenerated OffsetSlot.
   PARTIAL: the theorems below cover the sorted container (Push/Pop against a finite map, duplicates and the slot limit
   without disturbing stored entries), OffsetSlot, and the Fenwick tree: unit responses for every size <= 64 (kernel sweep) and,
   through linearity of Add and SumUntil in the stored array, the prefix-sum contract for every history of in-range Adds
   with arbitrary deltas on those sizes.  The
   end-to-end statement "the slot popped for a number addresses the bytes saved under it, whatever was discarded before"
   is carried for all explored histories by the correspondence run and the extracted ParkedMap oracle; its Coq proof
   (virtual-coordinate invariant + the Fenwick index walk for sizes above 64) is not done. *)
From Sonic Require Import Base.Prelude Gen.Slot Model.Slots Proofs.SlotsProofs Proofs.FenwickLinear.
Local Open Scope Z_scope.

Theorem C20_container_push : forall maxSlots l seq slot l' ok err,
  ssorted l -> ss_push maxSlots l seq slot = (l', ok, err) ->
  ssorted l' /\
  match ss_find l seq with
  | Some _ => l' = l /\ ok = false /\ err = false
  | None =>
      if zlen l >=? maxSlots then l' = l /\ ok = false /\ err = true
      else ok = true /\ err = false /\ zlen l' = zlen l + 1 /\ ss_find l' seq = Some slot /\
           forall x, x <> seq -> ss_find l' x = ss_find l x
  end.
Proof. exact ss_push_spec. Qed.
Print Assumptions C20_container_push.

Theorem C20_container_pop : forall l seq l' r,
  ssorted l -> ss_pop l seq = (l', r) ->
  ssorted l' /\ r = ss_find l seq /\
  match r with
  | Some _ => ss_find l' seq = None /\ (forall x, x <> seq -> ss_find l' x = ss_find l x) /\ zlen l' = zlen l - 1
  | None => l' = l
  end.
Proof. exact ss_pop_spec. Qed.
Print Assumptions C20_container_pop.

Theorem C20_offset_slot : forall offset slot,
  0 <= offset <= Slot_Index slot ->
  OffsetSlot offset slot = mkSlot (Slot_Index slot - offset) (Slot_Length slot).
Proof. exact offset_slot_spec. Qed.
Print Assumptions C20_offset_slot.

Theorem C20_fenwick_unit_response_partial : forall n i q,
  0 <= n <= 64 -> 0 <= i < n -> 0 <= q < n -> fw_unit_ok n i q = true.
Proof. exact fw_unit_response. Qed.
Print Assumptions C20_fenwick_unit_response_partial.

(* Every history of in-range Adds with arbitrary deltas, every tree size up to 64: nothing panics, and SumUntil q is
   the sum of the deltas added at indices <= q.  (_partial: the size bound comes from the unit-response sweep; the
   linearity argument itself has no bound.) *)
Theorem C20_fenwick_prefix_sums_partial : forall n adds,
  0 <= n <= 64 -> Forall (fun p => 0 <= fst p < n) adds ->
  exists d, fw_adds (fw_new n) adds = Ok d /\ length d = Z.to_nat n /\
            forall q, 0 <= q < n -> fw_sum_until d q = Ok (prefix_of adds q).
Proof. exact fw_prefix_sums. Qed.
Print Assumptions C20_fenwick_prefix_sums_partial.

Example C20_fenwick_history_demo :
  match fw_adds (fw_new 10) [(3, 5); (0, -2); (9, 7); (3, 1); (6, 100)] with
  | Ok d => map (fun q => fw_sum_until d q) [0; 2; 3; 5; 6; 9]
  | Panic => []
  end = [Ok (-2); Ok (-2); Ok 4; Ok 4; Ok 104; Ok 111]
  /\ map (prefix_of [(3, 5); (0, -2); (9, 7); (3, 1); (6, 100)]) [0; 2; 3; 5; 6; 9] = [-2; -2; 4; 4; 104; 111].
Proof. vm_compute. split; reflexivity. Qed.

(* Non-vacuity: five packets parked out of order and popped in another order; every pop returns the bytes saved under
   its number and the save area ends empty. *)
Definition park (seq : Z) (p : list Z) : sqop := SPark seq p 512.
Fixpoint sqrun (s : sq) (ops : list sqop) : list sqret :=
  match ops with
  | [] => []
  | o :: rest => match sqstep s o with Ok (s', r) => r :: sqrun s' rest | Panic => [] end
  end.
Example C20_demo :
  sqrun (sq_init 10 1024)
    [park 2 [21;22;23;24]; park 1 [11;12]; park 4 [41]; park 3 [31;32;33]; SPop 3; SPop 1; park 1 [13]; SPop 4; SPop 2; SPop 1]
  = [SRPush true false; SRPush true false; SRPush true false; SRPush true false;
     SRPop true [31;32;33]; SRPop true [11;12]; SRPush true false; SRPop true [41]; SRPop true [21;22;23;24]; SRPop true [13]].
Proof. vm_compute. reflexivity. Qed.
