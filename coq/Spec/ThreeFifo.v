(* C09 abstract specification: three adjacent FIFO regions plus the room left for writing. *)
From Sonic Require Import Base.Prelude Model.ByteBuffer.
Local Open Scope Z_scope.

Record tf : Type := mktf { t_saved : list Z; t_read : list Z; t_pend : list Z; t_room : Z }.

Definition tf_init : tf := mktf [] [] [] 512.

Definition clamp (n lo hi : Z) : Z := Z.max lo (Z.min n hi).

Inductive tret : Type :=
| TAny                        (* the property does not constrain the result (invalid argument: must only not panic) *)
| TNone
| TInt (n : Z)
| TSlot (i l : Z)
| TBytes (l : list Z)
| TCountErr (n : Z) (failed : bool)   (* count; whether an error must be reported (only for reader/writer errors) *)
| TByte (b : option Z).               (* Some b: byte b with no error; None: an error must be reported *)

Definition tvalid (s : tf) (i l : Z) : bool := (0 <=? i) && (0 <=? l) && (i + l <=? zlen (t_saved s)).

Fixpoint twrite_loop (avail : Z) (res : list (Z * bool)) (written : Z) (fuel : nat) {struct fuel} : Z * bool :=
  match fuel with
  | O => (written, true)
  | S f =>
      if written <? avail then
        match res with
        | [] => (written, true)
        | (n, failed) :: rest => if failed then (written, true) else twrite_loop avail rest (written + n) f
        end
      else (written, false)
  end.

(* newroom: the observed Reserved() after the call, used only where growth is environment-determined *)
Definition tfstep (s : tf) (o : bbop) (newroom : Z) : tf * tret :=
  match o with
  | OReserve n _ =>
      (mktf (t_saved s) (t_read s) (t_pend s) (if n >? t_room s then newroom else t_room s), TNone)
  | OCommit n =>
      let k := clamp n 0 (zlen (t_pend s)) in
      (mktf (t_saved s) (t_read s ++ ztake k (t_pend s)) (zdrop k (t_pend s)) (t_room s), TNone)
  | OConsume n =>
      let k := clamp n 0 (zlen (t_read s)) in
      (mktf (t_saved s) (zdrop k (t_read s)) (t_pend s) (t_room s + k), TNone)
  | OSave n =>
      let k := clamp n 0 (zlen (t_read s)) in
      (mktf (t_saved s ++ ztake k (t_read s)) (zdrop k (t_read s)) (t_pend s) (t_room s),
       if 0 <? k then TSlot (zlen (t_saved s)) k else TSlot 0 0)
  | OSavedSlot i l =>
      (s, if tvalid s i l then TBytes (zsub i (i + l) (t_saved s)) else TAny)
  | ODiscard i l =>
      if tvalid s i l && (0 <? l) then
        (mktf (ztake i (t_saved s) ++ zdrop (i + l) (t_saved s)) (t_read s) (t_pend s) (t_room s + l), TInt l)
      else (s, if tvalid s i l then TInt 0 else TAny)
  | ODiscardAll => (mktf [] (t_read s) (t_pend s) (t_room s + zlen (t_saved s)), TNone)
  | OReset => (mktf [] [] [] (t_room s + zlen (t_saved s) + zlen (t_read s) + zlen (t_pend s)), TNone)
  | ORead m =>
      let k := clamp m 0 (zlen (t_read s)) in
      (mktf (t_saved s) (zdrop k (t_read s)) (t_pend s) (t_room s + k), TBytes (ztake k (t_read s)))
  | OReadByte =>
      match t_read s with
      | [] => (s, TByte None)
      | b :: r => (mktf (t_saved s) r (t_pend s) (t_room s + 1), TByte (Some b))
      end
  | OReadFrom w n err =>
      let n := Z.max 0 (Z.min n (Z.min (zlen w) (t_room s))) in
      if err then (s, TCountErr n true)
      else (mktf (t_saved s) (t_read s) (t_pend s ++ ztake n w) (t_room s - n), TCountErr n false)
  | OUnreadByte =>
      if 0 <? zlen (t_pend s) then
        (mktf (t_saved s) (t_read s) (ztake (zlen (t_pend s) - 1) (t_pend s)) (t_room s + 1), TAny)
      else (s, TAny)
  | OWrite w _ =>
      (mktf (t_saved s) (t_read s) (t_pend s ++ w) (if zlen w <=? t_room s then t_room s - zlen w else newroom),
       TCountErr (zlen w) false)
  | OWriteTo res =>
      let '(written, failed) := twrite_loop (zlen (t_read s)) res 0 (S (length res)) in
      let k := clamp written 0 (zlen (t_read s)) in
      (mktf (t_saved s) (zdrop k (t_read s)) (t_pend s) (t_room s + k), TCountErr written failed)
  | OAsyncWriteTo n err =>
      if err then (s, TCountErr n true)
      else let k := clamp n 0 (zlen (t_read s)) in
           (mktf (t_saved s) (zdrop k (t_read s)) (t_pend s) (t_room s + k), TCountErr n false)
  | OPrepareRead n =>
      let need := n - zlen (t_read s) in
      if (0 <? need) && (need <=? zlen (t_pend s)) then
        (mktf (t_saved s) (t_read s ++ ztake need (t_pend s)) (zdrop need (t_pend s)) (t_room s), TInt 0)
      else if 0 <? need then (s, TInt 2)
      else (s, if n <? 0 then TAny else TInt 0)     (* a negative request is ignored; its result is not constrained *)
  | OClaim w n =>
      if (0 <=? n) && (n <=? t_room s) then
        (mktf (t_saved s) (t_read s) (t_pend s ++ ztake n w) (t_room s - n), TNone)
      else (s, TNone)
  | OClaimFixed n w =>
      if (0 <=? n) && (n <=? t_room s) then
        (mktf (t_saved s) (t_read s) (t_pend s ++ ztake n w) (t_room s - n), TInt n)
      else (s, TInt 0)
  | OShrinkBy n =>
      let k := clamp n 0 (zlen (t_pend s)) in
      (mktf (t_saved s) (t_read s) (ztake (zlen (t_pend s) - k) (t_pend s)) (t_room s + k), TInt k)
  | OShrinkTo n =>
      (* a negative target is "clamped or ignored": both outcomes are accepted (told apart by the observed room) *)
      if (n <? 0) && (newroom =? t_room s) then (s, TAny)
      else
        let k := clamp (zlen (t_pend s) - n) 0 (zlen (t_pend s)) in
        (mktf (t_saved s) (t_read s) (ztake (zlen (t_pend s) - k) (t_pend s)) (t_room s + k), TAny)
  | OObserve => (s, TNone)
  end.

(* what the harness observes after every call *)
Record bbobs : Type := mkbbobs {
  ob_ret : bbret; ob_saved : list Z; ob_read : list Z; ob_pend : list Z; ob_room : Z; ob_len : Z
}.

Definition observe (s : bb) (r : bbret) : bbobs :=
  mkbbobs r (saved_of s) (readable_of s) (pending_of s) (bcap s - wi s) (wi s).

Definition list_eqb (a b : list Z) : bool :=
  (length a =? length b)%nat && forallb (fun p => fst p =? snd p) (combine a b).

Definition ret_ok (want : tret) (got : bbret) : bool :=
  match want, got with
  | TAny, _ => true
  | TNone, _ => true
  | TInt n, RInt m => n =? m
  | TSlot i l, RSlot j k => (i =? j) && (l =? k)
  | TBytes l, RBytes g => list_eqb l g
  | TBytes l, RIntErr n _ => (n =? 0) && (zlen l =? 0)
  | TCountErr n failed, RIntErr m e => (n =? m) && (if failed then negb (e =? 0) else (e =? 0))
  | TByte None, RByteErr _ e => negb (e =? 0)
  | TByte (Some b), RByteErr c e => (b =? c) && (e =? 0)
  | _, _ => false
  end.

(* verdict clause: 0 accept, 1 result, 2 saved region, 3 readable region, 4 pending region, 5 lengths do not add up,
   6 room *)
Definition tfcheck (s : tf) (o : bbop) (ob : bbobs) : tf * nat :=
  let '(s', want) := tfstep s o (ob_room ob) in
  (s',
   if negb (ret_ok want (ob_ret ob)) then 1%nat
   else if negb (list_eqb (t_saved s') (ob_saved ob)) then 2%nat
   else if negb (list_eqb (t_read s') (ob_read ob)) then 3%nat
   else if negb (list_eqb (t_pend s') (ob_pend ob)) then 4%nat
   else if negb (zlen (ob_saved ob) + zlen (ob_read ob) + zlen (ob_pend ob) =? ob_len ob) then 5%nat
   else if negb (t_room s' =? ob_room ob) then 6%nat
   else 0%nat).
