(* C06 C08 C15 C16 abstract specification: an RFC 6455 client session as seen from outside - the inbound byte stream,
   what the read APIs deliver, what must appear on the wire and in which order, and the stage of the closing handshake.
   Written as an executable acceptor of observed traces (op, events, State(), wire bytes). *)
From Sonic Require Import Base.Prelude Gen.Consts Model.WsFrame Spec.FrameParser Model.Transport Model.Utf8 Model.WsStream.
Local Open Scope Z_scope.

Inductive stage : Type := SActive | SClosedByUs | SClosedByPeer | SCloseAcked | SDead.

Record oframe : Type := mkoframe { of_fin : bool; of_op : Z; of_payload : list Z }.

Record sess : Type := mksess {
  s_stage : stage;
  s_in : list Z;                 (* inbound bytes not yet delivered *)
  s_inev : list inev;            (* EOF / error queued behind them *)
  s_owed : list oframe;          (* frames the client must put on the wire, in this order *)
  s_wirebuf : list Z;            (* wire bytes not yet parsed into whole frames *)
  s_close_on_wire : bool;
  s_max : Z;
  s_parked : option rcont;
  s_terminal_seen : bool;        (* a read reported end-of-stream or the transport failed *)
  s_wfail : bool                 (* the script made the transport fail *)
}.

Definition sess_init (max : Z) : sess := mksess SActive [] [] [] [] false max None false false.

(* arithmetic view of a raw frame *)
Definition r_b0 (f : list Z) : Z := nth 0 f 0.
Definition r_fin (f : list Z) : bool := 128 <=? r_b0 f.
Definition r_rsv (f : list Z) : Z := (r_b0 f / 16) mod 8.
Definition r_op (f : list Z) : Z := r_b0 f mod 16.
Definition r_masked (f : list Z) : bool := sp_masked f.
Definition r_payload (f : list Z) : list Z := zdrop (2 + sp_ext f + (if sp_masked f then 4 else 0)) f.
Definition r_key (f : list Z) : list Z := if sp_masked f then zsub (2 + sp_ext f) (2 + sp_ext f + 4) f else [].

Definition is_control_op (op : Z) : bool := (op =? 8) || (op =? 9) || (op =? 10).
Definition is_reserved_op (op : Z) : bool := negb ((op =? 0) || (op =? 1) || (op =? 2) || (op =? 8) || (op =? 9) || (op =? 10)).

(* RFC 6455 framing rules for a frame received by a client *)
Definition violates (f : list Z) : bool :=
  negb (r_rsv f =? 0) || r_masked f || is_reserved_op (r_op f) ||
  (is_control_op (r_op f) && (negb (r_fin f) || (sp_plen f >? 125))).

Definition valid_close_code (c : Z) : bool :=
  (c =? 1000) || (c =? 1001) || (c =? 1002) || (c =? 1003) || (c =? 1007) || (c =? 1008) || (c =? 1009) || (c =? 1010) ||
  (c =? 1011) || (c =? 1012) || (c =? 1013) || ((3000 <=? c) && (c <=? 4999)).

Definition close_reply (p : list Z) : list Z :=
  if zlen p >=? 2 then
    if utf8_valid (zdrop 2 p) && valid_close_code (be (ztake 2 p)) then p else be_bytes 2 1002
  else if zlen p >? 0 then be_bytes 2 1002 else be_bytes 2 1000.

Definition owe (s : sess) (f : oframe) : sess :=
  mksess (s_stage s) (s_in s) (s_inev s) (s_owed s ++ [f]) (s_wirebuf s) (s_close_on_wire s) (s_max s) (s_parked s)
    (s_terminal_seen s) (s_wfail s).
Definition set_stage (s : sess) (st : stage) : sess :=
  mksess st (s_in s) (s_inev s) (s_owed s) (s_wirebuf s) (s_close_on_wire s) (s_max s) (s_parked s) (s_terminal_seen s) (s_wfail s).
Definition set_in (s : sess) (l : list Z) : sess :=
  mksess (s_stage s) l (s_inev s) (s_owed s) (s_wirebuf s) (s_close_on_wire s) (s_max s) (s_parked s) (s_terminal_seen s) (s_wfail s).
Definition set_parked (s : sess) (k : option rcont) : sess :=
  mksess (s_stage s) (s_in s) (s_inev s) (s_owed s) (s_wirebuf s) (s_close_on_wire s) (s_max s) k (s_terminal_seen s) (s_wfail s).
Definition set_terminal (s : sess) : sess :=
  mksess (s_stage s) (s_in s) (s_inev s) (s_owed s) (s_wirebuf s) (s_close_on_wire s) (s_max s) (s_parked s) true (s_wfail s).

Definition stage_can_read (s : sess) : bool :=
  match s_stage s with SActive | SClosedByUs => true | _ => false end.

(* effects of a conforming frame on the session *)
Definition accept_frame (s : sess) (f : list Z) : sess :=
  let op := r_op f in
  if op =? 9 then
    match s_stage s with SActive => owe s (mkoframe true 10 (r_payload f)) | _ => s end
  else if op =? 8 then
    match s_stage s with
    | SActive => owe (set_stage s SClosedByPeer) (mkoframe true 8 (close_reply (r_payload f)))
    | SClosedByUs => set_stage s SCloseAcked
    | _ => s
    end
  else s.

(* a framing violation: reported, and (once) answered with Close 1002 *)
Definition reject_frame (s : sess) : sess :=
  match s_stage s with
  | SActive => owe (set_stage s SClosedByUs) (mkoframe true 8 (be_bytes 2 1002))
  | _ => s
  end.

Definition list_eqb (a b : list Z) : bool :=
  (length a =? length b)%nat && forallb (fun p => fst p =? snd p) (combine a b).

Definition eof_queued (s : sess) : bool := match s_inev s with InEof :: _ => true | _ => false end.
Definition err_queued (s : sess) : bool := match s_inev s with InErr :: _ => true | _ => false end.
Definition pop_inev (s : sess) : sess :=
  mksess (s_stage s) (s_in s) (match s_inev s with InErr :: r => r | l => l end) (s_owed s) (s_wirebuf s) (s_close_on_wire s)
    (s_max s) (s_parked s) (s_terminal_seen s) (s_wfail s).

(* what the next read of one frame must report.  Result: new session, clause (0 = fine) *)
Definition abnormal : list Z := [136; 2; 3; 238].

Definition check_frame_delivery (s : sess) (f : list Z) (err : Z) : sess * nat :=
  if negb (stage_can_read s) then
    (* after the closing handshake reads report end-of-stream (or, if the flush of the reply failed, that error) *)
    if negb (err =? 0) then (set_terminal s, 0%nat) else (s, 11%nat)
  else
  match parse1 (s_max s) (s_in s) with
  | PFrame raw rest =>
      let s1 := set_in s rest in
      if violates raw then
        if (12 <=? err) && (err <=? 16) then (reject_frame s1, 0%nat) else (reject_frame s1, 2%nat)
      else if negb (err =? 0) then
        (* a conforming frame may only fail to be delivered because flushing the owed replies failed *)
        if (err =? 3) && s_wfail s then (set_terminal s, 0%nat) else (s1, 1%nat)
      else if list_eqb f raw then (accept_frame s1 f, 0%nat) else (accept_frame s1 raw, 1%nat)
  | PTooBig => if (err =? 11) then (s, 0%nat) else if (err =? 3) && s_wfail s then (set_terminal s, 0%nat) else (s, 3%nat)
  | PNeedMore =>
      if err =? 0 then (s, 1%nat)
      else if eof_queued s then
        (if err =? 1 then (set_terminal (set_stage s SDead), if list_eqb f abnormal || list_eqb f [] then 0%nat else 1%nat)
         else if (err =? 3) && s_wfail s then (set_terminal s, 0%nat) else (s, 3%nat))
      else if err_queued s then
        (if err =? 3 then (set_terminal (pop_inev s), 0%nat) else (s, 3%nat))
      else if (err =? 4) || ((err =? 3) && s_wfail s) then (s, 0%nat) else (s, 3%nat)
  end.

(* ---- message level: replay the reassembly over the inbound stream *)
Inductive mexp : Type :=
| XDone (mt : Z) (payload : list Z) (err : Z)    (* err: 0, or a class: 1 eof, 3, 4, 10, 11, 12 (any framing violation), 17, 18 *)
| XPending.

Fixpoint expect_message (fuel : nat) (async : bool) (s : sess) (buflen : Z) (acc : list Z) (cont : bool) (mtype : Z)
  (ctls : list (Z * list Z)) : sess * list (Z * list Z) * mexp :=
  match fuel with
  | O => (s, ctls, XDone mtype acc 98)
  | S fu =>
      if negb (stage_can_read s) then (set_terminal s, ctls, XDone mtype acc 1)
      else
      match parse1 (s_max s) (s_in s) with
      | PTooBig => (s, ctls, XDone mtype acc 11)
      | PNeedMore =>
          if eof_queued s then (set_terminal (set_stage s SDead), ctls, XDone mtype acc 1)
          else if err_queued s then (set_terminal (pop_inev s), ctls, XDone mtype acc 3)
          else if async then (set_parked s (Some (KMsg buflen acc cont mtype)), ctls, XPending)
          else (s, ctls, XDone mtype acc 4)
      | PFrame raw rest =>
          let s1 := set_in s rest in
          if violates raw then (reject_frame s1, ctls, XDone mtype acc 12)
          else if is_control_op (r_op raw) then
            expect_message fu async (accept_frame s1 raw) buflen acc cont mtype (ctls ++ [(r_op raw, r_payload raw)])
          else
            let mtype := if mtype =? 255 then r_op raw else mtype in
            let p := r_payload raw in
            let acc' := acc ++ ztake (buflen - zlen acc) p in
            if (zlen acc' >? s_max s) || negb (zlen acc' - zlen acc =? zlen p) then
              (* does not fit: reported as too big and the closing handshake is started (1001) *)
              let s2 := match s_stage s1 with
                        | SActive => owe (set_stage s1 SClosedByUs)
                                       (mkoframe true 8 (be_bytes 2 1001 ++ [112;97;121;108;111;97;100;32;116;111;111;32;98;105;103]))
                        | _ => s1 end in
              (s2, ctls, XDone mtype acc' 10)
            else
              let e := if negb cont then (if r_op raw =? 0 then 17 else 0) else (if r_op raw =? 0 then 0 else 18) in
              if negb (e =? 0) then (s1, ctls, XDone mtype acc' e)
              else if r_fin raw then (s1, ctls, XDone mtype acc' 0)
              else expect_message fu async s1 buflen acc' true mtype ctls
      end
  end.

Definition sfuel (s : sess) : nat := S (S (length (s_in s))).

Fixpoint ctl_events (evs : list wev) : list (Z * list Z) :=
  match evs with
  | [] => []
  | ECtl mt p :: r => (mt, p) :: ctl_events r
  | _ :: r => ctl_events r
  end.

Fixpoint last_msg (evs : list wev) : option (Z * Z * list Z * Z) :=
  match evs with
  | [] => None
  | EMsg mt n p e :: r => match last_msg r with Some x => Some x | None => Some (mt, n, p, e) end
  | _ :: r => last_msg r
  end.

Definition has_pending (evs : list wev) : bool := existsb (fun e => match e with EPending => true | _ => false end) evs.

Fixpoint ctls_eqb (a b : list (Z * list Z)) : bool :=
  match a, b with
  | [], [] => true
  | (m1, p1) :: a', (m2, p2) :: b' => (m1 =? m2) && list_eqb p1 p2 && ctls_eqb a' b'
  | _, _ => false
  end.

Definition err_class_ok (want got : Z) (s : sess) : bool :=
  if want =? 12 then (12 <=? got) && (got <=? 16)
  else (want =? got) || ((got =? 3) && s_wfail s).

Definition check_message (s : sess) (async : bool) (buflen : Z) (acc : list Z) (cont : bool) (mtype : Z) (evs : list wev)
  (resumed : bool) : sess * nat :=
  let '(s1, ctls, x) := expect_message (sfuel s) async s buflen acc cont mtype [] in
  if negb (ctls_eqb ctls (ctl_events evs)) then (s1, 9%nat)
  else
  match x, last_msg evs with
  | XPending, None => (s1, if resumed || has_pending evs then 0%nat else 8%nat)
  | XPending, Some _ => (s1, 8%nat)
  | XDone mt p e, Some (mt', n', p', e') =>
      let s2 := if negb (e' =? 0) && negb (e' =? 4) && negb ((12 <=? e') && (e' <=? 18)) && negb (e' =? 10) && negb (e' =? 11)
                then set_terminal s1 else s1 in
      if negb (err_class_ok e e' s1) then (s2, if (e =? 12) || (e =? 17) || (e =? 18) then 12%nat else if (e =? 10) || (e =? 11) then 3%nat else 8%nat)
      else if (e =? 0) && negb ((mt =? mt') && (n' =? zlen p) && list_eqb p p') then (s2, 8%nat)
      else (s2, 0%nat)
  | XDone _ _ _, None => (s1, 8%nat)
  end.

(* ---- the wire: whole frames, each the head of what is owed *)
Definition wire_frame_ok (raw : list Z) (o : oframe) : nat :=
  (* well-formedness of a client frame: masked, shortest length form, RSV clear; then content *)
  let p := sp_plen raw in
  let shortest := if sp_l7 raw =? 127 then 65535 <? p else if sp_l7 raw =? 126 then 125 <? p else true in
  if negb (sp_masked raw) || negb shortest || negb (r_rsv raw =? 0) then 4%nat
  else if negb (Bool.eqb (r_fin raw) (of_fin o)) || negb (r_op raw =? of_op o) ||
          negb (list_eqb (xor_mask (r_key raw) (r_payload raw)) (of_payload o)) then 5%nat
  else 0%nat.

Fixpoint check_wire (fuel : nat) (s : sess) : sess * nat :=
  match fuel with
  | O => (s, 0%nat)
  | S fu =>
      match parse1 (2 * two63) (s_wirebuf s) with
      | PFrame raw rest =>
          let s1 := mksess (s_stage s) (s_in s) (s_inev s) (s_owed s) rest (s_close_on_wire s) (s_max s) (s_parked s)
                      (s_terminal_seen s) (s_wfail s) in
          if s_close_on_wire s then (s1, 5%nat)              (* nothing may follow the Close frame *)
          else
          match s_owed s with
          | [] => (s1, 5%nat)                                  (* a frame nobody owes (e.g. a second Close) *)
          | o :: owed' =>
              let c := wire_frame_ok raw o in
              let s2 := mksess (s_stage s) (s_in s) (s_inev s) owed' rest (s_close_on_wire s || (r_op raw =? 8)) (s_max s)
                          (s_parked s) (s_terminal_seen s) (s_wfail s) in
              if negb (c =? 0)%nat then (s2, c) else check_wire fu s2
          end
      | _ => (s, 0%nat)
      end
  end.

Definition add_wire (s : sess) (w : list Z) : sess :=
  mksess (s_stage s) (s_in s) (s_inev s) (s_owed s) (s_wirebuf s ++ w) (s_close_on_wire s) (s_max s) (s_parked s)
    (s_terminal_seen s) (s_wfail s).

Definition stage_code (st : stage) : Z :=
  match st with SActive => 1 | SClosedByUs => 2 | SClosedByPeer => 3 | SCloseAcked => 4 | SDead => 5 end.

Definition state_ok (s : sess) (observed : Z) : bool :=
  (observed =? stage_code (s_stage s)) ||
  ((observed =? 5) && s_terminal_seen s).

Fixpoint first_write (evs : list wev) : option Z :=
  match evs with [] => None | EWrite e :: _ => Some e | _ :: r => first_write r end.

Fixpoint first_frame (evs : list wev) : option (list Z * Z) :=
  match evs with [] => None | EFrame f e :: _ => Some (f, e) | _ :: r => first_frame r end.

Definition write_result_ok (s : sess) (accepted_expected : bool) (evs : list wev) : nat :=
  match first_write evs with
  | Some e => if accepted_expected then (if (e =? 0) || ((e =? 3) && s_wfail s) then 0%nat else 7%nat)
              else (if e =? 0 then 7%nat else 0%nat)
  | None => 7%nat
  end.

(* one observed step.  Clause 0 = accepted.  See tools/props/ws_common.py for the meaning of the numbers. *)
Definition sess_step (s : sess) (o : wsop) (evs : list wev) (observed_state : Z) (wire : list Z) : sess * nat :=
  let '(s1, c1) :=
    match o with
    | WIn e =>
        let s0 := match e with
                  | InData w => set_in s (s_in s ++ w)
                  | other => mksess (s_stage s) (s_in s) (s_inev s ++ [other]) (s_owed s) (s_wirebuf s) (s_close_on_wire s)
                               (s_max s) (s_parked s) (s_terminal_seen s) (s_wfail s)
                  end in
        match s_parked s0 with
        | None => (s0, 0%nat)
        | Some KFrame =>
            match first_frame evs with
            | Some (f, err) => check_frame_delivery (set_parked s0 None) f err
            | None =>
                (* still parked: fine iff the stream does not yet hold a whole frame / an end *)
                match parse1 (s_max s0) (s_in s0) with
                | PNeedMore => if eof_queued s0 || err_queued s0 then (s0, 1%nat) else (s0, 0%nat)
                | _ => (s0, 1%nat)
                end
            end
        | Some (KMsg buflen acc cont mtype) => check_message (set_parked s0 None) true buflen acc cont mtype evs true
        end
    | WNextFrame | WAsyncNextFrame =>
        match first_frame evs with
        | Some (f, err) => check_frame_delivery s f err
        | None =>
            match o with
            | WAsyncNextFrame =>
                if has_pending evs && stage_can_read s then
                  match parse1 (s_max s) (s_in s) with
                  | PNeedMore => if eof_queued s || err_queued s then (s, 1%nat) else (set_parked s (Some KFrame), 0%nat)
                  | _ => (s, 1%nat)
                  end
                else (s, 1%nat)
            | _ => (s, 1%nat)
            end
        end
    | WNextMessage buflen => check_message s false buflen [] false 255 evs false
    | WAsyncNextMessage buflen => check_message s true buflen [] false 255 evs false
    | WWrite _ mt payload =>
        let ok := match s_stage s with SActive => zlen payload <=? s_max s | _ => false end in
        let c := write_result_ok s ok evs in
        ((if ok then owe s (mkoframe true (mt mod 16) payload) else s), c)
    | WWriteFrame _ fin op payload =>
        let ok := match s_stage s with SActive => true | _ => false end in
        let c := write_result_ok s ok evs in
        ((if ok then owe s (mkoframe fin (op mod 16) (match payload with Some p => p | None => [] end)) else s), c)
    | WFlush _ => (s, 0%nat)
    | WClose _ code reason =>
        match s_stage s with
        | SActive => (owe (set_stage s SClosedByUs) (mkoframe true 8 (be_bytes 2 code ++ reason)), write_result_ok s true evs)
        | _ => (s, write_result_ok s false evs)
        end
    | WSetMax n => (mksess (s_stage s) (s_in s) (s_inev s) (s_owed s) (s_wirebuf s) (s_close_on_wire s) n (s_parked s)
                      (s_terminal_seen s) (s_wfail s), 0%nat)
    | WWFail n => (mksess (s_stage s) (s_in s) (s_inev s) (s_owed s) (s_wirebuf s) (s_close_on_wire s) (s_max s) (s_parked s)
                     (s_terminal_seen s) true, 0%nat)
    end in
  (* a failed flush is a terminal condition *)
  let s1 := match first_write evs with Some 3 => set_terminal s1 | _ => s1 end in
  let '(s2, c2) := check_wire (S (length wire)) (add_wire s1 wire) in
  let c3 := if state_ok s2 observed_state then 0%nat else 6%nat in
  (s2, if negb (c1 =? 0)%nat then c1 else if negb (c2 =? 0)%nat then c2 else c3).

(* at the end of a script that ended with a flush on a healthy transport nothing may still be owed *)
Definition sess_final (s : sess) : nat :=
  if s_wfail s then 0%nat else match s_owed s with [] => 0%nat | _ => 10%nat end.
