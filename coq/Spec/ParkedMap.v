(* C20 abstract specification: packets parked under sequence numbers, in save order. *)
From Sonic Require Import Base.Prelude Model.Slots.
Local Open Scope Z_scope.

Record pm : Type := mkpm {
  p_parked : list (Z * list Z);     (* (seq, payload) in the order they were saved *)
  p_disc : Z;                       (* bytes discarded since the sequencer was last empty *)
  p_maxSlots : Z; p_maxBytes : Z
}.

Definition pm_init (maxSlots maxBytes : Z) : pm := mkpm [] 0 maxSlots maxBytes.

Definition pm_bytes (s : pm) : Z := fold_left (fun acc e => acc + zlen (snd e)) (p_parked s) 0.
Definition pm_saved (s : pm) : list Z := concat (map snd (p_parked s)).
Definition pm_has (s : pm) (seq : Z) : bool := existsb (fun e => fst e =? seq) (p_parked s).
Fixpoint pm_find (l : list (Z * list Z)) (seq : Z) : option (list Z) :=
  match l with [] => None | (q, p) :: r => if q =? seq then Some p else pm_find r seq end.
Fixpoint pm_remove (l : list (Z * list Z)) (seq : Z) : list (Z * list Z) :=
  match l with [] => [] | (q, p) :: r => if q =? seq then r else (q, p) :: pm_remove r seq end.

Definition list_eqb (a b : list Z) : bool :=
  (length a =? length b)%nat && forallb (fun p => fst p =? snd p) (combine a b).

(* clause: 0 accept, 1 duplicate accepted / wrong push result, 2 push within capacity refused, 3 push beyond capacity
   accepted, 4 pop result wrong (bytes are not the ones saved under that number / missing / spurious), 5 Size() wrong,
   6 Bytes() wrong, 7 save area is not the concatenation of the parked packets *)
Definition pmcheck (s : pm) (o : sqop) (ob : sqobs) : pm * nat :=
  let totals (s' : pm) : nat :=
    if negb (so_size ob =? zlen (p_parked s')) then 5%nat
    else if negb (so_bytes ob =? pm_bytes s') then 6%nat
    else if negb (list_eqb (so_saved ob) (pm_saved s')) then 7%nat else 0%nat in
  match o with
  | SPark seq payload _ =>
      let n := zlen payload in
      match so_ret ob with
      | SRPush ok err =>
          let accepted := ok && negb err in
          let s_yes := mkpm (p_parked s ++ [(seq, payload)]) (p_disc s) (p_maxSlots s) (p_maxBytes s) in
          if pm_has s seq then (s, if ok then 1%nat else totals s)
          else if (pm_bytes s + n >? p_maxBytes s) || (zlen (p_parked s) >=? p_maxSlots s) then
            (if accepted then (s_yes, 3%nat) else (s, if ok then 1%nat else totals s))
          else if zlen (pm_saved s) + p_disc s >=? p_maxBytes s then
            (* the offset index is exhausted: the push may be refused with an error *)
            (if accepted then (s_yes, totals s_yes) else (s, if ok || negb err then 1%nat else totals s))
          else (if accepted then (s_yes, totals s_yes) else (s, 2%nat))
      | _ => (s, 1%nat)
      end
  | SPop seq =>
      match so_ret ob with
      | SRPop ok bytes =>
          match pm_find (p_parked s) seq with
          | Some p =>
              let l' := pm_remove (p_parked s) seq in
              let s' := mkpm l' (match l' with [] => 0 | _ => p_disc s + zlen p end) (p_maxSlots s) (p_maxBytes s) in
              if ok && list_eqb bytes p then (s', totals s') else (s', 4%nat)
          | None => if ok then (s, 4%nat) else (s, totals s)
          end
      | _ => (s, 4%nat)
      end
  | SReset => let s' := mkpm [] 0 (p_maxSlots s) (p_maxBytes s) in (s', totals s')
  | SObserve => (s, totals s)
  end.
