(* C07 abstract specification: a pure, arithmetic RFC 6455 frame parser over a byte list. *)
From Sonic Require Import Base.Prelude.
Local Open Scope Z_scope.

Inductive presult : Type :=
| PNeedMore
| PTooBig
| PFrame (raw : list Z) (rest : list Z).   (* the exact bytes of the next frame, and what follows *)

Definition be (l : list Z) : Z := fold_left (fun acc b => acc * 256 + b) l 0.

Definition sp_l7 (bs : list Z) : Z := nth 1 bs 0 mod 128.
Definition sp_masked (bs : list Z) : bool := 128 <=? nth 1 bs 0.
Definition sp_ext (bs : list Z) : Z := if sp_l7 bs =? 127 then 8 else if sp_l7 bs =? 126 then 2 else 0.
Definition sp_plen (bs : list Z) : Z :=
  if sp_l7 bs =? 127 then be (zsub 2 10 bs) else if sp_l7 bs =? 126 then be (zsub 2 4 bs) else sp_l7 bs.
Definition sp_total (bs : list Z) : Z := 2 + sp_ext bs + (if sp_masked bs then 4 else 0) + sp_plen bs.

Definition parse1 (max : Z) (bs : list Z) : presult :=
  if zlen bs <? 2 then PNeedMore
  else if zlen bs <? 2 + sp_ext bs then PNeedMore
  else if sp_plen bs >? max then PTooBig
  else if zlen bs <? sp_total bs then PNeedMore
  else PFrame (ztake (sp_total bs) bs) (zdrop (sp_total bs) bs).

(* all frames of a byte string; stops at the first incomplete frame or error *)
Fixpoint parse_all (fuel : nat) (max : Z) (bs : list Z) : list (list Z) * presult :=
  match fuel with
  | O => ([], PNeedMore)
  | S f =>
      match parse1 max bs with
      | PFrame raw rest => let '(fs, fin) := parse_all f max rest in (raw :: fs, fin)
      | r => ([], r)
      end
  end.
