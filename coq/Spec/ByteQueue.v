(* C10 abstract specification, written as an executable acceptor of observed traces.  It only states what the
   property text states: FIFO order of committed bytes, contiguity of chunks (a chunk is the slice returned by Commit
   and sits where the claim was), Committed() = committed - consumed, claims never overlap queued bytes, an empty
   buffer grants min(n, size). *)
From Sonic Require Import Base.Prelude.
Local Open Scope Z_scope.

(* one observed step *)
Inductive qop : Type :=
| QClaim (n : Z) | QFill (start : Z) | QWrite (w : list Z) | QCommit (n : Z) | QConsume (n : Z) | QHead | QReset.

Record qobs : Type := mkqobs {
  q_slice : option slice;      (* returned slice; None for nil or empty *)
  q_content : list Z;          (* its bytes *)
  q_wrote : Z;
  q_committed : Z
}.

Record qst : Type := mkqst {
  q_size : Z;
  q_queue : list (Z * Z);             (* (position, byte) of every committed, unconsumed byte, oldest first *)
  q_live : option slice;              (* outstanding claim *)
  q_livec : list (option Z)           (* what the caller wrote through it (None = not written) *)
}.

Definition qinit (size : Z) : qst := mkqst size [] None [].

Inductive verdict : Type := Accept | Reject (clause : nat).
(* clause numbers:
   1 claim out of the array / longer than asked      2 claim overlaps a queued byte
   3 empty buffer did not grant min(n,size)          4 committed chunk is not the first min(n,claimed) claimed bytes
   5 committed chunk not at the claim's position     6 Committed() <> bytes committed - bytes consumed
   7 Consume dropped more than n / nothing           8 Head is not the oldest bytes (content or position)
   9 Head empty although bytes are queued (or the reverse)   10 write through the claim truncated *)

Fixpoint pattern (start : Z) (n : nat) : list Z :=
  match n with O => [] | S k => (start mod 256) :: pattern (start + 1) k end.

Fixpoint overlaps (off len : Z) (q : list (Z * Z)) : bool :=
  match q with
  | [] => false
  | (p, _) :: r => ((off <=? p) && (p <? off + len)) || overlaps off len r
  end.

Fixpoint agree (known : list (option Z)) (got : list Z) : bool :=
  match known, got with
  | _, [] => true
  | [], _ :: _ => false
  | None :: k, _ :: g => agree k g
  | Some x :: k, y :: g => (x =? y) && agree k g
  end.

Fixpoint positions (off : Z) (l : list Z) : list (Z * Z) :=
  match l with [] => [] | b :: r => (off, b) :: positions (off + 1) r end.

Fixpoint prefix_eq (a b : list (Z * Z)) : bool :=   (* a is a prefix of b *)
  match a, b with
  | [], _ => true
  | _ :: _, [] => false
  | (p, x) :: a', (q, y) :: b' => (p =? q) && (x =? y) && prefix_eq a' b'
  end.

Fixpoint overwrite (w : list Z) (k : list (option Z)) : list (option Z) :=
  match w, k with
  | [], _ => k
  | _, [] => []
  | x :: w', _ :: k' => Some x :: overwrite w' k'
  end.

Definition live_len (s : qst) : Z := match q_live s with None => 0 | Some r => slen r end.

Definition qstep (s : qst) (o : qop) (ob : qobs) : qst * verdict :=
  let committed_ok (s' : qst) := if q_committed ob =? zlen (q_queue s') then Accept else Reject 6 in
  match o with
  | QClaim n =>
      let want_empty := Z.min n (q_size s) in
      match q_slice ob with
      | None =>
          let s' := mkqst (q_size s) (q_queue s) None [] in
          if (match q_queue s with [] => negb (want_empty <=? 0) | _ => false end) then (s', Reject 3)
          else (s', committed_ok s')
      | Some r =>
          let s' := mkqst (q_size s) (q_queue s) (Some r) (repeat None (Z.to_nat (slen r))) in
          if negb ((0 <=? soff r) && (soff r + slen r <=? q_size s) && (slen r <=? n) && (0 <? slen r)) then (s', Reject 1)
          else if overlaps (soff r) (slen r) (q_queue s) then (s', Reject 2)
          else if (match q_queue s with [] => negb (slen r =? want_empty) | _ => false end) then (s', Reject 3)
          else (s', committed_ok s')
      end
  | QFill start =>
      let w := pattern start (Z.to_nat (live_len s)) in
      let s' := mkqst (q_size s) (q_queue s) (q_live s) (overwrite w (q_livec s)) in
      if q_wrote ob =? live_len s then (s', committed_ok s') else (s', Reject 10)
  | QWrite w =>
      let w' := ztake (live_len s) w in
      let s' := mkqst (q_size s) (q_queue s) (q_live s) (overwrite w' (q_livec s)) in
      if q_wrote ob =? zlen w' then (s', committed_ok s') else (s', Reject 10)
  | QCommit n =>
      let k := Z.min n (live_len s) in
      let got_len := match q_slice ob with None => 0 | Some r => slen r end in
      let off := match q_live s with None => 0 | Some r => soff r end in
      let newq := q_queue s ++ positions off (q_content ob) in
      let s' := mkqst (q_size s) newq None [] in
      if negb ((got_len =? Z.max k 0) && (zlen (q_content ob) =? got_len) && agree (q_livec s) (q_content ob)) then (s', Reject 4)
      else if (match q_slice ob with None => false | Some r => negb (soff r =? off) end) then (s', Reject 5)
      else (s', committed_ok s')
  | QConsume n =>
      let dropped := zlen (q_queue s) - q_committed ob in
      let s' := mkqst (q_size s) (zdrop dropped (q_queue s)) (q_live s) (q_livec s) in
      if negb ((0 <=? dropped) && (dropped <=? Z.max n 0)) then (s', Reject 7)
      else if (0 <? n) && (0 <? zlen (q_queue s)) && (dropped =? 0) then (s', Reject 7)
      else (s', Accept)
  | QHead =>
      match q_slice ob with
      | None => if 0 <? zlen (q_queue s) then (s, Reject 9) else (s, committed_ok s)
      | Some r =>
          if (zlen (q_queue s) =? 0) || negb (zlen (q_content ob) =? slen r) then (s, Reject 9)
          else if prefix_eq (positions (soff r) (q_content ob)) (q_queue s) then (s, committed_ok s)
          else (s, Reject 8)
      end
  | QReset =>
      let s' := mkqst (q_size s) [] None [] in (s', committed_ok s')
  end.

(* run the acceptor over a whole observed trace: index and clause of the first rejection *)
Fixpoint qcheck (s : qst) (tr : list (qop * qobs)) (i : nat) : option (nat * nat) :=
  match tr with
  | [] => None
  | (o, ob) :: rest =>
      match qstep s o ob with
      | (s', Accept) => qcheck s' rest (S i)
      | (_, Reject c) => Some (i, c)
      end
  end.
