(* C19 abstract specification: 4-byte big-endian length prefix + payload. *)
From Sonic Require Import Base.Prelude Gen.Consts.
Local Open Scope Z_scope.

Inductive lres : Type := LNeedMore | LOverflow | LItem (payload : list Z) (rest : list Z).

Definition be32 (l : list Z) : Z := fold_left (fun acc b => acc * 256 + b) l 0.

Definition lparse1 (bs : list Z) : lres :=
  if zlen bs <? frame_HeaderLen then LNeedMore
  else
    let n := be32 (ztake frame_HeaderLen bs) in
    if n >? frame_MaxPayloadLength then LOverflow
    else if zlen bs <? frame_HeaderLen + n then LNeedMore
    else LItem (zsub frame_HeaderLen (frame_HeaderLen + n) bs) (zdrop (frame_HeaderLen + n) bs).

Fixpoint be_bytes4 (k : nat) (n : Z) : list Z :=
  match k with O => [] | S k' => be_bytes4 k' (n / 256) ++ [n mod 256] end.

Definition lencode (payload : list Z) : list Z := be_bytes4 4 (zlen payload) ++ payload.
