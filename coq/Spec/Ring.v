(* C11 abstract specification as an executable acceptor of observed traces: a ring of exactly Size() bytes. *)
From Sonic Require Import Base.Prelude.
Local Open Scope Z_scope.

Inductive rop : Type := RClaim (n : Z) | RFill (start : Z) | RCommit (n : Z) | RConsume (n : Z) | RReset | RDump.

Record robs : Type := mkrobs {
  r_slice : option slice; r_int : Z; r_bytes : list Z; r_used : Z; r_free : Z; r_size : Z
}.

Record chunk : Type := mkchunk { c_pos : Z; c_len : Z; c_bytes : list (option Z) }.  (* ring position, length, bytes if known *)

Record rst : Type := mkrst {
  r_sz : Z;
  r_queue : list chunk;             (* committed, unconsumed chunks, oldest first *)
  r_next : option Z;                (* ring position following the last committed byte *)
  r_live : option slice;
  r_livec : list (option Z)
}.

Definition rinit (size : Z) : rst := mkrst size [] None None [].

Inductive rverdict : Type := RAccept | RReject (clause : nat).
(* 1 claim length <> min(n, free) or outside [0, 2*size)      2 claim does not start at the ring position after the
   last commit   3 claim aliases a queued byte   4 Commit returned <> min(n, free)   5 used + free <> size or used <>
   queued count   6 Consume returned <> min(n, used)   7 queued bytes changed (dump)   8 Size() changed or not a
   positive multiple of the page size >= request *)

Fixpoint pattern (start : Z) (n : nat) : list Z :=
  match n with O => [] | S k => (start mod 256) :: pattern (start + 1) k end.

Definition qlen (q : list chunk) : Z := fold_left (fun acc c => acc + c_len c) q 0.

(* do the ring intervals [p1, p1+n1) and [p2, p2+n2) (mod size) intersect? *)
Definition ring_overlap (size p1 n1 p2 n2 : Z) : bool :=
  (0 <? n1) && (0 <? n2) && (((p2 - p1) mod size <? n1) || ((p1 - p2) mod size <? n2)).

Definition aliases (size off len : Z) (q : list chunk) : bool :=
  (* chunks committed before the oracle has seen any claim have no known position (c_pos < 0): nothing is said about them *)
  existsb (fun c => (0 <=? c_pos c) && ring_overlap size (off mod size) len (c_pos c) (c_len c)) q.

Fixpoint cdrop (k : Z) (q : list chunk) : list chunk :=
  match q with
  | [] => []
  | c :: r =>
      if k <=? 0 then q
      else if c_len c <=? k then cdrop (k - c_len c) r
      else mkchunk (if c_pos c <? 0 then c_pos c else c_pos c + k) (c_len c - k) (zdrop k (c_bytes c)) :: r
  end.

Fixpoint agree (known : list (option Z)) (got : list Z) : bool :=
  match known, got with
  | [], [] => true
  | None :: k, _ :: g => agree k g
  | Some x :: k, y :: g => (x =? y) && agree k g
  | _, _ => false
  end.

Definition pad (n : Z) (l : list (option Z)) : list (option Z) :=
  ztake n l ++ repeat None (Z.to_nat (n - zlen l)).

Definition counts_ok (s : rst) (ob : robs) : bool :=
  (r_used ob + r_free ob =? r_sz s) && (r_used ob =? qlen (r_queue s)) && (r_size ob =? r_sz s).

Definition rstep (s : rst) (o : rop) (ob : robs) : rst * rverdict :=
  let fin (s' : rst) := if counts_ok s' ob then RAccept else RReject 5 in
  let free := r_sz s - qlen (r_queue s) in
  match o with
  | RClaim n =>
      let want := Z.min n free in
      match r_slice ob with
      | None => let s' := mkrst (r_sz s) (r_queue s) (r_next s) None [] in
                if want <=? 0 then (s', fin s') else (s', RReject 1)
      | Some r =>
          let s' := mkrst (r_sz s) (r_queue s) (r_next s) (Some r) [] in
          if negb ((slen r =? want) && (0 <=? soff r) && (soff r + slen r <=? 2 * r_sz s)) then (s', RReject 1)
          else if (match r_next s with Some p => negb (soff r mod r_sz s =? p) | None => false end) then (s', RReject 2)
          else if aliases (r_sz s) (soff r) (slen r) (r_queue s) then (s', RReject 3)
          else (s', fin s')
      end
  | RFill start =>
      let n := match r_live s with Some r => slen r | None => 0 end in
      let s' := mkrst (r_sz s) (r_queue s) (r_next s) (r_live s) (map Some (pattern start (Z.to_nat n))) in
      (s', fin s')
  | RCommit n =>
      let k := Z.max 0 (Z.min n free) in
      let off := match r_live s with Some r => Some (soff r)
                 | None => match r_next s with Some p => Some p | None => None end end in
      let pos := match off with Some a => a mod r_sz s | None => -1 end in
      let q' := if 0 <? k then r_queue s ++ [mkchunk pos k (pad k (r_livec s))] else r_queue s in
      let s' := mkrst (r_sz s) q' (match off with Some a => Some ((a + k) mod r_sz s) | None => None end) None [] in
      if r_int ob =? k then (s', fin s') else (s', RReject 4)
  | RConsume n =>
      let k := Z.max 0 (Z.min n (qlen (r_queue s))) in
      let s' := mkrst (r_sz s) (cdrop k (r_queue s)) (r_next s) (r_live s) (r_livec s) in
      if r_int ob =? k then (s', fin s') else (s', RReject 6)
  | RReset =>
      let s' := mkrst (r_sz s) [] None None [] in (s', fin s')
  | RDump =>
      if agree (concat (map c_bytes (r_queue s))) (r_bytes ob) then (s, fin s) else (s, RReject 7)
  end.

(* constructor: Size() must be the smallest positive multiple of the page size >= the request *)
Definition size_ok (page req got : Z) : bool :=
  (0 <? got) && (got mod page =? 0) && (req <=? got) && (got - page <? Z.max req 1).
