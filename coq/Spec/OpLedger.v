(* C01 C03 C04 C14 abstract specification: a ledger of operations in flight, armed timers and posted handlers, driven by
   the stream of observed events (operation started, callback entered, cancel/close/schedule results, posts) and checked
   against Pending(), Dispatched, PollOne's result and the batch epoll returned. *)
From Sonic Require Import Base.Prelude Gen.Consts Model.Loop.
Local Open Scope Z_scope.

Record lobj : Type := mklobj {
  lo_rd : option (Z * bool * Z);      (* callback id, ReadAll?, length *)
  lo_wr : option (Z * bool * Z);
  lo_closed : bool
}.

Record ltm : Type := mkltm {
  lt_armed : option (Z * Z * Z);      (* callback id, due time, repeat interval (0 = once) *)
  lt_closed : bool;
  lt_incb : bool                      (* a repeating timer whose callback fired and that was not touched since *)
}.

Record ledger : Type := mkledger {
  g_dead : list Z;                     (* objects whose descriptor was closed underneath them (script operation) *)
  g_objs : list (Z * lobj);
  g_tmrs : list (Z * ltm);
  g_posts : list Z;
  g_now : Z;
  g_forced : Z;                        (* value the script forced into Dispatched *)
  g_cancel : option (Z * list Z);      (* Cancel in progress: object, callbacks that must complete with "cancelled" *)
  g_unowned : list Z;                  (* callbacks seen with no owner yet (immediate timer callbacks) *)
  g_fired : bool                       (* some callback ran during the current operation *)
}.

Definition ledger_init : ledger := mkledger [] [] [] [] 0 0 None [] false.

Definition gobj (g : ledger) (i : Z) : lobj := match lookup i (g_objs g) with Some o => o | None => mklobj None None false end.
Definition gtm (g : ledger) (i : Z) : ltm := match lookup i (g_tmrs g) with Some t => t | None => mkltm None false false end.
Definition set_gobj (g : ledger) (i : Z) (o : lobj) : ledger :=
  mkledger (g_dead g) (update i o (g_objs g)) (g_tmrs g) (g_posts g) (g_now g) (g_forced g) (g_cancel g) (g_unowned g) (g_fired g).
Definition set_gtm (g : ledger) (i : Z) (t : ltm) : ledger :=
  mkledger (g_dead g) (g_objs g) (update i t (g_tmrs g)) (g_posts g) (g_now g) (g_forced g) (g_cancel g) (g_unowned g) (g_fired g).

Definition cb_of (x : option (Z * bool * Z)) : option Z := match x with Some (c, _, _) => Some c | None => None end.
Definition is_cb (x : option (Z * bool * Z)) (cb : Z) : bool := match x with Some (c, _, _) => c =? cb | None => false end.

(* which object / direction owns a callback id *)
Fixpoint find_op (l : list (Z * lobj)) (cb : Z) : option (Z * bool) :=
  match l with
  | [] => None
  | (i, o) :: r => if is_cb (lo_rd o) cb then Some (i, false) else if is_cb (lo_wr o) cb then Some (i, true) else find_op r cb
  end.
Fixpoint find_tm (l : list (Z * ltm)) (cb : Z) : option Z :=
  match l with
  | [] => None
  | (i, t) :: r => match lt_armed t with Some (c, _, _) => if c =? cb then Some i else find_tm r cb | None => find_tm r cb end
  end.

Fixpoint remove_first (x : Z) (l : list Z) : list Z :=
  match l with [] => [] | y :: r => if x =? y then r else y :: remove_first x r end.

Definition inflight_count (g : ledger) : Z :=
  fold_left (fun acc p => acc + (if lo_closed (snd p) then 0 else
                                   (match lo_rd (snd p) with Some _ => 1 | None => 0 end) +
                                   (match lo_wr (snd p) with Some _ => 1 | None => 0 end))) (g_objs g) 0
  + fold_left (fun acc p => acc + match lt_armed (snd p) with Some _ => 1 | None => 0 end) (g_tmrs g) 0
  + zlen (g_posts g).

(* clauses:  1 callback with nothing in flight (completed twice / spurious)   2 ReadAll/WriteAll reported success with a
   partial count   4 Cancel did not complete every in-flight operation once with "cancelled"   5 an operation whose
   descriptor the batch reported ready was not dispatched (never completes)   10 timer fired before its delay elapsed
   11 scheduling while scheduled did not fail / disturbed the schedule   12 a closed timer was revived
   13 a legal schedule was refused   14 callback nesting deeper than MaxCallbackDispatch + 1   15 Dispatched not back to
   its base value   18 an armed timer is 30 ms overdue after a poll and has not fired   17 scheduling from inside the callback of a live repeating timer did not fail   16 an expired timer in the batch did not fire   21 Pending() differs from the operations in flight
   22 PollOne dispatched handlers but reported 0   23 PollOne reported 0 without the timeout error
   30 posted handlers ran out of order   31 a queued post was not run by the poll that drained the waker *)
Definition fail (g : ledger) (c : nat) : ledger * nat := (g, c).

Definition ledger_event (g : ledger) (e : lev) : ledger * nat :=
  match e with
  | LStart cb o w all len =>
      let lo := gobj g o in
      (* a second operation in the same direction while one is in flight is outside the library's contract: the
         ledger stops judging this script (clause 99 is ignored by the harness) *)
      if lo_closed lo || (match (if w then lo_wr lo else lo_rd lo) with Some _ => true | None => false end) then (g, 99%nat) else
      (set_gobj g o (if w then mklobj (lo_rd lo) (Some (cb, all, len)) (lo_closed lo) else mklobj (Some (cb, all, len)) (lo_wr lo) (lo_closed lo)), 0%nat)
  | LCb cb err n d =>
      let g := mkledger (g_dead g) (g_objs g) (g_tmrs g) (g_posts g) (g_now g) (g_forced g) (g_cancel g) (g_unowned g) true in
      (* the bound is about inline completions re-issued from their own callbacks; a callback that Cancel invokes from
         inside a handler is one more frame on the stack and is not counted against it: no judgement while a Cancel is open *)
      if (d >? sonic_MaxCallbackDispatch + 1 + g_forced g) && (match g_cancel g with None => true | Some _ => false end) then fail g 14%nat
      else
      match find_op (g_objs g) cb with
      | Some (o, w) =>
          let lo := gobj g o in
          let op := if w then lo_wr lo else lo_rd lo in
          let g1 := set_gobj g o (if w then mklobj (lo_rd lo) None (lo_closed lo) else mklobj None (lo_wr lo) (lo_closed lo)) in
          let bad_all := match op with Some (_, true, len) => (err =? 0) && (0 <=? len) && negb (n =? len) | _ => false end in
          let cancel_ok := match g_cancel g with
                           | Some (co, must) =>
                               (* on a descriptor closed underneath the poller's own error is passed on instead *)
                               if (co =? o) && existsb (Z.eqb cb) must then (err =? xCancelled) || existsb (Z.eqb o) (g_dead g) else true
                           | None => true end in
          let g2 := match g_cancel g1 with
                    | Some (co, must) => mkledger (g_dead g1) (g_objs g1) (g_tmrs g1) (g_posts g1) (g_now g1) (g_forced g1)
                                           (Some (co, if co =? o then remove_first cb must else must)) (g_unowned g1) true
                    | None => g1 end in
          if bad_all then fail g2 2%nat else if negb cancel_ok then fail g2 4%nat else (g2, 0%nat)
      | None =>
          match find_tm (g_tmrs g) cb with
          | Some t =>
              let lt := gtm g t in
              match lt_armed lt with
              | Some (_, due, rep) =>
                  let g1 := set_gtm g t (mkltm (if 0 <? rep then Some (cb, g_now g + rep, rep) else None) (lt_closed lt) (0 <? rep)) in
                  if g_now g <? due then fail g1 10%nat else (g1, 0%nat)
              | None => (g, 0%nat)
              end
          | None =>
              match g_posts g with
              | p :: rest => if p =? cb then (mkledger (g_dead g) (g_objs g) (g_tmrs g) rest (g_now g) (g_forced g) (g_cancel g) (g_unowned g) true, 0%nat)
                             else if existsb (Z.eqb cb) rest then fail g 30%nat
                             else (mkledger (g_dead g) (g_objs g) (g_tmrs g) (g_posts g) (g_now g) (g_forced g) (g_cancel g) (cb :: g_unowned g) true, 0%nat)
              | [] => (mkledger (g_dead g) (g_objs g) (g_tmrs g) (g_posts g) (g_now g) (g_forced g) (g_cancel g) (cb :: g_unowned g) true, 0%nat)
              end
          end
      end
  | LCancel o false =>
      let lo := gobj g o in
      let must := (match cb_of (lo_rd lo) with Some c => [c] | None => [] end) ++ (match cb_of (lo_wr lo) with Some c => [c] | None => [] end) in
      (mkledger (g_dead g) (g_objs g) (g_tmrs g) (g_posts g) (g_now g) (g_forced g) (Some (o, must)) (g_unowned g) (g_fired g), 0%nat)
  | LCancel o true =>
      let g1 := mkledger (g_dead g) (g_objs g) (g_tmrs g) (g_posts g) (g_now g) (g_forced g) None (g_unowned g) (g_fired g) in
      match g_cancel g with
      | Some (_, []) => (g1, 0%nat)
      | Some (_, _ :: _) => fail g1 4%nat
      | None => (g1, 0%nat)
      end
  | LClose o err =>
      (* a Close from inside a callback that an open Cancel of the same object invoked: the object owes nothing more (no
         callback after Close returns), so the Cancel's remaining obligations are void *)
      let g := match g_cancel g with
               | Some (co, must) => if co =? o then mkledger (g_dead g) (g_objs g) (g_tmrs g) (g_posts g) (g_now g) (g_forced g)
                                                       (Some (co, [])) (g_unowned g) (g_fired g) else g
               | None => g end in
      (set_gobj g o (mklobj None None true), 0%nat)
  | LSched t rep ms cb err =>
      let lt := gtm g t in
      if lt_closed lt then (if err =? 0 then fail g 12%nat else (g, 0%nat))
      else match lt_armed lt with
           | Some _ =>
               if err =? 0 then
                 (* 17 is reported and the ledger follows the implementation (the new schedule replaces the repetition),
                    so that the rest of the script is still judged *)
                 (if lt_incb lt then (set_gtm g t (mkltm (Some (cb, g_now g + ms, if rep then ms else 0)) false false), 17%nat)
                  else fail g 11%nat)
               else (g, 0%nat)
           | None =>
               if rep && (ms <=? 0) then (if err =? 0 then fail g 13%nat else (g, 0%nat))
               else if negb (err =? 0) then fail g 13%nat
               else if ms <=? 0 then
                 (* immediate callback: it must have been seen just before *)
                 (if existsb (Z.eqb cb) (g_unowned g)
                  then (mkledger (g_dead g) (g_objs g) (g_tmrs g) (g_posts g) (g_now g) (g_forced g) (g_cancel g) (remove_first cb (g_unowned g)) (g_fired g), 0%nat)
                  else fail g 16%nat)
               else (set_gtm g t (mkltm (Some (cb, g_now g + ms, if rep then ms else 0)) false false), 0%nat)
           end
  | LTCancel t err => let lt := gtm g t in (set_gtm g t (mkltm None (lt_closed lt) false), 0%nat)
  | LTClose t err => (set_gtm g t (mkltm None true false), 0%nat)
  | LPost cb => (mkledger (g_dead g) (g_objs g) (g_tmrs g) (g_posts g ++ [cb]) (g_now g) (g_forced g) (g_cancel g) (g_unowned g) (g_fired g), 0%nat)
  end.

Fixpoint ledger_events (g : ledger) (evs : list lev) : ledger * nat :=
  match evs with
  | [] => (g, 0%nat)
  | e :: r =>
      let '(g1, c) := ledger_event g e in
      if (c =? 0)%nat then ledger_events g1 r
      else if (c =? 17)%nat then let '(g2, c2) := ledger_events g1 r in (g2, if (c2 =? 0)%nat then 17%nat else c2)
      else (g1, c)
  end.

(* progress obligations of a poll: computed on the ledger BEFORE the poll *)
Definition must_complete (g : ledger) (batch : list (Z * Z * Z)) : list (Z * Z * Z) :=   (* (kind, owner, callback) *)
  flat_map (fun e =>
    let '(kind, i, mask) := e in
    if kind =? 0 then
      let lo := gobj g i in
      if lo_closed lo then [] else
      let ready := has mask mHUP || has mask mERR in
      (match lo_rd lo with
       | Some (cb, all, _) => if ready || (has mask mIN && negb all) then [(0, i, cb)] else []
       | None => [] end) ++
      (match lo_wr lo with
       | Some (cb, all, _) => if ready || has mask mOUT then [(0, i, cb)] else []
       | None => [] end)
    else if kind =? 1 then
      match lt_armed (gtm g i) with
      | Some (cb, due, _) => if has mask mIN && (due <=? g_now g) then [(1, i, cb)] else []
      | None => []
      end
    else map (fun cb => (2, 0, cb)) (g_posts g)) batch.

Fixpoint fired_cbs (evs : list lev) : list Z :=
  match evs with [] => [] | LCb cb _ _ _ :: r => cb :: fired_cbs r | _ :: r => fired_cbs r end.

(* an obligation is void if a handler of the same poll cancelled / closed / re-scheduled its owner *)
Definition touches (kind i : Z) (e : lev) : bool :=
  match e with
  | LCancel o _ => (kind =? 0) && (o =? i)
  | LClose o _ => (kind =? 0) && (o =? i)
  | LSched t _ _ _ _ => (kind =? 1) && (t =? i)
  | LTCancel t _ => (kind =? 1) && (t =? i)
  | LTClose t _ => (kind =? 1) && (t =? i)
  | _ => false
  end.

Definition unmet (evs : list lev) (ob : Z * Z * Z) : bool :=
  let '(kind, i, cb) := ob in
  negb (existsb (Z.eqb cb) (fired_cbs evs)) && negb (existsb (touches kind i) evs).

Definition ledger_step (g : ledger) (o : lop) (evs : list lev) (pending disp ret_n ret_err : Z) : ledger * nat :=
  let g0 := mkledger (g_dead g) (g_objs g) (g_tmrs g) (g_posts g) (g_now g) (g_forced g) None [] false in
  let g0 := match o with
            | LSleep ms => mkledger (g_dead g0) (g_objs g0) (g_tmrs g0) (g_posts g0) (g_now g0 + ms) (g_forced g0) None [] false
            | LDepth n => mkledger (g_dead g0) (g_objs g0) (g_tmrs g0) (g_posts g0) (g_now g0) n None [] false
            | LPeer i PKill => mkledger (i :: g_dead g0) (g_objs g0) (g_tmrs g0) (g_posts g0) (g_now g0) (g_forced g0) None [] false
            | _ => g0 end in
  let obligations := match o with LPoll batch => must_complete g0 batch | _ => [] end in
  let '(g1, c) := ledger_events g0 evs in
  if negb (c =? 0)%nat && negb (c =? 17)%nat then (g1, c)
  else
  let soft (r : ledger * nat) : ledger * nat := if (snd r =? 0)%nat then (fst r, c) else r in
  soft (
  if negb (match g_unowned g1 with [] => true | _ => false end) then (g1, 1%nat)
  else if negb (disp =? g_forced g1) then (g1, 15%nat)
  else
  (* 21 is reported but does not stop the judgement of the step (nor, in the driver, of the script): the other clauses do not
     depend on the implementation's counter *)
  let c21 := if negb (pending =? inflight_count g1) then 21%nat else 0%nat in
  (fun r : ledger * nat => if (snd r =? 0)%nat then (fst r, c21) else r)
  (match o with
       | LPoll batch =>
           match filter (unmet evs) obligations with
           | (kind, _, _) :: _ => (g1, if kind =? 2 then 31%nat else if kind =? 1 then 16%nat else 5%nat)
           | [] =>
               (* 18: a timer armed long enough ago (30 ms of script time past its expiry) that is still armed after this poll
                  did not fire although the loop was polled: its callback is lost *)
               if existsb (fun p => match lt_armed (snd p) with Some (_, due, _) => due + 30 <=? g_now g1 | None => false end) (g_tmrs g1)
               then (g1, 18%nat)
               else
               if g_fired g1 && (ret_n <=? 0) then (g1, 22%nat)
               else if (ret_n =? 0) && negb (ret_err =? xTimeout) then (g1, 23%nat)
               else (g1, 0%nat)
           end
       | _ => (g1, 0%nat)
       end)).
