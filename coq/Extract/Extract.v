(* Extraction of the executable models and oracles to OCaml.  ExtrOcamlBasic only: bool/option/unit/list/prod/sumbool
   map to the OCaml types; Z, N, positive, nat stay the extracted Coq datatypes.  No Extract Constant. *)
From Coq Require Extraction ExtrOcamlBasic.
From Sonic Require Import Base.Prelude Gen.Consts Gen.Preds Gen.BipBuffer Gen.Mirrored Gen.Slot.
From Sonic Require Import Model.BipMem Spec.ByteQueue Model.MirrorMem Spec.Ring Model.ByteBuffer Spec.ThreeFifo Model.Slots Spec.ParkedMap Model.WsFrame Spec.FrameParser Model.WsCodec Model.Transport Spec.LenParser Model.LenCodec Model.Utf8 Model.WsStream Spec.WsSession Model.Loop Spec.OpLedger Model.RW Model.PostConc Model.Handshake Model.Ctors Model.WsAsync Model.Mcast.
Extraction Language OCaml.
Extraction "model.ml"
  BipMem.binit BipMem.bstep BipMem.bobserve BipMem.babs
  ByteQueue.qinit ByteQueue.qstep ByteQueue.qcheck
  MirrorMem.minit MirrorMem.mstep MirrorMem.mobserve MirrorMem.mabs Mirrored.MirroredBuffer_new
  Ring.rinit Ring.rstep Ring.size_ok
  ByteBuffer.bb_init ByteBuffer.bbstep ThreeFifo.tf_init ThreeFifo.tfcheck ThreeFifo.observe
  Slots.sq_init Slots.sqstep Slots.sq_observe Slots.fw_add Slots.fw_sum_until Slots.fw_new ParkedMap.pm_init ParkedMap.pmcheck
  WsFrame.build_frame WsCodec.codec_init WsCodec.decode WsCodec.feed WsCodec.unread FrameParser.parse1 FrameParser.parse_all
  LenCodec.lconn_init LenCodec.lcstep LenParser.lparse1 LenParser.lencode LenParser.be32 Consts.frame_MaxPayloadLength
  WsStream.ws_init WsStream.wsstep Utf8.utf8_valid WsSession.sess_init WsSession.sess_step WsSession.sess_final WsSession.r_key
  Loop.loop_init Loop.lstep Loop.obj_bits Loop.timers_alive OpLedger.ledger_init OpLedger.ledger_step
  RW.rw_init RW.rwstep PostConc.cinit PostConc.tstep Handshake.hs_init Handshake.handshake Handshake.hs_verdict Ctors.fstep WsAsync.wa_init WsAsync.wastep Mcast.ds_init Mcast.dstep Mcast.peer_new Mcast.k_default Mcast.sstep Mcast.gstep Mcast.delivers
  Z.of_nat Z.to_nat Z.add Z.mul Z.sub Z.div Z.modulo Z.eqb Z.ltb Z.leb Z.opp Z.abs Z.compare Z.div_eucl.
