(* C11: proofs about the regenerated MirroredBuffer cursor code. *)
From Coq Require Import ZifyBool.
From Sonic Require Import Base.Prelude Base.ListLemmas Gen.Mirrored Model.MirrorMem.
Local Open Scope Z_scope.

Ltac Zify.zify_post_hook ::= Z.to_euclidean_division_equations.
Local Arguments Z.mul : simpl never.
Local Arguments Z.add : simpl never.
Local Arguments Z.sub : simpl never.
Local Arguments Z.modulo : simpl never.
Local Arguments Z.rem : simpl never.
Local Arguments Z.min : simpl never.

Definition minv (c : MirroredBuffer) : Prop :=
  let size := MirroredBuffer_size c in
  0 < size /\ MirroredBuffer_slice_len c = 2 * size /\
  0 <= MirroredBuffer_head c < size /\ 0 <= MirroredBuffer_tail c < size /\
  0 <= MirroredBuffer_used c <= size /\
  MirroredBuffer_tail c = (MirroredBuffer_head c + MirroredBuffer_used c) mod size.

Ltac brk :=
  repeat match goal with
    | |- context [if ?b then _ else _] => destruct b eqn:?
    | H : context [if ?b then _ else _] |- _ => destruct b eqn:?
    end.

Ltac unset := unfold set_MirroredBuffer_head, set_MirroredBuffer_tail, set_MirroredBuffer_used,
  set_MirroredBuffer_size, set_MirroredBuffer_sizeMask, set_MirroredBuffer_slice_len in *.

Ltac unf := unset; unfold MirroredBuffer_Claim, MirroredBuffer_Commit, MirroredBuffer_Consume, MirroredBuffer_Reset,
  MirroredBuffer_FreeSpace, MirroredBuffer_UsedSpace, MirroredBuffer_Full, MirroredBuffer_Size, slice_of, reslice, obind in *.

Ltac inv_ok := repeat match goal with
  | H : Ok _ = Ok _ |- _ => inversion H; subst; clear H
  | H : Some _ = Some _ |- _ => inversion H; subst; clear H
  | H : Panic = Ok _ |- _ => discriminate H
  | H : None = Some _ |- _ => discriminate H
  | H : (_, _) = (_, _) |- _ => inversion H; subst; clear H
  end.

(* the constructor accepts exactly the positive requests and rounds up to the next multiple of the page size *)
Lemma new_spec page req b :
  0 < page -> MirroredBuffer_new page req = Some b ->
  minv b /\ MirroredBuffer_used b = 0 /\ 0 < req /\
  MirroredBuffer_size b mod page = 0 /\ req <= MirroredBuffer_size b < req + page.
Proof.
  intros Hp. unfold MirroredBuffer_new. brk; intros H; inv_ok; unfold minv; cbn; repeat split; try lia.
  - assert (Hr : 0 < req).
    { pose proof (Z.rem_sign_nz req page ltac:(lia) ltac:(lia)) as Hsg.
      apply Z.sgn_pos_iff. rewrite <- Hsg. apply Z.sgn_pos_iff. lia. }
    rewrite Z.rem_mod_nonneg by lia.
    replace (req + (page - req mod page)) with ((req / page + 1) * page)
      by (pose proof (Z.div_mod req page ltac:(lia)); lia).
    apply Z.mod_mul. lia.
  - assert (Hr : 0 < req) by lia.
    rewrite <- Z.rem_mod_nonneg by lia.
    pose proof (Z.rem_bound_pos req page ltac:(lia) Hp). lia.
Qed.

Lemma new_rejects page req : 0 < page -> MirroredBuffer_new page req = None <-> req <= 0.
Proof.
  intros Hp. unfold MirroredBuffer_new. brk; split; intros H; try discriminate; try lia; reflexivity.
Qed.

Lemma claim_spec c n c' r :
  minv c -> 0 <= n -> MirroredBuffer_Claim c n = Ok (c', r) ->
  c' = c /\
  match r with
  | None => Z.min n (MirroredBuffer_FreeSpace c) = 0
  | Some x => soff x = MirroredBuffer_tail c /\ slen x = Z.min n (MirroredBuffer_FreeSpace c) /\ 0 < slen x /\
              0 <= soff x /\ soff x + slen x <= 2 * MirroredBuffer_Size c
  end.
Proof.
  destruct c as [sl size mask h t u]. unfold minv; cbn. intros Hi Hn.
  unf; cbn. brk; intros H; inv_ok; cbn; repeat split; try lia.
Qed.

Lemma claim_no_panic c n : minv c -> 0 <= n -> MirroredBuffer_Claim c n <> Panic.
Proof.
  destruct c as [sl size mask h t u]. unfold minv; cbn. intros Hi Hn.
  unf; cbn. brk; try discriminate; exfalso; cbn [soff slen] in *; lia.
Qed.

Ltac modfin :=
  match goal with H : _ /\ _ |- _ => decompose [and] H; clear H end; subst;
  rewrite ?Z.rem_mod_nonneg by lia; rewrite ?Zplus_mod_idemp_l;
  first [ reflexivity | (f_equal; lia) | (rewrite Z.mod_small by lia; lia) ].

Lemma commit_spec c n c' k :
  minv c -> 0 <= n -> MirroredBuffer_Commit c n = Ok (c', k) ->
  k = Z.min n (MirroredBuffer_FreeSpace c) /\ minv c' /\
  MirroredBuffer_size c' = MirroredBuffer_size c /\
  MirroredBuffer_head c' = MirroredBuffer_head c /\
  MirroredBuffer_used c' = MirroredBuffer_used c + k /\
  MirroredBuffer_tail c' = (MirroredBuffer_tail c + k) mod MirroredBuffer_size c.
Proof.
  destruct c as [sl size mask h t u]. unfold minv; cbn. intros Hi Hn.
  unf; cbn. brk; intros H; inv_ok; cbn; repeat split; try lia; modfin.
Qed.

Lemma consume_spec c n c' k :
  minv c -> 0 <= n -> MirroredBuffer_Consume c n = Ok (c', k) ->
  k = Z.min n (MirroredBuffer_UsedSpace c) /\ minv c' /\
  MirroredBuffer_size c' = MirroredBuffer_size c /\
  MirroredBuffer_tail c' = MirroredBuffer_tail c /\
  MirroredBuffer_used c' = MirroredBuffer_used c - k /\
  MirroredBuffer_head c' = (MirroredBuffer_head c + k) mod MirroredBuffer_size c.
Proof.
  destruct c as [sl size mask h t u]. unfold minv; cbn. intros Hi Hn.
  unf; cbn. brk; intros H; inv_ok; cbn; repeat split; try lia; modfin.
Qed.

Lemma reset_spec c c' r :
  minv c -> MirroredBuffer_Reset c = Ok (c', r) ->
  minv c' /\ MirroredBuffer_used c' = 0 /\ MirroredBuffer_size c' = MirroredBuffer_size c.
Proof.
  destruct c as [sl size mask h t u]. unfold minv; cbn. intros Hi.
  unf; cbn. intros H; inv_ok; cbn; repeat split; try lia.
Qed.

Lemma used_plus_free c : MirroredBuffer_UsedSpace c + MirroredBuffer_FreeSpace c = MirroredBuffer_Size c.
Proof. unf. lia. Qed.

(* the ring positions a claim may cover never coincide with the position of a queued byte *)
Lemma no_alias c i j :
  minv c -> 0 <= i < MirroredBuffer_FreeSpace c -> 0 <= j < MirroredBuffer_UsedSpace c ->
  (MirroredBuffer_tail c + i) mod MirroredBuffer_size c <> (MirroredBuffer_head c + j) mod MirroredBuffer_size c.
Proof.
  destruct c as [sl size mask h t u]. unfold minv; cbn. unf; cbn. intros Hi H1 H2.
  destruct Hi as (Hs & _ & Hh & Ht & Hu & Heq). subst t.
  intros Hc. rewrite Zplus_mod_idemp_l in Hc.
  assert (Hm : ((h + u + i) - (h + j)) mod size = 0).
  { rewrite Zminus_mod, Hc, Z.sub_diag. apply Z.mod_0_l. lia. }
  replace (h + u + i - (h + j)) with (u + i - j) in Hm by lia.
  rewrite Z.mod_small in Hm by lia. lia.
Qed.

(* ---------------------------------------------------------------- histories *)

Definition msinv (s : mst) : Prop := minv (mcur s).

Lemma mstep_inv s o s' r : msinv s -> mnonneg o -> mstep s o = Ok (s', r) ->
  msinv s' /\ MirroredBuffer_size (mcur s') = MirroredBuffer_size (mcur s).
Proof.
  unfold msinv. intros Hi Hn Hs.
  destruct o as [n|st|n|n| |]; cbn [mstep mnonneg] in *.
  - destruct (MirroredBuffer_Claim (mcur s) n) as [[c rr]|] eqn:E; cbn [obind] in Hs; [|discriminate]. inv_ok.
    destruct (claim_spec _ _ _ _ Hi Hn E) as [-> _]. cbn. auto.
  - destruct (mlive s); inv_ok; cbn; auto.
  - destruct (MirroredBuffer_Commit (mcur s) n) as [[c k]|] eqn:E; cbn [obind] in Hs; [|discriminate]. inv_ok.
    destruct (commit_spec _ _ _ _ Hi Hn E) as (_ & Hi' & Hsz & _). cbn. auto.
  - destruct (MirroredBuffer_Consume (mcur s) n) as [[c k]|] eqn:E; cbn [obind] in Hs; [|discriminate]. inv_ok.
    destruct (consume_spec _ _ _ _ Hi Hn E) as (_ & Hi' & Hsz & _). cbn. auto.
  - destruct (MirroredBuffer_Reset (mcur s)) as [[c k]|] eqn:E; cbn [obind] in Hs; [|discriminate]. inv_ok.
    destruct (reset_spec _ _ _ Hi E) as (Hi' & _ & Hsz). cbn. auto.
  - inv_ok. auto.
Qed.

Lemma mstep_no_panic s o : msinv s -> mnonneg o -> mstep s o <> Panic.
Proof.
  unfold msinv. intros Hi Hn.
  destruct o as [n|st|n|n| |]; cbn [mstep mnonneg] in *.
  - pose proof (claim_no_panic _ _ Hi Hn). destruct (MirroredBuffer_Claim (mcur s) n) as [[? ?]|]; cbn; congruence.
  - destruct (mlive s); discriminate.
  - destruct (mcur s) as [sl size mask h t u]. unf; cbn. brk; discriminate.
  - destruct (mcur s) as [sl size mask h t u]. unf; cbn. brk; discriminate.
  - destruct (mcur s) as [sl size mask h t u]. unf; cbn. discriminate.
  - discriminate.
Qed.

Lemma mrun_inv ops : forall s, msinv s -> Forall mnonneg ops ->
  exists s', mrun s ops = Ok s' /\ msinv s' /\ MirroredBuffer_size (mcur s') = MirroredBuffer_size (mcur s).
Proof.
  induction ops as [|o ops IH]; intros s Hb Hf; cbn [mrun].
  - eauto.
  - inversion Hf as [|? ? Ho Hrest]; subst.
    destruct (mstep s o) as [[s1 r]|] eqn:E.
    + cbn [obind]. destruct (mstep_inv _ _ _ _ Hb Ho E) as [Hi1 Hsz1].
      destruct (IH s1 Hi1 Hrest) as (s' & Hr & Hi' & Hsz'). exists s'. split; [exact Hr|]. split; [exact Hi'|]. rewrite Hsz'. exact Hsz1.
    + exfalso. eapply mstep_no_panic; eauto.
Qed.

Lemma reachable page req b ops :
  0 < page -> MirroredBuffer_new page req = Some b -> Forall mnonneg ops ->
  exists s, mrun (minit b) ops = Ok s /\ minv (mcur s) /\ MirroredBuffer_size (mcur s) = MirroredBuffer_size b.
Proof.
  intros Hp Hn Hf. destruct (new_spec _ _ _ Hp Hn) as (Hi & _).
  apply (mrun_inv ops (minit b)); auto.
Qed.
