(* C18: proofs about Model/Handshake.v *)
From Coq Require Import ZifyBool Permutation.
From Sonic Require Import Base.Prelude Base.ListLemmas Gen.Consts Model.Handshake.
Local Open Scope Z_scope.
Local Arguments Z.add : simpl never.
Local Arguments Z.sub : simpl never.
Local Arguments Z.mul : simpl never.

(* the byte stream a transport script delivers *)
Fixpoint flat (tr : list tev) : list Z :=
  match tr with [] => [] | TChunk d :: r => d ++ flat r | _ :: r => flat r end.

Lemma find_end_prefix : forall p q i e, find_end p i = Some e -> find_end (p ++ q) i = Some e.
Proof.
  induction p as [|a p IH]; intros q i e H; [discriminate|].
  cbn [find_end] in H. cbn [find_end app].
  destruct p as [|b [|c [|d p']]]; try discriminate.
  cbn [app]. destruct ((a =? cCR) && (b =? cLF) && (c =? cCR) && (d =? cLF)); [exact H|].
  apply (IH q (i + 1) e H).
Qed.

Lemma find_end_range : forall l i e, find_end l i = Some e -> i + 4 <= e <= i + zlen l.
Proof.
  induction l as [|a l IH]; intros i e H; [discriminate|].
  cbn [find_end] in H. destruct l as [|b [|c [|d l']]]; try discriminate.
  destruct ((a =? cCR) && (b =? cLF) && (c =? cCR) && (d =? cLF)).
  - inversion H; subst. unfold zlen; cbn [length]. lia.
  - specialize (IH (i + 1) e H). unfold zlen in *; cbn [length] in *. lia.
Qed.

Lemma tread_flat room tr d err tr1 :
  tread room tr = (d, err, tr1) -> 0 <= room -> flat tr = d ++ flat tr1 /\ zlen d <= room.
Proof.
  unfold tread. intros H Hr. destruct tr as [|[c| |] r].
  - inversion H; subst. split; [reflexivity|unfold zlen; cbn; lia].
  - destruct (zlen c <=? room) eqn:E; inversion H; subst; cbn [flat].
    + split; [reflexivity|lia].
    + rewrite app_assoc, ztake_zdrop_split. split; [reflexivity|]. rewrite zlen_ztake; lia.
  - inversion H; subst. split; [reflexivity|unfold zlen; cbn; lia].
  - inversion H; subst. split; [reflexivity|unfold zlen; cbn; lia].
Qed.

(* The read loop, for every segmentation, buffer size and fuel: no byte is lost, duplicated or reordered (what is
   buffered followed by what the transport still holds is the stream), and the head it reports ends at the FIRST blank
   line of the stream. *)
Theorem read_head_conserves fuel : forall buf cap tr buf1 e tr1,
  read_head fuel buf cap tr = HDone buf1 e tr1 -> zlen buf <= cap ->
  buf1 ++ flat tr1 = buf ++ flat tr /\ find_end buf1 0 = Some e /\ find_end (buf ++ flat tr) 0 = Some e.
Proof.
  induction fuel as [|f IH]; intros buf cap tr buf1 e tr1 H Hc; [discriminate|].
  cbn [read_head] in H.
  destruct ((zlen buf =? cap) && (hs_limit <=? cap)); [discriminate|].
  set (cap1 := if zlen buf =? cap then 2 * cap else cap) in *.
  assert (Hc1 : zlen buf <= cap1) by (unfold cap1; pose proof (zlen_nonneg buf); destruct (zlen buf =? cap) eqn:E; lia).
  destruct (tread (cap1 - zlen buf) tr) as [[d err] tr2] eqn:Et.
  destruct (tread_flat _ _ _ _ _ Et ltac:(lia)) as [Hf Hd].
  destruct (find_end (buf ++ d) 0) as [e0|] eqn:Ef.
  - inversion H; subst. rewrite Hf, app_assoc. split; [reflexivity|]. split; [exact Ef|].
    apply find_end_prefix. exact Ef.
  - destruct (err =? 0); [|discriminate].
    destruct (IH _ _ _ _ _ _ H ltac:(rewrite zlen_app; lia)) as (A & B & C).
    rewrite Hf, app_assoc. rewrite <- app_assoc in A, C. rewrite <- app_assoc. auto.
Qed.

(* Independence from the segmentation: two runs over transports that deliver the same byte stream, whatever the cuts,
   buffer sizes and fuel, agree on the head and on the frame data that follows it. *)
Theorem read_head_segmentation_independent f1 f2 cap1 cap2 tr1 tr2 b1 e1 r1 b2 e2 r2 :
  read_head f1 [] cap1 tr1 = HDone b1 e1 r1 -> read_head f2 [] cap2 tr2 = HDone b2 e2 r2 ->
  0 <= cap1 -> 0 <= cap2 -> flat tr1 = flat tr2 ->
  e1 = e2 /\ ztake e1 b1 = ztake e2 b2 /\ zdrop e1 b1 ++ flat r1 = zdrop e2 b2 ++ flat r2.
Proof.
  intros H1 H2 C1 C2 Hs.
  destruct (read_head_conserves _ _ _ _ _ _ _ H1 ltac:(unfold zlen; cbn; lia)) as (A1 & B1 & D1).
  destruct (read_head_conserves _ _ _ _ _ _ _ H2 ltac:(unfold zlen; cbn; lia)) as (A2 & B2 & D2).
  cbn [app] in *. rewrite Hs in D1. rewrite D1 in D2. inversion D2; subst e2.
  split; [reflexivity|].
  pose proof (find_end_range _ _ _ B1) as R1. pose proof (find_end_range _ _ _ B2) as R2.
  assert (Hst : b1 ++ flat r1 = b2 ++ flat r2) by (rewrite A1, A2, Hs; reflexivity).
  assert (Ht : ztake e1 b1 = ztake e1 b2).
  { rewrite <- (ztake_app_l e1 b1 (flat r1)) by lia. rewrite <- (ztake_app_l e1 b2 (flat r2)) by lia. rewrite Hst. reflexivity. }
  split; [exact Ht|].
  rewrite <- (zdrop_app_l e1 b1 (flat r1)) by lia. rewrite <- (zdrop_app_l e1 b2 (flat r2)) by lia. rewrite Hst. reflexivity.
Qed.

Lemma read_head_fail_cls fuel : forall buf cap tr c tr1, read_head fuel buf cap tr = HFail c tr1 -> c <> 0.
Proof.
  induction fuel as [|f IH]; intros buf cap tr c tr1 H; [discriminate|]. cbn [read_head] in H.
  destruct ((zlen buf =? cap) && (hs_limit <=? cap)); [inversion H; lia|].
  destruct (tread _ tr) as [[d err] tr2]. destruct (find_end (buf ++ d) 0); [discriminate|].
  destruct (err =? 0); [eapply IH; exact H|]. inversion H. destruct (err =? 1); lia.
Qed.

(* The handshake as a whole: the stream ends active (exactly when the result is nil) or terminated, never in between;
   it is active only if the head of the byte stream - up to its first blank line - is accepted, and then the bytes given
   to the frame decoder followed by what the transport still holds are exactly the bytes after that blank line: none
   lost, none duplicated, whatever the segmentation. *)
Theorem handshake_spec s tr expected s1 cls tr1 :
  handshake s tr expected = (s1, cls, tr1) ->
  (h_state s1 = 1 <-> cls = 0) /\ (h_state s1 = 1 \/ h_state s1 = 5) /\
  (cls = 0 ->
     exists e, find_end (flat tr) 0 = Some e /\ hs_verdict (ztake e (flat tr)) expected = 0 /\
               h_src s1 ++ flat tr1 = zdrop e (flat tr)).
Proof.
  unfold handshake. cbv zeta. set (cap0 := Z.max hs_buffer_size (h_cap s)).
  assert (Hcap0 : zlen (@nil Z) <= cap0) by (unfold cap0, zlen, hs_buffer_size; cbn; lia).
  generalize (read_cap hs_fuel [] cap0 tr). intros cap1.
  destruct (read_head hs_fuel [] cap0 tr) as [buf e tr2|c tr2|] eqn:Er.
  - destruct (read_head_conserves _ _ _ _ _ _ _ Er Hcap0) as (A & B & C).
    cbn [app] in A, C. pose proof (find_end_range _ _ _ B) as R.
    assert (Hhead : ztake e (flat tr) = ztake e buf) by (rewrite <- A; apply ztake_app_l; lia).
    assert (Hrest : zdrop e (flat tr) = zdrop e buf ++ flat tr2) by (rewrite <- A; apply zdrop_app_l; lia).
    destruct (hs_verdict (ztake e buf) expected =? 0) eqn:Ev.
    + intros H; inversion H; subst; cbn. split; [split; auto|]. split; [auto|]. intros _.
      exists e. rewrite Hhead, Hrest. repeat split; auto. lia.
    + destruct (hs_verdict (ztake e buf) expected =? 3) eqn:Ev3; intros H; inversion H; subst; cbn;
        (split; [split; intros; lia|]; split; [auto|]; intros; lia).
  - pose proof (read_head_fail_cls _ _ _ _ _ _ Er) as Hc.
    intros H; inversion H; subst; cbn. split; [split; intros; lia|]. split; [auto|]. intros; lia.
  - intros H; inversion H; subst; cbn. split; [split; intros; lia|]. split; [auto|]. intros; lia.
Qed.

(* ---- the hs_verdict does not depend on optional whitespace, letter case of names, or header order *)
Lemma list_eqb_eq a : forall b, list_eqb a b = true <-> a = b.
Proof.
  induction a as [|x a IH]; intros [|y b]; cbn; split; intros H; try reflexivity; try discriminate.
  - apply andb_prop in H. destruct H as [H1 H2]. apply IH in H2. f_equal; [lia|exact H2].
  - inversion H; subst. rewrite Z.eqb_refl. cbn. apply IH. reflexivity.
Qed.

Lemma ltrim_ows ws l : forallb is_ows ws = true -> ltrim (ws ++ l) = ltrim l.
Proof. induction ws as [|w ws IH]; cbn; intros H; [reflexivity|]. apply andb_prop in H. destruct H as [H1 H2]. rewrite H1. auto. Qed.

Lemma ltrim_id l : match l with a :: _ => is_ows a = false | [] => True end -> ltrim l = l.
Proof. destruct l as [|a l]; cbn; intros H; [reflexivity|]. rewrite H. reflexivity. Qed.

Lemma forallb_rev {A} (f : A -> bool) l : forallb f (rev l) = forallb f l.
Proof.
  induction l as [|a l IH]; cbn; [reflexivity|]. rewrite forallb_app, IH. cbn. rewrite andb_true_r. apply andb_comm.
Qed.

(* a value without leading or trailing blanks, surrounded by any blanks, is recovered exactly *)
Theorem trim_ows ws1 ws2 v :
  forallb is_ows ws1 = true -> forallb is_ows ws2 = true ->
  match v with a :: _ => is_ows a = false | [] => True end ->
  match rev v with a :: _ => is_ows a = false | [] => True end ->
  trim (ws1 ++ v ++ ws2) = v.
Proof.
  intros H1 H2 Hv Hr. unfold trim. rewrite ltrim_ows by exact H1.
  destruct v as [|a v].
  - cbn [app]. assert (E : ltrim ws2 = []).
    { clear -H2. induction ws2 as [|w ws IH]; cbn in *; [reflexivity|]. apply andb_prop in H2. destruct H2 as [A B]. rewrite A. auto. }
    rewrite E. reflexivity.
  - rewrite (ltrim_id ((a :: v) ++ ws2)) by exact Hv.
    rewrite rev_app_distr. rewrite ltrim_ows by (rewrite forallb_rev; exact H2).
    rewrite ltrim_id by exact Hr. apply rev_involutive.
Qed.

Lemma split_at_app c name rest :
  forallb (fun b => negb (b =? c)) name = true -> forall acc, split_at c (name ++ c :: rest) acc = Some (acc ++ name, rest).
Proof.
  induction name as [|a name IH]; cbn; intros H acc.
  - rewrite Z.eqb_refl, app_nil_r. reflexivity.
  - apply andb_prop in H. destruct H as [H1 H2]. destruct (a =? c); [discriminate|].
    rewrite (IH H2). rewrite <- app_assoc. reflexivity.
Qed.

(* a header line in any letter case and with any optional whitespace around the value parses to the same pair *)
Theorem parse_header_canonical name ws1 v ws2 :
  name <> [] -> forallb is_tchar name = true ->
  forallb is_ows ws1 = true -> forallb is_ows ws2 = true ->
  match v with a :: _ => is_ows a = false | [] => True end ->
  match rev v with a :: _ => is_ows a = false | [] => True end ->
  parse_header (name ++ cCOLON :: ws1 ++ v ++ ws2) = Some (map lower name, v).
Proof.
  intros Hn Ht H1 H2 Hv Hr. unfold parse_header.
  rewrite (split_at_app cCOLON name).
  - cbn [app]. destruct name; [contradiction|]. rewrite Ht. rewrite trim_ows by assumption. reflexivity.
  - clear -Ht. induction name as [|a name IH]; cbn in *; [reflexivity|]. apply andb_prop in Ht. destruct Ht as [A B].
    rewrite (IH B), andb_true_r. unfold is_tchar, is_digit, cCOLON in *. cbn in A. lia.
Qed.

(* header order: with distinct names, any permutation of the header list gives the same lookups *)
Theorem hget_permutation hs hs' n :
  Permutation hs hs' -> NoDup (map fst hs) -> hget n hs = hget n hs'.
Proof.
  induction 1 as [|[k v] l l' HP IH|[k1 v1] [k2 v2] l|l1 l2 l3 HP1 IH1 HP2 IH2]; intros Hnd.
  - reflexivity.
  - cbn. inversion Hnd; subst. rewrite IH by assumption. reflexivity.
  - cbn. inversion Hnd as [|? ? Hin Hnd']; subst. cbn in Hin.
    destruct (list_eqb k2 n) eqn:E2; destruct (list_eqb k1 n) eqn:E1; try reflexivity.
    apply list_eqb_eq in E1, E2. subst. exfalso. apply Hin. left. reflexivity.
  - rewrite IH1 by assumption. apply IH2. eapply Permutation_NoDup; [apply Permutation_map; exact HP1|exact Hnd].
Qed.

(* ================================================================ completeness of the read loop *)
(* A response head that ends within the size limit is always found - whatever the segmentation, as long as the transport
   delivers data (no end of stream or error before the blank line) - so a conforming response is never refused by the
   read loop. *)
Definition is_chunk (ev : tev) : bool := match ev with TChunk _ => true | _ => false end.

Lemma find_end_within : forall p q i e, find_end (p ++ q) i = Some e -> e <= i + zlen p -> find_end p i = Some e.
Proof.
  induction p as [|a p IH]; intros q i e H He.
  - cbn [app] in H. pose proof (find_end_range _ _ _ H). unfold zlen in He; cbn in He. lia.
  - cbn [app find_end] in H. cbn [find_end].
    destruct p as [|b [|c [|d p']]].
    + (* one byte in p: the end would need i + 4 <= e <= i + 1 *)
      exfalso. cbn [app] in H.
      destruct q as [|b [|c [|d q']]]; try discriminate.
      destruct ((a =? cCR) && (b =? cLF) && (c =? cCR) && (d =? cLF)).
      * inversion H; subst. unfold zlen in He; cbn in He. lia.
      * pose proof (find_end_range _ _ _ H). unfold zlen in He; cbn in He. lia.
    + exfalso. cbn [app] in H.
      destruct q as [|c [|d q']]; try discriminate.
      destruct ((a =? cCR) && (b =? cLF) && (c =? cCR) && (d =? cLF)).
      * inversion H; subst. unfold zlen in He; cbn in He. lia.
      * pose proof (find_end_range _ _ _ H). unfold zlen in He; cbn in He. lia.
    + exfalso. cbn [app] in H.
      destruct q as [|d q']; try discriminate.
      destruct ((a =? cCR) && (b =? cLF) && (c =? cCR) && (d =? cLF)).
      * inversion H; subst. unfold zlen in He; cbn in He. lia.
      * pose proof (find_end_range _ _ _ H). unfold zlen in He; cbn in He. lia.
    + cbn [app] in H.
      destruct ((a =? cCR) && (b =? cLF) && (c =? cCR) && (d =? cLF)); [exact H|].
      apply (IH q (i + 1) e H). unfold zlen in *; cbn [length] in *. lia.
Qed.

Theorem read_head_complete fuel : forall n buf cap tr e,
  zlen buf <= cap -> 0 < cap -> forallb is_chunk tr = true ->
  find_end buf 0 = None -> find_end (buf ++ flat tr) 0 = Some e -> e <= hs_limit -> hs_limit <= cap * 2 ^ Z.of_nat n ->
  2 * zlen tr + 2 * Z.of_nat n + (if zlen buf =? cap then 0 else 1) < Z.of_nat fuel ->
  exists buf1 tr1, read_head fuel buf cap tr = HDone buf1 e tr1.
Proof.
  induction fuel as [|f IH]; intros n buf cap tr e Hc Hpos Hch Hnone Hend He Hn Hfuel.
  { pose proof (zlen_nonneg tr). destruct (zlen buf =? cap); lia. }
  cbn [read_head].
  destruct ((zlen buf =? cap) && (hs_limit <=? cap)) eqn:Efull.
  { (* full at the limit: the end lies within the buffer, it would have been found *)
    exfalso. apply andb_true_iff in Efull as [E1 E2].
    rewrite (find_end_within buf (flat tr) 0 e Hend) in Hnone by lia. discriminate. }
  set (cap1 := if zlen buf =? cap then 2 * cap else cap).
  assert (Hgrow : (zlen buf =? cap) = true -> (1 <= n)%nat /\ hs_limit <= cap1 * 2 ^ Z.of_nat (n - 1)).
  { intros E. rewrite E in Efull. cbn [andb] in Efull.
    destruct n as [|n']; [cbn in Hn; lia|]. split; [lia|].
    unfold cap1. rewrite E. replace (S n' - 1)%nat with n' by lia.
    rewrite Nat2Z.inj_succ, Z.pow_succ_r in Hn by lia. lia. }
  assert (Hc1 : zlen buf <= cap1) by (unfold cap1; destruct (zlen buf =? cap); lia).
  destruct tr as [|ev r].
  { exfalso. cbn [flat] in Hend. rewrite app_nil_r in Hend. congruence. }
  cbn [forallb] in Hch. apply andb_true_iff in Hch as [Hev Hr].
  destruct ev as [d| |]; try discriminate. cbn [tread flat] in *.
  assert (Hlen : zlen (TChunk d :: r) = 1 + zlen r) by (unfold zlen; cbn [length]; lia).
  rewrite Hlen in Hfuel.
  destruct (zlen d <=? cap1 - zlen buf) eqn:Efit.
  - (* the whole chunk fits *)
    destruct (find_end (buf ++ d) 0) as [e0|] eqn:Ef.
    + pose proof (find_end_prefix _ (flat r) _ _ Ef) as Hp. rewrite <- app_assoc in Hp. rewrite Hp in Hend.
      inversion Hend; subst. eauto.
    + change (0 =? 0) with true. cbv iota.
      assert (Hp1 : 0 < cap1) by (unfold cap1; destruct (zlen buf =? cap); lia).
      destruct (zlen buf =? cap) eqn:E.
      * destruct (Hgrow eq_refl) as [Hn1 Hn2].
        apply (IH (n - 1)%nat (buf ++ d) cap1 r e);
          [rewrite zlen_app; lia|exact Hp1|exact Hr|exact Ef|rewrite <- app_assoc; exact Hend|exact He|exact Hn2|].
        pose proof (zlen_nonneg r). destruct (zlen (buf ++ d) =? cap1); lia.
      * apply (IH n (buf ++ d) cap1 r e);
          [rewrite zlen_app; lia|exact Hp1|exact Hr|exact Ef|rewrite <- app_assoc; exact Hend|exact He|exact Hn|].
        pose proof (zlen_nonneg r). destruct (zlen (buf ++ d) =? cap1); lia.
  - (* the buffer takes a part of the chunk and is full *)
    set (room := cap1 - zlen buf) in *.
    assert (Hroom : 0 <= room < zlen d) by (unfold room; lia).
    assert (Hfull1 : zlen (buf ++ ztake room d) = cap1) by (rewrite zlen_app, zlen_ztake by lia; unfold room; lia).
    assert (Hstream : (buf ++ ztake room d) ++ flat (TChunk (zdrop room d) :: r) = buf ++ d ++ flat r).
    { cbn [flat]. rewrite <- !app_assoc. f_equal. rewrite app_assoc, ztake_zdrop_split. reflexivity. }
    destruct (find_end (buf ++ ztake room d) 0) as [e0|] eqn:Ef.
    + pose proof (find_end_prefix _ (flat (TChunk (zdrop room d) :: r)) _ _ Ef) as Hp. rewrite Hstream, Hend in Hp.
      inversion Hp; subst. eauto.
    + change (0 =? 0) with true. cbv iota.
      assert (Hlen1 : zlen (TChunk (zdrop room d) :: r) = 1 + zlen r) by (unfold zlen; cbn [length]; lia).
      assert (Hp1 : 0 < cap1) by (unfold cap1; destruct (zlen buf =? cap); lia).
      destruct (zlen buf =? cap) eqn:E.
      * destruct (Hgrow eq_refl) as [Hn1 Hn2].
        apply (IH (n - 1)%nat (buf ++ ztake room d) cap1 (TChunk (zdrop room d) :: r) e);
          [lia|exact Hp1|cbn [forallb is_chunk]; exact Hr|exact Ef|rewrite Hstream; exact Hend|exact He|exact Hn2|].
        rewrite Hlen1, Hfull1, Z.eqb_refl. pose proof (zlen_nonneg r). lia.
      * apply (IH n (buf ++ ztake room d) cap1 (TChunk (zdrop room d) :: r) e);
          [lia|exact Hp1|cbn [forallb is_chunk]; exact Hr|exact Ef|rewrite Hstream; exact Hend|exact He|exact Hn|].
        rewrite Hlen1, Hfull1, Z.eqb_refl. pose proof (zlen_nonneg r). lia.
Qed.

Lemma handshake_done s tr expected buf e tr2 :
  read_head hs_fuel [] (Z.max hs_buffer_size (h_cap s)) tr = HDone buf e tr2 -> hs_verdict (ztake e buf) expected = 0 ->
  snd (fst (handshake s tr expected)) = 0.
Proof.
  intros Hr Hv. unfold handshake. cbv zeta. generalize (read_cap hs_fuel [] (Z.max hs_buffer_size (h_cap s)) tr). intros rc.
  rewrite Hr, Hv. reflexivity.
Qed.

(* A conforming response is accepted: for every segmentation into at most 90 data segments of a response whose head ends within
   64 KiB and is acceptable, on a stream in any state, the handshake ends active with exactly the bytes behind the blank
   line handed to the frame decoder or still in the transport. *)
Theorem handshake_accepts s tr expected e :
  forallb is_chunk tr = true -> (length tr <= 90)%nat ->
  find_end (flat tr) 0 = Some e -> e <= hs_limit -> hs_verdict (ztake e (flat tr)) expected = 0 ->
  exists s1 tr1, handshake s tr expected = (s1, 0, tr1) /\ h_state s1 = 1 /\ h_src s1 ++ flat tr1 = zdrop e (flat tr).
Proof.
  intros Hch Hlen Hend He Hv.
  set (cap0 := Z.max hs_buffer_size (h_cap s)).
  assert (P1 : zlen (@nil Z) <= cap0) by (unfold cap0, hs_buffer_size; change (zlen (@nil Z)) with 0; lia).
  assert (P2 : 0 < cap0) by (unfold cap0, hs_buffer_size; lia).
  assert (P4 : find_end (@nil Z) 0 = None) by reflexivity.
  assert (P7 : hs_limit <= cap0 * 2 ^ Z.of_nat 6).
  { change (2 ^ Z.of_nat 6) with 64. unfold cap0, hs_buffer_size, hs_limit. lia. }
  assert (P8 : 2 * zlen tr + 2 * Z.of_nat 6 + (if zlen (@nil Z) =? cap0 then 0 else 1) < Z.of_nat hs_fuel).
  { assert (Hf200 : Z.of_nat hs_fuel = 200) by reflexivity. rewrite Hf200.
    assert (zlen tr <= 90) by (unfold zlen; lia). change (Z.of_nat 6) with 6.
    destruct (zlen (@nil Z) =? cap0); lia. }
  destruct (read_head_complete hs_fuel 6 [] cap0 tr e P1 P2 Hch P4 Hend He P7 P8) as (buf1 & tr2 & Hrh).
  destruct (read_head_conserves _ _ _ _ _ _ _ Hrh P1) as (A1 & B1 & C1).
  cbn [app] in A1. pose proof (find_end_range _ _ _ B1) as R.
  assert (Hhead : ztake e (flat tr) = ztake e buf1) by (rewrite <- A1; apply ztake_app_l; lia).
  rewrite Hhead in Hv.
  pose proof (handshake_done s tr expected buf1 e tr2 Hrh Hv) as Hcls.
  destruct (handshake s tr expected) as [[s1 cls] tr1] eqn:Eh. cbn [fst snd] in Hcls. subst cls.
  pose proof (handshake_spec _ _ _ _ _ _ Eh) as (A & B & C).
  exists s1, tr1. split; [reflexivity|]. split; [apply A; reflexivity|].
  destruct (C eq_refl) as (e' & E1 & _ & E3). rewrite Hend in E1. inversion E1; subst. exact E3.
Qed.
