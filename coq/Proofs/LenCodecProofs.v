(* C19: the length-prefixed codec model refines the pure parser; sessions stay in sync; round trip through the wire. *)
From Coq Require Import ZifyBool.
From Sonic Require Import Base.Prelude Base.ListLemmas Gen.Consts Model.ByteBuffer Spec.ThreeFifo Spec.LenParser
  Model.WsCodec Model.Transport Model.LenCodec Proofs.WsCodecProofs.
Local Open Scope Z_scope.
Local Arguments Z.mul : simpl never.
Local Arguments Z.add : simpl never.
Local Arguments Z.sub : simpl never.

Definition linv (c : lcodec) : Prop :=
  l_reset c = true -> 0 <= l_bytes c <= zlen (t_read (l_src c)).

Lemma l_reset_spec c : linv c ->
  let c1 := l_reset_decode c in
  l_reset c1 = false /\ t_read (l_src c1) ++ t_pend (l_src c1) = l_unread c.
Proof.
  intros Hr. unfold l_reset_decode, l_unread.
  destruct (l_reset c) eqn:E; cbn [l_reset l_src].
  - specialize (Hr E). unfold tconsume. cbn [tfstep fst t_read t_pend].
    assert (Hk : clamp (l_bytes c) 0 (zlen (t_read (l_src c))) = l_bytes c) by (unfold clamp; lia).
    rewrite Hk. rewrite zdrop_app_l by lia. auto.
  - rewrite zdrop_nonpos by lia. auto.
Qed.

Lemma be32_nonneg l : bytes l -> 0 <= be32 l.
Proof. intros H. pose proof (be_bound l H). unfold be32, FrameParser.be in *. lia. Qed.

Theorem ldecode_spec c c' r :
  linv c -> bytes (l_unread c) -> ldecode c = (c', r) ->
  linv c' /\
  match lparse1 (l_unread c) with
  | LNeedMore => r = LDNeedMore /\ l_unread c' = l_unread c
  | LOverflow => r = LDOverflow /\ l_unread c' = l_unread c
  | LItem p rest => r = LDItem p /\ l_unread c' = rest
  end.
Proof.
  intros Hc HVb Hd. destruct (l_reset_spec c Hc) as (Hr1 & HV1).
  unfold ldecode in Hd. set (c1 := l_reset_decode c) in *. set (V := l_unread c) in *.
  unfold lparse1. fold V. change frame_HeaderLen with 4 in *.
  assert (Hun : forall s, t_read s ++ t_pend s = V -> l_unread (l_with c1 s) = V).
  { intros s Hs. unfold l_unread, l_with; cbn [l_reset l_bytes l_src]. rewrite Hr1. rewrite zdrop_nonpos by lia. exact Hs. }
  assert (Hci : forall s, linv (l_with c1 s)).
  { intros s. unfold linv, l_with; cbn [l_reset]. rewrite Hr1. discriminate. }
  destruct (tprep (l_src c1) 4) as [s1 ok1] eqn:E1.
  destruct (tprep_spec _ _ _ _ E1) as (HVs1 & _ & _ & Hok1 & Hlen1). rewrite HV1 in HVs1, Hok1.
  destruct ok1; cbn [negb] in Hd.
  2:{ inversion Hd; subst.
      replace (zlen V <? 4) with true by (destruct (zlen V <? 4) eqn:?; [reflexivity|]; exfalso; assert (4 <= zlen V) by lia; intuition discriminate).
      split; [apply Hci|]. split; [reflexivity|]. apply Hun. exact HVs1. }
  assert (H4 : 4 <= zlen V) by (apply Hok1; reflexivity).
  replace (zlen V <? 4) with false by lia.
  rewrite (tdata_spec s1 4) in Hd by (specialize (Hlen1 eq_refl); lia). rewrite HVs1 in Hd.
  set (n := be32 (ztake 4 V)) in *.
  assert (Hn0 : 0 <= n) by (apply be32_nonneg, bytes_ztake, HVb).
  destruct (n >? frame_MaxPayloadLength) eqn:Ebig.
  { inversion Hd; subst. split; [apply Hci|]. split; [reflexivity|]. apply Hun. exact HVs1. }
  destruct (tprep s1 (4 + n)) as [s2 ok2] eqn:E2.
  destruct (tprep_spec _ _ _ _ E2) as (HVs2 & _ & _ & Hok2 & Hlen2). rewrite HVs1 in HVs2, Hok2.
  destruct ok2; cbn [negb] in Hd.
  2:{ inversion Hd; subst.
      replace (zlen V <? 4 + n) with true by (destruct (zlen V <? 4 + n) eqn:?; [reflexivity|]; exfalso; assert (4 + n <= zlen V) by lia; intuition discriminate).
      split; [apply Hci|]. split; [reflexivity|]. apply Hun.
      destruct (treserve_same s2 (4 + n)) as (-> & -> & _). exact HVs2. }
  assert (H5 : 4 + n <= zlen V) by (apply Hok2; reflexivity).
  replace (zlen V <? 4 + n) with false by lia.
  specialize (Hlen2 eq_refl).
  (* Consume(HeaderLen) *)
  assert (Hcons : t_read (tconsume s2 4) = zdrop 4 (t_read s2) /\ t_pend (tconsume s2 4) = t_pend s2).
  { unfold tconsume. cbn [tfstep fst t_read t_pend].
    assert (Hk : clamp 4 0 (zlen (t_read s2)) = 4) by (unfold clamp; lia). rewrite Hk. auto. }
  destruct Hcons as [Hcr Hcp].
  assert (Hl3 : zlen (t_read (tconsume s2 4)) = zlen (t_read s2) - 4) by (rewrite Hcr; apply zlen_zdrop; lia).
  assert (HV3 : t_read (tconsume s2 4) ++ t_pend (tconsume s2 4) = zdrop 4 V).
  { rewrite Hcr, Hcp. rewrite <- HVs2. rewrite zdrop_app_l by lia. reflexivity. }
  rewrite (tdata_spec (tconsume s2 4) n) in Hd by lia. rewrite HV3 in Hd.
  set (s3 := tconsume s2 4) in *. clearbody s3.
  inversion Hd; subst; clear Hd.
  split.
  - unfold linv; cbn [l_reset l_bytes l_src]. intros _. lia.
  - split.
    + f_equal. unfold zsub. f_equal. lia.
    + unfold l_unread; cbn [l_reset l_bytes l_src]. rewrite HV3. rewrite zdrop_zdrop by lia. reflexivity.
Qed.

Lemma l_feed_spec c w : linv c -> linv (l_feed c w) /\ l_unread (l_feed c w) = l_unread c ++ w.
Proof.
  intros Hr. unfold l_feed, l_with, l_unread, linv in *; cbn [l_reset l_bytes l_src t_read t_pend].
  split; [exact Hr|].
  destruct (l_reset c) eqn:E.
  - specialize (Hr eq_refl). rewrite app_assoc. rewrite zdrop_app_l; [reflexivity|]. rewrite zlen_app.
    pose proof (zlen_nonneg (t_pend (l_src c))). lia.
  - rewrite !zdrop_nonpos by lia. rewrite app_assoc. reflexivity.
Qed.

(* ---------------------------------------------------------------- round trip *)

Lemma be_bytes4_eq k n : be_bytes4 k n = WsFrame.be_bytes k n.
Proof. revert n. induction k as [|k IH]; intros n; cbn; [reflexivity|]. rewrite IH. reflexivity. Qed.

Theorem lroundtrip p rest : zlen p <= frame_MaxPayloadLength -> lparse1 (lencode p ++ rest) = LItem p rest.
Proof.
  intros Hp. pose proof (zlen_nonneg p) as Hp0. unfold lparse1, lencode. change frame_HeaderLen with 4.
  set (h := be_bytes4 4 (zlen p)).
  assert (Hh : zlen h = 4) by (unfold h; rewrite be_bytes4_eq; apply be_bytes_len).
  assert (Hv : be32 h = zlen p).
  { unfold h. rewrite be_bytes4_eq. apply (be_be_bytes 4). unfold frame_MaxPayloadLength in Hp. cbn. lia. }
  rewrite <- app_assoc. pose proof (zlen_nonneg rest).
  assert (Ht : ztake 4 (h ++ p ++ rest) = h) by (rewrite <- Hh; apply ztake_app_exact_l).
  assert (Hd : zdrop 4 (h ++ p ++ rest) = p ++ rest) by (rewrite <- Hh; apply zdrop_app_exact_l).
  rewrite Ht, Hv. rewrite !zlen_app, Hh.
  replace (4 + (zlen p + zlen rest) <? 4) with false by lia.
  replace (zlen p >? frame_MaxPayloadLength) with false by lia.
  replace (4 + (zlen p + zlen rest) <? 4 + zlen p) with false by lia.
  f_equal.
  - unfold zsub. rewrite Hd. replace (4 + zlen p - 4) with (zlen p) by lia. apply ztake_app_exact_l.
  - replace (4 + zlen p) with (zlen (h ++ p)) by (rewrite zlen_app; lia). rewrite app_assoc. apply zdrop_app_exact_l.
Qed.

(* parsing the encodings of a whole payload sequence returns the sequence *)
Fixpoint lparse_all (fuel : nat) (bs : list Z) : list (list Z) :=
  match fuel with
  | O => []
  | S f => match lparse1 bs with LItem p rest => p :: lparse_all f rest | _ => [] end
  end.

Theorem lroundtrip_seq ps : Forall (fun p => zlen p <= frame_MaxPayloadLength) ps ->
  lparse_all (S (length ps)) (concat (map lencode ps)) = ps.
Proof.
  induction ps as [|p ps IH]; intros H.
  - cbn. unfold lparse1. reflexivity.
  - inversion H; subst. cbn [map concat lparse_all]. rewrite lroundtrip by assumption.
    f_equal. apply IH. assumption.
Qed.

(* ---------------------------------------------------------------- the write path leaves nothing behind *)

Theorem write_sync_clean s p s' r :
  tr_wfail (lc_tr s) < 0 -> zlen p <= frame_MaxPayloadLength -> write_sync s p = (s', r) ->
  let pending := t_read (lc_dst s) ++ t_pend (lc_dst s) in
  tr_wire (lc_tr s') = tr_wire (lc_tr s) ++ pending ++ lencode p /\
  t_read (lc_dst s') = [] /\ t_pend (lc_dst s') = [] /\ r = CWrote (zlen (pending ++ lencode p)) 0.
Proof.
  intros Hw Hp H. unfold write_sync, lencode_into in H.
  replace (zlen p >? frame_MaxPayloadLength) with false in H by lia. cbn [negb] in H.
  unfold commit_all, tr_write_all in H. cbn [t_read t_pend t_saved t_room] in H.
  replace (tr_wfail (lc_tr s) <? 0) with true in H by lia.
  inversion H; subst; clear H. cbn [lc_tr lc_dst tr_wire].
  unfold tconsume. cbn [tfstep fst t_read t_pend].
  set (all := t_read (lc_dst s) ++ t_pend (lc_dst s) ++ lencode p).
  assert (Hk : clamp (zlen all) 0 (zlen all) = zlen all) by (pose proof (zlen_nonneg all); unfold clamp; lia).
  rewrite Hk. rewrite zdrop_all by lia. rewrite <- app_assoc. repeat split; auto.
Qed.

(* ---------------------------------------------------------------- ReadNext over an arbitrarily segmented transport *)

Definition flat (q : list inev) : list Z :=
  concat (map (fun e => match e with InData l => l | _ => [] end) q).

Definition evs_ok (q : list inev) : Prop :=
  Forall (fun e => match e with InData l => bytes l | _ => True end) q.

Lemma flat_bytes q : evs_ok q -> bytes (flat q).
Proof.
  induction q as [|e q IH]; intros H; [constructor|]. inversion H; subst. unfold flat; cbn [map concat].
  destruct e; [apply bytes_app; [assumption|apply IH; assumption]|apply IH; assumption|apply IH; assumption].
Qed.

Lemma tr_read_ev_spec q q' r : evs_ok q -> tr_read_ev q = (q', r) ->
  evs_ok q' /\
  match r with
  | RGot w => flat q = w ++ flat q' /\ bytes w /\ (length q' < length q)%nat
  | _ => flat q' = flat q /\ (length q' <= length q)%nat
  end.
Proof.
  revert q' r. induction q as [|e q IH]; intros q' r Hok H; cbn [tr_read_ev] in H.
  - inversion H; subst. split; [constructor|]. split; [reflexivity|lia].
  - inversion Hok as [|? ? He Hq]; subst. destruct e as [l| |].
    + destruct l as [|x l].
      * destruct (IH _ _ Hq H) as [H1 H2]. split; [exact H1|].
        destruct r as [w0| | |]; unfold flat in *; cbn [map concat app length] in *.
        -- destruct H2 as (A & B & C). split; [exact A|]. split; [exact B|lia].
        -- destruct H2 as [A B]; split; [exact A|lia].
        -- destruct H2 as [A B]; split; [exact A|lia].
        -- destruct H2 as [A B]; split; [exact A|lia].
      * inversion H; subst. split; [exact Hq|]. unfold flat; cbn [map concat length]. repeat split; auto.
    + inversion H; subst. split; [exact Hok|]. split; [reflexivity|lia].
    + inversion H; subst. split; [exact Hq|]. unfold flat; cbn [map concat length app]. split; [reflexivity|lia].
Qed.

Lemma lparse1_app V w p rest : lparse1 V = LItem p rest -> lparse1 (V ++ w) = LItem p (rest ++ w).
Proof.
  unfold lparse1. change frame_HeaderLen with 4. pose proof (zlen_nonneg w).
  destruct (zlen V <? 4) eqn:E1; [discriminate|].
  assert (Ht : ztake 4 (V ++ w) = ztake 4 V) by (apply ztake_app_l; lia). rewrite Ht.
  set (n := be32 (ztake 4 V)).
  destruct (n >? frame_MaxPayloadLength) eqn:E2; [discriminate|].
  destruct (zlen V <? 4 + n) eqn:E3; [discriminate|].
  intros Hi; inversion Hi; subst; clear Hi.
  rewrite zlen_app. replace (zlen V + zlen w <? 4) with false by lia.
  replace (zlen V + zlen w <? 4 + n) with false by lia.
  f_equal.
  - apply zsub_app_left; lia.
  - apply zdrop_app_l. lia.
Qed.

(* the byte stream still to be parsed: what the codec holds plus what the transport has queued *)
Definition lstream (c : lcodec) (t : tr) : list Z := l_unread c ++ flat (tr_in t).

(* ReadNext / AsyncReadNext: an item is delivered iff it is the next item of the stream; otherwise nothing is lost.
   Independent of how the transport segments the bytes. *)
Theorem read_loop_spec fuel : forall c t async c' t' r,
  linv c -> bytes (l_unread c) -> evs_ok (tr_in t) -> (length (tr_in t) < fuel)%nat ->
  read_loop fuel c t async = (c', t', r) ->
  linv c' /\ bytes (l_unread c') /\ evs_ok (tr_in t') /\
  match r with
  | CItem p => lparse1 (lstream c t) = LItem p (lstream c' t')
  | _ => lstream c' t' = lstream c t
  end.
Proof.
  induction fuel as [|f IH]; intros c t async c' t' r Hc Hb Ht Hf H; [lia|].
  cbn [read_loop] in H. destruct (ldecode c) as [c1 dr] eqn:Ed.
  destruct (ldecode_spec c c1 dr Hc Hb Ed) as (Hc1 & Hsp).
  unfold lstream.
  destruct (lparse1 (l_unread c)) as [| |p rest] eqn:Ep.
  - destruct Hsp as [-> Hu]. unfold tr_read in H. destruct (tr_read_ev (tr_in t)) as [q rr] eqn:Er.
    destruct (tr_read_ev_spec _ _ _ Ht Er) as (Hq & Hrr).
    assert (Hb1 : bytes (l_unread c1)) by (rewrite Hu; exact Hb).
    destruct rr as [w| | |].
    + destruct Hrr as (Hfl & Hw & Hlen).
      destruct (l_feed_spec c1 w Hc1) as (Hc2 & Hu2).
      assert (Hb2 : bytes (l_unread (l_feed c1 w))) by (rewrite Hu2; apply bytes_app; assumption).
      specialize (IH (l_feed c1 w) (mktr q (tr_wire t) (tr_wfail t) (tr_wblock t)) async c' t' r Hc2 Hb2 Hq ltac:(cbn; lia) H).
      destruct IH as (I1 & I2 & I3 & I4). split; [exact I1|]. split; [exact I2|]. split; [exact I3|].
      unfold lstream in I4. cbn [tr_in] in I4. rewrite Hu2, Hu in I4. rewrite Hfl. rewrite app_assoc. exact I4.
    + inversion H; subst. destruct Hrr as [Hfl _].
      split; [exact Hc1|]. split; [exact Hb1|]. split; [exact Hq|]. cbn [tr_in]. rewrite Hu, Hfl. reflexivity.
    + inversion H; subst. destruct Hrr as [Hfl _].
      split; [exact Hc1|]. split; [exact Hb1|]. split; [exact Hq|]. cbn [tr_in]. rewrite Hu, Hfl. reflexivity.
    + destruct Hrr as [Hfl _]. destruct async; inversion H; subst;
      (split; [exact Hc1|]; split; [exact Hb1|]; split; [exact Hq|]; cbn [tr_in]; rewrite Hu, Hfl; reflexivity).
  - destruct Hsp as [-> Hu]. inversion H; subst.
    split; [exact Hc1|]. split; [rewrite Hu; exact Hb|]. split; [exact Ht|]. rewrite Hu. reflexivity.
  - destruct Hsp as [-> Hu].
    assert (Hb1 : bytes (l_unread c1)).
    { rewrite Hu. unfold lparse1 in Ep. change frame_HeaderLen with 4 in Ep.
      destruct (zlen (l_unread c) <? 4); [discriminate|].
      destruct (be32 (ztake 4 (l_unread c)) >? frame_MaxPayloadLength); [discriminate|].
      destruct (zlen (l_unread c) <? 4 + be32 (ztake 4 (l_unread c))); [discriminate|].
      inversion Ep; subst. apply bytes_zdrop. exact Hb. }
    assert (Hfin : lparse1 (l_unread c ++ flat (tr_in t)) = LItem p (l_unread c1 ++ flat (tr_in t))).
    { rewrite Hu. apply lparse1_app. exact Ep. }
    clear Hu Ep. inversion H; subst.
    split; [exact Hc1|]. split; [exact Hb1|]. split; [exact Ht|]. exact Hfin.
Qed.
