(* C08 C15 C16 C06: proofs about the WebSocket stream model. *)
From Coq Require Import ZifyBool.
From Sonic Require Import Base.Prelude Base.ListLemmas Gen.Consts Gen.Preds Model.ByteBuffer Spec.ThreeFifo Model.WsFrame
  Spec.FrameParser Model.WsCodec Model.Transport Model.Utf8 Model.WsStream Proofs.WsCodecProofs.
Local Open Scope Z_scope.

(* ================================================================ the Close frame is queued at most once, last *)

Definition entry : Type := (bool * Z * list Z * list Z)%type.
Definition e_op (e : entry) : Z := snd (fst (fst e)).
Definition is_close (e : entry) : bool := e_op e =? ws_OpcodeClose.
Definition no_close (l : list entry) : Prop := Forall (fun e => is_close e = false) l.

(* at most one Close frame in the log, and nothing queued after it *)
Definition close_last (l : list entry) : Prop :=
  no_close l \/ exists pre x, l = pre ++ [x] /\ is_close x = true /\ no_close pre.

Definition log_inv (s : ws) : Prop :=
  (w_state s = ws_StateActive -> no_close (w_log s)) /\ close_last (w_log s).

Lemma no_close_app l x : no_close l -> is_close x = false -> no_close (l ++ [x]).
Proof. intros H Hx. apply Forall_app. split; [exact H|]. constructor; [exact Hx|constructor]. Qed.

Lemma queue_frame_facts s fin op p :
  w_state (queue_frame s fin op p) = w_state s /\
  (exists key, w_log (queue_frame s fin op p) = w_log s ++ [(fin, op, p, key)]) /\
  w_codec (queue_frame s fin op p) = w_codec s /\ w_tr (queue_frame s fin op p) = w_tr s /\
  w_dst (queue_frame s fin op p) = w_dst s /\ w_max (queue_frame s fin op p) = w_max s /\
  w_rpend (queue_frame s fin op p) = w_rpend s.
Proof.
  unfold queue_frame, take_key. destruct (w_keys s) as [|k r]; cbn; repeat split; eauto.
Qed.

(* queueing a non-Close frame while Active *)
Lemma queue_data_inv s fin op p :
  log_inv s -> w_state s = ws_StateActive -> op <> ws_OpcodeClose -> log_inv (queue_frame s fin op p).
Proof.
  intros [H1 H2] Ha Hop. destruct (queue_frame_facts s fin op p) as (Hs & (key & Hl) & _).
  assert (Hnc : is_close (fin, op, p, key) = false) by (unfold is_close, e_op; cbn; lia).
  unfold log_inv. rewrite Hs, Hl. split; [intros _|left]; apply no_close_app; auto.
Qed.

(* leaving Active by queueing the (single) Close frame *)
Lemma queue_close_inv s st p :
  log_inv s -> w_state s = ws_StateActive -> st <> ws_StateActive ->
  log_inv (prepare_close (set_state s st) p).
Proof.
  intros [H1 H2] Ha Hst. unfold prepare_close.
  destruct (queue_frame_facts (set_state s st) true ws_OpcodeClose p) as (Hs & (key & Hl) & _).
  unfold log_inv. rewrite Hs, Hl. cbn [set_state w_state w_log]. split; [intros E; congruence|].
  right. exists (w_log s), (true, ws_OpcodeClose, p, key). repeat split; auto.
Qed.

Lemma set_state_inv s st : log_inv s -> st <> ws_StateActive -> log_inv (set_state s st).
Proof. intros [H1 H2] Hst. unfold log_inv; cbn. split; [intros E; congruence|exact H2]. Qed.

Lemma set_state_same_inv s st : log_inv s -> (st = ws_StateActive -> w_state s = ws_StateActive) -> log_inv (set_state s st).
Proof. intros [H1 H2] Hst. unfold log_inv; cbn. split; [intros E; apply H1; auto|exact H2]. Qed.

(* transformations that touch neither the state nor the log *)
Definition same_sl (s s' : ws) : Prop := w_state s' = w_state s /\ w_log s' = w_log s.

Lemma same_sl_inv s s' : same_sl s s' -> log_inv s -> log_inv s'.
Proof. intros [A B] [H1 H2]. unfold log_inv. rewrite A, B. auto. Qed.

Lemma flush_sync_same s : same_sl s (fst (flush_sync s)).
Proof. unfold flush_sync. destruct (flush_loop _ _ _) as [[[d t] rest] err]. cbn. split; reflexivity. Qed.

Lemma flush_async_same s : same_sl s (fst (flush_async s)).
Proof. unfold flush_async. destruct (aflush_loop _ _ _) as [[[d t] rest] err]. cbn. split; reflexivity. Qed.

Lemma flush_gen_same async s : same_sl s (fst (flush_gen async s)).
Proof. destruct async; [apply flush_async_same|apply flush_sync_same]. Qed.

Lemma flush_gen_inv async s s' e : flush_gen async s = (s', e) -> log_inv s -> log_inv s'.
Proof. intros H. apply same_sl_inv. pose proof (flush_gen_same async s) as F. rewrite H in F. exact F. Qed.

Ltac consts := unfold ws_StateActive, ws_StateClosedByUs, ws_StateClosedByPeer, ws_StateCloseAcked, ws_StateTerminated,
  ws_StateHandshake, ws_OpcodeClose, ws_OpcodePing, ws_OpcodePong in *.

Lemma handle_control_inv s f s' e : handle_control s f = (s', e) -> log_inv s -> log_inv s'.
Proof.
  unfold handle_control. intros H Hi.
  destruct (negb (is_fin f)); [inversion H; subst; exact Hi|].
  destruct (payload_length f >? ws_MaxControlFramePayloadLength); [inversion H; subst; exact Hi|].
  destruct (opcode_of f =? ws_OpcodePing) eqn:E1.
  { destruct (w_state s =? ws_StateActive) eqn:Ea; inversion H; subst; [|exact Hi].
    apply queue_data_inv; [exact Hi|lia|consts; lia]. }
  destruct (opcode_of f =? ws_OpcodePong); [inversion H; subst; exact Hi|].
  destruct (opcode_of f =? ws_OpcodeClose); [|inversion H; subst; exact Hi].
  destruct (w_state s =? ws_StateActive) eqn:Ea.
  { assert (Ha : w_state s = ws_StateActive) by lia.
    assert (Hne : ws_StateClosedByPeer <> ws_StateActive) by (consts; lia).
    destruct (zlen (payload_of f) >=? 2).
    - destruct (negb (utf8_valid (zdrop 2 (payload_of f)))); [inversion H; subst; apply queue_close_inv; auto|].
      destruct (negb (ValidCloseCode (be_value (ztake 2 (payload_of f))))); inversion H; subst; apply queue_close_inv; auto.
    - destruct (zlen (payload_of f) >? 0); inversion H; subst; apply queue_close_inv; auto. }
  destruct (w_state s =? ws_StateClosedByUs) eqn:Eu; inversion H; subst; [|exact Hi].
  apply set_state_inv; [exact Hi|consts; lia].
Qed.

Lemma handle_frame_inv s f s' e : handle_frame s f = (s', e) -> log_inv s -> log_inv s'.
Proof.
  unfold handle_frame. intros H Hi.
  set (r := if negb (verify_frame f =? eNone) then (s, verify_frame f)
            else if Opcode_IsControl (opcode_of f) then handle_control s f else (s, handle_data f)) in *.
  assert (Hr : log_inv (fst r)).
  { unfold r. destruct (negb (verify_frame f =? eNone)); [exact Hi|].
    destruct (Opcode_IsControl (opcode_of f)); [|exact Hi].
    destruct (handle_control s f) as [s1 e1] eqn:E. cbn. eapply handle_control_inv; eauto. }
  destruct r as [s1 e1]. cbn in Hr.
  destruct (negb (e1 =? eNone)); [|inversion H; subst; exact Hr].
  destruct (w_state s1 =? ws_StateActive) eqn:Ea; inversion H; subst; [|exact Hr].
  apply queue_close_inv; [exact Hr|lia|consts; lia].
Qed.

Lemma set_io_same s c t : same_sl s (set_io s c t).
Proof. split; reflexivity. Qed.

Lemma after_read_inv s r s' x : after_read s r = (s', x) -> log_inv s -> log_inv s'.
Proof.
  unfold after_read. intros H Hi. destruct r as [f|e|].
  - destruct (handle_frame s f) as [s1 e1] eqn:E. inversion H; subst. eapply handle_frame_inv; eauto.
  - destruct ((e =? eEOF) && negb (w_state s =? ws_StateTerminated)); inversion H; subst; [|exact Hi].
    apply set_state_inv; [exact Hi|consts; lia].
  - inversion H; subst. exact Hi.
Qed.

Lemma read_and_handle_inv async s s' x : read_and_handle async s = (s', x) -> log_inv s -> log_inv s'.
Proof.
  unfold read_and_handle. intros H Hi. destruct (ws_read_loop _ _ _ _) as [[c t] r].
  eapply after_read_inv; [exact H|]. eapply same_sl_inv; [apply set_io_same|exact Hi].
Qed.

Lemma next_frame_gen_inv async s s' x : next_frame_gen async s = (s', x) -> log_inv s -> log_inv s'.
Proof.
  unfold next_frame_gen. intros H Hi.
  destruct (flush_gen async s) as [s1 ferr] eqn:Ef.
  assert (H1 : log_inv s1) by (eapply flush_gen_inv; eauto).
  assert (Hterm : ws_StateTerminated <> ws_StateActive) by (consts; lia).
  destruct (negb (ferr =? eNone)).
  { destruct async; inversion H; subst; [apply set_state_inv; auto|exact H1]. }
  destruct (negb (can_read s1)).
  { destruct async; inversion H; subst; [apply set_state_inv; auto|exact H1]. }
  destruct (read_and_handle async s1) as [s2 r] eqn:Er.
  assert (H2 : log_inv s2) by (eapply read_and_handle_inv; eauto).
  destruct r as [f e|]; inversion H; subst; [|exact H2].
  destruct (negb async && (e =? eEOF)); [apply set_state_inv; auto|exact H2].
Qed.

Lemma do_close_inv async s code reason s' e : do_close async s code reason = (s', e) -> log_inv s -> log_inv s'.
Proof.
  unfold do_close. intros H Hi.
  destruct (w_state s =? ws_StateActive) eqn:Ea.
  - eapply flush_gen_inv; [exact H|]. apply queue_close_inv; [exact Hi|lia|consts; lia].
  - destruct ((w_state s =? ws_StateClosedByUs) || (w_state s =? ws_StateHandshake)); inversion H; subst; exact Hi.
Qed.

Lemma msg_frame_inv async s buflen acc cont mtype f err s' m :
  msg_frame async s buflen acc cont mtype f err = (s', m) -> log_inv s -> log_inv s'.
Proof.
  unfold msg_frame. intros H Hi.
  destruct (negb (err =? eNone)); [inversion H; subst; exact Hi|].
  destruct (Opcode_IsControl (opcode_of f)); [inversion H; subst; exact Hi|].
  match type of H with context [if ?c then _ else _] => destruct c end.
  - destruct (do_close async s ws_CloseGoingAway _) as [s1 e1] eqn:Ec. inversion H; subst. eapply do_close_inv; eauto.
  - match type of H with context [if ?c then _ else _] => destruct c end; inversion H; subst; exact Hi.
Qed.

Lemma set_rpend_same s k : same_sl s (set_rpend s k).
Proof. split; reflexivity. Qed.

Lemma msg_loop_inv fuel : forall async s buflen acc cont mtype s' evs,
  msg_loop fuel async s buflen acc cont mtype = (s', evs) -> log_inv s -> log_inv s'.
Proof.
  induction fuel as [|fu IH]; intros async s buflen acc cont mtype s' evs H Hi; cbn [msg_loop] in H.
  - inversion H; subst. exact Hi.
  - destruct (next_frame_gen async s) as [s1 r] eqn:En.
    assert (H1 : log_inv s1) by (eapply next_frame_gen_inv; eauto).
    destruct r as [f err|].
    + destruct (msg_frame async s1 buflen acc cont mtype f err) as [s2 m] eqn:Em.
      assert (H2 : log_inv s2) by (eapply msg_frame_inv; eauto).
      destruct m as [evs0|acc' cont' mtype' evs0]; [inversion H; subst; exact H2|].
      destruct (msg_loop fu async s2 buflen acc' cont' mtype') as [s3 evs'] eqn:El.
      inversion H; subst. eapply IH; eauto.
    + inversion H; subst. eapply same_sl_inv; [apply set_rpend_same|exact H1].
Qed.

Lemma resume_inv s k s' evs : resume s k = (s', evs) -> log_inv s -> log_inv s'.
Proof.
  unfold resume. intros H Hi.
  destruct (read_and_handle true (set_rpend s None)) as [s1 r] eqn:Er.
  assert (H1 : log_inv s1).
  { eapply read_and_handle_inv; [exact Er|]. eapply same_sl_inv; [apply set_rpend_same|exact Hi]. }
  destruct r as [f err|].
  - destruct k as [|buflen acc cont mtype]; [inversion H; subst; exact H1|].
    destruct (msg_frame true s1 buflen acc cont mtype f err) as [s2 m] eqn:Em.
    assert (H2 : log_inv s2) by (eapply msg_frame_inv; eauto).
    destruct m as [evs0|acc' cont' mtype' evs0]; [inversion H; subst; exact H2|].
    destruct (msg_loop (mfuel s2) true s2 buflen acc' cont' mtype') as [s3 evs'] eqn:El.
    inversion H; subst. eapply msg_loop_inv; eauto.
  - inversion H; subst. eapply same_sl_inv; [apply set_rpend_same|exact H1].
Qed.

(* operations of a well-behaved caller: data frames are not built with the Close opcode *)
Definition wf_op (o : wsop) : Prop :=
  match o with
  | WWrite _ mt _ => Z.land mt 15 <> ws_OpcodeClose
  | WWriteFrame _ _ op _ => Z.land op 15 <> ws_OpcodeClose
  | _ => True
  end.

Theorem wsstep_inv s o s' evs : wf_op o -> wsstep s o = (s', evs) -> log_inv s -> log_inv s'.
Proof.
  intros Hw H Hi. destruct o; cbn [wsstep wf_op] in *.
  - destruct (w_rpend (set_io s (w_codec s) (tr_push (w_tr s) e))) eqn:Ek.
    + eapply resume_inv; [exact H|]. eapply same_sl_inv; [apply set_io_same|exact Hi].
    + inversion H; subst. eapply same_sl_inv; [apply set_io_same|exact Hi].
  - destruct (next_frame_gen false s) as [s1 r] eqn:En. assert (H1 : log_inv s1) by (eapply next_frame_gen_inv; eauto).
    destruct r; cbn in H; inversion H; subst; [exact H1|eapply same_sl_inv; [apply set_rpend_same|exact H1]].
  - destruct (next_frame_gen true s) as [s1 r] eqn:En. assert (H1 : log_inv s1) by (eapply next_frame_gen_inv; eauto).
    destruct r; cbn in H; inversion H; subst; [exact H1|eapply same_sl_inv; [apply set_rpend_same|exact H1]].
  - eapply msg_loop_inv; eauto.
  - eapply msg_loop_inv; eauto.
  - destruct (zlen payload >? w_max s); [inversion H; subst; exact Hi|].
    destruct (w_state s =? ws_StateActive) eqn:Ea; [|inversion H; subst; exact Hi].
    destruct (flush_gen async (queue_frame s true (Z.land mt 15) payload)) as [s1 e] eqn:Ef. inversion H; subst.
    eapply flush_gen_inv; [exact Ef|]. apply queue_data_inv; [exact Hi|lia|exact Hw].
  - destruct (w_state s =? ws_StateActive) eqn:Ea; [|inversion H; subst; exact Hi].
    destruct (flush_gen async (queue_frame s fin (Z.land op 15) _)) as [s1 e] eqn:Ef. inversion H; subst.
    eapply flush_gen_inv; [exact Ef|]. apply queue_data_inv; [exact Hi|lia|exact Hw].
  - destruct (flush_gen async s) as [s1 e] eqn:Ef. inversion H; subst. eapply flush_gen_inv; eauto.
  - destruct (do_close async s code reason) as [s1 e] eqn:Ec. inversion H; subst. eapply do_close_inv; eauto.
  - inversion H; subst. unfold set_max, log_inv in *. cbn. exact Hi.
  - inversion H; subst. unfold set_out, log_inv in *. cbn. exact Hi.
Qed.

Fixpoint wsrun (s : ws) (ops : list wsop) : ws :=
  match ops with [] => s | o :: rest => wsrun (fst (wsstep s o)) rest end.

Lemma init_inv max keys : log_inv (ws_init max keys).
Proof. unfold log_inv, ws_init; cbn. split; [intros _; constructor|left; constructor]. Qed.

(* Over every history of peer events and local calls: at most one Close frame is ever queued for the wire, nothing is
   queued after it, and while the session is Active none has been. *)
Theorem one_close_ever ops : forall s, Forall wf_op ops -> log_inv s -> log_inv (wsrun s ops).
Proof.
  induction ops as [|o ops IH]; intros s Hf Hi; [exact Hi|]. inversion Hf; subst. cbn [wsrun].
  apply IH; [assumption|]. destruct (wsstep s o) as [s1 evs] eqn:E. cbn. eapply wsstep_inv; eauto.
Qed.

(* ================================================================ the wire is the log, in order, frame by frame *)

Definition enc (e : entry) : list Z :=
  let '(fin, op, p, key) := e in build_frame fin 0 op true key p.

Definition healthy (s : ws) : Prop := tr_wfail (w_tr s) < 0.

Definition wire_inv (s : ws) : Prop :=
  healthy s /\
  exists n, (n <= length (w_log s))%nat /\
    tr_wire (w_tr s) = concat (map wire_bytes (map enc (firstn n (w_log s)))) /\
    w_pending s = map enc (skipn n (w_log s)) /\
    t_read (w_dst s) = [] /\ t_pend (w_dst s) = [].

Lemma write_frame_out_healthy d t f :
  tr_wfail t < 0 -> t_read d = [] -> t_pend d = [] ->
  let '(d', t', failed) := write_frame_out d t f in
  failed = false /\ t_read d' = [] /\ t_pend d' = [] /\ tr_wire t' = tr_wire t ++ wire_bytes f /\
  tr_wfail t' = tr_wfail t /\ tr_in t' = tr_in t.
Proof.
  intros Hh Hr Hp. unfold write_frame_out, tr_write_all. rewrite Hr, Hp. cbn [app t_read].
  replace (tr_wfail t <? 0) with true by lia. cbn.
  unfold tconsume. cbn [tfstep fst t_read t_pend].
  pose proof (zlen_nonneg (wire_bytes f)).
  assert (Hk : clamp (zlen (wire_bytes f)) 0 (zlen (wire_bytes f)) = zlen (wire_bytes f)) by (unfold clamp; lia).
  rewrite Hk. rewrite zdrop_all by lia. repeat split; reflexivity.
Qed.

Lemma flush_loop_healthy fs : forall d t,
  tr_wfail t < 0 -> t_read d = [] -> t_pend d = [] ->
  let '(d', t', rest, err) := flush_loop d t fs in
  rest = [] /\ err = eNone /\ t_read d' = [] /\ t_pend d' = [] /\
  tr_wire t' = tr_wire t ++ concat (map wire_bytes fs) /\ tr_wfail t' = tr_wfail t /\ tr_in t' = tr_in t.
Proof.
  induction fs as [|f fs IH]; intros d t Hh Hr Hp; cbn [flush_loop map concat].
  - rewrite app_nil_r. repeat split; auto.
  - pose proof (write_frame_out_healthy d t f Hh Hr Hp) as Hw.
    destruct (write_frame_out d t f) as [[d1 t1] failed]. destruct Hw as (-> & Hr1 & Hp1 & Hw1 & Hf1 & Hi1).
    specialize (IH d1 t1 ltac:(lia) Hr1 Hp1). destruct (flush_loop d1 t1 fs) as [[[d2 t2] rest] err].
    destruct IH as (A & B & C & D & E & F & G). repeat split; auto; try congruence.
    rewrite E, Hw1, <- app_assoc. reflexivity.
Qed.

Lemma aflush_loop_healthy fs : forall d t,
  tr_wfail t < 0 -> t_read d = [] -> t_pend d = [] ->
  let '(d', t', rest, err) := aflush_loop d t fs in
  rest = [] /\ err = eNone /\ t_read d' = [] /\ t_pend d' = [] /\
  tr_wire t' = tr_wire t ++ concat (map wire_bytes fs) /\ tr_wfail t' = tr_wfail t /\ tr_in t' = tr_in t.
Proof.
  induction fs as [|f fs IH]; intros d t Hh Hr Hp; cbn [aflush_loop map concat].
  - rewrite app_nil_r. repeat split; auto.
  - pose proof (write_frame_out_healthy d t f Hh Hr Hp) as Hw. unfold write_frame_out in Hw.
    destruct (tr_write_all t _) as [[t1 n] failed]. destruct Hw as (-> & Hr1 & Hp1 & Hw1 & Hf1 & Hi1).
    specialize (IH _ t1 ltac:(lia) Hr1 Hp1). destruct (aflush_loop _ t1 fs) as [[[d2 t2] rest] err].
    destruct IH as (A & B & C & D & E & F & G). repeat split; auto; try congruence.
    rewrite E, Hw1, <- app_assoc. reflexivity.
Qed.

(* after a flush on a healthy transport everything queued is on the wire, in queue order *)
Lemma flush_gen_wire async s s' e :
  flush_gen async s = (s', e) -> wire_inv s ->
  wire_inv s' /\ e = eNone /\ w_pending s' = [] /\ w_state s' = w_state s /\ w_log s' = w_log s /\
  tr_wire (w_tr s') = concat (map wire_bytes (map enc (w_log s))) /\ w_codec s' = w_codec s /\ tr_in (w_tr s') = tr_in (w_tr s) /\
  w_rpend s' = w_rpend s /\ w_max s' = w_max s.
Proof.
  intros H (Hh & n & Hn & Hw & Hp & Hr & Hpd). unfold healthy in Hh.
  assert (Hgen : forall d' t' rest err,
    (rest = [] /\ err = eNone /\ t_read d' = [] /\ t_pend d' = [] /\
     tr_wire t' = tr_wire (w_tr s) ++ concat (map wire_bytes (w_pending s)) /\ tr_wfail t' = tr_wfail (w_tr s) /\
     tr_in t' = tr_in (w_tr s)) ->
    s' = set_pending (set_out s d' t') rest -> e = err ->
    wire_inv s' /\ e = eNone /\ w_pending s' = [] /\ w_state s' = w_state s /\ w_log s' = w_log s /\
    tr_wire (w_tr s') = concat (map wire_bytes (map enc (w_log s))) /\ w_codec s' = w_codec s /\
    tr_in (w_tr s') = tr_in (w_tr s) /\ w_rpend s' = w_rpend s /\ w_max s' = w_max s).
  { intros d' t' rest err (-> & -> & A & B & C & D & E) -> ->. cbn.
    assert (Hall : tr_wire t' = concat (map wire_bytes (map enc (w_log s)))).
    { rewrite C, Hw, Hp. rewrite <- concat_app, <- !map_app, firstn_skipn. reflexivity. }
    repeat split; auto.
    - unfold healthy; cbn. lia.
    - exists (length (w_log s)). cbn. rewrite firstn_all, skipn_all. repeat split; auto. }
  destruct async; cbn [flush_gen] in H.
  - unfold flush_async in H. pose proof (aflush_loop_healthy (w_pending s) (w_dst s) (w_tr s) Hh Hr Hpd) as Hl.
    destruct (aflush_loop _ _ _) as [[[d' t'] rest] err]. inversion H; subst. eapply Hgen; eauto.
  - unfold flush_sync in H. pose proof (flush_loop_healthy (w_pending s) (w_dst s) (w_tr s) Hh Hr Hpd) as Hl.
    destruct (flush_loop _ _ _) as [[[d' t'] rest] err]. inversion H; subst. eapply Hgen; eauto.
Qed.

Lemma queue_frame_wire s fin op p : wire_inv s -> wire_inv (queue_frame s fin op p).
Proof.
  intros (Hh & n & Hn & Hw & Hp & Hr & Hpd).
  assert (Hgen : forall key s1, w_log s1 = w_log s -> w_pending s1 = w_pending s -> w_tr s1 = w_tr s -> w_dst s1 = w_dst s ->
    wire_inv (mkws (w_state s1) (w_codec s1) (w_dst s1) (w_tr s1) (w_pending s1 ++ [build_frame fin 0 op true key p]) (w_max s1)
                (w_keys s1) (w_rpend s1) (w_log s1 ++ [(fin, op, p, key)]))).
  { intros key s1 A B C D. unfold wire_inv, healthy. cbn. rewrite A, B, C, D. split; [exact Hh|]. exists n.
    rewrite app_length, firstn_app, skipn_app. replace (n - length (w_log s))%nat with O by lia. cbn [firstn skipn].
    rewrite app_nil_r, map_app. cbn [map enc]. rewrite Hp. repeat split; auto. lia. }
  unfold queue_frame, take_key. destruct (w_keys s) as [|k r]; apply Hgen; reflexivity.
Qed.

(* only the inbound side of the transport and the state change *)
Definition same_out (s s' : ws) : Prop :=
  w_log s' = w_log s /\ w_pending s' = w_pending s /\ w_dst s' = w_dst s /\
  tr_wire (w_tr s') = tr_wire (w_tr s) /\ tr_wfail (w_tr s') = tr_wfail (w_tr s).

Lemma same_out_wire s s' : same_out s s' -> wire_inv s -> wire_inv s'.
Proof.
  intros (A & B & C & D & E) (Hh & n & Hn & Hw & Hp & Hr & Hpd). unfold wire_inv, healthy in *.
  rewrite A, B, C, D, E. split; [exact Hh|]. exists n. auto.
Qed.

Lemma same_out_refl s : same_out s s.
Proof. repeat split. Qed.

Lemma same_out_trans a b c : same_out a b -> same_out b c -> same_out a c.
Proof. intros (A1 & A2 & A3 & A4 & A5) (B1 & B2 & B3 & B4 & B5). repeat split; congruence. Qed.

Lemma set_state_out s st : same_out s (set_state s st).
Proof. repeat split. Qed.
Lemma set_rpend_out s k : same_out s (set_rpend s k).
Proof. repeat split. Qed.

Lemma tr_read_out t : tr_wire (fst (tr_read t)) = tr_wire t /\ tr_wfail (fst (tr_read t)) = tr_wfail t.
Proof. unfold tr_read. destruct (tr_read_ev (tr_in t)). cbn. auto. Qed.

Lemma ws_read_loop_out fuel : forall c t async,
  let '(c', t', r) := ws_read_loop fuel c t async in tr_wire t' = tr_wire t /\ tr_wfail t' = tr_wfail t.
Proof.
  induction fuel as [|f IH]; intros c t async; cbn [ws_read_loop]; [auto|].
  destruct (decode c) as [c1 r]. destruct r; auto.
  pose proof (tr_read_out t) as Ht. destruct (tr_read t) as [t1 rr]. cbn in Ht. destruct Ht as [A B].
  destruct rr as [l| | |]; auto.
  - specialize (IH (feed c1 l) t1 async). destruct (ws_read_loop f (feed c1 l) t1 async) as [[c' t'] r'].
    destruct IH as [C D]. split; congruence.
Qed.

Lemma handle_control_wire s f s' e : handle_control s f = (s', e) -> wire_inv s -> wire_inv s'.
Proof.
  unfold handle_control. intros H Hi.
  destruct (negb (is_fin f)); [inversion H; subst; exact Hi|].
  destruct (payload_length f >? ws_MaxControlFramePayloadLength); [inversion H; subst; exact Hi|].
  destruct (opcode_of f =? ws_OpcodePing).
  { destruct (w_state s =? ws_StateActive); inversion H; subst; [apply queue_frame_wire|]; exact Hi. }
  destruct (opcode_of f =? ws_OpcodePong); [inversion H; subst; exact Hi|].
  destruct (opcode_of f =? ws_OpcodeClose); [|inversion H; subst; exact Hi].
  assert (Hq : forall p, wire_inv (prepare_close (set_state s ws_StateClosedByPeer) p)).
  { intros p. apply queue_frame_wire. eapply same_out_wire; [apply set_state_out|exact Hi]. }
  destruct (w_state s =? ws_StateActive).
  { destruct (zlen (payload_of f) >=? 2).
    - destruct (negb (utf8_valid (zdrop 2 (payload_of f)))); [inversion H; subst; apply Hq|].
      destruct (negb (ValidCloseCode (be_value (ztake 2 (payload_of f))))); inversion H; subst; apply Hq.
    - destruct (zlen (payload_of f) >? 0); inversion H; subst; apply Hq. }
  destruct (w_state s =? ws_StateClosedByUs); inversion H; subst; [|exact Hi].
  eapply same_out_wire; [apply set_state_out|exact Hi].
Qed.

Lemma handle_frame_wire s f s' e : handle_frame s f = (s', e) -> wire_inv s -> wire_inv s'.
Proof.
  unfold handle_frame. intros H Hi.
  set (r := if negb (verify_frame f =? eNone) then (s, verify_frame f)
            else if Opcode_IsControl (opcode_of f) then handle_control s f else (s, handle_data f)) in *.
  assert (Hr : wire_inv (fst r)).
  { unfold r. destruct (negb (verify_frame f =? eNone)); [exact Hi|].
    destruct (Opcode_IsControl (opcode_of f)); [|exact Hi].
    destruct (handle_control s f) as [s1 e1] eqn:E. cbn. eapply handle_control_wire; eauto. }
  destruct r as [s1 e1]. cbn in Hr.
  destruct (negb (e1 =? eNone)); [|inversion H; subst; exact Hr].
  destruct (w_state s1 =? ws_StateActive); inversion H; subst; [|exact Hr].
  apply queue_frame_wire. eapply same_out_wire; [apply set_state_out|exact Hr].
Qed.

Lemma read_and_handle_wire async s s' x : read_and_handle async s = (s', x) -> wire_inv s -> wire_inv s'.
Proof.
  unfold read_and_handle. intros H Hi.
  pose proof (ws_read_loop_out (rfuel (w_tr s)) (w_codec s) (w_tr s) async) as Ho.
  destruct (ws_read_loop _ _ _ _) as [[c t] r]. destruct Ho as [A B].
  assert (H0 : wire_inv (set_io s c t)).
  { eapply same_out_wire; [|exact Hi]. repeat split; cbn; auto. }
  unfold after_read in H. destruct r as [f|e|].
  - destruct (handle_frame (set_io s c t) f) as [s1 e1] eqn:E. inversion H; subst. eapply handle_frame_wire; eauto.
  - destruct ((e =? eEOF) && negb (w_state (set_io s c t) =? ws_StateTerminated)); inversion H; subst; [|exact H0].
    eapply same_out_wire; [apply set_state_out|exact H0].
  - inversion H; subst. exact H0.
Qed.

Lemma next_frame_gen_wire async s s' x : next_frame_gen async s = (s', x) -> wire_inv s -> wire_inv s'.
Proof.
  unfold next_frame_gen. intros H Hi.
  destruct (flush_gen async s) as [s1 ferr] eqn:Ef.
  destruct (flush_gen_wire async s s1 ferr Ef Hi) as (H1 & -> & _).
  cbn [negb Z.eqb eNone] in H.
  destruct (negb (can_read s1)).
  { destruct async; inversion H; subst; [eapply same_out_wire; [apply set_state_out|exact H1]|exact H1]. }
  destruct (read_and_handle async s1) as [s2 r] eqn:Er.
  assert (H2 : wire_inv s2) by (eapply read_and_handle_wire; eauto).
  destruct r as [f e|]; inversion H; subst; [|exact H2].
  destruct (negb async && (e =? eEOF)); [eapply same_out_wire; [apply set_state_out|exact H2]|exact H2].
Qed.

Lemma do_close_wire async s code reason s' e : do_close async s code reason = (s', e) -> wire_inv s -> wire_inv s'.
Proof.
  unfold do_close. intros H Hi.
  destruct (w_state s =? ws_StateActive).
  - eapply flush_gen_wire; [exact H|]. apply queue_frame_wire. eapply same_out_wire; [apply set_state_out|exact Hi].
  - destruct ((w_state s =? ws_StateClosedByUs) || (w_state s =? ws_StateHandshake)); inversion H; subst; exact Hi.
Qed.

Lemma msg_frame_wire async s buflen acc cont mtype f err s' m :
  msg_frame async s buflen acc cont mtype f err = (s', m) -> wire_inv s -> wire_inv s'.
Proof.
  unfold msg_frame. intros H Hi.
  destruct (negb (err =? eNone)); [inversion H; subst; exact Hi|].
  destruct (Opcode_IsControl (opcode_of f)); [inversion H; subst; exact Hi|].
  match type of H with context [if ?c then _ else _] => destruct c end.
  - destruct (do_close async s ws_CloseGoingAway _) as [s1 e1] eqn:Ec. inversion H; subst. eapply do_close_wire; eauto.
  - match type of H with context [if ?c then _ else _] => destruct c end; inversion H; subst; exact Hi.
Qed.

Lemma msg_loop_wire fuel : forall async s buflen acc cont mtype s' evs,
  msg_loop fuel async s buflen acc cont mtype = (s', evs) -> wire_inv s -> wire_inv s'.
Proof.
  induction fuel as [|fu IH]; intros async s buflen acc cont mtype s' evs H Hi; cbn [msg_loop] in H.
  - inversion H; subst. exact Hi.
  - destruct (next_frame_gen async s) as [s1 r] eqn:En.
    assert (H1 : wire_inv s1) by (eapply next_frame_gen_wire; eauto).
    destruct r as [f err|].
    + destruct (msg_frame async s1 buflen acc cont mtype f err) as [s2 m] eqn:Em.
      assert (H2 : wire_inv s2) by (eapply msg_frame_wire; eauto).
      destruct m as [evs0|acc' cont' mtype' evs0]; [inversion H; subst; exact H2|].
      destruct (msg_loop fu async s2 buflen acc' cont' mtype') as [s3 evs'] eqn:El.
      inversion H; subst. eapply IH; eauto.
    + inversion H; subst. eapply same_out_wire; [apply set_rpend_out|exact H1].
Qed.

Lemma resume_wire s k s' evs : resume s k = (s', evs) -> wire_inv s -> wire_inv s'.
Proof.
  unfold resume. intros H Hi.
  destruct (read_and_handle true (set_rpend s None)) as [s1 r] eqn:Er.
  assert (H1 : wire_inv s1).
  { eapply read_and_handle_wire; [exact Er|]. eapply same_out_wire; [apply set_rpend_out|exact Hi]. }
  destruct r as [f err|].
  - destruct k as [|buflen acc cont mtype]; [inversion H; subst; exact H1|].
    destruct (msg_frame true s1 buflen acc cont mtype f err) as [s2 m] eqn:Em.
    assert (H2 : wire_inv s2) by (eapply msg_frame_wire; eauto).
    destruct m as [evs0|acc' cont' mtype' evs0]; [inversion H; subst; exact H2|].
    destruct (msg_loop (mfuel s2) true s2 buflen acc' cont' mtype') as [s3 evs'] eqn:El.
    inversion H; subst. eapply msg_loop_wire; eauto.
  - inversion H; subst. eapply same_out_wire; [apply set_rpend_out|exact H1].
Qed.

Definition healthy_op (o : wsop) : Prop := match o with WWFail _ => False | _ => True end.

Theorem wsstep_wire s o s' evs : healthy_op o -> wsstep s o = (s', evs) -> wire_inv s -> wire_inv s'.
Proof.
  intros Hw H Hi. destruct o; cbn [wsstep healthy_op] in *; try contradiction.
  - assert (H0 : wire_inv (set_io s (w_codec s) (tr_push (w_tr s) e))) by (eapply same_out_wire; [|exact Hi]; repeat split).
    destruct (w_rpend (set_io s (w_codec s) (tr_push (w_tr s) e))) eqn:Ek.
    + eapply resume_wire; eauto.
    + inversion H; subst. exact H0.
  - destruct (next_frame_gen false s) as [s1 r] eqn:En. assert (H1 : wire_inv s1) by (eapply next_frame_gen_wire; eauto).
    destruct r; cbn in H; inversion H; subst; [exact H1|eapply same_out_wire; [apply set_rpend_out|exact H1]].
  - destruct (next_frame_gen true s) as [s1 r] eqn:En. assert (H1 : wire_inv s1) by (eapply next_frame_gen_wire; eauto).
    destruct r; cbn in H; inversion H; subst; [exact H1|eapply same_out_wire; [apply set_rpend_out|exact H1]].
  - eapply msg_loop_wire; eauto.
  - eapply msg_loop_wire; eauto.
  - destruct (zlen payload >? w_max s); [inversion H; subst; exact Hi|].
    destruct (w_state s =? ws_StateActive); [|inversion H; subst; exact Hi].
    destruct (flush_gen async (queue_frame s true (Z.land mt 15) payload)) as [s1 e] eqn:Ef. inversion H; subst.
    eapply flush_gen_wire; [exact Ef|]. apply queue_frame_wire. exact Hi.
  - destruct (w_state s =? ws_StateActive); [|inversion H; subst; exact Hi].
    destruct (flush_gen async (queue_frame s fin (Z.land op 15) _)) as [s1 e] eqn:Ef. inversion H; subst.
    eapply flush_gen_wire; [exact Ef|]. apply queue_frame_wire. exact Hi.
  - destruct (flush_gen async s) as [s1 e] eqn:Ef. inversion H; subst. eapply flush_gen_wire; eauto.
  - destruct (do_close async s code reason) as [s1 e] eqn:Ec. inversion H; subst. eapply do_close_wire; eauto.
  - inversion H; subst. eapply same_out_wire; [|exact Hi]. repeat split.
Qed.

Lemma init_wire max keys : wire_inv (ws_init max keys).
Proof.
  unfold wire_inv, healthy, ws_init; cbn. split; [lia|]. exists O. cbn. repeat split; auto.
Qed.

(* Over every history on a healthy transport: the bytes on the wire are, in order, the frames that were queued (each
   written completely before the next begins), and what is not yet written is still queued in the same order. *)
Theorem wire_is_log_prefix ops : forall s, Forall healthy_op ops -> wire_inv s -> wire_inv (wsrun s ops).
Proof.
  induction ops as [|o ops IH]; intros s Hf Hi; [exact Hi|]. inversion Hf; subst. cbn [wsrun].
  apply IH; [assumption|]. destruct (wsstep s o) as [s1 evs] eqn:E. cbn. eapply wsstep_wire; eauto.
Qed.

(* ================================================================ every queued frame is a well-formed masked frame *)

Lemma land15_mod op : Z.land op 15 = op mod 16.
Proof. change 15 with (Z.ones 4). rewrite Z.land_ones by lia. reflexivity. Qed.

Lemma xor_mask_aux_invol k key b : xor_mask_aux k key (xor_mask_aux k key b) = b.
Proof.
  revert k. induction b as [|x r IH]; intros k; [reflexivity|].
  cbn [xor_mask_aux]. destruct k as [|k0 k'].
  - destruct key as [|k0 k']; [reflexivity|]. cbn [xor_mask_aux]. rewrite IH. f_equal.
    rewrite Z.lxor_assoc, Z.lxor_nilpotent, Z.lxor_0_r. reflexivity.
  - cbn [xor_mask_aux]. rewrite IH. f_equal. rewrite Z.lxor_assoc, Z.lxor_nilpotent, Z.lxor_0_r. reflexivity.
Qed.

Lemma xor_mask_invol key b : xor_mask key (xor_mask key b) = b.
Proof. apply xor_mask_aux_invol. Qed.

(* what the arithmetic view of a frame built by the client (masked, RSV = 0) says *)
Lemma client_frame_facts fin op key payload :
  zlen payload < WsFrame.two63 -> zlen key = 4 ->
  let F := build_frame fin 0 op true key payload in
  sp_masked F = true /\ sp_plen F = zlen payload /\ sp_total F = zlen F /\
  zdrop (2 + sp_ext F + 4) F = xor_mask key payload /\ zsub (2 + sp_ext F) (2 + sp_ext F + 4) F = key /\
  nth 0 F 0 = (if fin then 128 else 0) + op mod 16 /\
  (if sp_l7 F =? 127 then 65535 <? sp_plen F else if sp_l7 F =? 126 then 125 <? sp_plen F else true) = true.
Proof.
  intros Hlen Hkey F. unfold F, build_frame.
  pose proof (zlen_nonneg payload) as Hp0.
  pose proof (length_field_spec (zlen payload) ltac:(lia)) as Hlf.
  destruct (length_field (zlen payload)) as [l7 ext]. destruct Hlf as [Hl7 Hcases].
  rewrite land15_mod. replace (0 * 16) with 0 by lia.
  set (b0 := (if fin then 128 else 0) + 0 + op mod 16).
  set (b1 := 128 + l7).
  set (body := key ++ xor_mask key payload).
  assert (Hbody : zlen body = 4 + zlen payload) by (unfold body; rewrite zlen_app, xor_mask_len; lia).
  set (V := b0 :: b1 :: ext ++ body).
  assert (Hn1 : nth 1 V 0 = b1) by reflexivity.
  assert (Hsl7 : sp_l7 V = l7).
  { unfold sp_l7. rewrite Hn1. unfold b1. replace (128 + l7) with (l7 + 1 * 128) by lia.
    rewrite Z.mod_add by lia. apply Z.mod_small; lia. }
  assert (Hsm : sp_masked V = true) by (unfold sp_masked; rewrite Hn1; unfold b1; lia).
  pose proof (zlen_nonneg ext) as He0.
  assert (HzV : zlen V = 2 + zlen ext + zlen body) by (unfold V, zlen; cbn [length]; rewrite app_length; lia).
  assert (Hz : forall k, k = zlen ext -> zsub 2 (2 + k) V = ext).
  { intros k ->. unfold V. rewrite zsub_cons2 by lia. rewrite ztake_app_l by lia. apply ztake_all; lia. }
  assert (Hext : sp_ext V = zlen ext /\ sp_plen V = zlen payload /\
                 (if l7 =? 127 then 65535 <? zlen payload else if l7 =? 126 then 125 <? zlen payload else true) = true).
  { unfold sp_ext, sp_plen. rewrite Hsl7.
    destruct Hcases as [(-> & H1 & H2 & H3)|[(-> & H1 & H2 & H3)|(-> & -> & H3)]].
    - change (127 =? 127) with true. cbv iota. change 10 with (2 + 8). rewrite (Hz 8) by lia.
      split; [lia|]. split; [exact H2|lia].
    - change (126 =? 127) with false. change (126 =? 126) with true. cbv iota.
      change 4 with (2 + 2). rewrite (Hz 2) by lia. split; [lia|]. split; [exact H2|lia].
    - replace (zlen payload =? 127) with false by lia. replace (zlen payload =? 126) with false by lia.
      repeat split; reflexivity. }
  destruct Hext as (Hse & Hsp & Hshort).
  split; [exact Hsm|]. split; [exact Hsp|].
  split; [unfold sp_total; rewrite Hse, Hsm, Hsp; lia|].
  rewrite Hse. split.
  - unfold V. replace (2 + zlen ext + 4) with (zlen (b0 :: b1 :: ext ++ key)).
    + replace (b0 :: b1 :: ext ++ body) with ((b0 :: b1 :: ext ++ key) ++ xor_mask key payload)
        by (unfold body; cbn [app]; rewrite <- app_assoc; reflexivity).
      apply zdrop_app_exact_l.
    + unfold zlen; cbn [length]; rewrite app_length. unfold zlen in Hkey. lia.
  - split.
    + unfold V, zsub. replace (2 + zlen ext) with (zlen (b0 :: b1 :: ext)) by (unfold zlen; cbn [length]; lia).
      replace (b0 :: b1 :: ext ++ body) with ((b0 :: b1 :: ext) ++ body) by reflexivity.
      rewrite zdrop_app_exact_l. replace (zlen (b0 :: b1 :: ext) + 4 - zlen (b0 :: b1 :: ext)) with 4 by lia.
      unfold body. rewrite <- Hkey. apply ztake_app_exact_l.
    + split; [unfold V, b0; cbn [nth]; lia|]. rewrite Hsl7, Hsp. exact Hshort.
Qed.

(* an entry of the log as a caller can produce it *)
Definition entry_ok (e : entry) : Prop :=
  let '(fin, op, p, key) := e in zlen p < WsFrame.two63 /\ zlen key = 4.

(* Every queued frame, followed by anything, parses as exactly one frame: the mask bit is set, a 4-byte key is present,
   un-masking the wire payload with it gives the submitted bytes, the length uses the shortest encoding, FIN/opcode are
   the submitted ones, and the frame occupies exactly header + declared payload bytes. *)
Theorem queued_frame_wellformed fin op p key rest :
  entry_ok (fin, op, p, key) ->
  let F := enc (fin, op, p, key) in
  parse1 (zlen p) (F ++ rest) = PFrame F rest /\
  sp_masked F = true /\ sp_plen F = zlen p /\ zlen F = sp_total F /\
  xor_mask (zsub (2 + sp_ext F) (2 + sp_ext F + 4) F) (zdrop (2 + sp_ext F + 4) F) = p /\
  nth 0 F 0 = (if fin then 128 else 0) + op mod 16 /\
  (if sp_l7 F =? 127 then 65535 <? sp_plen F else if sp_l7 F =? 126 then 125 <? sp_plen F else true) = true.
Proof.
  intros [Hlen Hkey] F. unfold F, enc.
  destruct (client_frame_facts fin op key p Hlen Hkey) as (A & B & C & D & E & G & H).
  split; [apply roundtrip; try lia; auto|].
  repeat split; auto. rewrite E, D. apply xor_mask_invol.
Qed.

(* ================================================================ local behaviour used by C08 / C15 *)

(* a message above the configured maximum is refused without writing or queueing anything *)
Theorem write_too_big_refused s async mt payload :
  zlen payload > w_max s -> wsstep s (WWrite async mt payload) = (s, [EWrite eMessageTooBig]).
Proof. intros H. cbn [wsstep]. replace (zlen payload >? w_max s) with true by lia. reflexivity. Qed.

(* application writes are refused once the session is not Active (after a local Close, after the peer's Close, after a
   framing violation) *)
Theorem write_refused_when_not_active s async mt payload :
  w_state s <> ws_StateActive -> zlen payload <= w_max s ->
  wsstep s (WWrite async mt payload) = (s, [EWrite eCancelled]).
Proof.
  intros Hs Hl. cbn [wsstep]. replace (zlen payload >? w_max s) with false by lia.
  replace (w_state s =? ws_StateActive) with false by lia. reflexivity.
Qed.

(* reads after the closing handshake report end-of-stream *)
Theorem read_after_close_is_eof s :
  wire_inv s -> can_read s = false ->
  exists s', next_frame_gen false s = (s', FGot [] eEOF) /\ w_state s' = w_state s.
Proof.
  intros Hw Hc. unfold next_frame_gen.
  destruct (flush_gen false s) as [s1 ferr] eqn:Ef.
  destruct (flush_gen_wire false s s1 ferr Ef Hw) as (_ & -> & _ & Hst & _).
  cbn [negb Z.eqb eNone].
  assert (Hc1 : can_read s1 = false) by (unfold can_read in *; rewrite Hst; exact Hc).
  rewrite Hc1. cbn. eexists; split; [reflexivity|exact Hst].
Qed.

(* a Ping received while Active queues exactly one Pong with the identical payload; a Pong queues nothing *)
Theorem ping_queues_pong s f :
  w_state s = ws_StateActive -> is_fin f = true -> payload_length f <= ws_MaxControlFramePayloadLength ->
  opcode_of f = ws_OpcodePing ->
  exists s', handle_control s f = (s', eNone) /\ w_state s' = ws_StateActive /\
             exists key, w_log s' = w_log s ++ [(true, ws_OpcodePong, payload_of f, key)].
Proof.
  intros Ha Hf Hl Ho. unfold handle_control. rewrite Hf. cbn [negb].
  replace (payload_length f >? ws_MaxControlFramePayloadLength) with false by lia.
  rewrite Ho. change (ws_OpcodePing =? ws_OpcodePing) with true. cbv iota.
  replace (w_state s =? ws_StateActive) with true by lia.
  destruct (queue_frame_facts s true ws_OpcodePong (payload_of f)) as (A & B & _).
  eexists; split; [reflexivity|]. split; [congruence|exact B].
Qed.

Theorem pong_queues_nothing s f :
  is_fin f = true -> payload_length f <= ws_MaxControlFramePayloadLength -> opcode_of f = ws_OpcodePong ->
  handle_control s f = (s, eNone).
Proof.
  intros Hf Hl Ho. unfold handle_control. rewrite Hf. cbn [negb].
  replace (payload_length f >? ws_MaxControlFramePayloadLength) with false by lia.
  rewrite Ho. reflexivity.
Qed.

(* the reply to the peer's Close: echo if valid, 1000 if empty, 1002 otherwise; the session becomes ClosedByPeer *)
Definition close_reply_payload (p : list Z) : list Z :=
  if zlen p >=? 2 then
    if utf8_valid (zdrop 2 p) && ValidCloseCode (be_value (ztake 2 p)) then p else be_bytes 2 ws_CloseProtocolError
  else if zlen p >? 0 then be_bytes 2 ws_CloseProtocolError else be_bytes 2 ws_CloseNormal.

Theorem peer_close_is_answered_once s f :
  w_state s = ws_StateActive -> is_fin f = true -> payload_length f <= ws_MaxControlFramePayloadLength ->
  opcode_of f = ws_OpcodeClose ->
  exists s', handle_control s f = (s', eNone) /\ w_state s' = ws_StateClosedByPeer /\
             exists key, w_log s' = w_log s ++ [(true, ws_OpcodeClose, close_reply_payload (payload_of f), key)].
Proof.
  intros Ha Hf Hl Ho. unfold handle_control. rewrite Hf. cbn [negb].
  replace (payload_length f >? ws_MaxControlFramePayloadLength) with false by lia.
  rewrite Ho. change (ws_OpcodeClose =? ws_OpcodePing) with false. change (ws_OpcodeClose =? ws_OpcodePong) with false.
  change (ws_OpcodeClose =? ws_OpcodeClose) with true. cbv iota.
  replace (w_state s =? ws_StateActive) with true by lia.
  unfold close_reply_payload, prepare_close.
  set (p := payload_of f).
  assert (Hq : forall q, exists s', (prepare_close (set_state s ws_StateClosedByPeer) q, eNone) = (s', eNone) /\
             w_state s' = ws_StateClosedByPeer /\ exists key, w_log s' = w_log s ++ [(true, ws_OpcodeClose, q, key)]).
  { intros q. unfold prepare_close.
    destruct (queue_frame_facts (set_state s ws_StateClosedByPeer) true ws_OpcodeClose q) as (A & B & _).
    eexists; split; [reflexivity|]. split; [rewrite A; reflexivity|exact B]. }
  unfold prepare_close in Hq.
  destruct (zlen p >=? 2).
  - destruct (utf8_valid (zdrop 2 p)); cbn [negb andb]; [|apply Hq].
    destruct (ValidCloseCode (be_value (ztake 2 p))); cbn [negb]; apply Hq.
  - destruct (zlen p >? 0); apply Hq.
Qed.

(* the peer's Close after ours completes the handshake: nothing more is queued *)
Theorem close_ack s f :
  w_state s = ws_StateClosedByUs -> is_fin f = true -> payload_length f <= ws_MaxControlFramePayloadLength ->
  opcode_of f = ws_OpcodeClose ->
  handle_control s f = (set_state s ws_StateCloseAcked, eNone).
Proof.
  intros Ha Hf Hl Ho. unfold handle_control. rewrite Hf. cbn [negb].
  replace (payload_length f >? ws_MaxControlFramePayloadLength) with false by lia.
  rewrite Ho. change (ws_OpcodeClose =? ws_OpcodePing) with false. change (ws_OpcodeClose =? ws_OpcodePong) with false.
  change (ws_OpcodeClose =? ws_OpcodeClose) with true. cbv iota.
  rewrite Ha. reflexivity.
Qed.

(* a Close started locally: ClosedByUs, exactly our Close queued *)
Theorem local_close s async code reason s' e :
  w_state s = ws_StateActive -> do_close async s code reason = (s', e) ->
  w_state s' = ws_StateClosedByUs /\ exists key, w_log s' = w_log s ++ [(true, ws_OpcodeClose, close_payload code reason, key)].
Proof.
  intros Ha H. unfold do_close in H. replace (w_state s =? ws_StateActive) with true in H by lia.
  pose proof (flush_gen_same async (prepare_close (set_state s ws_StateClosedByUs) (close_payload code reason))) as F.
  rewrite H in F. destruct F as [Fs Fl]. cbn in Fs, Fl.
  unfold prepare_close in *.
  destruct (queue_frame_facts (set_state s ws_StateClosedByUs) true ws_OpcodeClose (close_payload code reason)) as (A & B & _).
  split; [rewrite Fs; exact A|]. rewrite Fl. exact B.
Qed.

(* an unexpected end of the transport is surfaced as an abnormal closure (1006) and the session is terminated *)
Theorem abnormal_closure s :
  w_state s <> ws_StateTerminated ->
  after_read s (RdErr eEOF) = (set_state s ws_StateTerminated, FGot abnormal_frame eEOF) /\
  payload_of abnormal_frame = be_bytes 2 ws_CloseAbnormal /\ opcode_of abnormal_frame = ws_OpcodeClose.
Proof.
  intros H. unfold after_read. change (eEOF =? eEOF) with true.
  replace (w_state s =? ws_StateTerminated) with false by lia. cbn [andb negb]. split; [reflexivity|]. split; reflexivity.
Qed.

(* ================================================================ C06: frames delivered = frames of the byte stream *)

Definition wflat (q : list inev) : list Z := concat (map (fun e => match e with InData l => l | _ => [] end) q).
Definition wevs_ok (q : list inev) : Prop := Forall (fun e => match e with InData l => bytes l | _ => True end) q.
Definition wstream (c : codec) (t : tr) : list Z := unread c ++ wflat (tr_in t).

Lemma wtr_read_ev_spec q q' r : wevs_ok q -> tr_read_ev q = (q', r) ->
  wevs_ok q' /\
  match r with
  | RGot w => wflat q = w ++ wflat q' /\ bytes w /\ (length q' < length q)%nat
  | _ => wflat q' = wflat q /\ (length q' <= length q)%nat
  end.
Proof.
  revert q' r. induction q as [|e q IH]; intros q' r Hok H; cbn [tr_read_ev] in H.
  - inversion H; subst. split; [constructor|]. split; [reflexivity|lia].
  - inversion Hok as [|? ? He Hq]; subst. destruct e as [l| |].
    + destruct l as [|x l].
      * destruct (IH _ _ Hq H) as [H1 H2]. split; [exact H1|].
        destruct r as [w0| | |]; unfold wflat in *; cbn [map concat app length] in *.
        -- destruct H2 as (A & B & C). split; [exact A|]. split; [exact B|lia].
        -- destruct H2 as [A B]; split; [exact A|lia].
        -- destruct H2 as [A B]; split; [exact A|lia].
        -- destruct H2 as [A B]; split; [exact A|lia].
      * inversion H; subst. split; [exact Hq|]. unfold wflat; cbn [map concat length]. repeat split; auto.
    + inversion H; subst. split; [exact Hok|]. split; [reflexivity|lia].
    + inversion H; subst. split; [exact Hq|]. unfold wflat; cbn [map concat length app]. split; [reflexivity|lia].
Qed.

(* ReadNext / AsyncReadNext with the frame codec over ANY segmentation of the inbound bytes: a frame is delivered iff it
   is the next frame of the byte stream (what the codec holds ++ what the transport has queued); otherwise nothing of the
   stream is lost. *)
Theorem ws_read_loop_spec fuel : forall c t async c' t' r,
  cinv c -> bytes (unread c) -> wevs_ok (tr_in t) -> (length (tr_in t) < fuel)%nat ->
  ws_read_loop fuel c t async = (c', t', r) ->
  cinv c' /\ bytes (unread c') /\ wevs_ok (tr_in t') /\ c_max c' = c_max c /\
  match r with
  | RdFrame f => parse1 (c_max c) (wstream c t) = PFrame f (wstream c' t')
  | _ => wstream c' t' = wstream c t
  end.
Proof.
  induction fuel as [|f IH]; intros c t async c' t' r Hc Hb Ht Hf H; [lia|].
  cbn [ws_read_loop] in H. destruct (decode c) as [c1 dr] eqn:Ed.
  destruct (decode_spec c c1 dr Hc Hb Ed) as (Hc1 & Hm1 & Hsp).
  unfold wstream.
  destruct (parse1 (c_max c) (unread c)) as [| |raw rest] eqn:Ep.
  - destruct Hsp as [-> Hu]. unfold tr_read in H. destruct (tr_read_ev (tr_in t)) as [q rr] eqn:Er.
    destruct (wtr_read_ev_spec _ _ _ Ht Er) as (Hq & Hrr).
    assert (Hb1 : bytes (unread c1)) by (rewrite Hu; exact Hb).
    destruct rr as [w| | |].
    + destruct Hrr as (Hfl & Hw & Hlen).
      destruct (feed_spec c1 w Hc1) as (Hc2 & Hu2 & Hm2).
      assert (Hb2 : bytes (unread (feed c1 w))) by (rewrite Hu2; apply bytes_app; assumption).
      specialize (IH (feed c1 w) (mktr q (tr_wire t) (tr_wfail t) (tr_wblock t)) async c' t' r Hc2 Hb2 Hq ltac:(cbn; lia) H).
      destruct IH as (I1 & I2 & I3 & I5 & I4). split; [exact I1|]. split; [exact I2|]. split; [exact I3|].
      split; [congruence|].
      unfold wstream in I4. cbn [tr_in] in I4. rewrite Hu2, Hu, Hm2, Hm1 in I4. rewrite Hfl. rewrite app_assoc. exact I4.
    + inversion H; subst. destruct Hrr as [Hfl _].
      split; [exact Hc1|]. split; [exact Hb1|]. split; [exact Hq|]. split; [exact Hm1|]. cbn [tr_in]. rewrite Hu, Hfl. reflexivity.
    + inversion H; subst. destruct Hrr as [Hfl _].
      split; [exact Hc1|]. split; [exact Hb1|]. split; [exact Hq|]. split; [exact Hm1|]. cbn [tr_in]. rewrite Hu, Hfl. reflexivity.
    + destruct Hrr as [Hfl _]. destruct async; inversion H; subst;
      (split; [exact Hc1|]; split; [exact Hb1|]; split; [exact Hq|]; split; [exact Hm1|]; cbn [tr_in]; rewrite Hu, Hfl; reflexivity).
  - destruct Hsp as [-> Hu]. inversion H; subst.
    split; [exact Hc1|]. split; [rewrite Hu; exact Hb|]. split; [exact Ht|]. split; [exact Hm1|]. rewrite Hu. reflexivity.
  - destruct Hsp as [-> Hu].
    assert (Hb1 : bytes (unread c1)).
    { rewrite Hu. destruct Hc as [_ Hmx]. destruct (parse1_bounded _ _ _ _ Hb (proj1 Hmx) Ep) as (_ & _ & _ & Hsplit).
      rewrite <- Hsplit in Hb. apply Forall_app in Hb. tauto. }
    assert (Hfin : parse1 (c_max c) (unread c ++ wflat (tr_in t)) = PFrame raw (unread c1 ++ wflat (tr_in t))).
    { rewrite Hu. apply parse1_app. exact Ep. }
    clear Hu Ep. inversion H; subst.
    split; [exact Hc1|]. split; [exact Hb1|]. split; [exact Ht|]. split; [exact Hm1|]. exact Hfin.
Qed.

(* the blocking and the asynchronous read paths deliver the same frame from the same bytes *)
Theorem read_loop_api_agree fuel : forall c t c' t' f,
  ws_read_loop fuel c t false = (c', t', RdFrame f) -> ws_read_loop fuel c t true = (c', t', RdFrame f).
Proof.
  induction fuel as [|fu IH]; intros c t c' t' f H; cbn [ws_read_loop] in *; [discriminate|].
  destruct (decode c) as [c1 dr]. destruct dr; try exact H.
  destruct (tr_read t) as [t1 rr]. destruct rr; try exact H; try discriminate.
  apply IH. exact H.
Qed.

(* ================================================================ C15: framing violations *)

Definition mviolates (f : list Z) : bool :=
  is_rsv1 f || is_rsv2 f || is_rsv3 f || is_masked f ||
  (if Opcode_IsControl (opcode_of f) then negb (is_fin f) || (payload_length f >? ws_MaxControlFramePayloadLength)
   else Opcode_IsReserved (opcode_of f)).

Lemma handle_control_err s f s' e : Opcode_IsControl (opcode_of f) = true -> handle_control s f = (s', e) ->
  (e <> eNone <-> negb (is_fin f) || (payload_length f >? ws_MaxControlFramePayloadLength) = true) /\
  (e <> eNone -> s' = s).
Proof.
  intros Hctl. unfold handle_control.
  destruct (negb (is_fin f)) eqn:E1; [intros H; inversion H; subst; cbn; split; [split; [reflexivity|discriminate]|reflexivity]|].
  destruct (payload_length f >? ws_MaxControlFramePayloadLength) eqn:E2;
    [intros H; inversion H; subst; cbn; split; [split; [reflexivity|discriminate]|reflexivity]|].
  cbn [orb].
  unfold Opcode_IsControl, Opcode_IsPing, Opcode_IsPong, Opcode_IsClose in Hctl.
  change ws_OpcodePing with 9. change ws_OpcodePong with 10. change ws_OpcodeClose with 8.
  intros H.
  assert (He : e = eNone).
  { destruct (opcode_of f =? 9); [destruct (w_state s =? ws_StateActive); inversion H; reflexivity|].
    destruct (opcode_of f =? 10); [inversion H; reflexivity|].
    destruct (opcode_of f =? 8); [|cbn in Hctl; discriminate].
    destruct (w_state s =? ws_StateActive).
    - destruct (zlen (payload_of f) >=? 2).
      + destruct (negb (utf8_valid (zdrop 2 (payload_of f)))); [inversion H; reflexivity|].
        destruct (negb (ValidCloseCode (be_value (ztake 2 (payload_of f))))); inversion H; reflexivity.
      + destruct (zlen (payload_of f) >? 0); inversion H; reflexivity.
    - destruct (w_state s =? ws_StateClosedByUs); inversion H; reflexivity. }
  subst e. split; [split; [intros C; exfalso; apply C; reflexivity|discriminate]|intros C; exfalso; apply C; reflexivity].
Qed.

(* Every frame that violates the framing rules is reported as an error; every other frame is not.  After a violation
   while Active the session is ClosedByUs with exactly one Close(1002) queued (so that application writes are refused). *)
Theorem violation_reported s f s' e :
  handle_frame s f = (s', e) ->
  (e <> eNone <-> mviolates f = true) /\
  (e <> eNone -> w_state s = ws_StateActive ->
     w_state s' = ws_StateClosedByUs /\
     exists key, w_log s' = w_log s ++ [(true, ws_OpcodeClose, close_payload ws_CloseProtocolError [], key)]) /\
  (e <> eNone -> w_state s <> ws_StateActive -> w_state s' = w_state s /\ w_log s' = w_log s).
Proof.
  unfold handle_frame, mviolates, verify_frame. intros H.
  destruct (is_rsv1 f || is_rsv2 f || is_rsv3 f) eqn:Ersv.
  { change (negb (eReservedBits =? eNone)) with true in H. cbv iota in H.
    change (negb (eReservedBits =? eNone)) with true in H. cbv iota in H. cbn [orb].
    assert (Hne : eReservedBits <> eNone) by (unfold eReservedBits, eNone; lia).
    destruct (w_state s =? ws_StateActive) eqn:Ea; inversion H; subst.
    - split; [split; [reflexivity|intros _; exact Hne]|]. split.
      + intros _ _. unfold prepare_close.
        destruct (queue_frame_facts (set_state s ws_StateClosedByUs) true ws_OpcodeClose (close_payload ws_CloseProtocolError [])) as (A & B & _).
        split; [exact A|exact B].
      + intros _ C. lia.
    - split; [split; [reflexivity|intros _; exact Hne]|]. split; [intros _ C; lia|intros _ _; split; reflexivity]. }
  cbn [orb].
  destruct (is_masked f) eqn:Em.
  { change (negb (eMaskedFromServer =? eNone)) with true in H. cbv iota in H.
    change (negb (eMaskedFromServer =? eNone)) with true in H. cbv iota in H.
    assert (Hne : eMaskedFromServer <> eNone) by (unfold eMaskedFromServer, eNone; lia).
    destruct (w_state s =? ws_StateActive) eqn:Ea; inversion H; subst.
    - split; [split; [reflexivity|intros _; exact Hne]|]. split.
      + intros _ _. unfold prepare_close.
        destruct (queue_frame_facts (set_state s ws_StateClosedByUs) true ws_OpcodeClose (close_payload ws_CloseProtocolError [])) as (A & B & _).
        split; [exact A|exact B].
      + intros _ C. lia.
    - split; [split; [reflexivity|intros _; exact Hne]|]. split; [intros _ C; lia|intros _ _; split; reflexivity]. }
  change (negb (eNone =? eNone)) with false in H. cbv iota in H. cbn [orb].
  destruct (Opcode_IsControl (opcode_of f)) eqn:Ectl.
  - destruct (handle_control s f) as [s1 e1] eqn:Ehc.
    destruct (handle_control_err s f s1 e1 Ectl Ehc) as [Hiff Hsame].
    destruct (negb (e1 =? eNone)) eqn:Ene.
    + assert (Hne : e1 <> eNone) by lia. specialize (Hsame Hne). subst s1.
      destruct (w_state s =? ws_StateActive) eqn:Ea; inversion H; subst.
      * split; [exact Hiff|]. split.
        -- intros _ _. unfold prepare_close.
           destruct (queue_frame_facts (set_state s ws_StateClosedByUs) true ws_OpcodeClose (close_payload ws_CloseProtocolError [])) as (A & B & _).
           split; [exact A|exact B].
        -- intros _ C. lia.
      * split; [exact Hiff|]. split; [intros _ C; lia|intros _ _; split; reflexivity].
    + inversion H; subst. assert (He : e = eNone) by lia.
      split; [exact Hiff|]. split; intros C; exfalso; apply C; exact He.
  - unfold handle_data in H.
    destruct (Opcode_IsReserved (opcode_of f)) eqn:Eres.
    + change (negb (eReservedOpcode =? eNone)) with true in H. cbv iota in H.
      assert (Hne : eReservedOpcode <> eNone) by (unfold eReservedOpcode, eNone; lia).
      destruct (w_state s =? ws_StateActive) eqn:Ea; inversion H; subst.
      * split; [split; [reflexivity|intros _; exact Hne]|]. split.
        -- intros _ _. unfold prepare_close.
           destruct (queue_frame_facts (set_state s ws_StateClosedByUs) true ws_OpcodeClose (close_payload ws_CloseProtocolError [])) as (A & B & _).
           split; [exact A|exact B].
        -- intros _ C. lia.
      * split; [split; [reflexivity|intros _; exact Hne]|]. split; [intros _ C; lia|intros _ _; split; reflexivity].
    + change (negb (eNone =? eNone)) with false in H. cbv iota in H. inversion H; subst.
      split; [split; [intros C; exfalso; apply C; reflexivity|discriminate]|].
      split; intros C; exfalso; apply C; reflexivity.
Qed.

(* the message-level API never delivers anything of a frame that was reported as an error *)
Theorem message_api_reports_errors async s buflen acc cont mtype f err :
  err <> eNone -> msg_frame async s buflen acc cont mtype f err = (s, MDone [EMsg mtype (zlen acc) acc err]).
Proof. intros H. unfold msg_frame. replace (negb (err =? eNone)) with true by lia. reflexivity. Qed.

(* fragmentation rules: a continuation with no message in progress, a new data frame inside a fragmented message *)
Theorem fragmentation_rules async s buflen acc cont mtype f :
  Opcode_IsControl (opcode_of f) = false ->
  zlen (copy_into buflen acc (payload_of f)) <= w_max s ->
  zlen (copy_into buflen acc (payload_of f)) - zlen acc = payload_length f ->
  let mt := if mtype =? ws_TypeNone then opcode_of f else mtype in
  let acc' := copy_into buflen acc (payload_of f) in
  (cont = false -> Opcode_IsContinuation (opcode_of f) = true ->
     msg_frame async s buflen acc cont mtype f eNone = (s, MDone [EMsg mt (zlen acc') acc' eUnexpectedContinuation])) /\
  (cont = true -> Opcode_IsContinuation (opcode_of f) = false ->
     msg_frame async s buflen acc cont mtype f eNone = (s, MDone [EMsg mt (zlen acc') acc' eExpectedContinuation])).
Proof.
  intros Hc Hfit Hn mt acc'. unfold msg_frame. change (negb (eNone =? eNone)) with false. cbv iota. rewrite Hc.
  fold mt. fold acc'.
  replace ((zlen acc' >? w_max s) || negb (zlen acc' - zlen acc =? payload_length f)) with false by (unfold acc'; lia).
  split; intros -> ->; cbn [negb]; reflexivity.
Qed.

(* the model's bit tests are the arithmetic RFC rules of the specification *)
From Sonic Require Import Spec.WsSession.

Definition rsv_fact (b : Z) : bool :=
  Bool.eqb (negb ((b / 16) mod 8 =? 0)) (negb (Z.land b 64 =? 0) || negb (Z.land b 32 =? 0) || negb (Z.land b 16 =? 0)).

Lemma rsv_fact_all : forallb rsv_fact (map Z.of_nat (seq 0 256)) = true.
Proof. vm_compute. reflexivity. Qed.

Lemma rsv_fact_ok b : is_byte b -> rsv_fact b = true.
Proof.
  intros H. pose proof rsv_fact_all as Ha. rewrite forallb_forall in Ha. apply Ha.
  apply in_map_iff. exists (Z.to_nat b). unfold is_byte in H. split; [lia|]. apply in_seq. lia.
Qed.

Theorem mviolates_is_rfc f :
  bytes f -> 2 + sp_ext f <= zlen f -> sp_plen f < WsFrame.two63 -> mviolates f = violates f.
Proof.
  intros Hb Hlen Hpl. unfold mviolates, violates.
  pose proof (sp_ext_range f) as Hext.
  assert (Hb0 : is_byte (nth 0 f 0)) by (apply bytes_nth; exact Hb).
  pose proof (rsv_fact_ok _ Hb0) as Hrsv. unfold rsv_fact in Hrsv. apply Bool.eqb_prop in Hrsv.
  assert (Hr : is_rsv1 f || is_rsv2 f || is_rsv3 f = negb (r_rsv f =? 0)).
  { unfold is_rsv1, is_rsv2, is_rsv3, byte_at, r_rsv, r_b0. change ws_bitRSV1 with 64. change ws_bitRSV2 with 32.
    change ws_bitRSV3 with 16. symmetry. exact Hrsv. }
  rewrite Hr.
  assert (Hm : is_masked f = r_masked f).
  { unfold r_masked. rewrite <- (ztake_all (zlen f) f) at 1 by lia. apply masked_prefix; [exact Hb|lia]. }
  rewrite Hm.
  assert (Hop : opcode_of f = r_op f).
  { unfold opcode_of, byte_at, r_op, r_b0. change ws_bitmaskOpcode with 15. apply land15. exact Hb0. }
  rewrite Hop.
  assert (Hfin : is_fin f = r_fin f).
  { unfold is_fin, byte_at, r_fin, r_b0. change ws_bitFIN with 128. apply land128. exact Hb0. }
  rewrite Hfin.
  assert (Hpl' : payload_length f = sp_plen f).
  { rewrite <- (ztake_all (zlen f) f) at 1 by lia.
    destruct (plen_prefix f Hb (zlen f) Hlen) as [H|[_ H]]; [|exact H].
    rewrite H. unfold int_of_u64. pose proof (sp_plen_range f Hb). destruct (sp_plen f >=? WsFrame.two63) eqn:E; lia. }
  rewrite Hpl'. change ws_MaxControlFramePayloadLength with 125.
  assert (Hctl : Opcode_IsControl (r_op f) = is_control_op (r_op f)).
  { unfold Opcode_IsControl, Opcode_IsPing, Opcode_IsPong, Opcode_IsClose, is_control_op.
    destruct (r_op f =? 8), (r_op f =? 9), (r_op f =? 10); reflexivity. }
  assert (Hres : Opcode_IsReserved (r_op f) = is_reserved_op (r_op f)).
  { unfold Opcode_IsReserved, is_reserved_op.
    destruct (r_op f =? 0), (r_op f =? 1), (r_op f =? 2), (r_op f =? 8), (r_op f =? 9), (r_op f =? 10); reflexivity. }
  rewrite Hctl, Hres.
  destruct (negb (r_rsv f =? 0)); cbn [orb]; [reflexivity|].
  destruct (r_masked f); cbn [orb]; [reflexivity|].
  unfold is_control_op, is_reserved_op.
  destruct (r_op f =? 8) eqn:E8, (r_op f =? 9) eqn:E9, (r_op f =? 10) eqn:E10; cbn; try reflexivity; try lia.
  all: destruct (r_op f =? 0), (r_op f =? 1), (r_op f =? 2); cbn; try reflexivity; lia.
Qed.
