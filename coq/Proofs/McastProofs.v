(* C12: proofs about Model/Mcast.v *)
From Coq Require Import ZifyBool.
From Sonic Require Import Base.Prelude Base.ListLemmas Model.Mcast.
Local Open Scope Z_scope.

(* ---- settings: ttl and all always equal the kernel's; loop equals it from the first successful SetLoop on *)
Definition ttl_all_ok (st : kopts * pcache) : Prop := pc_ttl (snd st) = k_ttl (fst st) /\ pc_all (snd st) = k_all (fst st).

Lemma sstep_ttl_all st o : ttl_all_ok st -> ttl_all_ok (sstep st o).
Proof. destruct st as [k c]. unfold ttl_all_ok. cbn. intros [A B]. destruct o as [v ok|v ok|v ok]; destruct ok; cbn; auto. Qed.

Theorem settings_ttl_all_exact ops : forall k, k_ttl k = 1 -> ttl_all_ok (fold_left sstep ops (peer_new k)).
Proof.
  intros k Hk. assert (H : ttl_all_ok (peer_new k)) by (unfold ttl_all_ok; cbn; auto).
  revert H. generalize (peer_new k). induction ops as [|o r IH]; intros st H; [exact H|]. cbn. apply IH. apply sstep_ttl_all. exact H.
Qed.

Definition loop_ok (st : kopts * pcache) : Prop := pc_loop (snd st) = k_loop (fst st).
Lemma sstep_loop st o : loop_ok st -> loop_ok (sstep st o).
Proof. destruct st as [k c]. unfold loop_ok. cbn. intros A. destruct o as [v ok|v ok|v ok]; destruct ok; cbn; auto. Qed.

Theorem settings_loop_exact_after_set st v ops : loop_ok (fold_left sstep ops (sstep st (SSetLoop v true))).
Proof.
  assert (H : loop_ok (sstep st (SSetLoop v true))) by (destruct st; reflexivity).
  revert H. generalize (sstep st (SSetLoop v true)). induction ops as [|o r IH]; intros s H; [exact H|]. cbn. apply IH. apply sstep_loop. exact H.
Qed.

(* at construction the reported loopback setting is the opposite of the kernel's: GetMulticastLoop is inverted *)
Theorem settings_loop_refuted_at_construction : ~ loop_ok (peer_new k_default).
Proof. unfold loop_ok. cbn. discriminate. Qed.

(* ---- datagrams *)
Definition read_ok (e : dev) (d : dgram) (buflen : Z) : Prop :=
  match e with
  | DRead _ err n src data =>
      if Z.min buflen (zlen (d_data d)) =? 0 then err = 1 /\ n = 0
      else err = 0 /\ n = Z.min buflen (zlen (d_data d)) /\ src = d_src d /\ data = ztake n (d_data d)
  | _ => False
  end.

(* the datagrams consumed by completed reads, oldest first: each read callback consumed exactly one *)
Fixpoint nreads (l : list dev) : nat := match l with [] => O | DRead _ _ _ _ _ :: r => S (nreads r) | _ :: r => nreads r end.

Definition dinv (s : dstate) : Prop := arrived s = firstn (nreads (dlog s)) (arrived s) ++ q s /\ (nreads (dlog s) <= length (arrived s))%nat.

Lemma firstn_app_exact {A} (a b : list A) : firstn (length a) (a ++ b) = a.
Proof. induction a; cbn; [destruct b; reflexivity|f_equal; assumption]. Qed.

Lemma dinv_len s : dinv s -> length (arrived s) = (nreads (dlog s) + length (q s))%nat.
Proof.
  intros [A B]. rewrite A at 1. rewrite app_length, firstn_length. lia.
Qed.

Lemma consume_head s d rest :
  dinv s -> q s = d :: rest ->
  arrived s = firstn (S (nreads (dlog s))) (arrived s) ++ rest /\ (S (nreads (dlog s)) <= length (arrived s))%nat /\
  nth_error (arrived s) (nreads (dlog s)) = Some d.
Proof.
  intros Hi Hq. pose proof (dinv_len s Hi) as Hl. destruct Hi as [A B]. rewrite Hq in *. cbn in Hl.
  set (n := nreads (dlog s)) in *. set (pre := firstn n (arrived s)) in *.
  assert (Hp : length pre = n) by (unfold pre; rewrite firstn_length; lia).
  assert (E : arrived s = (pre ++ [d]) ++ rest) by (rewrite <- app_assoc; exact A).
  split; [|split; [lia|]].
  - rewrite E at 1. f_equal. rewrite E. replace (S n) with (length (pre ++ [d])) by (rewrite app_length; cbn; lia).
    rewrite firstn_app_exact. reflexivity.
  - rewrite A. rewrite nth_error_app2 by lia. rewrite Hp, Nat.sub_diag. reflexivity.
Qed.

(* Every history: the datagrams that arrived are, in order, the ones consumed by the completed reads (one datagram per read
   callback) followed by the kernel queue - none lost, none split, none merged. *)
Theorem dstep_inv s o : dinv s -> dinv (dstep s o).
Proof.
  intros Hi. destruct o as [d|buflen cb|buflen| |dst data]; cbn [dstep].
  - destruct Hi as [A B]. unfold dinv; cbn. split.
    + rewrite firstn_app. replace (nreads (dlog s) - length (arrived s))%nat with 0%nat by lia. cbn. rewrite app_nil_r.
      rewrite app_assoc. rewrite <- A. reflexivity.
    + rewrite app_length. cbn. lia.
  - destruct (q s) as [|d rest] eqn:Hq.
    + destruct Hi as [A B]. unfold dinv; cbn. rewrite Hq in A. split; assumption.
    + destruct (consume_head s d rest Hi Hq) as (A & B & _). unfold complete_read, dinv; cbn.
      destruct (Z.min buflen (zlen (d_data d)) =? 0); cbn; split; assumption.
  - destruct Hi as [A B]. unfold dinv; cbn. split; assumption.
  - destruct (rpend s) as [cb|]; [|exact Hi]. destruct (q s) as [|d rest] eqn:Hq; [exact Hi|].
    destruct (consume_head s d rest Hi Hq) as (A & B & _). unfold complete_read, dinv; cbn.
    destruct (Z.min (rbuf s) (zlen (d_data d)) =? 0); cbn; split; assumption.
  - destruct Hi as [A B]. unfold dinv; cbn. split; assumption.
Qed.

Theorem drun_inv ops : forall s, dinv s -> dinv (drun s ops).
Proof. induction ops as [|o r IH]; intros s H; [exact H|]. cbn. apply IH. apply dstep_inv. exact H. Qed.

Lemma dinv_init : dinv ds_init.
Proof. unfold dinv; cbn. split; [reflexivity|lia]. Qed.

(* a read that completes - inline or from the poller - delivers exactly the oldest queued datagram: its bytes truncated to
   the buffer designated last, its length, its sender *)
Theorem read_completion_exact s o e :
  dlog (dstep s o) = e :: dlog s -> (exists cb err n src data, e = DRead cb err n src data) ->
  exists d rest buflen, q s = d :: rest /\ q (dstep s o) = rest /\ read_ok e d buflen /\
    (match o with DAsyncRead b _ => buflen = b | _ => buflen = rbuf s end).
Proof.
  intros Hl (cb0 & err & n & src & data & He).
  destruct o as [d|buflen cb|buflen| |dst data0]; cbn [dstep] in *.
  - cbn in Hl. exfalso. clear -Hl. induction (dlog s) as [|x l IH]; [discriminate|]. inversion Hl. apply IH. congruence.
  - destruct (q s) as [|d rest] eqn:Hq.
    + cbn in Hl. exfalso. clear -Hl. assert (H : length (dlog s) = S (length (dlog s))) by (rewrite Hl at 1; reflexivity). lia.
    + exists d, rest, buflen. unfold complete_read in *. cbn in *. split; [reflexivity|]. split; [reflexivity|]. split; [|reflexivity].
      inversion Hl as [He']. unfold read_ok. destruct (Z.min buflen (zlen (d_data d)) =? 0) eqn:E; cbn; auto.
  - cbn in Hl. exfalso. clear -Hl. assert (H : length (dlog s) = S (length (dlog s))) by (rewrite Hl at 1; reflexivity). lia.
  - destruct (rpend s) as [cb|].
    + destruct (q s) as [|d rest] eqn:Hq.
      * exfalso. clear -Hl. assert (H : length (dlog s) = S (length (dlog s))) by (rewrite Hl at 1; reflexivity). lia.
      * exists d, rest, (rbuf s). unfold complete_read in *. cbn in *. split; [reflexivity|]. split; [reflexivity|]. split; [|reflexivity].
        inversion Hl as [He']. unfold read_ok. destruct (Z.min (rbuf s) (zlen (d_data d)) =? 0) eqn:E; cbn; auto.
    + exfalso. clear -Hl. assert (H : length (dlog s) = S (length (dlog s))) by (rewrite Hl at 1; reflexivity). lia.
  - cbn in Hl. inversion Hl; subst. discriminate.
Qed.

(* each write emits exactly one datagram carrying exactly the caller's bytes to the given destination *)
Theorem write_one_datagram s dst data : dlog (dstep s (DWrite dst data)) = DSent dst data :: dlog s /\ q (dstep s (DWrite dst data)) = q s.
Proof. split; reflexivity. Qed.

(* ---- membership: delivery after any history is decided by the latest relevant calls *)
Theorem join_then_delivers l g src l' : gstep l (GJoin g) = (l', 0) -> delivers l' g src = true.
Proof. cbn. destruct (mfind g l); intros H; inversion H; subst. unfold delivers. cbn. rewrite Z.eqb_refl. reflexivity. Qed.

Lemma mfind_mremove g l : (forall m, mfind g l = Some m -> True) -> forall h, h <> g -> mfind h (mremove g l) = mfind h l.
Proof.
  intros _ h Hn. induction l as [|m r IH]; cbn; [reflexivity|].
  destruct (m_group m =? g) eqn:E.
  - replace (m_group m =? h) with false by lia. reflexivity.
  - cbn. destruct (m_group m =? h); [reflexivity|exact IH].
Qed.

Lemma mfind_head g m l : m_group m = g -> mfind g (m :: l) = Some m.
Proof. intros H. cbn. rewrite H, Z.eqb_refl. reflexivity. Qed.

Theorem block_then_not_delivered l g s l' : gstep l (GBlock g s) = (l', 0) -> delivers l' g s = false.
Proof.
  cbn. unfold src_op. destruct (mfind g l) as [m|]; [|cbn; intros H; inversion H].
  destruct (m_alloc m && negb (Bool.eqb (m_any m) true)); [intros H; inversion H|].
  destruct (zmem s (m_srcs m)) eqn:Ez; intros H; inversion H; subst.
  unfold delivers. rewrite mfind_head by reflexivity. cbn [m_any m_srcs]. unfold zmem; cbn [existsb]. rewrite Z.eqb_refl. reflexivity.
Qed.

Theorem joinsource_then_only_that_source l g s l' :
  mfind g l = None -> gstep l (GJoinSource g s) = (l', 0) -> forall src, delivers l' g src = (src =? s).
Proof.
  intros Hn. cbn. unfold src_op. rewrite Hn. cbn. intros H; inversion H; subst. intros src. unfold delivers. rewrite mfind_head by reflexivity.
  cbn. unfold zmem; cbn. rewrite orb_false_r. reflexivity.
Qed.

(* other groups are never affected *)
Theorem other_groups_unaffected l o l' c h src :
  gstep l o = (l', c) ->
  (match o with GJoin g | GLeave g | GJoinSource g _ | GLeaveSource g _ | GBlock g _ | GUnblock g _ => h <> g end) ->
  delivers l' h src = delivers l h src.
Proof.
  intros H Hn. unfold delivers.
  assert (E : mfind h l' = mfind h l).
  { destruct o as [g|g|g s|g s|g s|g s]; cbn in H; unfold src_op in H;
      repeat match type of H with context [match ?x with _ => _ end] => destruct x eqn:? end;
      inversion H; subst; cbn; try reflexivity;
      try (replace (g =? h) with false by lia); try (rewrite mfind_mremove by auto); try reflexivity. }
  rewrite E. reflexivity.
Qed.

(* the kernel's quirk, as a theorem about the environment model: a FAILED LeaveSource on an any-source membership without
   blocked sources turns it into a source-specific membership with no sources - the group's traffic stops although the
   call reported an error *)
Theorem failed_leavesource_can_stop_delivery :
  let l := fst (gstep [] (GJoin 1)) in
  let r := gstep l (GLeaveSource 1 7) in
  snd r = 1 /\ delivers l 1 7 = true /\ delivers (fst r) 1 7 = false.
Proof. vm_compute. auto. Qed.
