(* C05: invariants of the Post transition system (Model/PostConc.v) over ALL interleavings. *)
From Coq Require Import ZifyBool.
From Sonic Require Import Base.Prelude Base.ListLemmas Model.PostConc.
Local Open Scope Z_scope.
Local Arguments Z.add : simpl never.
Local Arguments Z.sub : simpl never.

Definition hold (pc : ppc) : Z := match pc with PLocked _ | PAppended _ => 1 | _ => 0 end.
Definition mid (pc : ppc) : Z := match pc with PAppended _ | PUnlocked _ => 1 | _ => 0 end.
Definition sig (pc : ppc) : Z := match pc with PAppended _ | PUnlocked _ | PCounted _ => 1 | _ => 0 end.
Definition lockbit (s : cstate) : Z := match c_lock s with Some _ => 1 | None => 0 end.
Definition cur_pc (l : lpc) : ppc := match l with LRunning (Some (_, _, pc)) => pc | _ => PIdle end.
Definition loop_hold (l : lpc) : Z := match l with LLocked | LSwapped => 1 | _ => hold (cur_pc l) end.

Fixpoint psum (w : ppc -> Z) (ps : list poster) : Z :=
  match ps with [] => 0 | p :: r => w (p_pc p) + psum w r end.

Lemma psum_upd w i v : forall ps p, nth_error ps i = Some p -> psum w (upd_nth i v ps) = psum w ps - w (p_pc p) + w (p_pc v).
Proof.
  induction i as [|i IH]; intros [|x ps] p H; cbn in *; try discriminate.
  - inversion H; subst. lia.
  - rewrite (IH ps p H). lia.
Qed.

Lemma psum_pos w ps : (forall pc, 0 <= w pc) -> 0 < psum w ps -> exists i p, nth_error ps i = Some p /\ 0 < w (p_pc p).
Proof.
  intros Hw. induction ps as [|x ps IH]; cbn; intros H; [lia|].
  destruct (Z.ltb_spec 0 (w (p_pc x))) as [Hx|Hx].
  - exists O, x. split; [reflexivity|exact Hx].
  - destruct IH as (i & p & A & B); [pose proof (Hw (p_pc x)); lia|]. exists (S i), p. split; assumption.
Qed.

Lemma psum_nonneg w ps : (forall pc, 0 <= w pc) -> 0 <= psum w ps.
Proof. intros Hw. induction ps as [|x ps IH]; cbn; [lia|]. pose proof (Hw (p_pc x)). lia. Qed.

Lemma hold_nonneg pc : 0 <= hold pc.  Proof. destruct pc; cbn; lia. Qed.
Lemma mid_nonneg pc : 0 <= mid pc.  Proof. destruct pc; cbn; lia. Qed.
Lemma sig_nonneg pc : 0 <= sig pc.  Proof. destruct pc; cbn; lia. Qed.

Definition batch_shape (s : cstate) : Prop :=
  match c_loop s with
  | LWait | LDrained | LLocked => c_batch s = []
  | LRunning (Some (h, _, _)) => exists o r, c_batch s = (o, h) :: r
  | _ => True
  end.

Definition wake_ok (s : cstate) : Prop :=
  c_posts s <> [] ->
  0 < c_evc s \/ 0 < psum sig (c_posters s) + sig (cur_pc (c_loop s)) \/ c_loop s = LDrained \/ c_loop s = LLocked.

Record cinv (s : cstate) : Prop := {
  i_flag : c_locked_run s = false;
  i_fifo : c_enq s = c_exec s ++ c_batch s ++ c_posts s;
  i_pend : c_pend s + psum mid (c_posters s) + mid (cur_pc (c_loop s)) = zlen (c_posts s) + zlen (c_batch s);
  i_lock : psum hold (c_posters s) + loop_hold (c_loop s) = lockbit s;
  i_wake : wake_ok s;
  i_evc : 0 <= c_evc s;
  i_batch : batch_shape s
}.

(* what one statement of Post does to the quantities of the invariant *)
Lemma post_stmt_spec s who pc next s1 pc1 :
  post_stmt s who pc next = Some (s1, pc1) -> hold pc <= lockbit s -> 0 <= c_evc s ->
  exists A,
    c_posts s1 = c_posts s ++ A /\ c_enq s1 = c_enq s ++ A /\ c_batch s1 = c_batch s /\ c_exec s1 = c_exec s /\
    c_posters s1 = c_posters s /\ c_loop s1 = c_loop s /\ c_nest s1 = c_nest s /\ c_locked_run s1 = c_locked_run s /\
    c_pend s1 + mid pc1 = c_pend s + mid pc + zlen A /\
    lockbit s1 - hold pc1 = lockbit s - hold pc /\
    c_evc s <= c_evc s1 /\ (sig pc1 < sig pc -> 0 < c_evc s1) /\ (A <> [] -> sig pc1 = 1) /\ sig pc <= sig pc1 + (c_evc s1 - c_evc s) /\
    (A = [] \/ exists h, A = [(who, h)] /\ pc = PLocked h).
Proof.
  unfold post_stmt. destruct pc.
  - destruct next as [h|]; [|discriminate]. destruct (c_lock s) eqn:El; [discriminate|]. intros H; inversion H; subst; clear H.
    exists []. unfold lockbit; cbn. rewrite El, !app_nil_r. repeat split; auto; try lia; try (intros; contradiction).
  - intros H Hh He; inversion H; subst; clear H. exists [(who, h)]. unfold lockbit; cbn. repeat split; auto; try lia.
    all: try (right; exists h; auto).
  - intros H Hh He; inversion H; subst; clear H. exists []. unfold lockbit in *; cbn in *. rewrite !app_nil_r.
    repeat split; auto; try lia; try (intros; contradiction).
    (* the holder releases: the lock bit was 1 *)
    all: try (destruct (c_lock s); lia).
  - intros H Hh He; inversion H; subst; clear H. exists []. unfold lockbit; cbn. rewrite !app_nil_r. repeat split; auto; try lia; try (intros; contradiction).
  - intros H Hh He; inversion H; subst; clear H. exists []. unfold lockbit; cbn. rewrite !app_nil_r. repeat split; auto; try lia; try (intros; contradiction).
Qed.

Lemma psum_ge w i : forall ps p, (forall pc, 0 <= w pc) -> nth_error ps i = Some p -> w (p_pc p) <= psum w ps.
Proof.
  induction i as [|i IH]; intros [|x ps] p Hw H; cbn in *; try discriminate.
  - inversion H; subst. pose proof (psum_nonneg w ps Hw). lia.
  - pose proof (IH ps p Hw H). pose proof (Hw (p_pc x)). lia.
Qed.

Lemma lockbit_range s : 0 <= lockbit s <= 1.
Proof. unfold lockbit. destruct (c_lock s); lia. Qed.

(* the quantities after one Post statement by a thread whose pc contributes [pc] before and [pc1] after; [S*] are the
   sums over all OTHER threads (unchanged by the statement) *)
Lemma post_stmt_inv s who pc next s1 pc1 (Smid Shold Ssig : Z) :
  cinv s -> post_stmt s who pc next = Some (s1, pc1) ->
  0 <= Smid -> 0 <= Shold -> 0 <= Ssig ->
  c_pend s + Smid + mid pc = zlen (c_posts s) + zlen (c_batch s) ->
  Shold + hold pc = lockbit s ->
  (c_posts s <> [] -> 0 < c_evc s \/ 0 < Ssig + sig pc \/ c_loop s = LDrained \/ c_loop s = LLocked) ->
  c_locked_run s1 = false /\
  c_enq s1 = c_exec s1 ++ c_batch s1 ++ c_posts s1 /\
  c_pend s1 + Smid + mid pc1 = zlen (c_posts s1) + zlen (c_batch s1) /\
  Shold + hold pc1 = lockbit s1 /\
  (c_posts s1 <> [] -> 0 < c_evc s1 \/ 0 < Ssig + sig pc1 \/ c_loop s = LDrained \/ c_loop s = LLocked) /\
  0 <= c_evc s1 /\ c_batch s1 = c_batch s /\ c_posters s1 = c_posters s /\ c_loop s1 = c_loop s.
Proof.
  intros Hi Hp Hm Hh Hs Epend Elock Ewake.
  pose proof (hold_nonneg pc).
  destruct (post_stmt_spec _ _ _ _ _ _ Hp ltac:(lia) (i_evc _ Hi)) as
    (A & P1 & P2 & P3 & P4 & P5 & P6 & P7 & P8 & P9 & P10 & P11 & P12 & P13 & P14 & P15).
  split; [rewrite P8; apply (i_flag _ Hi)|].
  split; [rewrite P2, P4, P3, P1, (i_fifo _ Hi), <- !app_assoc; reflexivity|].
  split; [rewrite P1, P3, zlen_app; lia|].
  split; [lia|].
  split.
  { intros Hne. pose proof (i_evc _ Hi).
    destruct A as [|a A].
    - rewrite app_nil_r in P1. rewrite P1 in Hne. destruct (Ewake Hne) as [E|[E|E]]; [left; lia| |right; right; exact E].
      destruct (Z.ltb_spec (c_evc s) (c_evc s1)); [left; lia|right; left; lia].
    - right. left. pose proof (P13 ltac:(discriminate)). lia. }
  pose proof (i_evc _ Hi). repeat split; auto; lia.
Qed.

Theorem tstep_inv s t s' : cinv s -> tstep s t = Some s' -> cinv s'.
Proof.
  intros Hi Hs. pose proof Hi as [Iflag Ififo Ipend Ilock Iwake Ievc Ibatch].
  unfold wake_ok in Iwake.
  pose proof (lockbit_range s) as Hlr.
  pose proof (psum_nonneg hold (c_posters s) hold_nonneg) as Hph.
  pose proof (psum_nonneg mid (c_posters s) mid_nonneg) as Hpm.
  pose proof (psum_nonneg sig (c_posters s) sig_nonneg) as Hps.
  destruct t as [|i]; cbn [tstep] in Hs.
  - (* the loop goroutine *)
    unfold loop_hold, batch_shape in *.
    destruct (c_loop s) as [| | | |cur] eqn:El; cbn [cur_pc hold mid sig] in *.
    + (* epoll_wait returns, eventfd drained *)
      destruct (0 <? c_evc s) eqn:E; [|discriminate]. inversion Hs; subst; clear Hs.
      constructor; cbn;
        [first [assumption|reflexivity]|exact Ififo|exact Ipend|unfold loop_hold, lockbit in *; cbn in *; exact Ilock| |lia|unfold batch_shape; cbn; exact Ibatch].
      unfold wake_ok; cbn. intros _. right. right. left. reflexivity.
    + destruct (c_lock s) eqn:Ek; [discriminate|]. inversion Hs; subst; clear Hs.
      constructor; cbn;
        [first [assumption|reflexivity]|exact Ififo|exact Ipend|unfold loop_hold, lockbit in *; cbn in *; rewrite Ek in Ilock; lia| |exact Ievc|unfold batch_shape; cbn; exact Ibatch].
      unfold wake_ok; cbn. intros _. right. right. right. reflexivity.
    + (* swap *)
      inversion Hs; subst; clear Hs.
      constructor; cbn;
        [first [assumption|reflexivity]|rewrite Ififo, Ibatch; cbn; rewrite app_nil_r; reflexivity|
         rewrite Ibatch in Ipend; unfold zlen in *; cbn in *; lia|unfold loop_hold, lockbit in *; cbn in *; exact Ilock| |exact Ievc|unfold batch_shape; cbn; exact I].
      unfold wake_ok; cbn. intros Hne. contradiction.
    + (* unlock, start running the batch *)
      inversion Hs; subst; clear Hs. rewrite Iflag.
      constructor; cbn;
        [first [assumption|reflexivity]|exact Ififo|exact Ipend|unfold loop_hold, lockbit in *; cbn in *; lia| |exact Ievc|unfold batch_shape; cbn; exact I].
      unfold wake_ok; cbn. intros Hne. destruct (Iwake Hne) as [E|[E|[E|E]]]; [left; exact E|right; left; exact E|discriminate|discriminate].
    + destruct cur as [[[h todo] pc]|]; cbn [cur_pc hold mid sig] in *.
      * (* inside a handler *)
        destruct Ibatch as (o & r & Hb).
        destruct pc as [|hh|hh|hh|hh]; [destruct todo as [|n rest]|..]; cbn [cur_pc hold mid sig] in *.
        -- (* the handler returns *)
           inversion Hs; subst; clear Hs. rewrite Hb in *. cbn [tl firstn].
           constructor; cbn;
             [first [assumption|reflexivity]|rewrite Ififo; cbn; rewrite <- app_assoc; reflexivity|unfold zlen in *; cbn [length] in *; lia|
              unfold loop_hold; cbn; exact Ilock| |exact Ievc|unfold batch_shape; cbn; exact I].
           unfold wake_ok; cbn. intros Hne. destruct (Iwake Hne) as [E|[E|[E|E]]]; [left; exact E|right; left; exact E|discriminate|discriminate].
        -- destruct (post_stmt s TLoop (PIdle) (Some n)) as [[s1 pc1]|] eqn:Ep; [|discriminate]. inversion Hs; subst; clear Hs.
           match type of Ep with post_stmt _ _ ?pc _ = _ =>
             assert (Wp : c_posts s <> [] -> 0 < c_evc s \/ 0 < psum sig (c_posters s) + sig pc \/ c_loop s = LDrained \/ c_loop s = LLocked) end.
           { intros Hne. destruct (Iwake Hne) as [E|[E|[E|E]]]; [left; exact E|right; left; cbn; lia|discriminate|discriminate]. }
           destruct (post_stmt_inv s TLoop _ (Some n) s1 pc1 (psum mid (c_posters s)) (psum hold (c_posters s)) (psum sig (c_posters s)) Hi Ep Hpm Hph Hps
                       ltac:(cbn [mid]; lia) ltac:(cbn [hold]; lia) Wp)
             as (Q1 & Q2 & Q3 & Q4 & Q5 & Q6 & Q7 & Q8 & Q9); cbn [mid hold sig cur_pc] in *.
           constructor; cbn; rewrite ?Q8;
             [exact Q1|exact Q2|lia|unfold loop_hold, lockbit in *; cbn in *; lia| |exact Q6|unfold batch_shape; cbn; rewrite Q7, Hb; eauto].
           unfold wake_ok; cbn. rewrite Q8. intros Hne. destruct (Q5 Hne) as [E|[E|[E|E]]]; [left; exact E|right; left; lia|rewrite El in E; discriminate|rewrite El in E; discriminate].
        -- destruct (post_stmt s TLoop (PLocked hh) None) as [[s1 pc1]|] eqn:Ep; [|discriminate]. inversion Hs; subst; clear Hs.
           match type of Ep with post_stmt _ _ ?pc _ = _ =>
             assert (Wp : c_posts s <> [] -> 0 < c_evc s \/ 0 < psum sig (c_posters s) + sig pc \/ c_loop s = LDrained \/ c_loop s = LLocked) end.
           { intros Hne. destruct (Iwake Hne) as [E|[E|[E|E]]]; [left; exact E|right; left; cbn; lia|discriminate|discriminate]. }
           destruct (post_stmt_inv s TLoop _ None s1 pc1 (psum mid (c_posters s)) (psum hold (c_posters s)) (psum sig (c_posters s)) Hi Ep Hpm Hph Hps
                       ltac:(cbn [mid]; lia) ltac:(cbn [hold]; lia) Wp)
             as (Q1 & Q2 & Q3 & Q4 & Q5 & Q6 & Q7 & Q8 & Q9); cbn [mid hold sig cur_pc] in *.
           constructor; cbn; rewrite ?Q8;
             [exact Q1|exact Q2|lia|unfold loop_hold, lockbit in *; cbn in *; lia| |exact Q6|unfold batch_shape; cbn; rewrite Q7, Hb; eauto].
           unfold wake_ok; cbn. rewrite Q8. intros Hne. destruct (Q5 Hne) as [E|[E|[E|E]]]; [left; exact E|right; left; lia|rewrite El in E; discriminate|rewrite El in E; discriminate].
        -- destruct (post_stmt s TLoop (PAppended hh) None) as [[s1 pc1]|] eqn:Ep; [|discriminate]. inversion Hs; subst; clear Hs.
           match type of Ep with post_stmt _ _ ?pc _ = _ =>
             assert (Wp : c_posts s <> [] -> 0 < c_evc s \/ 0 < psum sig (c_posters s) + sig pc \/ c_loop s = LDrained \/ c_loop s = LLocked) end.
           { intros Hne. destruct (Iwake Hne) as [E|[E|[E|E]]]; [left; exact E|right; left; cbn; lia|discriminate|discriminate]. }
           destruct (post_stmt_inv s TLoop _ None s1 pc1 (psum mid (c_posters s)) (psum hold (c_posters s)) (psum sig (c_posters s)) Hi Ep Hpm Hph Hps
                       ltac:(cbn [mid]; lia) ltac:(cbn [hold]; lia) Wp)
             as (Q1 & Q2 & Q3 & Q4 & Q5 & Q6 & Q7 & Q8 & Q9); cbn [mid hold sig cur_pc] in *.
           constructor; cbn; rewrite ?Q8;
             [exact Q1|exact Q2|lia|unfold loop_hold, lockbit in *; cbn in *; lia| |exact Q6|unfold batch_shape; cbn; rewrite Q7, Hb; eauto].
           unfold wake_ok; cbn. rewrite Q8. intros Hne. destruct (Q5 Hne) as [E|[E|[E|E]]]; [left; exact E|right; left; lia|rewrite El in E; discriminate|rewrite El in E; discriminate].
        -- destruct (post_stmt s TLoop (PUnlocked hh) None) as [[s1 pc1]|] eqn:Ep; [|discriminate]. inversion Hs; subst; clear Hs.
           match type of Ep with post_stmt _ _ ?pc _ = _ =>
             assert (Wp : c_posts s <> [] -> 0 < c_evc s \/ 0 < psum sig (c_posters s) + sig pc \/ c_loop s = LDrained \/ c_loop s = LLocked) end.
           { intros Hne. destruct (Iwake Hne) as [E|[E|[E|E]]]; [left; exact E|right; left; cbn; lia|discriminate|discriminate]. }
           destruct (post_stmt_inv s TLoop _ None s1 pc1 (psum mid (c_posters s)) (psum hold (c_posters s)) (psum sig (c_posters s)) Hi Ep Hpm Hph Hps
                       ltac:(cbn [mid]; lia) ltac:(cbn [hold]; lia) Wp)
             as (Q1 & Q2 & Q3 & Q4 & Q5 & Q6 & Q7 & Q8 & Q9); cbn [mid hold sig cur_pc] in *.
           constructor; cbn; rewrite ?Q8;
             [exact Q1|exact Q2|lia|unfold loop_hold, lockbit in *; cbn in *; lia| |exact Q6|unfold batch_shape; cbn; rewrite Q7, Hb; eauto].
           unfold wake_ok; cbn. rewrite Q8. intros Hne. destruct (Q5 Hne) as [E|[E|[E|E]]]; [left; exact E|right; left; lia|rewrite El in E; discriminate|rewrite El in E; discriminate].
        -- destruct (post_stmt s TLoop (PCounted hh) None) as [[s1 pc1]|] eqn:Ep; [|discriminate]. inversion Hs; subst; clear Hs.
           match type of Ep with post_stmt _ _ ?pc _ = _ =>
             assert (Wp : c_posts s <> [] -> 0 < c_evc s \/ 0 < psum sig (c_posters s) + sig pc \/ c_loop s = LDrained \/ c_loop s = LLocked) end.
           { intros Hne. destruct (Iwake Hne) as [E|[E|[E|E]]]; [left; exact E|right; left; cbn; lia|discriminate|discriminate]. }
           destruct (post_stmt_inv s TLoop _ None s1 pc1 (psum mid (c_posters s)) (psum hold (c_posters s)) (psum sig (c_posters s)) Hi Ep Hpm Hph Hps
                       ltac:(cbn [mid]; lia) ltac:(cbn [hold]; lia) Wp)
             as (Q1 & Q2 & Q3 & Q4 & Q5 & Q6 & Q7 & Q8 & Q9); cbn [mid hold sig cur_pc] in *.
           constructor; cbn; rewrite ?Q8;
             [exact Q1|exact Q2|lia|unfold loop_hold, lockbit in *; cbn in *; lia| |exact Q6|unfold batch_shape; cbn; rewrite Q7, Hb; eauto].
           unfold wake_ok; cbn. rewrite Q8. intros Hne. destruct (Q5 Hne) as [E|[E|[E|E]]]; [left; exact E|right; left; lia|rewrite El in E; discriminate|rewrite El in E; discriminate].
      * (* between handlers *)
        destruct (c_batch s) as [|[o h] r] eqn:Hb.
        -- inversion Hs; subst; clear Hs. rewrite Iflag.
           constructor; cbn;
             [first [assumption|reflexivity]|rewrite ?Hb; exact Ififo|rewrite ?Hb; exact Ipend|unfold loop_hold; cbn; exact Ilock| |exact Ievc|unfold batch_shape; cbn; first [exact Hb|reflexivity]].
           unfold wake_ok; cbn. intros Hne. destruct (Iwake Hne) as [E|[E|[E|E]]]; [left; exact E|right; left; exact E|discriminate|discriminate].
        -- inversion Hs; subst; clear Hs.
           constructor; cbn;
             [first [assumption|reflexivity]|rewrite ?Hb; exact Ififo|rewrite ?Hb; exact Ipend|unfold loop_hold; cbn; exact Ilock| |exact Ievc|unfold batch_shape; cbn; rewrite Hb; eauto].
           unfold wake_ok; cbn. intros Hne. destruct (Iwake Hne) as [E|[E|[E|E]]]; [left; exact E|right; left; exact E|discriminate|discriminate].
  - (* a posting goroutine *)
    destruct (nth_error (c_posters s) i) as [p|] eqn:En; [|discriminate].
    set (nr := match p_pc p, p_todo p with PIdle, h :: r => (Some h, r) | _, td => (None, td) end) in *.
    destruct nr as [next rest].
    destruct (post_stmt s (TPoster i) (p_pc p) next) as [[s1 pc1]|] eqn:Ep; [|discriminate]. inversion Hs; subst; clear Hs.
    pose proof (psum_ge mid i _ _ mid_nonneg En) as Gm.
    pose proof (psum_ge hold i _ _ hold_nonneg En) as Gh.
    pose proof (psum_ge sig i _ _ sig_nonneg En) as Gs.
    pose proof (mid_nonneg (cur_pc (c_loop s))) as Cm. pose proof (sig_nonneg (cur_pc (c_loop s))) as Cs.
    assert (Clh : 0 <= loop_hold (c_loop s)).
    { unfold loop_hold. destruct (c_loop s); try lia; apply hold_nonneg. }
    destruct (post_stmt_inv s (TPoster i) (p_pc p) next s1 pc1
                (psum mid (c_posters s) - mid (p_pc p) + mid (cur_pc (c_loop s)))
                (psum hold (c_posters s) - hold (p_pc p) + loop_hold (c_loop s))
                (psum sig (c_posters s) - sig (p_pc p) + sig (cur_pc (c_loop s))) Hi Ep)
      as (Q1 & Q2 & Q3 & Q4 & Q5 & Q6 & Q7 & Q8 & Q9); try lia.
    { intros Hne. destruct (Iwake Hne) as [E|[E|E]]; [left; exact E|right; left; lia|right; right; exact E]. }
    constructor; cbn; rewrite ?Q8, ?Q9.
    + exact Q1.
    + exact Q2.
    + rewrite (psum_upd mid i _ _ p En). cbn. lia.
    + rewrite (psum_upd hold i _ _ p En). unfold lockbit in *. cbn. lia.
    + unfold wake_ok; cbn. rewrite ?Q8, ?Q9. intros Hne. rewrite (psum_upd sig i _ _ p En). cbn.
      destruct (Q5 Hne) as [E|[E|E]]; [left; exact E|right; left; lia|right; right; exact E].
    + exact Q6.
    + unfold batch_shape in *; cbn. rewrite Q9, Q7. exact Ibatch.
Qed.

Lemma cinv_init todos nest : cinv (cinit todos nest false).
Proof.
  assert (Hz : forall w, w PIdle = 0 -> psum w (map (fun td => mkposter td PIdle) todos) = 0).
  { intros w Hw. induction todos as [|t r IH]; cbn; [reflexivity|]. rewrite Hw, IH. reflexivity. }
  constructor; cbn;
    [reflexivity|reflexivity|rewrite (Hz mid eq_refl); unfold zlen; cbn; lia|rewrite (Hz hold eq_refl); reflexivity|
     intros H; contradiction|lia|reflexivity].
Qed.

(* every state reachable under ANY schedule (any interleaving of any number of posting goroutines with the loop) *)
Theorem crun_inv sched : forall s, cinv s -> cinv (crun s sched).
Proof.
  induction sched as [|t r IH]; intros s Hi; cbn [crun]; [exact Hi|].
  apply IH. destruct (tstep s t) eqn:E; [eapply tstep_inv; eassumption|exact Hi].
Qed.

(* ---- order: what each goroutine has appended so far is a prefix of its program, in program order *)
Definition owned (i : nat) (l : list (tid * Z)) : list Z := map snd (filter (fun e => tid_eqb (fst e) (TPoster i)) l).
Definition lockpart (pc : ppc) : list Z := match pc with PLocked h => [h] | _ => [] end.
Definition ord_inv (todos : list (list Z)) (s : cstate) : Prop :=
  forall i p, nth_error (c_posters s) i = Some p -> nth_error todos i = Some (owned i (c_enq s) ++ lockpart (p_pc p) ++ p_todo p).

Lemma nth_upd_same {A} i (v : A) : forall l x, nth_error l i = Some x -> nth_error (upd_nth i v l) i = Some v.
Proof. induction i as [|i IH]; intros [|y l] x H; cbn in *; try discriminate; [reflexivity|eapply IH; eassumption]. Qed.

Lemma nth_upd_other {A} i j (v : A) : i <> j -> forall l, nth_error (upd_nth i v l) j = nth_error l j.
Proof.
  revert j. induction i as [|i IH]; intros [|j] Hn [|y l]; cbn; try reflexivity; try congruence.
  apply IH. congruence.
Qed.

Lemma owned_app i a b : owned i (a ++ b) = owned i a ++ owned i b.
Proof. unfold owned. rewrite filter_app, map_app. reflexivity. Qed.

Definition next_pc (pc : ppc) (next : option Z) : ppc :=
  match pc with
  | PIdle => match next with Some h => PLocked h | None => PIdle end
  | PLocked h => PAppended h | PAppended h => PUnlocked h | PUnlocked h => PCounted h | PCounted _ => PIdle
  end.

Lemma post_stmt_enq s who pc next s1 pc1 :
  post_stmt s who pc next = Some (s1, pc1) ->
  c_posters s1 = c_posters s /\ c_enq s1 = c_enq s ++ (match pc with PLocked h => [(who, h)] | _ => [] end) /\ pc1 = next_pc pc next.
Proof.
  unfold post_stmt. destruct pc; [destruct next; [destruct (c_lock s)|]|..]; intros H; inversion H; subst; cbn;
    rewrite ?app_nil_r; auto.
Qed.

Lemma loop_step_enq s s' :
  tstep s TLoop = Some s' ->
  c_posters s' = c_posters s /\ exists A, c_enq s' = c_enq s ++ A /\ forall i, owned i A = [].
Proof.
  cbn [tstep]. intros Hs.
  assert (Hnil : c_posters s' = c_posters s -> c_enq s' = c_enq s ->
                 c_posters s' = c_posters s /\ exists A, c_enq s' = c_enq s ++ A /\ forall i, owned i A = []).
  { intros A B. split; [exact A|]. exists []. rewrite app_nil_r. auto. }
  destruct (c_loop s) as [| | | |cur].
  - destruct (0 <? c_evc s); inversion Hs; subst; apply Hnil; reflexivity.
  - destruct (c_lock s); inversion Hs; subst; apply Hnil; reflexivity.
  - inversion Hs; subst; apply Hnil; reflexivity.
  - inversion Hs; subst; apply Hnil; reflexivity.
  - destruct cur as [[[h todo] pc]|].
    + assert (Hg : forall next rest, match post_stmt s TLoop pc next with
                                     | None => None
                                     | Some (s1, pc1) => Some (set_loop s1 (LRunning (Some (h, rest, pc1))))
                                     end = Some s' ->
                     c_posters s' = c_posters s /\ exists A, c_enq s' = c_enq s ++ A /\ forall i, owned i A = []).
      { intros next rest H. destruct (post_stmt s TLoop pc next) as [[s1 pc1]|] eqn:Ep; [|discriminate]. inversion H; subst; clear H.
        destruct (post_stmt_enq _ _ _ _ _ _ Ep) as (A & B & _). cbn. split; [exact A|].
        eexists. split; [exact B|]. intros i. destruct pc; reflexivity. }
      destruct pc as [|hh|hh|hh|hh]; [destruct todo as [|n r]|..];
        [inversion Hs; subst; apply Hnil; reflexivity|exact (Hg (Some n) r Hs)|exact (Hg None todo Hs)..].
    + destruct (c_batch s) as [|[o h] r]; inversion Hs; subst; apply Hnil; reflexivity.
Qed.

Lemma tstep_ord todos s t s' : ord_inv todos s -> tstep s t = Some s' -> ord_inv todos s'.
Proof.
  intros Ho Hs. destruct t as [|j].
  - destruct (loop_step_enq _ _ Hs) as (A & B & E & F). intros i p Hn. rewrite A in Hn. rewrite E, owned_app, F, app_nil_r. apply Ho. exact Hn.
  - cbn [tstep] in Hs.
    destruct (nth_error (c_posters s) j) as [q|] eqn:En; [|discriminate].
    destruct (match p_pc q, p_todo q with PIdle, h :: r => (Some h, r) | _, td => (None, td) end) as [next rest] eqn:Enr.
    destruct (post_stmt s (TPoster j) (p_pc q) next) as [[s1 pc1]|] eqn:Ep; [|discriminate]. inversion Hs; subst; clear Hs.
    destruct (post_stmt_enq _ _ _ _ _ _ Ep) as (A & B & C).
    intros i p Hn. unfold set_posters in Hn |- *; cbn [c_posters c_enq] in Hn |- *. rewrite A in Hn. rewrite B, owned_app.
    destruct (Nat.eq_dec j i) as [->|Hne].
    + rewrite (nth_upd_same i _ _ _ En) in Hn. inversion Hn; subst; clear Hn. cbn [p_pc p_todo].
      rewrite (Ho i q En).
      destruct (p_pc q) as [|h|h|h|h] eqn:Epc; cbn [next_pc lockpart].
      * destruct (p_todo q) as [|h r]; inversion Enr; subst; cbn; rewrite ?app_nil_r; reflexivity.
      * inversion Enr; subst. unfold owned; cbn. rewrite Nat.eqb_refl. cbn. rewrite <- app_assoc. reflexivity.
      * inversion Enr; subst. cbn. rewrite app_nil_r. reflexivity.
      * inversion Enr; subst. cbn. rewrite app_nil_r. reflexivity.
      * inversion Enr; subst. cbn. rewrite app_nil_r. reflexivity.
    + rewrite (nth_upd_other j i _ Hne) in Hn. rewrite (Ho i p Hn).
      assert (Hz : owned i (match p_pc q with PLocked h => [(TPoster j, h)] | _ => [] end) = []).
      { destruct (p_pc q); try reflexivity. unfold owned; cbn. destruct (Nat.eqb_spec j i); [contradiction|reflexivity]. }
      rewrite Hz, app_nil_r. reflexivity.
Qed.

Lemma ord_init todos nest fl : ord_inv todos (cinit todos nest fl).
Proof.
  intros i p Hn. cbn in *. rewrite nth_error_map in Hn. destruct (nth_error todos i) as [td|]; [|discriminate].
  inversion Hn; subst. reflexivity.
Qed.

Theorem crun_ord todos sched : forall s, ord_inv todos s -> ord_inv todos (crun s sched).
Proof.
  induction sched as [|t r IH]; intros s Ho; cbn [crun]; [exact Ho|].
  apply IH. destruct (tstep s t) eqn:E; [eapply tstep_ord; eassumption|exact Ho].
Qed.

(* ---- deadlock freedom *)
Definition idleb (p : poster) : bool := match p_pc p, p_todo p with PIdle, [] => true | _, _ => false end.
Definition finished (s : cstate) : Prop :=
  forallb idleb (c_posters s) = true /\ c_posts s = [] /\ c_batch s = [] /\ c_loop s = LWait.

Lemma forallb_false {A} (f : A -> bool) : forall l, forallb f l = false -> exists i x, nth_error l i = Some x /\ f x = false.
Proof.
  induction l as [|y l IH]; cbn; intros H; [discriminate|].
  destruct (f y) eqn:E.
  - destruct (IH H) as (i & x & A1 & A2). exists (S i), x. auto.
  - exists O, y. auto.
Qed.

Lemma poster_enabled s i p :
  nth_error (c_posters s) i = Some p ->
  p_pc p <> PIdle \/ (p_todo p <> [] /\ c_lock s = None) ->
  tstep s (TPoster i) <> None.
Proof.
  intros Hn H. cbn [tstep]. rewrite Hn.
  destruct (p_pc p) as [|h|h|h|h] eqn:Epc; cbn.
  - destruct H as [H|[H1 H2]]; [contradiction|]. destruct (p_todo p); [contradiction|]. cbn. rewrite H2. discriminate.
  - discriminate.
  - discriminate.
  - discriminate.
  - discriminate.
Qed.

Lemma holder_poster s : cinv s -> lockbit s = 1 -> loop_hold (c_loop s) = 0 -> exists t, tstep s t <> None.
Proof.
  intros Hi Hl Hz. pose proof (i_lock _ Hi) as Il.
  destruct (psum_pos hold (c_posters s) hold_nonneg ltac:(lia)) as (i & p & Hn & Hp).
  exists (TPoster i). eapply poster_enabled; [exact Hn|]. left. intros E. rewrite E in Hp. cbn in Hp. lia.
Qed.

(* In every reachable state of every interleaving: if anything is left to do, some goroutine can move - nothing blocks
   for ever on the mutex or in epoll_wait (no lost wake-up). *)
Theorem progress s : cinv s -> ~ finished s -> exists t, tstep s t <> None.
Proof.
  intros Hi Hnf. pose proof Hi as [Iflag Ififo Ipend Ilock Iwake Ievc Ibatch].
  pose proof (lockbit_range s) as Hlr.
  assert (Hlock : c_lock s = None \/ lockbit s = 1) by (unfold lockbit; destruct (c_lock s); auto).
  destruct (c_loop s) as [| | | |cur] eqn:El.
  - (* in epoll_wait *)
    destruct (0 <? c_evc s) eqn:Ee.
    { exists TLoop. cbn [tstep]. rewrite El, Ee. discriminate. }
    unfold batch_shape in Ibatch. rewrite El in Ibatch.
    destruct (c_posts s) as [|x ps] eqn:Ep.
    + destruct (forallb idleb (c_posters s)) eqn:Ef.
      { exfalso. apply Hnf. unfold finished. rewrite Ef, Ep, Ibatch, El. auto. }
      destruct (forallb_false _ _ Ef) as (i & p & Hn & Hp).
      destruct (p_pc p) eqn:Epc.
      * destruct Hlock as [Hk|Hk].
        -- exists (TPoster i). eapply poster_enabled; [exact Hn|]. right. split; [|exact Hk].
           unfold idleb in Hp. rewrite Epc in Hp. destruct (p_todo p); [discriminate|discriminate].
        -- apply holder_poster; [exact Hi|exact Hk|rewrite El; reflexivity].
      * exists (TPoster i). eapply poster_enabled; [exact Hn|left; rewrite Epc; discriminate].
      * exists (TPoster i). eapply poster_enabled; [exact Hn|left; rewrite Epc; discriminate].
      * exists (TPoster i). eapply poster_enabled; [exact Hn|left; rewrite Epc; discriminate].
      * exists (TPoster i). eapply poster_enabled; [exact Hn|left; rewrite Epc; discriminate].
    + (* something is queued and the loop sleeps: a poster is between its append and its eventfd write *)
      unfold wake_ok in Iwake. rewrite Ep, El in Iwake.
      destruct (Iwake ltac:(discriminate)) as [E|[E|[E|E]]]; [lia| |discriminate|discriminate].
      cbn in E. destruct (psum_pos sig (c_posters s) sig_nonneg ltac:(lia)) as (i & p & Hn & Hp).
      exists (TPoster i). eapply poster_enabled; [exact Hn|]. left. intros Epc. rewrite Epc in Hp. cbn in Hp. lia.
  - destruct Hlock as [Hk|Hk].
    + exists TLoop. cbn [tstep]. rewrite El, Hk. discriminate.
    + apply holder_poster; [exact Hi|exact Hk|rewrite El; reflexivity].
  - exists TLoop. cbn [tstep]. rewrite El. discriminate.
  - exists TLoop. cbn [tstep]. rewrite El. discriminate.
  - destruct cur as [[[h todo] pc]|].
    + destruct pc as [|hh|hh|hh|hh]; [destruct todo as [|n r]|..].
      * exists TLoop. cbn [tstep]. rewrite El. discriminate.
      * destruct Hlock as [Hk|Hk].
        -- exists TLoop. cbn [tstep]. rewrite El. cbn. rewrite Hk. discriminate.
        -- apply holder_poster; [exact Hi|exact Hk|rewrite El; reflexivity].
      * exists TLoop. cbn [tstep]. rewrite El. cbn. discriminate.
      * exists TLoop. cbn [tstep]. rewrite El. cbn. discriminate.
      * exists TLoop. cbn [tstep]. rewrite El. cbn. discriminate.
      * exists TLoop. cbn [tstep]. rewrite El. cbn. discriminate.
    + exists TLoop. cbn [tstep]. rewrite El. destruct (c_batch s) as [|[o h] r]; discriminate.
Qed.

(* when everything is done: every handler appended was run exactly once, in append order, and each goroutine's handlers
   ran in the order it posted them *)
Theorem finished_exactly_once todos s :
  cinv s -> ord_inv todos s -> finished s ->
  c_exec s = c_enq s /\ c_pend s = 0 /\
  forall i p, nth_error (c_posters s) i = Some p -> nth_error todos i = Some (owned i (c_exec s)).
Proof.
  intros Hi Ho (F1 & F2 & F3 & F4).
  assert (Hex : c_exec s = c_enq s) by (rewrite (i_fifo _ Hi), F2, F3, !app_nil_r; reflexivity).
  split; [exact Hex|]. split.
  - pose proof (i_pend _ Hi) as Ip. rewrite F2, F3, F4 in Ip. cbn in Ip.
    assert (Hz : psum mid (c_posters s) = 0).
    { clear -F1. induction (c_posters s) as [|x l IH]; cbn in *; [reflexivity|].
      apply andb_prop in F1. destruct F1 as [A B]. rewrite (IH B). unfold idleb in A. destruct (p_pc x); try discriminate. reflexivity. }
    unfold zlen in Ip; cbn in Ip. lia.
  - intros i p Hn. rewrite (Ho i p Hn), Hex.
    assert (Hp : idleb p = true).
    { clear -F1 Hn. revert i Hn. induction (c_posters s) as [|x l IH]; intros [|i] Hn; cbn in *; try discriminate.
      - inversion Hn; subst. apply andb_prop in F1. apply F1.
      - apply andb_prop in F1. eapply IH; [apply F1|exact Hn]. }
    unfold idleb in Hp. destruct (p_pc p); try discriminate. destruct (p_todo p); [|discriminate]. cbn. rewrite app_nil_r. reflexivity.
Qed.

(* The structure the code had before the repair - handlers run while dispatch holds the mutex - deadlocks as soon as a
   posted handler posts: a reachable state with work left in which no goroutine can move. *)
Theorem locked_dispatch_deadlocks :
  exists sched, let s := crun (cinit [[1]] [(1, [2])] true) sched in
    c_batch s <> [] /\ tstep s TLoop = None /\ forall i, tstep s (TPoster i) = None.
Proof.
  exists [TPoster 0; TPoster 0; TPoster 0; TPoster 0; TPoster 0; TLoop; TLoop; TLoop; TLoop; TLoop]%nat.
  vm_compute. split; [discriminate|]. split; [reflexivity|]. intros [|[|i]]; reflexivity.
Qed.
