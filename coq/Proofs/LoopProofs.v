(* C03 C01 C04: proofs about the event-loop model. *)
From Coq Require Import ZifyBool.
From Sonic Require Import Base.Prelude Base.ListLemmas Gen.Consts Model.Loop.
Local Open Scope Z_scope.

(* ================================================================ accounting: pending = registered interests + posts *)

Definition wobj (o : obj) : Z := (if o_evR o then 1 else 0) + (if o_evW o then 1 else 0).
Definition wtm (t : tmr) : Z := if t_evR t then 1 else 0.

Fixpoint sumf {A} (w : A -> Z) (l : list (Z * A)) : Z :=
  match l with [] => 0 | (_, v) :: r => w v + sumf w r end.

Definition interest (s : loop) : Z := sumf wobj (l_objs s) + sumf wtm (l_tmrs s) + zlen (l_posts s).
Definition acct (s : loop) : Prop := l_pending s = interest s.

Lemma sum_update {A} (w : A -> Z) i v l :
  sumf w (update i v l) = sumf w l - (match lookup i l with Some o => w o | None => 0 end) + w v.
Proof.
  induction l as [|[k x] r IH]; cbn [update lookup sumf]; [lia|].
  destruct (i =? k) eqn:E; cbn [sumf]; [lia|]. rewrite IH. lia.
Qed.

Lemma interest_set_obj s i o' :
  interest (set_obj s i o') = interest s - (match lookup i (l_objs s) with Some o => wobj o | None => 0 end) + wobj o'.
Proof. unfold interest, set_obj; cbn. rewrite sum_update. lia. Qed.

Lemma interest_set_tmr s i t' :
  interest (set_tmr s i t') = interest s - (match lookup i (l_tmrs s) with Some t => wtm t | None => 0 end) + wtm t'.
Proof. unfold interest, set_tmr; cbn. rewrite sum_update. lia. Qed.

(* the quantity preserved is pending - interest; "gap s" must stay 0 *)
Definition gap (s : loop) : Z := l_pending s - interest s.

Lemma gap_set_obj s i o' :
  gap (set_obj s i o') = gap s + (match lookup i (l_objs s) with Some o => wobj o | None => 0 end) - wobj o'.
Proof. unfold gap. rewrite interest_set_obj. cbn. lia. Qed.

Lemma gap_set_tmr s i t' :
  gap (set_tmr s i t') = gap s + (match lookup i (l_tmrs s) with Some t => wtm t | None => 0 end) - wtm t'.
Proof. unfold gap. rewrite interest_set_tmr. cbn. lia. Qed.

Lemma gap_set_pending s p : gap (set_pending s p) = p - interest s.
Proof. reflexivity. Qed.

Lemma gap_add_log s e : gap (add_log s e) = gap s.
Proof. reflexivity. Qed.
Lemma gap_set_disp s d : gap (set_disp s d) = gap s.
Proof. reflexivity. Qed.
Lemma gap_set_depth s d : gap (set_depth s d) = gap s.
Proof. reflexivity. Qed.
Lemma gap_out_of_fuel s : gap (out_of_fuel s) = gap s.
Proof. reflexivity. Qed.

Lemma lookup_set_obj s i o : lookup i (l_objs (set_obj s i o)) = Some o.
Proof.
  unfold set_obj; cbn. induction (l_objs s) as [|[k x] r IH]; cbn; [rewrite Z.eqb_refl; reflexivity|].
  destruct (i =? k) eqn:E; cbn; [rewrite Z.eqb_refl; reflexivity|]. rewrite E. exact IH.
Qed.

(* generic: storing an object with the same interest bits does not change the gap *)
Lemma gap_same_bits s i o o' :
  lookup i (l_objs s) = Some o -> wobj o' = wobj o -> gap (set_obj s i o') = gap s.
Proof. intros H E. rewrite gap_set_obj, H. lia. Qed.

Lemma sys_read_bits o want : wobj (fst (sys_read o want)) = wobj o /\ o_evR (fst (sys_read o want)) = o_evR o /\ o_evW (fst (sys_read o want)) = o_evW o.
Proof.
  unfold sys_read.
  destruct (o_closed o || _); [cbn; auto|].
  destruct (match o_kind o with KDead => true | _ => false end); [cbn; auto|].
  destruct (match o_kind o with KLsn => true | _ => false end); [destruct (0 <? e_rq o); cbn; auto|].
  destruct (0 <? e_rq o); [cbn; auto|].
  destruct (e_rst o); [cbn; auto|].
  destruct (o_kind o); cbn; auto; destruct (e_reof o); cbn; auto.
Qed.

Lemma sys_write_fields o want :
  let o1 := fst (sys_write o want) in
  o_kind o1 = o_kind o /\ o_closed o1 = o_closed o /\ o_evR o1 = o_evR o /\ o_evW o1 = o_evW o /\
  o_rd o1 = o_rd o /\ o_wr o1 = o_wr o /\ o_reg o1 = o_reg o.
Proof.
  unfold sys_write. destruct (o_closed o || _); [cbn; auto 10|]. destruct (e_rst o); [cbn; auto 10|].
  destruct (e_wdead o); [cbn; auto 10|]. destruct (e_wroom o <? 0); [cbn; auto 10|]. destruct (e_wroom o =? 0); cbn; auto 10.
Qed.

Lemma sys_write_bits o want : wobj (fst (sys_write o want)) = wobj o /\ o_evR (fst (sys_write o want)) = o_evR o /\ o_evW (fst (sys_write o want)) = o_evW o.
Proof.
  destruct (sys_write_fields o want) as (_ & _ & A & B & _). unfold wobj. rewrite A, B. auto.
Qed.

(* schedule: sets one interest bit and increments pending, or changes nothing *)
Lemma schedule_gap s i o0 o w p wrapped :
  lookup i (l_objs s) = Some o0 -> o_evR o = o_evR o0 -> o_evW o = o_evW o0 ->
  gap (fst (schedule s i o w p wrapped)) = gap s.
Proof.
  intros Hl HR HW. unfold schedule.
  destruct (o_closed o); cbn [fst].
  { rewrite gap_set_obj, Hl. unfold wobj. rewrite HR, HW. lia. }
  rewrite HR, HW.
  destruct w.
  - destruct (o_evW o0) eqn:EW; cbn [fst].
    + rewrite gap_set_obj, Hl. unfold wobj, with_wr; cbn. rewrite HR, EW. lia.
    + destruct (ctl_ok o); cbn [fst].
      * rewrite gap_set_pending, interest_set_obj, Hl. unfold gap, wobj, with_wr; cbn.
        rewrite HR, EW. lia.
      * rewrite gap_set_obj, Hl. unfold wobj, with_wr; cbn. rewrite ?HR, ?HW, ?EW. lia.
  - destruct (o_evR o0) eqn:ER; cbn [fst].
    + rewrite gap_set_obj, Hl. unfold wobj, with_rd; cbn. rewrite HW, ER. lia.
    + destruct (ctl_ok o); cbn [fst].
      * rewrite gap_set_pending, interest_set_obj, Hl. unfold gap, wobj, with_rd; cbn.
        rewrite HW, ER. lia.
      * rewrite gap_set_obj, Hl. unfold wobj, with_rd; cbn. rewrite ?HR, ?HW, ?ER. lia.
Qed.

Lemma io_now_gap fuel : forall s i w p wrapped, gap (fst (io_now fuel s i w p wrapped)) = gap s.
Proof.
  induction fuel as [|f IH]; intros s i w p wrapped; cbn [io_now]; [reflexivity|].
  destruct (lookup i (l_objs s)) as [o|] eqn:Hl; [|reflexivity].
  assert (Hb : forall o1, wobj o1 = wobj o -> gap (set_obj s i o1) = gap s) by (intros; eapply gap_same_bits; eauto).
  destruct w.
  - pose proof (sys_write_bits o (op_len p - op_sofar p)) as (Hw & HR & HW).
    destruct (sys_write o (op_len p - op_sofar p)) as [o1 r]. cbn in Hw, HR, HW.
    destruct r.
    + destruct (op_all p && negb (op_sofar p + n =? op_len p) && negb (is_pkt o)); [rewrite IH; apply Hb; exact Hw|cbn; apply Hb; exact Hw].
    + cbn; apply Hb; exact Hw.
    + eapply schedule_gap; eauto.
    + cbn; apply Hb; exact Hw.
  - pose proof (sys_read_bits o (op_len p - op_sofar p)) as (Hw & HR & HW).
    destruct (sys_read o (op_len p - op_sofar p)) as [o1 r]. cbn in Hw, HR, HW.
    destruct r.
    + destruct (op_all p && negb (op_sofar p + n =? op_len p) && negb (is_pkt o)); [rewrite IH; apply Hb; exact Hw|cbn; apply Hb; exact Hw].
    + cbn; apply Hb; exact Hw.
    + eapply schedule_gap; eauto.
    + cbn; apply Hb; exact Hw.
Qed.

(* DelRead / DelWrite: clears the bit and decrements pending, or nothing; the object returned still has to be stored *)
Lemma del_interest_spec s i o w s1 o1 :
  del_interest s i o w = (s1, o1) ->
  l_objs s1 = l_objs s /\ l_tmrs s1 = l_tmrs s /\ l_posts s1 = l_posts s /\
  l_pending s1 - wobj o1 = l_pending s - wobj o /\
  (if w then o_evW o1 = false /\ o_evR o1 = o_evR o else o_evR o1 = false /\ o_evW o1 = o_evW o).
Proof.
  unfold del_interest. destruct w.
  - destruct (o_evW o) eqn:E; intros H; inversion H; subst; cbn; unfold wobj; cbn; rewrite ?E; repeat split; try lia; auto.
  - destruct (o_evR o) eqn:E; intros H; inversion H; subst; cbn; unfold wobj; cbn; rewrite ?E; repeat split; try lia; auto.
Qed.

(* state with the same tables but a different pending counter *)
Lemma gap_tables s s' : l_objs s' = l_objs s -> l_tmrs s' = l_tmrs s -> l_posts s' = l_posts s ->
  gap s' = gap s + (l_pending s' - l_pending s).
Proof. intros A B C. unfold gap, interest. rewrite A, B, C. lia. Qed.

Lemma on_event_gap s i o0 o w err :
  lookup i (l_objs s) = Some o0 ->
  gap (fst (on_event s i o w err)) = gap s + wobj o0 - wobj o.
Proof.
  intros Hl. unfold on_event.
  cbv zeta.
  set (rg := if o_evR o || o_evW o then o_reg o else false).
  set (o1 := if w then with_wr o (o_wr o) (o_evW o) rg else with_rd o (o_rd o) (o_evR o) rg).
  assert (Ho1 : wobj o1 = wobj o) by (unfold o1; destruct w; reflexivity).
  assert (Hg : gap (set_obj s i o1) = gap s + wobj o0 - wobj o) by (rewrite gap_set_obj, Hl; lia).
  destruct (if w then o_wr o else o_rd o) as [p|]; [|exact Hg].
  destruct (negb (err =? xNil)); [exact Hg|].
  destruct (o_kind o) eqn:Ek; try (rewrite io_now_gap; exact Hg).
  (* listener: one accept *)
  pose proof (sys_read_bits o1 0) as (Hb & _ & _).
  destruct (sys_read o1 0) as [o2 r]. cbn [fst] in *. rewrite gap_set_obj, Hl. lia.
Qed.

Lemma write_event_gap s i err : gap (fst (write_event s i err)) = gap s.
Proof.
  unfold write_event. destruct (lookup i (l_objs s)) as [o|] eqn:Hl; [|reflexivity].
  destruct (o_evW o) eqn:E; [|reflexivity].
  destruct (del_interest s i o true) as [s1 o1] eqn:Ed.
  destruct (del_interest_spec _ _ _ _ _ _ Ed) as (A & B & C & D & _).
  rewrite (on_event_gap s1 i o o1 true _) by (rewrite A; exact Hl).
  rewrite (gap_tables s s1 A B C). lia.
Qed.

Lemma timer_unset_spec s i t s1 t1 :
  timer_unset s i t = (s1, t1) ->
  l_objs s1 = l_objs s /\ l_tmrs s1 = l_tmrs s /\ l_posts s1 = l_posts s /\
  l_pending s1 - wtm t1 = l_pending s - wtm t /\ t_evR t1 = false /\ t_state t1 = t_state t.
Proof.
  unfold timer_unset. destruct (t_evR t) eqn:E; intros H; inversion H; subst; cbn; unfold wtm; cbn; rewrite ?E; repeat split; try lia; auto.
Qed.

Lemma sched_once_gap s i t0 t ms cb rep :
  lookup i (l_tmrs s) = Some t0 -> t_evR t = t_evR t0 ->
  gap (fst (sched_once s i t ms cb rep)) = gap s.
Proof.
  intros Hl He. unfold sched_once.
  destruct (t_state t =? 0); [|reflexivity].
  destruct (ms <=? 0); cbn [fst].
  - rewrite gap_set_tmr, Hl. unfold wtm; cbn. rewrite He. lia.
  - match goal with |- context [timer_unset s i ?tt] => destruct (timer_unset s i tt) as [s1 t1] eqn:Eu end.
    destruct (timer_unset_spec _ _ _ _ _ Eu) as (A & B & C & D & E & _). cbn [fst].
    rewrite gap_set_pending, interest_set_tmr, B, Hl. unfold gap, interest in *. rewrite A, B, C.
    unfold wtm in *; cbn in *. rewrite He in D. rewrite E in D. destruct (t_evR t0); lia.
Qed.

Lemma do_action_gap s a : gap (fst (do_action s a)) = gap s.
Proof.
  destruct a; cbn [do_action].
  - (* AStart *)
    destruct (lookup o (l_objs s)) as [ob|] eqn:Hl; [|reflexivity].
    set (p := mkop cb all len 0 false).
    set (o0 := if write then with_wr ob (Some p) (o_evW ob) (o_reg ob) else with_rd ob (Some p) (o_evR ob) (o_reg ob)).
    assert (Hw0 : wobj o0 = wobj ob) by (unfold o0; destruct write; reflexivity).
    set (s0 := note_overlap (add_log s (LStart cb o write all len)) (if write then o_evW ob else o_evR ob)).
    assert (Hg0 : gap s0 = gap s) by reflexivity.
    assert (Hl0 : lookup o (l_objs s0) = Some ob) by exact Hl.
    clearbody s0.
    destruct (l_disp s0 <? sonic_MaxCallbackDispatch).
    + rewrite io_now_gap. rewrite gap_set_obj. rewrite Hl0. lia.
    + rewrite (schedule_gap _ o ob) by (cbn; auto; unfold o0; destruct write; reflexivity). exact Hg0.
  - (* ACancel *)
    destruct (lookup o (l_objs s)) as [ob|] eqn:Hl; [|reflexivity]. cbn [fst].
    destruct (o_evR ob) eqn:E; [|cbn; apply gap_add_log].
    destruct (del_interest (add_log s (LCancel o false)) o ob false) as [s1 o1] eqn:Ed.
    destruct (del_interest_spec _ _ _ _ _ _ Ed) as (A & B & C & D & _).
    cbn [fst]. rewrite (on_event_gap s1 o ob o1 false _) by (rewrite A; exact Hl).
    rewrite (gap_tables (add_log s (LCancel o false)) s1 A B C). rewrite gap_add_log. lia.
  - (* AClose *)
    destruct (lookup o (l_objs s)) as [ob|] eqn:Hl; [|reflexivity].
    destruct (o_closed ob); [apply gap_add_log|].
    destruct (del_interest s o ob false) as [s1 o1] eqn:E1.
    destruct (del_interest s1 o o1 true) as [s2 o2] eqn:E2. cbn [fst].
    destruct (del_interest_spec _ _ _ _ _ _ E1) as (A1 & B1 & C1 & D1 & F1 & G1).
    destruct (del_interest_spec _ _ _ _ _ _ E2) as (A2 & B2 & C2 & D2 & F2 & G2).
    rewrite gap_add_log, gap_set_obj. rewrite A2, A1, Hl.
    rewrite (gap_tables s1 s2 A2 B2 C2), (gap_tables s s1 A1 B1 C1).
    unfold wobj at 2; cbn. unfold wobj in *. rewrite F1, G2 in *. rewrite F2 in *. lia.
  - (* ASched *)
    destruct (lookup t (l_tmrs s)) as [tm|] eqn:Hl; [|reflexivity].
    destruct (rep && (ms <=? 0)); [apply gap_add_log|].
    destruct (t_state tm =? 0); [|apply gap_add_log].
    destruct (sched_once s t tm ms cb (if rep then ms else 0)) as [s1 items] eqn:E. cbn [fst].
    pose proof (sched_once_gap s t tm tm ms cb (if rep then ms else 0) Hl eq_refl) as H. rewrite E in H. exact H.
  - (* ATCancel *)
    destruct (lookup t (l_tmrs s)) as [tm|] eqn:Hl; [|reflexivity].
    destruct (timer_unset s t tm) as [s1 t1] eqn:Eu. cbn [fst].
    destruct (timer_unset_spec _ _ _ _ _ Eu) as (A & B & C & D & E & _).
    rewrite gap_add_log, gap_set_tmr, B, Hl. rewrite (gap_tables s s1 A B C). unfold wtm in *; cbn. lia.
  - (* ATClose *)
    destruct (lookup t (l_tmrs s)) as [tm|] eqn:Hl; [|reflexivity].
    destruct (t_state tm =? 2); [apply gap_add_log|].
    destruct (timer_unset s t tm) as [s1 t1] eqn:Eu. cbn [fst].
    destruct (timer_unset_spec _ _ _ _ _ Eu) as (A & B & C & D & E & _).
    rewrite gap_add_log, gap_set_tmr, B, Hl. rewrite (gap_tables s s1 A B C). unfold wtm in *; cbn. rewrite E in D. lia.
  - (* APost *)
    cbn [fst]. rewrite gap_add_log. unfold gap, interest; cbn. rewrite zlen_app. unfold zlen at 2; cbn. lia.
Qed.

Lemma poll_entry_gap s e : gap (fst (poll_entry s e)) = gap s.
Proof.
  destruct e as [[kind i] mask]. unfold poll_entry.
  destruct (kind =? 2); cbn [fst].
  { unfold gap, interest; cbn. unfold zlen; cbn. lia. }
  destruct (kind =? 1).
  { destruct (lookup i (l_tmrs s)) as [t|] eqn:Hl; [|reflexivity].
    destruct ((has mask mIN || has mask mHUP || has mask mERR) && t_evR t) eqn:E; [|reflexivity].
    destruct (match t_due t with Some due => due <=? l_now s | None => false end); [|reflexivity].
    cbn [fst]. rewrite gap_set_pending, interest_set_tmr, Hl. unfold gap, wtm; cbn.
    assert (t_evR t = true) by (destruct (t_evR t); [reflexivity|rewrite andb_false_r in E; discriminate]).
    rewrite H. lia. }
  destruct (lookup i (l_objs s)) as [o|] eqn:Hl; [|reflexivity]. cbn [fst].
  destruct ((has mask mIN || (has mask mHUP || has mask mERR)) && o_evR o); [|reflexivity].
  destruct (del_interest s i o false) as [s1 o1] eqn:Ed.
  destruct (del_interest_spec _ _ _ _ _ _ Ed) as (A & B & C & D & _).
  cbn [fst]. rewrite (on_event_gap s1 i o o1 false xNil) by (rewrite A; exact Hl).
  rewrite (gap_tables s s1 A B C). lia.
Qed.

(* The work-list machine never changes pending - (registered interests + queued posts): whatever the handlers do. *)
Theorem exec_gap fuel : forall s stack, gap (exec fuel s stack) = gap s.
Proof.
  induction fuel as [|f IH]; intros s stack; cbn [exec].
  - destruct stack; reflexivity.
  - destruct stack as [|it rest]; [reflexivity|].
    destruct it.
    + pose proof (do_action_gap s a) as H. destruct (do_action s a) as [s1 items]. rewrite IH. exact H.
    + rewrite IH. destruct wrapped; reflexivity.
    + rewrite IH. destruct wrapped; reflexivity.
    + destruct (lookup t (l_tmrs s)) as [tm|] eqn:Hl; [|apply IH]. rewrite IH.
      rewrite gap_set_tmr, Hl. unfold wtm; cbn. lia.
    + destruct (lookup t (l_tmrs s)) as [tm|] eqn:Hl; [|apply IH].
      destruct (t_cancelled tm).
      * rewrite IH. rewrite gap_set_tmr, Hl. unfold wtm; cbn. lia.
      * pose proof (sched_once_gap s t tm tm (t_rep tm) (t_cb tm) (t_rep tm) Hl eq_refl) as H.
        destruct (sched_once s t tm (t_rep tm) (t_cb tm) (t_rep tm)) as [s1 items]. rewrite IH. exact H.
    + pose proof (write_event_gap s i xCancelled) as H. destruct (write_event s i xCancelled) as [s1 items]. rewrite IH. exact H.
    + rewrite IH. apply gap_add_log.
    + rewrite IH. apply gap_add_log.
    + pose proof (write_event_gap s i xNil) as H. destruct (write_event s i xNil) as [s1 items]. rewrite IH. exact H.
    + pose proof (poll_entry_gap s e) as H. destruct (poll_entry s e) as [s1 items]. rewrite IH. exact H.
Qed.

(* every script line preserves it (objects and timers are created under fresh identifiers) *)
Definition fresh_op (s : loop) (o : lop) : Prop :=
  match o with
  | LObj i _ => lookup i (l_objs s) = None
  | LTimer i => lookup i (l_tmrs s) = None
  | _ => True
  end.

Theorem lstep_gap s o : fresh_op s o -> gap (lstep s o) = gap s.
Proof.
  intros Hf. unfold lstep.
  set (s1 := mkloop (l_pending s) (l_disp s) (l_posts s) (l_objs s) (l_tmrs s) (l_progs s) (l_now s) (l_depth s) (l_log s) (l_fuel_out s) 300 (l_overlap s)).
  assert (H1 : gap s1 = gap s) by reflexivity.
  destruct o; cbn [fresh_op] in Hf.
  - rewrite gap_set_obj. cbn [l_objs s1]. change (l_objs s1) with (l_objs s). rewrite Hf. unfold new_obj, wobj; cbn. lia.
  - rewrite gap_set_tmr. change (l_tmrs s1) with (l_tmrs s). rewrite Hf. unfold new_tmr, wtm; cbn. lia.
  - reflexivity.
  - rewrite gap_set_disp. exact H1.
  - change (l_objs s1) with (l_objs s). destruct (lookup i (l_objs s)) as [ob|] eqn:Hl; [|exact H1].
    rewrite gap_set_obj. change (l_objs s1) with (l_objs s). rewrite Hl.
    destruct p; [| destruct (o_kind ob) | | | |]; unfold wobj; cbn; lia.
  - reflexivity.
  - rewrite exec_gap. exact H1.
  - rewrite exec_gap. exact H1.
Qed.

Fixpoint lrun (s : loop) (ops : list lop) : loop :=
  match ops with [] => s | o :: r => lrun (lstep s o) r end.

Fixpoint fresh_ops (s : loop) (ops : list lop) : Prop :=
  match ops with [] => True | o :: r => fresh_op s o /\ fresh_ops (lstep s o) r end.

(* Pending() = registered read/write interests + armed timers' interests + queued posts, after every script line of
   every script, whatever the handler programs, poll batches and peer behaviours. *)
Theorem accounting_invariant ops : forall s, acct s -> fresh_ops s ops -> acct (lrun s ops).
Proof.
  induction ops as [|o r IH]; intros s Ha Hf; [exact Ha|]. destruct Hf as [Hf1 Hf2]. cbn [lrun].
  apply IH; [|exact Hf2]. unfold acct in *. pose proof (lstep_gap s o Hf1) as H. unfold gap in H. lia.
Qed.

Lemma acct_init : acct loop_init.
Proof. reflexivity. Qed.

(* ================================================================ C01: dispatch of batch entries *)

(* an entry for an object without registered interest (cancelled, closed, or completed earlier in the same batch)
   dispatches nothing and changes nothing *)
Lemma stale_entry_safe s i o mask :
  lookup i (l_objs s) = Some o -> o_evR o = false -> o_evW o = false ->
  fst (poll_entry s (0, i, mask)) = s /\
  (forall it, In it (snd (poll_entry s (0, i, mask))) -> it = IPollWrite i) /\
  write_event s i xNil = (s, []).
Proof.
  intros Hl HR HW. unfold poll_entry, write_event. cbn [Z.eqb]. rewrite Hl, HR, HW.
  rewrite andb_false_r. cbn [fst snd app].
  split; [reflexivity|]. split; [|reflexivity].
  intros it Hin. destruct (has mask mOUT || (has mask mHUP || has mask mERR)); cbn in Hin; [destruct Hin as [<-|[]]; reflexivity|contradiction].
Qed.

(* Close: no interest left, closed; by the lemma above nothing of this object is ever dispatched again *)
Lemma close_clears_interest s i o :
  lookup i (l_objs s) = Some o -> o_closed o = false ->
  exists o', lookup i (l_objs (fst (do_action s (AClose i)))) = Some o' /\
             o_closed o' = true /\ o_evR o' = false /\ o_evW o' = false /\ snd (do_action s (AClose i)) = [].
Proof.
  intros Hl Hc. cbn [do_action]. rewrite Hl, Hc.
  destruct (del_interest s i o false) as [s1 o1]. destruct (del_interest s1 i o1 true) as [s2 o2]. cbn [fst snd].
  eexists. split; [cbn [add_log l_objs]; apply lookup_set_obj|]. cbn. auto.
Qed.

(* outcome of asyncReadNow/asyncWriteNow: exactly one completion, or the interest is registered again *)
Definition armed (s : loop) (i : Z) (w : bool) : Prop :=
  exists o, lookup i (l_objs s) = Some o /\ (if w then o_evW o else o_evR o) = true.

Lemma schedule_outcome s i o w p wrapped :
  (exists e n, snd (schedule s i o w p wrapped) = [IInvoke (op_cb p) e n wrapped]) \/
  (snd (schedule s i o w p wrapped) = [] /\ armed (fst (schedule s i o w p wrapped)) i w).
Proof.
  unfold schedule. destruct (o_closed o); [left; eexists; eexists; reflexivity|].
  destruct (if w then o_evW o else o_evR o) eqn:E.
  - right. cbn [fst snd]. split; [reflexivity|]. eexists. split; [apply lookup_set_obj|]. destruct w; reflexivity.
  - destruct (ctl_ok o).
    + right. cbn [fst snd]. split; [reflexivity|]. eexists. split; [unfold set_pending; cbn [l_objs]; apply lookup_set_obj|].
      destruct w; reflexivity.
    + left. eexists; eexists; reflexivity.
Qed.

Lemma io_now_outcome fuel : forall s i w p wrapped,
  (exists e n, snd (io_now fuel s i w p wrapped) = [IInvoke (op_cb p) e n wrapped]) \/
  (snd (io_now fuel s i w p wrapped) = [] /\
   (armed (fst (io_now fuel s i w p wrapped)) i w \/ l_fuel_out (fst (io_now fuel s i w p wrapped)) = true \/
    lookup i (l_objs s) = None)).
Proof.
  induction fuel as [|f IH]; intros s i w p wrapped; cbn [io_now].
  - right. split; [reflexivity|]. right. left. reflexivity.
  - destruct (lookup i (l_objs s)) as [o|] eqn:Hl; [|right; split; [reflexivity|right; right; reflexivity]].
    destruct (if w then sys_write o (op_len p - op_sofar p) else sys_read o (op_len p - op_sofar p)) as [o1 r].
    destruct r.
    + destruct (op_all p && negb (op_sofar p + n =? op_len p) && negb (is_pkt o)).
      * specialize (IH (set_obj s i o1) i w (set_sofar p (op_sofar p + n)) wrapped).
        destruct IH as [(e & m & H)|(H1 & H2)]; [left; exists e, m; exact H|].
        right. split; [exact H1|]. destruct H2 as [H2|[H2|H2]]; auto.
        rewrite lookup_set_obj in H2. discriminate.
      * left. eexists; eexists; reflexivity.
    + left. eexists; eexists; reflexivity.
    + destruct (schedule_outcome s i o1 w p wrapped) as [H|[H1 H2]]; [left; exact H|right; split; [exact H1|left; exact H2]].
    + left. eexists; eexists; reflexivity.
Qed.

Lemma on_event_read_outcome s i o p :
  o_rd o = Some p ->
  (exists e n wr, snd (on_event s i o false xNil) = [IInvoke (op_cb p) e n wr]) \/
  (snd (on_event s i o false xNil) = [] /\
   (armed (fst (on_event s i o false xNil)) i false \/ l_fuel_out (fst (on_event s i o false xNil)) = true)).
Proof.
  intros Hrd. unfold on_event. rewrite Hrd. change (negb (xNil =? xNil)) with false. cbv iota zeta.
  assert (Hlsn : forall o1 : obj, exists e n,
            snd (let '(o2, r) := sys_read o1 0 in
                 (set_obj s i o2, [IInvoke (op_cb p) (match r with SGot _ => xNil | SEof => xEOF | SWouldBlock => xWouldBlock | SFail e => e end)
                                     (match r with SGot n => n | _ => 0 end) false])) = [IInvoke (op_cb p) e n false]).
  { intros o1. destruct (sys_read o1 0) as [o2 r]. eexists; eexists; reflexivity. }
  destruct (o_kind o); try (left; match goal with |- context [sys_read ?o1 0] => destruct (Hlsn o1) as (e & n & H) end; exists e, n, false; exact H).
  all: clear Hlsn.
  all: match goal with |- context [io_now 64 ?st ?ii false ?pp ?ww] =>
    pose proof (io_now_outcome 64 st ii false pp ww) as Hout;
    assert (Hlk : lookup ii (l_objs st) <> None) by (rewrite lookup_set_obj; discriminate);
    generalize dependent (io_now 64 st ii false pp ww) end.
  all: intros r Hout; destruct Hout as [(e & n & H)|(H1 & H2)];
    [left; exists e, n; eexists; exact H
    |right; split; [exact H1|]; destruct H2 as [H2|[H2|H2]]; [left; exact H2|right; exact H2|contradiction]].
Qed.

(* Progress: an in-flight read on an open object whose descriptor the batch reports with IN, HUP or ERR is dispatched
   by that poll: it completes (exactly one callback item) or is re-armed with its interest registered. *)
Theorem ready_read_is_dispatched s i o p mask :
  lookup i (l_objs s) = Some o -> o_evR o = true -> o_rd o = Some p ->
  has mask mIN || has mask mHUP || has mask mERR = true ->
  exists items, snd (poll_entry s (0, i, mask)) = items ++ (if has mask mOUT || (has mask mHUP || has mask mERR) then [IPollWrite i] else []) /\
    ((exists e n wr, items = [IInvoke (op_cb p) e n wr]) \/
     (items = [] /\ (armed (fst (poll_entry s (0, i, mask))) i false \/ l_fuel_out (fst (poll_entry s (0, i, mask))) = true))).
Proof.
  intros Hl HR Hrd Hm. unfold poll_entry. cbn [Z.eqb]. rewrite Hl, HR.
  replace (has mask mIN || (has mask mHUP || has mask mERR)) with true by (rewrite <- Hm, orb_assoc; reflexivity).
  cbn [andb].
  destruct (del_interest s i o false) as [s1 o1] eqn:Ed.
  assert (Hrd1 : o_rd o1 = Some p).
  { unfold del_interest in Ed. rewrite HR in Ed. inversion Ed; subst. cbn. auto. }
  pose proof (on_event_read_outcome s1 i o1 p Hrd1) as Hout.
  generalize dependent (on_event s1 i o1 false xNil). intros r Hout.
  cbn [fst snd]. exists (snd r). split; [reflexivity|]. exact Hout.
Qed.

(* Cancel completes an in-flight read exactly once, with the cancellation error *)
Theorem cancel_completes_read s i o p :
  lookup i (l_objs s) = Some o -> o_evR o = true -> o_rd o = Some p -> ctl_ok o = true ->
  snd (do_action s (ACancel i)) = [IInvoke (op_cb p) xCancelled (op_sofar p) (is_pkt o && op_wrapped p); ICancelWrites i] /\
  exists o', lookup i (l_objs (fst (do_action s (ACancel i)))) = Some o' /\ o_evR o' = false.
Proof.
  intros Hl HR Hrd Hk. cbn [do_action]. rewrite Hl, HR, Hk.
  unfold del_interest. rewrite HR. cbn [fst snd].
  unfold on_event. cbn [with_rd o_rd o_evR]. rewrite Hrd. change (negb (xCancelled =? xNil)) with true. cbv iota. cbn [fst snd app].
  split; [reflexivity|]. eexists. split; [apply lookup_set_obj|]. reflexivity.
Qed.

(* ================================================================ C04: timers *)

(* a timer entry of the batch fires only when the delay has elapsed since the scheduling call (never early), whatever
   happened to the timer earlier in the same batch *)
Theorem timer_never_early s i mask t :
  lookup i (l_tmrs s) = Some t -> In (ITimerFired i) (snd (poll_entry s (1, i, mask))) ->
  exists due, t_due t = Some due /\ due <= l_now s /\ t_evR t = true.
Proof.
  intros Hl Hin. unfold poll_entry in Hin. cbn [Z.eqb] in Hin. rewrite Hl in Hin.
  destruct ((has mask mIN || has mask mHUP || has mask mERR) && t_evR t) eqn:E; [|contradiction].
  destruct (t_due t) as [due|]; [|contradiction].
  destruct (due <=? l_now s) eqn:Ed; [|contradiction].
  exists due. repeat split; auto; [lia|]. destruct (t_evR t); [reflexivity|rewrite andb_false_r in E; discriminate].
Qed.

(* scheduling arms the timer for now + delay *)
Theorem sched_sets_due s i t ms cb rep :
  t_state t = 0 -> 0 < ms ->
  exists t', lookup i (l_tmrs (fst (sched_once s i t ms cb rep))) = Some t' /\
             t_due t' = Some (l_now s + ms) /\ t_state t' = 1 /\ t_cb t' = cb /\ t_evR t' = true /\ t_member t' = true.
Proof.
  intros Hs Hms. unfold sched_once. rewrite Hs. cbn [Z.eqb]. replace (ms <=? 0) with false by lia.
  match goal with |- context [timer_unset s i ?tt] => destruct (timer_unset s i tt) as [s1 t1] eqn:Eu end.
  cbn [fst]. eexists. split.
  - unfold set_pending, set_tmr; cbn [l_tmrs].
    induction (l_tmrs s1) as [|[k x] r IH]; cbn; [rewrite Z.eqb_refl; reflexivity|].
    destruct (i =? k) eqn:E; cbn; [rewrite Z.eqb_refl; reflexivity|rewrite E; exact IH].
  - cbn. assert (l_now s1 = l_now s) by (unfold timer_unset in Eu; destruct (t_evR _); inversion Eu; reflexivity).
    rewrite H. auto.
Qed.

(* a timer holds at most one schedule: scheduling while scheduled (or closed) fails and disturbs nothing *)
Theorem sched_while_scheduled_fails s i t rep ms cb :
  lookup i (l_tmrs s) = Some t -> t_state t <> 0 -> negb (rep && (ms <=? 0)) = true ->
  do_action s (ASched i rep ms cb) = (add_log s (LSched i rep ms cb xCancelled), []).
Proof.
  intros Hl Hs Hr. cbn [do_action]. rewrite Hl. destruct (rep && (ms <=? 0)); [discriminate|].
  replace (t_state t =? 0) with false by lia. reflexivity.
Qed.

(* a closed timer cannot be revived: Cancel keeps it closed *)
Theorem closed_timer_stays_closed s i t :
  lookup i (l_tmrs s) = Some t -> t_state t = 2 ->
  exists t', lookup i (l_tmrs (fst (do_action s (ATCancel i)))) = Some t' /\ t_state t' = 2.
Proof.
  intros Hl Hs. cbn [do_action]. rewrite Hl.
  destruct (timer_unset s i t) as [s1 t1] eqn:Eu. cbn [fst].
  destruct (timer_unset_spec _ _ _ _ _ Eu) as (_ & _ & _ & _ & _ & Hst).
  eexists. split.
  - cbn [add_log l_tmrs set_tmr].
    induction (l_tmrs s1) as [|[k x] r IH]; cbn; [rewrite Z.eqb_refl; reflexivity|].
    destruct (i =? k) eqn:E; cbn; [rewrite Z.eqb_refl; reflexivity|rewrite E; exact IH].
  - cbn. rewrite Hst, Hs. reflexivity.
Qed.

Lemma lookup_update_same {A} i (v : A) l : lookup i (update i v l) = Some v.
Proof.
  induction l as [|[k x] r IH]; cbn; [rewrite Z.eqb_refl; reflexivity|].
  destruct (i =? k) eqn:E; cbn; [rewrite Z.eqb_refl; reflexivity|rewrite E; exact IH].
Qed.

(* a batch entry for a timer without read interest (fired earlier in the batch, cancelled, closed) does nothing: together
   with the next two lemmas, "at most once" and "never after a successful Cancel or Close" *)
Theorem timer_entry_needs_interest s i mask t :
  lookup i (l_tmrs s) = Some t -> t_evR t = false -> poll_entry s (1, i, mask) = (s, []).
Proof.
  intros Hl He. unfold poll_entry. cbn [Z.eqb]. rewrite Hl, He, andb_false_r. reflexivity.
Qed.

Theorem fired_timer_is_disarmed s i mask t :
  lookup i (l_tmrs s) = Some t -> In (ITimerFired i) (snd (poll_entry s (1, i, mask))) ->
  exists t', lookup i (l_tmrs (fst (poll_entry s (1, i, mask)))) = Some t' /\ t_evR t' = false /\ t_due t' = None /\
             l_pending (fst (poll_entry s (1, i, mask))) = l_pending s - 1.
Proof.
  intros Hl Hin. unfold poll_entry in *. cbn [Z.eqb] in *. rewrite Hl in *.
  destruct ((has mask mIN || has mask mHUP || has mask mERR) && t_evR t); [|contradiction].
  destruct (match t_due t with Some due => due <=? l_now s | None => false end); [|contradiction].
  cbn [fst]. eexists. split; [unfold set_pending, set_tmr; cbn [l_tmrs]; apply lookup_update_same|]. cbn. auto.
Qed.

Theorem tcancel_clears_interest s i t :
  lookup i (l_tmrs s) = Some t ->
  exists t', lookup i (l_tmrs (fst (do_action s (ATCancel i)))) = Some t' /\ t_evR t' = false /\ t_cancelled t' = true.
Proof.
  intros Hl. cbn [do_action]. rewrite Hl.
  destruct (timer_unset s i t) as [s1 t1] eqn:Eu. cbn [fst].
  destruct (timer_unset_spec _ _ _ _ _ Eu) as (_ & _ & _ & _ & He & _).
  eexists. split; [cbn [add_log l_tmrs set_tmr]; apply lookup_update_same|]. cbn. auto.
Qed.

Theorem tclose_clears_interest s i t :
  lookup i (l_tmrs s) = Some t -> t_state t <> 2 ->
  exists t', lookup i (l_tmrs (fst (do_action s (ATClose i)))) = Some t' /\ t_evR t' = false /\ t_state t' = 2 /\ t_member t' = false.
Proof.
  intros Hl Hs. cbn [do_action]. rewrite Hl. replace (t_state t =? 2) with false by lia.
  destruct (timer_unset s i t) as [s1 t1] eqn:Eu. cbn [fst].
  eexists. split; [cbn [add_log l_tmrs set_tmr]; apply lookup_update_same|]. cbn. auto.
Qed.
