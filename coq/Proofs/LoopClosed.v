(* C01 (after Close): a closed object has no interest registered with the poller, in every reachable state of the event-loop
   model; together with stale_entry_safe no batch entry can invoke a callback of it. *)
From Coq Require Import ZifyBool.
From Sonic Require Import Base.Prelude Base.ListLemmas Gen.Consts Model.Loop Proofs.LoopProofs.
Local Open Scope Z_scope.

Definition clok (o : obj) : Prop := o_closed o = true -> o_evR o = false /\ o_evW o = false.
Definition cl_inv (s : loop) : Prop := Forall (fun p => clok (snd p)) (l_objs s).

Lemma objs_lookup (P : obj -> Prop) l i o : Forall (fun p : Z * obj => P (snd p)) l -> lookup i l = Some o -> P o.
Proof.
  induction l as [|[k x] r IH]; cbn [lookup]; intros HF H; [discriminate|].
  inversion HF as [|? ? Hx Hr]; subst. destruct (i =? k); [inversion H; subst; exact Hx|auto].
Qed.

Lemma objs_update (P : obj -> Prop) l i o : Forall (fun p : Z * obj => P (snd p)) l -> P o -> Forall (fun p : Z * obj => P (snd p)) (update i o l).
Proof.
  induction l as [|[k x] r IH]; cbn [update]; intros HF H; [constructor; [exact H|constructor]|].
  inversion HF as [|? ? Hx Hr]; subst. destruct (i =? k); constructor; auto.
Qed.

Lemma cl_set_obj s i o : cl_inv s -> clok o -> cl_inv (set_obj s i o).
Proof. intros H Ho. unfold cl_inv, set_obj; cbn. apply objs_update; assumption. Qed.

(* states that differ only outside the object table *)
Lemma cl_same_objs s s' : l_objs s' = l_objs s -> cl_inv s -> cl_inv s'.
Proof. unfold cl_inv. intros ->. auto. Qed.

Lemma clok_bits o o' : o_evR o' = o_evR o -> o_evW o' = o_evW o -> o_closed o' = o_closed o -> clok o -> clok o'.
Proof. unfold clok. intros -> -> ->. auto. Qed.

Lemma sys_read_cl o n : clok o -> clok (fst (sys_read o n)).
Proof.
  intros H. unfold sys_read.
  destruct (o_closed o || _); [exact H|].
  destruct (match o_kind o with KDead => true | _ => false end); [exact H|].
  destruct (match o_kind o with KLsn => true | _ => false end); [destruct (0 <? e_rq o); [apply (clok_bits o); auto|exact H]|].
  destruct (0 <? e_rq o); [apply (clok_bits o); auto|].
  destruct (e_rst o); [apply (clok_bits o); auto|].
  destruct (o_kind o); try exact H; destruct (e_reof o); exact H.
Qed.

Lemma schedule_cl s i o w p wr : cl_inv s -> clok o -> cl_inv (fst (schedule s i o w p wr)).
Proof.
  intros Hi Ho. unfold schedule.
  destruct (o_closed o) eqn:Ec; cbn [fst]; [apply cl_set_obj; assumption|].
  assert (Hon : clok (if w then with_wr o (Some (set_wrapped p wr)) true true else with_rd o (Some (set_wrapped p wr)) true true)).
  { destruct w; unfold clok; cbn; rewrite Ec; discriminate. }
  destruct (if w then o_evW o else o_evR o); cbn [fst]; [apply cl_set_obj; assumption|].
  destruct (ctl_ok o); cbn [fst].
  - eapply cl_same_objs; [|apply (cl_set_obj s i _ Hi Hon)]. reflexivity.
  - apply cl_set_obj; [exact Hi|]. destruct w; apply (clok_bits o); auto.
Qed.

Lemma io_now_cl fuel : forall s i w p wr, cl_inv s -> cl_inv (fst (io_now fuel s i w p wr)).
Proof.
  induction fuel as [|f IH]; intros s i w p wr Hi; cbn [io_now]; [exact Hi|].
  destruct (lookup i (l_objs s)) as [o|] eqn:Hl; [|exact Hi].
  pose proof (objs_lookup clok _ _ _ Hi Hl) as Ho.
  assert (Ho1 : clok (fst (if w then sys_write o (op_len p - op_sofar p) else sys_read o (op_len p - op_sofar p)))).
  { destruct w; [destruct (sys_write_fields o (op_len p - op_sofar p)) as (A1 & A2 & A3 & A4 & A5 & A6 & A7); apply (clok_bits o); assumption|apply sys_read_cl; exact Ho]. }
  destruct (if w then sys_write o (op_len p - op_sofar p) else sys_read o (op_len p - op_sofar p)) as [o1 r].
  cbn [fst] in Ho1.
  destruct r.
  - destruct (op_all p && negb (op_sofar p + n =? op_len p) && negb (is_pkt o)); [apply IH|cbn [fst]]; apply cl_set_obj; assumption.
  - cbn [fst]. apply cl_set_obj; assumption.
  - apply schedule_cl; assumption.
  - cbn [fst]. apply cl_set_obj; assumption.
Qed.

Lemma del_interest_cl s i o w s1 o1 :
  del_interest s i o w = (s1, o1) -> cl_inv s -> clok o -> cl_inv s1 /\ clok o1.
Proof.
  unfold del_interest. intros H Hi Ho.
  destruct (if w then o_evW o else o_evR o) eqn:E; inversion H; subst; [|auto].
  split; [apply (cl_same_objs s); [reflexivity|exact Hi]|].
  unfold clok in *. destruct w; cbn in *; intros Hc; destruct (Ho Hc) as [A B]; auto.
Qed.

Lemma on_event_cl s i o w err : cl_inv s -> clok o -> cl_inv (fst (on_event s i o w err)).
Proof.
  intros Hi Ho. unfold on_event. cbv zeta.
  set (rg := if o_evR o || o_evW o then o_reg o else false).
  set (o1 := if w then with_wr o (o_wr o) (o_evW o) rg else with_rd o (o_rd o) (o_evR o) rg).
  assert (Ho1 : clok o1).
  { unfold o1; destruct w; apply (clok_bits o); auto. }
  pose proof (cl_set_obj s i o1 Hi Ho1) as H1.
  destruct (if w then o_wr o else o_rd o) as [p|]; [|exact H1].
  destruct (negb (err =? xNil)); [exact H1|].
  destruct (o_kind o); try (apply io_now_cl; exact H1).
  pose proof (sys_read_cl o1 0 Ho1) as Hr. destruct (sys_read o1 0) as [o2 r]. cbn [fst] in *. apply cl_set_obj; assumption.
Qed.

Lemma write_event_cl s i err : cl_inv s -> cl_inv (fst (write_event s i err)).
Proof.
  intros Hi. unfold write_event.
  destruct (lookup i (l_objs s)) as [o|] eqn:Hl; [|exact Hi].
  destruct (o_evW o); [|exact Hi].
  destruct (del_interest s i o true) as [s1 o1] eqn:Ed.
  destruct (del_interest_cl _ _ _ _ _ _ Ed Hi (objs_lookup clok _ _ _ Hi Hl)) as [H1 Ho1].
  apply on_event_cl; assumption.
Qed.

Lemma cl_set_tmr s i t : cl_inv s -> cl_inv (set_tmr s i t).
Proof. apply cl_same_objs. reflexivity. Qed.

Lemma timer_unset_cl s i t s1 t1 : timer_unset s i t = (s1, t1) -> cl_inv s -> cl_inv s1.
Proof. unfold timer_unset. intros H Hi. destruct (t_evR t); inversion H; subst; [apply (cl_same_objs s); [reflexivity|]|]; exact Hi. Qed.

Lemma sched_once_cl s i t ms cb rep : cl_inv s -> cl_inv (fst (sched_once s i t ms cb rep)).
Proof.
  intros Hi. unfold sched_once. destruct (t_state t =? 0); [|exact Hi].
  destruct (ms <=? 0); [apply cl_set_tmr; exact Hi|].
  match goal with |- context [timer_unset s i ?tt] => destruct (timer_unset s i tt) as [s1 t1] eqn:Eu end.
  cbn [fst]. apply (cl_same_objs s1); [reflexivity|]. eapply timer_unset_cl; eassumption.
Qed.

Lemma poll_entry_cl s e : cl_inv s -> cl_inv (fst (poll_entry s e)).
Proof.
  intros Hi. destruct e as [[kind i] mask]. unfold poll_entry.
  destruct (kind =? 2); [apply (cl_same_objs s); [reflexivity|exact Hi]|].
  destruct (kind =? 1).
  { destruct (lookup i (l_tmrs s)) as [t|]; [|exact Hi].
    destruct ((has mask mIN || has mask mHUP || has mask mERR) && t_evR t); [|exact Hi].
    destruct (match t_due t with Some due => due <=? l_now s | None => false end); [|exact Hi].
    apply (cl_same_objs s); [reflexivity|exact Hi]. }
  destruct (lookup i (l_objs s)) as [o|] eqn:Hl; [|exact Hi]. cbn [fst].
  destruct ((has mask mIN || (has mask mHUP || has mask mERR)) && o_evR o); [|exact Hi].
  destruct (del_interest s i o false) as [s1 o1] eqn:Ed.
  destruct (del_interest_cl _ _ _ _ _ _ Ed Hi (objs_lookup clok _ _ _ Hi Hl)) as [H1 Ho1].
  apply on_event_cl; assumption.
Qed.

Lemma do_action_cl s a : cl_inv s -> cl_inv (fst (do_action s a)).
Proof.
  intros Hi. destruct a; cbn [do_action].
  - destruct (lookup o (l_objs s)) as [ob|] eqn:Hl; [|exact Hi].
    pose proof (objs_lookup clok _ _ _ Hi Hl) as Ho.
    set (p := mkop cb all len 0 false).
    set (o0 := if write then with_wr ob (Some p) (o_evW ob) (o_reg ob) else with_rd ob (Some p) (o_evR ob) (o_reg ob)).
    assert (Ho0 : clok o0) by (unfold o0; destruct write; apply (clok_bits ob); auto).
    assert (H0 : cl_inv (note_overlap (add_log s (LStart cb o write all len)) (if write then o_evW ob else o_evR ob))) by (apply (cl_same_objs s); [reflexivity|exact Hi]).
    destruct (l_disp _ <? sonic_MaxCallbackDispatch).
    + apply io_now_cl. apply cl_set_obj; assumption.
    + apply schedule_cl; assumption.
  - destruct (lookup o (l_objs s)) as [ob|] eqn:Hl; [|exact Hi]. cbn [fst].
    assert (H0 : cl_inv (add_log s (LCancel o false))) by (apply (cl_same_objs s); [reflexivity|exact Hi]).
    destruct (o_evR ob); [|exact H0].
    destruct (del_interest (add_log s (LCancel o false)) o ob false) as [s1 o1] eqn:Ed.
    destruct (del_interest_cl _ _ _ _ _ _ Ed H0 (objs_lookup clok _ _ _ Hi Hl)) as [H1 Ho1].
    apply on_event_cl; assumption.
  - destruct (lookup o (l_objs s)) as [ob|] eqn:Hl; [|exact Hi].
    destruct (o_closed ob); [apply (cl_same_objs s); [reflexivity|exact Hi]|].
    destruct (del_interest s o ob false) as [s1 o1] eqn:E1.
    destruct (del_interest s1 o o1 true) as [s2 o2] eqn:E2. cbn [fst].
    destruct (del_interest_cl _ _ _ _ _ _ E1 Hi (objs_lookup clok _ _ _ Hi Hl)) as [H1 Ho1].
    destruct (del_interest_cl _ _ _ _ _ _ E2 H1 Ho1) as [H2 Ho2].
    eapply cl_same_objs; [|apply (cl_set_obj s2 o); [exact H2|]]; [reflexivity|]. unfold clok; cbn. auto.
  - destruct (lookup t (l_tmrs s)) as [tm|]; [|exact Hi].
    destruct (rep && (ms <=? 0)); [apply (cl_same_objs s); [reflexivity|exact Hi]|].
    destruct (t_state tm =? 0); [|apply (cl_same_objs s); [reflexivity|exact Hi]].
    pose proof (sched_once_cl s t tm ms cb (if rep then ms else 0) Hi) as H.
    destruct (sched_once s t tm ms cb (if rep then ms else 0)) as [s1 items]. exact H.
  - destruct (lookup t (l_tmrs s)) as [tm|]; [|exact Hi].
    destruct (timer_unset s t tm) as [s1 t1] eqn:Eu. cbn [fst].
    apply (cl_same_objs s1); [reflexivity|]. eapply timer_unset_cl; eassumption.
  - destruct (lookup t (l_tmrs s)) as [tm|]; [|exact Hi].
    destruct (t_state tm =? 2); [apply (cl_same_objs s); [reflexivity|exact Hi]|].
    destruct (timer_unset s t tm) as [s1 t1] eqn:Eu. cbn [fst].
    apply (cl_same_objs s1); [reflexivity|]. eapply timer_unset_cl; eassumption.
  - cbn [fst]. apply (cl_same_objs s); [reflexivity|exact Hi].
Qed.

Theorem exec_cl fuel : forall s stack, cl_inv s -> cl_inv (exec fuel s stack).
Proof.
  induction fuel as [|f IH]; intros s stack Hi; cbn [exec].
  - destruct stack; [exact Hi|apply (cl_same_objs s); [reflexivity|exact Hi]].
  - destruct stack as [|it rest]; [exact Hi|].
    destruct it.
    + pose proof (do_action_cl s a Hi) as H. destruct (do_action s a) as [s1 items]. apply IH. exact H.
    + apply IH. apply (cl_same_objs s); [destruct wrapped; reflexivity|exact Hi].
    + apply IH. apply (cl_same_objs s); [destruct wrapped; reflexivity|exact Hi].
    + destruct (lookup t (l_tmrs s)) as [tm|]; apply IH; [apply cl_set_tmr|]; exact Hi.
    + destruct (lookup t (l_tmrs s)) as [tm|]; [|apply IH; exact Hi].
      destruct (t_cancelled tm); [apply IH; apply cl_set_tmr; exact Hi|].
      pose proof (sched_once_cl s t tm (t_rep tm) (t_cb tm) (t_rep tm) Hi) as H.
      destruct (sched_once s t tm (t_rep tm) (t_cb tm) (t_rep tm)) as [s1 items]. apply IH. exact H.
    + pose proof (write_event_cl s i xCancelled Hi) as H. destruct (write_event s i xCancelled) as [s1 items]. apply IH. exact H.
    + apply IH. apply (cl_same_objs s); [reflexivity|exact Hi].
    + apply IH. apply (cl_same_objs s); [reflexivity|exact Hi].
    + pose proof (write_event_cl s i xNil Hi) as H. destruct (write_event s i xNil) as [s1 items]. apply IH. exact H.
    + pose proof (poll_entry_cl s e Hi) as H. destruct (poll_entry s e) as [s1 items]. apply IH. exact H.
Qed.

Theorem lstep_cl s o : cl_inv s -> cl_inv (lstep s o).
Proof.
  intros Hi. unfold lstep.
  set (s1 := mkloop (l_pending s) (l_disp s) (l_posts s) (l_objs s) (l_tmrs s) (l_progs s) (l_now s) (l_depth s) (l_log s) (l_fuel_out s) 300 (l_overlap s)).
  assert (H1 : cl_inv s1) by exact Hi.
  destruct o.
  - apply cl_set_obj; [exact H1|]. unfold clok, new_obj; cbn. discriminate.
  - apply cl_set_tmr. exact H1.
  - exact H1.
  - exact H1.
  - change (l_objs s1) with (l_objs s). destruct (lookup i (l_objs s)) as [ob|] eqn:Hl; [|exact H1].
    apply cl_set_obj; [exact H1|]. pose proof (objs_lookup clok _ _ _ Hi Hl) as Ho.
    destruct p; [| destruct (o_kind ob) | | | |]; try exact Ho; apply (clok_bits ob); auto.
  - exact H1.
  - apply exec_cl. exact H1.
  - apply exec_cl. exact H1.
Qed.

(* In every reachable state, whatever the scripts, batches and handler programs: interest registered (an operation is
   deferred to the poller) implies membership in the IO's registry. *)
Theorem closed_has_no_interest ops : forall s, cl_inv s -> cl_inv (lrun s ops).
Proof. induction ops as [|o r IH]; intros s Hi; [exact Hi|]. cbn [lrun]. apply IH. apply lstep_cl. exact Hi. Qed.

Lemma cl_init : cl_inv loop_init.
Proof. constructor. Qed.

(* After Close, over every history: whatever the kernel still reports for the descriptor, the poller invokes no callback of a
   closed object and changes nothing. *)
Theorem no_poller_callback_after_close ops s i o mask :
  cl_inv s -> lookup i (l_objs (lrun s ops)) = Some o -> o_closed o = true ->
  fst (poll_entry (lrun s ops) (0, i, mask)) = lrun s ops /\
  (forall it, In it (snd (poll_entry (lrun s ops) (0, i, mask))) -> it = IPollWrite i) /\
  write_event (lrun s ops) i xNil = (lrun s ops, []).
Proof.
  intros Hi Hl Hc. pose proof (closed_has_no_interest ops s Hi) as Hinv.
  destruct (objs_lookup clok _ _ _ Hinv Hl Hc) as [A B].
  apply (stale_entry_safe _ _ o); assumption.
Qed.
