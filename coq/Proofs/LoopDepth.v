(* C14: nesting depth of completion callbacks in the event-loop model (Model/Loop.v).
   For handler programs that only start operations (the "chains of immediately completable operations" of the property)
   on open, pollable objects, the number of callbacks on the stack never exceeds max 0 (MaxCallbackDispatch - d0) + 1,
   where d0 is the value of IO.Dispatched when the script line began, and when the work list is empty again the depth is
   0 and IO.Dispatched is back to d0.  Proof: invariant over the work-list machine; the stack is
     H ++ A ++ B,  H = [] or one counted invocation about to run (only produced while Dispatched < limit),
                   A = start actions and the IEnd markers of the callbacks on the stack (at most one uncounted),
                   B = what the poller still has to do (no IEnd: B only runs when no callback is on the stack). *)
From Coq Require Import ZifyBool.
From Sonic Require Import Base.Prelude Base.ListLemmas Gen.Consts Model.Loop Proofs.LoopProofs.
Local Open Scope Z_scope.

Definition okp (o : obj) : Prop := o_closed o = false /\ ctl_ok o = true.
Definition pollable (s : loop) : Prop := Forall (fun p => okp (snd p)) (l_objs s).
Definition is_start (a : action) : Prop := match a with AStart _ _ _ _ _ => True | _ => False end.
Definition chain_progs (s : loop) : Prop := Forall (fun p => Forall is_start (snd p)) (l_progs s).
Definition cb_le (b : Z) (e : lev) : Prop := match e with LCb _ _ _ d => d <= b | _ => True end.
Definition log_le (b : Z) (s : loop) : Prop := Forall (cb_le b) (l_log s).

Lemma okp_lookup l i o : Forall (fun p : Z * obj => okp (snd p)) l -> lookup i l = Some o -> okp o.
Proof.
  induction l as [|[k x] r IH]; cbn [lookup]; intros HF H; [discriminate|].
  inversion HF as [|? ? Hx Hr]; subst. destruct (i =? k); [inversion H; subst; exact Hx|auto].
Qed.

Lemma okp_update l i o : Forall (fun p : Z * obj => okp (snd p)) l -> okp o -> Forall (fun p : Z * obj => okp (snd p)) (update i o l).
Proof.
  induction l as [|[k x] r IH]; cbn [update]; intros HF H; [constructor; [exact H|constructor]|].
  inversion HF as [|? ? Hx Hr]; subst. destruct (i =? k); constructor; auto.
Qed.

Lemma okp_same o o' : o_closed o' = o_closed o -> o_kind o' = o_kind o -> okp o -> okp o'.
Proof. unfold okp, ctl_ok. intros -> ->. auto. Qed.

Lemma progs_lookup l cb p : Forall (fun q : Z * list action => Forall is_start (snd q)) l -> lookup cb l = Some p -> Forall is_start p.
Proof.
  induction l as [|[k x] r IH]; cbn [lookup]; intros HF H; [discriminate|].
  inversion HF as [|? ? Hx Hr]; subst. destruct (cb =? k); [inversion H; subst; exact Hx|auto].
Qed.

(* ---- frame: what every primitive of the machine leaves alone *)
Definition frame (b : Z) (s s' : loop) : Prop :=
  l_depth s' = l_depth s /\ l_disp s' = l_disp s /\ l_progs s' = l_progs s /\ l_budget s' = l_budget s /\
  pollable s' /\ (log_le b s -> log_le b s').

Lemma frame_refl b s : pollable s -> frame b s s.
Proof. intros H. unfold frame. auto 10. Qed.

Lemma frame_trans b s s1 s2 : frame b s s1 -> frame b s1 s2 -> frame b s s2.
Proof.
  intros (A1 & B1 & C1 & D1 & E1 & F1) (A2 & B2 & C2 & D2 & E2 & F2). unfold frame.
  rewrite A2, B2, C2, D2. auto 10.
Qed.

Lemma frame_same b s s' :
  l_depth s' = l_depth s -> l_disp s' = l_disp s -> l_progs s' = l_progs s -> l_budget s' = l_budget s ->
  l_log s' = l_log s -> pollable s' -> frame b s s'.
Proof. intros A B C D E F. unfold frame, log_le. rewrite E. auto 10. Qed.

Lemma frame_set_obj b s i o : pollable s -> okp o -> frame b s (set_obj s i o).
Proof. intros Hp Ho. apply frame_same; try reflexivity. unfold pollable, set_obj; cbn. apply okp_update; assumption. Qed.

Lemma frame_set_tmr b s i t : pollable s -> frame b s (set_tmr s i t).
Proof. intros Hp. apply frame_same; try reflexivity. exact Hp. Qed.

Lemma frame_set_pending b s p : pollable s -> frame b s (set_pending s p).
Proof. intros Hp. apply frame_same; try reflexivity. exact Hp. Qed.

Lemma frame_out_of_fuel b s : pollable s -> frame b s (out_of_fuel s).
Proof. intros Hp. apply frame_same; try reflexivity. exact Hp. Qed.

Lemma frame_add_log b s e : pollable s -> cb_le b e -> frame b s (add_log s e).
Proof.
  intros Hp He. unfold frame, log_le; cbn. repeat (split; [reflexivity|]). split; [exact Hp|].
  intros H. constructor; assumption.
Qed.

Lemma frame_pollable b s s' : frame b s s' -> pollable s'.
Proof. intros (_ & _ & _ & _ & H & _). exact H. Qed.

Lemma sys_read_okp o n : okp o -> okp (fst (sys_read o n)).
Proof.
  intros H. unfold sys_read.
  destruct (o_closed o || _); [exact H|].
  destruct (match o_kind o with KDead => true | _ => false end); [exact H|].
  destruct (match o_kind o with KLsn => true | _ => false end); [destruct (0 <? e_rq o); [apply (okp_same o); auto|exact H]|].
  destruct (0 <? e_rq o); [apply (okp_same o); auto|].
  destruct (e_rst o); [apply (okp_same o); auto|].
  destruct (o_kind o); try exact H; destruct (e_reof o); exact H.
Qed.

Lemma schedule_frame b s i o w p wr :
  pollable s -> okp o -> frame b s (fst (schedule s i o w p wr)) /\ snd (schedule s i o w p wr) = [].
Proof.
  intros Hp Ho. destruct Ho as [Hc Hk]. unfold schedule. rewrite Hc, Hk.
  assert (Ho1 : okp (if w then with_wr o (Some (set_wrapped p wr)) true true else with_rd o (Some (set_wrapped p wr)) true true)).
  { destruct w; apply (okp_same o); try reflexivity; split; assumption. }
  destruct (if w then o_evW o else o_evR o); cbn [fst snd].
  - split; [|reflexivity]. apply frame_set_obj; assumption.
  - split; [|reflexivity]. eapply frame_trans; [apply frame_set_obj; eassumption|].
    apply frame_set_pending. eapply frame_pollable. apply (frame_set_obj b); eassumption.
Qed.

Lemma io_now_frame b fuel : forall s i w p wr, pollable s -> frame b s (fst (io_now fuel s i w p wr)).
Proof.
  induction fuel as [|f IH]; intros s i w p wr Hp; cbn [io_now].
  - apply frame_out_of_fuel. exact Hp.
  - destruct (lookup i (l_objs s)) as [o|] eqn:Hl; [|apply frame_refl; exact Hp].
    pose proof (okp_lookup _ _ _ Hp Hl) as Ho.
    assert (Ho1 : okp (fst (if w then sys_write o (op_len p - op_sofar p) else sys_read o (op_len p - op_sofar p)))).
    { destruct w; [destruct (sys_write_fields o (op_len p - op_sofar p)) as (A1 & A2 & A3 & A4 & A5 & A6 & A7); apply (okp_same o); assumption|apply sys_read_okp; exact Ho]. }
    destruct (if w then sys_write o (op_len p - op_sofar p) else sys_read o (op_len p - op_sofar p)) as [o1 r].
    cbn [fst] in Ho1.
    destruct r.
    + destruct (op_all p && negb (op_sofar p + n =? op_len p) && negb (is_pkt o)).
      * eapply frame_trans; [apply frame_set_obj; eassumption|]. apply IH.
        eapply frame_pollable. apply (frame_set_obj b); eassumption.
      * apply frame_set_obj; assumption.
    + apply frame_set_obj; assumption.
    + apply schedule_frame; assumption.
    + apply frame_set_obj; assumption.
Qed.

Lemma del_interest_frame b s i o w s1 o1 :
  del_interest s i o w = (s1, o1) -> pollable s -> okp o -> frame b s s1 /\ okp o1.
Proof.
  unfold del_interest. intros H Hp Ho.
  destruct (if w then o_evW o else o_evR o); inversion H; subst.
  - split; [apply frame_set_pending; exact Hp|]. destruct w; apply (okp_same o); auto.
  - split; [apply frame_refl; exact Hp|exact Ho].
Qed.

Lemma on_event_frame b s i o w err :
  pollable s -> okp o ->
  frame b s (fst (on_event s i o w err)) /\
  (snd (on_event s i o w err) = [] \/ exists cb e n wr, snd (on_event s i o w err) = [IInvoke cb e n wr]).
Proof.
  intros Hp Ho. unfold on_event.
  cbv zeta.
  set (rg := if o_evR o || o_evW o then o_reg o else false).
  set (o1 := if w then with_wr o (o_wr o) (o_evW o) rg else with_rd o (o_rd o) (o_evR o) rg).
  assert (Ho1 : okp o1) by (unfold o1; destruct w; apply (okp_same o); auto).
  pose proof (frame_set_obj b s i o1 Hp Ho1) as Hf.
  destruct (if w then o_wr o else o_rd o) as [p|]; [|split; [exact Hf|left; reflexivity]].
  destruct (negb (err =? xNil)); [split; [exact Hf|right; eexists; eexists; eexists; eexists; reflexivity]|].
  assert (Hlsn : frame b s (fst (let '(o2, r) := sys_read o1 0 in
                                 (set_obj s i o2, [IInvoke (op_cb p) (match r with SGot _ => xNil | SEof => xEOF | SWouldBlock => xWouldBlock | SFail e => e end)
                                                     (match r with SGot n => n | _ => 0 end) false]))) /\
                 exists cb e n, snd (let '(o2, r) := sys_read o1 0 in
                                 (set_obj s i o2, [IInvoke (op_cb p) (match r with SGot _ => xNil | SEof => xEOF | SWouldBlock => xWouldBlock | SFail e => e end)
                                                     (match r with SGot n => n | _ => 0 end) false])) = [IInvoke cb e n false]).
  { pose proof (sys_read_okp o1 0 Ho1) as Hr. destruct (sys_read o1 0) as [o2 r]. cbn [fst snd] in *.
    split; [apply frame_set_obj; assumption|eexists; eexists; eexists; reflexivity]. }
  set (wr := is_pkt o && op_wrapped p).
  clearbody wr.
  destruct (o_kind o); try (split; [apply Hlsn|right; destruct Hlsn as [_ (cb & e & n & H)]; exists cb, e, n, false; exact H]).
  all: clear Hlsn.
  all: pose proof (io_now_frame b 64 (set_obj s i o1) i w p wr (frame_pollable _ _ _ Hf)) as Hf2.
  all: pose proof (io_now_outcome 64 (set_obj s i o1) i w p wr) as Hout.
  all: generalize dependent (io_now 64 (set_obj s i o1) i w p wr); intros r Hf2 Hout.
  all: (split; [exact (frame_trans _ _ _ _ Hf Hf2)|]).
  all: destruct Hout as [(e & n & H)|(H & _)]; [right; exists (op_cb p), e, n, wr; exact H|left; exact H].
Qed.

Lemma write_event_frame b s i err :
  pollable s ->
  frame b s (fst (write_event s i err)) /\
  (snd (write_event s i err) = [] \/ exists cb e n wr, snd (write_event s i err) = [IInvoke cb e n wr]).
Proof.
  intros Hp. unfold write_event.
  destruct (lookup i (l_objs s)) as [o|] eqn:Hl; [|split; [apply frame_refl; exact Hp|left; reflexivity]].
  destruct (o_evW o); [|split; [apply frame_refl; exact Hp|left; reflexivity]].
  destruct (del_interest s i o true) as [s1 o1] eqn:Ed.
  destruct (del_interest_frame b _ _ _ _ _ _ Ed Hp (okp_lookup _ _ _ Hp Hl)) as [Hf1 Ho1].
  destruct (on_event_frame b s1 i o1 true (if (err =? xCancelled) && negb (ctl_ok o) then xEPERM else err) (frame_pollable _ _ _ Hf1) Ho1) as [Hf2 Hit].
  split; [exact (frame_trans _ _ _ _ Hf1 Hf2)|exact Hit].
Qed.

(* ---- classes of work-list items *)
Definition itemB (it : item) : Prop :=
  match it with
  | IAct a => match a with AStart _ _ _ _ _ | AClose _ => False | _ => True end
  | IInvoke _ _ _ _ => True      (* counted or not: the packet conn's deferred completions run through the wrapper *)
  | IEnd _ => False
  | ILog e => match e with LCb _ _ _ _ => False | _ => True end
  | _ => True
  end.
Definition itemA (it : item) : Prop :=
  match it with IAct a => is_start a | IEnd _ => True | _ => False end.

Lemma itemB_opt items :
  (items = [] \/ exists cb e n w, items = [IInvoke cb e n w]) -> Forall itemB items.
Proof. intros [->|(cb & e & n & w & ->)]; repeat constructor. Qed.

Lemma timer_unset_frame b s i t s1 t1 : timer_unset s i t = (s1, t1) -> pollable s -> frame b s s1.
Proof.
  unfold timer_unset. intros H Hp. destruct (t_evR t); inversion H; subst; [apply frame_set_pending|apply frame_refl]; exact Hp.
Qed.

Lemma sched_once_frame b s i t ms cb rep :
  pollable s -> frame b s (fst (sched_once s i t ms cb rep)) /\ Forall itemB (snd (sched_once s i t ms cb rep)).
Proof.
  intros Hp. unfold sched_once.
  destruct (t_state t =? 0); [|split; [apply frame_refl; exact Hp|constructor]].
  destruct (ms <=? 0); [split; [apply frame_set_tmr; exact Hp|repeat constructor]|].
  match goal with |- context [timer_unset s i ?tt] => destruct (timer_unset s i tt) as [s1 t1] eqn:Eu end.
  pose proof (timer_unset_frame b _ _ _ _ _ Eu Hp) as Hf. cbn [fst snd].
  split; [|constructor].
  eapply frame_trans; [exact Hf|]. eapply frame_trans; [apply frame_set_tmr; eapply frame_pollable; exact Hf|].
  apply frame_set_pending. eapply frame_pollable. apply (frame_set_tmr b). eapply frame_pollable; exact Hf.
Qed.

Lemma poll_entry_frame b s e :
  pollable s -> frame b s (fst (poll_entry s e)) /\ Forall itemB (snd (poll_entry s e)).
Proof.
  intros Hp. destruct e as [[kind i] mask]. unfold poll_entry.
  destruct (kind =? 2).
  { cbn [fst snd]. split.
    - apply frame_same; try reflexivity. exact Hp.
    - induction (l_posts s); cbn; constructor; [exact I|assumption]. }
  destruct (kind =? 1).
  { destruct (lookup i (l_tmrs s)) as [t|]; [|split; [apply frame_refl; exact Hp|constructor]].
    destruct ((has mask mIN || has mask mHUP || has mask mERR) && t_evR t); [|split; [apply frame_refl; exact Hp|constructor]].
    destruct (match t_due t with Some due => due <=? l_now s | None => false end); [|split; [apply frame_refl; exact Hp|constructor]].
    cbn [fst snd]. split; [|repeat constructor]. apply frame_same; try reflexivity. exact Hp. }
  destruct (lookup i (l_objs s)) as [o|] eqn:Hl; [|split; [apply frame_refl; exact Hp|constructor]].
  assert (Hw : Forall itemB (if has mask mOUT || (has mask mHUP || has mask mERR) then [IPollWrite i] else [])).
  { destruct (has mask mOUT || _); repeat constructor. }
  cbn [fst snd].
  destruct ((has mask mIN || (has mask mHUP || has mask mERR)) && o_evR o).
  - destruct (del_interest s i o false) as [s1 o1] eqn:Ed.
    destruct (del_interest_frame b _ _ _ _ _ _ Ed Hp (okp_lookup _ _ _ Hp Hl)) as [Hf1 Ho1].
    destruct (on_event_frame b s1 i o1 false xNil (frame_pollable _ _ _ Hf1) Ho1) as [Hf2 Hit].
    split; [eapply frame_trans; eassumption|]. apply Forall_app. split; [apply itemB_opt; exact Hit|exact Hw].
  - cbn [fst snd app]. split; [apply frame_refl; exact Hp|exact Hw].
Qed.

(* actions other than start and close, run by the poller-level part of the stack *)
Lemma do_action_frame_B b s a :
  pollable s -> itemB (IAct a) ->
  frame b s (fst (do_action s a)) /\ Forall itemB (snd (do_action s a)).
Proof.
  intros Hp Ha. destruct a; cbn [itemB] in Ha; try contradiction; cbn [do_action].
  - (* ACancel *)
    destruct (lookup o (l_objs s)) as [ob|] eqn:Hl; [|split; [apply frame_refl; exact Hp|constructor]].
    cbn [fst snd].
    assert (Hf0 : frame b s (add_log s (LCancel o false))) by (apply frame_add_log; [exact Hp|exact I]).
    destruct (o_evR ob).
    + destruct (del_interest (add_log s (LCancel o false)) o ob false) as [s1 o1] eqn:Ed.
      destruct (del_interest_frame b _ _ _ _ _ _ Ed (frame_pollable _ _ _ Hf0) (okp_lookup _ _ _ Hp Hl)) as [Hf1 Ho1].
      destruct (on_event_frame b s1 o o1 false (if ctl_ok ob then xCancelled else xEPERM) (frame_pollable _ _ _ Hf1) Ho1) as [Hf2 Hit].
      split; [eapply frame_trans; [exact Hf0|eapply frame_trans; eassumption]|].
      apply Forall_app. split; [apply itemB_opt; exact Hit|repeat constructor].
    + cbn [fst snd app]. split; [exact Hf0|repeat constructor].
  - (* ASched *)
    destruct (lookup t (l_tmrs s)) as [tm|]; [|split; [apply frame_refl; exact Hp|constructor]].
    destruct (rep && (ms <=? 0)); [split; [apply frame_add_log; [exact Hp|exact I]|constructor]|].
    destruct (t_state tm =? 0); [|split; [apply frame_add_log; [exact Hp|exact I]|constructor]].
    destruct (sched_once_frame b s t tm ms cb (if rep then ms else 0) Hp) as [Hf Hit].
    destruct (sched_once s t tm ms cb (if rep then ms else 0)) as [s1 items]. cbn [fst snd] in *.
    split; [exact Hf|]. apply Forall_app. split; [exact Hit|repeat constructor].
  - (* ATCancel *)
    destruct (lookup t (l_tmrs s)) as [tm|]; [|split; [apply frame_refl; exact Hp|constructor]].
    destruct (timer_unset s t tm) as [s1 t1] eqn:Eu. cbn [fst snd].
    pose proof (timer_unset_frame b _ _ _ _ _ Eu Hp) as Hf. split; [|constructor].
    eapply frame_trans; [exact Hf|]. eapply frame_trans; [apply frame_set_tmr; eapply frame_pollable; exact Hf|].
    apply frame_add_log; [|exact I]. eapply frame_pollable. apply (frame_set_tmr b). eapply frame_pollable; exact Hf.
  - (* ATClose *)
    destruct (lookup t (l_tmrs s)) as [tm|]; [|split; [apply frame_refl; exact Hp|constructor]].
    destruct (t_state tm =? 2); [split; [apply frame_add_log; [exact Hp|exact I]|constructor]|].
    destruct (timer_unset s t tm) as [s1 t1] eqn:Eu. cbn [fst snd].
    pose proof (timer_unset_frame b _ _ _ _ _ Eu Hp) as Hf. split; [|constructor].
    eapply frame_trans; [exact Hf|]. eapply frame_trans; [apply frame_set_tmr; eapply frame_pollable; exact Hf|].
    apply frame_add_log; [|exact I]. eapply frame_pollable. apply (frame_set_tmr b). eapply frame_pollable; exact Hf.
  - (* APost *)
    cbn [fst snd]. split; [|constructor].
    eapply frame_trans; [|apply frame_add_log; [|exact I]].
    + apply frame_same; try reflexivity. exact Hp.
    + exact Hp.
Qed.

(* a start: completes inline through the counting wrapper (only below the limit), or is deferred *)
Lemma do_action_frame_start b s w all i len cb :
  pollable s ->
  frame b s (fst (do_action s (AStart w all i len cb))) /\
  (snd (do_action s (AStart w all i len cb)) = [] \/
   (l_disp s < sonic_MaxCallbackDispatch /\ exists c e n, snd (do_action s (AStart w all i len cb)) = [IInvoke c e n true])).
Proof.
  intros Hp. cbn [do_action].
  destruct (lookup i (l_objs s)) as [o|] eqn:Hl; [|split; [apply frame_refl; exact Hp|left; reflexivity]].
  set (p := mkop cb all len 0 false).
  set (o0 := if w then with_wr o (Some p) (o_evW o) (o_reg o) else with_rd o (Some p) (o_evR o) (o_reg o)).
  assert (Ho0 : okp o0) by (unfold o0; destruct w; apply (okp_same o); try reflexivity; exact (okp_lookup _ _ _ Hp Hl)).
  set (s0 := note_overlap (add_log s (LStart cb i w all len)) (if w then o_evW o else o_evR o)).
  assert (Hf0 : frame b s s0).
  { eapply frame_trans; [apply (frame_add_log b s (LStart cb i w all len)); [exact Hp|exact I]|]. apply frame_same; try reflexivity. exact Hp. }
  change (l_disp s0) with (l_disp s).
  destruct (l_disp s <? sonic_MaxCallbackDispatch) eqn:Ed.
  - pose proof (frame_set_obj b s0 i o0 (frame_pollable _ _ _ Hf0) Ho0) as Hf1.
    pose proof (io_now_frame b 64 (set_obj s0 i o0) i w p true (frame_pollable _ _ _ Hf1)) as Hf2.
    pose proof (io_now_outcome 64 (set_obj s0 i o0) i w p true) as Hout.
    generalize dependent (io_now 64 (set_obj s0 i o0) i w p true). intros r Hf2 Hout.
    split; [exact (frame_trans _ _ _ _ Hf0 (frame_trans _ _ _ _ Hf1 Hf2))|].
    destruct Hout as [(e & n & H)|(H & _)]; [right; split; [lia|exists (op_cb p), e, n; exact H]|left; exact H].
  - destruct (schedule_frame b s0 i o0 w p false (frame_pollable _ _ _ Hf0) Ho0) as [Hf1 Hit].
    split; [eapply frame_trans; eassumption|left; exact Hit].
Qed.

(* ---- counting the IEnd markers *)
Fixpoint cnt (w : bool) (l : list item) : Z :=
  match l with
  | [] => 0
  | IEnd w' :: r => (if Bool.eqb w w' then 1 else 0) + cnt w r
  | _ :: r => cnt w r
  end.

Lemma cnt_app w a b : cnt w (a ++ b) = cnt w a + cnt w b.
Proof. induction a as [|x a IH]; cbn [app cnt]; [lia|]. destruct x; try exact IH. rewrite IH. lia. Qed.

Lemma cnt_acts w l : cnt w (map IAct l) = 0.
Proof. induction l; cbn; auto. Qed.

Lemma cnt_nonneg w l : 0 <= cnt w l.
Proof. induction l as [|x l IH]; cbn [cnt]; [lia|]. destruct x; try exact IH. destruct (Bool.eqb w wrapped); lia. Qed.

Lemma itemA_acts l : Forall is_start l -> Forall itemA (map IAct l).
Proof. induction 1; cbn; constructor; auto. Qed.

(* ---- the invariant *)
Section Depth.
Variables d0 bound : Z.
Hypothesis Hbound : Z.max 0 (sonic_MaxCallbackDispatch - d0) + 1 <= bound.

Definition headH (s : loop) (H : list item) : Prop :=
  H = [] \/ (l_disp s < sonic_MaxCallbackDispatch /\ exists c e n, H = [IInvoke c e n true]).

Definition sinv (s : loop) (H A B : list item) : Prop :=
  pollable s /\ chain_progs s /\ log_le bound s /\ Forall itemA A /\ Forall itemB B /\
  l_depth s = cnt true A + cnt false A /\ l_disp s = d0 + cnt true A /\ cnt false A <= 1 /\ headH s H.

Definition settled (s : loop) : Prop :=
  log_le bound s /\ pollable s /\ chain_progs s /\ (l_fuel_out s = false -> l_depth s = 0 /\ l_disp s = d0).

Lemma sinv_frame s s' H A B :
  frame bound s s' -> sinv s [] A B -> (l_disp s' = l_disp s -> headH s' H) -> forall B', Forall itemB B' -> sinv s' H A B'.
Proof.
  intros (F1 & F2 & F3 & F4 & F5 & F6) (I1 & I2 & I3 & I4 & I5 & I6 & I7 & I8 & I9) HH B' HB'.
  unfold sinv, chain_progs. rewrite F1, F2, F3. auto 12.
Qed.

Lemma progs_chain s cb : chain_progs s -> Forall is_start (prog_of s cb).
Proof.
  intros H. unfold prog_of. destruct (lookup cb (l_progs s)) eqn:E; [|constructor]. eapply progs_lookup; eassumption.
Qed.

Theorem exec_depth fuel : forall s H A B, sinv s H A B -> settled (exec fuel s (H ++ A ++ B)).
Proof.
  induction fuel as [|f IH]; intros s H A B Hinv.
  - destruct Hinv as (I1 & I2 & I3 & I4 & I5 & I6 & I7 & I8 & I9). cbn [exec].
    destruct (H ++ A ++ B) eqn:E.
    + apply app_eq_nil in E. destruct E as [-> E]. apply app_eq_nil in E. destruct E as [-> ->].
      split; [exact I3|]. split; [exact I1|]. split; [exact I2|]. intros _. cbn in I6, I7. lia.
    + split; [exact I3|]. split; [exact I1|]. split; [exact I2|]. cbn. discriminate.
  - destruct Hinv as (I1 & I2 & I3 & I4 & I5 & I6 & I7 & I8 & I9).
    destruct I9 as [->|(Hd & c & e & n & ->)].
    2:{ (* the counted invocation runs *)
      cbn [app exec].
      set (acts := if 0 <? l_budget _ then map IAct (prog_of _ c) else []).
      match goal with |- settled (exec f ?s3 _) => set (s' := s3) end.
      assert (HA : Forall itemA (acts ++ IEnd true :: A)).
      { apply Forall_app. split; [|constructor; [exact I|exact I4]].
        unfold acts. destruct (0 <? _); [|constructor]. apply itemA_acts. apply progs_chain. exact I2. }
      assert (Hc : forall w, cnt w acts = 0) by (intros w; unfold acts; destruct (0 <? _); [apply cnt_acts|reflexivity]).
      change (acts ++ IEnd true :: A ++ B) with (acts ++ (IEnd true :: A) ++ B). rewrite app_assoc.
      apply (IH s' [] (acts ++ IEnd true :: A) B).
      pose proof (cnt_nonneg false A) as Hn.
      unfold sinv. subst s'. cbn [l_depth l_disp l_log l_progs set_disp set_depth add_log l_objs].
      rewrite !cnt_app, !Hc. cbn [cnt Bool.eqb].
      split; [exact I1|]. split; [exact I2|]. split; [constructor; [cbn; lia|exact I3]|].
      split; [exact HA|]. split; [exact I5|]. split; [lia|]. split; [lia|]. split; [lia|left; reflexivity]. }
    cbn [app].
    destruct A as [|a A].
    + (* no callback on the stack: the poller-level items run *)
      cbn [app]. destruct B as [|it B]; [cbn [exec]; split; [exact I3|split; [exact I1|split; [exact I2|intros _; cbn in I6, I7; lia]]]|].
      inversion I5 as [|? ? Hb HB]; subst.
      assert (Hinv0' : sinv s [] [] (it :: B)).
      { unfold sinv. split; [exact I1|]. split; [exact I2|]. split; [exact I3|]. split; [constructor|]. split; [exact I5|].
        split; [exact I6|]. split; [exact I7|]. split; [exact I8|left; reflexivity]. }
      assert (Hstep : forall s1 items, frame bound s s1 -> Forall itemB items -> settled (exec f s1 (items ++ B))).
      { intros s1 items Hf Hit. apply (IH s1 [] [] (items ++ B)).
        eapply (sinv_frame s s1 [] [] (it :: B)); [exact Hf|exact Hinv0'|intros _; left; reflexivity|].
        apply Forall_app. split; assumption. }
      destruct it; cbn [itemB] in Hb; try contradiction; cbn [exec].
      * (* IAct, not a start *)
        destruct (do_action_frame_B bound s a I1 Hb) as [Hf Hit].
        destruct (do_action s a) as [s1 items]. apply Hstep; assumption.
      * (* an invocation by the poller (counted when a packet conn completes a deferred operation through the wrapper,
           uncounted otherwise): depth 0 -> 1 *)
        clear Hb. destruct wrapped.
        -- idtac.
          set (acts := if 0 <? l_budget _ then map IAct (prog_of _ cb) else []).
          match goal with |- settled (exec f ?s3 _) => set (s' := s3) end.
          assert (HA : Forall itemA (acts ++ [IEnd true])).
          { apply Forall_app. split; [|repeat constructor].
            unfold acts. destruct (0 <? _); [|constructor]. apply itemA_acts. apply progs_chain. exact I2. }
          assert (Hc : forall w, cnt w acts = 0) by (intros w; unfold acts; destruct (0 <? _); [apply cnt_acts|reflexivity]).
          change (acts ++ IEnd true :: B) with (acts ++ [IEnd true] ++ B). rewrite app_assoc.
          apply (IH s' [] (acts ++ [IEnd true]) B).
          unfold sinv. subst s'. cbn [l_depth l_disp l_log l_progs set_disp set_depth add_log l_objs].
          rewrite !cnt_app, !Hc. cbn [cnt Bool.eqb]. cbn [cnt] in I6, I7.
          split; [exact I1|]. split; [exact I2|]. split; [constructor; [cbn; lia|exact I3]|].
          split; [exact HA|]. split; [exact HB|]. split; [lia|]. split; [lia|]. split; [lia|left; reflexivity].
        -- idtac.
          set (acts := if 0 <? l_budget _ then map IAct (prog_of _ cb) else []).
          match goal with |- settled (exec f ?s3 _) => set (s' := s3) end.
          assert (HA : Forall itemA (acts ++ [IEnd false])).
          { apply Forall_app. split; [|repeat constructor].
            unfold acts. destruct (0 <? _); [|constructor]. apply itemA_acts. apply progs_chain. exact I2. }
          assert (Hc : forall w, cnt w acts = 0) by (intros w; unfold acts; destruct (0 <? _); [apply cnt_acts|reflexivity]).
          change (acts ++ IEnd false :: B) with (acts ++ [IEnd false] ++ B). rewrite app_assoc.
          apply (IH s' [] (acts ++ [IEnd false]) B).
          unfold sinv. subst s'. cbn [l_depth l_disp l_log l_progs set_disp set_depth add_log l_objs].
          rewrite !cnt_app, !Hc. cbn [cnt Bool.eqb]. cbn [cnt] in I6, I7.
          split; [exact I1|]. split; [exact I2|]. split; [constructor; [cbn; lia|exact I3]|].
          split; [exact HA|]. split; [exact HB|]. split; [lia|]. split; [lia|]. split; [lia|left; reflexivity].
      * (* ITimerFired *)
        destruct (lookup t (l_tmrs s)) as [tm|].
        -- change (IInvoke (t_cb tm) xNil 0 false :: (if 0 <? t_rep tm then [ITimerAfter t] else []) ++ B)
             with ((IInvoke (t_cb tm) xNil 0 false :: (if 0 <? t_rep tm then [ITimerAfter t] else [])) ++ B).
           apply Hstep; [apply frame_set_tmr; exact I1|].
           constructor; [exact I|]. destruct (0 <? t_rep tm); repeat constructor.
        -- apply (Hstep s []); [apply frame_refl; exact I1|constructor].
      * (* ITimerAfter *)
        destruct (lookup t (l_tmrs s)) as [tm|].
        -- destruct (t_cancelled tm).
           ++ apply (Hstep _ []); [apply frame_set_tmr; exact I1|constructor].
           ++ destruct (sched_once_frame bound s t tm (t_rep tm) (t_cb tm) (t_rep tm) I1) as [Hf Hit].
              destruct (sched_once s t tm (t_rep tm) (t_cb tm) (t_rep tm)) as [s1 items]. apply Hstep; assumption.
        -- apply (Hstep s []); [apply frame_refl; exact I1|constructor].
      * (* ICancelWrites *)
        destruct (write_event_frame bound s i xCancelled I1) as [Hf Hit].
        destruct (write_event s i xCancelled) as [s1 items]. cbn [fst snd] in *.
        change (items ++ ICancelEnd i :: B) with (items ++ [ICancelEnd i] ++ B). rewrite app_assoc.
        apply Hstep; [exact Hf|]. apply Forall_app. split; [apply itemB_opt; exact Hit|repeat constructor].
      * (* ICancelEnd *)
        apply (Hstep _ []); [apply frame_add_log; [exact I1|exact I]|constructor].
      * (* ILog *)
        apply (Hstep _ []); [apply frame_add_log; [exact I1|destruct e; try exact I; contradiction]|constructor].
      * (* IPollWrite *)
        destruct (write_event_frame bound s i xNil I1) as [Hf Hit].
        destruct (write_event s i xNil) as [s1 items]. cbn [fst snd] in *.
        apply Hstep; [exact Hf|apply itemB_opt; exact Hit].
      * (* IPollEntry *)
        destruct (poll_entry_frame bound s e I1) as [Hf Hit].
        destruct (poll_entry s e) as [s1 items]. apply Hstep; assumption.
    + (* a start action or the end of a callback *)
      inversion I4 as [|? ? Ha HA]; subst.
      destruct a; cbn [itemA] in Ha; try contradiction.
      * destruct a; cbn [is_start] in Ha; try contradiction. cbn [app exec].
        destruct (do_action_frame_start bound s write all o len cb I1) as [Hf Hit].
        destruct (do_action s (AStart write all o len cb)) as [s1 items]. cbn [fst snd] in *.
        assert (Hinv0 : sinv s [] A B).
        { unfold sinv. cbn [cnt] in I6, I7, I8. split; [exact I1|]. split; [exact I2|]. split; [exact I3|]. split; [exact HA|].
          split; [exact I5|]. split; [exact I6|]. split; [exact I7|]. split; [exact I8|left; reflexivity]. }
        apply (IH s1 items A B).
        eapply (sinv_frame s s1 items A B); [exact Hf|exact Hinv0| |exact I5].
        intros Hd. destruct Hit as [->|(Hlt & Hex)]; [left; reflexivity|right; split; [rewrite Hd; exact Hlt|exact Hex]].
      * cbn [app exec]. cbn [cnt] in I6, I7, I8.
        pose proof (cnt_nonneg false A) as Hn. pose proof (cnt_nonneg true A) as Hn'.
        match goal with |- settled (exec f ?s3 _) => set (s' := s3) end.
        apply (IH s' [] A B). unfold sinv.
        assert (Hs' : l_objs s' = l_objs s /\ l_progs s' = l_progs s /\ l_log s' = l_log s /\
                      l_depth s' = l_depth s - 1 /\ l_disp s' = l_disp s - (if wrapped then 1 else 0)).
        { subst s'. destruct wrapped; cbn; repeat split; lia. }
        destruct Hs' as (E1 & E2 & E3 & E4 & E5).
        unfold pollable, chain_progs, log_le. rewrite E1, E2, E3, E4, E5.
        split; [exact I1|]. split; [exact I2|]. split; [exact I3|]. split; [exact HA|]. split; [exact I5|].
        destruct wrapped; cbn [Bool.eqb] in *; (split; [lia|]; split; [lia|]; split; [lia|left; reflexivity]).
Qed.

End Depth.

(* ---- script level: every line of every chain script *)
Definition chain_lop (o : lop) : Prop :=
  match o with
  | LObj _ k => k <> KReg /\ k <> KDead
  | LPeer _ PKill => False
  | LProg _ acts => Forall is_start acts
  | LDepth n => 0 <= n
  | LAct a => match a with AClose _ => False | _ => True end
  | _ => True
  end.

Definition dbound : Z := sonic_MaxCallbackDispatch + 1.

Definition idle (s : loop) : Prop :=
  pollable s /\ chain_progs s /\ l_depth s = 0 /\ 0 <= l_disp s /\ log_le dbound s.

Fixpoint no_fuel_out (s : loop) (ops : list lop) : Prop :=
  match ops with [] => True | o :: r => l_fuel_out (lstep s o) = false /\ no_fuel_out (lstep s o) r end.

Lemma progs_update l cb acts :
  Forall (fun q : Z * list action => Forall is_start (snd q)) l -> Forall is_start acts ->
  Forall (fun q : Z * list action => Forall is_start (snd q)) (update cb acts l).
Proof.
  induction l as [|[k x] r IH]; cbn [update]; intros HF H; [constructor; [exact H|constructor]|].
  inversion HF as [|? ? Hx Hr]; subst. destruct (cb =? k); constructor; auto.
Qed.

Lemma settled_idle d0 s : 0 <= d0 -> settled d0 dbound s -> l_fuel_out s = false -> idle s.
Proof.
  intros Hd (A & B & C & D) Hf. destruct (D Hf) as [D1 D2]. unfold idle. rewrite D1, D2. auto 10.
Qed.

Lemma itemB_batch batch : Forall itemB (map IPollEntry batch).
Proof. induction batch; cbn; constructor; [exact I|assumption]. Qed.

Theorem lstep_idle s o : idle s -> chain_lop o -> l_fuel_out (lstep s o) = false -> idle (lstep s o).
Proof.
  intros (I1 & I2 & I3 & I4 & I5) Hc. unfold lstep.
  set (s1 := mkloop (l_pending s) (l_disp s) (l_posts s) (l_objs s) (l_tmrs s) (l_progs s) (l_now s) (l_depth s) (l_log s) (l_fuel_out s) 300 (l_overlap s)).
  assert (J1 : pollable s1) by exact I1.
  assert (Hb : Z.max 0 (sonic_MaxCallbackDispatch - l_disp s1) + 1 <= dbound) by (change (l_disp s1) with (l_disp s); unfold dbound, sonic_MaxCallbackDispatch; lia).
  assert (Hd0 : 0 <= l_disp s1) by exact I4.
  assert (Hexec : forall A B, Forall itemA A -> Forall itemB B -> cnt true A = 0 -> cnt false A = 0 ->
            l_fuel_out (exec exec_fuel s1 (A ++ B)) = false -> idle (exec exec_fuel s1 (A ++ B))).
  { intros A B HA HB C1 C2 Hf. apply (settled_idle (l_disp s1)); [exact Hd0| |exact Hf].
    apply (exec_depth (l_disp s1) dbound Hb exec_fuel s1 [] A B).
    unfold sinv. rewrite C1, C2. split; [exact J1|]. split; [exact I2|]. split; [exact I5|]. split; [exact HA|].
    split; [exact HB|]. split; [exact I3|]. split; [lia|]. split; [lia|left; reflexivity]. }
  destruct o; cbn [chain_lop] in Hc; intros Hf.
  - (* LObj *)
    unfold idle. split; [|auto].
    unfold pollable, set_obj; cbn. apply okp_update; [exact I1|]. unfold okp, new_obj, ctl_ok; cbn. destruct Hc as [Hc1 Hc2]. destruct k; auto; contradiction.
  - unfold idle; auto 10.
  - unfold idle. split; [exact I1|]. split; [|auto]. unfold chain_progs; cbn. apply progs_update; assumption.
  - unfold idle; cbn. auto 10.
  - change (l_objs s1) with (l_objs s). destruct (lookup i (l_objs s)) as [ob|] eqn:Hl; [|unfold idle; auto 10].
    unfold idle. split; [|auto]. unfold pollable, set_obj; cbn. apply okp_update; [exact I1|].
    pose proof (okp_lookup _ _ _ I1 Hl) as Ho.
    destruct p; [| destruct (o_kind ob) eqn:Ek | | |contradiction|]; try exact Ho; apply (okp_same ob); auto.
  - unfold idle; auto 10.
  - apply (Hexec [] (map IPollEntry batch)); try reflexivity; [constructor|apply itemB_batch|exact Hf].
  - destruct a; try contradiction.
    + apply (Hexec [IAct (AStart write all o len cb)] []); try reflexivity; [repeat constructor|constructor|exact Hf].
    + apply (Hexec [] [IAct (ACancel o)]); try reflexivity; [constructor|repeat constructor|exact Hf].
    + apply (Hexec [] [IAct (ASched t rep ms cb)]); try reflexivity; [constructor|repeat constructor|exact Hf].
    + apply (Hexec [] [IAct (ATCancel t)]); try reflexivity; [constructor|repeat constructor|exact Hf].
    + apply (Hexec [] [IAct (ATClose t)]); try reflexivity; [constructor|repeat constructor|exact Hf].
    + apply (Hexec [] [IAct (APost cb)]); try reflexivity; [constructor|repeat constructor|exact Hf].
Qed.

(* For every chain script - any objects other than regular files, any handler programs made of starts, any poll batches,
   peer behaviours, timers, posts and top-level cancels - every callback runs at nesting depth <= MaxCallbackDispatch + 1,
   and after every script line no callback is on the stack and IO.Dispatched is where the line found it. *)
Theorem chain_script_depth ops : forall s,
  idle s -> Forall chain_lop ops -> no_fuel_out s ops -> idle (lrun s ops).
Proof.
  induction ops as [|o r IH]; intros s Hi Hc Hf; [exact Hi|].
  inversion Hc as [|? ? Ho Hr]; subst. destruct Hf as [Hf1 Hf2]. cbn [lrun].
  apply IH; [apply lstep_idle; assumption|exact Hr|exact Hf2].
Qed.

Lemma idle_init : idle loop_init.
Proof. unfold idle, loop_init, pollable, chain_progs, log_le; cbn. repeat split; try constructor; lia. Qed.
