(* C17: a read in flight is never lost.  In Model/WsAsync.v (repaired, serialised flush): whenever an AsyncNextMessage is in
   flight (a_rd = Some _), either the adapter's read reactor is registered with the poller (a_rwait) or the read's continuation
   KRead is held by the flush in flight (as its chain completion or as a waiter) - for every history of application calls, peer
   events and polls with any partial writes.  Together with the exactly-once theorem for flush completions (WsAsyncProofs) the
   continuation then runs, once, when the flush completes.  This is the invariant the pre-repair structure violates
   (unserialised_flush_drops_the_read). *)
From Coq Require Import ZifyBool.
From Sonic Require Import Base.Prelude Base.ListLemmas Model.WsAsync Proofs.WsAsyncProofs.
Local Open Scope Z_scope.
Local Arguments Z.add : simpl never.
Local Arguments Z.sub : simpl never.

Definition rdok (R : list contk) (s : wa) : Prop :=
  a_fuel_out s = false -> a_rd s <> None -> a_rwait s = true \/ 0 < cnt KRead (outstanding s) + cnt KRead R.

(* rdok only looks at these fields *)
Lemma rdok_fields R s s' :
  rdok R s -> a_fuel_out s' = a_fuel_out s -> a_rd s' = a_rd s -> a_rwait s' = a_rwait s ->
  a_chain s' = a_chain s -> a_waiters s' = a_waiters s -> rdok R s'.
Proof. unfold rdok, outstanding. intros H -> -> -> -> ->. exact H. Qed.

Lemma cnt_nonneg k l : 0 <= cnt k l.
Proof. induction l as [|x l IH]; cbn [cnt]; [lia|]. destruct (contk_eqb k x); lia. Qed.

Lemma cinv_fdone R s k : cinv (k :: R) s -> cinv R (add_fdone s k).
Proof.
  intros [A B C D E F]. constructor; cbn; auto. intros k0. specialize (F k0). unfold outstanding in *. cbn in *.
  rewrite cnt_app. cbn. lia.
Qed.

Lemma rd_mutual fuel :
  (forall s R, cinv R s -> rdok R (handle_read fuel s)) /\
  (forall s R k, cinv (k :: R) s -> rdok (k :: R) s -> rdok R (run_cont fuel s k)) /\
  (forall s R k, cinv R s -> (k = KRead \/ rdok R s) -> rdok R (flush fuel s k)).
Proof.
  induction fuel as [|f [IH1 [IH2 IH3]]].
  - split; [|split]; intros; unfold rdok; cbn; intros X; discriminate.
  - split; [|split].
    + (* handle_read *)
      intros s R H. cbn [handle_read]. destruct (a_src s) as [|[opc payload] rest].
      * unfold rdok. cbn. intros _ _. left. reflexivity.
      * destruct (opc =? 9).
        -- apply IH3; [|left; reflexivity].
           assert (H0 : cinv R (set_src s rest)) by (eapply cinv_fields; [exact H|reflexivity..]).
           destruct (a_state _ =? 1); [apply cinv_queue; exact H0|exact H0].
        -- cbn [a_rd set_src]. destruct (a_rd s) as [[rid blen]|] eqn:Erd.
           ++ destruct (zlen payload >? blen).
              ** (* does not fit: the read completes with an error; nothing of it stays in flight *)
                 assert (H0 : cinv R (set_rd (set_src s rest) None)) by (eapply cinv_fields; [exact H|reflexivity..]).
                 assert (Hv : rdok R (set_rd (set_src s rest) None)) by (unfold rdok; cbn; intros _ X; contradiction X; reflexivity).
                 match goal with |- rdok R (upd_log ?x _) => apply (rdok_fields R x); [|reflexivity..] end.
                 destruct (a_state _ =? 1); [|exact Hv].
                 apply IH3; [apply cinv_queue; eapply cinv_fields; [exact H0|reflexivity..]|].
                 right. eapply rdok_fields; [exact Hv|reflexivity..].
              ** unfold rdok. cbn. intros _ X. contradiction X. reflexivity.
           ++ unfold rdok. cbn. rewrite Erd. intros _ X. contradiction X. reflexivity.
    + (* run_cont *)
      intros s R k H Hr. cbn [run_cont].
      pose proof (cinv_fdone R s k H) as H1.
      destruct k as [|id]; [apply IH1; exact H1|].
      assert (Hr1 : rdok R (add_fdone s (KApp id))).
      { unfold rdok in *. cbn in *. intros A B. destruct (Hr A B) as [X|X]; [left; exact X|right; exact X]. }
      set (s1 := if id <? 0 then add_fdone s (KApp id) else upd_log (add_fdone s (KApp id)) (id, 0, [])).
      assert (H2 : cinv R s1) by (unfold s1; destruct (id <? 0); [exact H1|eapply cinv_fields; [exact H1|reflexivity..]]).
      assert (Hr2 : rdok R s1) by (unfold s1; destruct (id <? 0); [exact Hr1|eapply rdok_fields; [exact Hr1|reflexivity..]]).
      clearbody s1. destruct (nlookup id _) as [[id2 payload]|]; [|exact Hr2].
      destruct (a_state _ =? 1).
      * apply IH3; [apply cinv_queue; exact H2|]. right. eapply rdok_fields; [exact Hr2|reflexivity..].
      * eapply rdok_fields; [exact Hr2|reflexivity..].
    + (* flush *)
      intros s R k H Hk. cbn [flush]. pose proof H as [A B C D E F]. rewrite A. cbn [andb].
      destruct (a_flushing s) eqn:Ef.
      * (* wait for the flush in flight *)
        unfold rdok, outstanding. cbn. intros X Y. rewrite !cnt_app.
        pose proof (cnt_nonneg KRead (match a_chain s with Some k => [k] | None => [] end)) as N1.
        pose proof (cnt_nonneg KRead (a_waiters s)) as N2. pose proof (cnt_nonneg KRead R) as N3.
        destruct Hk as [->|Hk].
        -- right. cbn [cnt contk_eqb]. lia.
        -- destruct (Hk X Y) as [Z|Z]; [left; exact Z|right]. unfold outstanding in Z. rewrite cnt_app in Z.
           pose proof (cnt_nonneg KRead [k]) as N4. lia.
      * destruct (E eq_refl) as [Ec Ew].
        destruct (a_pending s) as [|fr rest] eqn:Ep.
        -- apply IH2.
           ++ assert (Hwr : a_wr s = None) by (destruct (a_wr s); [discriminate|reflexivity]).
              rewrite Hwr in C. destruct C as [Cd Cw].
              constructor; cbn;
                [exact A|rewrite ?Ep; exact B|rewrite Hwr; split; assumption|rewrite Hwr; exact Ef|intros _; split; assumption|].
              intros k0. specialize (F k0). unfold outstanding in *. cbn. rewrite cnt_app. cbn. lia.
           ++ unfold rdok, outstanding. cbn. rewrite Ec, Ew. cbn [app cnt].
              intros X Y. destruct Hk as [->|Hk].
              ** right. cbn. pose proof (cnt_nonneg KRead R). lia.
              ** destruct (Hk X Y) as [Z|Z]; [left; exact Z|right]. unfold outstanding in Z. rewrite Ec, Ew in Z. cbn [app cnt] in Z.
                 cbn [cnt]. destruct k; cbn [contk_eqb]; lia.
        -- unfold send_head. cbn. rewrite ?Ep. unfold rdok, outstanding. cbn. rewrite Ew. cbn [app cnt].
           intros X Y. destruct Hk as [->|Hk].
           ++ right. cbn. pose proof (cnt_nonneg KRead R). lia.
           ++ destruct (Hk X Y) as [Z|Z]; [left; exact Z|right]. unfold outstanding in Z. rewrite Ec, Ew in Z. cbn [app cnt] in Z.
              destruct k; cbn [contk_eqb]; lia.
Qed.

Lemma run_conts_rd fuel : forall ks s R, cinv (ks ++ R) s -> rdok (ks ++ R) s -> rdok R (run_conts fuel s ks).
Proof.
  induction ks as [|k r IH]; intros s R H Hr; cbn [run_conts]; [exact Hr|].
  apply IH.
  - apply (proj1 (proj2 (fuel_mutual fuel))). exact H.
  - apply (proj1 (proj2 (rd_mutual fuel))); assumption.
Qed.

Lemma write_complete_rd s n :
  cinv [] s -> rdok [] s -> a_wr s = Some n -> n = zlen (a_dst s) -> rdok [] (write_complete s).
Proof.
  intros Hc Hr Hw Hn. pose proof Hc as [A B C D E F]. rewrite Hw in C, D. destruct C as [C1 C2].
  unfold write_complete. cbn.
  destruct (a_pending s) as [|fr rest] eqn:Ep.
  - apply run_conts_rd.
    + rewrite app_nil_r. constructor; cbn;
        [exact A|rewrite B; cbn; rewrite !app_nil_r; reflexivity|split; [reflexivity|rewrite C2, Hn, ztake_all by lia; reflexivity]|
         reflexivity|auto|].
      intros k0. specialize (F k0). unfold outstanding in *. cbn in F. lia.
    + rewrite app_nil_r. unfold rdok, outstanding in *. cbn in *. intros X Y. destruct (Hr X Y) as [Z|Z]; [left; exact Z|right]. lia.
  - unfold send_head. cbn. unfold rdok, outstanding in *. cbn in *. exact Hr.
Qed.

Theorem wastep_rd s o : cinv [] s -> rdok [] s -> rdok [] (wastep s o).
Proof.
  intros H Hr. destruct o as [rid blen|wid payload|opc payload|cid|wid wid2 payload2|accept]; cbn [wastep].
  - apply (proj2 (proj2 (rd_mutual wa_fuel))); [eapply cinv_fields; [exact H|reflexivity..]|left; reflexivity].
  - destruct (a_state s =? 1); [|eapply rdok_fields; [exact Hr|reflexivity..]].
    apply (proj2 (proj2 (rd_mutual wa_fuel))); [apply cinv_queue; exact H|right; eapply rdok_fields; [exact Hr|reflexivity..]].
  - eapply rdok_fields; [exact Hr|reflexivity..].
  - destruct (a_state s =? 1); [|eapply rdok_fields; [exact Hr|reflexivity..]].
    apply (proj2 (proj2 (rd_mutual wa_fuel))); [apply cinv_queue; eapply cinv_fields; [exact H|reflexivity..]|].
    right; eapply rdok_fields; [exact Hr|reflexivity..].
  - eapply rdok_fields; [exact Hr|reflexivity..].
  - set (s1 := if a_rwait s && negb (match a_inq s with [] => true | _ => false end) then _ else s).
    assert (H1 : cinv [] s1).
    { unfold s1. destruct (a_rwait s && _); [|exact H]. apply (proj1 (fuel_mutual wa_fuel)). eapply cinv_fields; [exact H|reflexivity..]. }
    assert (Hr1 : rdok [] s1).
    { unfold s1. destruct (a_rwait s && _); [|exact Hr]. apply (proj1 (rd_mutual wa_fuel)). eapply cinv_fields; [exact H|reflexivity..]. }
    clearbody s1. destruct (a_wr s); [|exact Hr1].
    destruct (a_wr s1) as [sofar|] eqn:Ew; [|exact Hr1].
    pose proof H1 as [A B C D E F]. rewrite Ew in C, D. destruct C as [C1 C2].
    set (n := Z.max 0 (Z.min accept (zlen (a_dst s1) - sofar))).
    assert (Hn : 0 <= n /\ sofar + n <= zlen (a_dst s1)) by (unfold n; lia).
    match goal with |- rdok [] (if _ then write_complete ?x else ?y) => set (s2 := x) end.
    assert (H2 : cinv [] s2).
    { unfold s2. constructor; cbn; [exact A|exact B| |exact D|exact E|exact F].
      split; [lia|]. rewrite C2, <- app_assoc. f_equal. apply ztake_step; lia. }
    assert (Hr2 : rdok [] s2) by (unfold s2; eapply rdok_fields; [exact Hr1|reflexivity..]).
    destruct (sofar + n =? zlen (a_dst s1)) eqn:Ec; [|exact Hr2].
    apply (write_complete_rd s2 (sofar + n)); [exact H2|exact Hr2|reflexivity|unfold s2; cbn; lia].
Qed.

Lemma rdok_init : rdok [] (wa_init true).
Proof. unfold rdok. cbn. intros _ X. contradiction X. reflexivity. Qed.

Theorem warun_rd ops : forall s, cinv [] s -> rdok [] s -> rdok [] (warun s ops).
Proof.
  induction ops as [|o r IH]; intros s H Hr; [exact Hr|]. cbn [warun]. apply IH; [apply wastep_inv; exact H|apply wastep_rd; assumption].
Qed.

(* In words: for every history, a message read in flight is either registered with the poller or is the continuation of the
   flush in flight (chain completion or waiter) - it cannot be dropped. *)
Theorem read_in_flight_is_never_lost ops :
  let s := warun (wa_init true) ops in
  a_fuel_out s = false -> a_rd s <> None -> a_rwait s = true \/ 0 < cnt KRead (outstanding s).
Proof.
  intros s X Y. pose proof (warun_rd ops _ cinv_init rdok_init) as H. fold s in H. destruct (H X Y) as [Z|Z]; [left; exact Z|right].
  cbn [cnt] in Z. lia.
Qed.
