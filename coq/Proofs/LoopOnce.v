(* C01: at-most-once over whole histories of the event-loop model (Model/Loop.v).
   Fix a callback identifier c that the script uses only for read/write/accept/datagram operations (never for a timer or a
   posted handler).  For every script and every poll batch: as long as the run never starts an operation on a direction that
   already has one deferred in flight (the library's contract; the ghost flag l_overlap records a breach),
       callbacks of c run so far + operations holding c that are registered with the poller + invocations of c waiting on the
       work list   <=   operations started with c.
   So with one identifier per operation (what the harness scripts do for the operations they judge) no completion callback
   ever runs twice - through inline completion, the poller, Cancel, Close, re-arming, stale batch entries, peer behaviour. *)
From Coq Require Import ZifyBool.
From Sonic Require Import Base.Prelude Base.ListLemmas Gen.Consts Model.Loop Proofs.LoopProofs.
Local Open Scope Z_scope.

Section Once.
Variable c : Z.
Hypothesis c_nonzero : c <> 0.            (* a fresh timer's callback slot reads 0 *)

Definition is_cb (e : lev) : bool := match e with LCb cb _ _ _ => cb =? c | _ => false end.
Definition is_st (e : lev) : bool := match e with LStart cb _ _ _ _ => cb =? c | _ => false end.
Fixpoint cntl (f : lev -> bool) (l : list lev) : Z :=
  match l with [] => 0 | e :: r => (if f e then 1 else 0) + cntl f r end.
Definition cbs (s : loop) : Z := cntl is_cb (l_log s).
Definition starts (s : loop) : Z := cntl is_st (l_log s).

Definition hc (p : opst) : Z := if op_cb p =? c then 1 else 0.
Definition hold (r : option opst) : Z := match r with Some p => hc p | None => 0 end.
Definition pc (o : obj) : Z := (if o_evR o then hold (o_rd o) else 0) + (if o_evW o then hold (o_wr o) else 0).
Definition pendc (s : loop) : Z := sumf pc (l_objs s).

Fixpoint stackc (l : list item) : Z :=
  match l with
  | [] => 0
  | IInvoke cb _ _ _ :: r => (if cb =? c then 1 else 0) + stackc r
  | _ :: r => stackc r
  end.

Lemma hc_range p : 0 <= hc p <= 1.  Proof. unfold hc. destruct (op_cb p =? c); lia. Qed.
Lemma hold_range r : 0 <= hold r <= 1.  Proof. destruct r; cbn; [apply hc_range|lia]. Qed.
Lemma pc_nonneg o : 0 <= pc o.
Proof. unfold pc. pose proof (hold_range (o_rd o)). pose proof (hold_range (o_wr o)). destruct (o_evR o), (o_evW o); lia. Qed.
Lemma stackc_app a b : stackc (a ++ b) = stackc a + stackc b.
Proof. induction a as [|x a IH]; cbn [app stackc]; [lia|]. destruct x; try exact IH. rewrite IH. lia. Qed.
Lemma stackc_nonneg l : 0 <= stackc l.
Proof. induction l as [|x l IH]; cbn [stackc]; [lia|]. destruct x; try exact IH. destruct (cb =? c); lia. Qed.
Lemma stackc_acts l : stackc (map IAct l) = 0.
Proof. induction l; cbn; auto. Qed.

Lemma pendc_set_obj s i o' :
  pendc (set_obj s i o') = pendc s - (match lookup i (l_objs s) with Some o => pc o | None => 0 end) + pc o'.
Proof. unfold pendc, set_obj; cbn. rewrite sum_update. lia. Qed.

(* ---- what the object-level primitives leave alone *)
Definition keep (s s' : loop) : Prop :=
  l_log s' = l_log s /\ l_overlap s' = l_overlap s /\ l_tmrs s' = l_tmrs s /\ l_posts s' = l_posts s /\ l_progs s' = l_progs s.
Lemma keep_refl s : keep s s.  Proof. unfold keep; auto. Qed.
Lemma keep_trans a b d : keep a b -> keep b d -> keep a d.
Proof. unfold keep. intros (A1 & A2 & A3 & A4 & A5) (B1 & B2 & B3 & B4 & B5). repeat split; congruence. Qed.
Lemma keep_set_obj s i o : keep s (set_obj s i o).  Proof. unfold keep; cbn; auto. Qed.
Lemma keep_set_pending s p : keep s (set_pending s p).  Proof. unfold keep; cbn; auto. Qed.

(* ---- the kernel touches neither reactors nor interest bits *)
Lemma sys_read_pc o n :
  let o1 := fst (sys_read o n) in
  pc o1 = pc o /\ o_evR o1 = o_evR o /\ o_evW o1 = o_evW o /\ o_rd o1 = o_rd o /\ o_wr o1 = o_wr o.
Proof.
  unfold sys_read.
  destruct (o_closed o || _); [cbn; auto|].
  destruct (match o_kind o with KDead => true | _ => false end); [cbn; auto|].
  destruct (match o_kind o with KLsn => true | _ => false end); [destruct (0 <? e_rq o); cbn; auto|].
  destruct (0 <? e_rq o); [cbn; auto|].
  destruct (e_rst o); [cbn; auto|].
  destruct (o_kind o); cbn; auto; destruct (e_reof o); cbn; auto.
Qed.

Lemma sys_write_pc o n :
  let o1 := fst (sys_write o n) in
  pc o1 = pc o /\ o_evR o1 = o_evR o /\ o_evW o1 = o_evW o /\ o_rd o1 = o_rd o /\ o_wr o1 = o_wr o.
Proof.
  destruct (sys_write_fields o n) as (_ & _ & A & B & C & D & _). cbv zeta. unfold pc. rewrite A, B, C, D. auto.
Qed.

Definition bit (w : bool) (o : obj) : bool := if w then o_evW o else o_evR o.
Definition reactor (w : bool) (o : obj) : option opst := if w then o_wr o else o_rd o.

(* ---- schedule, on a direction whose interest bit is clear *)
Lemma schedule_pot s i o0 o w p wr :
  lookup i (l_objs s) = Some o0 -> bit w o = false ->
  pendc (fst (schedule s i o w p wr)) + stackc (snd (schedule s i o w p wr)) = pendc s - pc o0 + pc o + hc p /\
  keep s (fst (schedule s i o w p wr)).
Proof.
  intros Hl Hb. unfold schedule. cbv zeta.
  assert (Hhc : hc (set_wrapped p wr) = hc p) by reflexivity.
  destruct (o_closed o); cbn [fst snd].
  { split; [|apply keep_set_obj]. rewrite pendc_set_obj, Hl. cbn [stackc set_wrapped op_cb]. fold (hc p). unfold hc. lia. }
  unfold bit in Hb. destruct w; rewrite Hb.
  - destruct (ctl_ok o); cbn [fst snd].
    + split; [|eapply keep_trans; [apply keep_set_obj|apply keep_set_pending]].
      change (pendc (set_pending ?x ?y)) with (pendc x). rewrite pendc_set_obj, Hl. cbn [stackc].
      unfold pc, with_wr; cbn. rewrite Hb. cbn [hold]. rewrite Hhc. lia.
    + split; [|apply keep_set_obj]. rewrite pendc_set_obj, Hl. cbn [stackc set_wrapped op_cb].
      unfold pc, with_wr; cbn. rewrite Hb. fold (hc p). unfold hc. lia.
  - destruct (ctl_ok o); cbn [fst snd].
    + split; [|eapply keep_trans; [apply keep_set_obj|apply keep_set_pending]].
      change (pendc (set_pending ?x ?y)) with (pendc x). rewrite pendc_set_obj, Hl. cbn [stackc].
      unfold pc, with_rd; cbn. rewrite Hb. cbn [hold]. rewrite Hhc. lia.
    + split; [|apply keep_set_obj]. rewrite pendc_set_obj, Hl. cbn [stackc set_wrapped op_cb].
      unfold pc, with_rd; cbn. rewrite Hb. fold (hc p). unfold hc. lia.
Qed.

Lemma io_now_pot fuel : forall s i w p wr,
  (forall o, lookup i (l_objs s) = Some o -> bit w o = false) ->
  pendc (fst (io_now fuel s i w p wr)) + stackc (snd (io_now fuel s i w p wr)) <= pendc s + hc p /\
  keep s (fst (io_now fuel s i w p wr)).
Proof.
  induction fuel as [|f IH]; intros s i w p wr Hbit; cbn [io_now].
  - cbn [fst snd stackc]. pose proof (hc_range p). split; [change (pendc (out_of_fuel s)) with (pendc s); lia|unfold keep; cbn; auto].
  - destruct (lookup i (l_objs s)) as [o|] eqn:Hl; [|cbn [fst snd stackc]; pose proof (hc_range p); split; [lia|apply keep_refl]].
    specialize (Hbit o eq_refl).
    assert (Hsys : let o1 := fst (if w then sys_write o (op_len p - op_sofar p) else sys_read o (op_len p - op_sofar p)) in
                   pc o1 = pc o /\ bit w o1 = false).
    { destruct w; cbn zeta.
      - destruct (sys_write_pc o (op_len p - op_sofar p)) as (A & B & C & _). split; [exact A|]. unfold bit in *. congruence.
      - destruct (sys_read_pc o (op_len p - op_sofar p)) as (A & B & C & _). split; [exact A|]. unfold bit in *. congruence. }
    destruct (if w then sys_write o (op_len p - op_sofar p) else sys_read o (op_len p - op_sofar p)) as [o1 r].
    cbn [fst] in Hsys. destruct Hsys as [Hpc Hb1].
    assert (Hset : pendc (set_obj s i o1) = pendc s) by (rewrite pendc_set_obj, Hl; lia).
    destruct r.
    + destruct (op_all p && negb (op_sofar p + n =? op_len p) && negb (is_pkt o)).
      * destruct (IH (set_obj s i o1) i w (set_sofar p (op_sofar p + n)) wr) as [A B].
        { intros o' Ho'. rewrite lookup_set_obj in Ho'. inversion Ho'; subst. exact Hb1. }
        change (hc (set_sofar p (op_sofar p + n))) with (hc p) in A.
        split; [lia|eapply keep_trans; [apply keep_set_obj|exact B]].
      * cbn [fst snd stackc]. fold (hc p). split; [unfold hc in *; lia|apply keep_set_obj].
    + cbn [fst snd stackc]. fold (hc p). split; [unfold hc in *; lia|apply keep_set_obj].
    + destruct (schedule_pot s i o o1 w p wr Hl Hb1) as [A B]. split; [lia|exact B].
    + cbn [fst snd stackc]. fold (hc p). split; [unfold hc in *; lia|apply keep_set_obj].
Qed.

(* ---- DelRead / DelWrite *)
Lemma del_interest_pot s i o w s1 o1 :
  del_interest s i o w = (s1, o1) ->
  keep s s1 /\ l_objs s1 = l_objs s /\ bit w o1 = false /\
  pc o1 = pc o - (if bit w o then hold (reactor w o) else 0) /\ reactor w o1 = reactor w o.
Proof.
  unfold del_interest, bit, reactor. destruct w.
  - destruct (o_evW o) eqn:E; intros H; inversion H; subst; cbn.
    + split; [unfold keep; cbn; auto|]. split; [reflexivity|]. split; [reflexivity|]. unfold pc; cbn. rewrite E. split; [lia|reflexivity].
    + split; [apply keep_refl|]. split; [reflexivity|]. split; [exact E|]. split; [lia|reflexivity].
  - destruct (o_evR o) eqn:E; intros H; inversion H; subst; cbn.
    + split; [unfold keep; cbn; auto|]. split; [reflexivity|]. split; [reflexivity|]. unfold pc; cbn. rewrite E. split; [lia|reflexivity].
    + split; [apply keep_refl|]. split; [reflexivity|]. split; [exact E|]. split; [lia|reflexivity].
Qed.

(* ---- the handler the poller or Cancel invokes, after the interest was removed *)
Lemma on_event_pot s i o0 o w err :
  lookup i (l_objs s) = Some o0 -> bit w o = false ->
  pendc (fst (on_event s i o w err)) + stackc (snd (on_event s i o w err)) <= pendc s - pc o0 + pc o + hold (reactor w o) /\
  keep s (fst (on_event s i o w err)).
Proof.
  intros Hl Hb. unfold on_event. cbv zeta.
  set (rg := if o_evR o || o_evW o then o_reg o else false).
  set (o1 := if w then with_wr o (o_wr o) (o_evW o) rg else with_rd o (o_rd o) (o_evR o) rg).
  assert (Hpc1 : pc o1 = pc o) by (unfold o1; destruct w; reflexivity).
  assert (Hb1 : bit w o1 = false) by (unfold o1, bit in *; destruct w; exact Hb).
  assert (Hset : pendc (set_obj s i o1) = pendc s - pc o0 + pc o) by (rewrite pendc_set_obj, Hl; lia).
  unfold reactor.
  destruct (if w then o_wr o else o_rd o) as [p|]; cbn [hold].
  2:{ cbn [fst snd stackc]. split; [lia|apply keep_set_obj]. }
  destruct (negb (err =? xNil)).
  { cbn [fst snd stackc]. fold (hc p). split; [unfold hc in *; lia|apply keep_set_obj]. }
  assert (Hlsn : pendc (fst (let '(o2, r) := sys_read o1 0 in
                              (set_obj s i o2, [IInvoke (op_cb p) (match r with SGot _ => xNil | SEof => xEOF | SWouldBlock => xWouldBlock | SFail e => e end)
                                                  (match r with SGot n => n | _ => 0 end) false]))) +
                 stackc (snd (let '(o2, r) := sys_read o1 0 in
                              (set_obj s i o2, [IInvoke (op_cb p) (match r with SGot _ => xNil | SEof => xEOF | SWouldBlock => xWouldBlock | SFail e => e end)
                                                  (match r with SGot n => n | _ => 0 end) false]))) <= pendc s - pc o0 + pc o + hc p /\
                 keep s (fst (let '(o2, r) := sys_read o1 0 in
                              (set_obj s i o2, [IInvoke (op_cb p) (match r with SGot _ => xNil | SEof => xEOF | SWouldBlock => xWouldBlock | SFail e => e end)
                                                  (match r with SGot n => n | _ => 0 end) false])))).
  { destruct (sys_read_pc o1 0) as (A & _). destruct (sys_read o1 0) as [o2 r]. cbn [fst snd stackc] in *. fold (hc p).
    split; [rewrite pendc_set_obj, Hl; unfold hc in *; lia|apply keep_set_obj]. }
  set (wr := is_pkt o && op_wrapped p). clearbody wr.
  destruct (o_kind o); try exact Hlsn.
  all: clear Hlsn.
  all: destruct (io_now_pot 64 (set_obj s i o1) i w p wr) as [A B];
    [intros o' Ho'; rewrite lookup_set_obj in Ho'; inversion Ho'; subst; exact Hb1|].
  all: split; [lia|eapply keep_trans; [apply keep_set_obj|exact B]].
Qed.

Lemma write_event_pot s i err :
  pendc (fst (write_event s i err)) + stackc (snd (write_event s i err)) <= pendc s /\ keep s (fst (write_event s i err)).
Proof.
  unfold write_event. destruct (lookup i (l_objs s)) as [o|] eqn:Hl; [|cbn; split; [lia|apply keep_refl]].
  destruct (o_evW o) eqn:E; [|cbn; split; [lia|apply keep_refl]].
  destruct (del_interest s i o true) as [s1 o1] eqn:Ed.
  destruct (del_interest_pot _ _ _ _ _ _ Ed) as (K & Ho & Hb & Hp & Hr).
  destruct (on_event_pot s1 i o o1 true (if (err =? xCancelled) && negb (ctl_ok o) then xEPERM else err)) as [A B];
    [rewrite Ho; exact Hl|exact Hb|].
  unfold bit in Hp. rewrite E in Hp. rewrite Hr in A.
  assert (Hps : pendc s1 = pendc s) by (unfold pendc; rewrite Ho; reflexivity).
  split; [lia|eapply keep_trans; eassumption].
Qed.

(* ---- side conditions: c is never a timer's or a posted handler's callback *)
Definition act_ok (a : action) : Prop :=
  match a with ASched _ _ _ cb => cb <> c | APost cb => cb <> c | _ => True end.
Definition item_ok (it : item) : Prop :=
  match it with
  | IAct a => act_ok a
  | ILog e => is_cb e = false /\ is_st e = false
  | _ => True
  end.
Definition side (s : loop) : Prop :=
  Forall (fun t => t_cb (snd t) <> c) (l_tmrs s) /\ ~ In c (l_posts s) /\ Forall (fun p => Forall act_ok (snd p)) (l_progs s).

Lemma side_keep s s' : keep s s' -> side s -> side s'.
Proof. intros (_ & _ & A & B & C) (S1 & S2 & S3). unfold side. rewrite A, B, C. auto. Qed.

Lemma tm_lookup (l : list (Z * tmr)) i t : Forall (fun t => t_cb (snd t) <> c) l -> lookup i l = Some t -> t_cb t <> c.
Proof.
  induction l as [|[k x] r IH]; cbn [lookup]; intros HF H; [discriminate|].
  inversion HF as [|? ? Hx Hr]; subst. destruct (i =? k); [inversion H; subst; exact Hx|auto].
Qed.
Lemma tm_update (l : list (Z * tmr)) i t : Forall (fun t => t_cb (snd t) <> c) l -> t_cb t <> c -> Forall (fun t => t_cb (snd t) <> c) (update i t l).
Proof.
  induction l as [|[k x] r IH]; cbn [update]; intros HF H; [constructor; [exact H|constructor]|].
  inversion HF as [|? ? Hx Hr]; subst. destruct (i =? k); constructor; auto.
Qed.
Lemma progs_lookup_ok (l : list (Z * list action)) cb p : Forall (fun q => Forall act_ok (snd q)) l -> lookup cb l = Some p -> Forall act_ok p.
Proof.
  induction l as [|[k x] r IH]; cbn [lookup]; intros HF H; [discriminate|].
  inversion HF as [|? ? Hx Hr]; subst. destruct (cb =? k); [inversion H; subst; exact Hx|auto].
Qed.
Lemma progs_update_ok (l : list (Z * list action)) cb p : Forall (fun q => Forall act_ok (snd q)) l -> Forall act_ok p ->
  Forall (fun q => Forall act_ok (snd q)) (update cb p l).
Proof.
  induction l as [|[k x] r IH]; cbn [update]; intros HF H; [constructor; [exact H|constructor]|].
  inversion HF as [|? ? Hx Hr]; subst. destruct (cb =? k); constructor; auto.
Qed.
Lemma prog_of_ok s cb : Forall (fun p => Forall act_ok (snd p)) (l_progs s) -> Forall item_ok (map IAct (prog_of s cb)).
Proof.
  intros S3. unfold prog_of. destruct (lookup cb (l_progs s)) eqn:E; [|constructor].
  pose proof (progs_lookup_ok _ _ _ S3 E) as H. clear E. induction l as [|a l IH]; cbn [map]; [constructor|].
  inversion H; subst. constructor; [assumption|apply IH; assumption].
Qed.

(* the quantity that never decreases along the run (until a breach of the contract) *)
Definition pot (s : loop) (items : list item) : Z := starts s - cbs s - pendc s - stackc items.

Lemma pot_keep s s' items : l_log s' = l_log s -> pot s' items = starts s - cbs s - pendc s' - stackc items.
Proof. intros H. unfold pot, starts, cbs. rewrite H. reflexivity. Qed.

(* ---- timers *)
Lemma timer_unset_keep s i t s1 t1 : timer_unset s i t = (s1, t1) ->
  keep s s1 /\ l_objs s1 = l_objs s /\ t_cb t1 = t_cb t.
Proof. unfold timer_unset. destruct (t_evR t); intros H; inversion H; subst; cbn; repeat split; reflexivity. Qed.



Definition same_acc (s s' : loop) : Prop :=
  l_log s' = l_log s /\ l_overlap s' = l_overlap s /\ l_objs s' = l_objs s /\ l_progs s' = l_progs s.

Lemma sched_once_side s i t ms cb rep :
  side s -> cb <> c -> t_cb t <> c ->
  side (fst (sched_once s i t ms cb rep)) /\ stackc (snd (sched_once s i t ms cb rep)) = 0 /\
  Forall item_ok (snd (sched_once s i t ms cb rep)) /\ same_acc s (fst (sched_once s i t ms cb rep)).
Proof.
  intros Hs Hcb Ht. unfold sched_once. destruct Hs as (S1 & S2 & S3).
  destruct (t_state t =? 0); [|cbn; split; [unfold side; auto|]; split; [reflexivity|]; split; [constructor|unfold same_acc; auto]].
  destruct (ms <=? 0); cbn [fst snd].
  - split; [unfold side; cbn; split; [apply tm_update; [exact S1|exact Ht]|auto]|].
    split; [cbn; apply Z.eqb_neq in Hcb; rewrite Hcb; reflexivity|]. split; [repeat constructor|unfold same_acc; cbn; auto].
  - match goal with |- context [timer_unset s i ?tt] => destruct (timer_unset s i tt) as [s1 t1] eqn:Eu end.
    destruct (timer_unset_keep _ _ _ _ _ Eu) as ((K1 & K2 & K3 & K4 & K5) & Ko & _). cbn [fst snd].
    split; [unfold side; cbn; rewrite K3, K4, K5; split; [apply tm_update; [exact S1|exact Hcb]|auto]|].
    split; [reflexivity|]. split; [constructor|unfold same_acc; cbn; auto].
Qed.

(* ---- the work-list items the object primitives produce are invocations only *)
Definition plain (items : list item) : Prop := items = [] \/ exists cb e n w, items = [IInvoke cb e n w].
Lemma plain_ok items : plain items -> Forall item_ok items.
Proof. intros [->|(cb & e & n & w & ->)]; repeat constructor. Qed.

Lemma schedule_plain s i o w p wr : plain (snd (schedule s i o w p wr)).
Proof.
  unfold schedule. cbv zeta. destruct (o_closed o); [right; repeat eexists|].
  destruct (if w then o_evW o else o_evR o); [left; reflexivity|].
  destruct (ctl_ok o); [left; reflexivity|right; repeat eexists].
Qed.

Lemma io_now_plain fuel : forall s i w p wr, plain (snd (io_now fuel s i w p wr)).
Proof.
  induction fuel as [|f IH]; intros s i w p wr; cbn [io_now]; [left; reflexivity|].
  destruct (lookup i (l_objs s)) as [o|]; [|left; reflexivity].
  destruct (if w then sys_write o (op_len p - op_sofar p) else sys_read o (op_len p - op_sofar p)) as [o1 r].
  destruct r.
  - destruct (op_all p && negb (op_sofar p + n =? op_len p) && negb (is_pkt o)); [apply IH|right; repeat eexists].
  - right; repeat eexists.
  - apply schedule_plain.
  - right; repeat eexists.
Qed.

Lemma on_event_plain s i o w err : plain (snd (on_event s i o w err)).
Proof.
  unfold on_event. cbv zeta.
  destruct (if w then o_wr o else o_rd o) as [p|]; [|left; reflexivity].
  destruct (negb (err =? xNil)); [right; repeat eexists|].
  destruct (o_kind o); try apply io_now_plain.
  destruct (sys_read _ 0) as [o2 r]. right; repeat eexists.
Qed.

Lemma write_event_plain s i err : plain (snd (write_event s i err)).
Proof.
  unfold write_event. destruct (lookup i (l_objs s)) as [o|]; [|left; reflexivity].
  destruct (o_evW o); [|left; reflexivity].
  destruct (del_interest s i o true) as [s1 o1]. apply on_event_plain.
Qed.

(* ---- the log *)
Lemma cbs_add_log s e : cbs (add_log s e) = (if is_cb e then 1 else 0) + cbs s.
Proof. reflexivity. Qed.
Lemma starts_add_log s e : starts (add_log s e) = (if is_st e then 1 else 0) + starts s.
Proof. reflexivity. Qed.

Definition neutral (e : lev) : Prop := is_cb e = false /\ is_st e = false.

Lemma pot_add_log_neutral s e items : neutral e -> pot (add_log s e) items = pot s items.
Proof. intros [A B]. unfold pot. rewrite cbs_add_log, starts_add_log, A, B. reflexivity. Qed.

Lemma side_add_log s e : side s -> side (add_log s e).
Proof. intros H; exact H. Qed.

Lemma schedule_keep s i o w p wr : keep s (fst (schedule s i o w p wr)).
Proof.
  unfold schedule. cbv zeta. destruct (o_closed o); [apply keep_set_obj|].
  destruct (if w then o_evW o else o_evR o); [apply keep_set_obj|].
  destruct (ctl_ok o); [eapply keep_trans; [apply keep_set_obj|apply keep_set_pending]|apply keep_set_obj].
Qed.

Lemma io_now_keep fuel : forall s i w p wr, keep s (fst (io_now fuel s i w p wr)).
Proof.
  induction fuel as [|f IH]; intros s i w p wr; cbn [io_now]; [unfold keep; cbn; auto|].
  destruct (lookup i (l_objs s)) as [o|]; [|apply keep_refl].
  destruct (if w then sys_write o (op_len p - op_sofar p) else sys_read o (op_len p - op_sofar p)) as [o1 r].
  destruct r; try apply keep_set_obj.
  - destruct (op_all p && negb (op_sofar p + n =? op_len p) && negb (is_pkt o)); [|apply keep_set_obj].
    eapply keep_trans; [apply keep_set_obj|apply IH].
  - apply schedule_keep.
Qed.

(* ---- actions *)
Lemma do_action_pot s a :
  side s -> act_ok a ->
  side (fst (do_action s a)) /\ Forall item_ok (snd (do_action s a)) /\
  (l_overlap (fst (do_action s a)) = false ->
   l_overlap s = false /\ pot s [] <= pot (fst (do_action s a)) (snd (do_action s a))).
Proof.
  intros Hs Ha. destruct a; cbn [do_action act_ok] in *.
  - (* AStart *)
    destruct (lookup o (l_objs s)) as [ob|] eqn:Hl; [|cbn; split; [exact Hs|]; split; [constructor|]; intros H; split; [exact H|lia]].
    set (p := mkop cb all len 0 false).
    set (o0 := if write then with_wr ob (Some p) (o_evW ob) (o_reg ob) else with_rd ob (Some p) (o_evR ob) (o_reg ob)).
    set (b := if write then o_evW ob else o_evR ob).
    set (s0 := note_overlap (add_log s (LStart cb o write all len)) b).
    assert (K0 : l_tmrs s0 = l_tmrs s /\ l_posts s0 = l_posts s /\ l_progs s0 = l_progs s) by (cbn; auto).
    assert (Hs0 : side s0) by (destruct K0 as (A & B & C); destruct Hs as (S1 & S2 & S3); unfold side; rewrite A, B, C; auto).
    assert (Hl0 : lookup o (l_objs s0) = Some ob) by exact Hl.
    assert (Hst0 : starts s0 = hc p + starts s) by reflexivity.
    assert (Hcb0 : cbs s0 = cbs s) by reflexivity.
    assert (Hpd0 : pendc s0 = pendc s) by reflexivity.
    assert (Hov0 : l_overlap s0 = l_overlap s || b) by reflexivity.
    assert (Hpc0 : b = false -> pc o0 = pc ob /\ bit write o0 = false).
    { unfold b, o0, bit, pc. destruct write; intros E; cbn; rewrite E; auto. }
    clearbody s0.
    destruct (l_disp s0 <? sonic_MaxCallbackDispatch).
    + pose proof (io_now_plain 64 (set_obj s0 o o0) o write p true) as Hpl.
      pose proof (keep_trans _ _ _ (keep_set_obj s0 o o0) (io_now_keep 64 (set_obj s0 o o0) o write p true)) as K.
      split; [eapply side_keep; [exact K|exact Hs0]|].
      split; [apply plain_ok; exact Hpl|].
      intros Hov. destruct K as (K1 & K2 & _). rewrite K2, Hov0 in Hov. apply orb_false_iff in Hov. destruct Hov as [Hos Hb].
      split; [exact Hos|].
      destruct (Hpc0 Hb) as [Hpc Hb0].
      destruct (io_now_pot 64 (set_obj s0 o o0) o write p true) as [A _];
        [intros o' Ho'; rewrite lookup_set_obj in Ho'; inversion Ho'; subst; exact Hb0|].
      rewrite pendc_set_obj, Hl0 in A.
      unfold pot. unfold starts at 2, cbs at 2. rewrite K1.
      fold (starts s0) (cbs s0). cbn [stackc]. lia.
    + pose proof (schedule_plain s0 o o0 write p false) as Hpl.
      pose proof (schedule_keep s0 o o0 write p false) as K.
      split; [eapply side_keep; [exact K|exact Hs0]|]. split; [apply plain_ok; exact Hpl|].
      intros Hov. destruct K as (K1 & K2 & _). rewrite K2, Hov0 in Hov. apply orb_false_iff in Hov. destruct Hov as [Hos Hb].
      split; [exact Hos|].
      destruct (Hpc0 Hb) as [Hpc Hb0].
      destruct (schedule_pot s0 o ob o0 write p false Hl0 Hb0) as [A _].
      unfold pot. unfold starts at 2, cbs at 2. rewrite K1. fold (starts s0) (cbs s0). cbn [stackc]. lia.
  - (* ACancel *)
    destruct (lookup o (l_objs s)) as [ob|] eqn:Hl; [|cbn; split; [exact Hs|]; split; [constructor|]; intros H; split; [exact H|lia]].
    set (s0 := add_log s (LCancel o false)).
    assert (Hn : pot s0 [] = pot s []) by (apply pot_add_log_neutral; split; reflexivity).
    destruct (o_evR ob) eqn:E; cbn [fst snd].
    + destruct (del_interest s0 o ob false) as [s1 o1] eqn:Ed.
      destruct (del_interest_pot _ _ _ _ _ _ Ed) as (K & Ho & Hb & Hp & Hr).
      destruct (on_event_pot s1 o ob o1 false (if ctl_ok ob then xCancelled else xEPERM)) as [A B]; [rewrite Ho; exact Hl|exact Hb|].
      pose proof (on_event_plain s1 o o1 false (if ctl_ok ob then xCancelled else xEPERM)) as Hpl.
      pose proof (keep_trans _ _ _ K B) as (K1 & K2 & K3 & K4 & K5).
      split; [eapply side_keep; [exact (keep_trans _ _ _ K B)|exact Hs]|].
      split; [apply Forall_app; split; [apply plain_ok; exact Hpl|repeat constructor]|].
      intros Hov. rewrite K2 in Hov. split; [exact Hov|].
      unfold bit in Hp. rewrite E in Hp. unfold reactor in Hr, A. rewrite Hr in A.
      assert (Hps : pendc s1 = pendc s) by (unfold pendc; rewrite Ho; reflexivity).
      rewrite <- Hn. unfold pot. unfold starts at 2, cbs at 2. rewrite K1. fold (starts s0) (cbs s0).
      rewrite stackc_app. cbn [stackc]. change (pendc s0) with (pendc s). unfold reactor in Hp. lia.
    + split; [exact Hs|]. split; [repeat constructor|]. intros Hov. split; [exact Hov|]. cbn [app]. rewrite <- Hn. unfold pot. cbn [stackc]. lia.
  - (* AClose *)
    destruct (lookup o (l_objs s)) as [ob|] eqn:Hl; [|cbn; split; [exact Hs|]; split; [constructor|]; intros H; split; [exact H|lia]].
    destruct (o_closed ob); cbn [fst snd].
    { split; [exact Hs|]. split; [constructor|]. intros Hov. split; [exact Hov|]. rewrite pot_add_log_neutral by (split; reflexivity). lia. }
    destruct (del_interest s o ob false) as [s1 o1] eqn:E1.
    destruct (del_interest s1 o o1 true) as [s2 o2] eqn:E2.
    destruct (del_interest_pot _ _ _ _ _ _ E1) as (K1 & Ho1 & _).
    destruct (del_interest_pot _ _ _ _ _ _ E2) as (K2 & Ho2 & _).
    pose proof (keep_trans _ _ _ K1 K2) as K.
    cbn [fst snd].
    split; [destruct K as (A & B & C & D & F); destruct Hs as (S1 & S2 & S3); unfold side; cbn; rewrite C, D, F; auto|].
    split; [constructor|]. intros Hov. destruct K as (A & B & C & D & F). cbn in Hov. rewrite B in Hov. split; [exact Hov|].
    rewrite pot_add_log_neutral by (split; reflexivity).
    unfold pot. unfold starts at 2, cbs at 2. cbn [set_obj l_log]. rewrite A. fold (starts s) (cbs s).
    rewrite pendc_set_obj. rewrite Ho2, Ho1, Hl. unfold pc at 2; cbn. pose proof (pc_nonneg ob).
    assert (Hps : pendc s2 = pendc s) by (unfold pendc; rewrite Ho2, Ho1; reflexivity). lia.
  - (* ASched *)
    destruct (lookup t (l_tmrs s)) as [tm|] eqn:Hl; [|cbn; split; [exact Hs|]; split; [constructor|]; intros H; split; [exact H|lia]].
    destruct (rep && (ms <=? 0)).
    { cbn [fst snd]. split; [exact Hs|]. split; [constructor|]. intros Hov; split; [exact Hov|].
      rewrite pot_add_log_neutral by (split; reflexivity). lia. }
    destruct (t_state tm =? 0).
    2:{ cbn [fst snd]. split; [exact Hs|]. split; [constructor|]. intros Hov; split; [exact Hov|].
        rewrite pot_add_log_neutral by (split; reflexivity). lia. }
    pose proof (tm_lookup _ _ _ (proj1 Hs) Hl) as Htc.
    destruct (sched_once_side s t tm ms cb (if rep then ms else 0) Hs Ha Htc) as (A & B & C & (D1 & D2 & D3 & D4)).
    destruct (sched_once s t tm ms cb (if rep then ms else 0)) as [s1 items]. cbn [fst snd] in *.
    split; [exact A|]. split; [apply Forall_app; split; [exact C|repeat constructor]|].
    intros Hov. rewrite D2 in Hov. split; [exact Hov|].
    unfold pot, starts, cbs, pendc. rewrite D1, D3, stackc_app, B. cbn [stackc]. lia.
  - (* ATCancel *)
    destruct (lookup t (l_tmrs s)) as [tm|] eqn:Hl; [|cbn; split; [exact Hs|]; split; [constructor|]; intros H; split; [exact H|lia]].
    destruct (timer_unset s t tm) as [s1 t1] eqn:Eu.
    destruct (timer_unset_keep _ _ _ _ _ Eu) as ((K1 & K2 & K3 & K4 & K5) & Ko & Kc).
    pose proof (tm_lookup _ _ _ (proj1 Hs) Hl) as Htc.
    cbn [fst snd]. destruct Hs as (S1 & S2 & S3).
    split; [unfold side; cbn; rewrite K3, K4, K5; split; [apply tm_update; [exact S1|cbn; congruence]|auto]|].
    split; [constructor|]. intros Hov. cbn in Hov. rewrite K2 in Hov. split; [exact Hov|].
    rewrite pot_add_log_neutral by (split; reflexivity).
    unfold pot, starts, cbs, pendc. cbn. rewrite K1, Ko. lia.
  - (* ATClose *)
    destruct (lookup t (l_tmrs s)) as [tm|] eqn:Hl; [|cbn; split; [exact Hs|]; split; [constructor|]; intros H; split; [exact H|lia]].
    destruct (t_state tm =? 2).
    { cbn [fst snd]. split; [exact Hs|]. split; [constructor|]. intros Hov; split; [exact Hov|].
      rewrite pot_add_log_neutral by (split; reflexivity). lia. }
    destruct (timer_unset s t tm) as [s1 t1] eqn:Eu.
    destruct (timer_unset_keep _ _ _ _ _ Eu) as ((K1 & K2 & K3 & K4 & K5) & Ko & Kc).
    pose proof (tm_lookup _ _ _ (proj1 Hs) Hl) as Htc.
    cbn [fst snd]. destruct Hs as (S1 & S2 & S3).
    split; [unfold side; cbn; rewrite K3, K4, K5; split; [apply tm_update; [exact S1|cbn; congruence]|auto]|].
    split; [constructor|]. intros Hov. cbn in Hov. rewrite K2 in Hov. split; [exact Hov|].
    rewrite pot_add_log_neutral by (split; reflexivity).
    unfold pot, starts, cbs, pendc. cbn. rewrite K1, Ko. lia.
  - (* APost *)
    cbn [fst snd]. destruct Hs as (S1 & S2 & S3).
    split; [unfold side; cbn; split; [exact S1|]; split; [|exact S3]; intros Hin; apply in_app_or in Hin; destruct Hin as [Hin|[Hin|[]]]; [exact (S2 Hin)|exact (Ha Hin)]|].
    split; [constructor|]. intros Hov. split; [exact Hov|].
    rewrite pot_add_log_neutral by (split; reflexivity). unfold pot, starts, cbs, pendc. cbn. lia.
Qed.

(* ---- one entry of a poll batch *)
Lemma stackc_posts (l : list Z) : ~ In c l -> stackc (map (fun cb => IInvoke cb xNil 0 false) l) = 0.
Proof.
  induction l as [|x l IH]; intros H; cbn [map stackc]; [reflexivity|].
  assert (Hx : x <> c) by (intros ->; apply H; left; reflexivity).
  apply Z.eqb_neq in Hx. rewrite Hx. rewrite IH; [reflexivity|]. intros Hin; apply H; right; exact Hin.
Qed.

Lemma posts_items_ok (l : list Z) : Forall item_ok (map (fun cb => IInvoke cb xNil 0 false) l).
Proof. induction l as [|x l IH]; cbn [map]; [constructor|constructor; [exact I|exact IH]]. Qed.

Lemma poll_entry_pot s e :
  side s ->
  side (fst (poll_entry s e)) /\ Forall item_ok (snd (poll_entry s e)) /\
  l_overlap (fst (poll_entry s e)) = l_overlap s /\ pot s [] <= pot (fst (poll_entry s e)) (snd (poll_entry s e)).
Proof.
  intros Hs. destruct e as [[kind i] mask]. unfold poll_entry.
  destruct (kind =? 2).
  { cbn [fst snd]. destruct Hs as (S1 & S2 & S3).
    split; [unfold side; cbn; auto|]. split; [apply posts_items_ok|].
    split; [reflexivity|]. unfold pot, starts, cbs, pendc. cbn. rewrite (stackc_posts _ S2). lia. }
  destruct (kind =? 1).
  { destruct (lookup i (l_tmrs s)) as [t|] eqn:Hl; [|cbn; split; [exact Hs|]; split; [constructor|]; split; [reflexivity|lia]].
    destruct ((has mask mIN || has mask mHUP || has mask mERR) && t_evR t); [|cbn; split; [exact Hs|]; split; [constructor|]; split; [reflexivity|lia]].
    destruct (match t_due t with Some due => due <=? l_now s | None => false end); [|cbn; split; [exact Hs|]; split; [constructor|]; split; [reflexivity|lia]].
    cbn [fst snd]. pose proof (tm_lookup _ _ _ (proj1 Hs) Hl) as Htc. destruct Hs as (S1 & S2 & S3).
    split; [unfold side; cbn; split; [apply tm_update; [exact S1|exact Htc]|auto]|]. split; [repeat constructor|].
    split; [reflexivity|]. unfold pot, starts, cbs, pendc. cbn. lia. }
  destruct (lookup i (l_objs s)) as [o|] eqn:Hl; [|cbn; split; [exact Hs|]; split; [constructor|]; split; [reflexivity|lia]].
  assert (Hw : Forall item_ok (if has mask mOUT || (has mask mHUP || has mask mERR) then [IPollWrite i] else [])).
  { destruct (has mask mOUT || _); repeat constructor. }
  assert (Hw0 : stackc (if has mask mOUT || (has mask mHUP || has mask mERR) then [IPollWrite i] else []) = 0).
  { destruct (has mask mOUT || _); reflexivity. }
  cbn [fst snd].
  destruct ((has mask mIN || (has mask mHUP || has mask mERR)) && o_evR o) eqn:Eg.
  - apply andb_true_iff in Eg as [_ ER].
    destruct (del_interest s i o false) as [s1 o1] eqn:Ed.
    destruct (del_interest_pot _ _ _ _ _ _ Ed) as (K & Ho & Hb & Hp & Hr).
    destruct (on_event_pot s1 i o o1 false xNil) as [A B]; [rewrite Ho; exact Hl|exact Hb|].
    pose proof (on_event_plain s1 i o1 false xNil) as Hpl.
    pose proof (keep_trans _ _ _ K B) as (K1 & K2 & K3 & K4 & K5).
    cbn [fst snd].
    split; [eapply side_keep; [exact (keep_trans _ _ _ K B)|exact Hs]|].
    split; [apply Forall_app; split; [apply plain_ok; exact Hpl|exact Hw]|].
    split; [exact K2|].
    unfold bit in Hp. rewrite ER in Hp. unfold reactor in Hr, A, Hp. rewrite Hr in A.
    assert (Hps : pendc s1 = pendc s) by (unfold pendc; rewrite Ho; reflexivity).
    unfold pot. unfold starts at 2, cbs at 2. rewrite K1. fold (starts s) (cbs s).
    rewrite stackc_app, Hw0. cbn [stackc]. lia.
  - cbn [fst snd app]. split; [exact Hs|]. split; [exact Hw|]. split; [reflexivity|]. unfold pot. rewrite Hw0. cbn [stackc]. lia.
Qed.

(* ---- the invariant of the work-list machine *)
Definition oinv (s : loop) (stk : list item) : Prop :=
  side s /\ Forall item_ok stk /\ (l_overlap s = false -> 0 <= pot s stk).

Definition final (s : loop) : Prop := side s /\ (l_overlap s = false -> cbs s + pendc s <= starts s).

Lemma oinv_final s stk : oinv s stk -> final s.
Proof. intros (A & _ & B). split; [exact A|]. intros H. specialize (B H). unfold pot in B. pose proof (stackc_nonneg stk). lia. Qed.

Lemma pot_cons it rest s : pot s (it :: rest) = pot s [it] - stackc rest.
Proof. unfold pot. change (it :: rest) with ([it] ++ rest). rewrite stackc_app. lia. Qed.
Lemma pot_app items rest s : pot s (items ++ rest) = pot s items - stackc rest.
Proof. unfold pot. rewrite stackc_app. lia. Qed.

Theorem exec_once fuel : forall s stk, oinv s stk -> final (exec fuel s stk).
Proof.
  induction fuel as [|f IH]; intros s stk Hinv.
  - cbn [exec]. destruct stk; [exact (oinv_final _ _ Hinv)|]. apply (oinv_final (out_of_fuel s) (i :: stk)). exact Hinv.
  - destruct stk as [|it rest]; [cbn [exec]; exact (oinv_final _ _ Hinv)|].
    destruct Hinv as (Hs & Hok & Hpot). inversion Hok as [|? ? Hit Hrest]; subst.
    (* generic continuation: the step produced (s1, items) *)
    assert (Hstep : forall s1 items,
              side s1 -> Forall item_ok items ->
              (l_overlap s1 = false -> l_overlap s = false /\ pot s [it] <= pot s1 items) ->
              final (exec f s1 (items ++ rest))).
    { intros s1 items H1 H2 H3. apply IH. split; [exact H1|]. split; [apply Forall_app; split; assumption|].
      intros Hov. destruct (H3 Hov) as [Hov0 Hle]. specialize (Hpot Hov0). rewrite pot_cons in Hpot. rewrite pot_app. lia. }
    assert (Hpot0 : forall x, match x with IInvoke _ _ _ _ => False | _ => True end -> pot s [x] = pot s []).
    { intros x Hx. unfold pot. destruct x; try contradiction; reflexivity. }
    destruct it; cbn [exec].
    + (* IAct *)
      destruct (do_action_pot s a Hs Hit) as (A & B & C).
      destruct (do_action s a) as [s1 items]. cbn [fst snd] in *.
      apply Hstep; [exact A|exact B|]. intros Hov. destruct (C Hov) as [C1 C2]. split; [exact C1|]. rewrite Hpot0 by exact I. exact C2.
    + (* IInvoke *)
      set (d := l_depth s + 1).
      match goal with |- final (exec f ?s3 (?acts ++ IEnd wrapped :: rest)) => set (s' := s3); set (items := acts) end.
      change (items ++ IEnd wrapped :: rest) with (items ++ [IEnd wrapped] ++ rest). rewrite app_assoc.
      assert (Hs' : side s') by (unfold s'; destruct wrapped; exact Hs).
      assert (Hitems : Forall item_ok items /\ stackc items = 0).
      { unfold items. destruct (0 <? _); [|split; [constructor|reflexivity]].
        split; [|apply stackc_acts].
        assert (Hp : forall sx, l_progs sx = l_progs s -> Forall item_ok (map IAct (prog_of sx cb))).
        { intros sx Hx. apply prog_of_ok. rewrite Hx. exact (proj2 (proj2 Hs)). }
        apply Hp. destruct wrapped; reflexivity. }
      destruct Hitems as [Hi1 Hi2].
      apply Hstep; [exact Hs'|apply Forall_app; split; [exact Hi1|repeat constructor]|].
      intros Hov. assert (Hov0 : l_overlap s = false) by (unfold s' in Hov; destruct wrapped; exact Hov).
      split; [exact Hov0|].
      assert (Hl : l_log s' = LCb cb err n d :: l_log s /\ l_objs s' = l_objs s) by (unfold s'; destruct wrapped; split; reflexivity).
      destruct Hl as [Hl1 Hl2].
      unfold pot, starts, cbs, pendc. rewrite Hl1, Hl2, stackc_app, Hi2. cbn [cntl is_cb is_st stackc]. lia.
    + (* IEnd *)
      apply (Hstep _ []); [destruct wrapped; exact Hs|constructor|].
      intros Hov. split; [destruct wrapped; exact Hov|]. destruct wrapped; unfold pot, starts, cbs, pendc; cbn; lia.
    + (* ITimerFired *)
      destruct (lookup t (l_tmrs s)) as [tm|] eqn:Hl.
      * pose proof (tm_lookup _ _ _ (proj1 Hs) Hl) as Htc.
        change (IInvoke (t_cb tm) xNil 0 false :: (if 0 <? t_rep tm then [ITimerAfter t] else []) ++ rest)
          with ((IInvoke (t_cb tm) xNil 0 false :: (if 0 <? t_rep tm then [ITimerAfter t] else [])) ++ rest).
        destruct Hs as (S1 & S2 & S3).
        apply Hstep; [unfold side; cbn; split; [apply tm_update; [exact S1|exact Htc]|auto]|constructor; [exact I|destruct (0 <? t_rep tm); repeat constructor]|].
        intros Hov. split; [exact Hov|]. unfold pot, starts, cbs, pendc. cbn [set_tmr l_log l_objs stackc].
        apply Z.eqb_neq in Htc. rewrite Htc. destruct (0 <? t_rep tm); cbn [stackc]; lia.
      * apply (Hstep s []); [exact Hs|constructor|]. intros Hov; split; [exact Hov|]. unfold pot; cbn [stackc]; lia.
    + (* ITimerAfter *)
      destruct (lookup t (l_tmrs s)) as [tm|] eqn:Hl.
      * pose proof (tm_lookup _ _ _ (proj1 Hs) Hl) as Htc.
        destruct (t_cancelled tm).
        -- destruct Hs as (S1 & S2 & S3).
           apply (Hstep _ []); [unfold side; cbn; split; [apply tm_update; [exact S1|exact Htc]|auto]|constructor|].
           intros Hov; split; [exact Hov|]. unfold pot, starts, cbs, pendc; cbn; lia.
        -- destruct (sched_once_side s t tm (t_rep tm) (t_cb tm) (t_rep tm) Hs Htc Htc) as (A & B & C & (D1 & D2 & D3 & D4)).
           destruct (sched_once s t tm (t_rep tm) (t_cb tm) (t_rep tm)) as [s1 items]. cbn [fst snd] in *.
           apply Hstep; [exact A|exact C|]. intros Hov. rewrite D2 in Hov. split; [exact Hov|].
           unfold pot, starts, cbs, pendc. rewrite D1, D3, B. cbn [stackc]. lia.
      * apply (Hstep s []); [exact Hs|constructor|]. intros Hov; split; [exact Hov|]. unfold pot; cbn [stackc]; lia.
    + (* ICancelWrites *)
      destruct (write_event_pot s i xCancelled) as [A K]. pose proof (write_event_plain s i xCancelled) as Hpl.
      destruct (write_event s i xCancelled) as [s1 items]. cbn [fst snd] in *.
      change (items ++ ICancelEnd i :: rest) with (items ++ [ICancelEnd i] ++ rest). rewrite app_assoc.
      apply Hstep; [eapply side_keep; [exact K|exact Hs]|apply Forall_app; split; [apply plain_ok; exact Hpl|repeat constructor]|].
      intros Hov. destruct K as (K1 & K2 & _). rewrite K2 in Hov. split; [exact Hov|].
      unfold pot. unfold starts at 2, cbs at 2. rewrite K1. fold (starts s) (cbs s). rewrite stackc_app. cbn [stackc]. lia.
    + (* ICancelEnd *)
      apply (Hstep _ []); [exact Hs|constructor|]. intros Hov; split; [exact Hov|].
      rewrite pot_add_log_neutral by (split; reflexivity). unfold pot; cbn [stackc]; lia.
    + (* ILog *)
      apply (Hstep _ []); [exact Hs|constructor|]. intros Hov; split; [exact Hov|].
      rewrite pot_add_log_neutral by exact Hit. unfold pot; cbn [stackc]; lia.
    + (* IPollWrite *)
      destruct (write_event_pot s i xNil) as [A K]. pose proof (write_event_plain s i xNil) as Hpl.
      destruct (write_event s i xNil) as [s1 items]. cbn [fst snd] in *.
      apply Hstep; [eapply side_keep; [exact K|exact Hs]|apply plain_ok; exact Hpl|].
      intros Hov. destruct K as (K1 & K2 & _). rewrite K2 in Hov. split; [exact Hov|].
      unfold pot. unfold starts at 2, cbs at 2. rewrite K1. fold (starts s) (cbs s). cbn [stackc]. lia.
    + (* IPollEntry *)
      destruct (poll_entry_pot s e Hs) as (A & B & C & D).
      destruct (poll_entry s e) as [s1 items]. cbn [fst snd] in *.
      apply Hstep; [exact A|exact B|]. intros Hov. rewrite C in Hov. split; [exact Hov|]. rewrite Hpot0 by exact I. exact D.
Qed.

(* ---- whole scripts *)
Definition lop_ok (o : lop) : Prop :=
  match o with LProg _ acts => Forall act_ok acts | LAct a => act_ok a | _ => True end.

Lemma stackc_entries (l : list (Z * Z * Z)) : stackc (map IPollEntry l) = 0.
Proof. induction l; cbn; auto. Qed.
Lemma entries_ok (l : list (Z * Z * Z)) : Forall item_ok (map IPollEntry l).
Proof. induction l as [|x l IH]; cbn [map]; [constructor|constructor; [exact I|exact IH]]. Qed.

Lemma pendc_nonneg s : 0 <= pendc s.
Proof. unfold pendc. induction (l_objs s) as [|[k o] r IH]; cbn [sumf]; [lia|]. pose proof (pc_nonneg o). lia. Qed.

Lemma lstep_final s o : lop_ok o -> final s -> final (lstep s o).
Proof.
  intros Hok [Hs Hle]. unfold lstep.
  set (s1 := mkloop (l_pending s) (l_disp s) (l_posts s) (l_objs s) (l_tmrs s) (l_progs s) (l_now s) (l_depth s) (l_log s) (l_fuel_out s) 300 (l_overlap s)).
  assert (Hs1 : side s1) by exact Hs.
  assert (Hle1 : l_overlap s1 = false -> cbs s1 + pendc s1 <= starts s1) by exact Hle.
  clearbody s1. clear Hs Hle s.
  destruct o; cbn [lop_ok] in Hok.
  - (* LObj *)
    split; [exact Hs1|]. intros Hov. specialize (Hle1 Hov).
    change (cbs (set_obj s1 i (new_obj k))) with (cbs s1). change (starts (set_obj s1 i (new_obj k))) with (starts s1).
    rewrite pendc_set_obj. assert (Hn : pc (new_obj k) = 0) by reflexivity. rewrite Hn.
    destruct (lookup i (l_objs s1)) as [o|]; [pose proof (pc_nonneg o)|]; lia.
  - (* LTimer *)
    destruct Hs1 as (S1 & S2 & S3).
    split; [unfold side; cbn; split; [apply tm_update; [exact S1|cbn; intros E; apply c_nonzero; symmetry; exact E]|auto]|exact Hle1].
  - (* LProg *)
    destruct Hs1 as (S1 & S2 & S3).
    split; [unfold side; cbn; split; [exact S1|]; split; [exact S2|apply progs_update_ok; assumption]|exact Hle1].
  - (* LDepth *) split; [exact Hs1|exact Hle1].
  - (* LPeer *)
    destruct (lookup i (l_objs s1)) as [o|] eqn:Hl; [|split; [exact Hs1|exact Hle1]].
    split; [exact Hs1|]. intros Hov. specialize (Hle1 Hov).
    match goal with |- cbs (set_obj s1 i ?o') + _ <= _ => set (o2 := o') end.
    change (cbs (set_obj s1 i o2)) with (cbs s1). change (starts (set_obj s1 i o2)) with (starts s1).
    rewrite pendc_set_obj, Hl.
    assert (Hpc : pc o2 = pc o) by (unfold o2; destruct p; try reflexivity; destruct (o_kind o); reflexivity).
    lia.
  - (* LSleep *) split; [exact Hs1|exact Hle1].
  - (* LPoll *)
    apply exec_once. split; [exact Hs1|]. split; [apply entries_ok|].
    intros Hov. specialize (Hle1 Hov). unfold pot. rewrite stackc_entries. lia.
  - (* LAct *)
    apply exec_once. split; [exact Hs1|]. split; [constructor; [exact Hok|constructor]|].
    intros Hov. specialize (Hle1 Hov). unfold pot. cbn [stackc]. lia.
Qed.

Lemma final_init : final loop_init.
Proof. split; [unfold side; cbn; repeat split; auto; constructor|]. intros _. cbn. lia. Qed.

Theorem lrun_final ops : forall s, Forall lop_ok ops -> final s -> final (lrun s ops).
Proof.
  induction ops as [|o r IH]; intros s Hok Hf; cbn [lrun]; [exact Hf|].
  inversion Hok; subst. apply IH; [assumption|]. apply lstep_final; assumption.
Qed.

(* Over every script and every poll batch: unless the script itself starts an operation on a direction that still has one
   in flight, the callbacks run for operations started with identifier c never outnumber those operations. *)
Theorem completions_never_exceed_starts ops :
  Forall lop_ok ops ->
  let s := lrun loop_init ops in
  l_overlap s = false -> cbs s + pendc s <= starts s /\ cbs s <= starts s.
Proof.
  intros Hok s Hov. destruct (lrun_final ops loop_init Hok final_init) as [_ H]. fold s in H. specialize (H Hov).
  pose proof (pendc_nonneg s). lia.
Qed.
End Once.
