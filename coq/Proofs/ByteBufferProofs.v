(* C09: the ByteBuffer model refines the three-FIFO specification, for every operation and every integer argument. *)
From Coq Require Import ZifyBool.
From Sonic Require Import Base.Prelude Base.ListLemmas Model.ByteBuffer Spec.ThreeFifo.
Local Open Scope Z_scope.
Local Arguments Z.mul : simpl never.
Local Arguments Z.add : simpl never.
Local Arguments Z.sub : simpl never.
Local Arguments Z.modulo : simpl never.
Local Arguments Z.min : simpl never.
Local Arguments Z.max : simpl never.

Definition binv (s : bb) : Prop :=
  0 <= si s <= ri s /\ ri s <= wi s /\ wi s = zlen (bmem s) /\ wi s <= bcap s /\ bcap s < two63.

Definition abs (s : bb) : tf := mktf (saved_of s) (readable_of s) (pending_of s) (bcap s - wi s).

(* the environment never reports less capacity than append guarantees *)
Definition env_ok (s : bb) (o : bbop) : Prop :=
  match o with
  | OReserve n newcap => - two63 <= n - (bcap s - wi s) < two63 /\ Z.max (bcap s) (wi s + n) <= newcap < two63
  | OWrite w newcap => wi s + zlen w <= newcap < two63
  | OClaim w n | OClaimFixed n w => is_int64 n /\ (0 <= n <= bcap s - wi s -> n <= zlen w)
  | OReadFrom _ n _ | OAsyncWriteTo n _ | OCommit n | OConsume n | OSave n
  | OShrinkBy n | OShrinkTo n | OPrepareRead n | ORead n => is_int64 n
  | OSavedSlot i l | ODiscard i l => is_int64 i /\ is_int64 l
  | _ => True
  end.

Lemma wrap64_id z : - two63 <= z < two63 -> wrap64 z = z.
Proof. intros H. unfold wrap64. rewrite Z.mod_small by (unfold two63 in *; lia). lia. Qed.

(* ---------------------------------------------------------------- list facts *)

Lemma ztake_app_exact {A} (a x : list A) : ztake (zlen a) (a ++ x) = a.
Proof. rewrite ztake_app_l by lia. apply ztake_all. lia. Qed.

Lemma zdrop_app_exact {A} (a x : list A) k : 0 <= k -> zdrop (zlen a + k) (a ++ x) = zdrop k x.
Proof. intros Hk. rewrite zdrop_app_r by lia. f_equal. lia. Qed.

Lemma zlen_nil {A} : zlen (@nil A) = 0.
Proof. reflexivity. Qed.

Lemma zlen_zero_nil {A} (l : list A) : zlen l = 0 -> l = [].
Proof. destruct l; [reflexivity|]. unfold zlen; cbn; lia. Qed.

Lemma zdrop_app_len {A} (a x : list A) : zdrop (zlen a) (a ++ x) = x.
Proof. rewrite zdrop_app_r by lia. replace (zlen a - zlen a) with 0 by lia. apply zdrop_nonpos. lia. Qed.

Lemma zsub_app3 {A} (a b c : list A) :
  zsub 0 (zlen a) (a ++ b ++ c) = a /\
  zsub (zlen a) (zlen a + zlen b) (a ++ b ++ c) = b /\
  zsub (zlen a + zlen b) (zlen a + zlen b + zlen c) (a ++ b ++ c) = c.
Proof.
  pose proof (zlen_nonneg a). pose proof (zlen_nonneg b). pose proof (zlen_nonneg c).
  unfold zsub. repeat split.
  - rewrite zdrop_nonpos by lia. replace (zlen a - 0) with (zlen a) by lia. apply ztake_app_exact.
  - rewrite zdrop_app_len.
    replace (zlen a + zlen b - zlen a) with (zlen b) by lia. apply ztake_app_exact.
  - rewrite <- zlen_app. rewrite app_assoc. rewrite zdrop_app_len.
    apply ztake_all. rewrite zlen_app. lia.
Qed.

Lemma regions s : binv s ->
  bmem s = saved_of s ++ readable_of s ++ pending_of s /\
  zlen (saved_of s) = si s /\ zlen (readable_of s) = ri s - si s /\ zlen (pending_of s) = wi s - ri s.
Proof.
  unfold binv, saved_of, readable_of, pending_of. intros (H1 & H2 & H3 & H4 & H5).
  repeat split.
  - rewrite <- (zsub_split (si s) (wi s) (ri s)) by lia.
    rewrite <- (zsub_split 0 (wi s) (si s)) by lia.
    symmetry. apply zsub_full. exact H3.
  - rewrite zlen_zsub; lia.
  - rewrite zlen_zsub; lia.
  - rewrite zlen_zsub; lia.
Qed.

(* a state whose memory is a ++ b ++ c with the indices at the boundaries has exactly these regions *)
Lemma abs_of_app a b c cap ob :
  cap < two63 -> zlen a + zlen b + zlen c <= cap ->
  let s := mkbb (zlen a) (zlen a + zlen b) (zlen a + zlen b + zlen c) cap (a ++ b ++ c) ob in
  binv s /\ abs s = mktf a b c (cap - (zlen a + zlen b + zlen c)).
Proof.
  intros Hc Hl s. pose proof (zlen_nonneg a). pose proof (zlen_nonneg b). pose proof (zlen_nonneg c).
  destruct (zsub_app3 a b c) as (E1 & E2 & E3).
  split.
  - unfold binv, s; cbn. rewrite !zlen_app. lia.
  - unfold abs, saved_of, readable_of, pending_of, s; cbn. rewrite E1, E2, E3. reflexivity.
Qed.

(* the general form used by every case: new indices given as equations *)
Lemma abs_eq a b c s :
  bmem s = a ++ b ++ c -> si s = zlen a -> ri s = zlen a + zlen b -> wi s = zlen a + zlen b + zlen c ->
  wi s <= bcap s -> bcap s < two63 ->
  binv s /\ abs s = mktf a b c (bcap s - wi s).
Proof.
  intros Hm H1 H2 H3 H4 H5. destruct s as [i r w cp m ob]; cbn in *. subst.
  apply (abs_of_app a b c cp ob); lia.
Qed.

Lemma list_eqb_refl l : list_eqb l l = true.
Proof.
  unfold list_eqb. rewrite Nat.eqb_refl. cbn.
  induction l as [|x l IH]; cbn; [reflexivity|]. rewrite Z.eqb_refl. exact IH.
Qed.

Lemma clamp_spec n lo hi : lo <= hi -> clamp n lo hi = (if n <=? lo then lo else if n >? hi then hi else n).
Proof. unfold clamp. intros H. destruct (n <=? lo) eqn:?, (n >? hi) eqn:?; lia. Qed.

(* ---------------------------------------------------------------- normal form *)

Definition nf (a b c : list Z) (cap ob : Z) : bb :=
  mkbb (zlen a) (zlen a + zlen b) (zlen a + zlen b + zlen c) cap (a ++ b ++ c) ob.

Lemma normal_form s : binv s ->
  exists a b c, s = nf a b c (bcap s) (oneb s) /\ zlen a + zlen b + zlen c <= bcap s /\ bcap s < two63.
Proof.
  intros Hi. destruct (regions s Hi) as (Hm & Ha & Hb & Hc).
  exists (saved_of s), (readable_of s), (pending_of s).
  unfold binv in Hi. destruct s as [i r w cp m ob]; cbn in *.
  unfold nf. rewrite Ha, Hb, Hc. rewrite <- Hm.
  split; [f_equal; lia|lia].
Qed.

Lemma nf_abs a b c cap ob :
  zlen a + zlen b + zlen c <= cap -> cap < two63 ->
  binv (nf a b c cap ob) /\ abs (nf a b c cap ob) = mktf a b c (cap - (zlen a + zlen b + zlen c)).
Proof. intros H1 H2. apply abs_of_app; assumption. Qed.

Lemma zlen_zdrop' {A} k (l : list A) : 0 <= k <= zlen l -> zlen (zdrop k l) = zlen l - k.
Proof. apply zlen_zdrop. Qed.

Ltac lens := pose proof (zlen_nonneg (A:=Z)) as Hlen_nonneg.

Lemma consume_nf a b c cap ob n :
  let k := clamp n 0 (zlen b) in
  consume (nf a b c cap ob) n = nf a (zdrop k b) c cap ob.
Proof.
  intros k. pose proof (zlen_nonneg a). pose proof (zlen_nonneg b). pose proof (zlen_nonneg c).
  unfold consume, readLen, nf, setmem, remove_range; cbn [si ri wi bcap bmem oneb].
  unfold k. rewrite clamp_spec by lia.
  destruct (n <=? 0) eqn:E0.
  - rewrite zdrop_nonpos by lia. reflexivity.
  - replace (zlen a + zlen b - zlen a) with (zlen b) by lia.
    destruct (n >? zlen b) eqn:E1.
    + destruct (zlen b >? 0) eqn:E2.
      * rewrite ztake_app_exact. rewrite zdrop_app_exact by lia.
        rewrite zdrop_app_l by lia. rewrite zlen_zdrop by lia. f_equal; lia.
      * assert (b = []) as -> by (apply zlen_zero_nil; lia). rewrite zdrop_all by (rewrite (@zlen_nil Z); lia). reflexivity.
    + assert (n >? 0 = true) as -> by lia.
      rewrite ztake_app_exact. rewrite zdrop_app_exact by lia.
      rewrite zdrop_app_l by lia. rewrite zlen_zdrop by lia. f_equal; lia.
Qed.

Lemma commit_nf a b c cap ob n :
  let k := clamp n 0 (zlen c) in
  commit (nf a b c cap ob) n = nf a (b ++ ztake k c) (zdrop k c) cap ob.
Proof.
  intros k. pose proof (zlen_nonneg a). pose proof (zlen_nonneg b). pose proof (zlen_nonneg c).
  unfold commit, nf, setmem; cbn [si ri wi bcap bmem oneb].
  unfold k. rewrite clamp_spec by lia.
  destruct (n <=? 0) eqn:E0.
  - rewrite ztake_nonpos by lia. rewrite zdrop_nonpos by lia. rewrite app_nil_r. reflexivity.
  - replace (zlen a + zlen b + zlen c - (zlen a + zlen b)) with (zlen c) by lia.
    destruct (n >? zlen c) eqn:E1.
    + rewrite ztake_all by lia. rewrite zdrop_all by lia. rewrite zlen_app, zlen_nil, app_nil_r. f_equal; lia.
    + rewrite zlen_app, zlen_ztake, zlen_zdrop by lia.
      rewrite <- app_assoc. rewrite ztake_zdrop_split. f_equal; lia.
Qed.

Lemma shrinkBy_nf a b c cap ob n :
  let k := clamp n 0 (zlen c) in
  shrinkBy (nf a b c cap ob) n = (nf a b (ztake (zlen c - k) c) cap ob, k).
Proof.
  intros k. pose proof (zlen_nonneg a). pose proof (zlen_nonneg b). pose proof (zlen_nonneg c).
  unfold shrinkBy, writeLen, nf, setmem; cbn [si ri wi bcap bmem oneb].
  unfold k. rewrite clamp_spec by lia.
  destruct (n <=? 0) eqn:E0.
  - rewrite ztake_all by lia. reflexivity.
  - replace (zlen a + zlen b + zlen c - (zlen a + zlen b)) with (zlen c) by lia.
    assert (Hgen : forall m, 0 <= m <= zlen c ->
      ztake (zlen a + zlen b + zlen c - m) (a ++ b ++ c) = a ++ b ++ ztake (zlen c - m) c).
    { intros m Hm. rewrite ztake_app_r by lia. f_equal. rewrite ztake_app_r by lia. f_equal. f_equal. lia. }
    destruct (n >? zlen c) eqn:E1.
    + rewrite Hgen by lia. rewrite zlen_ztake by lia. f_equal. f_equal; lia.
    + rewrite Hgen by lia. rewrite zlen_ztake by lia. f_equal. f_equal; lia.
Qed.

(* ---------------------------------------------------------------- refinement, operation by operation *)

Definition refines_at (s : bb) (o : bbop) : Prop :=
  forall s' r, bbstep s o = Ok (s', r) ->
    binv s' /\ exists t' want, tfstep (abs s) o (bcap s' - wi s') = (t', want) /\ abs s' = t' /\ ret_ok want r = true.

Ltac inv_ok := repeat match goal with
  | H : Ok _ = Ok _ |- _ => inversion H; subst; clear H
  | H : Panic = Ok _ |- _ => discriminate H
  | H : (_, _) = (_, _) |- _ => inversion H; subst; clear H
  end.

Ltac zl := repeat match goal with
  | |- context [zlen (?x ++ ?y)] => rewrite (zlen_app x y)
  | |- context [zlen (@nil _)] => rewrite (@zlen_nil Z)
  end.

(* finish: the new state is a normal form with the expected regions *)
Ltac fin a' b' c' cap' ob' :=
  let H := fresh in
  assert (H : binv (nf a' b' c' cap' ob') /\ abs (nf a' b' c' cap' ob') = mktf a' b' c' (cap' - (zlen a' + zlen b' + zlen c')));
  [apply nf_abs; zl; rewrite ?zlen_ztake, ?zlen_zdrop by lia; lia|].

Ltac close a' b' c' cap' ob' :=
  let Hi := fresh "Hi" in let Hab := fresh "Hab" in
  destruct (nf_abs a' b' c' cap' ob') as [Hi Hab];
  [zl; rewrite ?zlen_ztake, ?zlen_zdrop by lia; lia | lia |];
  split; [exact Hi|]; eexists _, _; split; [reflexivity|]; cbn [t_saved t_read t_pend t_room];
  split; [rewrite Hab; f_equal; cbn [bcap wi nf]; zl; rewrite ?zlen_ztake, ?zlen_zdrop by lia; try lia | ].

Section Ops.
Variables (a b c : list Z) (cap ob : Z).
Hypothesis Hcap : zlen a + zlen b + zlen c <= cap.
Hypothesis Hc63 : cap < two63.
Let s := nf a b c cap ob.
Let la := zlen_nonneg a.
Let lb := zlen_nonneg b.
Let lc := zlen_nonneg c.

Lemma abs_s : binv s /\ abs s = mktf a b c (cap - (zlen a + zlen b + zlen c)).
Proof. apply nf_abs; assumption. Qed.

Lemma ref_commit n : refines_at s (OCommit n).
Proof.
  intros s' r H. cbn [bbstep] in H. inv_ok. unfold s. rewrite commit_nf.
  destruct abs_s as [_ Ha]. fold s. rewrite Ha.
  pose proof la; pose proof lb; pose proof lc.
  set (k := clamp n 0 (zlen c)). assert (0 <= k <= zlen c) by (unfold k, clamp; lia).
  destruct (nf_abs a (b ++ ztake k c) (zdrop k c) cap ob) as [Hi Hab];
    [rewrite zlen_app, zlen_ztake, zlen_zdrop by lia; lia|assumption|].
  split; [exact Hi|]. eexists _, _. split; [reflexivity|]. cbn [t_saved t_read t_pend t_room].
  split; [|reflexivity]. rewrite Hab. fold k. f_equal.
  cbn [bcap wi nf]. rewrite zlen_app, zlen_ztake, zlen_zdrop by lia. lia.
Qed.

Lemma ref_consume n : refines_at s (OConsume n).
Proof.
  intros s' r H. cbn [bbstep] in H. inv_ok. unfold s. rewrite consume_nf.
  destruct abs_s as [_ Ha]. fold s. rewrite Ha.
  pose proof la; pose proof lb; pose proof lc.
  set (k := clamp n 0 (zlen b)). assert (0 <= k <= zlen b) by (unfold k, clamp; lia).
  destruct (nf_abs a (zdrop k b) c cap ob) as [Hi Hab]; [rewrite zlen_zdrop by lia; lia|assumption|].
  split; [exact Hi|]. eexists _, _. split; [reflexivity|]. cbn [t_saved t_read t_pend t_room].
  split; [|reflexivity]. rewrite Hab. fold k. f_equal. rewrite zlen_zdrop by lia. lia.
Qed.

Lemma zsub_app_l {A} i j (x y : list A) : 0 <= i -> j <= zlen x -> zsub i j (x ++ y) = zsub i j x.
Proof.
  intros Hi Hj. destruct (Z_le_gt_dec j i); [rewrite !zsub_empty by lia; reflexivity|].
  unfold zsub. rewrite zdrop_app_l by lia. rewrite ztake_app_l; [reflexivity|].
  rewrite zlen_zdrop by lia. lia.
Qed.

Lemma zsub_mid {A} n (x y z : list A) : 0 <= n <= zlen y -> zsub (zlen x) (zlen x + n) (x ++ y ++ z) = ztake n y.
Proof.
  intros Hn. unfold zsub. rewrite zdrop_app_len. replace (zlen x + n - zlen x) with n by lia.
  apply ztake_app_l. lia.
Qed.

Lemma ref_observe : refines_at s OObserve.
Proof.
  intros s' r H. cbn [bbstep] in H. inv_ok. destruct abs_s as [Hi Ha]. split; [exact Hi|].
  eexists _, _. split; [reflexivity|]. split; [|reflexivity]. rewrite Ha. reflexivity.
Qed.

Lemma ref_reserve n newcap : env_ok s (OReserve n newcap) -> refines_at s (OReserve n newcap).
Proof.
  intros He s' r H. cbn [bbstep env_ok] in *. unfold s, nf in *; cbn [si ri wi bcap bmem oneb] in *.
  pose proof la; pose proof lb; pose proof lc.
  assert (Hw : wrap64 (n - (cap - (zlen a + zlen b + zlen c))) = n - (cap - (zlen a + zlen b + zlen c))).
  { apply wrap64_id. lia. }
  rewrite Hw in H. destruct abs_s as [Hi Ha]. fold s. rewrite Ha.
  destruct (n - (cap - (zlen a + zlen b + zlen c)) >? 0) eqn:E; inv_ok.
  - change (mkbb (zlen a) (zlen a + zlen b) (zlen a + zlen b + zlen c) newcap (a ++ b ++ c) ob) with (nf a b c newcap ob).
    destruct (nf_abs a b c newcap ob) as [Hi' Hab]; [lia|lia|].
    split; [exact Hi'|]. eexists _, _. split; [reflexivity|]. cbn [t_saved t_read t_pend t_room].
    split; [|reflexivity]. rewrite Hab. f_equal. cbn [bcap wi nf].
    destruct (n >? cap - (zlen a + zlen b + zlen c)) eqn:E2; lia.
  - fold s. split; [exact Hi|]. eexists _, _. split; [reflexivity|]. cbn [t_saved t_read t_pend t_room].
    split; [|reflexivity]. rewrite Ha. f_equal.
    destruct (n >? cap - (zlen a + zlen b + zlen c)) eqn:E2; [lia|reflexivity].
Qed.

Lemma ref_save n : refines_at s (OSave n).
Proof.
  intros s' r H. cbn [bbstep] in H. unfold s, nf, readLen, setmem in H; cbn [si ri wi bcap bmem oneb] in H.
  pose proof la; pose proof lb; pose proof lc.
  replace (zlen a + zlen b - zlen a) with (zlen b) in H by lia.
  destruct abs_s as [Hi Ha]. rewrite Ha. cbn [tfstep t_saved t_read t_pend t_room].
  set (k := clamp n 0 (zlen b)). assert (Hk : 0 <= k <= zlen b) by (unfold k, clamp; lia).
  assert (Hkk : k = if n >? zlen b then Z.max 0 (zlen b) else Z.max 0 n) by (unfold k, clamp; destruct (n >? zlen b) eqn:?; lia).
  destruct ((if n >? zlen b then zlen b else n) <=? 0) eqn:E; inv_ok.
  - assert (k = 0) by (destruct (n >? zlen b); lia).
    fold s. split; [exact Hi|]. eexists _, _. split; [reflexivity|].
    replace (0 <? k) with false by lia. split; [|cbn; rewrite ?Z.eqb_refl; reflexivity].
    refine (eq_trans Ha _). replace k with 0 by lia. rewrite ztake_nonpos, zdrop_nonpos by lia. rewrite app_nil_r. reflexivity.
  - assert (Hn : (if n >? zlen b then zlen b else n) = k) by (destruct (n >? zlen b); lia).
    rewrite Hn.
    assert (Hst : mkbb (zlen a + k) (zlen a + zlen b) (zlen a + zlen b + zlen c) cap (a ++ b ++ c) ob
                  = nf (a ++ ztake k b) (zdrop k b) c cap ob).
    { unfold nf. rewrite zlen_app, zlen_ztake, zlen_zdrop by lia. rewrite <- app_assoc.
      rewrite (app_assoc (ztake k b)). rewrite ztake_zdrop_split. f_equal; lia. }
    rewrite Hst.
    close (a ++ ztake k b) (zdrop k b) c cap ob.
    replace (0 <? k) with true by lia. cbn. rewrite ?Z.eqb_refl. reflexivity.
Qed.

Lemma ref_savedslot i l : refines_at s (OSavedSlot i l).
Proof.
  intros s' r H. cbn [bbstep] in H. unfold valid_slot, s, nf in H; cbn [si ri wi bcap bmem oneb] in H.
  pose proof la; pose proof lb; pose proof lc.
  destruct abs_s as [Hi Ha]. rewrite Ha. cbn [tfstep]. unfold tvalid; cbn [t_saved].
  destruct ((0 <=? i) && (0 <=? l) && (l <=? zlen a) && (i <=? zlen a - l)) eqn:E; inv_ok; fold s.
  - split; [exact Hi|]. eexists _, _. split; [reflexivity|]. split; [exact Ha|].
    replace ((0 <=? i) && (0 <=? l) && (i + l <=? zlen a)) with true by lia.
    cbn [ret_ok]. rewrite zsub_app_l by lia. apply list_eqb_refl.
  - split; [exact Hi|]. eexists _, _. split; [reflexivity|]. split; [exact Ha|].
    replace ((0 <=? i) && (0 <=? l) && (i + l <=? zlen a)) with false by lia. reflexivity.
Qed.

Lemma remove_range_saved i l :
  0 <= i -> 0 <= l -> i + l <= zlen a ->
  remove_range (a ++ b ++ c) i l = (ztake i a ++ zdrop (i + l) a) ++ b ++ c.
Proof.
  intros H1 H2 H3. unfold remove_range. rewrite ztake_app_l by lia. rewrite zdrop_app_l by lia.
  rewrite <- app_assoc. reflexivity.
Qed.

Lemma ref_discard i l : refines_at s (ODiscard i l).
Proof.
  intros s' r H. cbn [bbstep] in H. unfold valid_slot, s, nf, setmem in H; cbn [si ri wi bcap bmem oneb] in H.
  pose proof la; pose proof lb; pose proof lc.
  destruct abs_s as [Hi Ha]. rewrite Ha. cbn [tfstep]. unfold tvalid; cbn [t_saved t_read t_pend t_room].
  destruct ((l <=? 0) || negb ((0 <=? i) && (0 <=? l) && (l <=? zlen a) && (i <=? zlen a - l))) eqn:E; inv_ok; fold s.
  - split; [exact Hi|].
    destruct ((0 <=? i) && (0 <=? l) && (i + l <=? zlen a)) eqn:E2; cbn [andb].
    + replace (0 <? l) with false by lia. eexists _, _. split; [reflexivity|]. split; [exact Ha|]. cbn. reflexivity.
    + eexists _, _. split; [reflexivity|]. split; [exact Ha|]. reflexivity.
  - replace ((0 <=? i) && (0 <=? l) && (i + l <=? zlen a)) with true by lia.
    replace (0 <? l) with true by lia. cbn [andb].
    rewrite remove_range_saved by lia.
    set (a' := ztake i a ++ zdrop (i + l) a).
    assert (Hla : zlen a' = zlen a - l) by (unfold a'; rewrite zlen_app, zlen_ztake, zlen_zdrop by lia; lia).
    assert (Hst : mkbb (zlen a - l) (zlen a + zlen b - l) (zlen a + zlen b + zlen c - l) cap (a' ++ b ++ c) ob = nf a' b c cap ob).
    { unfold nf. rewrite Hla. f_equal; lia. }
    rewrite Hst.
    destruct (nf_abs a' b c cap ob) as [Hi' Hab]; [lia|lia|].
    split; [exact Hi'|]. eexists _, _. split; [reflexivity|].
    split; [rewrite Hab; f_equal; cbn [bcap wi nf]; lia|]. cbn. apply Z.eqb_refl.
Qed.

Lemma ref_discardall : refines_at s ODiscardAll.
Proof.
  intros s' r H. cbn [bbstep] in H. unfold s, nf, setmem in H; cbn [si ri wi bcap bmem oneb] in H.
  pose proof la; pose proof lb; pose proof lc.
  destruct abs_s as [Hi Ha]. rewrite Ha. cbn [tfstep t_saved t_read t_pend t_room].
  destruct (zlen a <=? 0) eqn:E; inv_ok.
  - assert (a = []) as Hnil by (apply zlen_zero_nil; lia).
    fold s. split; [exact Hi|]. eexists _, _. split; [reflexivity|]. split; [|reflexivity].
    refine (eq_trans Ha _). rewrite Hnil. rewrite (@zlen_nil Z). f_equal. lia.
  - pose proof (remove_range_saved 0 (zlen a)) as Hr. rewrite Hr by lia.
    rewrite ztake_nonpos by lia. rewrite zdrop_all by lia. cbn [app].
    assert (Hst : mkbb 0 (zlen a + zlen b - zlen a) (zlen a + zlen b + zlen c - zlen a) cap (b ++ c) ob = nf [] b c cap ob).
    { unfold nf. rewrite (@zlen_nil Z). cbn [app]. f_equal; lia. }
    rewrite Hst.
    destruct (nf_abs [] b c cap ob) as [Hi' Hab]; [rewrite (@zlen_nil Z); lia|lia|].
    split; [exact Hi'|]. eexists _, _. split; [reflexivity|].
    split; [rewrite Hab; f_equal; cbn [bcap wi nf]; rewrite (@zlen_nil Z); lia|reflexivity].
Qed.

Lemma ref_reset : refines_at s OReset.
Proof.
  intros s' r H. cbn [bbstep] in H. unfold s, nf, setmem in H; cbn [si ri wi bcap bmem oneb] in H. inv_ok.
  pose proof la; pose proof lb; pose proof lc.
  destruct abs_s as [Hi Ha]. rewrite Ha. cbn [tfstep t_saved t_read t_pend t_room].
  change (mkbb 0 0 0 cap [] ob) with (nf [] [] [] cap ob).
  destruct (nf_abs [] [] [] cap ob) as [Hi' Hab]; [rewrite (@zlen_nil Z); lia|lia|].
  split; [exact Hi'|]. eexists _, _. split; [reflexivity|].
  split; [rewrite Hab; f_equal; cbn [bcap wi nf]; rewrite (@zlen_nil Z); lia|reflexivity].
Qed.

(* consume through the normal form, packaged for the callers below *)
Lemma consume_close n r want :
  let k := clamp n 0 (zlen b) in
  ret_ok want r = true ->
  binv (consume s n) /\
  exists t' w', (mktf a (zdrop k b) c (cap - (zlen a + zlen b + zlen c) + k), want) = (t', w') /\
                abs (consume s n) = t' /\ ret_ok w' r = true.
Proof.
  intros k Hr. pose proof la; pose proof lb; pose proof lc.
  assert (0 <= k <= zlen b) by (unfold k, clamp; lia).
  unfold s. rewrite consume_nf. fold k.
  destruct (nf_abs a (zdrop k b) c cap ob) as [Hi Hab]; [rewrite zlen_zdrop by lia; lia|assumption|].
  split; [exact Hi|]. eexists _, _. split; [reflexivity|]. split; [|exact Hr].
  rewrite Hab. f_equal. rewrite zlen_zdrop by lia. lia.
Qed.

Lemma ref_read m : refines_at s (ORead m).
Proof.
  intros s' r H. cbn [bbstep] in H. unfold readLen in H.
  pose proof la; pose proof lb; pose proof lc.
  assert (Hrl : ri s - si s = zlen b) by (unfold s, nf; cbn; lia). rewrite Hrl in H.
  destruct abs_s as [Hi Ha]. rewrite Ha. cbn [tfstep t_saved t_read t_pend t_room].
  set (k := clamp m 0 (zlen b)). assert (Hk : 0 <= k <= zlen b) by (unfold k, clamp; lia).
  destruct (m <=? 0) eqn:E0; [|destruct (zlen b =? 0) eqn:E1]; inv_ok.
  - assert (k = 0) by (unfold k, clamp; lia).
    split; [exact Hi|]. eexists _, _. split; [reflexivity|].
    replace k with 0 by lia. rewrite zdrop_nonpos, ztake_nonpos by lia.
    split; [rewrite Ha; f_equal; lia|]. reflexivity.
  - assert (k = 0) by (unfold k, clamp; lia).
    split; [exact Hi|]. eexists _, _. split; [reflexivity|].
    replace k with 0 by lia. rewrite zdrop_nonpos, ztake_nonpos by lia.
    split; [rewrite Ha; f_equal; lia|]. reflexivity.
  - assert (Hmk : Z.min m (zlen b) = k) by (unfold k, clamp; lia). rewrite Hmk.
    assert (Hkk : clamp k 0 (zlen b) = k) by (unfold clamp; lia).
    pose proof (consume_close k (RBytes (zsub (si s) (si s + k) (bmem s))) (TBytes (ztake k b))) as Hc.
    cbv zeta in Hc. rewrite Hkk in Hc. apply Hc.
    cbn [ret_ok]. unfold s, nf; cbn [si bmem]. rewrite zsub_mid by lia. apply list_eqb_refl.
Qed.

End Ops.

Lemma ref_readbyte a b c cap ob :
  zlen a + zlen b + zlen c <= cap -> cap < two63 -> refines_at (nf a b c cap ob) OReadByte.
Proof.
  intros Hcap Hc63.
  pose proof (zlen_nonneg a); pose proof (zlen_nonneg b); pose proof (zlen_nonneg c).
  destruct (abs_s a b c cap ob Hcap Hc63) as [Hi Ha].
  intros s' r Hstep. cbn [bbstep] in Hstep. unfold readLen in Hstep.
  assert (Hrl : ri (nf a b c cap ob) - si (nf a b c cap ob) = zlen b) by (unfold nf; cbn; lia). rewrite Hrl in Hstep.
  rewrite Ha. cbn [tfstep t_saved t_read t_pend t_room].
  destruct b as [|x b'].
  - rewrite (@zlen_nil Z) in Hstep. cbn in Hstep. inv_ok.
    split; [exact Hi|]. eexists _, _. split; [reflexivity|]. split; [exact Ha|]. reflexivity.
  - assert (E1 : (zlen (x :: b') =? 0) = false) by (unfold zlen; cbn [length]; lia).
    rewrite E1 in Hstep. inv_ok.
    assert (Hz : zsub (zlen a) (zlen a + 1) (a ++ (x :: b') ++ c) = [x]).
    { rewrite zsub_mid by lia. reflexivity. }
    cbn [app] in Hz.
    rewrite Hz. cbn [nth].
    assert (Hk1 : clamp 1 0 (zlen (x :: b')) = 1) by (unfold clamp; lia).
    pose proof (consume_close a (x :: b') c cap ob Hcap Hc63 1 (RByteErr x 0) (TByte (Some x))) as Hc.
    cbv zeta in Hc. rewrite Hk1 in Hc.
    destruct Hc as (Hi' & t' & w' & Heq & Habs & Hret); [cbn; rewrite Z.eqb_refl; reflexivity|].
    injection Heq as Ht Hw. subst t' w'.
    split.
    + unfold binv in *. cbn [si ri wi bcap bmem]. exact Hi'.
    + eexists _, _. split; [reflexivity|]. split; [|exact Hret].
      unfold abs, saved_of, readable_of, pending_of in *. cbn [si ri wi bcap bmem] in *.
      rewrite Habs. reflexivity.
Qed.

Section Ops2.
Variables (a b c : list Z) (cap ob : Z).
Hypothesis Hcap : zlen a + zlen b + zlen c <= cap.
Hypothesis Hc63 : cap < two63.
Let s := nf a b c cap ob.
Let la := zlen_nonneg a.
Let lb := zlen_nonneg b.
Let lc := zlen_nonneg c.
Let Habs_s := abs_s a b c cap ob Hcap Hc63.

(* appending w to the pending region *)
Lemma append_pending w cap' :
  zlen a + zlen b + zlen c + zlen w <= cap' -> cap' < two63 ->
  mkbb (zlen a) (zlen a + zlen b) (zlen a + zlen b + zlen c + zlen w) cap' ((a ++ b ++ c) ++ w) ob
  = nf a b (c ++ w) cap' ob.
Proof.
  intros H1 H2. unfold nf. rewrite zlen_app. rewrite <- !app_assoc. f_equal; lia.
Qed.

Lemma ref_readfrom w n err : refines_at s (OReadFrom w n err).
Proof.
  intros s' r H. cbn [bbstep] in H. unfold s, nf, setmem, chk in H; cbn [si ri wi bcap bmem oneb] in H.
  pose proof la; pose proof lb; pose proof lc. pose proof (zlen_nonneg w).
  destruct Habs_s as [Hi Ha]. fold s in Hi, Ha. rewrite Ha. cbn [tfstep t_saved t_read t_pend t_room].
  set (k := Z.max 0 (Z.min n (Z.min (zlen w) (cap - (zlen a + zlen b + zlen c))))) in *.
  assert (Hk : 0 <= k <= zlen w /\ k <= cap - (zlen a + zlen b + zlen c)) by (unfold k; lia).
  destruct err; inv_ok.
  - split; [exact Hi|]. eexists _, _. split; [reflexivity|]. split; [exact Ha|].
    cbn. rewrite Z.eqb_refl. reflexivity.
  - destruct ((0 <=? zlen a + zlen b + zlen c + k) && (zlen a + zlen b + zlen c + k <=? cap)) eqn:E; [|discriminate].
    inv_ok.
    pose proof (append_pending (ztake k w) cap) as Hap. rewrite zlen_ztake in Hap by lia.
    rewrite Hap by lia.
    close a b (c ++ ztake k w) cap ob.
    cbn. rewrite !Z.eqb_refl. reflexivity.
Qed.

Lemma ref_write w newcap : env_ok s (OWrite w newcap) -> refines_at s (OWrite w newcap).
Proof.
  intros He s' r H. cbn [bbstep env_ok] in *. unfold s, nf in H, He; cbn [si ri wi bcap bmem oneb] in H, He.
  pose proof la; pose proof lb; pose proof lc. pose proof (zlen_nonneg w).
  destruct Habs_s as [Hi Ha]. fold s in Hi, Ha. rewrite Ha. cbn [tfstep t_saved t_read t_pend t_room].
  inv_ok.
  set (cap' := if zlen a + zlen b + zlen c + zlen w <=? cap then cap else newcap).
  assert (Hc' : zlen a + zlen b + zlen c + zlen w <= cap' < two63)
    by (unfold cap'; destruct (zlen a + zlen b + zlen c + zlen w <=? cap) eqn:?; lia).
  rewrite (append_pending w cap') by lia.
  destruct (nf_abs a b (c ++ w) cap' ob) as [Hi' Hab]; [rewrite zlen_app; lia|lia|].
  split; [exact Hi'|]. eexists _, _. split; [reflexivity|].
  split; [|cbn; rewrite !Z.eqb_refl; reflexivity].
  rewrite Hab. f_equal. cbn [bcap wi nf]. rewrite zlen_app.
  unfold cap'. destruct (zlen a + zlen b + zlen c + zlen w <=? cap) eqn:E1;
    destruct (zlen w <=? cap - (zlen a + zlen b + zlen c)) eqn:E2; lia.
Qed.

Lemma ref_claim w n : env_ok s (OClaim w n) -> refines_at s (OClaim w n).
Proof.
  intros He s' r H. cbn [bbstep env_ok] in *. unfold s, nf, setmem in H, He; cbn [si ri wi bcap bmem oneb] in H, He.
  pose proof la; pose proof lb; pose proof lc. pose proof (zlen_nonneg w).
  destruct Habs_s as [Hi Ha]. fold s in Hi, Ha. rewrite Ha. cbn [tfstep t_saved t_read t_pend t_room].
  destruct ((0 <=? n) && (n <=? cap - (zlen a + zlen b + zlen c))) eqn:E; inv_ok.
  - assert (Hz : zlen (ztake n w) = n) by (apply zlen_ztake; lia).
    pose proof (append_pending (ztake n w) cap) as Hap. rewrite Hz in Hap. rewrite Hap by lia.
    destruct (nf_abs a b (c ++ ztake n w) cap ob) as [Hi' Hab]; [rewrite zlen_app; lia|lia|].
    split; [exact Hi'|]. eexists _, _. split; [reflexivity|]. split; [|reflexivity].
    rewrite Hab. f_equal. cbn [bcap wi nf]. rewrite zlen_app. lia.
  - split; [exact Hi|]. eexists _, _. split; [reflexivity|]. split; [exact Ha|reflexivity].
Qed.

Lemma ref_claimfixed n w : env_ok s (OClaimFixed n w) -> refines_at s (OClaimFixed n w).
Proof.
  intros He s' r H. cbn [bbstep env_ok] in *. unfold s, nf, setmem in H, He; cbn [si ri wi bcap bmem oneb] in H, He.
  pose proof la; pose proof lb; pose proof lc. pose proof (zlen_nonneg w).
  destruct Habs_s as [Hi Ha]. fold s in Hi, Ha. rewrite Ha. cbn [tfstep t_saved t_read t_pend t_room].
  destruct ((0 <=? n) && (n <=? cap - (zlen a + zlen b + zlen c))) eqn:E; inv_ok.
  - rewrite ztake_app_l by lia.
    assert (Hz : zlen (ztake n w) = n) by (apply zlen_ztake; lia).
    pose proof (append_pending (ztake n w) cap) as Hap. rewrite Hz in Hap. rewrite Hap by lia.
    destruct (nf_abs a b (c ++ ztake n w) cap ob) as [Hi' Hab]; [rewrite zlen_app; lia|lia|].
    split; [exact Hi'|]. eexists _, _. split; [reflexivity|]. split; [|cbn; apply Z.eqb_refl].
    rewrite Hab. f_equal. cbn [bcap wi nf]. rewrite zlen_app. lia.
  - split; [exact Hi|]. eexists _, _. split; [reflexivity|]. split; [exact Ha|reflexivity].
Qed.

Lemma ref_shrinkby n : refines_at s (OShrinkBy n).
Proof.
  intros s' r H. cbn [bbstep] in H. unfold s in H. rewrite shrinkBy_nf in H. inv_ok.
  pose proof la; pose proof lb; pose proof lc.
  destruct Habs_s as [Hi Ha]. fold s in Hi, Ha. rewrite Ha. cbn [tfstep t_saved t_read t_pend t_room].
  set (k := clamp n 0 (zlen c)). assert (0 <= k <= zlen c) by (unfold k, clamp; lia).
  destruct (nf_abs a b (ztake (zlen c - k) c) cap ob) as [Hi' Hab]; [rewrite zlen_ztake by lia; lia|lia|].
  split; [exact Hi'|]. eexists _, _. split; [reflexivity|]. split; [|cbn; apply Z.eqb_refl].
  rewrite Hab. f_equal. cbn [bcap wi nf]. rewrite zlen_ztake by lia. lia.
Qed.

Lemma ref_shrinkto n : is_int64 n -> refines_at s (OShrinkTo n).
Proof.
  intros Hn s' r H. cbn [bbstep] in H. unfold writeLen in H.
  pose proof la; pose proof lb; pose proof lc.
  assert (Hwl : wi s - ri s = zlen c) by (unfold s, nf; cbn; lia). rewrite Hwl in H.
  unfold s in H. rewrite shrinkBy_nf in H. inv_ok.
  destruct Habs_s as [Hi Ha]. fold s in Hi, Ha. rewrite Ha. cbn [tfstep t_saved t_read t_pend t_room].
  set (k := clamp (wrap64 (zlen c - n)) 0 (zlen c)). assert (Hk : 0 <= k <= zlen c) by (unfold k, clamp; lia).
  destruct (nf_abs a b (ztake (zlen c - k) c) cap ob) as [Hi' Hab]; [rewrite zlen_ztake by lia; lia|lia|].
  split; [exact Hi'|].
  cbn [bcap wi nf]. rewrite zlen_ztake by lia.
  unfold is_int64 in Hn.
  destruct (Z_lt_le_dec (zlen c - n) two63) as [Hsmall|Hbig].
  - (* no wrap-around *)
    assert (Hw : wrap64 (zlen c - n) = zlen c - n) by (apply wrap64_id; unfold two63 in *; lia).
    assert (Hkk : k = clamp (zlen c - n) 0 (zlen c)) by (unfold k; rewrite Hw; reflexivity).
    destruct ((n <? 0) && (cap - (zlen a + zlen b + (zlen c - k)) =? cap - (zlen a + zlen b + zlen c))) eqn:E.
    + assert (k = 0) by lia.
      eexists _, _. split; [reflexivity|]. split; [|reflexivity].
      rewrite Hab. replace k with 0 by lia. replace (zlen c - 0) with (zlen c) by lia.
      rewrite ztake_all by lia. reflexivity.
    + eexists _, _. split; [reflexivity|]. split; [|reflexivity].
      rewrite Hab. rewrite <- Hkk. f_equal. rewrite zlen_ztake by lia. lia.
  - (* zlen c - n overflows int64: the wrapped value is negative and nothing is shrunk *)
    assert (Hw : wrap64 (zlen c - n) < 0).
    { unfold wrap64. assert (Hc : zlen c < two63) by lia.
      replace (zlen c - n + two63) with ((zlen c - n - two63) + 1 * (2 * two63)) by lia.
      rewrite Z.mod_add by (unfold two63; lia). rewrite Z.mod_small by (unfold two63 in *; lia). lia. }
    assert (k = 0) by (unfold k, clamp; lia).
    replace ((n <? 0) && (cap - (zlen a + zlen b + (zlen c - k)) =? cap - (zlen a + zlen b + zlen c))) with true by lia.
    eexists _, _. split; [reflexivity|]. split; [|reflexivity].
    rewrite Hab. replace k with 0 by lia. replace (zlen c - 0) with (zlen c) by lia.
    rewrite ztake_all by lia. reflexivity.
Qed.

Lemma ref_unreadbyte : refines_at s OUnreadByte.
Proof.
  intros s' r H. cbn [bbstep] in H. unfold writeLen, s, nf, setmem in H; cbn [si ri wi bcap bmem oneb] in H.
  pose proof la; pose proof lb; pose proof lc.
  destruct Habs_s as [Hi Ha]. fold s in Hi, Ha. rewrite Ha. cbn [tfstep t_saved t_read t_pend t_room].
  replace (zlen a + zlen b + zlen c - (zlen a + zlen b)) with (zlen c) in H by lia.
  destruct (zlen c >? 0) eqn:E; inv_ok.
  - replace (0 <? zlen c) with true by lia.
    assert (Hm : ztake (zlen a + zlen b + zlen c - 1) (a ++ b ++ c) = a ++ b ++ ztake (zlen c - 1) c).
    { rewrite ztake_app_r by lia. f_equal. rewrite ztake_app_r by lia. f_equal. f_equal. lia. }
    rewrite Hm.
    assert (Hst : mkbb (zlen a) (zlen a + zlen b) (zlen a + zlen b + zlen c - 1) cap (a ++ b ++ ztake (zlen c - 1) c) ob
                  = nf a b (ztake (zlen c - 1) c) cap ob).
    { unfold nf. rewrite zlen_ztake by lia. f_equal; lia. }
    rewrite Hst.
    destruct (nf_abs a b (ztake (zlen c - 1) c) cap ob) as [Hi' Hab]; [rewrite zlen_ztake by lia; lia|lia|].
    split; [exact Hi'|]. eexists _, _. split; [reflexivity|]. split; [|reflexivity].
    rewrite Hab. f_equal. cbn [bcap wi nf]. rewrite zlen_ztake by lia. lia.
  - replace (0 <? zlen c) with false by lia.
    split; [exact Hi|]. eexists _, _. split; [reflexivity|]. split; [exact Ha|reflexivity].
Qed.

Lemma write_loop_nf fuel : forall res written,
  write_loop s res written fuel =
  (let '(x, f) := twrite_loop (zlen b) res written fuel in (x, if f then 3 else 0)).
Proof.
  induction fuel as [|f IH]; intros res written; [reflexivity|].
  change (write_loop s res written (S f)) with
    (if si s + written <? ri s then
       match res with
       | [] => (written, 3)
       | (n, failed) :: rest => if failed then (written, 3) else write_loop s rest (written + n) f
       end
     else (written, 0)).
  change (twrite_loop (zlen b) res written (S f)) with
    (if written <? zlen b then
       match res with
       | [] => (written, true)
       | (n, failed) :: rest => if failed then (written, true) else twrite_loop (zlen b) rest (written + n) f
       end
     else (written, false)).
  unfold s at 1 2, nf; cbn [si ri].
  pose proof la.
  replace (zlen a + written <? zlen a + zlen b) with (written <? zlen b) by lia.
  destruct (written <? zlen b); [|reflexivity].
  destruct res as [|[n failed] rest]; [reflexivity|].
  destruct failed; [reflexivity|]. apply IH.
Qed.

Lemma ref_writeto res : refines_at s (OWriteTo res).
Proof.
  intros s' r H. cbn [bbstep] in H. rewrite write_loop_nf in H.
  destruct Habs_s as [Hi Ha]. fold s in Hi, Ha. rewrite Ha. cbn [tfstep t_saved t_read t_pend t_room].
  destruct (twrite_loop (zlen b) res 0 (S (length res))) as [written failed] eqn:E.
  inv_ok.
  apply (consume_close a b c cap ob Hcap Hc63 written).
  cbn. rewrite Z.eqb_refl. destruct failed; reflexivity.
Qed.

Lemma ref_asyncwriteto n err : refines_at s (OAsyncWriteTo n err).
Proof.
  intros s' r H. cbn [bbstep] in H.
  destruct Habs_s as [Hi Ha]. fold s in Hi, Ha. rewrite Ha. cbn [tfstep t_saved t_read t_pend t_room].
  destruct err; inv_ok.
  - split; [exact Hi|]. eexists _, _. split; [reflexivity|]. split; [exact Ha|].
    cbn. rewrite Z.eqb_refl. reflexivity.
  - apply (consume_close a b c cap ob Hcap Hc63 n). cbn. rewrite !Z.eqb_refl. reflexivity.
Qed.

Lemma ref_prepareread n : is_int64 n -> refines_at s (OPrepareRead n).
Proof.
  intros Hn s' r H. cbn [bbstep] in H. unfold readLen, writeLen in H.
  pose proof la; pose proof lb; pose proof lc.
  assert (Hrl : ri s - si s = zlen b) by (unfold s, nf; cbn; lia).
  assert (Hwl : wi s - ri s = zlen c) by (unfold s, nf; cbn; lia).
  rewrite Hrl, Hwl in H.
  destruct Habs_s as [Hi Ha]. fold s in Hi, Ha. rewrite Ha. cbn [tfstep t_saved t_read t_pend t_room].
  unfold is_int64 in Hn.
  destruct (Z_le_gt_dec (- two63) (n - zlen b)) as [Hok|Hwrap].
  - rewrite wrap64_id in H by (unfold two63 in *; lia).
    destruct (n - zlen b >? 0) eqn:E1.
    + destruct (zlen c >=? n - zlen b) eqn:E2; inv_ok.
      * replace ((0 <? n - zlen b) && (n - zlen b <=? zlen c)) with true by lia.
        unfold s. rewrite commit_nf.
        assert (Hk : clamp (n - zlen b) 0 (zlen c) = n - zlen b) by (unfold clamp; lia). rewrite Hk.
        destruct (nf_abs a (b ++ ztake (n - zlen b) c) (zdrop (n - zlen b) c) cap ob) as [Hi' Hab];
          [rewrite zlen_app, zlen_ztake, zlen_zdrop by lia; lia|lia|].
        split; [exact Hi'|]. eexists _, _. split; [reflexivity|]. split; [|reflexivity].
        rewrite Hab. f_equal. cbn [bcap wi nf]. rewrite zlen_app, zlen_ztake, zlen_zdrop by lia. lia.
      * replace ((0 <? n - zlen b) && (n - zlen b <=? zlen c)) with false by lia.
        replace (0 <? n - zlen b) with true by lia.
        split; [exact Hi|]. eexists _, _. split; [reflexivity|]. split; [exact Ha|reflexivity].
    + inv_ok. replace ((0 <? n - zlen b) && (n - zlen b <=? zlen c)) with false by lia.
      replace (0 <? n - zlen b) with false by lia.
      split; [exact Hi|]. eexists _, _. split; [reflexivity|]. split; [exact Ha|].
      destruct (n <? 0); reflexivity.
  - assert (Hw : wrap64 (n - zlen b) = n - zlen b + 2 * two63).
    { unfold wrap64. replace (n - zlen b + two63) with ((n - zlen b + two63 + 2 * two63) + (-1) * (2 * two63)) by lia.
      rewrite Z.mod_add by (unfold two63; lia). rewrite Z.mod_small by (unfold two63 in *; lia). lia. }
    rewrite Hw in H.
    replace (n - zlen b + 2 * two63 >? 0) with true in H by (unfold two63 in *; lia).
    replace (zlen c >=? n - zlen b + 2 * two63) with false in H by (unfold two63 in *; lia).
    inv_ok.
    replace ((0 <? n - zlen b) && (n - zlen b <=? zlen c)) with false by (unfold two63 in *; lia).
    replace (0 <? n - zlen b) with false by (unfold two63 in *; lia).
    replace (n <? 0) with true by (unfold two63 in *; lia).
    split; [exact Hi|]. eexists _, _. split; [reflexivity|]. split; [exact Ha|reflexivity].
Qed.

End Ops2.

(* ---------------------------------------------------------------- every operation, every argument *)

Theorem step_refines s o : binv s -> env_ok s o -> refines_at s o.
Proof.
  intros Hi He. destruct (normal_form s Hi) as (a & b & c & Hs & Hcap & Hc63).
  set (cap := bcap s) in *. set (ob := oneb s) in *. clearbody cap ob. subst s.
  destruct o; cbn [env_ok] in He.
  - apply ref_reserve; assumption.
  - apply ref_commit; assumption.
  - apply ref_consume; assumption.
  - apply ref_save; assumption.
  - apply ref_savedslot; assumption.
  - apply ref_discard; assumption.
  - apply ref_discardall; assumption.
  - apply ref_reset; assumption.
  - apply ref_read; assumption.
  - apply ref_readbyte; assumption.
  - apply ref_readfrom; assumption.
  - apply ref_unreadbyte; assumption.
  - apply ref_write; assumption.
  - apply ref_writeto; assumption.
  - apply ref_asyncwriteto; assumption.
  - apply ref_prepareread; assumption.
  - apply ref_claim; assumption.
  - apply ref_claimfixed; assumption.
  - apply ref_shrinkby; assumption.
  - apply ref_shrinkto; assumption.
  - apply ref_observe; assumption.
Qed.

Theorem step_no_panic s o : binv s -> bbstep s o <> Panic.
Proof.
  intros Hi. unfold binv in Hi.
  destruct o; cbn [bbstep]; unfold chk;
    repeat match goal with
    | |- context [if ?x then _ else _] => destruct x eqn:?
    | |- context [let '(_, _) := ?x in _] => destruct x eqn:?
    end; try discriminate.
  (* the only guarded slice: ReadFrom advancing wi by the reader's (clamped) count *)
  exfalso. lia.
Qed.

(* ---------------------------------------------------------------- whole histories *)

(* the environment/argument side conditions hold at every step of the history *)
Fixpoint wf_hist (s : bb) (ops : list bbop) : Prop :=
  match ops with
  | [] => True
  | o :: rest => env_ok s o /\ match bbstep s o with Ok (s', _) => wf_hist s' rest | Panic => True end
  end.

(* model and specification run side by side; None = a panic or a result the specification does not allow *)
Fixpoint corun (s : bb) (t : tf) (ops : list bbop) : option (bb * tf) :=
  match ops with
  | [] => Some (s, t)
  | o :: rest =>
      match bbstep s o with
      | Panic => None
      | Ok (s', r) =>
          let '(t', want) := tfstep t o (bcap s' - wi s') in
          if ret_ok want r then corun s' t' rest else None
      end
  end.

Theorem history_refines ops : forall s,
  binv s -> wf_hist s ops -> exists s', corun s (abs s) ops = Some (s', abs s') /\ binv s'.
Proof.
  induction ops as [|o rest IH]; intros s Hi Hw; cbn [corun wf_hist] in *.
  - eauto.
  - destruct Hw as [He Hw].
    destruct (bbstep s o) as [[s1 r]|] eqn:E; [|exfalso; eapply step_no_panic; eauto].
    destruct (step_refines s o Hi He s1 r E) as (Hi1 & t' & want & Ht & Ha & Hr).
    rewrite Ht, Hr. subst t'. apply IH; assumption.
Qed.

Lemma binit_inv : binv bb_init.
Proof. unfold binv, bb_init, two63; cbn. unfold zlen; cbn. lia. Qed.

Lemma abs_init : abs bb_init = tf_init.
Proof. reflexivity. Qed.

Lemma lengths_add_up s : binv s ->
  zlen (saved_of s) + zlen (readable_of s) + zlen (pending_of s) = zlen (bmem s) /\
  bmem s = saved_of s ++ readable_of s ++ pending_of s.
Proof.
  intros Hi. destruct (regions s Hi) as (Hm & Ha & Hb & Hc). unfold binv in Hi. split; [lia|exact Hm].
Qed.
