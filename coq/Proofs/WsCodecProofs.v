(* C07: the frame decoder model refines the pure parser; the stream stays in sync; encoder round trip. *)
From Coq Require Import ZifyBool.
From Sonic Require Import Base.Prelude Base.ListLemmas Gen.Consts Model.ByteBuffer Spec.ThreeFifo Model.WsFrame
  Spec.FrameParser Model.WsCodec.
Local Open Scope Z_scope.
Local Arguments Z.mul : simpl never.
Local Arguments Z.add : simpl never.
Local Arguments Z.sub : simpl never.
Local Arguments Z.modulo : simpl never.
Local Arguments Z.land : simpl never.

Definition is_byte (b : Z) : Prop := 0 <= b < 256.
Definition bytes (l : list Z) : Prop := Forall is_byte l.

(* ---------------------------------------------------------------- bit fields of a byte, by finite sweep *)

Definition byte_facts (b : Z) : bool :=
  (Z.land b 127 =? b mod 128) && Bool.eqb (negb (Z.land b 128 =? 0)) (128 <=? b) &&
  (Z.land b 15 =? b mod 16) && Bool.eqb (negb (Z.land b 64 =? 0)) (1 =? (b / 64) mod 2) &&
  Bool.eqb (negb (Z.land b 32 =? 0)) (1 =? (b / 32) mod 2) && Bool.eqb (negb (Z.land b 16 =? 0)) (1 =? (b / 16) mod 2).

Lemma byte_facts_all : forallb byte_facts (map Z.of_nat (seq 0 256)) = true.
Proof. vm_compute. reflexivity. Qed.

Lemma byte_facts_ok b : is_byte b -> byte_facts b = true.
Proof.
  intros H. pose proof byte_facts_all as Ha. rewrite forallb_forall in Ha. apply Ha.
  apply in_map_iff. exists (Z.to_nat b). split; [unfold is_byte in H; lia|]. apply in_seq. unfold is_byte in H. lia.
Qed.

Lemma byte_facts_split b : byte_facts b = true ->
  Z.land b 127 = b mod 128 /\ negb (Z.land b 128 =? 0) = (128 <=? b) /\ Z.land b 15 = b mod 16 /\
  negb (Z.land b 64 =? 0) = (1 =? (b / 64) mod 2) /\ negb (Z.land b 32 =? 0) = (1 =? (b / 32) mod 2) /\
  negb (Z.land b 16 =? 0) = (1 =? (b / 16) mod 2).
Proof.
  unfold byte_facts. rewrite !andb_true_iff, !Z.eqb_eq, !Bool.eqb_true_iff. tauto.
Qed.

Lemma land127 b : is_byte b -> Z.land b 127 = b mod 128.
Proof. intros H. apply byte_facts_split, byte_facts_ok, H. Qed.

Lemma land128 b : is_byte b -> negb (Z.land b 128 =? 0) = (128 <=? b).
Proof. intros H. apply byte_facts_split, byte_facts_ok, H. Qed.

Lemma land15 b : is_byte b -> Z.land b 15 = b mod 16.
Proof. intros H. apply byte_facts_split, byte_facts_ok, H. Qed.

(* ---------------------------------------------------------------- big-endian values *)

Lemma be_app l x : be (l ++ [x]) = be l * 256 + x.
Proof. unfold be. rewrite fold_left_app. reflexivity. Qed.

Lemma be_value_eq l : be_value l = be l.
Proof. reflexivity. Qed.

Lemma be_bound l : bytes l -> 0 <= be l < 256 ^ zlen l.
Proof.
  induction l as [|x l IH] using rev_ind; intros Hb.
  - cbn. lia.
  - apply Forall_app in Hb. destruct Hb as [Hl Hx]. inversion Hx as [|? ? Hxb _]; subst. unfold is_byte in Hxb.
    specialize (IH Hl). rewrite be_app, zlen_app. unfold zlen at 2; cbn [length].
    pose proof (zlen_nonneg l). rewrite Z.pow_add_r by lia. change (256 ^ Z.of_nat 1) with 256. nia.
Qed.

Lemma Forall_firstn {A} (P : A -> Prop) n l : Forall P l -> Forall P (firstn n l).
Proof.
  revert l. induction n as [|n IH]; intros l H; [constructor|].
  destruct l as [|x l]; [constructor|]. inversion H; subst. cbn. constructor; auto.
Qed.

Lemma Forall_skipn {A} (P : A -> Prop) n l : Forall P l -> Forall P (skipn n l).
Proof.
  revert l. induction n as [|n IH]; intros l H; [exact H|].
  destruct l as [|x l]; [constructor|]. inversion H; subst. cbn. auto.
Qed.

Lemma bytes_ztake n l : bytes l -> bytes (ztake n l).
Proof. apply Forall_firstn. Qed.

Lemma bytes_zdrop n l : bytes l -> bytes (zdrop n l).
Proof. apply Forall_skipn. Qed.

Lemma bytes_zsub a b l : bytes l -> bytes (zsub a b l).
Proof. intros H. unfold zsub. apply bytes_ztake, bytes_zdrop, H. Qed.

Lemma bytes_app a b : bytes a -> bytes b -> bytes (a ++ b).
Proof. intros. apply Forall_app; auto. Qed.

Lemma bytes_nth i l : bytes l -> is_byte (nth i l 0).
Proof.
  intros H. destruct (Nat.lt_ge_cases i (length l)) as [Hi|Hi].
  - unfold bytes in H. rewrite Forall_forall in H. apply H. apply nth_In. exact Hi.
  - rewrite nth_overflow by lia. unfold is_byte. lia.
Qed.

(* ---------------------------------------------------------------- prefixes *)

Lemma nth_firstn_lt {A} i m (l : list A) d : (i < m)%nat -> nth i (firstn m l) d = nth i l d.
Proof.
  revert i l. induction m as [|k IH]; intros i l Hm; [lia|].
  destruct l as [|x l]; [destruct i; reflexivity|]. destruct i; [reflexivity|]. cbn. apply IH. lia.
Qed.

Lemma nth_ztake {A} i n (l : list A) d : Z.of_nat i < n -> nth i (ztake n l) d = nth i l d.
Proof. intros H. unfold ztake. apply nth_firstn_lt. lia. Qed.

Lemma zsub_ztake {A} a b n (l : list A) : 0 <= a -> b <= n -> zsub a b (ztake n l) = zsub a b l.
Proof.
  intros Ha Hb. destruct (Z_le_gt_dec b a); [rewrite !zsub_empty by lia; reflexivity|].
  unfold zsub. rewrite zdrop_ztake by lia. rewrite ztake_ztake by lia. reflexivity.
Qed.

(* ---------------------------------------------------------------- PrepareRead / Data through the specification *)

Lemma tprep_spec s n s' ok :
  tprep s n = (s', ok) ->
  let V := t_read s ++ t_pend s in
  t_read s' ++ t_pend s' = V /\ t_saved s' = t_saved s /\
  zlen (t_read s) <= zlen (t_read s') /\
  (ok = true <-> n <= zlen V) /\ (ok = true -> n <= zlen (t_read s')).
Proof.
  unfold tprep. cbn [tfstep]. intros H. cbv zeta. set (V := t_read s ++ t_pend s).
  pose proof (zlen_nonneg (t_read s)). pose proof (zlen_nonneg (t_pend s)).
  assert (HV : zlen V = zlen (t_read s) + zlen (t_pend s)) by (unfold V; apply zlen_app).
  destruct ((0 <? n - zlen (t_read s)) && (n - zlen (t_read s) <=? zlen (t_pend s))) eqn:E.
  - inversion H; subst; clear H. cbn [t_read t_pend t_saved].
    split; [rewrite <- app_assoc; rewrite ztake_zdrop_split; reflexivity|]. split; [reflexivity|].
    rewrite zlen_app, zlen_ztake by lia. repeat split; try lia; auto.
  - destruct (0 <? n - zlen (t_read s)) eqn:E2.
    + inversion H; subst; clear H. repeat split; try lia; try discriminate; auto.
    + destruct (n <? 0); inversion H; subst; clear H; repeat split; try lia; auto.
Qed.

Lemma tdata_spec s n : 0 <= n <= zlen (t_read s) ->
  tdata s n = Some (ztake n (t_read s ++ t_pend s)).
Proof.
  intros H. unfold tdata. replace ((0 <=? n) && (n <=? zlen (t_read s))) with true by lia.
  rewrite ztake_app_l by lia. reflexivity.
Qed.

(* ---------------------------------------------------------------- the decoder *)

Definition cinv (c : codec) : Prop :=
  (c_reset c = true -> 0 <= c_flen c <= zlen (t_read (c_src c))) /\ 0 <= c_max c < WsFrame.two63.

Lemma reset_spec c : cinv c ->
  let c1 := reset_decode c in
  c_reset c1 = false /\ c_max c1 = c_max c /\ t_read (c_src c1) ++ t_pend (c_src c1) = unread c /\
  t_saved (c_src c1) = t_saved (c_src c).
Proof.
  intros [Hr Hm]. unfold reset_decode, unread.
  destruct (c_reset c) eqn:E; cbn [c_reset c_max c_src].
  - specialize (Hr eq_refl). unfold tconsume. cbn [tfstep fst t_read t_pend t_saved].
    assert (Hk : clamp (c_flen c) 0 (zlen (t_read (c_src c))) = c_flen c) by (unfold clamp; lia).
    rewrite Hk. rewrite zdrop_app_l by lia. auto.
  - rewrite zdrop_nonpos by lia. auto.
Qed.

(* accessors on a prefix of the stream agree with the arithmetic view of the stream *)
Section Prefix.
Variable V : list Z.
Hypothesis HV : bytes V.

Lemma len7_prefix n : 2 <= n -> len7 (ztake n V) = sp_l7 V.
Proof.
  intros Hn. unfold len7, byte_at, sp_l7. rewrite nth_ztake by lia.
  change ws_bitmaskPayloadLength with 127. apply land127. apply bytes_nth. exact HV.
Qed.

Lemma masked_prefix n : 2 <= n -> is_masked (ztake n V) = sp_masked V.
Proof.
  intros Hn. unfold is_masked, byte_at, sp_masked. rewrite nth_ztake by lia.
  change ws_bitIsMasked with 128. apply land128. apply bytes_nth. exact HV.
Qed.

Lemma ext_prefix n : 2 <= n -> ext_len_bytes (ztake n V) = sp_ext V.
Proof. intros Hn. unfold ext_len_bytes, sp_ext. rewrite len7_prefix by lia. reflexivity. Qed.

Lemma sp_ext_range : sp_ext V = 0 \/ sp_ext V = 2 \/ sp_ext V = 8.
Proof. unfold sp_ext. destruct (sp_l7 V =? 127); [auto|]. destruct (sp_l7 V =? 126); auto. Qed.

Lemma sp_plen_range : 0 <= sp_plen V < 2 * WsFrame.two63.
Proof.
  unfold sp_plen, sp_l7.
  assert (Hb : is_byte (nth 1 V 0)) by (apply bytes_nth; exact HV). unfold is_byte in Hb.
  destruct (nth 1 V 0 mod 128 =? 127) eqn:E1; [|destruct (nth 1 V 0 mod 128 =? 126) eqn:E2].
  - pose proof (be_bound (zsub 2 10 V) (bytes_zsub 2 10 V HV)) as Hbd.
    assert (Hl : zlen (zsub 2 10 V) <= 8).
    { unfold zsub, ztake, zlen. rewrite firstn_length. lia. }
    pose proof (zlen_nonneg (zsub 2 10 V)).
    assert (256 ^ zlen (zsub 2 10 V) <= 256 ^ 8) by (apply Z.pow_le_mono_r; lia).
    change (256 ^ 8) with (2 * WsFrame.two63) in *. lia.
  - pose proof (be_bound (zsub 2 4 V) (bytes_zsub 2 4 V HV)) as Hbd.
    assert (Hl : zlen (zsub 2 4 V) <= 2).
    { unfold zsub, ztake, zlen. rewrite firstn_length. lia. }
    pose proof (zlen_nonneg (zsub 2 4 V)).
    assert (256 ^ zlen (zsub 2 4 V) <= 256 ^ 2) by (apply Z.pow_le_mono_r; lia).
    change (256 ^ 2) with 65536 in *. unfold WsFrame.two63. lia.
  - pose proof (Z.mod_pos_bound (nth 1 V 0) 128 ltac:(lia)). unfold WsFrame.two63. lia.
Qed.

Lemma plen_prefix n : 2 + sp_ext V <= n ->
  payload_length (ztake n V) = int_of_u64 (sp_plen V) \/
  (sp_plen V < WsFrame.two63 /\ payload_length (ztake n V) = sp_plen V).
Proof.
  intros Hn. pose proof sp_ext_range as He.
  unfold payload_length, sp_plen. rewrite len7_prefix by lia.
  unfold sp_ext in Hn.
  destruct (sp_l7 V =? 127) eqn:E1; [|destruct (sp_l7 V =? 126) eqn:E2].
  - left. rewrite zsub_ztake by lia. reflexivity.
  - right. rewrite zsub_ztake by lia. split; [|reflexivity].
    pose proof sp_plen_range as Hr. unfold sp_plen in Hr. rewrite E1, E2 in Hr.
    pose proof (be_bound (zsub 2 4 V) (bytes_zsub 2 4 V HV)) as Hbd.
    assert (Hl : zlen (zsub 2 4 V) <= 2) by (unfold zsub, ztake, zlen; rewrite firstn_length; lia).
    pose proof (zlen_nonneg (zsub 2 4 V)).
    assert (256 ^ zlen (zsub 2 4 V) <= 256 ^ 2) by (apply Z.pow_le_mono_r; lia).
    change (256 ^ 2) with 65536 in *. unfold be_value, be in *. unfold WsFrame.two63. lia.
  - right. split; [|reflexivity]. unfold sp_l7. assert (Hb : is_byte (nth 1 V 0)) by (apply bytes_nth; exact HV).
    unfold is_byte in Hb. pose proof (Z.mod_pos_bound (nth 1 V 0) 128 ltac:(lia)). unfold WsFrame.two63. lia.
Qed.

(* the maximum-size test of the decoder is the parser's *)
Lemma toobig_prefix n max : 2 + sp_ext V <= n -> 0 <= max < WsFrame.two63 ->
  ((payload_length (ztake n V) <? 0) || (payload_length (ztake n V) >? max)) = (sp_plen V >? max) /\
  ((sp_plen V >? max) = false -> payload_length (ztake n V) = sp_plen V).
Proof.
  intros Hn Hm. pose proof sp_plen_range as Hr.
  destruct (plen_prefix n Hn) as [H|[H1 H2]].
  - rewrite H. unfold int_of_u64. destruct (sp_plen V >=? WsFrame.two63) eqn:E; split; try lia.
  - rewrite H2. split; lia.
Qed.

End Prefix.

Lemma treserve_same s n : t_read (treserve s n) = t_read s /\ t_pend (treserve s n) = t_pend s /\ t_saved (treserve s n) = t_saved s.
Proof. unfold treserve. cbn. auto. Qed.

(* Decode is the pure parser applied to the unread bytes. *)
Theorem decode_spec c c' r :
  cinv c -> bytes (unread c) -> decode c = (c', r) ->
  cinv c' /\ c_max c' = c_max c /\
  match parse1 (c_max c) (unread c) with
  | PNeedMore => r = DNeedMore /\ unread c' = unread c
  | PTooBig => r = DTooBig /\ unread c' = unread c
  | PFrame raw rest => r = DFrame raw /\ unread c' = rest
  end.
Proof.
  intros Hc HVb Hd. destruct (reset_spec c Hc) as (Hr1 & Hm1 & HV1 & _).
  destruct Hc as [_ Hmax].
  unfold decode in Hd. set (c1 := reset_decode c) in *. set (V := unread c) in *.
  unfold parse1. fold V.
  pose proof (sp_ext_range V) as Hext. pose proof (sp_plen_range V HVb) as Hplen.
  (* helper: a codec whose src has the same stream, reset = false *)
  assert (Hun : forall s, t_read s ++ t_pend s = V -> unread (with_src c1 s) = V).
  { intros s Hs. unfold unread, with_src; cbn [c_reset c_flen c_src]. rewrite Hr1. rewrite zdrop_nonpos by lia. exact Hs. }
  assert (Hci : forall s, cinv (with_src c1 s)).
  { intros s. unfold cinv, with_src; cbn [c_reset c_flen c_src c_max]. rewrite Hr1, Hm1. split; [discriminate|exact Hmax]. }
  assert (Hmx : forall s, c_max (with_src c1 s) = c_max c) by (intros; unfold with_src; cbn; exact Hm1).
  (* stage 1: the two mandatory bytes *)
  destruct (tprep (c_src c1) ws_frameHeaderLength) as [s1 ok1] eqn:E1.
  destruct (tprep_spec _ _ _ _ E1) as (HVs1 & _ & _ & Hok1 & Hlen1). rewrite HV1 in HVs1, Hok1.
  change ws_frameHeaderLength with 2 in *.
  destruct ok1; cbn [negb] in Hd.
  2:{ inversion Hd; subst. replace (zlen V <? 2) with true by (destruct Hok1; destruct (zlen V <? 2) eqn:?; [reflexivity|]; exfalso; assert (2 <= zlen V) by lia; intuition discriminate).
      split; [apply Hci|]. split; [apply Hmx|]. split; [reflexivity|]. apply Hun. exact HVs1. }
  assert (H2 : 2 <= zlen V) by (apply Hok1; reflexivity).
  replace (zlen V <? 2) with false by lia.
  rewrite (tdata_spec s1 2) in Hd by (specialize (Hlen1 eq_refl); lia). rewrite HVs1 in Hd.
  rewrite (ext_prefix V HVb 2) in Hd by lia.
  (* stage 2: extended length *)
  destruct (tprep s1 (2 + sp_ext V)) as [s2 ok2] eqn:E2.
  destruct (tprep_spec _ _ _ _ E2) as (HVs2 & _ & _ & Hok2 & Hlen2). rewrite HVs1 in HVs2, Hok2.
  destruct ok2; cbn [negb] in Hd.
  2:{ inversion Hd; subst.
      replace (zlen V <? 2 + sp_ext V) with true by (destruct (zlen V <? 2 + sp_ext V) eqn:?; [reflexivity|]; exfalso; assert (2 + sp_ext V <= zlen V) by lia; intuition discriminate).
      split; [apply Hci|]. split; [apply Hmx|]. split; [reflexivity|]. apply Hun. exact HVs2. }
  assert (H3 : 2 + sp_ext V <= zlen V) by (apply Hok2; reflexivity).
  replace (zlen V <? 2 + sp_ext V) with false by lia.
  rewrite (tdata_spec s2 (2 + sp_ext V)) in Hd by (specialize (Hlen2 eq_refl); lia). rewrite HVs2 in Hd.
  destruct (toobig_prefix V HVb (2 + sp_ext V) (c_max c) ltac:(lia) Hmax) as [Htb Hpl].
  rewrite Hm1 in Hd. rewrite Htb in Hd.
  destruct (sp_plen V >? c_max c) eqn:Ebig.
  { inversion Hd; subst. split; [apply Hci|]. split; [apply Hmx|]. split; [reflexivity|]. apply Hun. exact HVs2. }
  specialize (Hpl eq_refl). rewrite Hpl in Hd.
  rewrite (masked_prefix V HVb (2 + sp_ext V)) in Hd by lia.
  change ws_frameMaskLength with 4 in Hd.
  (* stage 3: mask *)
  set (n3 := if sp_masked V then 2 + sp_ext V + 4 else 2 + sp_ext V) in *.
  destruct (tprep s2 n3) as [s3 ok3] eqn:E3.
  destruct (tprep_spec _ _ _ _ E3) as (HVs3 & _ & _ & Hok3 & Hlen3). rewrite HVs2 in HVs3, Hok3.
  assert (Htot : sp_total V = n3 + sp_plen V) by (unfold sp_total, n3; destruct (sp_masked V); lia).
  destruct ok3; cbn [negb] in Hd.
  2:{ inversion Hd; subst.
      replace (zlen V <? sp_total V) with true by (destruct (zlen V <? sp_total V) eqn:?; [reflexivity|]; exfalso; assert (n3 <= zlen V) by lia; intuition discriminate).
      split; [apply Hci|]. split; [apply Hmx|]. split; [reflexivity|]. apply Hun. exact HVs3. }
  (* stage 4: payload *)
  destruct (tprep s3 (n3 + sp_plen V)) as [s4 ok4] eqn:E4.
  destruct (tprep_spec _ _ _ _ E4) as (HVs4 & _ & _ & Hok4 & Hlen4). rewrite HVs3 in HVs4, Hok4.
  rewrite <- Htot in *.
  destruct ok4; cbn [negb] in Hd.
  2:{ inversion Hd; subst.
      replace (zlen V <? sp_total V) with true by (destruct (zlen V <? sp_total V) eqn:?; [reflexivity|]; exfalso; assert (sp_total V <= zlen V) by lia; intuition discriminate).
      split; [apply Hci|]. split; [apply Hmx|]. split; [reflexivity|]. apply Hun.
      destruct (treserve_same s4 (sp_plen V)) as (-> & -> & _). exact HVs4. }
  assert (H5 : sp_total V <= zlen V) by (apply Hok4; reflexivity).
  assert (H6 : 0 <= sp_total V) by (rewrite Htot; unfold n3; destruct (sp_masked V); lia).
  replace (zlen V <? sp_total V) with false by lia.
  rewrite (tdata_spec s4 (sp_total V)) in Hd by (specialize (Hlen4 eq_refl); lia). rewrite HVs4 in Hd.
  inversion Hd; subst; clear Hd.
  assert (Hzl : zlen (ztake (sp_total V) V) = sp_total V) by (apply zlen_ztake; lia).
  split.
  - unfold cinv; cbn [c_reset c_flen c_src c_max]. split; [intros _; rewrite Hzl; specialize (Hlen4 eq_refl); lia|].
    first [exact Hmax | rewrite Hm1; exact Hmax].
  - split; [cbn; first [reflexivity | exact Hm1]|]. split; [reflexivity|].
    unfold unread; cbn [c_reset c_flen c_src]. rewrite Hzl. rewrite HVs4. reflexivity.
Qed.

Lemma decode_never_panics c c' r : cinv c -> bytes (unread c) -> decode c = (c', r) -> r <> DPanic.
Proof.
  intros Hc Hb Hd. destruct (decode_spec c c' r Hc Hb Hd) as (_ & _ & H).
  destruct (parse1 (c_max c) (unread c)); destruct H as [-> _]; discriminate.
Qed.

(* feeding bytes (ByteBuffer.Write / ReadFrom) appends them to the unread stream *)
Lemma feed_spec c w : cinv c -> cinv (feed c w) /\ unread (feed c w) = unread c ++ w /\ c_max (feed c w) = c_max c.
Proof.
  intros [Hr Hm]. unfold feed, with_src, unread, cinv; cbn [c_reset c_flen c_src c_max t_read t_pend].
  split; [split; assumption|]. split; [|reflexivity].
  destruct (c_reset c) eqn:E.
  - specialize (Hr eq_refl). rewrite app_assoc. rewrite zdrop_app_l; [reflexivity|]. rewrite zlen_app. pose proof (zlen_nonneg (t_pend (c_src c))). lia.
  - rewrite !zdrop_nonpos by lia. rewrite app_assoc. reflexivity.
Qed.

(* a delivered frame is within the configured maximum *)
Lemma parse1_bounded max V raw rest : bytes V -> 0 <= max -> parse1 max V = PFrame raw rest ->
  sp_plen V <= max /\ zlen raw = sp_total V /\ zlen raw <= max + 14 /\ raw ++ rest = V.
Proof.
  intros Hb Hm. unfold parse1.
  destruct (zlen V <? 2) eqn:E1; [discriminate|]. destruct (zlen V <? 2 + sp_ext V) eqn:E2; [discriminate|].
  destruct (sp_plen V >? max) eqn:E3; [discriminate|]. destruct (zlen V <? sp_total V) eqn:E4; [discriminate|].
  intros H; inversion H; subst; clear H.
  pose proof (sp_ext_range V) as He. pose proof (sp_plen_range V Hb) as Hp.
  assert (Ht : 0 <= sp_total V <= zlen V) by (unfold sp_total in *; destruct (sp_masked V); lia).
  split; [lia|]. split; [apply zlen_ztake; lia|]. split.
  - rewrite zlen_ztake by lia. unfold sp_total. destruct (sp_masked V); lia.
  - apply ztake_zdrop_split.
Qed.

(* ---------------------------------------------------------------- appending bytes never changes a parsed frame *)

Lemma zsub_app_left {A} a b (x y : list A) : 0 <= a -> b <= zlen x -> zsub a b (x ++ y) = zsub a b x.
Proof.
  intros Ha Hb. destruct (Z_le_gt_dec b a); [rewrite !zsub_empty by lia; reflexivity|].
  unfold zsub. rewrite zdrop_app_l by lia. rewrite ztake_app_l; [reflexivity|]. rewrite zlen_zdrop by lia. lia.
Qed.

Lemma nth_app_left {A} i (x y : list A) d : Z.of_nat i < zlen x -> nth i (x ++ y) d = nth i x d.
Proof. intros H. apply app_nth1. unfold zlen in H. lia. Qed.

Lemma parse1_app max V w raw rest :
  parse1 max V = PFrame raw rest -> parse1 max (V ++ w) = PFrame raw (rest ++ w).
Proof.
  unfold parse1. pose proof (zlen_nonneg w) as Hw.
  destruct (zlen V <? 2) eqn:E1; [discriminate|].
  assert (Hl7 : sp_l7 (V ++ w) = sp_l7 V) by (unfold sp_l7; rewrite nth_app_left by (cbn; lia); reflexivity).
  assert (Hm : sp_masked (V ++ w) = sp_masked V) by (unfold sp_masked; rewrite nth_app_left by (cbn; lia); reflexivity).
  assert (He : sp_ext (V ++ w) = sp_ext V) by (unfold sp_ext; rewrite Hl7; reflexivity).
  destruct (zlen V <? 2 + sp_ext V) eqn:E2; [discriminate|].
  assert (Hp : sp_plen (V ++ w) = sp_plen V).
  { unfold sp_plen. rewrite Hl7. unfold sp_ext in E2.
    destruct (sp_l7 V =? 127) eqn:A1; [rewrite zsub_app_left by lia; reflexivity|].
    destruct (sp_l7 V =? 126) eqn:A2; [rewrite zsub_app_left by lia; reflexivity|reflexivity]. }
  assert (Ht : sp_total (V ++ w) = sp_total V) by (unfold sp_total; rewrite He, Hm, Hp; reflexivity).
  destruct (sp_plen V >? max) eqn:E3; [discriminate|].
  destruct (zlen V <? sp_total V) eqn:E4; [discriminate|].
  intros H; inversion H; subst; clear H.
  rewrite zlen_app, He, Hp, Ht.
  replace (zlen V + zlen w <? 2) with false by lia.
  replace (zlen V + zlen w <? 2 + sp_ext V) with false by lia.
  rewrite E3. replace (zlen V + zlen w <? sp_total V) with false by lia.
  rewrite ztake_app_l by lia. rewrite zdrop_app_l by lia. reflexivity.
Qed.

(* ---------------------------------------------------------------- whole sessions: feeds and decodes in any order *)

Inductive cop : Type := CFeed (w : list Z) | CDecode.

Fixpoint crun (c : codec) (ops : list cop) : codec * list (list Z) :=
  match ops with
  | [] => (c, [])
  | CFeed w :: rest => crun (feed c w) rest
  | CDecode :: rest =>
      let '(c1, r) := decode c in
      let '(c2, fs) := crun c1 rest in
      (c2, match r with DFrame f => f :: fs | _ => fs end)
  end.

Definition fed (ops : list cop) : list Z := concat (map (fun o => match o with CFeed w => w | CDecode => [] end) ops).
Definition feeds_ok (ops : list cop) : Prop := Forall (fun o => match o with CFeed w => bytes w | CDecode => True end) ops.

(* parsing the frames fs one after the other from T leaves U *)
Inductive pseq (max : Z) : list (list Z) -> list Z -> list Z -> Prop :=
| pseq_nil T : pseq max [] T T
| pseq_cons f fs T rest U : parse1 max T = PFrame f rest -> pseq max fs rest U -> pseq max (f :: fs) T U.

Lemma pseq_snoc max fs T U f rest : pseq max fs T U -> parse1 max U = PFrame f rest -> pseq max (fs ++ [f]) T rest.
Proof.
  induction 1 as [T|f0 fs T r U Hp Hs IH]; intros Hf; cbn.
  - econstructor; [exact Hf|constructor].
  - econstructor; [exact Hp|]. apply IH. exact Hf.
Qed.

Lemma pseq_feed max fs T U w : pseq max fs T U -> pseq max fs (T ++ w) (U ++ w).
Proof.
  induction 1 as [T|f0 fs T r U Hp Hs IH]; [constructor|].
  econstructor; [apply parse1_app; exact Hp|exact IH].
Qed.

Lemma pseq_app max fs1 fs2 T U W : pseq max fs1 T U -> pseq max fs2 U W -> pseq max (fs1 ++ fs2) T W.
Proof.
  induction 1 as [T|f0 fs T r U Hp Hs IH]; intros H2; cbn; [exact H2|].
  econstructor; [exact Hp|]. apply IH. exact H2.
Qed.

Lemma pseq_concat max fs T U : (forall V, bytes V -> True) -> pseq max fs T U -> True.
Proof. auto. Qed.

(* The frames delivered by any interleaving of feeds and decodes are exactly the frames the pure parser finds, one
   after the other, in the concatenation of everything that was fed: the result does not depend on the split points,
   and the decoder never loses its place in the stream. *)
Theorem session_sync ops : forall c,
  cinv c -> bytes (unread c) -> feeds_ok ops ->
  let '(c', fs) := crun c ops in
  cinv c' /\ bytes (unread c') /\ c_max c' = c_max c /\ pseq (c_max c) fs (unread c ++ fed ops) (unread c').
Proof.
  induction ops as [|o ops IH]; intros c Hc Hb Hf; cbn [crun].
  - unfold fed; cbn. rewrite app_nil_r. split; [exact Hc|]. split; [exact Hb|]. split; [reflexivity|]. constructor.
  - inversion Hf as [|? ? Ho Hrest]; subst. destruct o as [w|].
    + destruct (feed_spec c w Hc) as (Hc1 & Hu1 & Hm1).
      assert (Hb1 : bytes (unread (feed c w))) by (rewrite Hu1; apply bytes_app; assumption).
      specialize (IH (feed c w) Hc1 Hb1 Hrest).
      destruct (crun (feed c w) ops) as [c' fs]. destruct IH as (H1 & H2 & H3 & H4).
      split; [exact H1|]. split; [exact H2|]. split; [congruence|].
      rewrite Hm1, Hu1 in H4. unfold fed in *; cbn [map concat]. rewrite app_assoc. exact H4.
    + destruct (decode c) as [c1 r] eqn:Ed.
      destruct (decode_spec c c1 r Hc Hb Ed) as (Hc1 & Hm1 & Hsp).
      assert (Hb1 : bytes (unread c1)).
      { destruct (parse1 (c_max c) (unread c)) as [| |raw rest] eqn:Ep; destruct Hsp as [_ ->]; auto.
        destruct Hc as [_ Hmx]. destruct (parse1_bounded _ _ _ _ Hb (proj1 Hmx) Ep) as (_ & _ & _ & Hsplit).
        rewrite <- Hsplit in Hb. apply Forall_app in Hb. tauto. }
      specialize (IH c1 Hc1 Hb1 Hrest).
      destruct (crun c1 ops) as [c' fs]. destruct IH as (H1 & H2 & H3 & H4).
      split; [exact H1|]. split; [exact H2|]. split; [congruence|].
      unfold fed in *; cbn [map concat app]. rewrite Hm1 in H4.
      destruct (parse1 (c_max c) (unread c)) as [| |raw rest] eqn:Ep; destruct Hsp as [-> Hu]; rewrite Hu in H4; try exact H4.
      econstructor; [apply parse1_app; exact Ep|exact H4].
Qed.

(* ---------------------------------------------------------------- encoder round trip *)

Lemma ztake_app_exact_l {A} (a x : list A) : ztake (zlen a) (a ++ x) = a.
Proof. rewrite ztake_app_l by lia. apply ztake_all. lia. Qed.

Lemma zdrop_app_exact_l {A} (a x : list A) : zdrop (zlen a) (a ++ x) = x.
Proof. rewrite zdrop_app_r by lia. replace (zlen a - zlen a) with 0 by lia. apply zdrop_nonpos. lia. Qed.


Lemma be_bytes_len k n : zlen (be_bytes k n) = Z.of_nat k.
Proof.
  revert n. induction k as [|k IH]; intros n; [reflexivity|].
  cbn [be_bytes]. rewrite zlen_app, IH. unfold zlen; cbn [length]. lia.
Qed.

Lemma be_be_bytes k n : 0 <= n < 256 ^ Z.of_nat k -> be (be_bytes k n) = n.
Proof.
  revert n. induction k as [|k IH]; intros n Hn.
  - cbn in *. lia.
  - cbn [be_bytes]. rewrite be_app. rewrite IH.
    + pose proof (Z.div_mod n 256 ltac:(lia)). lia.
    + rewrite Nat2Z.inj_succ, Z.pow_succ_r in Hn by lia.
      split; [apply Z.div_pos; lia|]. apply Z.div_lt_upper_bound; lia.
Qed.

Lemma xor_mask_aux_length k key b : length (xor_mask_aux k key b) = length b.
Proof.
  revert k. induction b as [|x r IH]; intros k; [reflexivity|].
  cbn [xor_mask_aux]. destruct k as [|k0 k']; [destruct key as [|k0 k']|]; cbn [length]; rewrite ?IH; reflexivity.
Qed.

Lemma xor_mask_aux_len k key b : zlen (xor_mask_aux k key b) = zlen b.
Proof. unfold zlen. rewrite xor_mask_aux_length. reflexivity. Qed.

Lemma xor_mask_len key b : zlen (xor_mask key b) = zlen b.
Proof. apply xor_mask_aux_len. Qed.

Lemma zsub_cons2 {A} (x y : A) l k : 0 <= k -> zsub 2 (2 + k) (x :: y :: l) = ztake k l.
Proof. intros Hk. unfold zsub, zdrop. replace (2 + k - 2) with k by lia. reflexivity. Qed.

Lemma length_field_spec n : 0 <= n < WsFrame.two63 ->
  let '(l7, ext) := length_field n in
  0 <= l7 < 128 /\
  ((l7 = 127 /\ zlen ext = 8 /\ be ext = n /\ 65535 < n) \/ (l7 = 126 /\ zlen ext = 2 /\ be ext = n /\ 125 < n <= 65535) \/
   (l7 = n /\ ext = [] /\ n <= 125)).
Proof.
  intros Hn. unfold length_field.
  destruct (n >? 65535) eqn:E1; [|destruct (n >? 125) eqn:E2].
  - split; [lia|]. left. repeat split; try lia. apply be_be_bytes. unfold WsFrame.two63 in Hn. cbn. lia.
  - split; [lia|]. right; left. repeat split; try lia. apply be_be_bytes. cbn. lia.
  - split; [lia|]. right; right. repeat split; lia.
Qed.

Theorem roundtrip max fin rsv op masked key payload rest :
  0 <= rsv < 8 -> zlen payload <= max -> max < WsFrame.two63 -> (masked = true -> zlen key = 4) ->
  let F := build_frame fin rsv op masked key payload in
  parse1 max (F ++ rest) = PFrame F rest.
Proof.
  intros Hrsv Hlen Hmax Hkey F. unfold F, build_frame.
  pose proof (zlen_nonneg payload) as Hp0.
  pose proof (length_field_spec (zlen payload) ltac:(lia)) as Hlf.
  destruct (length_field (zlen payload)) as [l7 ext]. destruct Hlf as [Hl7 Hcases].
  set (b0 := (if fin then 128 else 0) + rsv * 16 + Z.land op 15).
  set (b1 := (if masked then 128 else 0) + l7).
  set (body := if masked then key ++ xor_mask key payload else payload).
  assert (Hbody : zlen body = (if masked then 4 else 0) + zlen payload).
  { unfold body. destruct masked; [rewrite zlen_app, xor_mask_len, (Hkey eq_refl); lia|lia]. }
  set (V := (b0 :: b1 :: ext ++ body) ++ rest).
  assert (Hn1 : nth 1 V 0 = b1) by reflexivity.
  assert (Hsl7 : sp_l7 V = l7).
  { unfold sp_l7. rewrite Hn1. unfold b1. destruct masked.
    - replace (128 + l7) with (l7 + 1 * 128) by lia. rewrite Z.mod_add by lia. apply Z.mod_small; lia.
    - apply Z.mod_small; lia. }
  assert (Hsm : sp_masked V = masked) by (unfold sp_masked; rewrite Hn1; unfold b1; destruct masked; lia).
  pose proof (zlen_nonneg ext) as He0. pose proof (zlen_nonneg rest) as Hr0.
  assert (HzV : zlen V = 2 + zlen ext + zlen body + zlen rest).
  { unfold V. rewrite zlen_app. unfold zlen at 1; cbn [length]. rewrite app_length. unfold zlen. lia. }
  assert (Hext : sp_ext V = zlen ext /\ sp_plen V = zlen payload).
  { unfold sp_ext, sp_plen. rewrite Hsl7.
    assert (Hz : forall k, k = zlen ext -> zsub 2 (2 + k) V = ext).
    { intros k ->. unfold V. cbn [app]. rewrite zsub_cons2 by lia. rewrite <- app_assoc. rewrite ztake_app_l by lia.
      apply ztake_all; lia. }
    destruct Hcases as [(-> & H1 & H2 & H3)|[(-> & H1 & H2 & H3)|(-> & -> & H3)]].
    - change (127 =? 127) with true. cbv iota. change 10 with (2 + 8). rewrite (Hz 8) by lia. split; [lia|exact H2].
    - change (126 =? 127) with false. change (126 =? 126) with true. cbv iota.
      change 4 with (2 + 2). rewrite (Hz 2) by lia. split; [lia|exact H2].
    - replace (zlen payload =? 127) with false by lia. replace (zlen payload =? 126) with false by lia.
      split; reflexivity. }
  destruct Hext as [Hse Hsp].
  assert (Hst : sp_total V = 2 + zlen ext + zlen body) by (unfold sp_total; rewrite Hse, Hsm, Hsp, Hbody; destruct masked; lia).
  pose proof (zlen_nonneg body) as Hb0.
  unfold parse1. fold V. rewrite Hse, Hsp, Hst.
  replace (zlen V <? 2) with false by lia.
  replace (zlen V <? 2 + zlen ext) with false by lia.
  replace (zlen payload >? max) with false by lia.
  replace (zlen V <? 2 + zlen ext + zlen body) with false by lia.
  assert (HzF : zlen (b0 :: b1 :: ext ++ body) = 2 + zlen ext + zlen body).
  { unfold zlen; cbn [length]. rewrite app_length. lia. }
  unfold V. rewrite <- HzF. rewrite ztake_app_exact_l, zdrop_app_exact_l. reflexivity.
Qed.
