(* C06: whole messages.  The message API (NextMessage / AsyncNextMessage and the continuation that resumes a parked
   asynchronous read) over a byte stream that holds the frames of one conforming message - data fragments with Ping/Pong
   frames between them - in ANY segmentation by the transport: the events are the control callbacks in order followed by
   exactly one message whose payload is the concatenation of the fragments' payloads, whose type is the first fragment's
   opcode; the stream position afterwards is exactly behind the final fragment.  By induction over the frame list on top
   of the per-frame theorems of WsStreamProofs (ws_read_loop_spec, flush_gen_wire, next_frame_gen_wire). *)
From Sonic Require Import Base.Prelude Base.ListLemmas Gen.Consts Gen.Preds Model.ByteBuffer Spec.ThreeFifo Model.WsFrame
  Spec.FrameParser Model.WsCodec Model.Transport Model.WsStream Proofs.WsCodecProofs Proofs.WsStreamProofs.
Local Open Scope Z_scope.

(* ---------------------------------------------------------------- the transport holds data only (no EOF, no error) *)
Definition is_data_ev (e : inev) : bool := match e with InData _ => true | _ => false end.
Definition all_data (q : list inev) : Prop := forallb is_data_ev q = true.

Lemma tr_read_ev_all_data q : forall q' r, all_data q -> tr_read_ev q = (q', r) ->
  all_data q' /\ ((exists w, r = RGot w) \/ (r = RWouldBlock /\ q' = [] /\ wflat q = [])).
Proof.
  induction q as [|e q IH]; intros q' r Ha H; cbn [tr_read_ev] in H.
  - inversion H; subst. split; [reflexivity|]. right. auto.
  - unfold all_data in Ha. cbn [forallb] in Ha. apply andb_true_iff in Ha as [He Hq].
    destruct e as [l| |]; try discriminate. destruct l as [|x l].
    + destruct (IH _ _ Hq H) as [A B]. split; [exact A|].
      destruct B as [B|(B1 & B2 & B3)]; [left; exact B|right]. repeat split; auto.
    + inversion H; subst. split; [exact Hq|]. left; eauto.
Qed.

Lemma parse1_toobig_app max V w : parse1 max V = PTooBig -> parse1 max (V ++ w) = PTooBig.
Proof.
  unfold parse1. pose proof (zlen_nonneg w) as Hw.
  destruct (zlen V <? 2) eqn:E1; [discriminate|].
  assert (Hl7 : sp_l7 (V ++ w) = sp_l7 V) by (unfold sp_l7; rewrite nth_app_left by (cbn; lia); reflexivity).
  assert (He : sp_ext (V ++ w) = sp_ext V) by (unfold sp_ext; rewrite Hl7; reflexivity).
  destruct (zlen V <? 2 + sp_ext V) eqn:E2; [discriminate|].
  assert (Hp : sp_plen (V ++ w) = sp_plen V).
  { unfold sp_plen. rewrite Hl7. unfold sp_ext in E2.
    destruct (sp_l7 V =? 127) eqn:A1; [rewrite zsub_app_left by lia; reflexivity|].
    destruct (sp_l7 V =? 126) eqn:A2; [rewrite zsub_app_left by lia; reflexivity|reflexivity]. }
  destruct (sp_plen V >? max) eqn:E3.
  - intros _. rewrite zlen_app, He, Hp.
    replace (zlen V + zlen w <? 2) with false by lia.
    replace (zlen V + zlen w <? 2 + sp_ext V) with false by lia. rewrite E3. reflexivity.
  - destruct (zlen V <? sp_total V); discriminate.
Qed.

(* completeness of the read loop: when the stream holds a whole frame, the loop delivers it, however it is cut *)
Lemma ws_read_loop_complete fuel : forall c t async c' t' r f rest,
  cinv c -> bytes (unread c) -> wevs_ok (tr_in t) -> all_data (tr_in t) -> (length (tr_in t) < fuel)%nat ->
  parse1 (c_max c) (wstream c t) = PFrame f rest ->
  ws_read_loop fuel c t async = (c', t', r) ->
  r = RdFrame f /\ wstream c' t' = rest /\ all_data (tr_in t').
Proof.
  induction fuel as [|fu IH]; intros c t async c' t' r f rest Hc Hb Ht Ha Hf Hp H; [lia|].
  cbn [ws_read_loop] in H. destruct (decode c) as [c1 dr] eqn:Ed.
  destruct (decode_spec c c1 dr Hc Hb Ed) as (Hc1 & Hm1 & Hsp).
  unfold wstream in Hp.
  destruct (parse1 (c_max c) (unread c)) as [| |raw rest0] eqn:Ep.
  - destruct Hsp as [-> Hu]. unfold tr_read in H. destruct (tr_read_ev (tr_in t)) as [q rr] eqn:Er.
    destruct (wtr_read_ev_spec _ _ _ Ht Er) as (Hq & Hrr).
    destruct (tr_read_ev_all_data _ _ _ Ha Er) as (Haq & Hcase).
    destruct Hcase as [[w ->]|(-> & -> & Hnil)].
    + destruct Hrr as (Hfl & Hw & Hlen).
      destruct (feed_spec c1 w Hc1) as (Hc2 & Hu2 & Hm2).
      assert (Hb2 : bytes (unread (feed c1 w))).
      { rewrite Hu2. apply bytes_app; [rewrite Hu; exact Hb|exact Hw]. }
      apply (IH (feed c1 w) (mktr q (tr_wire t) (tr_wfail t) (tr_wblock t)) async c' t' r f rest Hc2 Hb2 Hq Haq);
        [cbn; lia| |exact H].
      unfold wstream. cbn [tr_in]. rewrite Hu2, Hu, Hm2, Hm1, <- app_assoc, <- Hfl. exact Hp.
    + rewrite Hnil, app_nil_r in Hp. congruence.
  - rewrite (parse1_toobig_app _ _ _ Ep) in Hp. discriminate.
  - destruct Hsp as [-> Hu]. inversion H; subst.
    rewrite (parse1_app _ _ (wflat (tr_in t')) _ _ Ep) in Hp. inversion Hp; subst.
    split; [reflexivity|]. split; [reflexivity|exact Ha].
Qed.

(* ---------------------------------------------------------------- conforming frames *)
Definition ctl_conf (f : list Z) : bool :=
  (verify_frame f =? eNone) && is_fin f && (payload_length f <=? ws_MaxControlFramePayloadLength)
  && ((opcode_of f =? ws_OpcodePing) || (opcode_of f =? ws_OpcodePong)).

Definition data_conf (f : list Z) : bool :=
  (verify_frame f =? eNone) && negb (Opcode_IsReserved (opcode_of f)) && (payload_length f =? zlen (payload_of f)).

Definition frame_conf (f : list Z) : bool := if Opcode_IsControl (opcode_of f) then ctl_conf f else data_conf f.

Definition same_in (s s1 : ws) : Prop :=
  w_state s1 = w_state s /\ w_codec s1 = w_codec s /\ w_tr s1 = w_tr s /\ w_max s1 = w_max s /\ w_rpend s1 = w_rpend s.

Lemma queue_frame_same_in s fin op p : same_in s (queue_frame s fin op p).
Proof. unfold queue_frame, take_key. destruct (w_keys s); cbn; repeat split; reflexivity. Qed.

Lemma handle_frame_conf s f : frame_conf f = true -> exists s1, handle_frame s f = (s1, eNone) /\ same_in s s1.
Proof.
  unfold frame_conf, handle_frame. destruct (Opcode_IsControl (opcode_of f)) eqn:Ec.
  - unfold ctl_conf. rewrite !andb_true_iff. intros [[[Hv Hfin] Hl] Hop].
    apply Z.eqb_eq in Hv. rewrite Hv. change (negb (eNone =? eNone)) with false. cbv iota.
    unfold handle_control. rewrite Hfin. cbn [negb].
    replace (payload_length f >? ws_MaxControlFramePayloadLength) with false by lia.
    apply orb_true_iff in Hop as [Hop|Hop]; apply Z.eqb_eq in Hop; rewrite Hop.
    + change (ws_OpcodePing =? ws_OpcodePing) with true. cbv iota.
      change (negb (eNone =? eNone)) with false. cbv iota.
      eexists; split; [reflexivity|]. destruct (w_state s =? ws_StateActive).
      * apply queue_frame_same_in.
      * repeat split; reflexivity.
    + change (ws_OpcodePong =? ws_OpcodePing) with false. change (ws_OpcodePong =? ws_OpcodePong) with true. cbv iota.
      change (negb (eNone =? eNone)) with false. cbv iota.
      eexists; split; [reflexivity|]. repeat split; reflexivity.
  - unfold data_conf. rewrite !andb_true_iff. intros [[Hv Hr] _].
    apply Z.eqb_eq in Hv. rewrite Hv. change (negb (eNone =? eNone)) with false. cbv iota.
    unfold handle_data. apply negb_true_iff in Hr. rewrite Hr.
    change (negb (eNone =? eNone)) with false. cbv iota.
    eexists; split; [reflexivity|]. repeat split; reflexivity.
Qed.

(* ---------------------------------------------------------------- the stream state *)
Definition St (s : ws) : Prop :=
  wire_inv s /\ cinv (w_codec s) /\ bytes (unread (w_codec s)) /\ wevs_ok (tr_in (w_tr s)) /\
  all_data (tr_in (w_tr s)) /\ can_read s = true.

Definition sstream (s : ws) : list Z := wstream (w_codec s) (w_tr s).

Lemma bytes_wflat q : wevs_ok q -> bytes (wflat q).
Proof.
  induction q as [|e q IH]; intros H; [constructor|]. inversion H as [|? ? He Hq]; subst.
  unfold wflat. cbn [map concat]. destruct e; [apply bytes_app; [exact He|exact (IH Hq)]|exact (IH Hq)|exact (IH Hq)].
Qed.

Lemma St_bytes s : St s -> bytes (sstream s) /\ 0 <= c_max (w_codec s).
Proof.
  intros (_ & Hc & Hb & Ht & _). split; [apply bytes_app; [exact Hb|apply bytes_wflat; exact Ht]|].
  destruct Hc as [_ Hm]. lia.
Qed.

(* a delivered frame takes at least its two header bytes off the stream *)
Lemma parse1_shrinks max V f r : bytes V -> 0 <= max -> parse1 max V = PFrame f r -> zlen r + 2 <= zlen V.
Proof.
  intros Hb Hm Hp. destruct (parse1_bounded _ _ _ _ Hb Hm Hp) as (_ & Hlen & _ & Hsplit).
  pose proof (sp_ext_range V) as He. pose proof (sp_plen_range V Hb) as Hpl.
  assert (Hz : zlen V = zlen f + zlen r) by (rewrite <- Hsplit at 1; apply zlen_app).
  pose proof (zlen_nonneg r). rewrite Hz, Hlen. unfold sp_total. destruct (sp_masked V); lia.
Qed.

Lemma St_set_rpend s k : St s -> St (set_rpend s k).
Proof.
  intros (Hw & Hc & Hb & Ht & Ha & Hcr). split; [eapply same_out_wire; [apply set_rpend_out|exact Hw]|].
  cbn. split; [exact Hc|]. split; [exact Hb|]. split; [exact Ht|]. split; [exact Ha|exact Hcr].
Qed.

(* Flush on a healthy transport: nothing of the inbound side changes *)
Lemma flush_ok async s s0 e : St s -> flush_gen async s = (s0, e) ->
  e = eNone /\ St s0 /\ sstream s0 = sstream s /\ w_state s0 = w_state s /\ w_max s0 = w_max s /\
  w_codec s0 = w_codec s /\ w_rpend s0 = w_rpend s.
Proof.
  intros (Hw & Hc & Hb & Ht & Ha & Hcr) Ef.
  destruct (flush_gen_wire _ _ _ _ Ef Hw) as (Hw0 & -> & _ & Hst0 & _ & _ & Hc0 & Hin0 & Hrp0 & Hmx0).
  split; [reflexivity|]. split.
  - unfold St. rewrite Hc0, Hin0. split; [exact Hw0|]. split; [exact Hc|]. split; [exact Hb|]. split; [exact Ht|].
    split; [exact Ha|]. unfold can_read in *. rewrite Hst0. exact Hcr.
  - unfold sstream, wstream. rewrite Hc0, Hin0. split; [reflexivity|]. split; [exact Hst0|]. split; [exact Hmx0|].
    split; [reflexivity|exact Hrp0].
Qed.

(* the read and the handling of one conforming frame *)
Lemma read_and_handle_conf async s f rest s1 r :
  St s -> parse1 (c_max (w_codec s)) (sstream s) = PFrame f rest -> frame_conf f = true ->
  read_and_handle async s = (s1, r) ->
  r = FGot f eNone /\ St s1 /\ sstream s1 = rest /\ w_state s1 = w_state s /\ w_max s1 = w_max s /\
  c_max (w_codec s1) = c_max (w_codec s) /\ w_rpend s1 = w_rpend s.
Proof.
  intros (Hw & Hc & Hb & Ht & Ha & Hcr) Hp Hconf H.
  pose proof (read_and_handle_wire _ _ _ _ H Hw) as Hw1.
  unfold read_and_handle in H.
  destruct (ws_read_loop (rfuel (w_tr s)) (w_codec s) (w_tr s) async) as [[c t] rr] eqn:Er.
  assert (Hlen : (length (tr_in (w_tr s)) < rfuel (w_tr s))%nat) by (unfold rfuel; lia).
  destruct (ws_read_loop_complete _ _ _ _ _ _ _ _ _ Hc Hb Ht Ha Hlen Hp Er) as (-> & Hrest & Ha').
  destruct (ws_read_loop_spec _ _ _ _ _ _ _ Hc Hb Ht Hlen Er) as (Hc' & Hb' & Ht' & Hm' & _).
  cbn [after_read] in H.
  destruct (handle_frame_conf (set_io s c t) f Hconf) as (s2 & Hh & Hs1 & Hs2 & Hs3 & Hs4 & Hs5).
  rewrite Hh in H. inversion H; subst s1 r; clear H.
  cbn in Hs1, Hs2, Hs3, Hs4, Hs5.
  split; [reflexivity|]. split.
  - unfold St. rewrite Hs2, Hs3. split; [exact Hw1|]. split; [exact Hc'|]. split; [exact Hb'|]. split; [exact Ht'|].
    split; [exact Ha'|]. unfold can_read in *. rewrite Hs1. exact Hcr.
  - unfold sstream. rewrite Hs2, Hs3. split; [exact Hrest|]. split; [congruence|]. split; [congruence|].
    split; [exact Hm'|congruence].
Qed.

(* one frame through NextFrame / AsyncNextFrame *)
Lemma next_frame_conf async s f rest s1 r :
  St s -> parse1 (c_max (w_codec s)) (sstream s) = PFrame f rest -> frame_conf f = true ->
  next_frame_gen async s = (s1, r) ->
  r = FGot f eNone /\ St s1 /\ sstream s1 = rest /\ w_state s1 = w_state s /\ w_max s1 = w_max s /\
  c_max (w_codec s1) = c_max (w_codec s) /\ w_rpend s1 = w_rpend s.
Proof.
  intros HSt Hp Hconf H.
  unfold next_frame_gen in H. destruct (flush_gen async s) as [s0 fe] eqn:Ef.
  destruct (flush_ok _ _ _ _ HSt Ef) as (-> & HSt0 & Hss0 & Hst0 & Hmx0 & Hc0 & Hrp0).
  change (negb (eNone =? eNone)) with false in H. cbv iota in H.
  assert (Hcr0 : can_read s0 = true) by (destruct HSt0 as (_ & _ & _ & _ & _ & X); exact X).
  rewrite Hcr0 in H. cbn [negb] in H.
  destruct (read_and_handle async s0) as [s2 r2] eqn:Er.
  rewrite <- Hc0, <- Hss0 in Hp.
  destruct (read_and_handle_conf _ _ _ _ _ _ HSt0 Hp Hconf Er) as (-> & A & B & C & D & E & F).
  change (eNone =? eEOF) with false in H. rewrite andb_false_r in H. inversion H; subst s1 r; clear H.
  split; [reflexivity|]. split; [exact A|]. split; [exact B|]. split; [congruence|]. split; [congruence|].
  split; congruence.
Qed.

(* the asynchronous read when the stream does not hold a whole frame yet: it is parked, nothing is lost *)
Lemma ws_read_loop_pending fuel : forall c t c' t' r,
  cinv c -> bytes (unread c) -> wevs_ok (tr_in t) -> all_data (tr_in t) -> (length (tr_in t) < fuel)%nat ->
  parse1 (c_max c) (wstream c t) = PNeedMore ->
  ws_read_loop fuel c t true = (c', t', r) -> r = RdPending /\ all_data (tr_in t').
Proof.
  induction fuel as [|fu IH]; intros c t c' t' r Hc Hb Ht Ha Hf Hp H; [lia|].
  cbn [ws_read_loop] in H. destruct (decode c) as [c1 dr] eqn:Ed.
  destruct (decode_spec c c1 dr Hc Hb Ed) as (Hc1 & Hm1 & Hsp).
  unfold wstream in Hp.
  destruct (parse1 (c_max c) (unread c)) as [| |raw rest0] eqn:Ep.
  - destruct Hsp as [-> Hu]. unfold tr_read in H. destruct (tr_read_ev (tr_in t)) as [q rr] eqn:Er.
    destruct (wtr_read_ev_spec _ _ _ Ht Er) as (Hq & Hrr).
    destruct (tr_read_ev_all_data _ _ _ Ha Er) as (Haq & Hcase).
    destruct Hcase as [[w ->]|(-> & -> & Hnil)].
    + destruct Hrr as (Hfl & Hw & Hlen).
      destruct (feed_spec c1 w Hc1) as (Hc2 & Hu2 & Hm2).
      assert (Hb2 : bytes (unread (feed c1 w))).
      { rewrite Hu2. apply bytes_app; [rewrite Hu; exact Hb|exact Hw]. }
      apply (IH (feed c1 w) (mktr q (tr_wire t) (tr_wfail t) (tr_wblock t)) c' t' r Hc2 Hb2 Hq Haq); [cbn; lia| |exact H].
      unfold wstream. cbn [tr_in]. rewrite Hu2, Hu, Hm2, Hm1, <- app_assoc, <- Hfl. exact Hp.
    + inversion H; subst. split; reflexivity.
  - rewrite (parse1_toobig_app _ _ _ Ep) in Hp. discriminate.
  - rewrite (parse1_app _ _ (wflat (tr_in t)) _ _ Ep) in Hp. discriminate.
Qed.

Lemma read_and_handle_pending s s1 r :
  St s -> parse1 (c_max (w_codec s)) (sstream s) = PNeedMore ->
  read_and_handle true s = (s1, r) ->
  r = FPending /\ St s1 /\ sstream s1 = sstream s /\ w_state s1 = w_state s /\ w_max s1 = w_max s /\
  c_max (w_codec s1) = c_max (w_codec s) /\ w_rpend s1 = w_rpend s.
Proof.
  intros (Hw & Hc & Hb & Ht & Ha & Hcr) Hp H.
  pose proof (read_and_handle_wire _ _ _ _ H Hw) as Hw1.
  unfold read_and_handle in H.
  destruct (ws_read_loop (rfuel (w_tr s)) (w_codec s) (w_tr s) true) as [[c t] rr] eqn:Er.
  assert (Hlen : (length (tr_in (w_tr s)) < rfuel (w_tr s))%nat) by (unfold rfuel; lia).
  destruct (ws_read_loop_pending _ _ _ _ _ _ Hc Hb Ht Ha Hlen Hp Er) as (-> & Ha').
  destruct (ws_read_loop_spec _ _ _ _ _ _ _ Hc Hb Ht Hlen Er) as (Hc' & Hb' & Ht' & Hm' & Hsame).
  cbn [after_read] in H. inversion H; subst s1 r; clear H.
  split; [reflexivity|]. split; [|cbn; split; [exact Hsame|]; split; [reflexivity|]; split; [reflexivity|]; split; [exact Hm'|reflexivity]].
  unfold St. cbn. split; [exact Hw1|]. split; [exact Hc'|]. split; [exact Hb'|]. split; [exact Ht'|]. split; [exact Ha'|exact Hcr].
Qed.

Lemma next_frame_pending s s1 r :
  St s -> parse1 (c_max (w_codec s)) (sstream s) = PNeedMore ->
  next_frame_gen true s = (s1, r) ->
  r = FPending /\ St s1 /\ sstream s1 = sstream s /\ w_state s1 = w_state s /\ w_max s1 = w_max s /\
  c_max (w_codec s1) = c_max (w_codec s) /\ w_rpend s1 = w_rpend s.
Proof.
  intros HSt Hp H.
  unfold next_frame_gen in H. destruct (flush_gen true s) as [s0 fe] eqn:Ef.
  destruct (flush_ok _ _ _ _ HSt Ef) as (-> & HSt0 & Hss0 & Hst0 & Hmx0 & Hc0 & Hrp0).
  change (negb (eNone =? eNone)) with false in H. cbv iota in H.
  assert (Hcr0 : can_read s0 = true) by (destruct HSt0 as (_ & _ & _ & _ & _ & X); exact X).
  rewrite Hcr0 in H. cbn [negb] in H.
  destruct (read_and_handle true s0) as [s2 r2] eqn:Er.
  rewrite <- Hc0, <- Hss0 in Hp.
  destruct (read_and_handle_pending _ _ _ HSt0 Hp Er) as (-> & A & B & C & D & E & F).
  inversion H; subst s1 r; clear H.
  split; [reflexivity|]. split; [exact A|]. split; [congruence|]. split; [congruence|]. split; [congruence|].
  split; congruence.
Qed.

(* ---------------------------------------------------------------- one data frame through the reassembly *)
Lemma msg_frame_data async s buflen acc cont mtype f :
  Opcode_IsControl (opcode_of f) = false ->
  zlen acc + zlen (payload_of f) <= buflen -> zlen acc + zlen (payload_of f) <= w_max s ->
  payload_length f = zlen (payload_of f) ->
  Opcode_IsContinuation (opcode_of f) = cont ->
  let mt := if mtype =? ws_TypeNone then opcode_of f else mtype in
  let acc' := acc ++ payload_of f in
  msg_frame async s buflen acc cont mtype f eNone =
    (s, if is_fin f then MDone [EMsg mt (zlen acc') acc' eNone] else MMore acc' true mt []).
Proof.
  intros Hc Hfit Hmax Hpl Hcont mt acc'.
  pose proof (zlen_nonneg acc). pose proof (zlen_nonneg (payload_of f)).
  unfold msg_frame. change (negb (eNone =? eNone)) with false. cbv iota. rewrite Hc. fold mt.
  assert (Hcp : copy_into buflen acc (payload_of f) = acc') by (unfold copy_into, acc'; rewrite ztake_all by lia; reflexivity).
  rewrite Hcp.
  assert (Hl : zlen acc' = zlen acc + zlen (payload_of f)) by (unfold acc'; apply zlen_app).
  replace ((zlen acc' >? w_max s) || negb (zlen acc' - zlen acc =? payload_length f)) with false by lia.
  rewrite Hcont. destruct cont; cbn [negb]; change (negb (eNone =? eNone)) with false; cbn [orb];
    destruct (is_fin f); reflexivity.
Qed.

(* ---------------------------------------------------------------- one conforming message *)
Fixpoint frag_seq (cont : bool) (fs : list (list Z)) : bool :=
  match fs with
  | [] => false
  | f :: r =>
      if Opcode_IsControl (opcode_of f) then ctl_conf f && frag_seq cont r
      else data_conf f && Bool.eqb (Opcode_IsContinuation (opcode_of f)) cont &&
           (if is_fin f then match r with [] => true | _ => false end else frag_seq true r)
  end.

Fixpoint msg_payload (fs : list (list Z)) : list Z :=
  match fs with
  | [] => []
  | f :: r => if Opcode_IsControl (opcode_of f) then msg_payload r else payload_of f ++ msg_payload r
  end.

Fixpoint msg_ctl (fs : list (list Z)) : list wev :=
  match fs with
  | [] => []
  | f :: r => if Opcode_IsControl (opcode_of f) then ECtl (opcode_of f) (payload_of f) :: msg_ctl r else msg_ctl r
  end.

Fixpoint msg_type (mtype : Z) (fs : list (list Z)) : Z :=
  match fs with
  | [] => mtype
  | f :: r => if Opcode_IsControl (opcode_of f) then msg_type mtype r
              else msg_type (if mtype =? ws_TypeNone then opcode_of f else mtype) r
  end.

Theorem msg_loop_whole fs : forall fuel async s buflen acc cont mtype rest s' evs,
  St s -> pseq (c_max (w_codec s)) fs (sstream s) rest -> frag_seq cont fs = true ->
  (length fs <= fuel)%nat ->
  zlen acc + zlen (msg_payload fs) <= buflen -> zlen acc + zlen (msg_payload fs) <= w_max s ->
  msg_loop fuel async s buflen acc cont mtype = (s', evs) ->
  evs = msg_ctl fs ++ [EMsg (msg_type mtype fs) (zlen (acc ++ msg_payload fs)) (acc ++ msg_payload fs) eNone] /\
  St s' /\ sstream s' = rest /\ w_state s' = w_state s /\ w_max s' = w_max s /\ w_rpend s' = w_rpend s.
Proof.
  induction fs as [|f fs IH]; intros fuel async s buflen acc cont mtype rest s' evs HSt Hps Hfr Hfu Hb1 Hb2 H;
    [discriminate|].
  inversion Hps as [|f0 fs0 T rest1 U Hp1 Hps1]; subst.
  destruct fuel as [|fu]; [cbn in Hfu; lia|]. cbn [length] in Hfu. assert (Hfu' : (length fs <= fu)%nat) by lia.
  cbn [msg_loop] in H. destruct (next_frame_gen async s) as [s1 r] eqn:En.
  assert (Hconf : frame_conf f = true).
  { unfold frame_conf. cbn [frag_seq] in Hfr. destruct (Opcode_IsControl (opcode_of f)).
    - apply andb_true_iff in Hfr. tauto.
    - rewrite !andb_true_iff in Hfr. tauto. }
  destruct (next_frame_conf _ _ _ _ _ _ HSt Hp1 Hconf En) as (-> & HSt1 & Hss1 & Hst1 & Hmx1 & Hcm1 & Hrp1).
  cbn [frag_seq msg_payload msg_ctl msg_type] in *.
  destruct (Opcode_IsControl (opcode_of f)) eqn:Ec.
  - (* a control frame between the fragments *)
    apply andb_true_iff in Hfr as [_ Hfr].
    unfold msg_frame in H. change (negb (eNone =? eNone)) with false in H. cbv iota in H. rewrite Ec in H.
    destruct (msg_loop fu async s1 buflen acc cont mtype) as [s3 evs'] eqn:El. inversion H; subst s' evs; clear H.
    rewrite <- Hcm1, <- Hss1 in Hps1. rewrite <- Hmx1 in Hb2.
    destruct (IH _ _ _ _ _ _ _ _ _ _ HSt1 Hps1 Hfr Hfu' Hb1 Hb2 El) as (-> & A & B & C & D & E).
    split; [reflexivity|]. split; [exact A|]. split; [exact B|]. split; [congruence|]. split; congruence.
  - rewrite !andb_true_iff in Hfr. destruct Hfr as [[Hdc Hcont] Hfin].
    apply Bool.eqb_prop in Hcont.
    assert (Hpl : payload_length f = zlen (payload_of f)).
    { unfold data_conf in Hdc. rewrite !andb_true_iff in Hdc. lia. }
    rewrite zlen_app in Hb1, Hb2.
    pose proof (zlen_nonneg (msg_payload fs)) as Hnn. pose proof (zlen_nonneg acc) as Hna.
    pose proof (zlen_nonneg (payload_of f)) as Hnp.
    rewrite (msg_frame_data async s1 buflen acc cont mtype f Ec ltac:(lia) ltac:(lia) Hpl Hcont) in H.
    destruct (is_fin f) eqn:Efin.
    + destruct fs as [|f1 fs]; [|discriminate]. inversion Hps1; subst. inversion H; subst s' evs; clear H.
      cbn [msg_payload msg_ctl msg_type app]. rewrite app_nil_r.
      split; [reflexivity|]. split; [exact HSt1|]. split; [reflexivity|]. split; [exact Hst1|]. split; [exact Hmx1|exact Hrp1].
    + destruct (msg_loop fu async s1 buflen (acc ++ payload_of f) true
                  (if mtype =? ws_TypeNone then opcode_of f else mtype)) as [s3 evs'] eqn:El.
      inversion H; subst s' evs; clear H.
      rewrite <- Hcm1, <- Hss1 in Hps1.
      assert (Hb1' : zlen (acc ++ payload_of f) + zlen (msg_payload fs) <= buflen) by (rewrite zlen_app; lia).
      assert (Hb2' : zlen (acc ++ payload_of f) + zlen (msg_payload fs) <= w_max s1) by (rewrite zlen_app; lia).
      destruct (IH _ _ _ _ _ _ _ _ _ _ HSt1 Hps1 Hfin Hfu' Hb1' Hb2' El) as (-> & A & B & C & D & E).
      rewrite <- !app_assoc. cbn [app].
      split; [reflexivity|]. split; [exact A|]. split; [exact B|]. split; [congruence|]. split; congruence.
Qed.

(* ---------------------------------------------------------------- the asynchronous API across would-block *)
Definition npend (evs : list wev) : list wev := filter (fun e => match e with EPending => false | _ => true end) evs.

Lemma npend_app a b : npend (a ++ b) = npend a ++ npend b.
Proof. apply filter_app. Qed.

Lemma npend_ctl fs : npend (msg_ctl fs) = msg_ctl fs.
Proof.
  induction fs as [|f fs IH]; [reflexivity|]. cbn [msg_ctl]. destruct (Opcode_IsControl (opcode_of f)); [|exact IH].
  cbn. unfold npend in IH. rewrite IH. reflexivity.
Qed.

Lemma msg_ctl_app a b : msg_ctl (a ++ b) = msg_ctl a ++ msg_ctl b.
Proof.
  induction a as [|f a IH]; [reflexivity|]. cbn [app msg_ctl]. destruct (Opcode_IsControl (opcode_of f)); rewrite IH; reflexivity.
Qed.

Lemma msg_payload_app a b : msg_payload (a ++ b) = msg_payload a ++ msg_payload b.
Proof.
  induction a as [|f a IH]; [reflexivity|]. cbn [app msg_payload]. destruct (Opcode_IsControl (opcode_of f)); rewrite IH;
    [reflexivity|apply app_assoc].
Qed.

Lemma msg_type_app a : forall mtype b, msg_type mtype (a ++ b) = msg_type (msg_type mtype a) b.
Proof.
  induction a as [|f a IH]; intros mtype b; [reflexivity|]. cbn [app msg_type].
  destruct (Opcode_IsControl (opcode_of f)); apply IH.
Qed.

Lemma frag_seq_nonempty cont fs : frag_seq cont fs = true -> fs <> [].
Proof. destruct fs; [discriminate|intros _ H; discriminate]. Qed.

(* The general step: the frames still owed by the peer are fs; part of their bytes is in the stream now, [future] arrives
   later.  The asynchronous reassembly consumes exactly the frames that are complete now: it either finishes the message
   or parks with the accumulated state, and the frames not yet consumed are still exactly the rest of the stream. *)
Lemma msg_loop_async fs : forall fuel s buflen acc cont mtype future R s' evs,
  St s -> pseq (c_max (w_codec s)) fs (sstream s ++ future) R -> frag_seq cont fs = true ->
  zlen (sstream s) < 2 * Z.of_nat fuel ->
  zlen acc + zlen (msg_payload fs) <= buflen -> zlen acc + zlen (msg_payload fs) <= w_max s ->
  msg_loop fuel true s buflen acc cont mtype = (s', evs) ->
  St s' /\ w_state s' = w_state s /\ w_max s' = w_max s /\ c_max (w_codec s') = c_max (w_codec s) /\
  ((evs = msg_ctl fs ++ [EMsg (msg_type mtype fs) (zlen (acc ++ msg_payload fs)) (acc ++ msg_payload fs) eNone] /\
    sstream s' ++ future = R /\ w_rpend s' = w_rpend s) \/
   (exists fs1 fs2 cont1, fs = fs1 ++ fs2 /\ evs = msg_ctl fs1 ++ [EPending] /\
      w_rpend s' = Some (KMsg buflen (acc ++ msg_payload fs1) cont1 (msg_type mtype fs1)) /\
      pseq (c_max (w_codec s')) fs2 (sstream s' ++ future) R /\ frag_seq cont1 fs2 = true /\
      parse1 (c_max (w_codec s')) (sstream s') = PNeedMore)).
Proof.
  induction fs as [|f fs IH]; intros fuel s buflen acc cont mtype future R s' evs HSt Hps Hfr Hfu Hb1 Hb2 H;
    [discriminate|].
  inversion Hps as [|f0 fs0 T rest1 U Hp1 Hps1]; subst.
  destruct (St_bytes _ HSt) as [Hbs Hmx0].
  pose proof (zlen_nonneg (sstream s)) as Hnn0.
  destruct fuel as [|fu]; [cbn in Hfu; lia|].
  cbn [msg_loop] in H. destruct (next_frame_gen true s) as [s1 r] eqn:En.
  destruct (parse1 (c_max (w_codec s)) (sstream s)) as [| |f' r'] eqn:Ep.
  - (* not a whole frame yet: the read is parked *)
    destruct (next_frame_pending _ _ _ HSt Ep En) as (-> & HSt1 & Hss1 & Hst1 & Hmx1 & Hcm1 & Hrp1).
    inversion H; subst s' evs; clear H.
    split; [apply St_set_rpend; exact HSt1|]. split; [exact Hst1|]. split; [exact Hmx1|]. split; [exact Hcm1|].
    right. exists [], (f :: fs), cont. cbn [app msg_ctl msg_payload msg_type].
    split; [reflexivity|]. split; [reflexivity|]. split; [cbn; rewrite app_nil_r; reflexivity|].
    change (sstream (set_rpend s1 (Some (KMsg buflen acc cont mtype)))) with (sstream s1).
    change (w_codec (set_rpend s1 (Some (KMsg buflen acc cont mtype)))) with (w_codec s1).
    rewrite Hcm1, Hss1. split; [exact Hps|]. split; [exact Hfr|exact Ep].
  - rewrite (parse1_toobig_app _ _ future Ep) in Hp1. discriminate.
  - rewrite (parse1_app _ _ future _ _ Ep) in Hp1. inversion Hp1; subst f' rest1; clear Hp1.
    assert (Hconf : frame_conf f = true).
    { unfold frame_conf. cbn [frag_seq] in Hfr. destruct (Opcode_IsControl (opcode_of f)).
      - apply andb_true_iff in Hfr. tauto.
      - rewrite !andb_true_iff in Hfr. tauto. }
    pose proof (parse1_shrinks _ _ _ _ Hbs Hmx0 Ep) as Hshr.
    destruct (next_frame_conf _ _ _ _ _ _ HSt Ep Hconf En) as (-> & HSt1 & Hss1 & Hst1 & Hmx1 & Hcm1 & Hrp1).
    assert (Hfu' : zlen (sstream s1) < 2 * Z.of_nat fu) by (rewrite Hss1; lia).
    cbn [frag_seq msg_payload msg_ctl msg_type] in *.
    destruct (Opcode_IsControl (opcode_of f)) eqn:Ec.
    + apply andb_true_iff in Hfr as [_ Hfr].
      unfold msg_frame in H. change (negb (eNone =? eNone)) with false in H. cbv iota in H. rewrite Ec in H.
      destruct (msg_loop fu true s1 buflen acc cont mtype) as [s3 evs'] eqn:El. inversion H; subst s' evs; clear H.
      rewrite <- Hcm1, <- Hss1 in Hps1. rewrite <- Hmx1 in Hb2.
      destruct (IH _ _ _ _ _ _ _ _ _ _ HSt1 Hps1 Hfr Hfu' Hb1 Hb2 El) as (A & B & C & D & Hres).
      split; [exact A|]. split; [congruence|]. split; [congruence|]. split; [congruence|].
      destruct Hres as [(-> & E1 & E2)|(fs1 & fs2 & cont1 & -> & -> & E3 & E4 & E5 & E6)].
      * left. split; [reflexivity|]. split; [exact E1|congruence].
      * right. exists (f :: fs1), fs2, cont1. cbn [app msg_ctl msg_payload msg_type]. rewrite Ec.
        split; [reflexivity|]. split; [reflexivity|]. split; [exact E3|]. split; [exact E4|]. split; [exact E5|exact E6].
    + rewrite !andb_true_iff in Hfr. destruct Hfr as [[Hdc Hcont] Hfin].
      apply Bool.eqb_prop in Hcont.
      assert (Hpl : payload_length f = zlen (payload_of f)).
      { unfold data_conf in Hdc. rewrite !andb_true_iff in Hdc. lia. }
      rewrite zlen_app in Hb1, Hb2.
      pose proof (zlen_nonneg (msg_payload fs)) as Hnn. pose proof (zlen_nonneg acc) as Hna.
      pose proof (zlen_nonneg (payload_of f)) as Hnp.
      rewrite (msg_frame_data true s1 buflen acc cont mtype f Ec ltac:(lia) ltac:(lia) Hpl Hcont) in H.
      destruct (is_fin f) eqn:Efin.
      * destruct fs as [|f1 fs]; [|discriminate]. inversion Hps1; subst. inversion H; subst s' evs; clear H.
        cbn [msg_payload msg_ctl msg_type app]. rewrite app_nil_r.
        split; [exact HSt1|]. split; [exact Hst1|]. split; [exact Hmx1|]. split; [exact Hcm1|].
        left. split; [reflexivity|]. split; [reflexivity|exact Hrp1].
      * destruct (msg_loop fu true s1 buflen (acc ++ payload_of f) true
                    (if mtype =? ws_TypeNone then opcode_of f else mtype)) as [s3 evs'] eqn:El.
        inversion H; subst s' evs; clear H.
        rewrite <- Hcm1, <- Hss1 in Hps1.
        assert (Hb1' : zlen (acc ++ payload_of f) + zlen (msg_payload fs) <= buflen) by (rewrite zlen_app; lia).
        assert (Hb2' : zlen (acc ++ payload_of f) + zlen (msg_payload fs) <= w_max s1) by (rewrite zlen_app; lia).
        destruct (IH _ _ _ _ _ _ _ _ _ _ HSt1 Hps1 Hfin Hfu' Hb1' Hb2' El) as (A & B & C & D & Hres).
        split; [exact A|]. split; [congruence|]. split; [congruence|]. split; [congruence|].
        destruct Hres as [(-> & E1 & E2)|(fs1 & fs2 & cont1 & -> & -> & E3 & E4 & E5 & E6)].
        -- left. rewrite <- !app_assoc. cbn [app]. split; [reflexivity|]. split; [exact E1|congruence].
        -- right. exists (f :: fs1), fs2, cont1. cbn [app msg_ctl msg_payload msg_type]. rewrite Ec.
           rewrite <- app_assoc in E3.
           split; [reflexivity|]. split; [reflexivity|]. split; [exact E3|]. split; [exact E4|]. split; [exact E5|exact E6].
Qed.

(* the fuel the model gives the reassembly loop is always enough *)
Lemma fold_ev_bytes q : forall a, (a + length (wflat q) <= fold_left (fun acc e => (acc + ev_bytes e)%nat) q a)%nat.
Proof.
  induction q as [|e q IH]; intros a; [cbn; lia|]. cbn [fold_left]. specialize (IH (a + ev_bytes e)%nat).
  unfold wflat in *. cbn [map concat]. rewrite app_length. destruct e; cbn [ev_bytes length] in *; lia.
Qed.

Lemma mfuel_enough s : zlen (sstream s) < 2 * Z.of_nat (mfuel s).
Proof.
  unfold sstream, wstream, mfuel, unread. rewrite zlen_app.
  pose proof (fold_ev_bytes (tr_in (w_tr s)) 0%nat) as Hq.
  set (l := t_read (c_src (w_codec s)) ++ t_pend (c_src (w_codec s))).
  assert (Hl : length l = (length (t_read (c_src (w_codec s))) + length (t_pend (c_src (w_codec s))))%nat)
    by (unfold l; apply app_length).
  assert (Hd : forall k, zlen (zdrop k l) <= zlen l).
  { intros k. unfold zlen, zdrop. rewrite skipn_length. lia. }
  specialize (Hd (if c_reset (w_codec s) then c_flen (w_codec s) else 0)).
  unfold zlen in *. lia.
Qed.

(* the continuation that runs when more bytes have arrived *)
Lemma resume_async fs s buflen acc cont mtype future R s' evs :
  St s -> pseq (c_max (w_codec s)) fs (sstream s ++ future) R -> frag_seq cont fs = true ->
  zlen acc + zlen (msg_payload fs) <= buflen -> zlen acc + zlen (msg_payload fs) <= w_max s ->
  resume s (KMsg buflen acc cont mtype) = (s', evs) ->
  St s' /\ w_state s' = w_state s /\ w_max s' = w_max s /\ c_max (w_codec s') = c_max (w_codec s) /\
  ((evs = msg_ctl fs ++ [EMsg (msg_type mtype fs) (zlen (acc ++ msg_payload fs)) (acc ++ msg_payload fs) eNone] /\
    sstream s' ++ future = R /\ w_rpend s' = None) \/
   (exists fs1 fs2 cont1, fs = fs1 ++ fs2 /\ evs = msg_ctl fs1 /\
      w_rpend s' = Some (KMsg buflen (acc ++ msg_payload fs1) cont1 (msg_type mtype fs1)) /\
      pseq (c_max (w_codec s')) fs2 (sstream s' ++ future) R /\ frag_seq cont1 fs2 = true /\
      parse1 (c_max (w_codec s')) (sstream s') = PNeedMore)).
Proof.
  intros HSt Hps Hfr Hb1 Hb2 H.
  unfold resume in H. set (s0 := set_rpend s None) in *.
  assert (HSt0 : St s0) by (apply St_set_rpend; exact HSt).
  change (pseq (c_max (w_codec s0)) fs (sstream s0 ++ future) R) in Hps.
  change (zlen acc + zlen (msg_payload fs) <= w_max s0) in Hb2.
  change (w_state s) with (w_state s0). change (w_max s) with (w_max s0). change (w_codec s) with (w_codec s0).
  assert (Hrp0 : w_rpend s0 = None) by reflexivity.
  clearbody s0. clear HSt.
  destruct (St_bytes _ HSt0) as [Hbs Hmx0].
  destruct (read_and_handle true s0) as [s1 r] eqn:Er.
  destruct fs as [|f fs]; [discriminate|].
  inversion Hps as [|f0 fs0 T rest1 U Hp1 Hps1]; subst.
  destruct (parse1 (c_max (w_codec s0)) (sstream s0)) as [| |f' r'] eqn:Ep.
  - destruct (read_and_handle_pending _ _ _ HSt0 Ep Er) as (-> & HSt1 & Hss1 & Hst1 & Hmx1 & Hcm1 & Hrp1).
    inversion H; subst s' evs; clear H.
    split; [apply St_set_rpend; exact HSt1|]. split; [exact Hst1|]. split; [exact Hmx1|]. split; [exact Hcm1|].
    right. exists [], (f :: fs), cont. cbn [app msg_ctl msg_payload msg_type].
    split; [reflexivity|]. split; [reflexivity|]. split; [cbn; rewrite app_nil_r; reflexivity|].
    change (sstream (set_rpend s1 (Some (KMsg buflen acc cont mtype)))) with (sstream s1).
    change (w_codec (set_rpend s1 (Some (KMsg buflen acc cont mtype)))) with (w_codec s1).
    rewrite Hcm1, Hss1. split; [exact Hps|]. split; [exact Hfr|exact Ep].
  - rewrite (parse1_toobig_app _ _ future Ep) in Hp1. discriminate.
  - rewrite (parse1_app _ _ future _ _ Ep) in Hp1. inversion Hp1; subst f' rest1; clear Hp1.
    assert (Hconf : frame_conf f = true).
    { unfold frame_conf. cbn [frag_seq] in Hfr. destruct (Opcode_IsControl (opcode_of f)).
      - apply andb_true_iff in Hfr. tauto.
      - rewrite !andb_true_iff in Hfr. tauto. }
    destruct (read_and_handle_conf _ _ _ _ _ _ HSt0 Ep Hconf Er) as (-> & HSt1 & Hss1 & Hst1 & Hmx1 & Hcm1 & Hrp1).
    cbn [frag_seq msg_payload msg_ctl msg_type] in *.
    destruct (Opcode_IsControl (opcode_of f)) eqn:Ec.
    + apply andb_true_iff in Hfr as [_ Hfr].
      unfold msg_frame in H. change (negb (eNone =? eNone)) with false in H. cbv iota in H. rewrite Ec in H.
      destruct (msg_loop (mfuel s1) true s1 buflen acc cont mtype) as [s3 evs'] eqn:El. inversion H; subst s' evs; clear H.
      rewrite <- Hcm1, <- Hss1 in Hps1. rewrite <- Hmx1 in Hb2.
      destruct (msg_loop_async _ _ _ _ _ _ _ _ _ _ _ HSt1 Hps1 Hfr (mfuel_enough s1) Hb1 Hb2 El) as (A & B & C & D & Hres).
      split; [exact A|]. split; [congruence|]. split; [congruence|]. split; [congruence|].
      destruct Hres as [(-> & E1 & E2)|(fs1 & fs2 & cont1 & -> & -> & E3 & E4 & E5 & E6)].
      * left. fold (npend (msg_ctl fs ++ [EMsg (msg_type mtype fs) (zlen (acc ++ msg_payload fs)) (acc ++ msg_payload fs) eNone])).
        rewrite npend_app, npend_ctl. cbn. split; [reflexivity|]. split; [exact E1|congruence].
      * right. exists (f :: fs1), fs2, cont1. cbn [app msg_ctl msg_payload msg_type]. rewrite Ec.
        fold (npend (msg_ctl fs1 ++ [EPending])). rewrite npend_app, npend_ctl. cbn. rewrite app_nil_r.
        split; [reflexivity|]. split; [reflexivity|]. split; [exact E3|]. split; [exact E4|]. split; [exact E5|exact E6].
    + rewrite !andb_true_iff in Hfr. destruct Hfr as [[Hdc Hcont] Hfin].
      apply Bool.eqb_prop in Hcont.
      assert (Hpl : payload_length f = zlen (payload_of f)).
      { unfold data_conf in Hdc. rewrite !andb_true_iff in Hdc. lia. }
      rewrite zlen_app in Hb1, Hb2.
      pose proof (zlen_nonneg (msg_payload fs)) as Hnn. pose proof (zlen_nonneg acc) as Hna.
      pose proof (zlen_nonneg (payload_of f)) as Hnp.
      rewrite (msg_frame_data true s1 buflen acc cont mtype f Ec ltac:(lia) ltac:(lia) Hpl Hcont) in H.
      destruct (is_fin f) eqn:Efin.
      * destruct fs as [|f1 fs]; [|discriminate]. inversion Hps1; subst. inversion H; subst s' evs; clear H.
        cbn [msg_payload msg_ctl msg_type app]. rewrite app_nil_r.
        split; [exact HSt1|]. split; [exact Hst1|]. split; [exact Hmx1|]. split; [exact Hcm1|].
        left. split; [reflexivity|]. split; [reflexivity|congruence].
      * destruct (msg_loop (mfuel s1) true s1 buflen (acc ++ payload_of f) true
                    (if mtype =? ws_TypeNone then opcode_of f else mtype)) as [s3 evs'] eqn:El.
        inversion H; subst s' evs; clear H.
        rewrite <- Hcm1, <- Hss1 in Hps1.
        assert (Hb1' : zlen (acc ++ payload_of f) + zlen (msg_payload fs) <= buflen) by (rewrite zlen_app; lia).
        assert (Hb2' : zlen (acc ++ payload_of f) + zlen (msg_payload fs) <= w_max s1) by (rewrite zlen_app; lia).
        destruct (msg_loop_async _ _ _ _ _ _ _ _ _ _ _ HSt1 Hps1 Hfin (mfuel_enough s1) Hb1' Hb2' El) as (A & B & C & D & Hres).
        split; [exact A|]. split; [congruence|]. split; [congruence|]. split; [congruence|].
        destruct Hres as [(-> & E1 & E2)|(fs1 & fs2 & cont1 & -> & -> & E3 & E4 & E5 & E6)].
        -- left. cbn [app].
           fold (npend (msg_ctl fs ++ [EMsg (msg_type (if mtype =? ws_TypeNone then opcode_of f else mtype) fs)
                   (zlen ((acc ++ payload_of f) ++ msg_payload fs)) ((acc ++ payload_of f) ++ msg_payload fs) eNone])).
           rewrite npend_app, npend_ctl. cbn. rewrite <- !app_assoc.
           split; [reflexivity|]. split; [exact E1|congruence].
        -- right. exists (f :: fs1), fs2, cont1. cbn [app msg_ctl msg_payload msg_type]. rewrite Ec.
           fold (npend (msg_ctl fs1 ++ [EPending])). rewrite npend_app, npend_ctl. cbn. rewrite app_nil_r.
           rewrite <- app_assoc in E3.
           split; [reflexivity|]. split; [reflexivity|]. split; [exact E3|]. split; [exact E4|]. split; [exact E5|exact E6].
Qed.

(* ---------------------------------------------------------------- whole runs: one AsyncNextMessage, then the bytes arrive *)
Fixpoint wsrun_ev (s : ws) (ops : list wsop) : ws * list wev :=
  match ops with
  | [] => (s, [])
  | o :: r => let '(s1, e1) := wsstep s o in let '(s2, e2) := wsrun_ev s1 r in (s2, e1 ++ e2)
  end.

Definition arrivals (chunks : list (list Z)) : list wsop := map (fun w => WIn (InData w)) chunks.

Definition pushed (s : ws) (w : list Z) : ws := set_io s (w_codec s) (tr_push (w_tr s) (InData w)).

Lemma St_pushed s w : St s -> bytes w ->
  St (pushed s w) /\ sstream (pushed s w) = sstream s ++ w /\ w_rpend (pushed s w) = w_rpend s /\
  w_state (pushed s w) = w_state s /\ w_max (pushed s w) = w_max s /\ w_codec (pushed s w) = w_codec s.
Proof.
  intros (Hw & Hc & Hb & Ht & Ha & Hcr) Hbw. split; [|split].
  - unfold St, pushed. cbn. split.
    + eapply same_out_wire; [|exact Hw]. repeat split; reflexivity.
    + split; [exact Hc|]. split; [exact Hb|]. split.
      * apply Forall_app. split; [exact Ht|]. constructor; [exact Hbw|constructor].
      * split; [|exact Hcr]. unfold all_data in *. rewrite forallb_app, Ha. reflexivity.
  - unfold sstream, wstream, pushed. cbn. unfold wflat. rewrite map_app, concat_app. cbn. rewrite app_nil_r, app_assoc. reflexivity.
  - repeat split; reflexivity.
Qed.

Lemma run_idle chunks : forall s s' evs,
  St s -> w_rpend s = None -> Forall bytes chunks -> wsrun_ev s (arrivals chunks) = (s', evs) ->
  evs = [] /\ St s' /\ sstream s' = sstream s ++ concat chunks /\ w_rpend s' = None /\ w_state s' = w_state s.
Proof.
  induction chunks as [|w chunks IH]; intros s s' evs HSt Hrp Hb H; cbn [arrivals map wsrun_ev concat] in H |- *.
  - inversion H; subst. rewrite app_nil_r. auto.
  - inversion Hb as [|? ? Hbw Hbc]; subst. cbn [wsstep] in H. fold (pushed s w) in H.
    destruct (St_pushed s w HSt Hbw) as (HSt1 & Hss1 & Hrp1 & Hst1 & _). rewrite Hrp1, Hrp in H.
    fold (arrivals chunks) in H. destruct (wsrun_ev (pushed s w) (arrivals chunks)) as [s2 e2] eqn:Er.
    inversion H; subst s' evs; clear H.
    destruct (IH _ _ _ HSt1 ltac:(congruence) Hbc Er) as (-> & A & B & C & D).
    split; [reflexivity|]. split; [exact A|]. split; [rewrite B, Hss1, <- app_assoc; reflexivity|]. split; [exact C|congruence].
Qed.

Lemma run_parked chunks : forall s buflen acc cont mtype fs R s' evs,
  St s -> w_rpend s = Some (KMsg buflen acc cont mtype) -> Forall bytes chunks ->
  pseq (c_max (w_codec s)) fs (sstream s ++ concat chunks) R -> frag_seq cont fs = true ->
  parse1 (c_max (w_codec s)) (sstream s) = PNeedMore ->
  zlen acc + zlen (msg_payload fs) <= buflen -> zlen acc + zlen (msg_payload fs) <= w_max s ->
  wsrun_ev s (arrivals chunks) = (s', evs) ->
  evs = msg_ctl fs ++ [EMsg (msg_type mtype fs) (zlen (acc ++ msg_payload fs)) (acc ++ msg_payload fs) eNone] /\
  St s' /\ sstream s' = R /\ w_rpend s' = None /\ w_state s' = w_state s.
Proof.
  induction chunks as [|w chunks IH]; intros s buflen acc cont mtype fs R s' evs HSt Hrp Hb Hps Hfr Hnm Hb1 Hb2 H;
    cbn [arrivals map wsrun_ev concat] in H, Hps.
  - (* nothing more arrives: impossible, the peer still owes frames *)
    rewrite app_nil_r in Hps. destruct fs as [|f fs]; [discriminate|].
    inversion Hps as [|? ? ? ? ? Hp1 _]; subst. congruence.
  - inversion Hb as [|? ? Hbw Hbc]; subst. cbn [wsstep] in H. fold (pushed s w) in H.
    destruct (St_pushed s w HSt Hbw) as (HSt1 & Hss1 & Hrp1 & Hst1 & Hmx1 & Hc1). rewrite Hrp1, Hrp in H.
    fold (arrivals chunks) in H.
    destruct (resume (pushed s w) (KMsg buflen acc cont mtype)) as [s2 e1] eqn:Ers.
    destruct (wsrun_ev s2 (arrivals chunks)) as [s3 e2] eqn:Er. inversion H; subst s' evs; clear H.
    rewrite app_assoc, <- Hss1, <- Hc1 in Hps. rewrite <- Hmx1 in Hb2.
    destruct (resume_async _ _ _ _ _ _ _ _ _ _ HSt1 Hps Hfr Hb1 Hb2 Ers) as (A & B & C & D & Hres).
    destruct Hres as [(-> & E1 & E2)|(fs1 & fs2 & cont1 & -> & -> & E3 & E4 & E5 & E6)].
    + destruct (run_idle _ _ _ _ A E2 Hbc Er) as (-> & F & G & K & L).
      rewrite app_nil_r. split; [reflexivity|]. split; [exact F|]. split; [congruence|]. split; [exact K|].
      congruence.
    + rewrite msg_payload_app in Hb1, Hb2. rewrite zlen_app in Hb1, Hb2.
      assert (Hb1' : zlen (acc ++ msg_payload fs1) + zlen (msg_payload fs2) <= buflen) by (rewrite zlen_app; lia).
      assert (Hb2' : zlen (acc ++ msg_payload fs1) + zlen (msg_payload fs2) <= w_max s2) by (rewrite zlen_app; lia).
      destruct (IH _ _ _ _ _ _ _ _ _ A E3 Hbc E4 E5 E6 Hb1' Hb2' Er) as (-> & F & G & K & L).
      rewrite msg_ctl_app, msg_payload_app, msg_type_app, <- !app_assoc.
      split; [reflexivity|]. split; [exact F|]. split; [exact G|]. split; [exact K|congruence].
Qed.

(* One AsyncNextMessage, then the message's bytes arrive in ANY pieces (any cut positions - inside headers, between
   fragments, many frames in one piece - and any number of would-block rounds in between): the application sees the
   control callbacks in order and exactly one message - the concatenated payload, the first fragment's type, no error -
   and the stream is positioned right behind it. *)
Theorem async_message_any_segmentation chunks s buflen fs R s' evs :
  St s -> w_rpend s = None -> Forall bytes chunks ->
  pseq (c_max (w_codec s)) fs (sstream s ++ concat chunks) R -> frag_seq false fs = true ->
  zlen (msg_payload fs) <= buflen -> zlen (msg_payload fs) <= w_max s ->
  wsrun_ev s (WAsyncNextMessage buflen :: arrivals chunks) = (s', evs) ->
  npend evs = msg_ctl fs ++ [EMsg (msg_type ws_TypeNone fs) (zlen (msg_payload fs)) (msg_payload fs) eNone] /\
  St s' /\ sstream s' = R /\ w_rpend s' = None /\ w_state s' = w_state s.
Proof.
  intros HSt Hrp Hb Hps Hfr Hb1 Hb2 H. cbn [wsrun_ev wsstep] in H.
  destruct (msg_loop (mfuel s) true s buflen [] false ws_TypeNone) as [s1 e1] eqn:El.
  destruct (wsrun_ev s1 (arrivals chunks)) as [s2 e2] eqn:Er. inversion H; subst s' evs; clear H.
  assert (Hz1 : zlen (@nil Z) + zlen (msg_payload fs) <= buflen) by (change (zlen (@nil Z)) with 0; lia).
  assert (Hz2 : zlen (@nil Z) + zlen (msg_payload fs) <= w_max s) by (change (zlen (@nil Z)) with 0; lia).
  destruct (msg_loop_async _ _ _ _ _ _ _ _ _ _ _ HSt Hps Hfr (mfuel_enough s) Hz1 Hz2 El)
    as (A & B & C & D & Hres).
  rewrite npend_app.
  destruct Hres as [(-> & E1 & E2)|(fs1 & fs2 & cont1 & -> & -> & E3 & E4 & E5 & E6)].
  - assert (Hr1 : w_rpend s1 = None) by congruence.
    destruct (run_idle _ _ _ _ A Hr1 Hb Er) as (-> & F & G & K & L).
    cbn [npend filter]. rewrite app_nil_r. rewrite npend_app, npend_ctl. cbn [app npend filter].
    split; [reflexivity|]. split; [exact F|]. split; [congruence|]. split; [exact K|].
    congruence.
  - cbn [app] in E3. rewrite msg_payload_app, zlen_app in Hb1, Hb2.
    assert (Hb1' : zlen (msg_payload fs1) + zlen (msg_payload fs2) <= buflen) by lia.
    assert (Hb2' : zlen (msg_payload fs1) + zlen (msg_payload fs2) <= w_max s1) by lia.
    destruct (run_parked _ _ _ _ _ _ _ _ _ _ A E3 Hb E4 E5 E6 Hb1' Hb2' Er) as (-> & F & G & K & L).
    rewrite npend_app, npend_ctl. cbn [npend filter app]. rewrite npend_app, npend_ctl. cbn [npend filter].
    rewrite msg_ctl_app, msg_payload_app, msg_type_app, <- !app_assoc. cbn [app].
    split; [reflexivity|]. split; [exact F|]. split; [exact G|]. split; [exact K|congruence].
Qed.

(* The blocking API when the bytes are already there (any pieces), and the asynchronous one likewise *)
Theorem message_any_segmentation (async : bool) s buflen fs R s' evs :
  St s -> pseq (c_max (w_codec s)) fs (sstream s) R -> frag_seq false fs = true ->
  zlen (msg_payload fs) <= buflen -> zlen (msg_payload fs) <= w_max s ->
  wsstep s (if async then WAsyncNextMessage buflen else WNextMessage buflen) = (s', evs) ->
  evs = msg_ctl fs ++ [EMsg (msg_type ws_TypeNone fs) (zlen (msg_payload fs)) (msg_payload fs) eNone] /\
  St s' /\ sstream s' = R /\ w_state s' = w_state s.
Proof.
  intros HSt Hps Hfr Hb1 Hb2 H.
  assert (Hfu : (length fs <= mfuel s)%nat).
  { destruct (St_bytes _ HSt) as [Hbs Hmx]. pose proof (mfuel_enough s) as Hm.
    assert (Hlen : forall fs T U, bytes T -> pseq (c_max (w_codec s)) fs T U -> 2 * Z.of_nat (length fs) <= zlen T).
    { clear - Hmx. induction fs as [|f fs IH]; intros T U HbT Hp; [cbn; apply zlen_nonneg|].
      inversion Hp as [|? ? ? rest ? Hp1 Hp2]; subst.
      pose proof (parse1_shrinks _ _ _ _ HbT Hmx Hp1) as Hs.
      destruct (parse1_bounded _ _ _ _ HbT Hmx Hp1) as (_ & _ & _ & Hsplit).
      assert (Hbr : bytes rest) by (rewrite <- Hsplit in HbT; apply Forall_app in HbT; tauto).
      specialize (IH _ _ Hbr Hp2). cbn [length]. lia. }
    specialize (Hlen _ _ _ Hbs Hps). lia. }
  assert (Hz1 : zlen (@nil Z) + zlen (msg_payload fs) <= buflen) by (change (zlen (@nil Z)) with 0; lia).
  assert (Hz2 : zlen (@nil Z) + zlen (msg_payload fs) <= w_max s) by (change (zlen (@nil Z)) with 0; lia).
  destruct async; cbn [wsstep] in H.
  - destruct (msg_loop_whole _ _ _ _ _ _ _ _ _ _ _ HSt Hps Hfr Hfu Hz1 Hz2 H) as (A & B & C & D & _). cbn [app] in A. tauto.
  - destruct (msg_loop_whole _ _ _ _ _ _ _ _ _ _ _ HSt Hps Hfr Hfu Hz1 Hz2 H) as (A & B & C & D & _). cbn [app] in A. tauto.
Qed.

(* the premises are satisfiable: a fresh stream *)
Lemma St_init max keys : 0 <= max < WsFrame.two63 -> St (ws_init max keys) /\ w_rpend (ws_init max keys) = None /\
  sstream (ws_init max keys) = [].
Proof.
  intros Hm. split; [|split; reflexivity]. unfold St. split; [apply init_wire|]. cbn.
  split; [split; [discriminate|exact Hm]|]. split; [constructor|]. split; [constructor|]. split; reflexivity.
Qed.
