(* C02: proofs about Model/RW.v - stream fidelity, exact counts, the ReadAll/WriteAll contract, over all histories. *)
From Coq Require Import ZifyBool.
From Sonic Require Import Base.Prelude Base.ListLemmas Gen.Consts Model.RW.
Local Open Scope Z_scope.

(* what the completed operations delivered to / took from the caller, oldest first *)
Fixpoint got (log : list rwev) : list Z :=
  match log with [] => [] | EvR _ _ _ d _ _ :: r => got r ++ d | _ :: r => got r end.
Fixpoint put (log : list rwev) : list Z :=
  match log with [] => [] | EvW _ _ n b _ :: r => put r ++ ztake n b | _ :: r => put r end.

Definition rd_part (r : option rdop) : list Z := match r with Some p => rd_filled p | None => [] end.
Definition wr_part (w : option wrop) : list Z := match w with Some p => ztake (wr_sofar p) (wr_buf p) | None => [] end.

Definition rd_ok (p : rdop) : Prop := rd_sofar p = zlen (rd_filled p) /\ 0 <= rd_sofar p <= rd_len p.
Definition wr_ok (p : wrop) : Prop := 0 <= wr_sofar p <= zlen (wr_buf p).

Definition ev_ok (e : rwev) : Prop :=
  match e with
  | EvR _ err n d all len => n = zlen d /\ 0 <= n <= len /\ (err = eNil -> all = true -> n = len)
  | EvW _ err n b all => 0 <= n <= zlen b /\ (err = eNil -> all = true -> n = zlen b)
  end.

Definition inv (s : rwst) : Prop :=
  rws_sent s = got (rws_log s) ++ rd_part (rws_rd s) ++ rws_in s /\
  rws_wire s = put (rws_log s) ++ wr_part (rws_wr s) /\
  (forall p, rws_rd s = Some p -> rd_ok p) /\ (forall p, rws_wr s = Some p -> wr_ok p) /\
  Forall ev_ok (rws_log s).

(* fields a system call leaves alone *)
Definition same_rest (s s1 : rwst) : Prop :=
  rws_fl s1 = rws_fl s /\ rws_rd s1 = rws_rd s /\ rws_wr s1 = rws_wr s /\ rws_log s1 = rws_log s /\ rws_sent s1 = rws_sent s.

Lemma sys_read_spec s want n e bytes s1 :
  sys_read s want = (n, e, bytes, s1) -> 0 <= want ->
  0 <= n <= want /\ zlen bytes = n /\ rws_in s = bytes ++ rws_in s1 /\ rws_wire s1 = rws_wire s /\ same_rest s s1.
Proof.
  unfold sys_read, same_rest. intros H Hw. pose proof (zlen_nonneg (rws_in s)) as Hn.
  destruct (rws_fl s) eqn:Ef.
  - destruct (0 <? zlen (rws_in s)) eqn:E0.
    + inversion H; subst; clear H. cbn.
      rewrite zlen_ztake by lia. rewrite ztake_zdrop_split. repeat split; auto; lia.
    + destruct (rws_eof s); inversion H; subst; cbn; repeat split; auto; lia.
  - destruct (match rws_rscript s with [] => (want, eNil, []) | (n0, e0) :: r => (n0, e0, r) end) as [[n0 e0] rest].
    inversion H; subst; clear H. cbn.
    rewrite zlen_ztake by lia. rewrite ztake_zdrop_split. repeat split; auto; lia.
Qed.

Lemma sys_write_spec s chunk n e s1 :
  sys_write s chunk = (n, e, s1) ->
  0 <= n <= zlen chunk /\ rws_wire s1 = rws_wire s ++ ztake n chunk /\ rws_in s1 = rws_in s /\ same_rest s s1.
Proof.
  unfold sys_write, same_rest. intros H. pose proof (zlen_nonneg chunk) as Hn.
  destruct (rws_fl s) eqn:Ef.
  - inversion H; subst; clear H. cbn. rewrite ztake_all by lia. repeat split; auto; lia.
  - destruct (match rws_wscript s with [] => (zlen chunk, eNil, []) | (n0, e0) :: r => (n0, e0, r) end) as [[n0 e0] rest].
    inversion H; subst; clear H. cbn. repeat split; auto; lia.
Qed.

(* asyncReadNow, any fuel, any transport state: the bytes it takes from the stream are exactly the bytes it appends to
   the caller's buffer, the count it keeps is their number, and success on a ReadAll means the buffer is full *)
Lemma read_now_spec fuel : forall s p s1 p1 r,
  read_now fuel s p = (s1, p1, r) -> rd_ok p ->
  exists moved,
    rd_filled p1 = rd_filled p ++ moved /\ rws_in s = moved ++ rws_in s1 /\ rd_ok p1 /\
    rd_all p1 = rd_all p /\ rd_len p1 = rd_len p /\ rd_cb p1 = rd_cb p /\
    rws_wire s1 = rws_wire s /\ same_rest s s1 /\
    match r with Done e n => n = rd_sofar p1 /\ (e = eNil -> rd_all p = true -> n = rd_len p) | _ => True end.
Proof.
  induction fuel as [|f IH]; intros s p s1 p1 r H Hok; cbn [read_now] in H.
  - inversion H; subst. exists []. rewrite app_nil_r. unfold same_rest. repeat split; auto; apply Hok.
  - destruct Hok as [Hs Hr].
    destruct (sys_read s (rd_len p - rd_sofar p)) as [[[n e] bytes] s0] eqn:Es.
    destruct (sys_read_spec _ _ _ _ _ _ Es ltac:(lia)) as (Hn & Hb & Hin & Hwire & Hrest).
    set (p0 := mkrd (rd_all p) (rd_len p) (rd_sofar p + n) (rd_cb p) (rd_filled p ++ bytes)) in *.
    assert (Hok0 : rd_ok p0) by (unfold rd_ok, p0; cbn; rewrite zlen_app; lia).
    assert (Hbase : forall r0, match r0 with Done e0 n0 => n0 = rd_sofar p0 /\ (e0 = eNil -> rd_all p = true -> n0 = rd_len p) | _ => True end ->
              exists moved, rd_filled p0 = rd_filled p ++ moved /\ rws_in s = moved ++ rws_in s0 /\ rd_ok p0 /\
                rd_all p0 = rd_all p /\ rd_len p0 = rd_len p /\ rd_cb p0 = rd_cb p /\ rws_wire s0 = rws_wire s /\ same_rest s s0 /\
                match r0 with Done e0 n0 => n0 = rd_sofar p0 /\ (e0 = eNil -> rd_all p = true -> n0 = rd_len p) | _ => True end).
    { intros r0 Hr0. exists bytes.
      exact (conj eq_refl (conj Hin (conj Hok0 (conj eq_refl (conj eq_refl (conj eq_refl (conj Hwire (conj Hrest Hr0)))))))). }
    destruct ((e =? eNil) && negb (rd_all p && negb (rd_sofar p0 =? rd_len p))) eqn:Ec.
    { inversion H; subst. refine (Hbase (Done _ _) _). split; [reflexivity|]. intros _ Ha. rewrite Ha in Ec. cbn in Ec. lia. }
    destruct (rws_fl s).
    + destruct (e =? eNil) eqn:Ee.
      * destruct (IH _ _ _ _ _ H Hok0) as (moved & F1 & F2 & F3 & F4 & F5 & F6 & F7 & F8 & F9).
        exists (bytes ++ moved). rewrite F1, F4, F5, F6, F7, Hwire. cbn [p0 rd_filled rd_all rd_len rd_cb] in *.
        rewrite app_assoc. split; [reflexivity|]. split; [rewrite Hin, F2, app_assoc; reflexivity|].
        split; [exact F3|]. repeat (split; [reflexivity|]).
        split. { destruct Hrest as (A & B & C & D & E), F8 as (A' & B' & C' & D' & E'). unfold same_rest. rewrite A', B', C', D', E'. auto. }
        destruct r; auto.
      * destruct (e =? eWouldBlock); inversion H; subst; [exact (Hbase Resched I)|].
        refine (Hbase (Done _ _) _). split; [reflexivity|]. intros He. unfold eNil in *. lia.
    + destruct (e =? eNil) eqn:Ee; inversion H; subst; [exact (Hbase Resched I)|].
      refine (Hbase (Done _ _) _). split; [reflexivity|]. intros He. unfold eNil in *. lia.
Qed.

Lemma ztake_extend {A} (l : list A) a n :
  0 <= a -> 0 <= n -> a + n <= zlen l -> ztake (a + n) l = ztake a l ++ ztake n (zdrop a l).
Proof.
  intros Ha Hn Hl. rewrite <- (ztake_zdrop_split a l) at 1.
  rewrite ztake_app_r by (rewrite zlen_ztake; lia). rewrite zlen_ztake by lia. f_equal. f_equal. lia.
Qed.

Lemma write_now_spec fuel : forall s p s1 p1 r,
  write_now fuel s p = (s1, p1, r) -> wr_ok p ->
  exists acc,
    rws_wire s1 = rws_wire s ++ acc /\ ztake (wr_sofar p1) (wr_buf p1) = ztake (wr_sofar p) (wr_buf p) ++ acc /\ wr_ok p1 /\
    wr_all p1 = wr_all p /\ wr_buf p1 = wr_buf p /\ wr_cb p1 = wr_cb p /\
    rws_in s1 = rws_in s /\ same_rest s s1 /\
    match r with Done e n => n = wr_sofar p1 /\ (e = eNil -> wr_all p = true -> n = zlen (wr_buf p)) | _ => True end.
Proof.
  induction fuel as [|f IH]; intros s p s1 p1 r H Hok; cbn [write_now] in H.
  - inversion H; subst. exists []. rewrite !app_nil_r. unfold same_rest. repeat split; auto; apply Hok.
  - unfold wr_ok in Hok.
    destruct (sys_write s (zdrop (wr_sofar p) (wr_buf p))) as [[n e] s0] eqn:Es.
    destruct (sys_write_spec _ _ _ _ _ Es) as (Hn & Hwire & Hin & Hrest).
    rewrite zlen_zdrop in Hn by lia.
    set (p0 := mkwr (wr_all p) (wr_buf p) (wr_sofar p + n) (wr_cb p)) in *.
    assert (Hok0 : wr_ok p0) by (unfold wr_ok, p0; cbn; lia).
    assert (Hext : ztake (wr_sofar p0) (wr_buf p0) = ztake (wr_sofar p) (wr_buf p) ++ ztake n (zdrop (wr_sofar p) (wr_buf p))).
    { unfold p0; cbn. apply ztake_extend; lia. }
    assert (Hbase : forall r0, match r0 with Done e0 n0 => n0 = wr_sofar p0 /\ (e0 = eNil -> wr_all p = true -> n0 = zlen (wr_buf p)) | _ => True end ->
              exists acc, rws_wire s0 = rws_wire s ++ acc /\ ztake (wr_sofar p0) (wr_buf p0) = ztake (wr_sofar p) (wr_buf p) ++ acc /\ wr_ok p0 /\
                wr_all p0 = wr_all p /\ wr_buf p0 = wr_buf p /\ wr_cb p0 = wr_cb p /\ rws_in s0 = rws_in s /\ same_rest s s0 /\
                match r0 with Done e0 n0 => n0 = wr_sofar p0 /\ (e0 = eNil -> wr_all p = true -> n0 = zlen (wr_buf p)) | _ => True end).
    { intros r0 Hr0. eexists. split; [exact Hwire|]. split; [exact Hext|].
      exact (conj Hok0 (conj eq_refl (conj eq_refl (conj eq_refl (conj Hin (conj Hrest Hr0)))))). }
    destruct ((e =? eNil) && negb (wr_all p && negb (wr_sofar p0 =? zlen (wr_buf p)))) eqn:Ec.
    { inversion H; subst. refine (Hbase (Done _ _) _). split; [reflexivity|]. intros _ Ha. rewrite Ha in Ec. cbn in Ec. lia. }
    destruct (rws_fl s).
    + destruct (e =? eNil) eqn:Ee.
      * destruct (IH _ _ _ _ _ H Hok0) as (acc & F1 & F2 & F3 & F4 & F5 & F6 & F7 & F8 & F9).
        exists (ztake n (zdrop (wr_sofar p) (wr_buf p)) ++ acc). rewrite F1, F2, F4, F5, F6, F7, Hwire, Hext, Hin.
        cbn [p0 wr_all wr_buf wr_cb] in *. rewrite !app_assoc.
        repeat (split; [reflexivity|]). split; [exact F3|]. repeat (split; [reflexivity|]).
        split. { destruct Hrest as (A & B & C & D & E), F8 as (A' & B' & C' & D' & E'). unfold same_rest. rewrite A', B', C', D', E'. auto. }
        destruct r; auto.
      * destruct (e =? eWouldBlock); inversion H; subst; [exact (Hbase Resched I)|].
        refine (Hbase (Done _ _) _). split; [reflexivity|]. intros He. unfold eNil in *. lia.
    + destruct (e =? eNil) eqn:Ee; inversion H; subst; [exact (Hbase Resched I)|].
      refine (Hbase (Done _ _) _). split; [reflexivity|]. intros He. unfold eNil in *. lia.
Qed.

(* ---- one attempt of the read in flight / of a new read *)
Lemma attempt_read_inv s p :
  inv s -> rd_part (rws_rd s) = rd_filled p -> rd_ok p -> inv (attempt_read s p).
Proof.
  intros (I1 & I2 & I3 & I4 & I5) Hpart Hok. unfold attempt_read.
  destruct (read_now now_fuel s p) as [[s1 p1] r] eqn:E.
  destruct (read_now_spec _ _ _ _ _ _ E Hok) as (moved & F1 & F2 & F3 & F4 & F5 & F6 & F7 & (A & B & C & D & G) & F9).
  assert (Hw : forall x, rws_wire s1 = put (rws_log s1) ++ wr_part (rws_wr x) -> rws_wr x = rws_wr s1 -> True) by auto.
  rewrite Hpart in I1.
  assert (K1 : rws_sent s1 = got (rws_log s1) ++ rd_filled p1 ++ rws_in s1).
  { rewrite G, D, I1, F1, F2, <- !app_assoc. reflexivity. }
  assert (K2 : rws_wire s1 = put (rws_log s1) ++ wr_part (rws_wr s1)) by (rewrite F7, D, C; exact I2).
  assert (K4 : forall q, rws_wr s1 = Some q -> wr_ok q) by (rewrite C; exact I4).
  assert (K5 : Forall ev_ok (rws_log s1)) by (rewrite D; exact I5).
  destruct r as [e n| |].
  - destruct F9 as [Hn Hall]. unfold inv; cbn.
    split; [rewrite K1; rewrite <- app_assoc; reflexivity|]. split; [exact K2|].
    split; [discriminate|]. split; [exact K4|].
    constructor; [|exact K5]. cbn. destruct F3 as [F3a F3b]. rewrite F4, F5. repeat split; try lia; try exact Hall.
  - unfold inv; cbn. split; [exact K1|]. split; [exact K2|]. split; [intros q Hq; inversion Hq; subst; exact F3|].
    split; [exact K4|exact K5].
  - unfold inv; cbn. split; [exact K1|]. split; [exact K2|]. split; [intros q Hq; inversion Hq; subst; exact F3|].
    split; [exact K4|exact K5].
Qed.

Lemma attempt_write_inv s p :
  inv s -> wr_part (rws_wr s) = ztake (wr_sofar p) (wr_buf p) -> wr_ok p -> inv (attempt_write s p).
Proof.
  intros (I1 & I2 & I3 & I4 & I5) Hpart Hok. unfold attempt_write.
  destruct (write_now now_fuel s p) as [[s1 p1] r] eqn:E.
  destruct (write_now_spec _ _ _ _ _ _ E Hok) as (acc & F1 & F2 & F3 & F4 & F5 & F6 & F7 & (A & B & C & D & G) & F9).
  rewrite Hpart in I2.
  assert (K1 : rws_sent s1 = got (rws_log s1) ++ rd_part (rws_rd s1) ++ rws_in s1) by (rewrite G, D, B, F7; exact I1).
  assert (K2 : rws_wire s1 = put (rws_log s1) ++ ztake (wr_sofar p1) (wr_buf p1)).
  { rewrite F1, D, I2, F2, <- !app_assoc. reflexivity. }
  assert (K3 : forall q, rws_rd s1 = Some q -> rd_ok q) by (rewrite B; exact I3).
  assert (K5 : Forall ev_ok (rws_log s1)) by (rewrite D; exact I5).
  destruct r as [e n| |].
  - destruct F9 as [Hn Hall]. unfold inv; cbn.
    split; [exact K1|]. split; [rewrite K2, Hn, app_nil_r; reflexivity|].
    split; [exact K3|]. split; [discriminate|].
    constructor; [|exact K5]. cbn. unfold wr_ok in F3. rewrite F4. rewrite F5 in *. repeat split; try lia; try exact Hall.
  - unfold inv; cbn. split; [exact K1|]. split; [exact K2|]. split; [exact K3|].
    split; [intros q Hq; inversion Hq; subst; exact F3|exact K5].
  - unfold inv; cbn. split; [exact K1|]. split; [exact K2|]. split; [exact K3|].
    split; [intros q Hq; inversion Hq; subst; exact F3|exact K5].
Qed.

(* the user contract of the reactors: one read and one write in flight per object, non-empty buffers *)
Definition contract (s : rwst) (o : rwop) : Prop :=
  match o with
  | ORStart _ len _ => rws_rd s = None /\ 0 < len
  | OWStart _ buf _ => rws_wr s = None /\ 0 < zlen buf
  | _ => True
  end.

Theorem rwstep_inv s o : inv s -> contract s o -> inv (rwstep s o).
Proof.
  intros Hi Hc. destruct o; cbn [rwstep contract] in *.
  - destruct Hc as [Hn Hl].
    assert (Hok : rd_ok (mkrd all len 0 cb [])) by (unfold rd_ok; cbn; unfold zlen; cbn; lia).
    destruct (rws_fl s).
    + apply attempt_read_inv; [exact Hi|rewrite Hn; reflexivity|exact Hok].
    + destruct Hi as (I1 & I2 & I3 & I4 & I5). unfold inv; cbn. rewrite Hn in I1. cbn in I1.
      split; [exact I1|]. split; [exact I2|]. split; [intros q Hq; inversion Hq; subst; exact Hok|]. split; [exact I4|exact I5].
  - destruct Hc as [Hn Hl].
    assert (Hok : wr_ok (mkwr all buf 0 cb)) by (unfold wr_ok; cbn; lia).
    destruct (rws_fl s).
    + apply attempt_write_inv; [exact Hi|rewrite Hn; reflexivity|exact Hok].
    + destruct Hi as (I1 & I2 & I3 & I4 & I5). unfold inv; cbn. rewrite Hn in I2. cbn in I2.
      split; [exact I1|]. split; [exact I2|]. split; [exact I3|]. split; [intros q Hq; inversion Hq; subst; exact Hok|exact I5].
  - assert (H1 : inv (match rws_rd s with Some p => if read_ready s then attempt_read s p else s | None => s end)).
    { destruct (rws_rd s) as [p|] eqn:Er; [|exact Hi]. destruct (read_ready s); [|exact Hi].
      apply attempt_read_inv; [exact Hi|rewrite Er; reflexivity|]. destruct Hi as (_ & _ & I3 & _). apply I3. exact Er. }
    set (s1 := match rws_rd s with Some p => if read_ready s then attempt_read s p else s | None => s end) in *.
    destruct (rws_wr s1) as [p|] eqn:Ew; [|exact H1].
    apply attempt_write_inv; [exact H1|rewrite Ew; reflexivity|]. destruct H1 as (_ & _ & _ & I4 & _). apply I4. exact Ew.
  - destruct Hi as (I1 & I2 & I3 & I4 & I5). unfold inv; cbn. rewrite I1, <- !app_assoc. auto.
  - exact Hi.
  - exact Hi.
  - exact Hi.
Qed.

Fixpoint contracts (s : rwst) (ops : list rwop) : Prop :=
  match ops with [] => True | o :: r => contract s o /\ contracts (rwstep s o) r end.

Theorem rwrun_inv ops : forall s, inv s -> contracts s ops -> inv (rwrun s ops).
Proof.
  induction ops as [|o r IH]; intros s Hi Hc; [exact Hi|]. destruct Hc as [Hc1 Hc2]. cbn [rwrun].
  apply IH; [apply rwstep_inv; assumption|exact Hc2].
Qed.

Lemma inv_init fl : inv (rw_init fl).
Proof. unfold inv, rw_init; cbn. repeat split; try discriminate. constructor. Qed.

(* Corollaries in the words of the property *)
Theorem stream_fidelity ops fl :
  contracts (rw_init fl) ops ->
  let s := rwrun (rw_init fl) ops in
  rws_sent s = got (rws_log s) ++ rd_part (rws_rd s) ++ rws_in s /\
  rws_wire s = put (rws_log s) ++ wr_part (rws_wr s) /\
  Forall ev_ok (rws_log s).
Proof.
  intros Hc s. destruct (rwrun_inv ops (rw_init fl) (inv_init fl) Hc) as (I1 & I2 & _ & _ & I5). auto.
Qed.

(* WriteAll over any split: for every script of partial-write results without errors, an adapter WriteAll that completes
   reports (nil, len) and the transport received exactly the buffer - whatever the split was. *)
Theorem writeall_outcome_independent_of_split fuel s p s1 p1 e n :
  write_now fuel s p = (s1, p1, Done e n) -> wr_sofar p = 0 -> wr_all p = true -> e = eNil ->
  n = zlen (wr_buf p) /\ rws_wire s1 = rws_wire s ++ wr_buf p.
Proof.
  intros H H0 Ha He. assert (Hok : wr_ok p) by (unfold wr_ok; pose proof (zlen_nonneg (wr_buf p)); lia).
  destruct (write_now_spec _ _ _ _ _ _ H Hok) as (acc & F1 & F2 & F3 & F4 & F5 & F6 & F7 & F8 & Hn & Hall).
  specialize (Hall He Ha). split; [exact Hall|].
  rewrite F1. f_equal. rewrite H0 in F2. rewrite (ztake_nonpos 0) in F2 by lia. cbn in F2. rewrite <- F2.
  rewrite F5. apply ztake_all. lia.
Qed.
