(* C20: proofs about the sorted slot container, OffsetSlot (regenerated) and the Fenwick tree model. *)
From Coq Require Import ZifyBool.
From Sonic Require Import Base.Prelude Base.ListLemmas Gen.Slot Model.Slots.
Local Open Scope Z_scope.

(* ---------------------------------------------------------------- sequencedSlots *)

Fixpoint ssorted (l : list sslot) : Prop :=
  match l with
  | [] => True
  | (q, _) :: r => (match r with [] => True | (q', _) :: _ => q < q' end) /\ ssorted r
  end.

Fixpoint ss_find (l : list sslot) (seq : Z) : option Slot :=
  match l with [] => None | (q, s) :: r => if q =? seq then Some s else ss_find r seq end.

Definition all_lt (x : Z) (l : list sslot) : Prop := Forall (fun e => x < fst e) l.

Lemma ssorted_tail q s r : ssorted ((q, s) :: r) -> ssorted r.
Proof. cbn. tauto. Qed.

Lemma ssorted_all_lt q s r : ssorted ((q, s) :: r) -> all_lt q r.
Proof.
  revert q s. induction r as [|[q' s'] r IH]; intros q s H; [constructor|].
  cbn in H. destruct H as [Hlt Hs]. constructor; [exact Hlt|].
  specialize (IH q' s' Hs). unfold all_lt in *. eapply Forall_impl; [|exact IH]. cbn. intros; lia.
Qed.

Lemma ssorted_cons q s r : all_lt q r -> ssorted r -> ssorted ((q, s) :: r).
Proof.
  intros Ha Hs. cbn. split; [|exact Hs]. destruct r as [|[q' s'] r']; [exact I|]. inversion Ha; subst. assumption.
Qed.

Lemma find_none_all_lt x l : all_lt x l -> ss_find l x = None.
Proof.
  induction l as [|[q s] r IH]; intros H; [reflexivity|]. inversion H; subst. cbn in *.
  destruct (q =? x) eqn:E; [lia|]. apply IH. assumption.
Qed.

Lemma all_lt_weaken x y l : x <= y -> all_lt y l -> all_lt x l.
Proof. intros Hxy H. unfold all_lt in *. eapply Forall_impl; [|exact H]. cbn; intros; lia. Qed.

(* the binary search position decides membership *)
Lemma find_via_search l seq : ssorted l ->
  ss_find l seq = match nth_error l (search l seq) with
                  | Some (q, s) => if q =? seq then Some s else None
                  | None => None
                  end.
Proof.
  induction l as [|[q s] r IH]; intros Hs; [reflexivity|].
  cbn [search ss_find]. destruct (q >=? seq) eqn:E; cbn [nth_error].
  - destruct (q =? seq) eqn:E2; [reflexivity|].
    apply find_none_all_lt. apply (all_lt_weaken seq q); [lia|]. eapply ssorted_all_lt; eauto.
  - destruct (q =? seq) eqn:E2; [lia|]. apply IH. eapply ssorted_tail; eauto.
Qed.

Definition ss_insert (l : list sslot) (seq : Z) (slot : Slot) : list sslot :=
  insert_at (search l seq) (seq, slot) l.

Lemma all_lt_insert x l seq slot : all_lt x l -> x < seq -> all_lt x (ss_insert l seq slot).
Proof.
  unfold ss_insert. induction l as [|[q s] r IH]; intros Ha Hx; cbn [search].
  - cbn. constructor; [cbn; lia|constructor].
  - inversion Ha; subst. destruct (q >=? seq); cbn [insert_at].
    + constructor; [cbn; lia|exact Ha].
    + constructor; [assumption|]. apply IH; assumption.
Qed.

Lemma insert_spec l seq slot : ssorted l -> ss_find l seq = None ->
  ssorted (ss_insert l seq slot) /\ ss_find (ss_insert l seq slot) seq = Some slot /\
  (forall x, x <> seq -> ss_find (ss_insert l seq slot) x = ss_find l x) /\
  length (ss_insert l seq slot) = S (length l).
Proof.
  unfold ss_insert. induction l as [|[q s] r IH]; intros Hs Hn; cbn [search].
  - cbn. rewrite Z.eqb_refl. repeat split; auto. intros x Hx. destruct (seq =? x) eqn:E; [lia|reflexivity].
  - cbn [ss_find] in Hn. destruct (q =? seq) eqn:E0; [discriminate|].
    destruct (q >=? seq) eqn:E; cbn [insert_at].
    + split; [cbn; split; [lia|exact Hs]|]. cbn [ss_find]. rewrite Z.eqb_refl. repeat split; auto.
      intros x Hx. destruct (seq =? x) eqn:E2; [lia|reflexivity].
    + destruct (IH (ssorted_tail _ _ _ Hs) Hn) as (H1 & H2 & H3 & H4).
      split.
      * apply ssorted_cons; [|exact H1].
        apply all_lt_insert; [eapply ssorted_all_lt; eauto|lia].
      * cbn [ss_find]. rewrite E0. split; [exact H2|]. split.
        -- intros x Hx. destruct (q =? x); [reflexivity|]. apply H3; exact Hx.
        -- cbn [length]. rewrite H4. reflexivity.
Qed.

Lemma insert_at_end {A} (x : A) l : insert_at (length l) x l = l ++ [x].
Proof. induction l as [|y r IH]; cbn; [reflexivity|]. rewrite IH. reflexivity. Qed.

Lemma search_le_length l seq : (search l seq <= length l)%nat.
Proof. induction l as [|[q s] r IH]; cbn; [lia|]. destruct (q >=? seq); lia. Qed.

Lemma nth_error_none_search l seq : nth_error l (search l seq) = None -> search l seq = length l.
Proof. intros H. apply nth_error_None in H. pose proof (search_le_length l seq). lia. Qed.

(* sequencedSlots.Push *)
Theorem ss_push_spec maxSlots l seq slot l' ok err :
  ssorted l -> ss_push maxSlots l seq slot = (l', ok, err) ->
  ssorted l' /\
  match ss_find l seq with
  | Some _ => l' = l /\ ok = false /\ err = false                       (* duplicate: rejected, nothing disturbed *)
  | None =>
      if zlen l >=? maxSlots then l' = l /\ ok = false /\ err = true    (* full: reported, nothing disturbed *)
      else ok = true /\ err = false /\ zlen l' = zlen l + 1 /\ ss_find l' seq = Some slot /\
           forall x, x <> seq -> ss_find l' x = ss_find l x
  end.
Proof.
  intros Hs H. unfold ss_push in H. rewrite (find_via_search l seq Hs).
  destruct (nth_error l (search l seq)) as [[q s]|] eqn:En.
  - destruct (q =? seq) eqn:E; cbn [negb] in H.
    + inversion H; subst. auto.
    + assert (Hn : ss_find l seq = None) by (rewrite (find_via_search l seq Hs), En, E; reflexivity).
      destruct (zlen l >=? maxSlots) eqn:E3; inversion H; subst; [auto|].
      destruct (insert_spec l seq slot Hs Hn) as (H1 & H2 & H3 & H4). fold (ss_insert l seq slot).
      split; [exact H1|]. split; [reflexivity|]. split; [reflexivity|]. split; [unfold zlen; change (insert_at (search l seq) (seq, slot) l) with (ss_insert l seq slot); rewrite H4; lia|]. split; [exact H2|exact H3].
  - assert (Hn : ss_find l seq = None) by (rewrite (find_via_search l seq Hs), En; reflexivity).
    destruct (zlen l >=? maxSlots) eqn:E3; inversion H; subst; [auto|].
    destruct (insert_spec l seq slot Hs Hn) as (H1 & H2 & H3 & H4).
    unfold ss_insert in H1, H2, H3, H4. rewrite (nth_error_none_search _ _ En) in H1, H2, H3, H4.
    rewrite insert_at_end in H1, H2, H3, H4.
    split; [exact H1|]. split; [reflexivity|]. split; [reflexivity|]. split; [unfold zlen; rewrite app_length; cbn [length]; lia|]. split; [exact H2|exact H3].
Qed.

Lemma all_lt_remove x l i : all_lt x l -> all_lt x (remove_at i l).
Proof.
  revert i. induction l as [|e r IH]; intros i Ha; destruct i; cbn; auto.
  - inversion Ha; assumption.
  - inversion Ha; subst. constructor; [assumption|]. apply IH; assumption.
Qed.

Lemma remove_spec l seq s0 : ssorted l -> ss_find l seq = Some s0 ->
  let l' := remove_at (search l seq) l in
  ssorted l' /\ ss_find l' seq = None /\ (forall x, x <> seq -> ss_find l' x = ss_find l x) /\
  S (length l') = length l.
Proof.
  induction l as [|[q s] r IH]; intros Hs Hf; [discriminate|].
  cbn [search]. cbn [ss_find] in Hf. destruct (q >=? seq) eqn:E.
  - cbn [remove_at]. destruct (q =? seq) eqn:E2.
    + split; [eapply ssorted_tail; eauto|]. split.
      * apply find_none_all_lt. apply (all_lt_weaken seq q); [lia|]. eapply ssorted_all_lt; eauto.
      * split; [|reflexivity]. intros x Hx. cbn [ss_find]. destruct (q =? x) eqn:E3; [lia|reflexivity].
    + exfalso. assert (ss_find r seq = None).
      { apply find_none_all_lt. apply (all_lt_weaken seq q); [lia|]. eapply ssorted_all_lt; eauto. }
      congruence.
  - destruct (q =? seq) eqn:E2; [lia|].
    destruct (IH (ssorted_tail _ _ _ Hs) Hf) as (H1 & H2 & H3 & H4). cbn [remove_at].
    split; [apply ssorted_cons; [apply all_lt_remove; eapply ssorted_all_lt; eauto|exact H1]|].
    cbn [ss_find]. rewrite E2. split; [exact H2|]. split.
    + intros x Hx. destruct (q =? x); [reflexivity|]. apply H3; exact Hx.
    + cbn [length]. rewrite H4. reflexivity.
Qed.

(* sequencedSlots.Pop *)
Theorem ss_pop_spec l seq l' r :
  ssorted l -> ss_pop l seq = (l', r) ->
  ssorted l' /\ r = ss_find l seq /\
  match r with
  | Some _ => ss_find l' seq = None /\ (forall x, x <> seq -> ss_find l' x = ss_find l x) /\ zlen l' = zlen l - 1
  | None => l' = l
  end.
Proof.
  intros Hs H. unfold ss_pop in H. pose proof (find_via_search l seq Hs) as Hf.
  destruct (nth_error l (search l seq)) as [[q s]|] eqn:En.
  - destruct (q =? seq) eqn:E; inversion H; subst.
    + destruct (remove_spec l seq s Hs Hf) as (H1 & H2 & H3 & H4).
      split; [exact H1|]. split; [auto|]. repeat split; auto. unfold zlen. lia.
    + rewrite Hf. auto.
  - inversion H; subst. rewrite Hf. auto.
Qed.

(* ---------------------------------------------------------------- OffsetSlot (regenerated from slot.go) *)

Theorem offset_slot_spec offset slot :
  0 <= offset <= Slot_Index slot ->
  OffsetSlot offset slot = mkSlot (Slot_Index slot - offset) (Slot_Length slot).
Proof.
  intros H. unfold OffsetSlot. destruct (offset <? 0) eqn:E1; [lia|].
  destruct (offset >? Slot_Index slot) eqn:E2; [lia|]. reflexivity.
Qed.

(* ---------------------------------------------------------------- Fenwick tree: unit responses *)

(* For every tree size n <= 64, every index i and every query q below n: adding 1 at i to an empty tree makes the prefix
   sum up to q equal to [i <= q].  (Finite sweep, evaluated by the kernel's vm_compute.) *)
Definition fw_unit_ok (n i q : Z) : bool :=
  match fw_add (fw_new n) i 1 with
  | Ok t => match fw_sum_until t q with Ok v => v =? (if i <=? q then 1 else 0) | Panic => false end
  | Panic => false
  end.

Definition zrange (n : nat) : list Z := map Z.of_nat (seq 0 n).

Definition fw_sweep (bound : nat) : bool :=
  forallb (fun n => forallb (fun i => forallb (fun q =>
     if (i <? n) && (q <? n) then fw_unit_ok n i q else true) (zrange bound)) (zrange bound)) (zrange (S bound)).

Lemma fw_sweep_64 : fw_sweep 64 = true.
Proof. vm_compute. reflexivity. Qed.

Lemma in_zrange z n : 0 <= z < Z.of_nat n -> In z (zrange n).
Proof.
  intros H. unfold zrange. apply in_map_iff. exists (Z.to_nat z). split; [lia|]. apply in_seq. lia.
Qed.

Lemma fw_sweep_forall bound :
  fw_sweep bound = true ->
  forall n, In n (zrange (S bound)) -> forall i, In i (zrange bound) -> forall q, In q (zrange bound) ->
  (if (i <? n) && (q <? n) then fw_unit_ok n i q else true) = true.
Proof.
  intros H n Hn i Hi q Hq. unfold fw_sweep in H.
  rewrite forallb_forall in H. specialize (H n Hn).
  rewrite forallb_forall in H. specialize (H i Hi).
  rewrite forallb_forall in H. exact (H q Hq).
Qed.

Theorem fw_unit_response n i q :
  0 <= n <= 64 -> 0 <= i < n -> 0 <= q < n -> fw_unit_ok n i q = true.
Proof.
  intros Hn Hi Hq.
  assert (H1 : 0 <= n < Z.of_nat (S 64)) by lia.
  assert (H2 : 0 <= i < Z.of_nat 64) by lia.
  assert (H3 : 0 <= q < Z.of_nat 64) by lia.
  pose proof (fw_sweep_forall 64 fw_sweep_64 n (in_zrange n (S 64) H1) i (in_zrange i 64 H2) q (in_zrange q 64 H3)) as H.
  replace ((i <? n) && (q <? n)) with true in H by lia. exact H.
Qed.
