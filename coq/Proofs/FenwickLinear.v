(* C20, Fenwick tree: from unit responses to every history of Adds.

   Add and SumUntil are linear in the stored array: adding delta at i to a tree d gives d + delta * u_i, where u_i is
   the tree obtained by adding 1 at i to the empty tree, and SumUntil distributes over + and scalar multiples.  With
   the kernel-evaluated unit responses of SlotsProofs (sizes <= 64) this yields the prefix-sum contract for EVERY
   sequence of in-range Adds with arbitrary deltas, for every tree size up to 64.  No bit-level reasoning is needed:
   the index walks (i | i+1, i & (i+1) - 1) do not depend on the stored values. *)
From Coq Require Import ZifyBool.
From Sonic Require Import Base.Prelude Base.ListLemmas Gen.Slot Model.Slots Proofs.SlotsProofs.
Local Open Scope Z_scope.

Fixpoint vadd (a b : list Z) : list Z :=
  match a, b with
  | x :: a', y :: b' => (x + y) :: vadd a' b'
  | _, _ => []
  end.
Definition smul (c : Z) (a : list Z) : list Z := map (Z.mul c) a.

Lemma vadd_length a : forall b, length a = length b -> length (vadd a b) = length b.
Proof.
  induction a as [|x a IH]; intros [|y b] H; cbn in *; try lia. rewrite IH; lia.
Qed.

Lemma nth_vadd a : forall b k, length a = length b -> nth k (vadd a b) 0 = nth k a 0 + nth k b 0.
Proof.
  induction a as [|x a IH]; intros [|y b] k H; cbn in *; try lia.
  - destruct k; reflexivity.
  - destruct k as [|k]; [reflexivity|]. apply IH. lia.
Qed.

Lemma upd_nat_length k x : forall l, length (upd_nat k x l) = length l.
Proof.
  induction k as [|k IH]; intros [|y l]; cbn; try reflexivity. rewrite IH. reflexivity.
Qed.

Lemma upd_nat_vadd a : forall b k y,
  length a = length b -> upd_nat k (nth k a 0 + y) (vadd a b) = vadd a (upd_nat k y b).
Proof.
  induction a as [|x a IH]; intros [|z b] k y H; cbn in *; try lia.
  - destruct k; reflexivity.
  - destruct k as [|k]; cbn; [reflexivity|]. rewrite IH by lia. reflexivity.
Qed.

Lemma vadd_zeros a : vadd a (repeat 0 (length a)) = a.
Proof. induction a as [|x a IH]; cbn; [reflexivity|]. rewrite IH. f_equal. lia. Qed.

Lemma smul_length c a : length (smul c a) = length a.
Proof. unfold smul. apply map_length. Qed.

Lemma nth_smul c a : forall k, nth k (smul c a) 0 = c * nth k a 0.
Proof.
  unfold smul. induction a as [|x a IH]; intros [|k]; cbn; try lia. apply IH.
Qed.

Lemma upd_nat_smul c a : forall k x, upd_nat k (c * x) (smul c a) = smul c (upd_nat k x a).
Proof.
  unfold smul. induction a as [|y a IH]; intros [|k] x; cbn; try reflexivity. rewrite IH. reflexivity.
Qed.

Lemma smul_zeros c n : smul c (repeat 0 n) = repeat 0 n.
Proof. unfold smul. induction n as [|n IH]; cbn; [reflexivity|]. rewrite IH. f_equal. lia. Qed.

Lemma zlen_vadd a b : length a = length b -> zlen (vadd a b) = zlen b.
Proof. intros H. unfold zlen. rewrite vadd_length by exact H. reflexivity. Qed.

Lemma zlen_smul c a : zlen (smul c a) = zlen a.
Proof. unfold zlen. rewrite smul_length. reflexivity. Qed.

(* ---- Add *)

Lemma add_loop_length f : forall d i delta d', fw_add_loop f d i delta = Ok d' -> length d' = length d.
Proof.
  induction f as [|f IH]; intros d i delta d' H; cbn [fw_add_loop] in H.
  - inversion H. reflexivity.
  - destruct (i <? zlen d); [|inversion H; reflexivity]. destruct (i <? 0); [discriminate|].
    apply IH in H. rewrite H. unfold zupd. apply upd_nat_length.
Qed.

Lemma add_linear f : forall d e i delta,
  length d = length e ->
  fw_add_loop f (vadd d e) i delta =
  match fw_add_loop f e i delta with Ok e' => Ok (vadd d e') | Panic => Panic end.
Proof.
  induction f as [|f IH]; intros d e i delta H; cbn [fw_add_loop]; [reflexivity|].
  rewrite (zlen_vadd d e H). destruct (i <? zlen e); [|reflexivity]. destruct (i <? 0); [reflexivity|].
  unfold znth, zupd. rewrite (nth_vadd d e _ H).
  replace (nth (Z.to_nat i) d 0 + nth (Z.to_nat i) e 0 + delta)
    with (nth (Z.to_nat i) d 0 + (nth (Z.to_nat i) e 0 + delta)) by lia.
  rewrite (upd_nat_vadd d e _ _ H). apply IH. rewrite upd_nat_length. exact H.
Qed.

Lemma add_scale f : forall e i c,
  fw_add_loop f (smul c e) i c =
  match fw_add_loop f e i 1 with Ok e' => Ok (smul c e') | Panic => Panic end.
Proof.
  induction f as [|f IH]; intros e i c; cbn [fw_add_loop]; [reflexivity|].
  rewrite zlen_smul. destruct (i <? zlen e); [|reflexivity]. destruct (i <? 0); [reflexivity|].
  unfold znth, zupd. rewrite nth_smul.
  replace (c * nth (Z.to_nat i) e 0 + c) with (c * (nth (Z.to_nat i) e 0 + 1)) by lia.
  rewrite upd_nat_smul. apply IH.
Qed.

(* ---- SumUntil *)

Lemma sum_linear f : forall d e q a1 a2,
  length d = length e ->
  fw_sum_loop f (vadd d e) q (a1 + a2) =
  match fw_sum_loop f d q a1, fw_sum_loop f e q a2 with
  | Ok v1, Ok v2 => Ok (v1 + v2)
  | _, _ => Panic
  end.
Proof.
  induction f as [|f IH]; intros d e q a1 a2 H; cbn [fw_sum_loop]; [reflexivity|].
  rewrite (zlen_vadd d e H). replace (zlen d) with (zlen e) by (unfold zlen; lia).
  destruct (q >=? 0); [|reflexivity]. destruct (q <? zlen e); [|reflexivity].
  unfold znth. rewrite (nth_vadd d e _ H).
  replace (a1 + a2 + (nth (Z.to_nat q) d 0 + nth (Z.to_nat q) e 0))
    with ((a1 + nth (Z.to_nat q) d 0) + (a2 + nth (Z.to_nat q) e 0)) by lia.
  apply IH. exact H.
Qed.

Lemma sum_scale f : forall e q a c,
  fw_sum_loop f (smul c e) q (c * a) =
  match fw_sum_loop f e q a with Ok v => Ok (c * v) | Panic => Panic end.
Proof.
  induction f as [|f IH]; intros e q a c; cbn [fw_sum_loop]; [reflexivity|].
  rewrite zlen_smul. destruct (q >=? 0); [|reflexivity]. destruct (q <? zlen e); [|reflexivity].
  unfold znth. rewrite nth_smul.
  replace (c * a + c * nth (Z.to_nat q) e 0) with (c * (a + nth (Z.to_nat q) e 0)) by lia.
  apply IH.
Qed.

(* ---- the unit tree *)

Lemma fw_new_length n : length (fw_new n) = Z.to_nat n.
Proof. unfold fw_new. apply repeat_length. Qed.

Lemma unit_tree n i :
  0 <= n <= 64 -> 0 <= i < n ->
  exists u, fw_add (fw_new n) i 1 = Ok u /\ length u = Z.to_nat n /\
            forall q, 0 <= q < n -> fw_sum_until u q = Ok (if i <=? q then 1 else 0).
Proof.
  intros Hn Hi.
  pose proof (fw_unit_response n i i Hn Hi Hi) as H0. unfold fw_unit_ok in H0.
  destruct (fw_add (fw_new n) i 1) as [u|] eqn:Eu; [|discriminate].
  exists u. split; [reflexivity|]. split.
  - unfold fw_add in Eu. apply add_loop_length in Eu. rewrite Eu. apply fw_new_length.
  - intros q Hq. pose proof (fw_unit_response n i q Hn Hi Hq) as H. unfold fw_unit_ok in H. rewrite Eu in H.
    destruct (fw_sum_until u q) as [v|]; [|discriminate]. f_equal. lia.
Qed.

(* ---- one Add on an arbitrary tree *)

Lemma add_on_any_tree n d i delta :
  0 <= n <= 64 -> 0 <= i < n -> length d = Z.to_nat n ->
  exists u, fw_add (fw_new n) i 1 = Ok u /\ length u = Z.to_nat n /\
            fw_add d i delta = Ok (vadd d (smul delta u)).
Proof.
  intros Hn Hi Hd. destruct (unit_tree n i Hn Hi) as (u & Eu & Lu & _).
  exists u. split; [exact Eu|]. split; [exact Lu|].
  unfold fw_add in *. rewrite fw_new_length in Eu. unfold fw_new in Eu.
  rewrite <- (vadd_zeros d) at 2. rewrite Hd.
  rewrite <- (smul_zeros delta (Z.to_nat n)).
  rewrite add_linear by (rewrite smul_length, repeat_length; exact Hd).
  rewrite add_scale. rewrite Eu. reflexivity.
Qed.

Lemma sum_after_add d u q delta v w :
  length d = length u ->
  fw_sum_until d q = Ok v -> fw_sum_until u q = Ok w ->
  fw_sum_until (vadd d (smul delta u)) q = Ok (v + delta * w).
Proof.
  intros L Hv Hw. unfold fw_sum_until in *.
  rewrite vadd_length by (rewrite smul_length; exact L). rewrite smul_length.
  replace 0 with (0 + delta * 0) at 1 by lia.
  rewrite sum_linear by (rewrite smul_length; exact L).
  rewrite sum_scale. rewrite L in Hv. rewrite Hv, Hw. reflexivity.
Qed.

(* ---- every history *)

Fixpoint fw_adds (d : list Z) (adds : list (Z * Z)) : outcome (list Z) :=
  match adds with
  | [] => Ok d
  | (i, delta) :: r => match fw_add d i delta with Ok d' => fw_adds d' r | Panic => Panic end
  end.

Fixpoint prefix_of (adds : list (Z * Z)) (q : Z) : Z :=
  match adds with
  | [] => 0
  | (i, delta) :: r => (if i <=? q then delta else 0) + prefix_of r q
  end.

Lemma adds_from_any_tree n adds : forall d (S0 : Z -> Z),
  0 <= n <= 64 -> Forall (fun p => 0 <= fst p < n) adds ->
  length d = Z.to_nat n ->
  (forall q, 0 <= q < n -> fw_sum_until d q = Ok (S0 q)) ->
  exists d', fw_adds d adds = Ok d' /\ length d' = Z.to_nat n /\
             forall q, 0 <= q < n -> fw_sum_until d' q = Ok (S0 q + prefix_of adds q).
Proof.
  induction adds as [|[i delta] r IH]; intros d S0 Hn Hall Hd HS; cbn [fw_adds prefix_of].
  - exists d. split; [reflexivity|]. split; [exact Hd|]. intros q Hq. rewrite (HS q Hq). f_equal. lia.
  - inversion Hall as [|p r' Hi Hr]; subst. cbn [fst] in Hi.
    destruct (unit_tree n i Hn Hi) as (u & Eu & Lu & Su).
    destruct (add_on_any_tree n d i delta Hn Hi Hd) as (u' & Eu' & _ & Ea).
    rewrite Eu in Eu'. inversion Eu'; subst u'. rewrite Ea.
    assert (L : length d = length u) by lia.
    destruct (IH (vadd d (smul delta u)) (fun q => S0 q + delta * (if i <=? q then 1 else 0)) Hn Hr) as (d' & E1 & E2 & E3).
    + rewrite vadd_length by (rewrite smul_length; exact L). rewrite smul_length. exact Lu.
    + intros q Hq. apply sum_after_add; [exact L|apply HS; exact Hq|apply Su; exact Hq].
    + exists d'. split; [exact E1|]. split; [exact E2|]. intros q Hq. rewrite (E3 q Hq). f_equal.
      destruct (i <=? q); lia.
Qed.

Lemma vadd_zeros_l a : vadd (repeat 0 (length a)) a = a.
Proof. induction a as [|x a IH]; cbn; [reflexivity|]. rewrite IH. reflexivity. Qed.

(* The empty tree answers 0 everywhere.  (That SumUntil does not panic on it is read off the unit tree, which has the
   same length and on which the same index walk is known to finish.) *)
Lemma empty_tree_sums n q : 0 <= n <= 64 -> 0 <= q < n -> fw_sum_until (fw_new n) q = Ok 0.
Proof.
  intros Hn Hq. destruct (unit_tree n q Hn Hq) as (u & _ & Lu & Su). specialize (Su q Hq).
  unfold fw_sum_until in *. rewrite fw_new_length. unfold fw_new. rewrite <- Lu.
  pose proof (sum_linear (S (length u)) (repeat 0 (length u)) u q 0 0 (repeat_length 0 (length u))) as H.
  rewrite vadd_zeros_l in H. cbn [Z.add] in H. rewrite Su in H.
  destruct (fw_sum_loop (S (length u)) (repeat 0 (length u)) q 0) as [v|]; [|discriminate].
  f_equal. inversion H. lia.
Qed.

(* Every history of in-range Adds, arbitrary deltas, every size up to 64: SumUntil q is the sum of the deltas added at
   indices <= q. *)
Theorem fw_prefix_sums n adds :
  0 <= n <= 64 -> Forall (fun p => 0 <= fst p < n) adds ->
  exists d, fw_adds (fw_new n) adds = Ok d /\ length d = Z.to_nat n /\
            forall q, 0 <= q < n -> fw_sum_until d q = Ok (prefix_of adds q).
Proof.
  intros Hn Hall.
  destruct (adds_from_any_tree n adds (fw_new n) (fun _ => 0) Hn Hall (fw_new_length n)
              (fun q Hq => empty_tree_sums n q Hn Hq)) as (d & E1 & E2 & E3).
  exists d. split; [exact E1|]. split; [exact E2|]. intros q Hq. rewrite (E3 q Hq). reflexivity.
Qed.
