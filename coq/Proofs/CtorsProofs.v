(* C13 (descriptor part): proofs about Model/Ctors.v *)
From Coq Require Import ZifyBool.
From Sonic Require Import Base.Prelude Base.ListLemmas Model.Ctors.
Local Open Scope Z_scope.

(* every error path of every constructor closes exactly what it allocated (finite sweep over the table of paths) *)
Theorem ctor_paths_balanced : forall c p, In p (ctor_paths c) -> fst p = snd p.
Proof.
  assert (H : forallb (fun c => forallb (fun p => fst p =? snd p) (ctor_paths c)) all_ctors = true) by (vm_compute; reflexivity).
  intros c p Hin. rewrite forallb_forall in H.
  assert (Hc : In c all_ctors) by (destruct c; cbn; tauto).
  specialize (H c Hc). rewrite forallb_forall in H. specialize (H p Hin). lia.
Qed.

Lemma fd_close_not_in fd t : ~ In fd (fd_close fd t).
Proof. unfold fd_close. intros H. apply filter_In in H. destruct H as [_ H]. rewrite Z.eqb_refl in H. discriminate. Qed.

Lemma fd_close_other fd x t : x <> fd -> (In x (fd_close fd t) <-> In x t).
Proof.
  unfold fd_close. intros Hn. rewrite filter_In. split; [tauto|]. intros H. split; [exact H|].
  destruct (x =? fd) eqn:E; [lia|reflexivity].
Qed.

Lemma filter_len_le {A} (f : A -> bool) l : (length (filter f l) <= length l)%nat.
Proof. induction l as [|a l IH]; cbn; [lia|]. destruct (f a); cbn; lia. Qed.

Lemma lowest_free_fresh fuel : forall t k, (length t < fuel)%nat -> ~ In (lowest_free fuel t k) t.
Proof.
  (* among fuel consecutive numbers starting at k at most length t are taken *)
  induction fuel as [|f IH]; intros t k Hl; [lia|].
  cbn [lowest_free]. destruct (existsb (Z.eqb k) t) eqn:E.
  - (* k is taken: remove it and continue *)
    intros Hin.
    assert (Hk : In k t) by (apply existsb_exists in E; destruct E as (x & Hx & Hxe); replace k with x by lia; exact Hx).
    set (t' := filter (fun x => negb (x =? k)) t).
    assert (Hlen : (length t' < f)%nat).
    { assert (Hlt : (length t' < length t)%nat).
      { unfold t'. clear -Hk. induction t as [|a t IHt]; [contradiction|]. cbn in *.
        destruct (a =? k) eqn:Ea; cbn.
        - pose proof (filter_len_le (fun x => negb (x =? k)) t). lia.
        - destruct Hk as [Hk|Hk]; [lia|]. specialize (IHt Hk). lia. }
      lia. }
    assert (Hsame : forall g j, k < j -> lowest_free g t j = lowest_free g t' j).
    { induction g as [|g IHg]; intros j Hj; [reflexivity|]. cbn [lowest_free].
      assert (Hex : existsb (Z.eqb j) t = existsb (Z.eqb j) t').
      { unfold t'. clear -Hj. induction t as [|a t IHt]; [reflexivity|]. cbn. destruct (a =? k) eqn:Ea; cbn.
        - replace (j =? a) with false by lia. exact IHt.
        - rewrite IHt. reflexivity. }
      rewrite Hex. destruct (existsb (Z.eqb j) t'); [apply IHg; lia|reflexivity]. }
    rewrite Hsame in Hin by lia.
    apply (IH t' (k + 1) Hlen). unfold t' in *. apply filter_In. split; [exact Hin|].
    assert (Hge : forall g tt j, j <= lowest_free g tt j).
    { induction g as [|g IHg]; intros tt j; cbn [lowest_free]; [lia|]. destruct (existsb (Z.eqb j) tt); [specialize (IHg tt (j + 1)); lia|lia]. }
    specialize (Hge f (filter (fun x => negb (x =? k)) t) (k + 1)). lia.
  - intros Hin. assert (existsb (Z.eqb k) t = true) by (apply existsb_exists; exists k; split; [exact Hin|lia]). congruence.
Qed.

Lemma fd_alloc_fresh t : ~ In (fst (fd_alloc t)) t.
Proof. unfold fd_alloc. cbn [fst]. apply lowest_free_fresh. lia. Qed.

(* ---- no foreign close: live objects own distinct open descriptors; a closed object's Close touches nothing *)
Definition live_ok (s : fstate) : Prop :=
  (forall id ob, flookup id (fs_objs s) = Some ob -> f_closed ob = false -> In (f_fd ob) (fs_table s)) /\
  (forall i j a b, flookup i (fs_objs s) = Some a -> flookup j (fs_objs s) = Some b -> i <> j ->
                   f_closed a = false -> f_closed b = false -> f_fd a <> f_fd b).

Lemma flookup_fupdate k v l j : flookup j (fupdate k v l) = if j =? k then Some v else flookup j l.
Proof.
  induction l as [|[k' v'] r IH]; cbn.
  - destruct (j =? k); reflexivity.
  - destruct (k =? k') eqn:E; cbn.
    + destruct (j =? k) eqn:Ej; [replace (j =? k') with true by lia; reflexivity|replace (j =? k') with false by lia; reflexivity].
    + destruct (j =? k') eqn:Ej'; [replace (j =? k) with false by lia; reflexivity|exact IH].
Qed.

(* with the guard, every history of creations and (repeated) closes keeps the invariant: no Close ever removes a
   descriptor that a live object owns other than the one being closed *)
Theorem guarded_close_never_foreign s o :
  fs_guarded s = true -> live_ok s -> (forall id, o = FNew id -> flookup id (fs_objs s) = None) -> live_ok (fstep s o).
Proof.
  intros Hg [L1 L2] Hfresh. destruct o as [id|id]; cbn [fstep].
  - specialize (Hfresh id eq_refl).
    pose proof (fd_alloc_fresh (fs_table s)) as Hfr. destruct (fd_alloc (fs_table s)) as [fd t] eqn:Ea.
    assert (Ht : t = fd :: fs_table s) by (unfold fd_alloc in Ea; inversion Ea; reflexivity). cbn [fst] in Hfr.
    split; cbn [fs_objs fs_table].
    + intros j ob Hl Hc. rewrite flookup_fupdate in Hl. destruct (j =? id).
      * inversion Hl; subst. cbn. left. reflexivity.
      * subst t. right. eapply L1; eassumption.
    + intros i j a b Ha Hb Hne Hca Hcb. rewrite flookup_fupdate in Ha, Hb.
      destruct (i =? id) eqn:Ei; destruct (j =? id) eqn:Ej.
      * lia.
      * inversion Ha; subst. cbn. intros E. apply Hfr. rewrite E. eapply L1; eassumption.
      * inversion Hb; subst. cbn. intros E. apply Hfr. rewrite <- E. eapply L1; eassumption.
      * eapply L2; eassumption.
  - destruct (flookup id (fs_objs s)) as [ob|] eqn:El; [|split; assumption].
    rewrite Hg. destruct (f_closed ob) eqn:Ec; cbn [andb]; [split; assumption|].
    split; cbn [fs_objs fs_table].
    + intros j x Hl Hc. rewrite flookup_fupdate in Hl. destruct (j =? id) eqn:Ej.
      * inversion Hl; subst. cbn in Hc. discriminate.
      * apply fd_close_other; [|eapply L1; eassumption].
        eapply (L2 j id x ob); try eassumption. lia.
    + intros i j a b Ha Hb Hne Hca Hcb. rewrite flookup_fupdate in Ha, Hb.
      destruct (i =? id) eqn:Ei; [inversion Ha; subst; cbn in Hca; discriminate|].
      destruct (j =? id) eqn:Ej; [inversion Hb; subst; cbn in Hcb; discriminate|].
      eapply L2; eassumption.
Qed.

(* without the guard (the code before the repair of listener / packet conn Close) a second Close closes the descriptor
   of another live object *)
Theorem unguarded_close_is_foreign :
  let s := frun (mkfs [] [] false) [FNew 1; FClose 1; FNew 2; FClose 1] in
  exists ob, flookup 2 (fs_objs s) = Some ob /\ f_closed ob = false /\ ~ In (f_fd ob) (fs_table s).
Proof. vm_compute. eexists. split; [reflexivity|]. split; [reflexivity|]. intros []. Qed.

(* every error path leaves the table as it found it *)
Theorem run_path_restores t c p : In p (ctor_paths c) -> forall x, In x (run_path t p) <-> In x t.
Proof.
  intros Hin. pose proof (ctor_paths_balanced c p Hin) as Hb.
  assert (Hcases : p = (0, 0) \/ p = (1, 1) \/ p = (2, 2)).
  { destruct c; cbn in Hin; repeat (destruct Hin as [<- |Hin]; [auto|]); contradiction. }
  intros x. destruct Hcases as [-> |[-> | ->]]; unfold run_path; cbn [fst snd].
  - change (Z.to_nat 0) with 0%nat. cbn. tauto.
  - change (Z.to_nat 1) with 1%nat. cbn [alloc_n].
    pose proof (fd_alloc_fresh t) as Hf. destruct (fd_alloc t) as [fd t1] eqn:Ea.
    assert (t1 = fd :: t) by (unfold fd_alloc in Ea; inversion Ea; reflexivity). subst t1. cbn [fst] in Hf.
    cbn [firstn fold_left]. unfold fd_close. cbn [filter]. rewrite Z.eqb_refl. cbn [negb]. rewrite filter_In. split.
    + tauto.
    + intros Hx. split; [exact Hx|]. destruct (x =? fd) eqn:E; [|reflexivity]. exfalso. apply Hf. replace fd with x by lia. exact Hx.
  - change (Z.to_nat 2) with 2%nat. cbn [alloc_n].
    pose proof (fd_alloc_fresh t) as Hf. destruct (fd_alloc t) as [fd t1] eqn:Ea.
    assert (t1 = fd :: t) by (unfold fd_alloc in Ea; inversion Ea; reflexivity). subst t1. cbn [fst] in Hf.
    pose proof (fd_alloc_fresh (fd :: t)) as Hf2. destruct (fd_alloc (fd :: t)) as [fd2 t2] eqn:Ea2.
    assert (t2 = fd2 :: fd :: t) by (unfold fd_alloc in Ea2; inversion Ea2; reflexivity). subst t2. cbn [fst] in Hf2.
    cbn [firstn fold_left]. unfold fd_close. cbn [filter]. rewrite !Z.eqb_refl. cbn [negb].
    assert (Hne : fd <> fd2) by (intros E; apply Hf2; left; exact E).
    replace (fd =? fd2) with false by lia. cbn [negb filter]. rewrite Z.eqb_refl. cbn [negb].
    rewrite !filter_In. split.
    + tauto.
    + intros Hx. assert (x <> fd) by (intros E; apply Hf; rewrite <- E; exact Hx).
      assert (x <> fd2) by (intros E; apply Hf2; right; rewrite <- E; exact Hx).
      repeat split; auto; lia.
Qed.
