(* C17: invariants of Model/WsAsync.v with the repaired (serialised) flush. *)
From Coq Require Import ZifyBool.
From Sonic Require Import Base.Prelude Base.ListLemmas Model.WsAsync.
Local Open Scope Z_scope.
Local Arguments Z.add : simpl never.
Local Arguments Z.sub : simpl never.

Definition contk_eqb (a b : contk) : bool :=
  match a, b with KRead, KRead => true | KApp i, KApp j => i =? j | _, _ => false end.
Fixpoint cnt (k : contk) (l : list contk) : Z :=
  match l with [] => 0 | x :: r => (if contk_eqb k x then 1 else 0) + cnt k r end.
Lemma cnt_app k a b : cnt k (a ++ b) = cnt k a + cnt k b.
Proof. induction a as [|x a IH]; cbn; [lia|]. rewrite IH. lia. Qed.

Definition outstanding (s : wa) : list contk := (match a_chain s with Some k => [k] | None => [] end) ++ a_waiters s.

(* R: completions that have been taken out of the stream state and are about to be run *)
Record cinv (R : list contk) (s : wa) : Prop := {
  v_serial : a_serial s = true;
  v_all : a_all s = a_done s ++ a_dst s ++ concat (a_pending s);
  v_wire : match a_wr s with
           | Some n => 0 <= n <= zlen (a_dst s) /\ a_wire s = a_done s ++ ztake n (a_dst s)
           | None => a_dst s = [] /\ a_wire s = a_done s
           end;
  v_flushing : a_flushing s = match a_wr s with Some _ => true | None => false end;
  v_idle : a_flushing s = false -> a_chain s = None /\ a_waiters s = [];
  v_cnt : forall k, cnt k (a_fstart s) = cnt k (a_fdone s) + cnt k (outstanding s) + cnt k R
}.

Lemma concat_snoc {A} (l : list (list A)) x : concat (l ++ [x]) = concat l ++ x.
Proof. rewrite concat_app. cbn. rewrite app_nil_r. reflexivity. Qed.

Lemma cinv_queue R s f : cinv R s -> cinv R (queue_frame s f).
Proof.
  intros [A B C D E F]. constructor; cbn; auto.
  rewrite B, concat_snoc, <- !app_assoc. reflexivity.
Qed.

Lemma cinv_fields R s s' :
  cinv R s ->
  a_serial s' = a_serial s -> a_pending s' = a_pending s -> a_dst s' = a_dst s -> a_wr s' = a_wr s -> a_chain s' = a_chain s ->
  a_flushing s' = a_flushing s -> a_waiters s' = a_waiters s -> a_wire s' = a_wire s -> a_done s' = a_done s -> a_all s' = a_all s ->
  a_fstart s' = a_fstart s -> a_fdone s' = a_fdone s -> cinv R s'.
Proof.
  intros [A B C D E F] E1 E2 E3 E4 E5 E6 E7 E8 E9 E10 E11 E12.
  constructor; unfold outstanding in *; rewrite ?E1, ?E2, ?E3, ?E4, ?E5, ?E6, ?E7, ?E8, ?E9, ?E10, ?E11, ?E12; auto.
Qed.

Lemma fuel_mutual fuel :
  (forall s R, cinv R s -> cinv R (handle_read fuel s)) /\
  (forall s R k, cinv (k :: R) s -> cinv R (run_cont fuel s k)) /\
  (forall s R k, cinv R s -> cinv R (flush fuel s k)).
Proof.
  induction fuel as [|f [IH1 [IH2 IH3]]].
  - split; [|split].
    + intros s R H. eapply cinv_fields; [exact H|reflexivity..].
    + intros s R k [A B C D E F]. constructor; cbn; auto. intros k0. specialize (F k0). unfold outstanding in *. cbn in *.
      rewrite cnt_app. cbn. lia.
    + intros s R k H. eapply cinv_fields; [exact H|reflexivity..].
  - split; [|split].
    + (* handle_read *)
      intros s R H. cbn [handle_read]. destruct (a_src s) as [|[opc payload] rest].
      * eapply cinv_fields; [exact H|reflexivity..].
      * destruct (opc =? 9).
        -- apply IH3. assert (H0 : cinv R (set_src s rest)) by (eapply cinv_fields; [exact H|reflexivity..]).
           destruct (a_state _ =? 1); [apply cinv_queue; exact H0|exact H0].
        -- cbn [a_rd set_src]. destruct (a_rd s) as [[rid blen]|]; [|eapply cinv_fields; [exact H|reflexivity..]].
           destruct (zlen payload >? blen); [|eapply cinv_fields; [exact H|reflexivity..]].
           assert (H0 : cinv R (set_rd (set_src s rest) None)) by (eapply cinv_fields; [exact H|reflexivity..]).
           match goal with |- cinv R (upd_log ?x _) => apply (cinv_fields R x); [|reflexivity..] end.
           destruct (a_state _ =? 1); [|exact H0].
           apply IH3. apply cinv_queue. eapply cinv_fields; [exact H0|reflexivity..].
    + (* run_cont *)
      intros s R k H. cbn [run_cont].
      assert (H1 : cinv R (add_fdone s k)).
      { destruct H as [A B C D E F]. constructor; cbn; auto. intros k0. specialize (F k0). unfold outstanding in *. cbn in *.
        rewrite cnt_app. cbn. lia. }
      destruct k as [|id]; [apply IH1; exact H1|].
      set (s1 := if id <? 0 then add_fdone s (KApp id) else upd_log (add_fdone s (KApp id)) (id, 0, [])).
      assert (H2 : cinv R s1) by (unfold s1; destruct (id <? 0); [exact H1|eapply cinv_fields; [exact H1|reflexivity..]]).
      clearbody s1. destruct (nlookup id _) as [[id2 payload]|]; [|exact H2].
      destruct (a_state _ =? 1); [apply IH3; apply cinv_queue; exact H2|eapply cinv_fields; [exact H2|reflexivity..]].
    + (* flush *)
      intros s R k H. cbn [flush]. pose proof H as [A B C D E F]. rewrite A. cbn [andb].
      destruct (a_flushing s) eqn:Ef.
      * (* wait for the flush in flight *)
        constructor; cbn; rewrite ?Ef; auto.
        -- intros X. discriminate.
        -- intros k0. specialize (F k0). unfold outstanding in *. cbn. rewrite !cnt_app in *. cbn. lia.
      * destruct (E eq_refl) as [Ec Ew].
        assert (Hwr : a_wr s = None) by (destruct (a_wr s); [discriminate|reflexivity]).
        rewrite Hwr in C. destruct C as [Cd Cw].
        destruct (a_pending s) as [|fr rest] eqn:Ep.
        -- apply IH2. constructor; cbn;
             [exact A|rewrite ?Ep; exact B|rewrite Hwr; split; assumption|rewrite Hwr; exact Ef|intros _; split; assumption|].
           intros k0. specialize (F k0). unfold outstanding in *. cbn. rewrite cnt_app. cbn. lia.
        -- unfold send_head. cbn. rewrite ?Ep. constructor; cbn;
             [exact A|rewrite B, ?Ep, Cd; cbn; reflexivity| |reflexivity|intros X; discriminate|].
           ++ pose proof (zlen_nonneg (a_dst s ++ fr)). split; [lia|]. rewrite app_nil_r. exact Cw.
           ++ intros k0. specialize (F k0). unfold outstanding in *. rewrite Ec, Ew in *. cbn in *. rewrite cnt_app. cbn. lia.
Qed.

Lemma run_conts_inv fuel : forall ks s R, cinv (ks ++ R) s -> cinv R (run_conts fuel s ks).
Proof.
  induction ks as [|k r IH]; intros s R H; cbn [run_conts]; [exact H|].
  apply IH. apply (proj1 (proj2 (fuel_mutual fuel))). exact H.
Qed.

Lemma write_complete_inv s n :
  cinv [] s -> a_wr s = Some n -> n = zlen (a_dst s) -> cinv [] (write_complete s).
Proof.
  intros [A B C D E F] Hw Hn. rewrite Hw in C, D. destruct C as [C1 C2].
  unfold write_complete. cbn.
  destruct (a_pending s) as [|fr rest] eqn:Ep.
  - (* the chain is complete: run its completion, then the waiters *)
    apply run_conts_inv. rewrite app_nil_r. constructor; cbn;
      [exact A|rewrite B; cbn; rewrite !app_nil_r; reflexivity|split; [reflexivity|rewrite C2, Hn, ztake_all by lia; reflexivity]|
       reflexivity|auto|].
    intros k0. specialize (F k0). unfold outstanding in *. cbn in F. lia.
  - unfold send_head. cbn. constructor; cbn;
      [exact A|rewrite B; cbn; rewrite <- !app_assoc; reflexivity| |exact D|intros X; rewrite D in X; discriminate|exact F].
    pose proof (zlen_nonneg fr). split; [lia|]. rewrite app_nil_r, C2, Hn, ztake_all by lia. reflexivity.
Qed.

Lemma ztake_step {A} (l : list A) a n : 0 <= a -> 0 <= n -> a + n <= zlen l -> ztake a l ++ zsub a (a + n) l = ztake (a + n) l.
Proof.
  intros Ha Hn Hl. unfold zsub. replace (a + n - a) with n by lia.
  rewrite <- (ztake_zdrop_split a l) at 3. rewrite ztake_app_r by (rewrite zlen_ztake; lia). rewrite zlen_ztake by lia.
  f_equal. f_equal. lia.
Qed.

Theorem wastep_inv s o : cinv [] s -> cinv [] (wastep s o).
Proof.
  intros H. destruct o as [rid blen|wid payload|opc payload|cid|wid wid2 payload2|accept]; cbn [wastep].
  - apply (proj2 (proj2 (fuel_mutual wa_fuel))). eapply cinv_fields; [exact H|reflexivity..].
  - destruct (a_state s =? 1); [|eapply cinv_fields; [exact H|reflexivity..]].
    apply (proj2 (proj2 (fuel_mutual wa_fuel))). apply cinv_queue. exact H.
  - eapply cinv_fields; [exact H|reflexivity..].
  - destruct (a_state s =? 1); [|eapply cinv_fields; [exact H|reflexivity..]].
    apply (proj2 (proj2 (fuel_mutual wa_fuel))). apply cinv_queue. eapply cinv_fields; [exact H|reflexivity..].
  - eapply cinv_fields; [exact H|reflexivity..].
  - set (s1 := if a_rwait s && negb (match a_inq s with [] => true | _ => false end) then _ else s).
    assert (H1 : cinv [] s1).
    { unfold s1. destruct (a_rwait s && _); [|exact H]. apply (proj1 (fuel_mutual wa_fuel)). eapply cinv_fields; [exact H|reflexivity..]. }
    clearbody s1. destruct (a_wr s); [|exact H1].
    destruct (a_wr s1) as [sofar|] eqn:Ew; [|exact H1].
    pose proof H1 as [A B C D E F]. rewrite Ew in C, D. destruct C as [C1 C2].
    set (n := Z.max 0 (Z.min accept (zlen (a_dst s1) - sofar))).
    assert (Hn : 0 <= n /\ sofar + n <= zlen (a_dst s1)) by (unfold n; lia).
    match goal with |- cinv [] (if _ then write_complete ?x else ?y) => set (s2 := x) end.
    assert (H2 : cinv [] s2).
    { unfold s2. constructor; cbn; [exact A|exact B| |exact D|exact E|exact F].
      split; [lia|]. rewrite C2, <- app_assoc. f_equal. apply ztake_step; lia. }
    destruct (sofar + n =? zlen (a_dst s1)) eqn:Ec; [|exact H2].
    apply (write_complete_inv s2 (sofar + n)); [exact H2|reflexivity|unfold s2; cbn; lia].
Qed.

Lemma cinv_init : cinv [] (wa_init true).
Proof. constructor; cbn; auto. Qed.

Theorem warun_inv ops : forall s, cinv [] s -> cinv [] (warun s ops).
Proof. induction ops as [|o r IH]; intros s H; [exact H|]. cbn [warun]. apply IH. apply wastep_inv. exact H. Qed.

(* In words.  For every history of reads, writes, peer events and polls with any number of bytes accepted per write:
   the wire is a prefix of the frames in the order they were queued - nothing interleaved, nothing repeated; every flush
   completion registered (the continuation of a read, or the callback of AsyncWrite/AsyncWriteFrame/AsyncFlush/AsyncClose)
   has either run exactly once or is still held by the flush in flight - none is dropped, none runs twice. *)
Theorem wire_prefix_and_callbacks_exact ops :
  let s := warun (wa_init true) ops in
  (exists rest, a_all s = a_wire s ++ rest) /\
  (forall k, cnt k (a_fstart s) = cnt k (a_fdone s) + cnt k (outstanding s)).
Proof.
  intros s. destruct (warun_inv ops _ cinv_init) as [A B C D E F]. fold s in A, B, C, D, E, F. split.
  - destruct (a_wr s) as [n|].
    + destruct C as [C1 C2]. exists (zdrop n (a_dst s) ++ concat (a_pending s)).
      rewrite B, C2, <- !app_assoc. f_equal. rewrite app_assoc, ztake_zdrop_split. reflexivity.
    + destruct C as [C1 C2]. exists (concat (a_pending s)). rewrite B, C1, C2. reflexivity.
  - intros k. specialize (F k). cbn in F. lia.
Qed.

(* The structure before the repair: an application write issued while the Pong flush is waiting in the poller replaces it
   in the adapter; the continuation of the read is lost for good - the message the peer sends afterwards is never
   delivered although the loop keeps running. *)
Theorem unserialised_flush_drops_the_read :
  let s := warun (wa_init false)
             [WaRead 1 70000; WaPeer 9 [7]; WaPoll 1000; WaWrite 100 [1; 2; 3]; WaPoll 1000; WaPoll 1000; WaPoll 1000;
              WaPeer 1 [65]; WaPoll 1000; WaPoll 1000; WaPoll 1000] in
  a_rd s = Some (1, 70000) /\ a_rwait s = false /\ outstanding s = [] /\ a_wr s = None /\ a_inq s = [(1, [65])] /\
  map (fun e => fst (fst e)) (a_log s) = [100].
Proof. vm_compute. repeat split; reflexivity. Qed.
