(* C10: proofs about the regenerated BipBuffer code composed with its byte array. *)
From Coq Require Import ZifyBool.
From Sonic Require Import Base.Prelude Base.ListLemmas Gen.BipBuffer Model.BipMem.
Local Open Scope Z_scope.

(* ---------------------------------------------------------------- cursor invariant *)

Definition cinv (c : BipBuffer) : Prop :=
  let size := BipBuffer_data_len c in
  let h := BipBuffer_head c in let t := BipBuffer_tail c in
  let wh := BipBuffer_wrappedHead c in let wt := BipBuffer_wrappedTail c in
  let ch := BipBuffer_claimHead c in let ct := BipBuffer_claimTail c in
  wh = 0 /\ 0 <= wt <= h /\ h <= t <= size /\
  (wt > 0 -> h < t) /\ (h = t -> h = 0) /\
  0 <= ch <= ct /\ ct <= size /\
  (ch < ct -> (ch = t /\ wt = 0) \/ (ch = wt /\ ct <= h) \/ (h = t /\ wt = 0)).

Definition live_ok (c : BipBuffer) (l : option slice) : Prop :=
  match l with
  | None => True
  | Some r => soff r = BipBuffer_claimHead c /\ soff r + slen r = BipBuffer_claimTail c
  end.

Definition binv (s : bst) : Prop :=
  cinv (cur s) /\ zlen (mem s) = BipBuffer_data_len (cur s) /\ live_ok (cur s) (live s) /\
  0 <= gcons s /\ BipBuffer_Committed (cur s) = zlen (glog s) - gcons s /\
  babs s = zdrop (gcons s) (glog s).

Ltac brk :=
  repeat match goal with
    | |- context [if ?b then _ else _] => destruct b eqn:?
    | H : context [if ?b then _ else _] |- _ => destruct b eqn:?
    end.

Ltac unset := unfold set_BipBuffer_head, set_BipBuffer_tail, set_BipBuffer_wrappedHead, set_BipBuffer_wrappedTail,
  set_BipBuffer_claimHead, set_BipBuffer_claimTail, set_BipBuffer_data_len in *.

Ltac unf := unset; unfold BipBuffer_Claim, BipBuffer_Commit, BipBuffer_Consume, BipBuffer_Head, BipBuffer_Reset,
  BipBuffer_Wrapped, BipBuffer_Committed, BipBuffer_Claimed, BipBuffer_Size, BipBuffer_Empty, slice_of, obind in *.

Ltac inv_ok := repeat match goal with
  | H : Ok _ = Ok _ |- _ => inversion H; subst; clear H
  | H : Panic = Ok _ |- _ => discriminate H
  | H : Ok _ = Panic |- _ => discriminate H
  | H : (_, _) = (_, _) |- _ => inversion H; subst; clear H
  end.

Lemma claim_cinv c n c' r :
  cinv c -> 0 <= n -> BipBuffer_Claim c n = Ok (c', r) ->
  cinv c' /\ BipBuffer_data_len c' = BipBuffer_data_len c /\
  BipBuffer_head c' = BipBuffer_head c /\ BipBuffer_tail c' = BipBuffer_tail c /\
  BipBuffer_wrappedHead c' = BipBuffer_wrappedHead c /\ BipBuffer_wrappedTail c' = BipBuffer_wrappedTail c /\
  live_ok c' r /\ (match r with Some x => 0 <= slen x <= n | None => True end).
Proof.
  destruct c as [size h t wh wt ch ct]. unfold cinv; cbn. intros Hi Hn.
  unf; cbn. brk; intros H; inv_ok; cbn; repeat split; try lia.
Qed.

Lemma claim_no_panic c n : cinv c -> 0 <= n -> BipBuffer_Claim c n <> Panic.
Proof.
  destruct c as [size h t wh wt ch ct]. unfold cinv; cbn. intros Hi Hn.
  unf; cbn. brk; try discriminate; exfalso; lia.
Qed.

Lemma commit_cinv c n c' r :
  cinv c -> 0 <= n -> BipBuffer_Commit c n = Ok (c', r) ->
  cinv c' /\ BipBuffer_data_len c' = BipBuffer_data_len c.
Proof.
  destruct c as [size h t wh wt ch ct]. unfold cinv; cbn. intros Hi Hn.
  unf; cbn. brk; intros H; inv_ok; cbn; repeat split; try lia.
Qed.

Lemma commit_no_panic c n : cinv c -> 0 <= n -> BipBuffer_Commit c n <> Panic.
Proof.
  destruct c as [size h t wh wt ch ct]. unfold cinv; cbn. intros Hi Hn.
  unf; cbn. brk; try discriminate; exfalso; lia.
Qed.

Lemma consume_cinv c n c' r :
  cinv c -> 0 <= n -> BipBuffer_Consume c n = Ok (c', r) ->
  cinv c' /\ BipBuffer_data_len c' = BipBuffer_data_len c /\
  BipBuffer_claimHead c' = BipBuffer_claimHead c /\ BipBuffer_claimTail c' = BipBuffer_claimTail c.
Proof.
  destruct c as [size h t wh wt ch ct]. unfold cinv; cbn. intros Hi Hn.
  unf; cbn. brk; intros H; inv_ok; cbn; repeat split; try lia.
Qed.

Lemma consume_no_panic c n : BipBuffer_Consume c n <> Panic.
Proof. unf. brk; discriminate. Qed.

Lemma head_no_panic c : cinv c -> BipBuffer_Head c <> Panic.
Proof.
  destruct c as [size h t wh wt ch ct]. unfold cinv; cbn. intros Hi.
  unf; cbn. brk; try discriminate; exfalso; lia.
Qed.

Lemma reset_spec c : BipBuffer_Reset c = Ok (mkBipBuffer (BipBuffer_data_len c) 0 0 0 0 0 0, tt).
Proof. destruct c; reflexivity. Qed.

(* ---------------------------------------------------------------- effect of each operation on the queue *)

Lemma commit_cases c n c' r :
  cinv c -> 0 <= n -> BipBuffer_Commit c n = Ok (c', r) ->
  let size := BipBuffer_data_len c in
  let h := BipBuffer_head c in let t := BipBuffer_tail c in
  let wh := BipBuffer_wrappedHead c in let wt := BipBuffer_wrappedTail c in
  let ch := BipBuffer_claimHead c in let ct := BipBuffer_claimTail c in
  let k := Z.min n (ct - ch) in
  (k = 0 /\ r = None /\ c' = mkBipBuffer size h t wh wt 0 0) \/
  (0 < k /\ r = Some (mkslice ch k) /\
   ((h = t /\ wt = 0 /\ c' = mkBipBuffer size ch (ch + k) wh wt 0 0) \/
    (h < t /\ ch = t /\ wt = 0 /\ c' = mkBipBuffer size h (t + k) wh wt 0 0) \/
    (h < t /\ ch = wt /\ ct <= h /\ c' = mkBipBuffer size h t wh (wt + k) 0 0))).
Proof.
  destruct c as [size h t wh wt ch ct]. unfold cinv; cbn. intros Hi Hn.
  unf; cbn. brk; intros H; inv_ok; unset; cbn -[Z.min Z.add Z.sub].
  all: try (left; repeat split; try lia; f_equal; lia).
  all: right; (split; [lia|]); (split; [f_equal; f_equal; lia|]).
  all: try (left; repeat split; try lia; f_equal; lia).
  all: try (right; left; repeat split; try lia; f_equal; lia).
  all: try (right; right; repeat split; try lia; f_equal; lia).
Qed.

Lemma claim_cases c n c' r :
  cinv c -> 0 <= n -> BipBuffer_Claim c n = Ok (c', r) ->
  let size := BipBuffer_data_len c in
  let h := BipBuffer_head c in let t := BipBuffer_tail c in
  let wh := BipBuffer_wrappedHead c in let wt := BipBuffer_wrappedTail c in
  (r = None /\ c' = c /\ ((wt > 0 /\ h = wt) \/ (wt = 0 /\ h <= size - t /\ size = t) \/ (wt = 0 /\ h > size - t /\ h = 0))) \/
  (exists p k, r = Some (mkslice p k) /\ c' = mkBipBuffer size h t wh wt p (p + k) /\
     ((wt > 0 /\ p = wt /\ k = Z.min n (h - wt)) \/
      (wt = 0 /\ h <= size - t /\ p = t /\ k = Z.min n (size - t)) \/
      (wt = 0 /\ h > size - t /\ p = 0 /\ k = Z.min n h))).
Proof.
  destruct c as [size h t wh wt ch ct]. unfold cinv; cbn. intros Hi Hn.
  unf; cbn. brk; intros H; inv_ok; unset; cbn -[Z.min Z.add Z.sub].
  all: try (left; repeat split; try lia; fail).
  all: try (left; split; [reflexivity|]; split; [reflexivity|]; lia).
  all: right.
  all: match goal with |- context [Some {| soff := ?p; slen := ?k |}] => exists p, k end.
  all: (split; [reflexivity|]); (split; [f_equal; lia|]); lia.
Qed.

Lemma consume_cases c n c' r :
  BipBuffer_Consume c n = Ok (c', r) ->
  let size := BipBuffer_data_len c in
  let h := BipBuffer_head c in let t := BipBuffer_tail c in
  let wh := BipBuffer_wrappedHead c in let wt := BipBuffer_wrappedTail c in
  (n >= t - h /\ c' = mkBipBuffer size wh wt 0 0 (BipBuffer_claimHead c) (BipBuffer_claimTail c)) \/
  (n < t - h /\ c' = mkBipBuffer size (h + n) t wh wt (BipBuffer_claimHead c) (BipBuffer_claimTail c)).
Proof.
  destruct c as [size h t wh wt ch ct]. cbn.
  unf; cbn. brk; intros H; inv_ok; unset; cbn -[Z.min Z.add Z.sub]; [left|right]; split; try lia; reflexivity.
Qed.

Lemma head_cases c c' r :
  cinv c -> BipBuffer_Head c = Ok (c', r) ->
  c' = c /\ ((BipBuffer_head c < BipBuffer_tail c /\
              r = Some (mkslice (BipBuffer_head c) (BipBuffer_tail c - BipBuffer_head c))) \/
             (BipBuffer_head c = BipBuffer_tail c /\ r = None)).
Proof.
  destruct c as [size h t wh wt ch ct]. unfold cinv; cbn. intros Hi.
  unf; cbn. brk; intros H; inv_ok; (split; [reflexivity|]); [left|right]; split; try lia; reflexivity.
Qed.

Lemma zwrite_nil {A} a (l : list A) : zwrite a [] l = l.
Proof.
  unfold zwrite. cbn [app]. replace (a + zlen (@nil A)) with a by (unfold zlen; cbn; lia).
  apply ztake_zdrop_split.
Qed.

Lemma cinv_size_nonneg c : cinv c -> 0 <= BipBuffer_data_len c.
Proof. unfold cinv. lia. Qed.

Lemma committed_nonneg c : cinv c -> 0 <= BipBuffer_Committed c.
Proof. unfold cinv, BipBuffer_Committed. lia. Qed.

(* writing through the live claim never changes the queue *)
Lemma write_live_abs s w s' k :
  binv s -> write_live s w = (s', k) -> babs s' = babs s /\ binv s'.
Proof.
  destruct s as [c m lv lg gc]. unfold write_live; cbn [live cur mem glog gcons].
  destruct lv as [r|]; [|intros Hb H; inv_ok; auto].
  intros Hb H; inv_ok.
  pose proof Hb as Hb0.
  destruct Hb as (Hi & Hm & Hl & Hg & Hc & Ha); cbn [cur mem live glog gcons] in *.
  unfold live_ok in Hl. destruct Hl as [Hl1 Hl2].
  set (w' := ztake (slen r) w).
  assert (Hlen : 0 <= zlen w' <= slen r).
  { split; [apply zlen_nonneg|]. unfold w', ztake, zlen. rewrite firstn_length.
    unfold cinv in Hi. lia. }
  assert (Habs : babs (mkbst c (zwrite (soff r) w' m) (Some r) lg gc) = babs (mkbst c m (Some r) lg gc)).
  { unfold babs; cbn [cur mem].
    destruct c as [size h t wh wt ch ct]; unfold cinv in Hi; cbn in *.
    destruct (Z.eq_dec (zlen w') 0) as [Hz|Hz].
    { assert (w' = []) as -> by (destruct w'; [reflexivity|unfold zlen in Hz; cbn in Hz; lia]).
      rewrite zwrite_nil. reflexivity. }
    assert (Hcc : ch < ct) by lia.
    destruct Hi as (Hwh & Hwt & Hht & Hw & He & Hch & Hct & Hcl).
    destruct (Hcl Hcc) as [[H1 H2]|[[H1 H2]|[H1 H2]]].
    - f_equal.
      + apply zsub_zwrite_before; lia.
      + rewrite !zsub_empty by lia. reflexivity.
    - f_equal.
      + apply zsub_zwrite_after; lia.
      + apply zsub_zwrite_before; lia.
    - rewrite !zsub_empty by lia. reflexivity. }
  split; [exact Habs|].
  unfold binv; cbn [cur mem live glog gcons].
  split; [exact Hi|]. split.
  { rewrite zlen_zwrite; [exact Hm| unfold cinv in Hi; lia | unfold cinv in Hi; lia]. }
  split; [split; assumption|]. split; [exact Hg|]. split; [exact Hc|].
  rewrite Habs. exact Ha.
Qed.

Ltac bsplit := split; [|split; [|split; [|split; [|split]]]].

Lemma bstep_inv s o s' r :
  binv s -> nonneg_op o -> bstep s o = Ok (s', r) -> binv s'.
Proof.
  intros Hb Hn Hs. pose proof Hb as Hb0.
  destruct Hb as (Hi & Hm & Hl & Hg & Hc & Ha).
  destruct o as [n|st|w|n|n| |]; cbn [bstep nonneg_op] in *.
  - (* Claim *)
    destruct (BipBuffer_Claim (cur s) n) as [[c rr]|] eqn:E; cbn [obind] in Hs; [|discriminate]. inv_ok.
    destruct (claim_cinv _ _ _ _ Hi Hn E) as (Hi' & Hsz & Hh & Ht & Hwh & Hwt & Hlv & _).
    unfold binv, babs, BipBuffer_Committed in *; cbn [cur mem live glog gcons].
    rewrite Hsz, Hh, Ht, Hwh, Hwt. bsplit; auto.
  - (* Fill *)
    destruct (live s) as [rr|] eqn:El; [|inv_ok; exact Hb0].
    destruct (write_live s (BipMem.pattern st (Z.to_nat (slen rr)))) as [s1 k] eqn:E. inv_ok.
    eapply write_live_abs; eauto.
  - (* Write *)
    destruct (write_live s w) as [s1 k] eqn:E. inv_ok.
    eapply write_live_abs; eauto.
  - (* Commit *)
    destruct (BipBuffer_Commit (cur s) n) as [[c rr]|] eqn:E; cbn [obind] in Hs; [|discriminate]. inv_ok.
    destruct (commit_cinv _ _ _ _ Hi Hn E) as (Hi' & Hsz).
    pose proof (committed_nonneg _ Hi) as Hcn.
    destruct s as [c0 m lv lg gc]; cbn [cur mem live glog gcons] in *.
    destruct c0 as [size h t wh wt ch ct].
    pose proof (commit_cases _ _ _ _ Hi Hn E) as Hcases. cbn in Hcases.
    unfold cinv in Hi; cbn in Hi, Hm, Hc, Hcn.
    destruct Hi as (Hwh & Hwt & Hht & Hw & He & Hch & Hct & Hcl).
    unfold binv; cbn [cur mem live glog gcons].
    unfold BipBuffer_Committed in *; cbn in Hc, Hcn.
    destruct Hcases as [(Hk & -> & ->)|(Hk & -> & Hcs)].
    + cbn [content_of]. rewrite app_nil_r.
      unfold babs in *; cbn in *. bsplit; auto; try lia.
    + assert (Hlenc : zlen (content_of m (Some {| soff := ch; slen := Z.min n (ct - ch) |})) = Z.min n (ct - ch)).
      { cbn [content_of soff slen]. rewrite zlen_zsub; lia. }
      split; [exact Hi'|]. split; [rewrite Hsz; exact Hm|]. split; [exact I|]. split; [exact Hg|].
      rewrite zlen_app, Hlenc.
      rewrite zdrop_app_l by lia. rewrite <- Ha.
      cbn [content_of soff slen]. unfold babs; cbn [cur mem].
      destruct Hcs as [(H1 & H2 & ->)|[(H1 & H2 & H3 & ->)|(H1 & H2 & H3 & ->)]]; cbn.
      * split; [lia|]. rewrite (zsub_empty h t) by lia. rewrite (zsub_empty wh wt) by lia. cbn [app].
        rewrite app_nil_r. reflexivity.
      * split; [lia|]. subst ch. rewrite (zsub_split h (t + Z.min n (ct - t)) t) by lia.
        rewrite (zsub_empty wh wt) by lia. rewrite !app_nil_r. reflexivity.
      * split; [lia|]. subst ch. rewrite (zsub_split wh (wt + Z.min n (ct - wt)) wt) by lia.
        rewrite app_assoc. reflexivity.
  - (* Consume *)
    destruct (BipBuffer_Consume (cur s) n) as [[c rr]|] eqn:E; cbn [obind] in Hs; [|discriminate]. inv_ok.
    destruct (consume_cinv _ _ _ _ Hi Hn E) as (Hi' & Hsz & Hch' & Hct').
    pose proof (consume_cases _ _ _ _ E) as Hcases.
    destruct s as [c0 m lv lg gc]; cbn [cur mem live glog gcons] in *.
    destruct c0 as [size h t wh wt ch ct]. cbn in Hcases.
    unfold cinv in Hi; cbn in Hi, Hm, Hc.
    destruct Hi as (Hwh & Hwt & Hht & Hw & He & Hch & Hct & Hcl).
    unfold binv; cbn [cur mem live glog gcons].
    unfold BipBuffer_Committed in *; cbn in Hc.
    split; [exact Hi'|]. split; [rewrite Hsz; exact Hm|].
    split; [destruct lv; cbn in *; [rewrite Hch', Hct'; exact Hl|exact I]|].
    destruct Hcases as [(H1 & ->)|(H1 & ->)]; cbn.
    + split; [lia|]. split; [lia|].
      unfold babs in *; cbn [cur mem BipBuffer_head BipBuffer_tail BipBuffer_wrappedHead BipBuffer_wrappedTail] in *.
      replace (gc + (t - h + wt - wh - (wt - wh + 0 - 0))) with (gc + (t - h)) by lia.
      rewrite <- zdrop_zdrop by lia. rewrite <- Ha.
      rewrite zdrop_app_r by (rewrite zlen_zsub; lia).
      rewrite zlen_zsub by lia. replace (t - h - (t - h)) with 0 by lia.
      rewrite zdrop_nonpos by lia. rewrite (zsub_empty 0 0) by lia. rewrite app_nil_r. reflexivity.
    + split; [lia|]. split; [lia|].
      unfold babs in *; cbn [cur mem BipBuffer_head BipBuffer_tail BipBuffer_wrappedHead BipBuffer_wrappedTail] in *.
      replace (gc + (t - h + wt - wh - (t - (h + n) + wt - wh))) with (gc + n) by lia.
      rewrite <- zdrop_zdrop by lia. rewrite <- Ha.
      rewrite zdrop_app_l by (rewrite zlen_zsub; lia).
      rewrite zdrop_zsub by lia. reflexivity.
  - (* Head *)
    destruct (BipBuffer_Head (cur s)) as [[c rr]|] eqn:E; cbn [obind] in Hs; [|discriminate]. inv_ok.
    destruct (head_cases _ _ _ Hi E) as [-> _].
    destruct s; exact Hb0.
  - (* Reset *)
    rewrite reset_spec in Hs. cbn [obind] in Hs. inv_ok.
    pose proof (cinv_size_nonneg _ Hi) as Hsz.
    unfold binv, cinv, babs, BipBuffer_Committed; cbn.
    bsplit; auto; try lia.
    all: try (rewrite !zsub_empty by lia; reflexivity).
Qed.

Lemma bstep_no_panic s o : binv s -> nonneg_op o -> bstep s o <> Panic.
Proof.
  intros Hb Hn. destruct Hb as (Hi & _).
  destruct o as [n|st|w|n|n| |]; cbn [bstep nonneg_op] in *.
  - pose proof (claim_no_panic _ _ Hi Hn). destruct (BipBuffer_Claim (cur s) n) as [[? ?]|]; cbn; congruence.
  - destruct (live s); [destruct (write_live _ _)|]; discriminate.
  - destruct (write_live _ _); discriminate.
  - pose proof (commit_no_panic _ _ Hi Hn). destruct (BipBuffer_Commit (cur s) n) as [[? ?]|]; cbn; congruence.
  - pose proof (consume_no_panic (cur s) n). destruct (BipBuffer_Consume (cur s) n) as [[? ?]|]; cbn; congruence.
  - pose proof (head_no_panic _ Hi). destruct (BipBuffer_Head (cur s)) as [[? ?]|]; cbn; congruence.
  - rewrite reset_spec. cbn. discriminate.
Qed.

Lemma binit_inv size : 0 <= size -> binv (binit size).
Proof.
  intros H. unfold binv, binit, cinv, babs, BipBuffer_Committed; cbn.
  bsplit; try lia; try exact I; try reflexivity.
  apply zlen_repeat; lia.
Qed.

Lemma brun_inv ops : forall s, binv s -> Forall nonneg_op ops ->
  exists s', brun s ops = Ok s' /\ binv s'.
Proof.
  induction ops as [|o ops IH]; intros s Hb Hf; cbn [brun].
  - eauto.
  - inversion Hf as [|? ? Ho Hrest]; subst.
    destruct (bstep s o) as [[s1 r]|] eqn:E.
    + cbn [obind]. apply IH; [eapply bstep_inv; eauto|assumption].
    + exfalso. eapply bstep_no_panic; eauto.
Qed.

(* ---------------------------------------------------------------- statements used by Properties/C10.v *)

Lemma reachable_inv size ops :
  0 <= size -> Forall nonneg_op ops -> exists s, brun (binit size) ops = Ok s /\ binv s.
Proof. intros Hs Hf. apply brun_inv; [apply binit_inv; exact Hs|exact Hf]. Qed.

Lemma fifo_history size ops s :
  0 <= size -> Forall nonneg_op ops -> brun (binit size) ops = Ok s ->
  babs s = zdrop (gcons s) (glog s) /\ BipBuffer_Committed (cur s) = zlen (glog s) - gcons s /\
  0 <= gcons s <= zlen (glog s).
Proof.
  intros Hs Hf Hr. destruct (reachable_inv size ops Hs Hf) as (s0 & Hr0 & Hb).
  rewrite Hr in Hr0. inversion Hr0; subst s0.
  destruct Hb as (Hi & _ & _ & Hg & Hc & Ha).
  pose proof (committed_nonneg _ Hi). repeat split; auto; lia.
Qed.

Lemma never_panics size ops :
  0 <= size -> Forall nonneg_op ops -> brun (binit size) ops <> Panic.
Proof.
  intros Hs Hf. destruct (reachable_inv size ops Hs Hf) as (s0 & Hr0 & _). congruence.
Qed.

Lemma commit_chunk s n s' r bytes :
  binv s -> 0 <= n -> bstep s (BCommit n) = Ok (s', RSlice r bytes) ->
  let ch := BipBuffer_claimHead (cur s) in
  let k := Z.min n (BipBuffer_claimTail (cur s) - ch) in
  bytes = ztake k (zsub ch (BipBuffer_claimTail (cur s)) (mem s)) /\
  babs s' = babs s ++ bytes /\ mem s' = mem s /\
  BipBuffer_Committed (cur s') = BipBuffer_Committed (cur s) + zlen bytes /\
  match r with
  | None => bytes = []
  | Some x =>
      0 < slen x /\ bytes = zsub (soff x) (soff x + slen x) (mem s') /\ soff x = ch /\
      ((BipBuffer_head (cur s') <= soff x /\ soff x + slen x <= BipBuffer_tail (cur s')) \/
       (BipBuffer_wrappedHead (cur s') <= soff x /\ soff x + slen x <= BipBuffer_wrappedTail (cur s')))
  end.
Proof.
  intros Hb Hn Hs. pose proof (bstep_inv s (BCommit n) _ _ Hb Hn Hs) as Hb'.
  destruct Hb as (Hi & Hm & Hl & Hg & Hc & Ha).
  cbn [bstep] in Hs.
  destruct (BipBuffer_Commit (cur s) n) as [[c rr]|] eqn:E; cbn [obind] in Hs; [|discriminate]. inv_ok.
  destruct s as [c0 m lv lg gc]; cbn [cur mem live glog gcons] in *.
  destruct c0 as [size h t wh wt ch ct].
  pose proof (commit_cases _ _ _ _ Hi Hn E) as Hcases. cbn in Hcases.
  unfold cinv in Hi; cbn in Hi, Hm.
  destruct Hi as (Hwh & Hwt & Hht & Hw & He & Hch & Hct & Hcl).
  cbn [BipBuffer_claimHead BipBuffer_claimTail].
  destruct Hcases as [(Hk & -> & ->)|(Hk & -> & Hcs)].
  - cbn [content_of]. rewrite Hk. rewrite ztake_nonpos by lia.
    unfold babs, BipBuffer_Committed; cbn. rewrite app_nil_r. repeat split; auto. lia.
  - cbn [content_of soff slen].
    assert (Hz : zlen (zsub ch (ch + Z.min n (ct - ch)) m) = Z.min n (ct - ch)) by (rewrite zlen_zsub; lia).
    rewrite Hz.
    split; [rewrite ztake_zsub by lia; reflexivity|].
    unfold babs, BipBuffer_Committed; cbn [cur mem].
    destruct Hcs as [(H1 & H2 & ->)|[(H1 & H2 & H3 & ->)|(H1 & H2 & H3 & ->)]]; cbn.
    + rewrite (zsub_empty h t) by lia. rewrite (zsub_empty wh wt) by lia. cbn [app]. rewrite app_nil_r.
      repeat split; auto; try lia; try (left; lia).
    + subst ch. rewrite (zsub_split h (t + Z.min n (ct - t)) t) by lia.
      rewrite (zsub_empty wh wt) by lia. rewrite !app_nil_r.
      repeat split; auto; try lia; try (left; lia).
    + subst ch. rewrite (zsub_split wh (wt + Z.min n (ct - wt)) wt) by lia.
      rewrite app_assoc.
      repeat split; auto; try lia; try (right; lia).
Qed.

Lemma head_prefix s s' r bytes :
  binv s -> bstep s BHead = Ok (s', RSlice r bytes) ->
  s' = s /\ bytes = ztake (zlen bytes) (babs s) /\ (bytes = [] <-> babs s = []) /\
  match r with None => bytes = [] | Some x => bytes = zsub (soff x) (soff x + slen x) (mem s) /\ 0 < slen x end.
Proof.
  intros Hb Hs. destruct Hb as (Hi & Hm & Hl & Hg & Hc & Ha).
  cbn [bstep] in Hs.
  destruct (BipBuffer_Head (cur s)) as [[c rr]|] eqn:E; cbn [obind] in Hs; [|discriminate]. inv_ok.
  destruct (head_cases _ _ _ Hi E) as [-> Hcs].
  destruct s as [c0 m lv lg gc]; cbn [cur mem live glog gcons] in *.
  split; [reflexivity|].
  destruct c0 as [size h t wh wt ch ct]. unfold cinv in Hi; cbn in Hi, Hm, Hcs.
  destruct Hi as (Hwh & Hwt & Hht & Hw & He & Hch & Hct & Hcl).
  unfold babs; cbn [cur mem BipBuffer_head BipBuffer_tail BipBuffer_wrappedHead BipBuffer_wrappedTail].
  destruct Hcs as [(H1 & ->)|(H1 & ->)]; cbn [content_of soff slen].
  - replace (h + (t - h)) with t by lia.
    assert (Hz : zlen (zsub h t m) = t - h) by (rewrite zlen_zsub; lia).
    rewrite Hz. split; [rewrite ztake_app_l by lia; rewrite ztake_all by lia; reflexivity|].
    split; [|split; [reflexivity|lia]].
    split; intros Hnil.
    + rewrite Hnil in Hz. unfold zlen in Hz; cbn in Hz. lia.
    + apply app_eq_nil in Hnil. tauto.
  - rewrite (zsub_empty h t) by lia. rewrite (zsub_empty wh wt) by lia. cbn.
    repeat split; auto.
Qed.

Lemma consume_front s n s' r :
  binv s -> 0 <= n -> bstep s (BConsume n) = Ok (s', r) ->
  let hl := BipBuffer_tail (cur s) - BipBuffer_head (cur s) in   (* length of the Head() chunk *)
  let k := Z.min n hl in
  babs s' = zdrop k (babs s) /\ mem s' = mem s /\
  BipBuffer_Committed (cur s') = BipBuffer_Committed (cur s) - k /\ 0 <= k <= n.
Proof.
  intros Hb Hn Hs. destruct Hb as (Hi & Hm & Hl & Hg & Hc & Ha).
  cbn [bstep] in Hs.
  destruct (BipBuffer_Consume (cur s) n) as [[c rr]|] eqn:E; cbn [obind] in Hs; [|discriminate]. inv_ok.
  pose proof (consume_cases _ _ _ _ E) as Hcases.
  destruct s as [c0 m lv lg gc]; cbn [cur mem live glog gcons] in *.
  destruct c0 as [size h t wh wt ch ct]. cbn in Hcases.
  unfold cinv in Hi; cbn in Hi, Hm.
  destruct Hi as (Hwh & Hwt & Hht & Hw & He & Hch & Hct & Hcl).
  unfold babs, BipBuffer_Committed;
    cbn [cur mem BipBuffer_head BipBuffer_tail BipBuffer_wrappedHead BipBuffer_wrappedTail].
  destruct Hcases as [(H1 & ->)|(H1 & ->)]; cbn [BipBuffer_head BipBuffer_tail BipBuffer_wrappedHead BipBuffer_wrappedTail].
  - replace (Z.min n (t - h)) with (t - h) by lia.
    rewrite zdrop_app_r by (rewrite zlen_zsub; lia).
    rewrite zlen_zsub by lia. replace (t - h - (t - h)) with 0 by lia.
    rewrite zdrop_nonpos by lia. rewrite (zsub_empty 0 0) by lia. rewrite app_nil_r.
    repeat split; auto; lia.
  - replace (Z.min n (t - h)) with n by lia.
    rewrite zdrop_app_l by (rewrite zlen_zsub; lia).
    rewrite zdrop_zsub by lia.
    repeat split; auto; lia.
Qed.

Lemma claim_then_write s n s1 r c w s2 r2 :
  binv s -> 0 <= n -> bstep s (BClaim n) = Ok (s1, RSlice r c) -> bstep s1 (BWrite w) = Ok (s2, r2) ->
  babs s2 = babs s /\ babs s1 = babs s /\
  match r with
  | None => mem s2 = mem s
  | Some x => 0 <= soff x /\ soff x + slen x <= BipBuffer_Size (cur s) /\ 0 <= slen x <= n
  end.
Proof.
  intros Hb Hn H1 H2.
  pose proof (bstep_inv s (BClaim n) _ _ Hb Hn H1) as Hb1.
  cbn [bstep] in H1, H2.
  destruct (BipBuffer_Claim (cur s) n) as [[c1 rr]|] eqn:E; cbn [obind] in H1; [|discriminate]. inv_ok.
  destruct (write_live _ w) as [s3 k] eqn:Ew. inv_ok.
  destruct (write_live_abs _ _ _ _ Hb1 Ew) as [Ha2 _].
  destruct Hb as (Hi & Hm & Hl & Hg & Hc & Ha).
  destruct (claim_cinv _ _ _ _ Hi Hn E) as (Hi' & Hsz & Hh & Ht & Hwh & Hwt & Hlv & Hrn).
  assert (Hsame : babs {| cur := c1; mem := mem s; live := r; glog := glog s; gcons := gcons s |} = babs s).
  { unfold babs; cbn [cur mem]. rewrite Hh, Ht, Hwh, Hwt. reflexivity. }
  split; [rewrite Ha2; exact Hsame|]. split; [exact Hsame|].
  destruct r as [x|].
  - cbn in Hlv. unfold cinv in Hi'. unfold BipBuffer_Size. lia.
  - unfold write_live in Ew; cbn [live] in Ew. inv_ok. reflexivity.
Qed.

Lemma claim_empty_full c n c' r :
  cinv c -> 0 <= n -> BipBuffer_Committed c = 0 -> BipBuffer_Claim c n = Ok (c', r) ->
  match r with
  | Some x => soff x = 0 /\ slen x = Z.min n (BipBuffer_Size c)
  | None => Z.min n (BipBuffer_Size c) = 0
  end.
Proof.
  intros Hi Hn Hc E. pose proof (claim_cases _ _ _ _ Hi Hn E) as Hcases.
  destruct c as [size h t wh wt ch ct]. unfold cinv in Hi. unfold BipBuffer_Committed, BipBuffer_Size in *. cbn in *.
  destruct Hcases as [(-> & _ & Hcs)|(p & k & -> & _ & Hcs)]; cbn; lia.
Qed.
