(* Shared definitions used by the generated and hand-written models. *)
From Coq Require Export ZArith List Bool Lia.
Export ListNotations.
Open Scope Z_scope.

(* Result of a Go computation that may panic (slice bounds, index out of range). *)
Inductive outcome (A : Type) : Type :=
| Ok (a : A)
| Panic.
Arguments Ok {A} a.
Arguments Panic {A}.

Definition obind {A B : Type} (o : outcome A) (f : A -> outcome B) : outcome B :=
  match o with Ok a => f a | Panic => Panic end.

Definition omap {A B : Type} (f : A -> B) (o : outcome A) : outcome B :=
  match o with Ok a => Ok (f a) | Panic => Panic end.

(* A Go slice value relative to its backing array: offset of element 0 and length.  Only slices whose capacity
   equals their length are modelled (every slice expression in the translated subset has that form or is
   re-sliced below its length). *)
Record slice : Type := mkslice { soff : Z; slen : Z }.

(* arr[a:b] on a backing array of length cap *)
Definition slice_of (cap a b : Z) : outcome slice :=
  if (0 <=? a) && (a <=? b) && (b <=? cap) then Ok (mkslice a (b - a)) else Panic.

(* s[a:b] on a slice value *)
Definition reslice (s : slice) (a b : Z) : outcome slice :=
  if (0 <=? a) && (a <=? b) && (b <=? slen s) then Ok (mkslice (soff s + a) (b - a)) else Panic.

(* list helpers over Z indices *)
Definition zlen {A} (l : list A) : Z := Z.of_nat (length l).
Definition ztake {A} (n : Z) (l : list A) : list A := firstn (Z.to_nat n) l.
Definition zdrop {A} (n : Z) (l : list A) : list A := skipn (Z.to_nat n) l.
Definition zsub {A} (a b : Z) (l : list A) : list A := ztake (b - a) (zdrop a l).
(* overwrite l[a .. a+len w) with w *)
Definition zwrite {A} (a : Z) (w : list A) (l : list A) : list A :=
  ztake a l ++ w ++ zdrop (a + zlen w) l.

Lemma zlen_nonneg {A} (l : list A) : 0 <= zlen l.
Proof. unfold zlen; lia. Qed.

Lemma zlen_app {A} (l1 l2 : list A) : zlen (l1 ++ l2) = zlen l1 + zlen l2.
Proof. unfold zlen; rewrite app_length; lia. Qed.

Lemma zlen_ztake {A} n (l : list A) : 0 <= n <= zlen l -> zlen (ztake n l) = n.
Proof. unfold zlen, ztake; intros H; rewrite firstn_length; lia. Qed.

Lemma zlen_zdrop {A} n (l : list A) : 0 <= n <= zlen l -> zlen (zdrop n l) = zlen l - n.
Proof. unfold zlen, zdrop; intros H; rewrite skipn_length; lia. Qed.

Lemma zlen_zsub {A} a b (l : list A) : 0 <= a <= b -> b <= zlen l -> zlen (zsub a b l) = b - a.
Proof.
  intros H1 H2; unfold zsub. rewrite zlen_ztake; [lia|]. rewrite zlen_zdrop; lia.
Qed.

Lemma zlen_zwrite {A} a (w l : list A) : 0 <= a -> a + zlen w <= zlen l -> zlen (zwrite a w l) = zlen l.
Proof.
  intros H1 H2; unfold zwrite. pose proof (zlen_nonneg w).
  rewrite !zlen_app, zlen_ztake, zlen_zdrop; lia.
Qed.
