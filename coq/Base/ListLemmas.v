(* Lemmas about Z-indexed sublists. *)
From Sonic Require Import Base.Prelude.
Local Open Scope Z_scope.

Lemma ztake_nonpos {A} n (l : list A) : n <= 0 -> ztake n l = [].
Proof. intros H; unfold ztake. replace (Z.to_nat n) with O by lia. reflexivity. Qed.

Lemma zdrop_nonpos {A} n (l : list A) : n <= 0 -> zdrop n l = l.
Proof. intros H; unfold zdrop. replace (Z.to_nat n) with O by lia. reflexivity. Qed.

Lemma zsub_empty {A} a b (l : list A) : b <= a -> zsub a b l = [].
Proof. intros H; unfold zsub. apply ztake_nonpos; lia. Qed.

Lemma ztake_all {A} n (l : list A) : zlen l <= n -> ztake n l = l.
Proof. unfold zlen, ztake; intros H. apply firstn_all2; lia. Qed.

Lemma zdrop_all {A} n (l : list A) : zlen l <= n -> zdrop n l = [].
Proof. unfold zlen, zdrop; intros H. apply skipn_all2; lia. Qed.

Lemma zdrop_zdrop {A} a b (l : list A) : 0 <= a -> 0 <= b -> zdrop a (zdrop b l) = zdrop (b + a) l.
Proof.
  intros Ha Hb; unfold zdrop. replace (Z.to_nat (b + a)) with (Z.to_nat a + Z.to_nat b)%nat by lia.
  revert l. induction (Z.to_nat b) as [|k IH]; intros l.
  - rewrite Nat.add_0_r. reflexivity.
  - destruct l as [|x l].
    + rewrite !skipn_nil. reflexivity.
    + replace (Z.to_nat a + S k)%nat with (S (Z.to_nat a + k)) by lia. cbn [skipn]. apply IH.
Qed.

Lemma ztake_app_l {A} n (l1 l2 : list A) : n <= zlen l1 -> ztake n (l1 ++ l2) = ztake n l1.
Proof.
  unfold ztake, zlen; intros H. rewrite firstn_app.
  replace (Z.to_nat n - length l1)%nat with O by lia. cbn. apply app_nil_r.
Qed.

Lemma zdrop_app_l {A} n (l1 l2 : list A) : n <= zlen l1 -> zdrop n (l1 ++ l2) = zdrop n l1 ++ l2.
Proof.
  unfold zdrop, zlen; intros H. rewrite skipn_app.
  replace (Z.to_nat n - length l1)%nat with O by lia. reflexivity.
Qed.

Lemma zdrop_app_r {A} n (l1 l2 : list A) : zlen l1 <= n -> zdrop n (l1 ++ l2) = zdrop (n - zlen l1) l2.
Proof.
  unfold zdrop, zlen; intros H. rewrite skipn_app.
  rewrite skipn_all2 by lia. cbn [app]. f_equal. lia.
Qed.

Lemma ztake_app_r {A} n (l1 l2 : list A) : zlen l1 <= n -> ztake n (l1 ++ l2) = l1 ++ ztake (n - zlen l1) l2.
Proof.
  unfold ztake, zlen; intros H. rewrite firstn_app.
  rewrite firstn_all2 by lia. f_equal. f_equal. lia.
Qed.

Lemma ztake_zdrop_split {A} n (l : list A) : ztake n l ++ zdrop n l = l.
Proof. unfold ztake, zdrop. apply firstn_skipn. Qed.

Lemma ztake_ztake {A} a b (l : list A) : a <= b -> ztake a (ztake b l) = ztake a l.
Proof.
  intros H. unfold ztake. rewrite firstn_firstn. f_equal. lia.
Qed.

Lemma zdrop_ztake {A} a b (l : list A) : 0 <= a -> zdrop a (ztake b l) = ztake (b - a) (zdrop a l).
Proof.
  intros Ha. unfold zdrop, ztake.
  destruct (Z_le_gt_dec a b) as [Hab|Hab].
  - replace (Z.to_nat (b - a)) with (Z.to_nat b - Z.to_nat a)%nat by lia.
    rewrite skipn_firstn_comm. reflexivity.
  - replace (Z.to_nat (b - a)) with O by lia. cbn [firstn].
    apply skipn_all2. rewrite firstn_length. lia.
Qed.

(* l[a,c) = l[a,b) ++ l[b,c) *)
Lemma zsub_split {A} a c b (l : list A) : 0 <= a <= b -> b <= c -> zsub a c l = zsub a b l ++ zsub b c l.
Proof.
  intros H1 H2. unfold zsub.
  replace (zdrop b l) with (zdrop (b - a) (zdrop a l)) by (rewrite zdrop_zdrop by lia; f_equal; lia).
  set (m := zdrop a l).
  rewrite <- (ztake_zdrop_split (b - a) (ztake (c - a) m)).
  f_equal.
  - apply ztake_ztake. lia.
  - rewrite zdrop_ztake by lia. f_equal. lia.
Qed.

Lemma zsub_full {A} (l : list A) n : n = zlen l -> zsub 0 n l = l.
Proof.
  intros ->. unfold zsub. rewrite zdrop_nonpos by lia. apply ztake_all. lia.
Qed.

(* reading a range that the write does not touch *)
Lemma zsub_zwrite_before {A} a b off (w l : list A) :
  0 <= a -> b <= off -> off + zlen w <= zlen l -> zsub a b (zwrite off w l) = zsub a b l.
Proof.
  intros Ha Hb Hw. pose proof (zlen_nonneg w) as Hw0.
  destruct (Z_le_gt_dec b a) as [Hba|Hba]; [rewrite !zsub_empty by lia; reflexivity|].
  unfold zwrite, zsub.
  rewrite zdrop_app_l by (rewrite zlen_ztake; lia).
  rewrite ztake_app_l by (rewrite zlen_zdrop, zlen_ztake; try rewrite zlen_ztake; lia).
  rewrite zdrop_ztake by lia. rewrite ztake_ztake by lia. reflexivity.
Qed.

Lemma zsub_zwrite_after {A} a b off (w l : list A) :
  0 <= off -> off + zlen w <= a -> off + zlen w <= zlen l -> zsub a b (zwrite off w l) = zsub a b l.
Proof.
  intros Ho Ha Hw. pose proof (zlen_nonneg w) as Hw0.
  unfold zwrite, zsub. f_equal.
  rewrite zdrop_app_r by (rewrite zlen_ztake; lia).
  rewrite zlen_ztake by lia.
  rewrite zdrop_app_r by lia.
  rewrite zdrop_zdrop by lia. f_equal. lia.
Qed.

Lemma zsub_zwrite_same {A} off (w l : list A) :
  0 <= off -> off + zlen w <= zlen l -> zsub off (off + zlen w) (zwrite off w l) = w.
Proof.
  intros Ho Hw. pose proof (zlen_nonneg w) as Hw0.
  unfold zwrite, zsub.
  rewrite zdrop_app_r by (rewrite zlen_ztake; lia).
  rewrite zlen_ztake by lia. replace (off - off) with 0 by lia. rewrite zdrop_nonpos by lia.
  replace (off + zlen w - off) with (zlen w) by lia.
  rewrite ztake_app_l by lia. apply ztake_all. lia.
Qed.

Lemma zlen_repeat {A} (x : A) n : 0 <= n -> zlen (repeat x (Z.to_nat n)) = n.
Proof. intros H. unfold zlen. rewrite repeat_length. lia. Qed.

Lemma zsub_zsub_len {A} a b (l : list A) : 0 <= a <= b -> b <= zlen l -> zlen (zsub a b l) = b - a.
Proof. intros; apply zlen_zsub; lia. Qed.

Lemma ztake_zsub {A} k a b (l : list A) : 0 <= k <= b - a -> ztake k (zsub a b l) = zsub a (a + k) l.
Proof.
  intros H. unfold zsub. rewrite ztake_ztake by lia. f_equal. lia.
Qed.

Lemma zdrop_zsub {A} k a b (l : list A) : 0 <= k -> 0 <= a -> zdrop k (zsub a b l) = zsub (a + k) b l.
Proof.
  intros Hk Ha. unfold zsub. rewrite zdrop_ztake by lia. rewrite zdrop_zdrop by lia. f_equal. lia.
Qed.
