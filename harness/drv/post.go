package drv

import (
	"bytes"
	"fmt"
	"math/rand"
	"runtime"
	"sort"
	"strconv"
	"strings"
	"sync"
	"sync/atomic"
	"time"

	"github.com/talostrading/sonic"
)

// C05: Post from the loop goroutine, from other goroutines, from inside posted handlers, and concurrently with the
// loop's own activity.  The loop runs on one dedicated goroutine per case; a watchdog turns a deadlock into the
// observation "DEADLOCK".

func init() { Drivers["post"] = runPost }

func goid() uint64 {
	b := make([]byte, 64)
	b = b[:runtime.Stack(b, false)]
	b = bytes.TrimPrefix(b, []byte("goroutine "))
	if i := bytes.IndexByte(b, ' '); i > 0 {
		b = b[:i]
	}
	n, _ := strconv.ParseUint(string(b), 10, 64)
	return n
}

type postDrv struct {
	ioc    *sonic.IO
	nest   map[int][]int
	mu     sync.Mutex // protects ran: a handler that runs on a wrong goroutine must not corrupt the log
	ran    []string
	loopID uint64
	work   chan func()
	done   chan struct{}
	dead   bool
}

func (d *postDrv) handler(h int) func() {
	return func() {
		on := 0
		if goid() == d.loopID {
			on = 1
		}
		d.mu.Lock()
		d.ran = append(d.ran, fmt.Sprintf("%d:%d", h, on))
		d.mu.Unlock()
		for _, n := range d.nest[h] {
			_ = d.ioc.Post(d.handler(n))
		}
	}
}

// onLoop runs f on the loop goroutine; false if it did not come back within the watchdog period
func (d *postDrv) onLoop(f func()) bool {
	d.work <- f
	select {
	case <-d.done:
		return true
	case <-time.After(3 * time.Second):
		return false
	}
}

func parseIDs(s string) []int {
	if s == "-" || s == "" {
		return nil
	}
	var out []int
	for _, f := range strings.Split(s, ",") {
		out = append(out, atoi(f))
	}
	return out
}

func runPost(c *Case) []string {
	d := &postDrv{nest: map[int][]int{}, work: make(chan func()), done: make(chan struct{}, 1)}
	d.ioc = sonic.MustIO()
	ready := make(chan struct{})
	go func() {
		d.loopID = goid()
		close(ready)
		for f := range d.work {
			f()
			d.done <- struct{}{}
		}
	}()
	<-ready
	defer func() {
		if !d.dead {
			close(d.work)
			_ = d.ioc.Close()
		}
	}()
	tail := func() string {
		d.mu.Lock()
		r := strings.Join(d.ran, ",")
		d.ran = nil
		d.mu.Unlock()
		if r == "" {
			r = "-"
		}
		return fmt.Sprintf("ran=%s pending=%d posted=%d", r, d.ioc.Pending(), d.ioc.Posted())
	}
	return runOps(c, func(op string, a []string) string {
		if d.dead {
			return "DEADLOCK"
		}
		switch op {
		case "def":
			d.nest[atoi(a[0])] = parseIDs(a[1])
			return tail()
		case "post":
			if !d.onLoop(func() {
				for _, h := range parseIDs(a[0]) {
					_ = d.ioc.Post(d.handler(h))
				}
			}) {
				d.dead = true
				return "DEADLOCK"
			}
			return tail()
		case "gpost":
			fin := make(chan struct{})
			go func() {
				for _, h := range parseIDs(a[1]) {
					_ = d.ioc.Post(d.handler(h))
				}
				close(fin)
			}()
			select {
			case <-fin:
			case <-time.After(3 * time.Second):
				d.dead = true
				return "DEADLOCK"
			}
			return tail()
		case "expectidle":
			return tail()
		case "pollone":
			if !d.onLoop(func() { _, _ = d.ioc.PollOne() }) {
				d.dead = true
				return "DEADLOCK"
			}
			return tail()
		case "race":
			// race <rounds> <maxspins> <seed>: the loop blocks in epoll_wait; every round a handler posts a second handler
			// and releases a goroutine that posts a third one a random few hundred nanoseconds later - around the moment the
			// loop is dispatching.  A lost wake-up leaves the loop asleep with a handler queued.
			rounds, maxSpins, seed := atoi(a[0]), atoi(a[1]), atoi(a[2])
			var stop, quit atomic.Bool
			var ran, release, spins, sink atomic.Int64
			loopFin := make(chan struct{})
			d.work <- func() {
				for !stop.Load() {
					_ = d.ioc.RunOne()
				}
				close(loopFin)
			}
			posterFin := make(chan struct{})
			go func() {
				defer close(posterFin)
				next := int64(1)
				for {
					for release.Load() != next {
						if quit.Load() {
							return
						}
					}
					for i, n := int64(0), spins.Load(); i < n; i++ {
						sink.Add(1)
					}
					_ = d.ioc.Post(func() { ran.Add(1) })
					next++
				}
			}()
			rng := rand.New(rand.NewSource(int64(seed)))
			lost := int64(0)
			for round := int64(1); round <= int64(rounds); round++ {
				ran.Store(0)
				spins.Store(rng.Int63n(int64(maxSpins)))
				r := round
				_ = d.ioc.Post(func() {
					_ = d.ioc.Post(func() { ran.Add(1) })
					release.Store(r)
				})
				deadline := time.Now().Add(2 * time.Second)
				for i := 0; ran.Load() != 2; i++ {
					if i%1024 == 1023 {
						if time.Now().After(deadline) {
							lost = round
							break
						}
						runtime.Gosched()
					}
				}
				if lost != 0 {
					break
				}
			}
			quit.Store(true)
			<-posterFin
			if lost != 0 {
				d.dead = true
				return fmt.Sprintf("LOST-WAKEUP round=%d ran=%d posted=%d pending=%d", lost, ran.Load(), d.ioc.Posted(), d.ioc.Pending())
			}
			_ = d.ioc.Post(func() { stop.Store(true) })
			select {
			case <-loopFin:
				<-d.done
			case <-time.After(3 * time.Second):
				d.dead = true
				return "DEADLOCK"
			}
			return fmt.Sprintf("race rounds=%d lost=0 pending=%d posted=%d", rounds, d.ioc.Pending(), d.ioc.Posted())
		case "regrace":
			// regrace <goroutines> <handlers each>: goroutines post as fast as they can while the loop goroutine keeps starting
			// reads on a regular file at the dispatch limit - registrations the kernel refuses (EPERM), whose accounting is
			// rolled back on the counter the posts increment
			ng, m := atoi(a[0]), atoi(a[1])
			total := ng * m
			var ran int64
			var wg sync.WaitGroup
			for g := 0; g < ng; g++ {
				wg.Add(1)
				go func() {
					defer wg.Done()
					for i := 0; i < m; i++ {
						_ = d.ioc.Post(func() { atomic.AddInt64(&ran, 1) })
					}
				}()
			}
			finished := d.onLoop(func() {
				f, err := sonic.Open(d.ioc, "/proc/self/status", 0, 0)
				if err != nil {
					panic(err)
				}
				defer f.Close()
				buf := make([]byte, 8)
				deadline := time.Now().Add(2500 * time.Millisecond)
				for time.Now().Before(deadline) {
					if atomic.LoadInt64(&ran) >= int64(total) && d.ioc.Posted() == 0 {
						break
					}
					for k := 0; k < 30; k++ {
						d.ioc.Dispatched = sonic.MaxCallbackDispatch
						f.AsyncRead(buf, func(error, int) {})
						d.ioc.Dispatched = 0
					}
					_, _ = d.ioc.PollOne()
				}
			})
			if !finished {
				d.dead = true
				return "DEADLOCK"
			}
			wg.Wait()
			return fmt.Sprintf("regrace ran=%d pending=%d posted=%d", atomic.LoadInt64(&ran), d.ioc.Pending(), d.ioc.Posted())
		case "stress":
			// stress <goroutines> <handlers each> <nested per handler> <seed>: posters run concurrently with the loop,
			// which also arms and disarms a timer (its own registrations touch the same counter)
			ng, m, nn, seed := atoi(a[0]), atoi(a[1]), atoi(a[2]), atoi(a[3])
			var mu sync.Mutex
			count := map[int]int{}
			var order []int
			offLoop := 0
			rec := func(id int) {
				mu.Lock()
				count[id]++
				order = append(order, id)
				if goid() != d.loopID {
					offLoop++
				}
				mu.Unlock()
			}
			total := ng * m * (1 + nn)
			var wg sync.WaitGroup
			for g := 0; g < ng; g++ {
				wg.Add(1)
				go func(g int) {
					defer wg.Done()
					rng := rand.New(rand.NewSource(int64(seed*131 + g)))
					for i := 0; i < m; i++ {
						id := (g*m + i) * (1 + nn)
						_ = d.ioc.Post(func() {
							rec(id)
							for k := 1; k <= nn; k++ {
								kid := id + k
								_ = d.ioc.Post(func() { rec(kid) })
							}
						})
						if rng.Intn(4) == 0 {
							runtime.Gosched()
						}
					}
				}(g)
			}
			finished := d.onLoop(func() {
				t, err := sonic.NewTimer(d.ioc)
				if err != nil {
					panic(err)
				}
				deadline := time.Now().Add(2500 * time.Millisecond)
				for time.Now().Before(deadline) {
					mu.Lock()
					n := len(order)
					mu.Unlock()
					if n >= total && d.ioc.Posted() == 0 {
						break
					}
					_ = t.ScheduleOnce(200*time.Microsecond, func() {})
					_ = d.ioc.RunOneFor(2 * time.Millisecond)
					_ = t.Cancel()
				}
				_ = t.Close()
			})
			if !finished {
				d.dead = true
				return "DEADLOCK"
			}
			wg.Wait()
			mu.Lock()
			defer mu.Unlock()
			once := 1
			for id := 0; id < total; id++ {
				if count[id] != 1 {
					once = 0
				}
			}
			// per posting goroutine: its top-level handlers ran in posting order
			ordered := 1
			last := map[int]int{}
			for _, id := range order {
				if id%(1+nn) != 0 {
					continue
				}
				g := id / (1 + nn) / m
				if prev, ok := last[g]; ok && prev > id {
					ordered = 0
				}
				last[g] = id
			}
			// nested handlers run after their parent
			pos := map[int]int{}
			for i, id := range order {
				pos[id] = i
			}
			nested := 1
			for id := range pos {
				if id%(1+nn) != 0 && pos[id] < pos[id-id%(1+nn)] {
					nested = 0
				}
			}
			ids := make([]int, 0, len(count))
			for id := range count {
				ids = append(ids, id)
			}
			sort.Ints(ids)
			return fmt.Sprintf("stress ran=%d once=%d ordered=%d nested=%d offloop=%d pending=%d posted=%d",
				len(order), once, ordered, nested, offLoop, d.ioc.Pending(), d.ioc.Posted())
		}
		panic("unknown op " + op)
	})
}
