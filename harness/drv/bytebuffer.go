package drv

import (
	"errors"
	"fmt"
	"io"
	"strings"

	"github.com/talostrading/sonic"
	"github.com/talostrading/sonic/sonicerrors"
)

func init() { Drivers["bb"] = runBB }

var errScripted = errors.New("scripted error")

func errClass(err error) int {
	switch {
	case err == nil:
		return 0
	case errors.Is(err, io.EOF):
		return 1
	case errors.Is(err, sonicerrors.ErrNeedMore):
		return 2
	default:
		return 3
	}
}

type scriptReader struct {
	w   []byte
	n   int
	err bool
}

func (r *scriptReader) Read(p []byte) (int, error) {
	c := copy(p, r.w)
	n := r.n
	if n > c {
		n = c
	}
	if n < 0 {
		n = 0
	}
	if r.err {
		return n, errScripted
	}
	return n, nil
}

func (r *scriptReader) AsyncRead(p []byte, cb sonic.AsyncCallback) {
	n, err := r.Read(p)
	cb(err, n)
}
func (r *scriptReader) AsyncReadAll(p []byte, cb sonic.AsyncCallback) { r.AsyncRead(p, cb) }
func (r *scriptReader) CancelReads()                                   {}

type scriptWriter struct {
	res [][2]int // (n, failed)
	i   int
	got []byte
}

func (w *scriptWriter) Write(p []byte) (int, error) {
	if w.i >= len(w.res) {
		return 0, errScripted
	}
	r := w.res[w.i]
	w.i++
	if r[1] != 0 {
		return r[0], errScripted
	}
	n := r[0]
	if n <= len(p) && n >= 0 {
		w.got = append(w.got, p[:n]...)
	}
	return n, nil
}

type scriptAsyncWriter struct {
	n   int
	err bool
	got []byte
}

func (w *scriptAsyncWriter) AsyncWrite(p []byte, cb sonic.AsyncCallback) { w.AsyncWriteAll(p, cb) }
func (w *scriptAsyncWriter) AsyncWriteAll(p []byte, cb sonic.AsyncCallback) {
	if w.err {
		cb(errScripted, w.n)
		return
	}
	cb(nil, w.n)
}
func (w *scriptAsyncWriter) CancelWrites() {}

func patternBytes(start, n int) []byte {
	b := make([]byte, n)
	for i := range b {
		b[i] = byte(start + i)
	}
	return b
}

func runBB(c *Case) []string {
	b := sonic.NewByteBuffer()
	state := func() string {
		d := b.Data()
		rl, wl := b.ReadLen(), b.WriteLen()
		var pend []byte
		if rl+wl <= cap(d) {
			pend = d[:rl+wl][rl:]
		}
		return fmt.Sprintf(" saved=%s read=%s pend=%s room=%d len=%d sl=%d rl=%d wl=%d", hexs(b.Saved()), hexs(d), hexs(pend),
			b.Reserved(), b.Len(), b.SaveLen(), rl, wl)
	}
	return runOps(c, func(op string, a []string) string {
		ret := "-"
		switch op {
		case "reserve":
			b.Reserve(atoi(a[0]))
		case "commit":
			b.Commit(atoi(a[0]))
		case "consume":
			b.Consume(atoi(a[0]))
		case "save":
			s := b.Save(atoi(a[0]))
			ret = fmt.Sprintf("slot:%d:%d", s.Index, s.Length)
		case "savedslot":
			ret = "b:" + hexs(b.SavedSlot(sonic.Slot{Index: atoi(a[0]), Length: atoi(a[1])}))
		case "discard":
			ret = fmt.Sprintf("i:%d", b.Discard(sonic.Slot{Index: atoi(a[0]), Length: atoi(a[1])}))
		case "discardall":
			b.DiscardAll()
		case "reset":
			b.Reset()
		case "read":
			m := atoi(a[0])
			dst := make([]byte, m)
			n, err := b.Read(dst)
			if err == nil && n > 0 {
				ret = "b:" + hexs(dst[:n])
			} else {
				ret = fmt.Sprintf("ie:%d:%d", n, errClass(err))
			}
		case "readbyte":
			x, err := b.ReadByte()
			ret = fmt.Sprintf("be:%02x:%d", x, errClass(err))
		case "readfrom", "asyncreadfrom":
			r := &scriptReader{w: unhex(a[0]), n: atoi(a[1]), err: a[2] == "1"}
			if op == "readfrom" {
				n, err := b.ReadFrom(r)
				ret = fmt.Sprintf("ie:%d:%d", n, errClass(err))
			} else {
				calls := 0
				b.AsyncReadFrom(r, func(err error, n int) {
					calls++
					ret = fmt.Sprintf("ie:%d:%d", n, errClass(err))
				})
				if calls != 1 {
					ret = fmt.Sprintf("callbacks:%d", calls)
				}
			}
		case "unreadbyte":
			ret = fmt.Sprintf("i:%d", errClass(b.UnreadByte()))
		case "write":
			n, err := b.Write(unhex(a[0]))
			ret = fmt.Sprintf("ie:%d:%d", n, errClass(err))
		case "writestring":
			n, err := b.WriteString(string(unhex(a[0])))
			ret = fmt.Sprintf("ie:%d:%d", n, errClass(err))
		case "writebyte":
			err := b.WriteByte(unhex(a[0])[0])
			ret = fmt.Sprintf("ie:1:%d", errClass(err))
		case "writeto":
			w := &scriptWriter{}
			if a[0] != "-" {
				for _, r := range strings.Split(a[0], ",") {
					p := strings.Split(r, ":")
					w.res = append(w.res, [2]int{atoi(p[0]), atoi(p[1])})
				}
			}
			n, err := b.WriteTo(w)
			e := 0
			if err != nil {
				e = 3
			}
			ret = fmt.Sprintf("ie:%d:%d got=%s", n, e, hexs(w.got))
		case "asyncwriteto":
			w := &scriptAsyncWriter{n: atoi(a[0]), err: a[1] == "1"}
			calls := 0
			b.AsyncWriteTo(w, func(err error, n int) {
				calls++
				ret = fmt.Sprintf("ie:%d:%d", n, errClass(err))
			})
			if calls != 1 {
				ret = fmt.Sprintf("callbacks:%d", calls)
			}
		case "prepareread":
			ret = fmt.Sprintf("i:%d", errClass(b.PrepareRead(atoi(a[0]))))
		case "claim":
			start, n := atoi(a[0]), atoi(a[1])
			b.Claim(func(p []byte) int {
				for i := range p {
					p[i] = byte(start + i)
				}
				return n
			})
		case "claimfixed":
			n, start := atoi(a[0]), atoi(a[1])
			s := b.ClaimFixed(n)
			for i := range s {
				s[i] = byte(start + i)
			}
			ret = fmt.Sprintf("i:%d", len(s))
		case "shrinkby":
			ret = fmt.Sprintf("i:%d", b.ShrinkBy(atoi(a[0])))
		case "shrinkto":
			ret = fmt.Sprintf("i:%d", b.ShrinkTo(atoi(a[0])))
		case "observe":
		default:
			panic("unknown op " + op)
		}
		return "ret=" + ret + state()
	})
}
