package drv

import (
	"errors"
	"fmt"
	"io"
	"strings"

	"github.com/talostrading/sonic"
	"github.com/talostrading/sonic/codec/websocket"
	"github.com/talostrading/sonic/sonicerrors"
)

func init() { Drivers["ws"] = runWs }

func wsErrClass(err error) int {
	switch {
	case err == nil:
		return 0
	case errors.Is(err, io.EOF):
		return 1
	case errors.Is(err, errScripted):
		return 3
	case errors.Is(err, sonicerrors.ErrWouldBlock):
		return 4
	case errors.Is(err, websocket.ErrMessageTooBig):
		return 10
	case errors.Is(err, websocket.ErrPayloadOverMaxSize):
		return 11
	case errors.Is(err, websocket.ErrNonZeroReservedBits):
		return 12
	case errors.Is(err, websocket.ErrMaskedFramesFromServer):
		return 13
	case errors.Is(err, websocket.ErrInvalidControlFrame):
		return 14
	case errors.Is(err, websocket.ErrControlFrameTooBig):
		return 15
	case errors.Is(err, websocket.ErrReservedOpcode):
		return 16
	case errors.Is(err, websocket.ErrUnexpectedContinuation):
		return 17
	case errors.Is(err, websocket.ErrExpectedContinuation):
		return 18
	case errors.Is(err, sonicerrors.ErrCancelled):
		return 20
	default:
		return 9
	}
}

func runWs(c *Case) []string {
	ioc := sonic.MustIO()
	defer ioc.Close()
	s, err := websocket.NewWebsocketStream(ioc, nil, websocket.RoleClient)
	if err != nil {
		panic(err)
	}
	ms := newMemStream()
	ms.maxRead = c.Int("maxread", 0)
	ms.wAccept = c.Int("waccept", 0)
	if err := s.VerifAttach(ms); err != nil {
		panic(err)
	}
	s.SetMaxMessageSize(c.Int("max", 1024))
	var events []string
	s.SetControlCallback(func(mt websocket.MessageType, payload []byte) {
		events = append(events, fmt.Sprintf("ctl=%d:%s", int(mt), bytesRepr(payload)))
	})
	frameCalls, msgCalls, writeCalls := 0, 0, 0
	frameCb := func(err error, f websocket.Frame) {
		frameCalls++
		events = append(events, fmt.Sprintf("f=%s:%d", bytesRepr(f), wsErrClass(err)))
	}
	writeCb := func(err error) {
		writeCalls++
		events = append(events, fmt.Sprintf("w=%d", wsErrClass(err)))
	}
	tail := func() string {
		e := strings.Join(events, " ")
		events = nil
		if e != "" {
			e += " "
		}
		return fmt.Sprintf("%sstate=%d pend=%d wire=%s", e, int(s.State()), s.Pending(), hexs(ms.TakeWire()))
	}
	payloadArg := func(a []string, i int) []byte {
		// either hex or pat:<n>:<start>
		if strings.HasPrefix(a[i], "pat:") {
			p := strings.Split(a[i], ":")
			return patternBytes(atoi(p[2]), atoi(p[1]))
		}
		return unhex(a[i])
	}
	return runOps(c, func(op string, a []string) string {
		switch op {
		case "in":
			ms.PushData(unhex(a[0]))
			ms.Pump()
		case "ineof":
			ms.PushEOF()
			ms.Pump()
		case "inerr":
			ms.PushErr()
			ms.Pump()
		case "wfail":
			ms.wFailAfter = atoi(a[0])
		case "setmax":
			s.SetMaxMessageSize(atoi(a[0]))
		case "nextframe":
			f, err := s.NextFrame()
			events = append(events, fmt.Sprintf("f=%s:%d", bytesRepr(f), wsErrClass(err)))
		case "anextframe":
			before := frameCalls
			s.AsyncNextFrame(frameCb)
			if frameCalls == before {
				events = append(events, "pending")
			}
		case "nextmessage":
			b := make([]byte, atoi(a[0]))
			mt, n, err := s.NextMessage(b)
			if n > len(b) {
				n = len(b)
			}
			events = append(events, fmt.Sprintf("m=%d:%d:%s:%d", int(mt), n, bytesRepr(b[:n]), wsErrClass(err)))
		case "anextmessage":
			b := make([]byte, atoi(a[0]))
			before := msgCalls
			s.AsyncNextMessage(b, func(err error, n int, mt websocket.MessageType) {
				msgCalls++
				m := n
				if m > len(b) {
					m = len(b)
				}
				events = append(events, fmt.Sprintf("m=%d:%d:%s:%d", int(mt), n, bytesRepr(b[:m]), wsErrClass(err)))
			})
			if msgCalls == before {
				events = append(events, "pending")
			}
		case "write":
			err := s.Write(payloadArg(a, 1), websocket.MessageType(atoi(a[0])))
			events = append(events, fmt.Sprintf("w=%d", wsErrClass(err)))
		case "awrite":
			before := writeCalls
			s.AsyncWrite(payloadArg(a, 1), websocket.MessageType(atoi(a[0])), writeCb)
			if writeCalls == before {
				events = append(events, "pending")
			}
		case "writeframe", "awriteframe":
			f := s.AcquireFrame()
			if a[0] == "1" {
				f.SetFIN()
			}
			f.SetOpcode(websocket.Opcode(atoi(a[1])))
			if a[2] != "none" {
				f.SetPayload(payloadArg(a, 2))
			}
			if op == "writeframe" {
				err := s.WriteFrame(f)
				events = append(events, fmt.Sprintf("w=%d", wsErrClass(err)))
			} else {
				before := writeCalls
				s.AsyncWriteFrame(f, writeCb)
				if writeCalls == before {
					events = append(events, "pending")
				}
			}
		case "writeframe2", "awriteframe2":
			// a caller that replaces a draft payload before submitting: SetPayload twice on the same frame
			f := s.AcquireFrame()
			if a[0] == "1" {
				f.SetFIN()
			}
			f.SetOpcode(websocket.Opcode(atoi(a[1])))
			f.SetPayload(patternBytes(7, atoi(a[2])))
			f.SetPayload(payloadArg(a, 3))
			if op == "writeframe2" {
				err := s.WriteFrame(f)
				events = append(events, fmt.Sprintf("w=%d", wsErrClass(err)))
			} else {
				before := writeCalls
				s.AsyncWriteFrame(f, writeCb)
				if writeCalls == before {
					events = append(events, "pending")
				}
			}
		case "flush":
			events = append(events, fmt.Sprintf("w=%d", wsErrClass(s.Flush())))
		case "aflush":
			before := writeCalls
			s.AsyncFlush(writeCb)
			if writeCalls == before {
				events = append(events, "pending")
			}
		case "close":
			err := s.Close(websocket.CloseCode(atoi(a[0])), string(unhex(a[1])))
			events = append(events, fmt.Sprintf("w=%d", wsErrClass(err)))
		case "aclose":
			before := writeCalls
			s.AsyncClose(websocket.CloseCode(atoi(a[0])), string(unhex(a[1])), writeCb)
			if writeCalls == before {
				events = append(events, "pending")
			}
		default:
			panic("unknown op " + op)
		}
		return tail()
	})
}
