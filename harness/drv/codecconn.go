package drv

import (
	"errors"
	"fmt"
	"io"
	"net"
	"syscall"
	"time"

	"github.com/talostrading/sonic"
	"github.com/talostrading/sonic/codec/frame"
	"github.com/talostrading/sonic/sonicerrors"
)

func init() { Drivers["codecconn"] = runCodecConn }

func connErrClass(err error) int {
	switch {
	case err == nil:
		return 0
	case errors.Is(err, io.EOF):
		return 1
	case errors.Is(err, sonicerrors.ErrWouldBlock):
		return 4
	case errors.Is(err, frame.ErrPayloadLengthOverflow):
		return 5
	case errors.Is(err, errScripted):
		return 3
	default:
		return 9
	}
}

// runCodecConnReal: the same CodecConn over a real sonic.Conn (TCP, loopback) with a small send buffer: a large item is written
// in many kernel segments, with would-block in the middle of the item several times. Every operation runs to completion
// (poll + peer drain), so the observations are those of a transport that accepts everything.
func runCodecConnReal(c *Case) []string {
	ioc := sonic.MustIO()
	defer ioc.Close()
	ln, err := net.Listen("tcp", "127.0.0.1:0")
	if err != nil {
		panic(err)
	}
	defer ln.Close()
	sc, err := sonic.Dial(ioc, "tcp", ln.Addr().String())
	if err != nil {
		panic(err)
	}
	defer sc.Close()
	peer, err := ln.Accept()
	if err != nil {
		panic(err)
	}
	defer peer.Close()
	_ = syscall.SetsockoptInt(sc.RawFd(), syscall.SOL_SOCKET, syscall.SO_SNDBUF, 16384)
	src := sonic.NewByteBuffer()
	dst := sonic.NewByteBuffer()
	codec := frame.NewCodec(src)
	conn, _ := sonic.NewCodecConn[[]byte, []byte](sc, codec, src, dst)
	var events []string
	var wire []byte
	rcalls, wcalls := 0, 0
	drain := func(wait time.Duration) {
		buf := make([]byte, 1<<16)
		for {
			_ = peer.SetReadDeadline(time.Now().Add(wait))
			n, err := peer.Read(buf)
			wire = append(wire, buf[:n]...)
			if err != nil || n == 0 {
				return
			}
		}
	}
	tail := func() string {
		s := ""
		for _, e := range events {
			s += " " + e
		}
		events = nil
		w := wire
		wire = nil
		return fmt.Sprintf("%s wire=%s dst=%d:%d cap=%d", s, bytesRepr(w), dst.ReadLen(), dst.WriteLen(), src.Cap())
	}
	return runOps(c, func(op string, a []string) string {
		switch op {
		case "in":
			if _, err := peer.Write(unhex(a[0])); err != nil {
				panic(err)
			}
			time.Sleep(2 * time.Millisecond)
			_, _ = ioc.PollOne()
			return "u" + tail()
		case "areadnext":
			before := rcalls
			conn.AsyncReadNext(func(err error, item []byte) {
				rcalls++
				if err != nil {
					events = append(events, fmt.Sprintf("rcb=err:%d", connErrClass(err)))
				} else {
					events = append(events, "rcb=item:"+bytesRepr(item))
				}
			})
			if rcalls == before {
				return "pending" + tail()
			}
			return "done" + tail()
		case "awritepat":
			p := patternBytes(atoi(a[1]), atoi(a[0]))
			before := wcalls
			conn.AsyncWriteNext(p, func(err error, n int) {
				wcalls++
				events = append(events, fmt.Sprintf("wcb=%d:%d", n, connErrClass(err)))
			})
			for i := 0; wcalls == before && i < 20000; i++ {
				drain(time.Millisecond)
				_, _ = ioc.PollOne()
			}
			// what was accepted has to arrive
			for deadline := time.Now().Add(2 * time.Second); len(wire) < len(p)+4 && time.Now().Before(deadline); {
				drain(2 * time.Millisecond)
			}
			drain(3 * time.Millisecond)
			if wcalls == before {
				return "pending" + tail()
			}
			return "done" + tail()
		}
		panic("unknown op " + op)
	})
}

func runCodecConn(c *Case) []string {
	if c.Int("real", 0) == 1 {
		return runCodecConnReal(c)
	}
	src := sonic.NewByteBuffer()
	dst := sonic.NewByteBuffer()
	ms := newMemStream()
	ms.maxRead = c.Int("maxread", 0)
	ms.wAccept = c.Int("waccept", 0)
	codec := frame.NewCodec(src)
	conn, _ := sonic.NewCodecConn[[]byte, []byte](ms, codec, src, dst)
	var events []string // callbacks that fired during the current operation
	rcalls, wcalls := 0, 0
	readCb := func(err error, item []byte) {
		rcalls++
		if err != nil {
			events = append(events, fmt.Sprintf("rcb=err:%d", connErrClass(err)))
		} else {
			events = append(events, "rcb=item:"+bytesRepr(item))
		}
	}
	writeCb := func(err error, n int) {
		wcalls++
		events = append(events, fmt.Sprintf("wcb=%d:%d", n, connErrClass(err)))
	}
	tail := func() string {
		s := ""
		for _, e := range events {
			s += " " + e
		}
		events = nil
		return fmt.Sprintf("%s wire=%s dst=%d:%d cap=%d", s, bytesRepr(ms.TakeWire()), dst.ReadLen(), dst.WriteLen(), src.Cap())
	}
	return runOps(c, func(op string, a []string) string {
		switch op {
		case "in":
			ms.PushData(unhex(a[0]))
			ms.Pump()
			return "u" + tail()
		case "ineof":
			ms.PushEOF()
			ms.Pump()
			return "u" + tail()
		case "inerr":
			ms.PushErr()
			ms.Pump()
			return "u" + tail()
		case "readnext":
			item, err := conn.ReadNext()
			if err != nil {
				return fmt.Sprintf("err:%d", connErrClass(err)) + tail()
			}
			return "item:" + bytesRepr(item) + tail()
		case "areadnext":
			before := rcalls
			conn.AsyncReadNext(readCb)
			if rcalls == before {
				return "pending" + tail()
			}
			return "done" + tail()
		case "writenext", "writepat":
			var p []byte
			if op == "writepat" {
				p = patternBytes(atoi(a[1]), atoi(a[0]))
			} else {
				p = unhex(a[0])
			}
			n, err := conn.WriteNext(p)
			return fmt.Sprintf("w=%d:%d", n, connErrClass(err)) + tail()
		case "awritenext", "awritepat":
			var p []byte
			if op == "awritepat" {
				p = patternBytes(atoi(a[1]), atoi(a[0]))
			} else {
				p = unhex(a[0])
			}
			before := wcalls
			conn.AsyncWriteNext(p, writeCb)
			if wcalls == before {
				return "pending" + tail()
			}
			return "done" + tail()
		case "wfail":
			ms.wFailAfter = atoi(a[0])
			return "u" + tail()
		case "wblock":
			ms.wBlock = true
			return "u" + tail()
		case "wunblock":
			ms.Unblock()
			return "u" + tail()
		}
		panic("unknown op " + op)
	})
}
