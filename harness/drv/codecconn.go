package drv

import (
	"errors"
	"fmt"
	"io"

	"github.com/talostrading/sonic"
	"github.com/talostrading/sonic/codec/frame"
	"github.com/talostrading/sonic/sonicerrors"
)

func init() { Drivers["codecconn"] = runCodecConn }

func connErrClass(err error) int {
	switch {
	case err == nil:
		return 0
	case errors.Is(err, io.EOF):
		return 1
	case errors.Is(err, sonicerrors.ErrWouldBlock):
		return 4
	case errors.Is(err, frame.ErrPayloadLengthOverflow):
		return 5
	case errors.Is(err, errScripted):
		return 3
	default:
		return 9
	}
}

func runCodecConn(c *Case) []string {
	src := sonic.NewByteBuffer()
	dst := sonic.NewByteBuffer()
	ms := newMemStream()
	ms.maxRead = c.Int("maxread", 0)
	ms.wAccept = c.Int("waccept", 0)
	codec := frame.NewCodec(src)
	conn, _ := sonic.NewCodecConn[[]byte, []byte](ms, codec, src, dst)
	var events []string // callbacks that fired during the current operation
	rcalls, wcalls := 0, 0
	readCb := func(err error, item []byte) {
		rcalls++
		if err != nil {
			events = append(events, fmt.Sprintf("rcb=err:%d", connErrClass(err)))
		} else {
			events = append(events, "rcb=item:"+bytesRepr(item))
		}
	}
	writeCb := func(err error, n int) {
		wcalls++
		events = append(events, fmt.Sprintf("wcb=%d:%d", n, connErrClass(err)))
	}
	tail := func() string {
		s := ""
		for _, e := range events {
			s += " " + e
		}
		events = nil
		return fmt.Sprintf("%s wire=%s dst=%d:%d cap=%d", s, bytesRepr(ms.TakeWire()), dst.ReadLen(), dst.WriteLen(), src.Cap())
	}
	return runOps(c, func(op string, a []string) string {
		switch op {
		case "in":
			ms.PushData(unhex(a[0]))
			ms.Pump()
			return "u" + tail()
		case "ineof":
			ms.PushEOF()
			ms.Pump()
			return "u" + tail()
		case "inerr":
			ms.PushErr()
			ms.Pump()
			return "u" + tail()
		case "readnext":
			item, err := conn.ReadNext()
			if err != nil {
				return fmt.Sprintf("err:%d", connErrClass(err)) + tail()
			}
			return "item:" + bytesRepr(item) + tail()
		case "areadnext":
			before := rcalls
			conn.AsyncReadNext(readCb)
			if rcalls == before {
				return "pending" + tail()
			}
			return "done" + tail()
		case "writenext", "writepat":
			var p []byte
			if op == "writepat" {
				p = patternBytes(atoi(a[1]), atoi(a[0]))
			} else {
				p = unhex(a[0])
			}
			n, err := conn.WriteNext(p)
			return fmt.Sprintf("w=%d:%d", n, connErrClass(err)) + tail()
		case "awritenext", "awritepat":
			var p []byte
			if op == "awritepat" {
				p = patternBytes(atoi(a[1]), atoi(a[0]))
			} else {
				p = unhex(a[0])
			}
			before := wcalls
			conn.AsyncWriteNext(p, writeCb)
			if wcalls == before {
				return "pending" + tail()
			}
			return "done" + tail()
		case "wfail":
			ms.wFailAfter = atoi(a[0])
			return "u" + tail()
		case "wblock":
			ms.wBlock = true
			return "u" + tail()
		case "wunblock":
			ms.Unblock()
			return "u" + tail()
		}
		panic("unknown op " + op)
	})
}
