// Package drv contains the implementation drivers: each executes scripts (one operation per line) against the real
// sonic code and prints one observable line per operation.
package drv

import (
	"bufio"
	"encoding/hex"
	"fmt"
	"io"
	"strconv"
	"strings"
)

// Case is one script: a header line ("case k=v ...") and operation lines.
type Case struct {
	Header string
	Params map[string]string
	Ops    []string
}

func ReadCases(r io.Reader) ([]Case, error) {
	sc := bufio.NewScanner(r)
	sc.Buffer(make([]byte, 1<<20), 1<<28)
	var out []Case
	var cur *Case
	for sc.Scan() {
		line := strings.TrimSpace(sc.Text())
		if line == "" || strings.HasPrefix(line, "#") {
			continue
		}
		if strings.HasPrefix(line, "case") {
			c := Case{Header: line, Params: map[string]string{}}
			for _, f := range strings.Fields(line)[1:] {
				if i := strings.IndexByte(f, '='); i > 0 {
					c.Params[f[:i]] = f[i+1:]
				}
			}
			out = append(out, c)
			cur = &out[len(out)-1]
			continue
		}
		if line == "end" {
			cur = nil
			continue
		}
		if cur == nil {
			return nil, fmt.Errorf("operation outside case: %q", line)
		}
		cur.Ops = append(cur.Ops, line)
	}
	return out, sc.Err()
}

func (c *Case) Int(key string, def int) int {
	if v, ok := c.Params[key]; ok {
		n, err := strconv.ParseInt(v, 10, 64)
		if err == nil {
			return int(n)
		}
	}
	return def
}

func atoi(s string) int {
	n, err := strconv.ParseInt(s, 10, 64)
	if err != nil {
		panic(fmt.Sprintf("bad integer %q", s))
	}
	return int(n)
}

func hexs(b []byte) string {
	if len(b) == 0 {
		return "-"
	}
	return hex.EncodeToString(b)
}

func unhex(s string) []byte {
	if s == "-" || s == "" {
		return nil
	}
	b, err := hex.DecodeString(s)
	if err != nil {
		panic(fmt.Sprintf("bad hex %q", s))
	}
	return b
}

func b2i(b bool) int {
	if b {
		return 1
	}
	return 0
}

// Driver runs one case and returns one observation string per operation executed. If an operation panics, the
// observation is "PANIC" and the case stops there.
type Driver func(c *Case) []string

var Drivers = map[string]Driver{}

// RunCase wraps a per-op function with panic recovery.
func runOps(c *Case, step func(op string, args []string) string) (obs []string) {
	for _, line := range c.Ops {
		f := strings.Fields(line)
		o, panicked := safeStep(step, f[0], f[1:])
		obs = append(obs, o)
		if panicked {
			break
		}
	}
	return obs
}

func safeStep(step func(op string, args []string) string, op string, args []string) (o string, panicked bool) {
	defer func() {
		if r := recover(); r != nil {
			o = "PANIC"
			panicked = true
		}
	}()
	return step(op, args), false
}

func WriteTrace(w io.Writer, c *Case, obs []string) {
	fmt.Fprintln(w, c.Header)
	for i, o := range obs {
		fmt.Fprintf(w, "%s => %s\n", c.Ops[i], o)
	}
	fmt.Fprintln(w, "end")
}

func checksum(b []byte) uint64 {
	var h uint64 = 2166136261
	for _, x := range b {
		h = (h ^ uint64(x)) * 16777619 % 1000000007
	}
	return h
}

// short byte strings in hex, long ones as length:checksum
func bytesRepr(b []byte) string {
	if len(b) <= 256 {
		return hexs(b)
	}
	return fmt.Sprintf("h%d:%d", len(b), checksum(b))
}
