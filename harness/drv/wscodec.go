package drv

import (
	"bytes"
	"errors"
	"fmt"

	"github.com/talostrading/sonic"
	"github.com/talostrading/sonic/codec/websocket"
	"github.com/talostrading/sonic/sonicerrors"
)

func init() { Drivers["wscodec"] = runWsCodec }

func runWsCodec(c *Case) []string {
	max := c.Int("max", 1024)
	src := sonic.NewByteBuffer()
	dst := sonic.NewByteBuffer()
	codec := websocket.NewFrameCodec(src, dst, max)
	fed := 0
	lens := func() string {
		capOK := 1
		if src.Cap() > 2*(max+14+fed+4096) {
			capOK = 0
		}
		return fmt.Sprintf(" rl=%d wl=%d sl=%d cap_ok=%d", src.ReadLen(), src.WriteLen(), src.SaveLen(), capOK)
	}
	decode := func() string {
		f, err := codec.Decode(src)
		switch {
		case err == nil:
			_ = f.Payload() // accessor must not panic on a delivered frame
			return "f=" + bytesRepr(f)
		case errors.Is(err, sonicerrors.ErrNeedMore):
			return "needmore"
		case errors.Is(err, websocket.ErrPayloadOverMaxSize):
			return "toobig"
		default:
			return "err"
		}
	}
	return runOps(c, func(op string, a []string) string {
		switch op {
		case "feed":
			w := unhex(a[0])
			fed += len(w)
			_, _ = src.Write(w)
			return "u" + lens()
		case "decode":
			return decode() + lens()
		case "roundtrip":
			// roundtrip fin rsv op masked key plen pstart
			fin, rsv, opc, masked := a[0] == "1", atoi(a[1]), atoi(a[2]), a[3] == "1"
			key := unhex(a[4])
			payload := patternBytes(atoi(a[6]), atoi(a[5]))
			f := websocket.NewFrame()
			if fin {
				f.SetFIN()
			}
			if rsv&4 != 0 {
				f.SetRSV1()
			}
			if rsv&2 != 0 {
				f.SetRSV2()
			}
			if rsv&1 != 0 {
				f.SetRSV3()
			}
			f.SetOpcode(websocket.Opcode(opc))
			if masked {
				f.SetIsMasked()
			}
			f.SetPayload(payload)
			if masked {
				copy(f.Mask(), key)
				websocket.Mask(key, f.Payload())
			}
			want := append([]byte(nil), f...)
			if err := codec.Encode(f, dst); err != nil {
				return "encerr" + lens()
			}
			enc := append([]byte(nil), dst.Data()...)
			dst.Consume(len(enc))
			fed += len(enc)
			_, _ = src.Write(enc)
			r := decode()
			same := 0
			if r == "f="+bytesRepr(want) && bytes.Equal(enc, want) {
				same = 1
			}
			return fmt.Sprintf("%s same=%d", r, same) + lens()
		}
		panic("unknown op " + op)
	})
}
