package drv

import (
	"fmt"
	"unsafe"

	"github.com/talostrading/sonic"
)

func init() { Drivers["bip"] = runBip }

func runBip(c *Case) []string {
	size := c.Int("size", 8)
	b := sonic.NewBipBuffer(size)
	var base uintptr
	if size > 0 {
		// the first claim of a fresh buffer starts at element 0 of the backing array; Commit(0) drops the claim again
		s := b.Claim(1)
		base = uintptr(unsafe.Pointer(unsafe.SliceData(s)))
		b.Commit(0)
	}
	var live []byte
	sl := func(s []byte) string {
		if len(s) == 0 {
			return "r=0 c=-"
		}
		off := uintptr(unsafe.Pointer(unsafe.SliceData(s))) - base
		return fmt.Sprintf("r=%d:%d c=%s", off, len(s), hexs(s))
	}
	tail := func() string {
		return fmt.Sprintf(" committed=%d claimed=%d empty=%d", b.Committed(), b.Claimed(), b2i(b.Empty()))
	}
	return runOps(c, func(op string, a []string) string {
		switch op {
		case "claim":
			live = b.Claim(atoi(a[0]))
			return sl(live) + tail()
		case "fill":
			start := atoi(a[0])
			for i := range live {
				live[i] = byte(start + i)
			}
			return fmt.Sprintf("w=%d", len(live)) + tail()
		case "write":
			n := copy(live, unhex(a[0]))
			return fmt.Sprintf("w=%d", n) + tail()
		case "commit":
			r := b.Commit(atoi(a[0]))
			live = nil
			return sl(r) + tail()
		case "consume":
			b.Consume(atoi(a[0]))
			return "u" + tail()
		case "head":
			return sl(b.Head()) + tail()
		case "reset":
			b.Reset()
			live = nil
			return "u" + tail()
		}
		panic("unknown op " + op)
	})
}
