package drv

import (
	"bufio"
	"bytes"
	"crypto/sha1"
	"encoding/base64"
	"errors"
	"fmt"
	"io"
	"net"
	"strings"
	"time"

	"github.com/talostrading/sonic"
	"github.com/talostrading/sonic/codec/websocket"
)

// C18: the client's opening handshake against a raw server socket that answers with scripted bytes in scripted
// segments, optionally followed by frames, optionally closing after k bytes.

func init() { Drivers["hs"] = runHS }

func hsErrClass(err error) int {
	switch {
	case err == nil:
		return 0
	case errors.Is(err, websocket.ErrCannotUpgrade):
		return 1
	case errors.Is(err, io.ErrUnexpectedEOF), errors.Is(err, io.EOF):
		return 2
	default:
		return 3
	}
}

// checkRequest parses the upgrade request with an independent, strict parser
func checkRequest(raw []byte, wantExtra bool) (key string, verdict string) {
	lines := strings.Split(string(raw), "\r\n")
	if len(lines) < 3 || lines[len(lines)-1] != "" || lines[len(lines)-2] != "" {
		return "", "bad-termination"
	}
	rl := strings.Split(lines[0], " ")
	if len(rl) != 3 || rl[0] != "GET" || rl[2] != "HTTP/1.1" || !strings.HasPrefix(rl[1], "/") {
		return "", "bad-request-line"
	}
	h := map[string][]string{}
	for _, l := range lines[1 : len(lines)-2] {
		i := strings.IndexByte(l, ':')
		if i <= 0 {
			return "", "bad-header-line"
		}
		k := strings.ToLower(l[:i])
		h[k] = append(h[k], strings.Trim(l[i+1:], " \t"))
	}
	one := func(k string) (string, bool) {
		v := h[k]
		if len(v) != 1 {
			return "", false
		}
		return v[0], true
	}
	if v, ok := one("host"); !ok || !strings.HasPrefix(v, "127.0.0.1:") {
		return "", "bad-host"
	}
	if v, ok := one("upgrade"); !ok || !strings.EqualFold(v, "websocket") {
		return "", "bad-upgrade"
	}
	if v, ok := one("connection"); !ok || !strings.EqualFold(v, "upgrade") {
		return "", "bad-connection"
	}
	if v, ok := one("sec-websocket-version"); !ok || v != "13" {
		return "", "bad-version"
	}
	key, ok := one("sec-websocket-key")
	if !ok {
		return "", "bad-key"
	}
	if b, err := base64.StdEncoding.DecodeString(key); err != nil || len(b) != 16 {
		return "", "bad-key"
	}
	if wantExtra {
		if v, ok := one("x-verif"); !ok || v != "yes" {
			return key, "bad-extra-header"
		}
	}
	return key, "ok"
}

func runHS(c *Case) []string {
	ioc := sonic.MustIO()
	defer ioc.Close()
	s, err := websocket.NewWebsocketStream(ioc, nil, websocket.RoleClient)
	if err != nil {
		panic(err)
	}
	ln, err := net.Listen("tcp", "127.0.0.1:0")
	if err != nil {
		panic(err)
	}
	defer ln.Close()
	keys := map[string]bool{}
	var srvConns []net.Conn
	defer func() {
		for _, c := range srvConns {
			_ = c.Close()
		}
		// the descriptor belongs to the net.Conn the stream dialled: close it through the stream
		_ = s.CloseNextLayer()
	}()
	dead := false
	return runOps(c, func(op string, a []string) string {
		if dead {
			return "HANDSHAKE-TIMEOUT"
		}
		switch op {
		case "hs":
			_ = s.CloseNextLayer() // a previous connection of this stream
			mode, tmpl, cutsS, closeAt, frames, extra := a[0], unhex(a[1]), a[2], atoi(a[3]), unhex(a[4]), a[5] == "1"
			type srvRes struct{ key, verdict, acc string }
			resCh := make(chan srvRes, 1)
			go func() {
				conn, err := ln.Accept()
				if err != nil {
					resCh <- srvRes{verdict: "accept-failed"}
					return
				}
				_ = conn.SetDeadline(time.Now().Add(3 * time.Second))
				br := bufio.NewReader(conn)
				var raw []byte
				for !bytes.HasSuffix(raw, []byte("\r\n\r\n")) {
					b, err := br.ReadByte()
					if err != nil {
						resCh <- srvRes{verdict: "request-incomplete"}
						_ = conn.Close()
						return
					}
					raw = append(raw, b)
				}
				key, verdict := checkRequest(raw, extra)
				sum := sha1.Sum([]byte(key + "258EAFA5-E914-47DA-95CA-C5AB0DC85B11"))
				acc := base64.StdEncoding.EncodeToString(sum[:])
				swapped := []byte(acc)
				for i, ch := range swapped {
					if ch >= 'A' && ch <= 'Z' {
						swapped[i] = ch + 32
					} else if ch >= 'a' && ch <= 'z' {
						swapped[i] = ch - 32
					}
				}
				out := append(bytes.ReplaceAll(bytes.ReplaceAll(tmpl, []byte("@A@"), []byte(acc)), []byte("@S@"), swapped), frames...)
				closing := false
				if closeAt >= 0 && closeAt < len(out) {
					out = out[:closeAt]
					closing = true
				}
				prev := 0
				for _, cs := range strings.Split(cutsS, ",") {
					if cs == "-" || cs == "" {
						continue
					}
					// cut positions refer to the template with the 28-byte accept value substituted
					k := atoi(cs)
					if k > prev && k < len(out) {
						_, _ = conn.Write(out[prev:k])
						time.Sleep(3 * time.Millisecond)
						prev = k
					}
				}
				_, _ = conn.Write(out[prev:])
				if closing {
					_ = conn.Close()
				} else {
					srvConns = append(srvConns, conn)
				}
				resCh <- srvRes{key, verdict, acc}
			}()
			url := "ws://" + ln.Addr().String() + "/chat"
			var hdrs []websocket.Header
			if extra {
				hdrs = append(hdrs, websocket.ExtraHeader(true, "X-Verif", "yes"))
			}
			var herr error
			if mode == "sync" {
				// watchdog: a handshake that never returns although the server sent everything must fail, not hang the run
				fin := make(chan error, 1)
				go func() { fin <- s.Handshake(url, hdrs...) }()
				select {
				case herr = <-fin:
				case <-time.After(4 * time.Second):
					dead = true
					return "HANDSHAKE-TIMEOUT"
				}
			} else {
				done := false
				s.AsyncHandshake(url, func(err error) { herr = err; done = true }, hdrs...)
				for deadline := time.Now().Add(4 * time.Second); !done && time.Now().Before(deadline); {
					_ = ioc.RunOneFor(5 * time.Millisecond)
				}
				if !done {
					dead = true
					return "HANDSHAKE-TIMEOUT"
				}
			}
			var r srvRes
			select {
			case r = <-resCh:
			case <-time.After(4 * time.Second):
				r = srvRes{verdict: "server-timeout"}
			}
			fresh := 0
			if r.key != "" && !keys[r.key] {
				fresh = 1
			}
			keys[r.key] = true
			// what the frame decoder will see first: the read area followed by the written-but-uncommitted area
			src := s.VerifSrc()
			d := src.Data()
			rl, wl := src.ReadLen(), src.WriteLen()
			all := append([]byte{}, d...)
			if rl+wl <= cap(d) {
				all = append([]byte{}, d[:rl+wl]...)
			}
			return fmt.Sprintf("req=%s fresh=%d acc=%s err=%d state=%d src=%s", r.verdict, fresh, r.acc, hsErrClass(herr), int(s.State()), hexs(all))
		case "read":
			var res string
			done := false
			b := make([]byte, 4096)
			s.AsyncNextMessage(b, func(err error, n int, mt websocket.MessageType) {
				done = true
				if err != nil {
					res = fmt.Sprintf("msg=err:%d", hsErrClass(err))
				} else {
					res = fmt.Sprintf("msg=%d:%s", int(mt), hexs(b[:n]))
				}
			})
			for deadline := time.Now().Add(150 * time.Millisecond); !done && time.Now().Before(deadline); {
				_ = ioc.RunOneFor(5 * time.Millisecond)
			}
			if !done {
				return "msg=timeout"
			}
			return res
		}
		panic("unknown op " + op)
	})
}
