package drv

import (
	"errors"
	"fmt"
	"io"
	"net"
	"strings"
	"syscall"
	"time"

	"github.com/talostrading/sonic"
	"github.com/talostrading/sonic/sonicerrors"
)

// C02: the read/write reactors of a TCP conn (flav=file: sonic.Dial against a raw peer socket) and of an AsyncAdapter
// over a scripted io.ReadWriter (flav=adapter: every (count, error) result is dictated by the script).

func init() { Drivers["rw"] = runRW }

func rwInByte(k int) byte          { return byte(k*7 + k/251 + 3) }
func rwOutByte(start, k int) byte { return byte(start + k*5 + k/127) }

type scriptRW struct {
	in   []byte
	rs   [][2]int
	ws   [][2]int
	wire []byte
}

func rwErr(e int) error {
	switch e {
	case 0:
		return nil
	case 1:
		return io.EOF
	case 3:
		return sonicerrors.ErrWouldBlock
	default:
		return errors.New("scripted failure")
	}
}

func (s *scriptRW) Read(b []byte) (int, error) {
	n0, e := len(b), 0
	if len(s.rs) > 0 {
		n0, e = s.rs[0][0], s.rs[0][1]
		s.rs = s.rs[1:]
	}
	n := n0
	if len(b) < n {
		n = len(b)
	}
	if len(s.in) < n {
		n = len(s.in)
	}
	if n < 0 {
		n = 0
	}
	copy(b, s.in[:n])
	s.in = s.in[n:]
	return n, rwErr(e)
}

func (s *scriptRW) Write(b []byte) (int, error) {
	n0, e := len(b), 0
	if len(s.ws) > 0 {
		n0, e = s.ws[0][0], s.ws[0][1]
		s.ws = s.ws[1:]
	}
	n := n0
	if len(b) < n {
		n = len(b)
	}
	if n < 0 {
		n = 0
	}
	s.wire = append(s.wire, b[:n]...)
	return n, rwErr(e)
}

func parseRWScript(s string) [][2]int {
	if s == "-" {
		return nil
	}
	var out [][2]int
	for _, p := range strings.Split(s, ",") {
		f := strings.Split(p, ":")
		out = append(out, [2]int{atoi(f[0]), atoi(f[1])})
	}
	return out
}

type rwStream interface {
	AsyncRead([]byte, sonic.AsyncCallback)
	AsyncReadAll([]byte, sonic.AsyncCallback)
	AsyncWrite([]byte, sonic.AsyncCallback)
	AsyncWriteAll([]byte, sonic.AsyncCallback)
	Close() error
}

func runRW(c *Case) []string {
	adapter := c.Params["flav"] == "adapter"
	ioc := sonic.MustIO()
	defer ioc.Close()
	ln, err := net.Listen("tcp", "127.0.0.1:0")
	if err != nil {
		panic(err)
	}
	defer ln.Close()

	var obj rwStream
	var peer net.Conn
	srw := &scriptRW{}
	if adapter {
		raw, err := net.Dial("tcp", ln.Addr().String())
		if err != nil {
			panic(err)
		}
		defer raw.Close()
		peer, err = ln.Accept()
		if err != nil {
			panic(err)
		}
		// keep the descriptor readable (and it is always writable): every poll dispatches whatever is deferred
		_, _ = peer.Write([]byte{0})
		time.Sleep(2 * time.Millisecond)
		sonic.NewAsyncAdapter(ioc, raw.(syscall.Conn), srw, func(err error, a *sonic.AsyncAdapter) {
			if err != nil {
				panic(err)
			}
			obj = a
		})
	} else {
		conn, err := sonic.Dial(ioc, "tcp", ln.Addr().String())
		if err != nil {
			panic(err)
		}
		obj = conn
		peer, err = ln.Accept()
		if err != nil {
			panic(err)
		}
	}
	defer peer.Close()
	if !adapter {
		// the adapter's descriptor belongs to the net.Conn, which closes it
		defer obj.Close()
	}

	var events []string
	sentPos := 0
	rInflight, wInflight := 0, 0
	accepted := 0 // bytes the completed writes reported as written
	var peerGot []byte // file flavour: what the peer socket received
	drainPeer := func(wait time.Duration) {
		buf := make([]byte, 1<<16)
		for {
			_ = peer.SetReadDeadline(time.Now().Add(wait))
			n, err := peer.Read(buf)
			peerGot = append(peerGot, buf[:n]...)
			if err != nil || n == 0 {
				return
			}
		}
	}
	tail := func(extra string) string {
		e := strings.Join(events, " ")
		events = nil
		if e != "" {
			e += " "
		}
		return fmt.Sprintf("%sinflight=r%dw%d%s", e, rInflight, wInflight, extra)
	}
	return runOps(c, func(op string, a []string) string {
		switch op {
		case "rstart":
			all, n, cb := a[0] == "1", atoi(a[1]), a[2]
			b := make([]byte, n+8)
			for i := range b {
				b[i] = 0xEE
			}
			rInflight++
			done := func(err error, got int) {
				rInflight--
				t := ""
				if got < 0 || got > n {
					t = " tail=bad"
					got = 0
				} else {
					for _, x := range b[got:] {
						if x != 0xEE {
							t = " tail=bad"
						}
					}
				}
				events = append(events, fmt.Sprintf("R%s:%d:%d:%s%s", cb, loopErrClass(err), got, bytesRepr(b[:got]), t))
			}
			if all {
				obj.AsyncReadAll(b[:n:n], done)
			} else {
				obj.AsyncRead(b[:n:n], done)
			}
			return tail("")
		case "wstart":
			all, n, cb, start := a[0] == "1", atoi(a[1]), a[2], atoi(a[3])
			b := make([]byte, n)
			for i := range b {
				b[i] = rwOutByte(start, i)
			}
			wInflight++
			done := func(err error, put int) {
				wInflight--
				if put > 0 && put <= n {
					accepted += put
				}
				events = append(events, fmt.Sprintf("W%s:%d:%d", cb, loopErrClass(err), put))
			}
			if all {
				obj.AsyncWriteAll(b, done)
			} else {
				obj.AsyncWrite(b, done)
			}
			if !adapter {
				// a large transfer fills the socket: let the peer drain and the poller resume until it completes; how the
				// kernel splits it is not observable from the callbacks (theorem C02_writeall_outcome_independent_of_split)
				for i := 0; wInflight > 0 && i < 20000; i++ {
					drainPeer(time.Millisecond)
					_, _ = ioc.PollOne()
				}
			}
			return tail("")
		case "smallbuf":
			// file flavour: a small send buffer, so that a transfer of a few hundred KiB takes many kernel
			// segments (short writes on calls resumed by the poller, would-block in between)
			if !adapter {
				if fdo, ok := obj.(interface{ RawFd() int }); ok {
					_ = syscall.SetsockoptInt(fdo.RawFd(), syscall.SOL_SOCKET, syscall.SO_SNDBUF, 16384)
				}
			}
			return tail("")
		case "poll":
			_, _ = ioc.PollOne()
			return tail("")
		case "peerdata":
			n := atoi(a[0])
			d := make([]byte, n)
			for i := range d {
				d[i] = rwInByte(sentPos + i)
			}
			sentPos += n
			if adapter {
				srw.in = append(srw.in, d...)
			} else {
				if _, err := peer.Write(d); err != nil {
					panic(err)
				}
				time.Sleep(2 * time.Millisecond)
			}
			return tail("")
		case "peeroob":
			// file flavour: one urgent byte. It is not part of the byte stream, but a kernel read stops at its mark, so the
			// data around it reaches a single read attempt as two successful reads with no would-block in between
			if !adapter {
				if rc, err := peer.(*net.TCPConn).SyscallConn(); err == nil {
					_ = rc.Control(func(fd uintptr) { _ = syscall.Sendto(int(fd), []byte{0x7f}, syscall.MSG_OOB, nil) })
				}
				time.Sleep(2 * time.Millisecond)
			}
			return tail("")
		case "peereof":
			if !adapter {
				_ = peer.(*net.TCPConn).CloseWrite()
				time.Sleep(2 * time.Millisecond)
			}
			return tail("")
		case "rscript":
			srw.rs = append(srw.rs, parseRWScript(a[0])...)
			return tail("")
		case "wscript":
			srw.ws = append(srw.ws, parseRWScript(a[0])...)
			return tail("")
		case "wire":
			w := srw.wire
			if !adapter {
				// everything the completed writes reported has to arrive (bounded wait), then see whether more does
				for deadline := time.Now().Add(3 * time.Second); len(peerGot) < accepted && time.Now().Before(deadline); {
					drainPeer(2 * time.Millisecond)
				}
				drainPeer(3 * time.Millisecond)
				w = peerGot
			}
			return tail(fmt.Sprintf(" wire=%d:%d", len(w), checksum(w)))
		}
		panic("unknown op " + op)
	})
}
