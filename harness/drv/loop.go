package drv

import (
	"errors"
	"fmt"
	"io"
	"net"
	"os"
	"os/signal"
	"runtime"
	"path/filepath"
	"sort"
	"strings"
	"syscall"
	"time"

	"github.com/talostrading/sonic"
	"github.com/talostrading/sonic/sonicerrors"
	"github.com/talostrading/sonic/sonicopts"
)

func init() { Drivers["loop"] = runLoop }

func loopErrClass(err error) int {
	switch {
	case err == nil:
		return 0
	case errors.Is(err, io.EOF):
		return 1
	case errors.Is(err, sonicerrors.ErrCancelled):
		return 2
	case errors.Is(err, sonicerrors.ErrWouldBlock):
		return 3
	case errors.Is(err, syscall.EPERM):
		return 4
	case errors.Is(err, syscall.EBADF):
		return 5
	case errors.Is(err, syscall.ECONNRESET):
		return 6
	case errors.Is(err, syscall.EPIPE):
		return 7
	case errors.Is(err, sonicerrors.ErrTimeout):
		return 8
	default:
		return 9
	}
}

type loopObj struct {
	kind   string
	f      sonic.FileDescriptor // the sonic object (Conn or File)
	l      sonic.Listener       // kind lsn
	pc     sonic.PacketConn     // kind pkt
	pcPeer net.PacketConn       // kind pkt: harness side
	dials  []net.Conn           // kind lsn: connections the harness dialled
	peer   net.Conn             // sock: harness side
	peerFd int                  // piper: write end; pipew: read end
	buf    []byte
	path   string
}

type loopDrv struct {
	ioc     *sonic.IO
	objs    map[int]*loopObj
	timers  map[int]*sonic.Timer
	progs   map[int][]string
	events  []string
	depth   int
	dir     string
	ln      net.Listener
	fatal   string
	started time.Time
	budget  int // callbacks whose program may still run during the current script line
}

func (o *loopObj) sonicObj() any {
	if o.kind == "lsn" {
		return o.l
	}
	if o.kind == "pkt" {
		return o.pc
	}
	return o.f
}

func (o *loopObj) rawFd() int {
	if o.kind == "lsn" {
		return o.l.RawFd()
	}
	if o.kind == "pkt" {
		return o.pc.RawFd()
	}
	return o.f.RawFd()
}

func (d *loopDrv) cb(id int) func(error, int) {
	return func(err error, n int) {
		d.depth++
		d.events = append(d.events, fmt.Sprintf("cb%d:%d:%d:d%d", id, loopErrClass(err), n, d.depth))
		run := d.budget > 0
		d.budget--
		if run {
			for _, a := range d.progs[id] {
				d.exec(strings.Fields(a))
			}
		}
		d.depth--
	}
}

func (d *loopDrv) tcb(id int) func() {
	return func() {
		d.depth++
		d.events = append(d.events, fmt.Sprintf("cb%d:0:0:d%d", id, d.depth))
		run := d.budget > 0
		d.budget--
		if run {
			for _, a := range d.progs[id] {
				d.exec(strings.Fields(a))
			}
		}
		d.depth--
	}
}

func (d *loopDrv) newObj(id int, kind string) {
	o := &loopObj{kind: kind, peerFd: -1}
	switch kind {
	case "sock":
		if d.ln == nil {
			ln, err := net.Listen("tcp", "127.0.0.1:0")
			if err != nil {
				panic(err)
			}
			d.ln = ln
		}
		c, err := sonic.Dial(d.ioc, "tcp", d.ln.Addr().String())
		if err != nil {
			panic(err)
		}
		p, err := d.ln.Accept()
		if err != nil {
			panic(err)
		}
		o.f, o.peer = c, p
	case "piper", "pipew":
		o.path = filepath.Join(d.dir, fmt.Sprintf("fifo%d", id))
		if err := syscall.Mkfifo(o.path, 0o600); err != nil {
			panic(err)
		}
		if kind == "piper" {
			f, err := sonic.Open(d.ioc, o.path, syscall.O_RDONLY|syscall.O_NONBLOCK, 0)
			if err != nil {
				panic(err)
			}
			w, err := syscall.Open(o.path, syscall.O_WRONLY|syscall.O_NONBLOCK, 0)
			if err != nil {
				panic(err)
			}
			o.f, o.peerFd = f, w
		} else {
			r, err := syscall.Open(o.path, syscall.O_RDONLY|syscall.O_NONBLOCK, 0)
			if err != nil {
				panic(err)
			}
			f, err := sonic.Open(d.ioc, o.path, syscall.O_WRONLY|syscall.O_NONBLOCK, 0)
			if err != nil {
				panic(err)
			}
			o.f, o.peerFd = f, r
		}
	case "lsn":
		l, err := sonic.Listen(d.ioc, "tcp", "127.0.0.1:0", sonicopts.Nonblocking(true))
		if err != nil {
			panic(err)
		}
		o.l = l
	case "pkt":
		pc, err := sonic.NewPacketConn(d.ioc, "udp", "127.0.0.1:0")
		if err != nil {
			panic(err)
		}
		pp, err := net.ListenPacket("udp", "127.0.0.1:0")
		if err != nil {
			panic(err)
		}
		o.pc, o.pcPeer = pc, pp
	case "reg":
		o.path = filepath.Join(d.dir, fmt.Sprintf("reg%d", id))
		if err := os.WriteFile(o.path, patternBytes(1, 64), 0o600); err != nil {
			panic(err)
		}
		f, err := sonic.Open(d.ioc, o.path, syscall.O_RDWR, 0)
		if err != nil {
			panic(err)
		}
		o.f = f
	default:
		panic("unknown object kind " + kind)
	}
	d.objs[id] = o
}

func (d *loopDrv) exec(a []string) {
	switch a[0] {
	case "start":
		o := d.objs[atoi(a[2])]
		n := atoi(a[3])
		id := atoi(a[4])
		b := make([]byte, n)
		d.events = append(d.events, fmt.Sprintf("S%d:%s:%s:%d", id, a[2], a[1], n))
		if o.kind == "lsn" {
			cb := d.cb(id)
			o.l.AsyncAccept(func(err error, conn sonic.Conn) {
				got := 0
				if conn != nil {
					got = 1
					_ = conn.Close()
				}
				cb(err, got)
			})
			return
		}
		if o.kind == "pkt" {
			cb := d.cb(id)
			switch a[1] {
			case "read":
				o.pc.AsyncReadFrom(b, func(err error, n int, _ net.Addr) { cb(err, n) })
			case "readall":
				o.pc.AsyncReadAllFrom(b, func(err error, n int, _ net.Addr) { cb(err, n) })
			default:
				o.pc.AsyncWriteTo(b, o.pcPeer.LocalAddr(), func(err error) {
					if err != nil {
						cb(err, 0)
					} else {
						cb(nil, n)
					}
				})
			}
			return
		}
		switch a[1] {
		case "read":
			o.f.AsyncRead(b, d.cb(id))
		case "readall":
			o.f.AsyncReadAll(b, d.cb(id))
		case "write":
			o.f.AsyncWrite(b, d.cb(id))
		case "writeall":
			o.f.AsyncWriteAll(b, d.cb(id))
		}
	case "cancel":
		d.events = append(d.events, "X"+a[1])
		d.objs[atoi(a[1])].f.Cancel()
		d.events = append(d.events, "x"+a[1])
	case "close":
		var err error
		if o := d.objs[atoi(a[1])]; o.kind == "lsn" {
			err = o.l.Close()
		} else if o.kind == "pkt" {
			err = o.pc.Close()
		} else {
			err = o.f.Close()
		}
		d.events = append(d.events, fmt.Sprintf("C%s:%d", a[1], loopErrClass(err)))
	case "sched", "schedus":
		t := d.timers[atoi(a[1])]
		dur := time.Duration(atoi(a[3])) * time.Millisecond
		if a[0] == "schedus" {
			// a delay with a sub-millisecond part; reported rounded up to milliseconds, like the model's clock
			dur = time.Duration(atoi(a[3])) * time.Microsecond
			a = append([]string{}, a...)
			a[3] = fmt.Sprint((atoi(a[3]) + 999) / 1000)
		}
		var err error
		if a[2] == "once" {
			err = t.ScheduleOnce(dur, d.tcb(atoi(a[4])))
		} else {
			err = t.ScheduleRepeating(dur, d.tcb(atoi(a[4])))
		}
		d.events = append(d.events, fmt.Sprintf("T%s:%s:%s:%s:%d", a[1], a[2], a[3], a[4], loopErrClass(err)))
	case "tcancel":
		err := d.timers[atoi(a[1])].Cancel()
		d.events = append(d.events, fmt.Sprintf("tc%s:%d", a[1], loopErrClass(err)))
	case "tclose":
		err := d.timers[atoi(a[1])].Close()
		d.events = append(d.events, fmt.Sprintf("tx%s:%d", a[1], loopErrClass(err)))
	case "post":
		id := atoi(a[1])
		d.events = append(d.events, "P"+a[1])
		_ = d.ioc.Post(d.tcb(id))
	default:
		panic("unknown action " + a[0])
	}
}

func (d *loopDrv) nameOf(slot uintptr, fd int) string {
	if fd == d.ioc.VerifWakerFd() {
		return "w"
	}
	ids := make([]int, 0)
	for id := range d.objs {
		ids = append(ids, id)
	}
	sort.Ints(ids)
	for _, id := range ids {
		if sonic.VerifSlotAddr(d.objs[id].sonicObj()) == slot {
			return fmt.Sprintf("o%d", id)
		}
	}
	for id, t := range d.timers {
		if sonic.VerifSlotAddr(t) == slot {
			return fmt.Sprintf("t%d", id)
		}
	}
	return fmt.Sprintf("?%d", fd)
}

func runLoop(c *Case) []string {
	d := &loopDrv{objs: map[int]*loopObj{}, timers: map[int]*sonic.Timer{}, progs: map[int][]string{}}
	d.ioc = sonic.MustIO()
	dir, err := os.MkdirTemp("", "verif-loop-")
	if err != nil {
		panic(err)
	}
	d.dir = dir
	defer func() {
		for _, o := range d.objs {
			if o.f != nil {
				_ = o.f.Close()
			}
			if o.l != nil {
				_ = o.l.Close()
			}
			if o.pc != nil {
				_ = o.pc.Close()
				_ = o.pcPeer.Close()
			}
			for _, c := range o.dials {
				_ = c.Close()
			}
			if o.peer != nil {
				_ = o.peer.Close()
			}
			if o.peerFd >= 0 {
				_ = syscall.Close(o.peerFd)
			}
		}
		for _, t := range d.timers {
			_ = t.Close()
		}
		if d.ln != nil {
			_ = d.ln.Close()
		}
		_ = d.ioc.Close()
		_ = os.RemoveAll(dir)
	}()
	tail := func(extra string) string {
		e := strings.Join(d.events, " ")
		d.events = nil
		if e != "" {
			e += " "
		}
		// interest bits and registry membership of every object (hooks)
		ids := make([]int, 0)
		for id := range d.objs {
			ids = append(ids, id)
		}
		sort.Ints(ids)
		var sb strings.Builder
		for _, id := range ids {
			o := d.objs[id]
			fmt.Fprintf(&sb, "o%d:%d:%d,", id, sonic.VerifSlotEvents(o.sonicObj())&5, b2i(d.ioc.VerifRegistered(o.rawFd())))
		}
		return fmt.Sprintf("%s%spending=%d disp=%d ev=%s tm=%d", e, extra, d.ioc.Pending(), d.ioc.Dispatched, strings.TrimSuffix(sb.String(), ","), d.ioc.VerifPendingTimers())
	}
	return runOps(c, func(op string, a []string) string {
		d.budget = 300
		switch op {
		case "obj":
			d.newObj(atoi(a[0]), a[1])
			return tail("")
		case "timer":
			t, err := sonic.NewTimer(d.ioc)
			if err != nil {
				panic(err)
			}
			d.timers[atoi(a[0])] = t
			return tail("")
		case "prog":
			// prog <cb> <action words...> ; <action words...>
			id := atoi(a[0])
			rest := strings.Join(a[1:], " ")
			d.progs[id] = nil
			for _, p := range strings.Split(rest, ";") {
				p = strings.TrimSpace(p)
				if p != "" {
					d.progs[id] = append(d.progs[id], p)
				}
			}
			return tail("")
		case "depth":
			d.ioc.Dispatched = atoi(a[0])
			return tail("")
		case "peer":
			o := d.objs[atoi(a[0])]
			switch a[1] {
			case "data":
				n := atoi(a[2])
				if o.kind == "lsn" {
					// n connections queued on the listener
					for k := 0; k < n; k++ {
						// the listener reports the address it was asked for (port 0): ask the socket
						sa, err := syscall.Getsockname(o.l.RawFd())
						if err != nil {
							panic(err)
						}
						c, err := net.Dial("tcp", fmt.Sprintf("127.0.0.1:%d", sa.(*syscall.SockaddrInet4).Port))
						if err != nil {
							panic(err)
						}
						o.dials = append(o.dials, c)
					}
				} else if o.kind == "pkt" {
					// n bytes as datagrams of 4 bytes: the scripts read packet conns 4 bytes at a time
					// the conn may report the address it was asked for (port 0): ask the socket
					sa, err := syscall.Getsockname(o.pc.RawFd())
					if err != nil {
						panic(err)
					}
					dst := &net.UDPAddr{IP: net.IPv4(127, 0, 0, 1), Port: sa.(*syscall.SockaddrInet4).Port}
					for k := 0; k+4 <= n; k += 4 {
						if _, err := o.pcPeer.WriteTo(patternBytes(7+k, 4), dst); err != nil {
							panic(err)
						}
					}
				} else if o.peer != nil {
					_, _ = o.peer.Write(patternBytes(7, n))
				} else {
					_, _ = syscall.Write(o.peerFd, patternBytes(7, n))
				}
			case "close":
				if o.peer != nil {
					// read what the sonic side wrote first: closing a socket with unread data sends RST, not FIN
					_ = o.peer.SetReadDeadline(time.Now().Add(5 * time.Millisecond))
					_, _ = io.Copy(io.Discard, o.peer)
					_ = o.peer.Close()
					o.peer = nil
				} else if o.peerFd >= 0 {
					_ = syscall.Close(o.peerFd)
					o.peerFd = -1
				}
			case "rst":
				if tc, ok := o.peer.(*net.TCPConn); ok {
					_ = tc.SetLinger(0)
					_ = tc.Close()
					o.peer = nil
				}
			case "kill":
				// the descriptor is closed underneath the object; its number is given to something that can be neither
				// polled nor read (a directory), as a descriptor reused by another part of the program might be
				fd := o.f.RawFd()
				_ = syscall.Close(fd)
				nd, err := syscall.Open("/", syscall.O_RDONLY|syscall.O_DIRECTORY, 0)
				if err != nil {
					panic(err)
				}
				if nd != fd {
					if err := syscall.Dup2(nd, fd); err != nil {
						panic(err)
					}
					_ = syscall.Close(nd)
				}
			case "fill":
				// fill the send buffer of the object's socket / FIFO behind its back (the descriptor is non-blocking): the next
				// write of the object would block
				chunk := make([]byte, 1<<16)
				for {
					if _, err := syscall.Write(o.f.RawFd(), chunk); err != nil {
						break
					}
				}
			case "drain":
				n := atoi(a[2])
				if n == 0 {
					// everything: until nothing has arrived for 30 ms
					big := make([]byte, 1<<20)
					for {
						var k int
						var err error
						if o.peer != nil {
							_ = o.peer.SetReadDeadline(time.Now().Add(30 * time.Millisecond))
							k, err = o.peer.Read(big)
						} else {
							k, err = syscall.Read(o.peerFd, big)
							if err == syscall.EAGAIN {
								time.Sleep(5 * time.Millisecond)
								k, err = syscall.Read(o.peerFd, big)
							}
						}
						if err != nil || k <= 0 {
							break
						}
					}
					time.Sleep(2 * time.Millisecond)
					return tail("")
				}
				b := make([]byte, n)
				if o.kind == "pkt" {
					_ = o.pcPeer.SetReadDeadline(time.Now().Add(20 * time.Millisecond))
					for k := 0; k < n; k += 4 {
						if _, _, err := o.pcPeer.ReadFrom(b); err != nil {
							break
						}
					}
				} else if o.peer != nil {
					_ = o.peer.SetReadDeadline(time.Now().Add(200 * time.Millisecond))
					_, _ = io.ReadFull(o.peer, b)
				} else {
					_, _ = syscall.Read(o.peerFd, b)
				}
			}
			time.Sleep(2 * time.Millisecond)
			return tail("")
		case "scenario":
			if a[0] == "eintr" {
				// an untimed wait (RunPending with one timer armed) that signals keep interrupting: it must not report an
				// error and must return only when the timer has fired
				runtime.LockOSThread()
				defer runtime.UnlockOSThread()
				tid := syscall.Gettid()
				sigc := make(chan os.Signal, 256)
				signal.Notify(sigc, syscall.SIGUSR1)
				defer signal.Stop(sigc)
				t, err := sonic.NewTimer(d.ioc)
				if err != nil {
					panic(err)
				}
				fired := false
				_ = t.ScheduleOnce(250*time.Millisecond, func() { fired = true })
				stop := make(chan struct{})
				go func() {
					for {
						select {
						case <-stop:
							return
						default:
							_ = syscall.Tgkill(syscall.Getpid(), tid, syscall.SIGUSR1)
							time.Sleep(5 * time.Millisecond)
						}
					}
				}()
				rerr := d.ioc.RunPending()
				close(stop)
				ok := 0
				if rerr == nil && fired && d.ioc.Pending() == 0 {
					ok = 1
				}
				_ = t.Close()
				return fmt.Sprintf("scn=%s ok=%d", a[0], ok)
			}
			// scenario hupreuse: two sockets X and A in one poll batch, X ready first, A hung up; X's handler closes A and opens a
			// new conn B, which receives A's descriptor number and parks a read. B's read must complete exactly once when its
			// peer writes (A's stale batch entry must not touch the descriptor number B now owns).
			if d.ln == nil {
				ln, err := net.Listen("tcp", "127.0.0.1:0")
				if err != nil {
					panic(err)
				}
				d.ln = ln
			}
			dial := func() (sonic.Conn, net.Conn) {
				c, err := sonic.Dial(d.ioc, "tcp", d.ln.Addr().String())
				if err != nil {
					panic(err)
				}
				p, err := d.ln.Accept()
				if err != nil {
					panic(err)
				}
				return c, p
			}
			x, xp := dial()
			ao, ap := dial()
			afd := ao.RawFd()
			var b sonic.Conn
			var bp net.Conn
			done := 0
			x.AsyncRead(make([]byte, 4), func(error, int) {
				_ = ao.Close()
				b, bp = dial()
				b.AsyncRead(make([]byte, 4), func(error, int) { done++ })
			})
			ao.AsyncRead(make([]byte, 4), func(error, int) {})
			_, _ = xp.Write([]byte{1, 2, 3, 4})
			time.Sleep(2 * time.Millisecond)
			if tc, isTCP := ap.(*net.TCPConn); isTCP {
				_ = tc.SetLinger(0) // reset: A is reported with EPOLLERR|EPOLLHUP
			}
			_ = ap.Close()
			time.Sleep(2 * time.Millisecond)
			_, _ = d.ioc.PollOne()
			ok := 1
			if b != nil {
				reused := b.RawFd() == afd
				_, _ = bp.Write([]byte{5, 6, 7, 8})
				time.Sleep(2 * time.Millisecond)
				for i := 0; i < 3; i++ {
					_, _ = d.ioc.PollOne()
				}
				if reused && done != 1 {
					ok = 0
				}
				_ = b.Close()
				_ = bp.Close()
			}
			_ = x.Close()
			_ = xp.Close()
			return fmt.Sprintf("scn=%s ok=%d", a[0], ok)
		case "sleep":
			time.Sleep(time.Duration(atoi(a[0])) * time.Millisecond)
			return tail("")
		case "pollone", "runonefor":
			var n int
			var err error
			if op == "pollone" {
				n, err = d.ioc.PollOne()
			} else {
				err = d.ioc.RunOneFor(time.Duration(atoi(a[0])) * time.Millisecond)
				n = -1
			}
			batch := ""
			if op == "pollone" && n > 0 {
				var parts []string
				for _, ev := range d.ioc.VerifLastBatch(n) {
					parts = append(parts, fmt.Sprintf("%s:%d", d.nameOf(ev.Slot, ev.Fd), ev.Mask&0x1d))
				}
				batch = strings.Join(parts, ",")
			}
			return tail(fmt.Sprintf("ret=%d:%d batch=%s ", n, loopErrClass(err), batch))
		case "start", "cancel", "close", "sched", "schedus", "tcancel", "tclose", "post":
			d.exec(append([]string{op}, a...))
			return tail("")
		}
		panic("unknown op " + op)
	})
}
