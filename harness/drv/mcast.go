package drv

import (
	"fmt"
	"net"
	"net/netip"
	"strings"
	"syscall"
	"time"

	"github.com/talostrading/sonic"
	"github.com/talostrading/sonic/multicast"
)

// C12: datagram boundaries / addressing on a multicast peer (unicast traffic from raw sender sockets), the peer's cached
// settings against getsockopt, and multicast membership against real group traffic.

func init() { Drivers["mcast"] = runMcast }

func mcastSourceIP() string {
	iffs, _ := net.Interfaces()
	for _, iff := range iffs {
		if iff.Flags&net.FlagMulticast == 0 || iff.Flags&net.FlagLoopback != 0 || iff.Flags&net.FlagUp == 0 {
			continue
		}
		addrs, _ := iff.Addrs()
		for _, a := range addrs {
			if n, ok := a.(*net.IPNet); ok && n.IP.To4() != nil {
				return n.IP.String()
			}
		}
	}
	return "127.0.0.1"
}

// runMcastPkt: the datagram part of the scripts on a sonic.PacketConn (packet.go) instead of the multicast peer: the same
// observations (one datagram per completed read, truncated to the buffer's LENGTH - the buffers have spare capacity -, its
// source, one datagram per write).
func runMcastPkt(c *Case) []string {
	ioc := sonic.MustIO()
	defer ioc.Close()
	pc, err := sonic.NewPacketConn(ioc, "udp", "127.0.0.1:0")
	if err != nil {
		panic(err)
	}
	defer pc.Close()
	sa, err := syscall.Getsockname(pc.RawFd())
	if err != nil {
		panic(err)
	}
	port := sa.(*syscall.SockaddrInet4).Port
	senders := map[int]*net.UDPConn{}
	sender := func(k int) *net.UDPConn {
		if s, ok := senders[k]; ok {
			return s
		}
		s, err := net.ListenUDP("udp", &net.UDPAddr{IP: net.IPv4(127, 0, 0, 1)})
		if err != nil {
			panic(err)
		}
		senders[k] = s
		return s
	}
	defer func() {
		for _, s := range senders {
			_ = s.Close()
		}
	}()
	srcID := func(a net.Addr) int {
		// the packet conn reports the source as whatever net.Addr its converter builds (a *net.TCPAddr today): the address
		// and port are what matters
		p := -1
		switch x := a.(type) {
		case *net.UDPAddr:
			if x != nil {
				p = x.Port
			}
		case *net.TCPAddr:
			if x != nil && x.IP.Equal(net.IPv4(127, 0, 0, 1)) {
				p = x.Port
			}
		}
		for k, s := range senders {
			if s.LocalAddr().(*net.UDPAddr).Port == p {
				return k
			}
		}
		return -1
	}
	pat := func(seed, n int) []byte {
		b := make([]byte, n)
		for i := range b {
			b[i] = byte(seed + i*3 + i/200)
		}
		return b
	}
	var events []string
	// the address handed to a callback stays that datagram's sender: every address is kept and looked at again after each
	// later operation (a caller that replies later keeps it just like this)
	type keptAddr struct {
		cb   string
		from net.Addr
		id   int
	}
	var kept []*keptAddr
	tail := func(extra string) string {
		for _, ka := range kept {
			if ka.id >= 0 && srcID(ka.from) != ka.id {
				events = append(events, fmt.Sprintf("A%s:sender-reported-earlier-changed:%d->%d", ka.cb, ka.id, srcID(ka.from)))
				ka.id = -1
			}
		}
		e := strings.Join(events, " ")
		events = nil
		if e == "" {
			e = "-"
		}
		return e + extra
	}
	return runOps(c, func(op string, a []string) string {
		switch op {
		case "arrive":
			k, n, seed := atoi(a[0]), atoi(a[1]), atoi(a[2])
			if _, err := sender(k).WriteToUDP(pat(seed, n), &net.UDPAddr{IP: net.IPv4(127, 0, 0, 1), Port: port}); err != nil {
				panic(err)
			}
			time.Sleep(time.Millisecond)
			return tail("")
		case "aread":
			n, cb := atoi(a[0]), a[1]
			b := make([]byte, n+64) // the read gets b[:n]: the spare capacity behind it must stay untouched
			for i := range b {
				b[i] = 0xEE
			}
			pc.AsyncReadFrom(b[:n], func(err error, got int, from net.Addr) {
				where := 1
				for _, x := range b[n:] {
					if x != 0xEE {
						where = 0
					}
				}
				shown := got
				if shown > len(b) {
					shown = len(b)
				}
				if shown < 0 {
					shown = 0
				}
				events = append(events, fmt.Sprintf("R%s:%d:%d:%d:%s:latest=%d", cb, loopErrClass(err), got, srcID(from), bytesRepr(b[:shown]), where))
				kept = append(kept, &keptAddr{cb, from, srcID(from)})
			})
			return tail("")
		case "poll":
			_, _ = ioc.PollOne()
			return tail("")
		case "write":
			k, n, seed := atoi(a[0]), atoi(a[1]), atoi(a[2])
			dst := sender(k).LocalAddr().(*net.UDPAddr)
			pc.AsyncWriteTo(pat(seed, n), dst, func(err error) {
				put := n
				if err != nil {
					put = 0
				}
				events = append(events, fmt.Sprintf("W:%d:%d", loopErrClass(err), put))
			})
			buf := make([]byte, 70000)
			var got []string
			for {
				_ = sender(k).SetReadDeadline(time.Now().Add(3 * time.Millisecond))
				m, from, err := sender(k).ReadFromUDP(buf)
				if err != nil {
					break
				}
				ok := 0
				if from.Port == port {
					ok = 1
				}
				got = append(got, fmt.Sprintf("S%d:%s:from=%d", k, bytesRepr(buf[:m]), ok))
			}
			return tail(" " + strings.Join(got, " "))
		}
		panic("unknown op " + op)
	})
}

func runMcast(c *Case) []string {
	if c.Params["mode"] == "pkt" {
		return runMcastPkt(c)
	}
	ioc := sonic.MustIO()
	defer ioc.Close()
	bind := "127.0.0.1:0"
	if c.Params["mode"] == "group" {
		bind = ":0"
	}
	peer, err := multicast.NewUDPPeer(ioc, "udp", bind)
	if err != nil {
		panic(err)
	}
	defer peer.Close()
	port := peer.LocalAddr().Port
	senders := map[int]*net.UDPConn{}
	sender := func(k int) *net.UDPConn {
		if s, ok := senders[k]; ok {
			return s
		}
		s, err := net.ListenUDP("udp", &net.UDPAddr{IP: net.IPv4(127, 0, 0, 1)})
		if err != nil {
			panic(err)
		}
		senders[k] = s
		return s
	}
	defer func() {
		for _, s := range senders {
			_ = s.Close()
		}
	}()
	srcID := func(ap netip.AddrPort) int {
		for k, s := range senders {
			if s.LocalAddr().(*net.UDPAddr).Port == int(ap.Port()) && ap.Addr().String() == "127.0.0.1" {
				return k
			}
		}
		return -1
	}
	pat := func(seed, n int) []byte {
		b := make([]byte, n)
		for i := range b {
			b[i] = byte(seed + i*3 + i/200)
		}
		return b
	}
	var events []string
	var latest []byte // the buffer most recently designated for the pending read
	tail := func(extra string) string {
		e := strings.Join(events, " ")
		events = nil
		if e == "" {
			e = "-"
		}
		return e + extra
	}
	settings := func() string {
		fd := peer.NextLayer().RawFd()
		kl, _ := syscall.GetsockoptInt(fd, syscall.IPPROTO_IP, syscall.IP_MULTICAST_LOOP)
		kt, _ := syscall.GetsockoptInt(fd, syscall.IPPROTO_IP, syscall.IP_MULTICAST_TTL)
		ka, _ := syscall.GetsockoptInt(fd, syscall.IPPROTO_IP, 49 /* IP_MULTICAST_ALL */)
		return fmt.Sprintf("loop=%d/%d ttl=%d/%d all=%d/%d", b2i(peer.Loop()), kl, peer.TTL(), kt, b2i(peer.All()), ka)
	}
	group := func(g string) multicast.IP { return multicast.IP("224.0.1." + fmt.Sprint(10+atoi(g))) }
	source := func(s string) multicast.SourceIP {
		if s == "1" {
			return multicast.SourceIP(mcastSourceIP())
		}
		return multicast.SourceIP("10.9.9.9")
	}
	rc := func(err error) string { return fmt.Sprintf("rc=%d", b2i(err != nil)) }
	return runOps(c, func(op string, a []string) string {
		switch op {
		case "arrive":
			k, n, seed := atoi(a[0]), atoi(a[1]), atoi(a[2])
			_, err := sender(k).WriteToUDP(pat(seed, n), &net.UDPAddr{IP: net.IPv4(127, 0, 0, 1), Port: port})
			if err != nil {
				panic(err)
			}
			time.Sleep(time.Millisecond)
			return tail("")
		case "aread":
			n, cb := atoi(a[0]), a[1]
			b := make([]byte, n+4)
			for i := range b {
				b[i] = 0xEE
			}
			latest = b
			peer.AsyncRead(b[:n:n], func(err error, got int, from netip.AddrPort) {
				// the bytes must be in the buffer designated last; a buffer that was replaced must be untouched
				where := 1
				if &latest[0] != &b[0] {
					for _, x := range b {
						if x != 0xEE {
							where = 0
						}
					}
				}
				// compare with the generator: the harness knows nothing else about the datagram
				data := latest
				if got > len(data) {
					got = len(data)
				}
				events = append(events, fmt.Sprintf("R%s:%d:%d:%d:%s:latest=%d", cb, loopErrClass(err), got, srcID(from), bytesRepr(data[:got]), where))
			})
			return tail("")
		case "chain":
			// chain <n> <buflen>: n datagrams are queued; every read callback re-issues the read with a FRESH buffer (so some reads
			// are deferred at the dispatch limit and completed by the poller); every completion must land in its own buffer
			n, bl := atoi(a[0]), atoi(a[1])
			done := 0
			var issue func(k int)
			issue = func(k int) {
				b := make([]byte, bl+4)
				for i := range b {
					b[i] = 0xEE
				}
				peer.AsyncRead(b[:bl:bl], func(err error, got int, from netip.AddrPort) {
					where := 1
					if got < 0 || got > bl {
						got = 0
					}
					if got > 0 {
						all := true
						for _, x := range b[:got] {
							if x != 0xEE {
								all = false
							}
						}
						if all && got > 2 {
							where = 0 // nothing was written into the buffer designated for this read
						}
					}
					events = append(events, fmt.Sprintf("R%d:%d:%d:%d:%s:latest=%d", 100+k, loopErrClass(err), got, srcID(from), bytesRepr(b[:got]), where))
					done++
					if done < n {
						issue(k + 1)
					}
				})
			}
			issue(0)
			for i := 0; i < 4*n && done < n; i++ {
				_, _ = ioc.PollOne()
			}
			return tail("")
		case "setbuf":
			n := atoi(a[0])
			b := make([]byte, n+4)
			for i := range b {
				b[i] = 0xEE
			}
			latest = b
			peer.SetAsyncReadBuffer(b[:n:n])
			return tail("")
		case "poll":
			_, _ = ioc.PollOne()
			return tail("")
		case "write":
			k, n, seed := atoi(a[0]), atoi(a[1]), atoi(a[2])
			dst := sender(k).LocalAddr().(*net.UDPAddr)
			peer.AsyncWrite(pat(seed, n), netip.AddrPortFrom(netip.MustParseAddr("127.0.0.1"), uint16(dst.Port)), func(err error, put int) {
				events = append(events, fmt.Sprintf("W:%d:%d", loopErrClass(err), put))
			})
			// what sender k's socket receives: every datagram, whole
			buf := make([]byte, 70000)
			var got []string
			for {
				_ = sender(k).SetReadDeadline(time.Now().Add(3 * time.Millisecond))
				m, from, err := sender(k).ReadFromUDP(buf)
				if err != nil {
					break
				}
				ok := 0
				if from.Port == port {
					ok = 1
				}
				got = append(got, fmt.Sprintf("S%d:%s:from=%d", k, bytesRepr(buf[:m]), ok))
			}
			return tail(" " + strings.Join(got, " "))
		case "settings":
			return settings()
		case "setloop":
			return rc(peer.SetLoop(a[0] == "1")) + " " + settings()
		case "setttl":
			return rc(peer.SetTTL(uint8(atoi(a[0])))) + " " + settings()
		case "setall":
			return rc(peer.SetAll(a[0] == "1")) + " " + settings()
		case "join":
			return rc(peer.Join(group(a[0])))
		case "leave":
			return rc(peer.Leave(group(a[0])))
		case "joinsrc":
			return rc(peer.JoinSource(group(a[0]), source(a[1])))
		case "leavesrc":
			return rc(peer.LeaveSource(group(a[0]), source(a[1])))
		case "block":
			return rc(peer.BlockSource(group(a[0]), source(a[1])))
		case "unblock":
			return rc(peer.UnblockSource(group(a[0]), source(a[1])))
		case "msend":
			// one datagram to the group from the host's multicast-capable address (source 1); was it delivered to the peer?
			w, err := net.DialUDP("udp", nil, &net.UDPAddr{IP: net.ParseIP(string(group(a[0]))), Port: port})
			if err != nil {
				return "send-failed"
			}
			_, _ = w.Write([]byte{0xC1, byte(atoi(a[0]))})
			_ = w.Close()
			time.Sleep(2 * time.Millisecond)
			b := make([]byte, 16)
			n, _, err := peer.Read(b)
			if err != nil || n != 2 {
				return "got=0"
			}
			return fmt.Sprintf("got=1:%d", b[1])
		}
		panic("unknown op " + op)
	})
}
