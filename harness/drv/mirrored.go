package drv

import (
	"fmt"
	"os"
	"strings"
	"unsafe"

	sbytes "github.com/talostrading/sonic/bytes"
)

func init() { Drivers["mirrored"] = runMirrored }

func countMappings(name string) int {
	if name == "" {
		return 0
	}
	b, err := os.ReadFile("/proc/self/maps")
	if err != nil {
		return -1
	}
	return strings.Count(string(b), name)
}

func bytesObs(b []byte) string { return "q=" + bytesRepr(b) }

func runMirrored(c *Case) []string {
	req := c.Int("req", 4096)
	var b *sbytes.MirroredBuffer
	var whole []byte
	var base uintptr
	var live []byte
	var queue []int // virtual offsets of the queued bytes, as a caller remembers them
	size := 0
	name := ""
	off := func(s []byte) int { return int(uintptr(unsafe.Pointer(unsafe.SliceData(s))) - base) }
	tail := func() string {
		return fmt.Sprintf(" used=%d free=%d full=%d size=%d", b.UsedSpace(), b.FreeSpace(), b2i(b.Full()), b.Size())
	}
	defer func() {
		if b != nil {
			_ = b.Destroy()
		}
	}()
	return runOps(c, func(op string, a []string) string {
		switch op {
		case "new":
			var err error
			b, err = sbytes.NewMirroredBuffer(req, false)
			if err != nil {
				b = nil
				return "err"
			}
			size = b.Size()
			name = b.Name()
			s := b.Claim(1)
			base = uintptr(unsafe.Pointer(unsafe.SliceData(s)))
			whole = s[:cap(s)]
			return fmt.Sprintf("ok cap=%d", len(whole)) + tail()
		case "claim":
			live = b.Claim(atoi(a[0]))
			if len(live) == 0 {
				return "r=0" + tail()
			}
			return fmt.Sprintf("r=%d:%d", off(live), len(live)) + tail()
		case "fill":
			start := atoi(a[0])
			mirror := 1
			for i := range live {
				live[i] = byte(start + i)
			}
			if len(live) > 0 {
				o := off(live)
				for i := range live {
					p := (o + i) % size
					if whole[p] != byte(start+i) || whole[p+size] != byte(start+i) {
						mirror = 0
					}
				}
			}
			return fmt.Sprintf("w=%d mirror=%d", len(live), mirror) + tail()
		case "commit":
			start := -1
			if len(live) > 0 {
				start = off(live)
			} else if p := b.Claim(1); len(p) > 0 {
				start = off(p)
			}
			k := b.Commit(atoi(a[0]))
			for i := 0; i < k; i++ {
				queue = append(queue, start+i)
			}
			live = nil
			return fmt.Sprintf("k=%d", k) + tail()
		case "consume":
			k := b.Consume(atoi(a[0]))
			if k > len(queue) {
				queue = nil
			} else if k > 0 {
				queue = queue[k:]
			}
			return fmt.Sprintf("k=%d", k) + tail()
		case "reset":
			b.Reset()
			live = nil
			queue = nil
			return "u" + tail()
		case "dump":
			buf := make([]byte, 0, len(queue))
			for _, o := range queue {
				if o >= 0 && o < len(whole) {
					buf = append(buf, whole[o])
				} else {
					buf = append(buf, 0xEE)
				}
			}
			return bytesObs(buf) + tail()
		case "destroy":
			err := b.Destroy()
			maps := countMappings(name)
			_, serr := os.Stat(name)
			shm := 0
			if serr == nil {
				shm = 1
			}
			b = nil
			return fmt.Sprintf("err=%d maps=%d file=%d", b2i(err != nil), maps, shm)
		}
		panic("unknown op " + op)
	})
}
