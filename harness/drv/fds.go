package drv

import (
	"fmt"
	"net"
	"os"
	"runtime"
	"strings"
	"syscall"
	"time"

	"github.com/talostrading/sonic"
	"github.com/talostrading/sonic/codec/websocket"
	"github.com/talostrading/sonic/multicast"
	"github.com/talostrading/sonic/sonicopts"
)

// C13: descriptor census (/proc/self/fd) around every constructor under injected failures, repeated Close with other
// objects created in between (foreign close), and reachability of objects with operations in flight across GC.

func init() { Drivers["fds"] = runFDs }

func countFDs() int {
	ents, err := os.ReadDir("/proc/self/fd")
	if err != nil {
		panic(err)
	}
	return len(ents) - 1 // the directory handle itself
}

func fdValid(fd int) bool {
	_, _, e := syscall.Syscall(syscall.SYS_FCNTL, uintptr(fd), syscall.F_GETFD, 0)
	return e == 0
}

type fdObj struct {
	closeFn  func() error
	fds      []int
	live     bool
	conn     fdReader
	pkt      sonic.PacketConn
	lsn      sonic.Listener // listener objects: accepts re-armed from their own callback
	inflight bool // a read is deferred to the poller: the object must be in the IO's registry
}

type fdReader interface {
	AsyncRead(b []byte, cb sonic.AsyncCallback)
}

func runFDs(c *Case) []string {
	runtime.GC() // finalizers of earlier cases' objects must not disturb this census
	runtime.GC()
	time.Sleep(2 * time.Millisecond)
	ioc := sonic.MustIO()
	defer ioc.Close()
	// helpers of the harness itself, created before the baseline
	ln, err := net.Listen("tcp", "127.0.0.1:0")
	if err != nil {
		panic(err)
	}
	defer ln.Close()
	busyUDP, err := net.ListenPacket("udp", "127.0.0.1:0")
	if err != nil {
		panic(err)
	}
	defer busyUDP.Close()
	// a port nobody listens on
	tmp, _ := net.Listen("tcp", "127.0.0.1:0")
	deadAddr := tmp.Addr().String()
	_ = tmp.Close()
	base := countFDs()
	objs := map[string]*fdObj{}
	var accepted []net.Conn
	peers := map[string]net.Conn{} // the harness side of dialled conns
	defer func() {
		for _, a := range accepted {
			_ = a.Close()
		}
		for _, o := range objs {
			if o.live {
				_ = o.closeFn()
			}
		}
	}()
	// descriptors the harness itself holds on behalf of a test (accepted peers) are not counted
	delta := func() int { return countFDs() - base - len(accepted) }
	intact := func(except string) int {
		for id, o := range objs {
			if id == except || !o.live {
				continue
			}
			for _, fd := range o.fds {
				if !fdValid(fd) {
					return 0
				}
			}
		}
		return 1
	}
	// every live object with a read deferred to the poller is the one the IO's registry keeps alive under its descriptor number
	rooted := func(except string) int {
		for id, o := range objs {
			if id == except || !o.live || !o.inflight {
				continue
			}
			for _, fd := range o.fds {
				var owner any = o.conn
				if o.lsn != nil {
					owner = o.lsn
				}
				if o.pkt != nil {
					owner = o.pkt
				}
				if a := ioc.VerifRegisteredAddr(fd); a == 0 || a != sonic.VerifSlotAddr(owner) {
					return 0
				}
			}
		}
		return 1
	}
	reg := func(id string, err error, fds []int, closeFn func() error) string {
		if err != nil {
			return fmt.Sprintf("ok=0 open=%d", delta())
		}
		objs[id] = &fdObj{closeFn: closeFn, fds: fds, live: true}
		return fmt.Sprintf("ok=1 open=%d", delta())
	}
	return runOps(c, func(op string, a []string) string {
		switch op {
		case "census":
			return fmt.Sprintf("open=%d", delta())
		case "dial":
			addr := ln.Addr().String()
			if a[1] == "refused" {
				addr = deadAddr
			}
			conn, err := sonic.Dial(ioc, "tcp", addr)
			if err != nil {
				return reg(a[0], err, nil, nil)
			}
			p, _ := ln.Accept()
			accepted = append(accepted, p)
			peers[a[0]] = p
			r := reg(a[0], nil, []int{conn.RawFd()}, conn.Close)
			objs[a[0]].conn = conn
			return r
		case "adapter":
			// an AsyncAdapter over a net.Conn: the net.Conn owns the descriptor and is what gets closed
			nc, err := net.Dial("tcp", ln.Addr().String())
			if err != nil {
				return reg(a[0], err, nil, nil)
			}
			p, _ := ln.Accept()
			accepted = append(accepted, p)
			var ad *sonic.AsyncAdapter
			sonic.NewAsyncAdapter(ioc, nc.(syscall.Conn), nc, func(err error, x *sonic.AsyncAdapter) { ad = x })
			if ad == nil {
				_ = nc.Close()
				return reg(a[0], fmt.Errorf("adapter"), nil, nil)
			}
			r := reg(a[0], nil, []int{ad.RawFd()}, nc.Close)
			objs[a[0]].conn = ad
			return r
		case "dialudp":
			addr := busyUDP.LocalAddr().String()
			if a[1] == "bad" {
				addr = "255.255.255.255:9" // broadcast without SO_BROADCAST: connect is refused with EACCES
			}
			conn, err := sonic.Dial(ioc, "udp", addr)
			if err != nil {
				return reg(a[0], err, nil, nil)
			}
			return reg(a[0], nil, []int{conn.RawFd()}, conn.Close)
		case "listen":
			addr := "127.0.0.1:0"
			if a[1] == "inuse" {
				addr = ln.Addr().String()
			}
			l, err := sonic.Listen(ioc, "tcp", addr, sonicopts.Nonblocking(true))
			if err != nil {
				return reg(a[0], err, nil, nil)
			}
			r := reg(a[0], nil, []int{l.RawFd()}, l.Close)
			objs[a[0]].lsn = l
			return r
		case "packet":
			addr := "127.0.0.1:0"
			if a[1] == "inuse" {
				addr = busyUDP.LocalAddr().String()
			}
			pc, err := sonic.NewPacketConn(ioc, "udp", addr)
			if err != nil {
				return reg(a[0], err, nil, nil)
			}
			r := reg(a[0], nil, []int{pc.RawFd()}, pc.Close)
			objs[a[0]].pkt = pc
			return r
		case "pread":
			// a datagram read deferred to the poller (nothing was sent to this socket)
			if o := objs[a[0]]; o != nil && o.pkt != nil && o.live && !o.inflight {
				o.pkt.AsyncReadFrom(make([]byte, 16), func(error, int, net.Addr) { o.inflight = false })
				o.inflight = true
			}
			return fmt.Sprintf("open=%d intact=%d rooted=%d", delta(), intact(""), rooted(""))
		case "pwrites":
			// pwrites <id> <n>: n datagram writes, each started from the previous one's callback; past the dispatch limit the
			// next one is deferred to the poller and completes in a later poll while the read above is still in flight
			if o := objs[a[0]]; o != nil && o.pkt != nil && o.live {
				var w func(k int)
				w = func(k int) {
					if k > 0 && o.live {
						o.pkt.AsyncWriteTo([]byte{1}, busyUDP.LocalAddr(), func(error) { w(k - 1) })
					}
				}
				w(atoi(a[1]))
			}
			return fmt.Sprintf("open=%d intact=%d rooted=%d", delta(), intact(""), rooted(""))
		case "peer":
			addr := "127.0.0.1:0"
			if a[1] == "badaddr" {
				addr = "192.0.2.99:0" // not a local address: bind fails
			}
			p, err := multicast.NewUDPPeer(ioc, "udp", addr)
			if err != nil {
				return reg(a[0], err, nil, nil)
			}
			return reg(a[0], nil, []int{p.NextLayer().RawFd()}, p.Close)
		case "open":
			path := "/proc/self/status"
			if a[1] == "missing" {
				path = "/nonexistent/verif"
			}
			f, err := sonic.Open(ioc, path, os.O_RDONLY, 0)
			if err != nil {
				return reg(a[0], err, nil, nil)
			}
			return reg(a[0], nil, []int{f.RawFd()}, f.Close)
		case "timer":
			t, err := sonic.NewTimer(ioc)
			if err != nil {
				return reg(a[0], err, nil, nil)
			}
			return reg(a[0], nil, nil, t.Close)
		case "io":
			x, err := sonic.NewIO()
			if err != nil {
				return reg(a[0], err, nil, nil)
			}
			return reg(a[0], nil, nil, x.Close)
		case "ws":
			// ws <id> refused | badstatus | closeearly | ok
			s, err := websocket.NewWebsocketStream(ioc, nil, websocket.RoleClient)
			if err != nil {
				panic(err)
			}
			addr := ln.Addr().String()
			if a[1] == "refused" {
				addr = deadAddr
			}
			srvDone := make(chan struct{})
			if a[1] != "refused" {
				go func() {
					defer close(srvDone)
					conn, err := ln.Accept()
					if err != nil {
						return
					}
					_ = conn.SetDeadline(time.Now().Add(2 * time.Second))
					buf := make([]byte, 4096)
					n := 0
					for !strings.Contains(string(buf[:n]), "\r\n\r\n") {
						k, err := conn.Read(buf[n:])
						if err != nil {
							break
						}
						n += k
					}
					switch a[1] {
					case "badstatus":
						_, _ = conn.Write([]byte("HTTP/1.1 400 Bad Request\r\n\r\n"))
					case "closeearly":
						_, _ = conn.Write([]byte("HTTP/1.1 101 Swi"))
					case "garbage":
						_, _ = conn.Write([]byte("garbage\r\n\r\n"))
					}
					_ = conn.Close()
				}()
			} else {
				close(srvDone)
			}
			herr := s.Handshake("ws://" + addr + "/x")
			<-srvDone
			if a[2] == "again" {
				// a second failed handshake on the same stream must not strand the first connection
				go func() {
					conn, err := ln.Accept()
					if err == nil {
						_ = conn.Close()
					}
				}()
				_ = s.Handshake("ws://" + ln.Addr().String() + "/x")
			}
			return reg(a[0], herr, nil, s.CloseNextLayer)
		case "aread":
			// a read deferred to the poller (nothing to read yet)
			o := objs[a[0]]
			if o == nil || o.conn == nil || !o.live {
				return fmt.Sprintf("open=%d intact=%d rooted=%d", delta(), intact(""), rooted(""))
			}
			if !o.inflight {
				o.conn.AsyncRead(make([]byte, 4), func(error, int) {})
			}
			o.inflight = true
			return fmt.Sprintf("open=%d intact=%d rooted=%d", delta(), intact(""), rooted(""))
		case "aaccept":
			// an accept loop: every completed accept closes the connection it got and accepts again
			o := objs[a[0]]
			if o != nil && o.lsn != nil && o.live && !o.inflight {
				var again func()
				again = func() {
					o.lsn.AsyncAccept(func(err error, c sonic.Conn) {
						if c != nil {
							_ = c.Close()
						}
						if err == nil && o.live {
							again()
						} else {
							o.inflight = false
						}
					})
				}
				o.inflight = true
				again()
			}
			return fmt.Sprintf("open=%d intact=%d rooted=%d", delta(), intact(""), rooted(""))
		case "connect":
			// a client connects to listener a[0] and goes away again
			if o := objs[a[0]]; o != nil && o.lsn != nil && o.live {
				sa, err := syscall.Getsockname(o.lsn.RawFd())
				if err == nil {
					if c, err := net.Dial("tcp", fmt.Sprintf("127.0.0.1:%d", sa.(*syscall.SockaddrInet4).Port)); err == nil {
						time.Sleep(2 * time.Millisecond)
						_ = c.Close()
					}
				}
			}
			return fmt.Sprintf("open=%d intact=%d rooted=%d", delta(), intact(""), rooted(""))
		case "areadall":
			// a ReadAll of 8 bytes deferred to the poller; `feed` delivers a part, `poll` lets it read that part and wait again
			o := objs[a[0]]
			if ra, ok := o.conn.(interface {
				AsyncReadAll(b []byte, cb sonic.AsyncCallback)
			}); ok && o.live && !o.inflight {
				ra.AsyncReadAll(make([]byte, 8), func(error, int) { o.inflight = false })
				o.inflight = true
			}
			return fmt.Sprintf("open=%d intact=%d rooted=%d", delta(), intact(""), rooted(""))
		case "feed":
			if p := peers[a[0]]; p != nil {
				_, _ = p.Write(make([]byte, atoi(a[1])))
				time.Sleep(2 * time.Millisecond)
			}
			return fmt.Sprintf("open=%d intact=%d rooted=%d", delta(), intact(""), rooted(""))
		case "poll":
			_, _ = ioc.PollOne()
			return fmt.Sprintf("open=%d intact=%d rooted=%d", delta(), intact(""), rooted(""))
		case "close":
			o := objs[a[0]]
			if o == nil {
				return fmt.Sprintf("err=- open=%d intact=%d rooted=%d", delta(), intact(""), rooted(""))
			}
			err := o.closeFn()
			o.live = false
			return fmt.Sprintf("err=%d open=%d intact=%d rooted=%d", b2i(err != nil), delta(), intact(a[0]), rooted(a[0]))
		case "gcprobe":
			// gcprobe <read|both>: an object with operations in flight, no user reference left, two GC cycles, then the
			// peer makes it ready: the callback must run and nothing it captured may have been finalised
			conn, err := sonic.Dial(ioc, "tcp", ln.Addr().String())
			if err != nil {
				panic(err)
			}
			peer, _ := ln.Accept()
			defer peer.Close()
			type sentinel struct{ x [64]byte }
			finalized := 0
			mk := func() *sentinel {
				s := &sentinel{}
				runtime.SetFinalizer(s, func(*sentinel) { finalized++ })
				return s
			}
			readDone, writeDone := 0, 0
			func() {
				rs := mk()
				rb := make([]byte, 4)
				conn.AsyncReadAll(rb, func(err error, n int) { readDone++; rs.x[0]++ })
				if a[0] == "both" {
					// fill the socket so that the write is deferred to the poller
					ws := mk()
					big := make([]byte, 8<<20)
					conn.AsyncWriteAll(big, func(err error, n int) { writeDone++; ws.x[0]++ })
				}
			}()
			fd := conn.RawFd()
			conn = nil
			runtime.GC()
			runtime.GC()
			_, _ = peer.Write([]byte{1, 2, 3, 4})
			time.Sleep(2 * time.Millisecond)
			_, _ = ioc.PollOne()
			afterRead := finalized
			runtime.GC()
			runtime.GC()
			time.Sleep(2 * time.Millisecond)
			midFinal := finalized
			if a[0] == "both" {
				buf := make([]byte, 1<<20)
				_ = peer.SetReadDeadline(time.Now().Add(2 * time.Second))
				for i := 0; i < 64 && writeDone == 0; i++ {
					_, _ = peer.Read(buf)
					_, _ = ioc.PollOne()
				}
			}
			_ = syscall.Close(fd)
			want := 0
			if a[0] == "both" {
				want = 1
			}
			early := 0
			if afterRead > 0 || (a[0] == "both" && midFinal > 1) {
				early = 1
			}
			return fmt.Sprintf("read=%d write=%d wantwrite=%d early=%d", readDone, writeDone, want, early)
		}
		panic("unknown op " + op)
	})
}
