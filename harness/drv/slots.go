package drv

import (
	"fmt"

	"github.com/talostrading/sonic"
	"github.com/talostrading/sonic/util"
)

func init() {
	Drivers["slots"] = runSlots
	Drivers["fenwick"] = runFenwick
}

func runSlots(c *Case) []string {
	maxSlots := c.Int("maxslots", 8)
	maxBytes := c.Int("maxbytes", 64)
	b := sonic.NewByteBuffer()
	s := sonic.NewSlotSequencer(maxSlots, maxBytes)
	state := func() string {
		return fmt.Sprintf(" size=%d bytes=%d saved=%s room=%d len=%d", s.Size(), s.Bytes(), hexs(b.Saved()), b.Reserved(), b.Len())
	}
	return runOps(c, func(op string, a []string) string {
		switch op {
		case "park":
			seq := atoi(a[0])
			payload := unhex(a[1])
			n := len(payload)
			b.Write(payload)
			b.Commit(n)
			slot := b.Save(n)
			ok, err := s.Push(seq, slot)
			if !ok || err != nil {
				b.Discard(slot)
			}
			return fmt.Sprintf("push=%d:%d", b2i(ok), b2i(err != nil)) + state()
		case "pop":
			slot, ok := s.Pop(atoi(a[0]))
			if !ok {
				return "pop=0:-" + state()
			}
			got := append([]byte(nil), b.SavedSlot(slot)...)
			b.Discard(slot)
			return "pop=1:" + hexs(got) + state()
		case "reset":
			s.Reset()
			b.DiscardAll()
			return "u" + state()
		case "observe":
			return "u" + state()
		}
		panic("unknown op " + op)
	})
}

// fenwick: add i d / sum q / total / reset on a tree of size n
func runFenwick(c *Case) []string {
	t := util.NewFenwickTree(c.Int("n", 8))
	return runOps(c, func(op string, a []string) string {
		switch op {
		case "add":
			t.Add(atoi(a[0]), atoi(a[1]))
			return "u"
		case "sum":
			return fmt.Sprintf("v=%d", t.SumUntil(atoi(a[0])))
		case "total":
			return fmt.Sprintf("v=%d", t.Sum())
		case "reset":
			t.Reset()
			return "u"
		}
		panic("unknown op " + op)
	})
}
