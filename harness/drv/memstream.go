package drv

import (
	"io"

	"github.com/talostrading/sonic"
	"github.com/talostrading/sonic/sonicerrors"
)

// memStream is a scripted, single-threaded in-memory transport implementing sonic.Stream.
//
// Inbound side: a queue of events (data chunk, EOF, error). A read takes bytes from the head chunk (at most maxRead
// per call if maxRead > 0); with nothing queued a synchronous Read reports ErrWouldBlock and an asynchronous read is
// parked until the script queues more input (Pump delivers it).
//
// Outbound side: every accepted byte is appended to Wire. wAccept > 0 limits the bytes accepted per Write call;
// wFailAfter >= 0 makes the transport fail once that many more bytes were accepted; wBlock parks asynchronous writes
// until Unblock.
type memStream struct {
	in        []inEvent
	maxRead   int
	closed    bool
	Wire      []byte
	wAccept   int
	wFailAfter int // -1: never
	wBlock    bool

	pendRead  *pendingRead
	pendWrite *pendingWrite

	ReadCalls  int
	WriteCalls int
}

type inEvent struct {
	kind int // 0 data, 1 eof, 2 error
	data []byte
}

type pendingRead struct {
	b   []byte
	all bool
	got int
	cb  sonic.AsyncCallback
}

type pendingWrite struct {
	b   []byte
	all bool
	cb  sonic.AsyncCallback
}

func newMemStream() *memStream { return &memStream{wFailAfter: -1} }

func (m *memStream) PushData(b []byte) { m.in = append(m.in, inEvent{kind: 0, data: append([]byte(nil), b...)}) }
func (m *memStream) PushEOF()          { m.in = append(m.in, inEvent{kind: 1}) }
func (m *memStream) PushErr()          { m.in = append(m.in, inEvent{kind: 2}) }

// take implements one read attempt: (n, err, ok). ok=false means nothing is queued.
func (m *memStream) take(p []byte) (int, error, bool) {
	for len(m.in) > 0 && m.in[0].kind == 0 && len(m.in[0].data) == 0 {
		m.in = m.in[1:]
	}
	if len(m.in) == 0 {
		return 0, nil, false
	}
	ev := &m.in[0]
	switch ev.kind {
	case 1:
		return 0, io.EOF, true
	case 2:
		m.in = m.in[1:]
		return 0, errScripted, true
	}
	lim := len(p)
	if m.maxRead > 0 && lim > m.maxRead {
		lim = m.maxRead
	}
	n := copy(p[:lim], ev.data)
	ev.data = ev.data[n:]
	if len(ev.data) == 0 {
		m.in = m.in[1:]
	}
	return n, nil, true
}

func (m *memStream) Read(p []byte) (int, error) {
	m.ReadCalls++
	if len(p) == 0 {
		return 0, nil
	}
	n, err, ok := m.take(p)
	if !ok {
		return 0, sonicerrors.ErrWouldBlock
	}
	return n, err
}

func (m *memStream) AsyncRead(p []byte, cb sonic.AsyncCallback) {
	m.ReadCalls++
	if len(p) == 0 {
		cb(nil, 0)
		return
	}
	n, err, ok := m.take(p)
	if !ok {
		m.pendRead = &pendingRead{b: p, cb: cb}
		return
	}
	cb(err, n)
}

func (m *memStream) AsyncReadAll(p []byte, cb sonic.AsyncCallback) {
	m.ReadCalls++
	pr := &pendingRead{b: p, all: true, cb: cb}
	m.pendRead = pr
	m.Pump()
}

// Pump delivers queued input to a parked asynchronous read. Returns true if a callback ran.
func (m *memStream) Pump() bool {
	pr := m.pendRead
	if pr == nil {
		return false
	}
	for {
		n, err, ok := m.take(pr.b[pr.got:])
		if !ok {
			return false
		}
		pr.got += n
		if err != nil || !pr.all || pr.got == len(pr.b) {
			m.pendRead = nil
			pr.cb(err, pr.got)
			return true
		}
	}
}

func (m *memStream) accept(p []byte) (int, error) {
	if m.wFailAfter == 0 {
		return 0, errScripted
	}
	n := len(p)
	if m.wAccept > 0 && n > m.wAccept {
		n = m.wAccept
	}
	if m.wFailAfter > 0 {
		if n > m.wFailAfter {
			n = m.wFailAfter
		}
		m.wFailAfter -= n
	}
	m.Wire = append(m.Wire, p[:n]...)
	return n, nil
}

func (m *memStream) Write(p []byte) (int, error) {
	m.WriteCalls++
	return m.accept(p)
}

func (m *memStream) AsyncWrite(p []byte, cb sonic.AsyncCallback) {
	m.WriteCalls++
	if m.wBlock {
		m.pendWrite = &pendingWrite{b: p, cb: cb}
		return
	}
	n, err := m.accept(p)
	cb(err, n)
}

func (m *memStream) AsyncWriteAll(p []byte, cb sonic.AsyncCallback) {
	m.WriteCalls++
	if m.wBlock {
		m.pendWrite = &pendingWrite{b: p, all: true, cb: cb}
		return
	}
	m.writeAll(p, cb)
}

func (m *memStream) writeAll(p []byte, cb sonic.AsyncCallback) {
	written := 0
	for written < len(p) {
		n, err := m.accept(p[written:])
		written += n
		if err != nil {
			cb(err, written)
			return
		}
	}
	cb(nil, written)
}

// Unblock completes a parked asynchronous write. Returns true if a callback ran.
func (m *memStream) Unblock() bool {
	m.wBlock = false
	pw := m.pendWrite
	if pw == nil {
		return false
	}
	m.pendWrite = nil
	if pw.all {
		m.writeAll(pw.b, pw.cb)
	} else {
		n, err := m.accept(pw.b)
		pw.cb(err, n)
	}
	return true
}

func (m *memStream) Cancel() {
	if pr := m.pendRead; pr != nil {
		m.pendRead = nil
		pr.cb(sonicerrors.ErrCancelled, pr.got)
	}
	if pw := m.pendWrite; pw != nil {
		m.pendWrite = nil
		pw.cb(sonicerrors.ErrCancelled, 0)
	}
}

func (m *memStream) Close() error { m.closed = true; return nil }
func (m *memStream) RawFd() int   { return -1 }

// TakeWire returns and clears the bytes written since the last call.
func (m *memStream) TakeWire() []byte {
	w := m.Wire
	m.Wire = nil
	return w
}

var _ sonic.Stream = (*memStream)(nil)
