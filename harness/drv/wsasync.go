package drv

import (
	"bufio"
	"bytes"
	"crypto/sha1"
	"encoding/base64"
	"fmt"
	"net"
	"strings"
	"time"

	"github.com/talostrading/sonic"
	"github.com/talostrading/sonic/codec/websocket"
)

// C17: a real websocket client stream over the real AsyncAdapter on a real loopback socket: reads and writes in
// flight together, automatic Pong flushes racing application writes, relative to poll cycles.

func init() { Drivers["wsasync"] = runWsAsync }

func runWsAsync(c *Case) []string {
	ioc := sonic.MustIO()
	defer ioc.Close()
	ln, err := net.Listen("tcp", "127.0.0.1:0")
	if err != nil {
		panic(err)
	}
	defer ln.Close()
	srvCh := make(chan net.Conn, 1)
	go func() {
		conn, err := ln.Accept()
		if err != nil {
			srvCh <- nil
			return
		}
		br := bufio.NewReader(conn)
		var raw []byte
		for !bytes.HasSuffix(raw, []byte("\r\n\r\n")) {
			b, err := br.ReadByte()
			if err != nil {
				srvCh <- nil
				return
			}
			raw = append(raw, b)
		}
		key := ""
		for _, l := range strings.Split(string(raw), "\r\n") {
			if i := strings.IndexByte(l, ':'); i > 0 && strings.EqualFold(l[:i], "Sec-WebSocket-Key") {
				key = strings.TrimSpace(l[i+1:])
			}
		}
		sum := sha1.Sum([]byte(key + "258EAFA5-E914-47DA-95CA-C5AB0DC85B11"))
		_, _ = conn.Write([]byte("HTTP/1.1 101 Switching Protocols\r\nUpgrade: websocket\r\nConnection: Upgrade\r\nSec-WebSocket-Accept: " +
			base64.StdEncoding.EncodeToString(sum[:]) + "\r\n\r\n"))
		srvCh <- conn
	}()
	s, err := websocket.NewWebsocketStream(ioc, nil, websocket.RoleClient)
	if err != nil {
		panic(err)
	}
	if err := s.Handshake("ws://" + ln.Addr().String() + "/"); err != nil {
		panic(err)
	}
	srv := <-srvCh
	if srv == nil {
		panic("server side of the handshake failed")
	}
	defer srv.Close()
	defer s.CloseNextLayer()

	var events []string
	chain := map[string][2]string{} // write id -> (next write id, length): what the callback of a write starts
	var got []byte // bytes the server received
	tail := func() string {
		e := strings.Join(events, " ")
		events = nil
		if e == "" {
			return "-"
		}
		return e
	}
	return runOps(c, func(op string, a []string) string {
		switch op {
		case "read", "readb":
			id := a[0]
			b := make([]byte, 70000)
			if op == "readb" {
				b = make([]byte, atoi(a[1]))
			}
			s.AsyncNextMessage(b, func(err error, n int, mt websocket.MessageType) {
				if err != nil {
					events = append(events, fmt.Sprintf("cb=%s:err%d", id, loopErrClass(err)))
				} else {
					events = append(events, fmt.Sprintf("cb=%s:%d:%s", id, int(mt), bytesRepr(b[:n])))
				}
			})
			return tail()
		case "chain":
			chain[a[0]] = [2]string{a[1], a[2]}
			return tail()
		case "write":
			var start func(id string, n int)
			start = func(id string, n int) {
				p := make([]byte, n)
				for i := range p {
					p[i] = rwOutByte(atoi(id), i)
				}
				s.AsyncWrite(p, websocket.TypeBinary, func(err error) {
					if err != nil {
						events = append(events, fmt.Sprintf("cb=%s:err%d", id, loopErrClass(err)))
					} else {
						events = append(events, fmt.Sprintf("cb=%s:0:-", id))
					}
					if nx, ok := chain[id]; ok && err == nil {
						start(nx[0], atoi(nx[1]))
					}
				})
			}
			start(a[0], atoi(a[1]))
			return tail()
		case "close":
			id := a[0]
			s.AsyncClose(websocket.CloseNormal, "", func(err error) {
				if err != nil {
					events = append(events, fmt.Sprintf("cb=%s:err%d", id, loopErrClass(err)))
				} else {
					events = append(events, fmt.Sprintf("cb=%s:0:-", id))
				}
			})
			return tail()
		case "peer":
			opc, p := atoi(a[0]), unhex(a[1])
			f := []byte{byte(0x80 | opc), byte(len(p))}
			f = append(f, p...)
			_, _ = srv.Write(f)
			time.Sleep(2 * time.Millisecond)
			return tail()
		case "poll":
			_, _ = ioc.PollOne()
			return tail()
		case "frames":
			buf := make([]byte, 1<<16)
			for {
				_ = srv.SetReadDeadline(time.Now().Add(5 * time.Millisecond))
				n, err := srv.Read(buf)
				got = append(got, buf[:n]...)
				if err != nil || n == 0 {
					break
				}
			}
			// parse the (masked) client frames received so far
			var out []string
			rest := got
			for len(rest) >= 2 {
				opc := int(rest[0] & 15)
				l := int(rest[1] & 127)
				off := 2
				if l == 126 {
					if len(rest) < 4 {
						break
					}
					l = int(rest[2])<<8 | int(rest[3])
					off = 4
				}
				if rest[1]&128 == 0 {
					out = append(out, "unmasked")
					break
				}
				if len(rest) < off+4+l {
					break
				}
				key := rest[off : off+4]
				p := make([]byte, l)
				for i := range p {
					p[i] = rest[off+4+i] ^ key[i%4]
				}
				out = append(out, fmt.Sprintf("%d:%s", opc, bytesRepr(p)))
				rest = rest[off+4+l:]
			}
			t := tail()
			return fmt.Sprintf("%s frames=%s rest=%d", t, strings.Join(out, ","), len(rest))
		}
		panic("unknown op " + op)
	})
}
