package main

import (
	"bufio"
	"fmt"
	"os"

	"verifharness/drv"
)

func main() {
	if len(os.Args) < 3 || os.Args[1] != "run" {
		fmt.Fprintln(os.Stderr, "usage: harness run <driver> < scripts > traces")
		os.Exit(2)
	}
	d, ok := drv.Drivers[os.Args[2]]
	if !ok {
		fmt.Fprintln(os.Stderr, "unknown driver", os.Args[2])
		os.Exit(2)
	}
	cases, err := drv.ReadCases(bufio.NewReaderSize(os.Stdin, 1<<20))
	if err != nil {
		fmt.Fprintln(os.Stderr, err)
		os.Exit(2)
	}
	w := bufio.NewWriterSize(os.Stdout, 1<<20)
	defer w.Flush()
	for i := range cases {
		obs := d(&cases[i])
		drv.WriteTrace(w, &cases[i], obs)
	}
}
